/-
  Helper lemmas for the arithmetic of the Eisel–Lemire stage (`MinLex/Model/Lemire.lean`):
  `power`, the 128-bit table rows, `fullMultiplication`, `computeProductApprox`, normalisation.
-/
import MinLex.Props.C14
import MinLex.Proofs.WellFormed
import MinLex.Proofs.Bits
import Mathlib.Tactic.Ring
import Mathlib.Tactic.Linarith
namespace MinLex.LemireP
open MinLex

/-! ### generic lifting of Boolean range / list checks to ∀-statements -/

/-- `p q && p (q+1) && … && p (q+n-1)` -/
def rangeGo (p : Int → Bool) : Nat → Int → Bool
  | 0, _ => true
  | n+1, q => p q && rangeGo p n (q+1)

theorem rangeGo_get (p : Int → Bool) : ∀ (n : Nat) (q : Int), rangeGo p n q = true →
    ∀ i : Nat, i < n → p (q + i) = true
  | 0, _, _, i, h => by omega
  | n+1, q, hgo, i, h => by
    simp only [rangeGo, Bool.and_eq_true] at hgo
    cases i with
    | zero => simpa using hgo.1
    | succ j =>
      have := rangeGo_get p n (q+1) hgo.2 j (by omega)
      have e1 : q + ((j + 1 : Nat) : Int) = q + 1 + (j : Int) := by omega
      rw [e1]; exact this

theorem rangeGo_int (p : Int → Bool) (n : Nat) (lo : Int) (h : rangeGo p n lo = true)
    (q : Int) (h1 : lo ≤ q) (h2 : q < lo + n) : p q = true := by
  have := rangeGo_get p n lo h (q - lo).toNat (by omega)
  have e : lo + ((q - lo).toNat : Int) = q := by omega
  rwa [e] at this

/-- `p l[0] q && p l[1] (q+1) && …` -/
def rowsGo (p : Nat × Nat → Int → Bool) : List (Nat × Nat) → Int → Bool
  | [], _ => true
  | e :: es, q => p e q && rowsGo p es (q+1)

theorem rowsGo_get (p : Nat × Nat → Int → Bool) : ∀ (l : List (Nat × Nat)) (q : Int), rowsGo p l q = true →
    ∀ (i : Nat) (h : i < l.length), p l[i] (q + i) = true
  | [], _, _, i, h => by simp at h
  | e :: es, q, hgo, i, h => by
    simp only [rowsGo, Bool.and_eq_true] at hgo
    cases i with
    | zero => simpa using hgo.1
    | succ j =>
      have := rowsGo_get p es (q+1) hgo.2 j (by simpa using h)
      simp only [List.getElem_cons_succ]
      have e1 : q + ((j + 1 : Nat) : Int) = q + 1 + (j : Int) := by omega
      rw [e1]; exact this

/-! ### `power` -/

theorem wrapI32_id {x : Int} (h1 : -2147483648 ≤ x) (h2 : x < 2147483648) : wrapI32 x = x := by
  unfold wrapI32; simp only []; split <;> omega

/-- the multiplication in `power` does not wrap for `|q| ≤ 9863` -/
theorem power_no_wrap {q : Int} (h1 : -9863 ≤ q) (h2 : q ≤ 9863) : wrapI32 (q * 217706) = q * 217706 :=
  wrapI32_id (by omega) (by omega)

theorem power_eq {q : Int} (h1 : -9863 ≤ q) (h2 : q ≤ 9863) : power q = q * 217706 / 65536 + 63 := by
  unfold power; rw [power_no_wrap h1 h2]

/-- `power q − 63 = ⌊log2 10^q⌋`, Boolean form for one `q` -/
def powerOk (q : Int) : Bool :=
  let e := power q - 63
  if q ≥ 0 then decide (0 ≤ e) && decide (2^e.toNat ≤ 10^q.toNat) && decide (10^q.toNat < 2^(e+1).toNat)
  else decide (e < 0) && decide (10^(-q).toNat ≤ 2^(-e).toNat) && decide (2^(-e-1).toNat < 10^(-q).toNat)

theorem power_check : rangeGo powerOk 651 (-342) = true := by decide +kernel

theorem powerOk_all {q : Int} (h1 : -342 ≤ q) (h2 : q ≤ 308) : powerOk q = true :=
  rangeGo_int powerOk 651 (-342) power_check q h1 (by omega)

/-! ### the table rows -/

/-- binary exponent of a row: `5^q ≈ T · 2^(rowExp q)` with `2^127 ≤ T < 2^128` -/
def rowExp (q : Int) : Int := power q - q - 190

/-- bracket of one row `(hi, lo)` for exponent `q`, Boolean form -/
def rowOk (e : Nat × Nat) (q : Int) : Bool :=
  let T := e.1 * 2^64 + e.2
  let s := rowExp q
  decide (e.1 < 2^64) && decide (e.2 < 2^64) && decide (2^63 ≤ e.1) &&
  (if q ≥ 0 then
    if s ≥ 0 then decide (T * 2^s.toNat ≤ 5^q.toNat) && decide (5^q.toNat < (T+1) * 2^s.toNat)
    else decide (T = 5^q.toNat * 2^(-s).toNat)
  else
    decide (s < 0) &&
    (if q ≥ -27 then decide ((T-1) * 5^(-q).toNat ≤ 2^(-s).toNat) && decide (2^(-s).toNat < T * 5^(-q).toNat)
     else decide (T * 5^(-q).toNat ≤ 2^(-s).toNat) && decide (2^(-s).toNat < (T+1) * 5^(-q).toNat)))

theorem rows_check : rowsGo rowOk Gen.powerOfFive128 (-342) = true := by decide +kernel

theorem table_length : Gen.powerOfFive128.length = 651 := by decide +kernel

theorem rowOk_all (i : Nat) (h : i < Gen.powerOfFive128.length) :
    rowOk Gen.powerOfFive128[i] (-342 + i) = true :=
  rowsGo_get rowOk _ _ rows_check i h

/-! ### `fullMultiplication` -/

theorem fullMultiplication_eq (a b : Nat) :
    (fullMultiplication a b).1 + 2^64 * (fullMultiplication a b).2 = a * b := by
  unfold fullMultiplication u64Mod; simp only []
  have := Nat.div_add_mod (a * b) 18446744073709551616
  omega

theorem fullMultiplication_lo_lt (a b : Nat) : (fullMultiplication a b).1 < 2^64 := by
  unfold fullMultiplication u64Mod; simp only []
  exact Nat.mod_lt _ (by decide)

theorem mul_lt_of_u64 {a b : Nat} (ha : a < 2^64) (hb : b < 2^64) : a * b ≤ (2^64 - 1) * (2^64 - 1) :=
  Nat.mul_le_mul (by omega) (by omega)

theorem fullMultiplication_hi_lt {a b : Nat} (ha : a < 2^64) (hb : b < 2^64) :
    (fullMultiplication a b).2 < 2^64 - 1 := by
  unfold fullMultiplication u64Mod; simp only []
  have := mul_lt_of_u64 ha hb
  rw [Nat.div_lt_iff_lt_mul (by decide)]
  omega

/-! ### `computeProductApprox` -/

/-- the mask of `compute_product_approx` -/
def paMask (precision : Nat) : Nat := if precision < 64 then u64Max >>> precision else u64Max

/-- "the second multiplication is taken" -/
def secondTaken (w hi5 precision : Nat) : Bool :=
  (fullMultiplication w hi5).2 &&& paMask precision == paMask precision

/-- the arithmetic core of `compute_product_approx` on a row `(hi5, lo5)` -/
def productCore (w hi5 lo5 precision : Nat) : Nat × Nat :=
  let first := fullMultiplication w hi5
  if secondTaken w hi5 precision then
    let second := fullMultiplication w lo5
    let firstLo := (first.1 + second.2) % u64Mod
    let firstHi := if second.2 > firstLo then first.2 + 1 else first.2
    (firstLo, firstHi)
  else first

theorem computeProductApprox_eq (T : LemireTables) (q : Int) (w precision : Nat) {hi5 lo5 : Nat}
    (hq : T.smallestPowerOfFive ≤ q)
    (hrow : T.powerOfFive128[(q - T.smallestPowerOfFive).toNat]? = some (hi5, lo5)) :
    computeProductApprox T q w precision = some (productCore w hi5 lo5 precision) := by
  unfold computeProductApprox productCore secondTaken paMask
  simp only []
  rw [if_neg (by omega), hrow]
  exact (apply_ite some _ _ _).symm

theorem paMask_eq {p : Nat} (hp : p < 64) : paMask p = 2^(64 - p) - 1 := by
  unfold paMask u64Max
  rw [if_pos hp, Nat.shiftRight_eq_div_pow]
  have h1 : (18446744073709551615 : Nat) = 2^(64-p) * 2^p - 1 := by
    rw [← Nat.pow_add]; have : 64 - p + p = 64 := by omega
    rw [this]
  rw [h1]
  have hpos : 0 < 2^p := Nat.two_pow_pos p
  have hpos' : 0 < 2^(64-p) := Nat.two_pow_pos _
  apply Nat.div_eq_of_lt_le
  · have : (2 ^ (64 - p) - 1) * 2 ^ p = 2 ^ (64 - p) * 2^p - 2^p := Nat.sub_one_mul ..
    omega
  · have : (2 ^ (64 - p) - 1 + 1) = 2 ^ (64 - p) := by omega
    rw [this]
    have : 0 < 2 ^ (64 - p) * 2 ^ p := Nat.mul_pos hpos' hpos
    omega

/-- the condition for the second multiplication: the low `64 − precision` bits of the first high
    word are all ones -/
theorem secondTaken_iff {w hi5 p : Nat} (hp : p < 64) :
    secondTaken w hi5 p = true ↔ (w * hi5 / 2^64) % 2^(64 - p) = 2^(64 - p) - 1 := by
  unfold secondTaken
  rw [paMask_eq hp, Bits.and_lowMask]
  simp [fullMultiplication, u64Mod]

theorem productCore_not_taken {w hi5 lo5 p : Nat} (h : secondTaken w hi5 p = false) :
    productCore w hi5 lo5 p = (w * hi5 % 2^64, w * hi5 / 2^64) := by
  unfold productCore; simp only [h]; rfl

/-- with the second product, `hi·2^64 + lo = w·hi5 + ⌊w·lo5 / 2^64⌋`: the carry logic is right -/
theorem productCore_taken {w hi5 lo5 p : Nat} (hw : w < 2^64) (hlo : lo5 < 2^64)
    (h : secondTaken w hi5 p = true) :
    (productCore w hi5 lo5 p).2 * 2^64 + (productCore w hi5 lo5 p).1 = w * hi5 + w * lo5 / 2^64 := by
  unfold productCore; simp only [h, if_true]
  have e := fullMultiplication_eq w hi5
  have l1 := fullMultiplication_lo_lt w hi5
  have l2 := fullMultiplication_hi_lt hw hlo
  have e2 : (fullMultiplication w lo5).2 = w * lo5 / 2^64 := rfl
  rw [← e2]
  generalize (fullMultiplication w lo5).2 = c at *
  generalize (fullMultiplication w hi5).1 = a at *
  generalize (fullMultiplication w hi5).2 = b at *
  unfold u64Mod
  split <;> omega

theorem productCore_lt {w hi5 lo5 p : Nat} (hw : w < 2^64) (hhi : hi5 < 2^64) :
    (productCore w hi5 lo5 p).1 < 2^64 ∧ (productCore w hi5 lo5 p).2 < 2^64 := by
  have l1 := fullMultiplication_lo_lt w hi5
  have l2 := fullMultiplication_hi_lt hw hhi
  unfold productCore; simp only []
  split
  · refine ⟨Nat.mod_lt _ (by decide), ?_⟩
    split <;> omega
  · exact ⟨l1, by omega⟩

theorem productCore_hi_ge {w hi5 lo5 p : Nat} : w * hi5 / 2^64 ≤ (productCore w hi5 lo5 p).2 := by
  have e2 : (fullMultiplication w hi5).2 = w * hi5 / 2^64 := rfl
  unfold productCore; simp only []
  split
  · split <;> omega
  · omega

theorem productCore_hi_ge_norm {w hi5 lo5 p : Nat} (hw : 2^63 ≤ w) (hhi : 2^63 ≤ hi5) :
    2^62 ≤ (productCore w hi5 lo5 p).2 := by
  refine Nat.le_trans ?_ productCore_hi_ge
  rw [Nat.le_div_iff_mul_le (by decide)]
  have := Nat.mul_le_mul hw hhi
  omega

/-! ### `clz64` and normalisation -/

theorem clz64_le {w : Nat} (h0 : 0 < w) (h : w < 2^64) : clz64 w ≤ 63 := by
  unfold clz64; rw [if_neg (by omega)]; omega

theorem log2_le_63 {w : Nat} (h0 : 0 < w) (h : w < 2^64) : Nat.log2 w ≤ 63 := by
  have := (Nat.log2_lt (n := w) (k := 64) (by omega)).mpr h
  omega

/-- `w << lz` has its top bit set and does not overflow -/
theorem norm_bounds {w : Nat} (h0 : 0 < w) (h : w < 2^64) :
    2^63 ≤ w * 2^(clz64 w) ∧ w * 2^(clz64 w) < 2^64 := by
  have hl := log2_le_63 h0 h
  have h1 := Nat.log2_self_le (n := w) (by omega)
  have h2 := Nat.lt_log2_self (n := w)
  unfold clz64; rw [if_neg (by omega)]
  have e1 : 2^63 = 2^(Nat.log2 w) * 2^(63 - Nat.log2 w) := by
    rw [← Nat.pow_add]; congr 1; omega
  have e2 : 2^64 = 2^(Nat.log2 w + 1) * 2^(63 - Nat.log2 w) := by
    rw [← Nat.pow_add]; congr 1; omega
  have hp : 0 < 2^(63 - Nat.log2 w) := Nat.two_pow_pos _
  constructor
  · rw [e1]; exact Nat.mul_le_mul_right _ h1
  · rw [e2]; exact Nat.mul_lt_mul_of_pos_right h2 hp

theorem norm_mod {w : Nat} (h0 : 0 < w) (h : w < 2^64) :
    (w * 2^(clz64 w)) % u64Mod = w * 2^(clz64 w) := by
  unfold u64Mod; exact Nat.mod_eq_of_lt (norm_bounds h0 h).2

/-! ### table lookup -/

theorem genLemire_smallest : genLemire.smallestPowerOfFive = -342 := by decide +kernel

theorem row_exists {q : Int} (h1 : -342 ≤ q) (h2 : q ≤ 308) :
    ∃ r : Nat × Nat, genLemire.powerOfFive128[(q - genLemire.smallestPowerOfFive).toNat]? = some r ∧
      rowOk r q = true := by
  rw [genLemire_smallest]
  have hlen := table_length
  have hi : (q - -342).toNat < Gen.powerOfFive128.length := by omega
  refine ⟨Gen.powerOfFive128[(q - -342).toNat], ?_, ?_⟩
  · show Gen.powerOfFive128[(q - -342).toNat]? = _
    exact List.getElem?_eq_getElem hi
  · have := rowOk_all _ hi
    have e : (-342 : Int) + ((q - -342).toNat : Int) = q := by omega
    rwa [e] at this

theorem rowOk_bounds {r : Nat × Nat} {q : Int} (h : rowOk r q = true) :
    r.1 < 2^64 ∧ r.2 < 2^64 ∧ 2^63 ≤ r.1 := by
  unfold rowOk at h
  simp only [Bool.and_eq_true, decide_eq_true_eq] at h
  exact ⟨h.1.1.1, h.1.1.2, h.1.2⟩

/-! ### `computeFloat` after the product -/

/-- subnormal branch of `compute_float`: `mantissa >>= k; round half up; exp = carry` -/
def subnormalOut (F : FloatC) (mantissa k : Nat) : ExtFloat :=
  let m1 := mantissa >>> k
  let m2 := m1 + m1 % 2
  let m3 := m2 >>> 1
  ⟨m3, if m3 ≥ 2^F.mantissaSize then 1 else 0⟩

/-- normal branch of `compute_float` -/
def normalOut (F : FloatC) (q : Int) (lo hi mantissa sh : Nat) (power2 : Int) : ExtFloat :=
  let m0 :=
    if lo ≤ 1 ∧ q ≥ F.minExponentRoundToEven ∧ q ≤ F.maxExponentRoundToEven
        ∧ mantissa % 4 = 1 ∧ (mantissa <<< sh) % u64Mod = hi
    then mantissa - mantissa % 2 else mantissa
  let m1 := m0 + m0 % 2
  let m2 := m1 >>> 1
  let (m3, p3) := if m2 ≥ 2 * 2^F.mantissaSize then (2^F.mantissaSize, power2 + 1) else (m2, power2)
  let m4 := if m3 / 2^F.mantissaSize % 2 = 1 then m3 - 2^F.mantissaSize else m3
  if p3 ≥ F.infinitePower then ⟨0, F.infinitePower⟩ else ⟨m4, p3⟩

/-- the part of `compute_float` after `compute_product_approx` returned `(lo, hi)` -/
def roundCore (F : FloatC) (q : Int) (lz : Nat) (lo hi : Nat) : ExtFloat :=
  if lo = u64Max ∧ ¬ (q ≥ -27 ∧ q ≤ 55) then computeErrorScaled F q hi lz
  else
    let upperbit := hi / 9223372036854775808
    let sh := upperbit + 64 - F.mantissaSize - 3
    let mantissa := hi >>> sh
    let power2 : Int := power q + upperbit - lz - F.minimumExponent
    if power2 ≤ 0 then
      if -power2 + 1 ≥ 64 then ⟨0, 0⟩
      else subnormalOut F mantissa (-power2 + 1).toNat
    else normalOut F q lo hi mantissa sh power2

theorem computeFloat_small (T : LemireTables) (F : FloatC) {q : Int} (w : Nat)
    (h : q < F.smallestPowerOfTen) : computeFloat T F q w = some ⟨0, 0⟩ := by
  unfold computeFloat; simp only []; rw [if_pos (Or.inr h)]

theorem computeFloat_zero (T : LemireTables) (F : FloatC) (q : Int) :
    computeFloat T F q 0 = some ⟨0, 0⟩ := by
  unfold computeFloat; simp

theorem computeFloat_large (T : LemireTables) (F : FloatC) {q : Int} {w : Nat} (hw : w ≠ 0)
    (h1 : F.smallestPowerOfTen ≤ q) (h : q > F.largestPowerOfTen) :
    computeFloat T F q w = some ⟨0, F.infinitePower⟩ := by
  unfold computeFloat; simp only []; rw [if_neg (by omega), if_pos h]

theorem computeFloat_mid (T : LemireTables) (F : FloatC) {q : Int} {w : Nat} (hw : w ≠ 0)
    (h1 : F.smallestPowerOfTen ≤ q) (h2 : q ≤ F.largestPowerOfTen) {p : Nat × Nat}
    (hp : computeProductApprox T q ((w * 2^(clz64 w)) % u64Mod) (F.mantissaSize + 3) = some p) :
    computeFloat T F q w = some (roundCore F q (clz64 w) p.1 p.2) := by
  unfold computeFloat; simp only []
  rw [if_neg (by omega), if_neg (by omega), hp]
  obtain ⟨lo, hi⟩ := p
  simp only []
  unfold roundCore subnormalOut normalOut
  simp only []
  repeat' split
  all_goals rfl

theorem computeFloat_mid_none (T : LemireTables) (F : FloatC) {q : Int} {w : Nat} (hw : w ≠ 0)
    (h1 : F.smallestPowerOfTen ≤ q) (h2 : q ≤ F.largestPowerOfTen)
    (hp : computeProductApprox T q ((w * 2^(clz64 w)) % u64Mod) (F.mantissaSize + 3) = none) :
    computeFloat T F q w = none := by
  unfold computeFloat; simp only []
  rw [if_neg (by omega), if_neg (by omega), hp]

/-! ### shapes -/

theorem div_pow_lt {x a s n : Nat} (hx : x < 2^n) (h : n ≤ a + s) : x / 2^s < 2^a := by
  rw [Nat.div_lt_iff_lt_mul (Nat.two_pow_pos s), ← Nat.pow_add]
  exact Nat.lt_of_lt_of_le hx (Nat.pow_le_pow_right (by decide) h)

theorem le_div_pow {x a s n : Nat} (hx : 2^n ≤ x) (h : a + s ≤ n) : 2^a ≤ x / 2^s := by
  rw [Nat.le_div_iff_mul_le (Nat.two_pow_pos s), ← Nat.pow_add]
  exact Nat.le_trans (Nat.pow_le_pow_right (by decide) h) hx

/-- a definite answer of `compute_float`: biased exponent in range, mantissa without hidden bit
    (or the subnormal carry `mant = 2^ms, exp = 1`), infinity has mantissa 0 -/
def Definite (F : FloatC) (fp : ExtFloat) : Prop :=
  0 ≤ fp.exp ∧ fp.exp ≤ F.infinitePower ∧ (fp.exp = F.infinitePower → fp.mant = 0) ∧
  (fp.mant < 2^F.mantissaSize ∨ (fp.mant = 2^F.mantissaSize ∧ fp.exp = 1))

theorem infPower_ge {F : FloatC} (h : F.WF) : 3 ≤ F.infinitePower := by
  rw [h.infPower]
  have : (2:Int)^2 ≤ 2^F.ebits := by
    exact_mod_cast Nat.pow_le_pow_right (by decide) h.eb_ge
  omega

theorem definite_zero {F : FloatC} (h : F.WF) : Definite F ⟨0, 0⟩ := by
  have := infPower_ge h
  refine ⟨by simp, by simp only []; omega, fun _ => rfl, Or.inl (Nat.two_pow_pos _)⟩

theorem definite_inf {F : FloatC} (h : F.WF) : Definite F ⟨0, F.infinitePower⟩ := by
  have := infPower_ge h
  refine ⟨by simp only []; omega, Int.le_refl _, fun _ => rfl, Or.inl (Nat.two_pow_pos _)⟩

/-- bound on the `ms + 2`/`ms + 3`-bit mantissa extracted from `hi` -/
theorem mantissa_lt {ms hi : Nat} (hms : ms + 3 ≤ 64) (hhi : hi < 2^64) :
    hi >>> (hi / 9223372036854775808 + 64 - ms - 3) < 2^(ms+2) := by
  rw [Nat.shiftRight_eq_div_pow]
  rcases Nat.lt_or_ge hi (2^63) with h | h
  · have : hi / 9223372036854775808 = 0 := Nat.div_eq_of_lt h
    rw [this]
    exact div_pow_lt h (by omega)
  · have : hi / 9223372036854775808 = 1 := by omega
    rw [this]
    exact div_pow_lt hhi (by omega)

theorem mantissa_ge {ms hi : Nat} (hms : ms + 3 ≤ 64) (hhi : 2^62 ≤ hi) (hhi2 : hi < 2^64) :
    2^(ms+1) ≤ hi >>> (hi / 9223372036854775808 + 64 - ms - 3) := by
  rw [Nat.shiftRight_eq_div_pow]
  rcases Nat.lt_or_ge hi (2^63) with h | h
  · have : hi / 9223372036854775808 = 0 := Nat.div_eq_of_lt h
    rw [this]
    exact le_div_pow hhi (by omega)
  · have : hi / 9223372036854775808 = 1 := by omega
    rw [this]
    exact le_div_pow h (by omega)

theorem subnormalOut_shape {F : FloatC} (h : F.WF) {mantissa k : Nat}
    (hm : mantissa < 2^(F.mantissaSize+2)) (hk : 1 ≤ k) : Definite F (subnormalOut F mantissa k) := by
  have hinf := infPower_ge h
  have h1 : mantissa >>> k < 2^(F.mantissaSize+1) := by
    rw [Nat.shiftRight_eq_div_pow]; exact div_pow_lt hm (by omega)
  unfold subnormalOut; simp only []
  generalize mantissa >>> k = m1 at h1
  have h3 : (m1 + m1 % 2) >>> 1 ≤ 2^F.mantissaSize := by
    rw [Nat.shiftRight_eq_div_pow, Nat.pow_one]
    rw [Nat.pow_succ] at h1
    omega
  generalize (m1 + m1 % 2) >>> 1 = m3 at h3
  unfold Definite; simp only []
  split
  · refine ⟨by omega, by omega, by omega, Or.inr ⟨by omega, rfl⟩⟩
  · refine ⟨by omega, by omega, by omega, Or.inl (by omega)⟩

theorem normalOut_shape {F : FloatC} (h : F.WF) {q : Int} {lo hi mantissa sh : Nat} {power2 : Int}
    (hm : mantissa < 2^(F.mantissaSize+2)) (hp : 0 < power2) :
    Definite F (normalOut F q lo hi mantissa sh power2) := by
  have hinf := infPower_ge h
  have hX : 0 < 2^F.mantissaSize := Nat.two_pow_pos _
  unfold normalOut
  simp only []
  generalize hm0 : (if lo ≤ 1 ∧ q ≥ F.minExponentRoundToEven ∧ q ≤ F.maxExponentRoundToEven
        ∧ mantissa % 4 = 1 ∧ (mantissa <<< sh) % u64Mod = hi
    then mantissa - mantissa % 2 else mantissa) = m0
  have h0 : m0 ≤ mantissa := by rw [← hm0]; split <;> omega
  have h2 : (m0 + m0 % 2) >>> 1 ≤ 2 * 2^F.mantissaSize := by
    rw [Nat.shiftRight_eq_div_pow, Nat.pow_one]
    rw [Nat.pow_succ, Nat.pow_succ] at hm
    omega
  generalize (m0 + m0 % 2) >>> 1 = m2 at h2
  unfold Definite
  generalize 2^F.mantissaSize = X at *
  by_cases hc : m2 ≥ 2 * X
  · rw [if_pos hc]; simp only []
    split
    · exact ⟨by simp only []; omega, Int.le_refl _, fun _ => rfl, Or.inl hX⟩
    · have e : X / X % 2 = 1 := by rw [Nat.div_self hX]
      simp only [e, if_true]
      refine ⟨by omega, by omega, by omega, Or.inl (by omega)⟩
  · rw [if_neg hc]; simp only []
    split
    · exact ⟨by simp only []; omega, Int.le_refl _, fun _ => rfl, Or.inl hX⟩
    · refine ⟨by simp only []; omega, by simp only []; omega, by simp only []; omega, Or.inl ?_⟩
      simp only []
      rcases Nat.lt_or_ge m2 X with hlt | hge
      · rw [Nat.div_eq_of_lt hlt]; simpa using hlt
      · have : m2 / X = 1 := Nat.div_eq_of_lt_le (by omega) (by omega)
        rw [this]; simp only [if_true]; omega

/-- what the Eisel–Lemire stage needs from the format constants -/
structure LemF (F : FloatC) : Prop where
  wf : F.WF
  sm : -342 ≤ F.smallestPowerOfTen
  lg : F.largestPowerOfTen ≤ 308
  eb : F.ebits ≤ 11

theorem LemF_F32 : LemF Gen.F32 := ⟨F32_WF, by decide, by decide, by decide⟩
theorem LemF_F64 : LemF Gen.F64 := ⟨F64_WF, by decide, by decide, by decide⟩

theorem power_range {q : Int} (h1 : -342 ≤ q) (h2 : q ≤ 308) : -1074 ≤ power q ∧ power q ≤ 1086 := by
  rw [power_eq (by omega) (by omega)]; omega

theorem LemF.pow_le {F : FloatC} (h : LemF F) : 2 ≤ (2:Int)^(F.ebits - 1) ∧ (2:Int)^(F.ebits - 1) ≤ 1024 := by
  have h1 : (2:Nat)^(F.ebits - 1) ≤ 2^10 := Nat.pow_le_pow_right (by decide) (by have := h.eb; omega)
  have h2 : (2:Nat)^1 ≤ 2^(F.ebits - 1) := Nat.pow_le_pow_right (by decide) (by have := h.wf.eb_ge; omega)
  constructor
  · exact_mod_cast h2
  · exact_mod_cast h1

theorem LemF.bias_range {F : FloatC} (h : LemF F) : 2 ≤ F.exponentBias ∧ F.exponentBias ≤ 1084 := by
  have := h.pow_le; have := h.wf.ms_le; have := h.wf.ms_pos
  rw [h.wf.bias]; omega

theorem LemF.minExp_range {F : FloatC} (h : LemF F) : -1023 ≤ F.minimumExponent ∧ F.minimumExponent ≤ -1 := by
  have := h.pow_le
  rw [h.wf.minExp]; omega

/-- a declined answer of `compute_float` / `compute_error`: negative (biased by `INVALID_FP`)
    exponent, normalised 64-bit significand -/
def Declined (F : FloatC) (q : Int) (lz : Nat) (fp : ExtFloat) : Prop :=
  fp.exp < 0 ∧ 2^63 ≤ fp.mant ∧ fp.mant < 2^64 ∧
  ∃ hilz : Nat, hilz ≤ 1 ∧ fp.exp - F.invalidFp = power q + F.exponentBias - hilz - lz - 62

theorem computeErrorScaled_shape {F : FloatC} (h : LemF F) {q : Int} (h1 : -342 ≤ q) (h2 : q ≤ 308)
    {hi lz : Nat} (hlz : lz ≤ 63) (hhi : 2^62 ≤ hi) (hhi2 : hi < 2^64) :
    Declined F q lz (computeErrorScaled F q hi lz) := by
  have hp := power_range h1 h2
  have hb := h.bias_range
  have hinv := h.wf.invalid
  unfold computeErrorScaled Declined u64Mod
  simp only []
  split
  · rename_i hbit
    refine ⟨by omega, by omega, by omega, 0, by omega, by omega⟩
  · rename_i hbit
    refine ⟨by omega, by omega, by omega, 1, by omega, by omega⟩

/-- the value of the declined significand: `hi` shifted left by `hilz ∈ {0,1}` -/
theorem computeErrorScaled_mant {F : FloatC} {q : Int} {hi lz : Nat} (hhi : 2^62 ≤ hi) (hhi2 : hi < 2^64) :
    (computeErrorScaled F q hi lz).mant = if 2^63 ≤ hi then hi else 2 * hi := by
  unfold computeErrorScaled u64Mod
  simp only []
  split <;> split <;> omega

theorem roundCore_cases {F : FloatC} (h : F.WF) (q : Int) (lz lo : Nat) {hi : Nat} (hhi : hi < 2^64) :
    (lo = u64Max ∧ ¬ (q ≥ -27 ∧ q ≤ 55) ∧ roundCore F q lz lo hi = computeErrorScaled F q hi lz) ∨
    Definite F (roundCore F q lz lo hi) := by
  unfold roundCore
  split
  · rename_i hc; exact Or.inl ⟨hc.1, hc.2, rfl⟩
  · right
    simp only []
    have hm := mantissa_lt h.ms_le hhi
    split
    · split
      · exact definite_zero h
      · exact subnormalOut_shape h hm (by omega)
    · exact normalOut_shape h hm (by omega)

theorem definite_not_declined {F : FloatC} {q : Int} {lz : Nat} {fp : ExtFloat}
    (h : Definite F fp) : ¬ Declined F q lz fp := fun hd => by
  have := h.1; have := hd.1; omega

theorem extFloat_beq_iff (x y : ExtFloat) : (x == y) = true ↔ x = y := by
  cases x; cases y
  simp [BEq.beq, instBEqExtFloat.beq]

theorem extFloat_bne_self (x : ExtFloat) : (x != x) = false := by
  simp [bne, (extFloat_beq_iff x x).mpr rfl]

/-- in-range `q`, non-zero `w`: `compute_float` is `roundCore` of the product of the normalised `w`
    with the row of `q` -/
theorem computeFloat_gen_eq {F : FloatC} (h : LemF F) {q : Int} {w : Nat} (hw0 : 0 < w) (hw : w < 2^64)
    (h1 : F.smallestPowerOfTen ≤ q) (h2 : q ≤ F.largestPowerOfTen) :
    ∃ hi5 lo5 : Nat,
      genLemire.powerOfFive128[(q - genLemire.smallestPowerOfFive).toNat]? = some (hi5, lo5) ∧
      rowOk (hi5, lo5) q = true ∧
      computeFloat genLemire F q w = some (roundCore F q (clz64 w)
        (productCore (w * 2^(clz64 w)) hi5 lo5 (F.mantissaSize + 3)).1
        (productCore (w * 2^(clz64 w)) hi5 lo5 (F.mantissaSize + 3)).2) := by
  have hs := h.sm; have hl := h.lg
  obtain ⟨⟨hi5, lo5⟩, hrow, hok⟩ := row_exists (q := q) (by omega) (by omega)
  refine ⟨hi5, lo5, hrow, hok, ?_⟩
  have hp := computeProductApprox_eq genLemire q (w * 2^(clz64 w)) (F.mantissaSize + 3)
    (by rw [genLemire_smallest]; omega) hrow
  apply computeFloat_mid genLemire F (by omega) h1 h2
  rw [norm_mod hw0 hw]; exact hp

theorem computeError_gen_eq {F : FloatC} {q : Int} {w : Nat} (hw0 : 0 < w) (hw : w < 2^64)
    (h1 : -342 ≤ q) (h2 : q ≤ 308) :
    ∃ hi5 lo5 : Nat,
      genLemire.powerOfFive128[(q - genLemire.smallestPowerOfFive).toNat]? = some (hi5, lo5) ∧
      rowOk (hi5, lo5) q = true ∧
      computeError genLemire F q w = some (computeErrorScaled F q
        (productCore (w * 2^(clz64 w)) hi5 lo5 (F.mantissaSize + 3)).2 (clz64 w)) := by
  obtain ⟨⟨hi5, lo5⟩, hrow, hok⟩ := row_exists (q := q) h1 h2
  refine ⟨hi5, lo5, hrow, hok, ?_⟩
  have hp := computeProductApprox_eq genLemire q (w * 2^(clz64 w)) (F.mantissaSize + 3)
    (by rw [genLemire_smallest]; omega) hrow
  have hlz := clz64_le hw0 hw
  unfold computeError computeError.shl64'
  simp only []
  rw [Nat.mod_eq_of_lt (by omega : clz64 w < 64), norm_mod hw0 hw, hp]

/-- normalised product: `2^62 ≤ hi < 2^64`, `lo < 2^64` -/
theorem product_bounds {q : Int} {w hi5 lo5 p : Nat} (hw0 : 0 < w) (hw : w < 2^64)
    (hok : rowOk (hi5, lo5) q = true) :
    (productCore (w * 2^(clz64 w)) hi5 lo5 p).1 < 2^64 ∧
    2^62 ≤ (productCore (w * 2^(clz64 w)) hi5 lo5 p).2 ∧
    (productCore (w * 2^(clz64 w)) hi5 lo5 p).2 < 2^64 := by
  have hb := rowOk_bounds hok
  have hn := norm_bounds hw0 hw
  have := productCore_lt (lo5 := lo5) (p := p) hn.2 hb.1
  exact ⟨this.1, productCore_hi_ge_norm hn.1 hb.2.2, this.2⟩

/-- `compute_float` never panics on a 64-bit `w` (any `q`), and its answer is either definite or a
    well-formed "declined" value -/
theorem computeFloat_gen {F : FloatC} (h : LemF F) (q : Int) {w : Nat} (hw : w < 2^64) :
    ∃ fp, computeFloat genLemire F q w = some fp ∧
      (Definite F fp ∨
        (0 < w ∧ F.smallestPowerOfTen ≤ q ∧ q ≤ F.largestPowerOfTen ∧ Declined F q (clz64 w) fp)) := by
  rcases Nat.eq_zero_or_pos w with rfl | hw0
  · exact ⟨_, computeFloat_zero _ _ _, Or.inl (definite_zero h.wf)⟩
  rcases Int.lt_or_le q F.smallestPowerOfTen with hq | hq
  · exact ⟨_, computeFloat_small _ _ _ hq, Or.inl (definite_zero h.wf)⟩
  rcases Int.lt_or_le F.largestPowerOfTen q with hq2 | hq2
  · exact ⟨_, computeFloat_large _ _ (by omega) hq hq2, Or.inl (definite_inf h.wf)⟩
  obtain ⟨hi5, lo5, _, hok, heq⟩ := computeFloat_gen_eq h hw0 hw hq hq2
  refine ⟨_, heq, ?_⟩
  have hb := product_bounds (p := F.mantissaSize + 3) hw0 hw hok
  rcases roundCore_cases h.wf q (clz64 w) (productCore (w * 2^(clz64 w)) hi5 lo5 (F.mantissaSize + 3)).1 hb.2.2
    with ⟨_, _, he⟩ | hd
  · right
    refine ⟨hw0, hq, hq2, ?_⟩
    rw [he]
    have hs := h.sm; have hl := h.lg
    exact computeErrorScaled_shape h (by omega) (by omega) (clz64_le hw0 hw) hb.2.1 hb.2.2
  · exact Or.inl hd

theorem computeFloat_ne_none {F : FloatC} (h : LemF F) (q : Int) {w : Nat} (hw : w < 2^64) :
    computeFloat genLemire F q w ≠ none := by
  obtain ⟨fp, he, _⟩ := computeFloat_gen h q hw
  rw [he]; exact Option.some_ne_none _

theorem computeError_gen {F : FloatC} (h : LemF F) {q : Int} {w : Nat} (hw0 : 0 < w) (hw : w < 2^64)
    (h1 : -342 ≤ q) (h2 : q ≤ 308) :
    ∃ fp, computeError genLemire F q w = some fp ∧ Declined F q (clz64 w) fp := by
  obtain ⟨hi5, lo5, _, hok, heq⟩ := computeError_gen_eq (F := F) hw0 hw h1 h2
  refine ⟨_, heq, ?_⟩
  have hb := product_bounds (p := F.mantissaSize + 3) hw0 hw hok
  exact computeErrorScaled_shape h h1 h2 (clz64_le hw0 hw) hb.2.1 hb.2.2

/-- out of range, `compute_float` does not depend on (non-zero) `w` -/
theorem computeFloat_out_of_range (F : FloatC) {q : Int} {w w' : Nat} (hw : w ≠ 0) (hw' : w' ≠ 0)
    (hq : q < F.smallestPowerOfTen ∨ F.largestPowerOfTen < q) :
    computeFloat genLemire F q w = computeFloat genLemire F q w' := by
  rcases Int.lt_or_le q F.smallestPowerOfTen with h | h
  · rw [computeFloat_small _ _ _ h, computeFloat_small _ _ _ h]
  · have h2 : q > F.largestPowerOfTen := by omega
    rw [computeFloat_large _ _ hw h h2, computeFloat_large _ _ hw' h h2]

/-- `lemire` never panics for `0 < mantissa`, `mantissa + 1 < 2^64`, any exponent; the answer is
    definite or a well-formed declined value -/
theorem lemire_gen {F : FloatC} (h : LemF F) (num : Number) (hm0 : 0 < num.mantissa)
    (hm : num.mantissa + 1 < 2^64) :
    ∃ fp, lemire genLemire F num = some fp ∧
      (Definite F fp ∨ Declined F num.exponent (clz64 num.mantissa) fp) := by
  obtain ⟨fp, he, hsh⟩ := computeFloat_gen h num.exponent (w := num.mantissa) (by omega)
  have hmod : (num.mantissa + 1) % u64Mod = num.mantissa + 1 := by
    unfold u64Mod; exact Nat.mod_eq_of_lt hm
  obtain ⟨fp', he', _⟩ := computeFloat_gen h num.exponent (w := num.mantissa + 1) hm
  unfold lemire
  rw [he]; simp only []
  split
  · rw [hmod, he']; simp only []
    split
    · rename_i hne
      -- the exponent is in range, otherwise both calls agree
      have hin : F.smallestPowerOfTen ≤ num.exponent ∧ num.exponent ≤ F.largestPowerOfTen := by
        by_contra hcon
        have := computeFloat_out_of_range F (q := num.exponent) (w := num.mantissa)
          (w' := num.mantissa + 1) (by omega) (by omega) (by omega)
        rw [he, he'] at this
        have e : fp = fp' := Option.some.inj this
        rw [e, extFloat_bne_self] at hne
        exact Bool.false_ne_true hne
      have hs := h.sm; have hl := h.lg
      obtain ⟨r, hr, hd⟩ := computeError_gen h hm0 (by omega : num.mantissa < 2^64)
        (by omega : -342 ≤ num.exponent) (by omega)
      exact ⟨r, hr, Or.inr hd⟩
    · exact ⟨fp, rfl, by rcases hsh with hd | ⟨_, _, _, hd⟩; exact Or.inl hd; exact Or.inr hd⟩
  · exact ⟨fp, rfl, by rcases hsh with hd | ⟨_, _, _, hd⟩; exact Or.inl hd; exact Or.inr hd⟩

theorem lemireTraps_gen (F : FloatC) (num : Number) (hm0 : 0 < num.mantissa)
    (hm : num.mantissa + 1 < 2^64) : lemireTraps genLemire F num = false := by
  unfold lemireTraps
  split
  · rfl
  · split
    · rw [if_neg (by unfold u64Max; omega)]
      split
      · rfl
      · have : (num.mantissa == 0) = false := by simp; omega
        rw [this, Bool.and_false]
    · rfl

/-! ### more finite checks: sign of the row exponent, link to the generator's exponent -/

/-- `rowExp q ≤ 0` exactly for `q ≤ 55` (`5^55 < 2^128 < 5^56`), and for `q < 0` the exponent is the
    one of `C14.lemireEntry`: `−rowExp q = ⌈log2 5^-q⌉ + 127` -/
def rowExpOk (q : Int) : Bool :=
  if q ≥ 0 then (if q ≤ 55 then decide (rowExp q ≤ 0) else decide (0 < rowExp q))
  else decide (-rowExp q = (C14.bitlenCeil (5 ^ (-q).toNat) : Int) + 127)

theorem rowExp_check : rangeGo rowExpOk 651 (-342) = true := by decide +kernel

theorem rowExpOk_all {q : Int} (h1 : -342 ≤ q) (h2 : q ≤ 308) : rowExpOk q = true :=
  rangeGo_int rowExpOk 651 (-342) rowExp_check q h1 (by omega)

/-! ### shift amounts and `i32` ranges (debug-build overflow checks) -/

theorem upperbit_le {hi : Nat} (hhi : hi < 2^64) : hi / 9223372036854775808 ≤ 1 := by omega

/-- `hi >> (upperbit + 64 − MANTISSA_SIZE − 3)`: no underflow of the amount, amount `< 64` -/
theorem shift_amount {F : FloatC} (h : F.WF) {hi : Nat} (hhi : hi < 2^64) :
    F.mantissaSize + 3 ≤ hi / 9223372036854775808 + 64 ∧
    hi / 9223372036854775808 + 64 - F.mantissaSize - 3 < 64 := by
  have := h.ms_le; have := h.ms_pos; have := upperbit_le hhi
  omega

/-- every `i32` intermediate of `power2` in `compute_float` and `compute_error_scaled` is in range -/
theorem power2_i32 {F : FloatC} (h : LemF F) {q : Int} (h1 : -342 ≤ q) (h2 : q ≤ 308)
    {upperbit lz hilz : Nat} (hu : upperbit ≤ 1) (hlz : lz ≤ 64) (hh : hilz ≤ 1) :
    inI32 (q * 217706) = true ∧ inI32 (power q) = true ∧ inI32 (power q + upperbit) = true ∧
    inI32 (power q + upperbit - lz) = true ∧ inI32 (power q + upperbit - lz - F.minimumExponent) = true ∧
    inI32 (-(power q + upperbit - lz - F.minimumExponent) + 1) = true ∧
    inI32 (power q + upperbit - lz - F.minimumExponent + 1) = true ∧
    inI32 (power q + F.exponentBias) = true ∧ inI32 (power q + F.exponentBias - hilz) = true ∧
    inI32 (power q + F.exponentBias - hilz - lz) = true ∧
    inI32 (power q + F.exponentBias - hilz - lz - 62) = true ∧
    inI32 (power q + F.exponentBias - hilz - lz - 62 + F.invalidFp) = true := by
  have hp := power_range h1 h2
  have hb := h.bias_range
  have hm := h.minExp_range
  have hinv := h.wf.invalid
  unfold inI32 i32Min i32Max
  simp only [Bool.and_eq_true, decide_eq_true_eq]
  omega

/-! ### the bit pattern of a definite answer -/

theorem i32AsU64_nonneg {x : Int} (h0 : 0 ≤ x) (h : x < 2^64) : i32AsU64 x = x.toNat := by
  unfold i32AsU64 u64Mod
  rw [Int.emod_eq_of_lt h0 (by simpa using h)]

theorem WF.ebits_le {F : FloatC} (h : F.WF) : F.ebits ≤ 62 := by
  have := h.width_eq; have := h.width_le; have := h.ms_pos; omega

theorem WF.infPower_nat {F : FloatC} (h : F.WF) : F.infinitePower = ((2^F.ebits - 1 : Nat) : Int) := by
  rw [h.infPower]
  have : 0 < 2^F.ebits := Nat.two_pow_pos _
  push_cast [Nat.cast_sub this]
  rfl

/-- `extended_to_float` of a definite answer: `exp·2^ms + mant` (or the smallest normal for the
    subnormal carry), never above the pattern of +∞, and `f32::from_bits` does not trap -/
theorem extendedToFloat_definite {F : FloatC} (h : F.WF) {fp : ExtFloat} (hd : Definite F fp) :
    extendedToFloat F fp =
      (if fp.mant < 2^F.mantissaSize then fp.exp.toNat * 2^F.mantissaSize + fp.mant else 2^F.mantissaSize) ∧
    extendedToFloat F fp ≤ F.fmt.infBits ∧ extendedToFloatTraps F fp = false := by
  obtain ⟨h0, hle, hinf, hm⟩ := hd
  have heb := WF.ebits_le h
  have hE : 0 < 2^F.ebits := Nat.two_pow_pos _
  have hE4 : 2^2 ≤ 2^F.ebits := Nat.pow_le_pow_right (by decide) h.eb_ge
  have hX : 0 < 2^F.mantissaSize := Nat.two_pow_pos _
  rw [WF.infPower_nat h] at hle hinf
  have hen : fp.exp.toNat ≤ 2^F.ebits - 1 := by omega
  have hE64 : 2^F.ebits ≤ 2^62 := Nat.pow_le_pow_right (by decide) heb
  have hi : i32AsU64 fp.exp = fp.exp.toNat := i32AsU64_nonneg h0 (by
    have : ((2^F.ebits - 1 : Nat) : Int) < 2^64 := by
      have : (2^F.ebits - 1 : Nat) < 2^64 := by omega
      exact_mod_cast this
    omega)
  have hW : 2^F.width = 2 * (2^F.ebits * 2^F.mantissaSize) := by
    rw [h.width_eq, Nat.pow_succ, Nat.pow_add]; ring
  have hW64 : 2^F.width ≤ 2^64 := Nat.pow_le_pow_right (by decide) h.width_le
  have hprod : fp.exp.toNat * 2^F.mantissaSize ≤ (2^F.ebits - 1) * 2^F.mantissaSize :=
    Nat.mul_le_mul_right _ hen
  have hsub : (2^F.ebits - 1) * 2^F.mantissaSize = 2^F.ebits * 2^F.mantissaSize - 2^F.mantissaSize :=
    Nat.sub_one_mul ..
  have hEX : 2^F.mantissaSize ≤ 2^F.ebits * 2^F.mantissaSize := Nat.le_mul_of_pos_left _ hE
  have hmod : (fp.exp.toNat * 2^F.mantissaSize) % u64Mod = fp.exp.toNat * 2^F.mantissaSize := by
    apply Nat.mod_eq_of_lt; unfold u64Mod; omega
  have hib : F.fmt.infBits = (2^F.ebits - 1) * 2^F.mantissaSize := rfl
  unfold extendedToFloatTraps extendedToFloat
  rw [hi, hmod, hib]
  rcases hm with hlt | ⟨heq, he1⟩
  · rw [Bits.or_eq_add_of_lt hlt, if_pos hlt]
    have hlt2 : fp.mant + fp.exp.toNat * 2^F.mantissaSize < 2^F.width := by omega
    rw [Nat.mod_eq_of_lt hlt2]
    refine ⟨by omega, ?_, by simp; omega⟩
    rcases Nat.lt_or_ge fp.exp.toNat (2^F.ebits - 1) with hl | hg
    · have : (fp.exp.toNat + 1) * 2^F.mantissaSize ≤ (2^F.ebits - 1) * 2^F.mantissaSize :=
        Nat.mul_le_mul_right _ hl
      rw [Nat.add_mul] at this
      omega
    · have : fp.mant = 0 := hinf (by omega)
      omega
  · have e1 : fp.exp.toNat = 1 := by omega
    rw [heq, e1, Bits.or_self_pow, if_neg (by omega)]
    have h4 : 4 * 2^F.mantissaSize ≤ 2^F.ebits * 2^F.mantissaSize := Nat.mul_le_mul_right _ hE4
    have hlt2 : 2^F.mantissaSize < 2^F.width := by omega
    rw [Nat.mod_eq_of_lt hlt2]
    refine ⟨rfl, by omega, by simp; omega⟩

/-! ### the product against the full 128-bit row -/

/-- with the second product the result is exactly `⌊w·T / 2^64⌋`, `T = hi5·2^64 + lo5` -/
theorem productCore_taken_floor {w hi5 lo5 p : Nat} (hw : w < 2^64) (hlo : lo5 < 2^64)
    (h : secondTaken w hi5 p = true) :
    (productCore w hi5 lo5 p).2 * 2^64 + (productCore w hi5 lo5 p).1 = w * (hi5 * 2^64 + lo5) / 2^64 := by
  rw [productCore_taken hw hlo h]
  have e : w * (hi5 * 2^64 + lo5) = w * lo5 + w * hi5 * 2^64 := by ring
  rw [e, Nat.add_mul_div_right _ _ (by decide : 0 < 2^64)]
  omega

theorem productCore_lo_lt (w hi5 lo5 p : Nat) : (productCore w hi5 lo5 p).1 < 2^64 := by
  unfold productCore; simp only []
  split
  · exact Nat.mod_lt _ (by decide)
  · exact fullMultiplication_lo_lt w hi5

/-- `hi` against the full product: `hi·2^128 ≤ w·T`, `w·(T+1) < (hi+2)·2^128`, and with the second
    product even `w·T < (hi+1)·2^128` -/
theorem productCore_bracket {w hi5 lo5 p : Nat} (hw : w < 2^64) (hlo : lo5 < 2^64) :
    (productCore w hi5 lo5 p).2 * 2^128 ≤ w * (hi5 * 2^64 + lo5) ∧
    w * (hi5 * 2^64 + lo5 + 1) < ((productCore w hi5 lo5 p).2 + 2) * 2^128 ∧
    (secondTaken w hi5 p = true → w * (hi5 * 2^64 + lo5) < ((productCore w hi5 lo5 p).2 + 1) * 2^128) := by
  have e : w * (hi5 * 2^64 + lo5) = w * lo5 + w * hi5 * 2^64 := by ring
  have e' : w * (hi5 * 2^64 + lo5 + 1) = w * lo5 + w * hi5 * 2^64 + w := by ring
  have hC : w * lo5 ≤ w * (2^64 - 1) := Nat.mul_le_mul_left _ (by omega)
  have hC' : w * (2^64 - 1) = w * 2^64 - w := Nat.mul_sub_one ..
  rw [e, e']
  cases ht : secondTaken w hi5 p
  · rw [productCore_not_taken ht]
    simp only []
    generalize w * hi5 = A at *
    generalize w * lo5 = C at *
    refine ⟨by omega, by omega, by intro h; cases h⟩
  · have h1 := productCore_taken hw hlo ht
    have h2 := productCore_lo_lt w hi5 lo5 p
    generalize (productCore w hi5 lo5 p).2 = hi at *
    generalize (productCore w hi5 lo5 p).1 = lo at *
    generalize w * hi5 = A at *
    generalize w * lo5 = C at *
    refine ⟨by omega, by omega, by intro _; omega⟩

/-- the four kinds of rows, unpacked -/
theorem rowOk_unpack {r : Nat × Nat} {q : Int} (h1 : -342 ≤ q) (h2 : q ≤ 308) (h : rowOk r q = true) :
    (56 ≤ q → 0 < rowExp q ∧ (r.1 * 2^64 + r.2) * 2^(rowExp q).toNat ≤ 5^q.toNat ∧
        5^q.toNat < (r.1 * 2^64 + r.2 + 1) * 2^(rowExp q).toNat) ∧
    (0 ≤ q → q ≤ 55 → rowExp q ≤ 0 ∧ r.1 * 2^64 + r.2 = 5^q.toNat * 2^(-rowExp q).toNat) ∧
    (q < -27 → rowExp q < 0 ∧ (r.1 * 2^64 + r.2) * 5^(-q).toNat ≤ 2^(-rowExp q).toNat ∧
        2^(-rowExp q).toNat < (r.1 * 2^64 + r.2 + 1) * 5^(-q).toNat) ∧
    (-27 ≤ q → q < 0 → rowExp q < 0 ∧ (r.1 * 2^64 + r.2 - 1) * 5^(-q).toNat ≤ 2^(-rowExp q).toNat ∧
        2^(-rowExp q).toNat < (r.1 * 2^64 + r.2) * 5^(-q).toNat) := by
  have hs := rowExpOk_all h1 h2
  unfold rowExpOk at hs
  unfold rowOk at h
  simp only [Bool.and_eq_true, decide_eq_true_eq] at h
  obtain ⟨_, h⟩ := h
  refine ⟨fun hq => ?_, fun hq0 hq => ?_, fun hq => ?_, fun hq0 hq => ?_⟩
  · rw [if_pos (by omega), if_neg (by omega)] at hs
    have hs' : 0 < rowExp q := by simpa using hs
    rw [if_pos (by omega), if_pos (by omega)] at h
    simp only [Bool.and_eq_true, decide_eq_true_eq] at h
    exact ⟨hs', h.1, h.2⟩
  · rw [if_pos (by omega), if_pos (by omega)] at hs
    have hs' : rowExp q ≤ 0 := by simpa using hs
    rw [if_pos (by omega)] at h
    refine ⟨hs', ?_⟩
    split at h
    · have e : rowExp q = 0 := by omega
      rw [e] at h ⊢
      simp only [Bool.and_eq_true, decide_eq_true_eq] at h
      simp only [Int.toNat_zero, Nat.pow_zero, Nat.mul_one, Int.neg_zero] at h ⊢
      omega
    · simpa using h
  · rw [if_neg (by omega), if_neg (by omega)] at h
    simp only [Bool.and_eq_true, decide_eq_true_eq] at h
    exact ⟨h.1, h.2.1, h.2.2⟩
  · rw [if_neg (by omega), if_pos (by omega)] at h
    simp only [Bool.and_eq_true, decide_eq_true_eq] at h
    exact ⟨h.1, h.2.1, h.2.2⟩

theorem rowOk_unpack' {a b : Nat} {q : Int} (h1 : -342 ≤ q) (h2 : q ≤ 308) (h : rowOk (a, b) q = true) :
    (56 ≤ q → 0 < rowExp q ∧ (a * 2^64 + b) * 2^(rowExp q).toNat ≤ 5^q.toNat ∧
        5^q.toNat < (a * 2^64 + b + 1) * 2^(rowExp q).toNat) ∧
    (0 ≤ q → q ≤ 55 → rowExp q ≤ 0 ∧ a * 2^64 + b = 5^q.toNat * 2^(-rowExp q).toNat) ∧
    (q < -27 → rowExp q < 0 ∧ (a * 2^64 + b) * 5^(-q).toNat ≤ 2^(-rowExp q).toNat ∧
        2^(-rowExp q).toNat < (a * 2^64 + b + 1) * 5^(-q).toNat) ∧
    (-27 ≤ q → q < 0 → rowExp q < 0 ∧ (a * 2^64 + b - 1) * 5^(-q).toNat ≤ 2^(-rowExp q).toNat ∧
        2^(-rowExp q).toNat < (a * 2^64 + b) * 5^(-q).toNat) :=
  rowOk_unpack (r := (a, b)) h1 h2 h

theorem rowOk_bounds' {a b : Nat} {q : Int} (h : rowOk (a, b) q = true) :
    a < 2^64 ∧ b < 2^64 ∧ 2^63 ≤ a := rowOk_bounds h

theorem chain_le {a w T S P : Nat} (h1 : a ≤ w * T) (h2 : T * S ≤ P) : a * S ≤ w * P :=
  calc a * S ≤ w * T * S := Nat.mul_le_mul_right _ h1
    _ = w * (T * S) := Nat.mul_assoc ..
    _ ≤ w * P := Nat.mul_le_mul_left _ h2

theorem chain_lt {b w T S P : Nat} (h1 : w * (T + 1) < b) (h2 : P ≤ (T + 1) * S) (hS : 0 < S) :
    w * P < b * S :=
  calc w * P ≤ w * ((T + 1) * S) := Nat.mul_le_mul_left _ h2
    _ = w * (T + 1) * S := (Nat.mul_assoc ..).symm
    _ < b * S := Nat.mul_lt_mul_of_pos_right h1 hS

theorem product_value_aux {q : Int} {w hi lo T : Nat} {tk : Prop}
    (c1 : hi * 2^128 ≤ w * T) (c2 : w * (T + 1) < (hi + 2) * 2^128)
    (cfl : tk → hi * 2^64 + lo = w * T / 2^64) (hT127 : 2^127 ≤ T)
    (u1 : 56 ≤ q → 0 < rowExp q ∧ T * 2^(rowExp q).toNat ≤ 5^q.toNat ∧
        5^q.toNat < (T + 1) * 2^(rowExp q).toNat)
    (u2 : 0 ≤ q → q ≤ 55 → rowExp q ≤ 0 ∧ T = 5^q.toNat * 2^(-rowExp q).toNat)
    (u3 : q < -27 → rowExp q < 0 ∧ T * 5^(-q).toNat ≤ 2^(-rowExp q).toNat ∧
        2^(-rowExp q).toNat < (T + 1) * 5^(-q).toNat)
    (u4 : -27 ≤ q → q < 0 → rowExp q < 0 ∧ (T - 1) * 5^(-q).toNat ≤ 2^(-rowExp q).toNat ∧
        2^(-rowExp q).toNat < T * 5^(-q).toNat) :
    (56 ≤ q →
      hi * 2^128 * 2^(rowExp q).toNat ≤ w * 5^q.toNat ∧
      w * 5^q.toNat < (hi + 2) * 2^128 * 2^(rowExp q).toNat) ∧
    (0 ≤ q → q ≤ 55 →
      hi * 2^128 ≤ w * (5^q.toNat * 2^(-rowExp q).toNat) ∧
      w * (5^q.toNat * 2^(-rowExp q).toNat) < (hi + 2) * 2^128 ∧
      (tk → hi * 2^64 + lo = w * (5^q.toNat * 2^(-rowExp q).toNat) / 2^64)) ∧
    (q < -27 →
      hi * 2^128 * 5^(-q).toNat ≤ w * 2^(-rowExp q).toNat ∧
      w * 2^(-rowExp q).toNat < (hi + 2) * 2^128 * 5^(-q).toNat) ∧
    (-27 ≤ q → q < 0 →
      hi * 2^128 * 5^(-q).toNat ≤ w * 2^(-rowExp q).toNat + w * 5^(-q).toNat ∧
      w * 2^(-rowExp q).toNat < (hi + 2) * 2^128 * 5^(-q).toNat) := by
  refine ⟨fun hq => ?_, fun hq0 hq => ?_, fun hq => ?_, fun hq0 hq => ?_⟩
  · obtain ⟨_, a, b⟩ := u1 hq
    exact ⟨chain_le c1 a, chain_lt c2 (Nat.le_of_lt b) (Nat.two_pow_pos _)⟩
  · obtain ⟨_, a⟩ := u2 hq0 hq
    rw [← a]
    refine ⟨c1, ?_, cfl⟩
    have : w * T ≤ w * (T + 1) := Nat.mul_le_mul_left _ (by omega)
    omega
  · obtain ⟨_, a, b⟩ := u3 hq
    exact ⟨chain_le c1 a, chain_lt c2 (Nat.le_of_lt b) (Nat.pow_pos (by decide))⟩
  · obtain ⟨_, a, b⟩ := u4 hq0 hq
    have hT1 : T - 1 + 1 = T := by omega
    constructor
    · have l1 : hi * 2^128 * 5^(-q).toNat ≤ w * (T * 5^(-q).toNat) := chain_le c1 (Nat.le_refl _)
      have l2 : w * (T * 5^(-q).toNat) = w * ((T - 1) * 5^(-q).toNat) + w * 5^(-q).toNat := by
        rw [← Nat.mul_add, ← Nat.add_one_mul, hT1]
      have l3 : w * ((T - 1) * 5^(-q).toNat) ≤ w * 2^(-rowExp q).toNat := Nat.mul_le_mul_left _ a
      omega
    · have : 2^(-rowExp q).toNat ≤ (T + 1) * 5^(-q).toNat :=
        Nat.le_trans (Nat.le_of_lt b) (Nat.mul_le_mul_right _ (by omega))
      exact chain_lt c2 this (Nat.pow_pos (by decide))

/-- **what `hi` means**: the upper word of the product brackets `w·5^q` scaled by the row exponent
    `s = rowExp q` within two units: `hi ≤ w·5^q / 2^(128+s) < hi + 2` (cross-multiplied, four kinds
    of rows; for the rounded-up rows `−27 ≤ q < 0` the lower bound is off by `w·5^-q`) -/
theorem product_value {q : Int} (h1 : -342 ≤ q) (h2 : q ≤ 308) {w hi5 lo5 p : Nat} (hw : w < 2^64)
    (hok : rowOk (hi5, lo5) q = true) :
    (56 ≤ q →
      (productCore w hi5 lo5 p).2 * 2^128 * 2^(rowExp q).toNat ≤ w * 5^q.toNat ∧
      w * 5^q.toNat < ((productCore w hi5 lo5 p).2 + 2) * 2^128 * 2^(rowExp q).toNat) ∧
    (0 ≤ q → q ≤ 55 →
      (productCore w hi5 lo5 p).2 * 2^128 ≤ w * (5^q.toNat * 2^(-rowExp q).toNat) ∧
      w * (5^q.toNat * 2^(-rowExp q).toNat) < ((productCore w hi5 lo5 p).2 + 2) * 2^128 ∧
      (secondTaken w hi5 p = true →
        (productCore w hi5 lo5 p).2 * 2^64 + (productCore w hi5 lo5 p).1 =
          w * (5^q.toNat * 2^(-rowExp q).toNat) / 2^64)) ∧
    (q < -27 →
      (productCore w hi5 lo5 p).2 * 2^128 * 5^(-q).toNat ≤ w * 2^(-rowExp q).toNat ∧
      w * 2^(-rowExp q).toNat < ((productCore w hi5 lo5 p).2 + 2) * 2^128 * 5^(-q).toNat) ∧
    (-27 ≤ q → q < 0 →
      (productCore w hi5 lo5 p).2 * 2^128 * 5^(-q).toNat ≤ w * 2^(-rowExp q).toNat + w * 5^(-q).toNat ∧
      w * 2^(-rowExp q).toNat < ((productCore w hi5 lo5 p).2 + 2) * 2^128 * 5^(-q).toNat) := by
  have hb := rowOk_bounds' hok
  obtain ⟨u1, u2, u3, u4⟩ := rowOk_unpack' h1 h2 hok
  obtain ⟨c1, c2, _⟩ := productCore_bracket (hi5 := hi5) (p := p) hw hb.2.1
  have cfl := productCore_taken_floor (hi5 := hi5) (p := p) hw hb.2.1
  exact product_value_aux c1 c2 cfl (by omega) u1 u2 u3 u4

end MinLex.LemireP
