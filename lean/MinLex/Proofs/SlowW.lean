/-
  The big-integer slow path of the 32-bit-limb build (`W.slow 32`, `MinLex/Model/BigintW.lean`).

  Everything is proved from `OpsOK`: the exactness / completeness / normalisation facts about the
  individual 32-bit big-integer operations (statement shapes of `MinLex/Props/C12.lean`).  The
  structure is discharged in `MinLex/Props/Limb32.lean`.

  Route: `parse_mantissa` is re-proved for 9-digit chunks in a wrapping `u32` (port of
  `Proofs/Slow.lean` §1); the two digit-comparison algorithms are shown to return what the 64-bit
  model returns, because both big-integer libraries are exact (same values, hence the same top 64
  bits / bit length / comparison) and the 32-bit library never runs out of limbs where the 64-bit
  one did not (`B^62 ≤ (2^32)^125`).
-/
import MinLex.Props.SlowPath
import MinLex.Model.ParseW
import Mathlib.Tactic.Ring
import Mathlib.Tactic.Linarith
namespace MinLex.W.SP
open MinLex ParseNum SlowP

-- ================================================================ 0. basics about 32-bit limb lists
theorem Bw32 : Bw 32 = 4294967296 := by unfold Bw; norm_num
theorem Bw32_pos : 0 < Bw 32 := by rw [Bw32]; omega
theorem Bwpow_pos (n : Nat) : 0 < Bw 32 ^ n := Nat.pow_pos Bw32_pos
theorem Bwpow_le {m n : Nat} (h : m ≤ n) : Bw 32 ^ m ≤ Bw 32 ^ n := Nat.pow_le_pow_right Bw32_pos h

theorem allLtW_nil : AllLtW 32 [] := by intro x hx; cases hx

theorem allLtW_cons {x : Nat} {xs : Big} : AllLtW 32 (x :: xs) ↔ x < Bw 32 ∧ AllLtW 32 xs := by
  simp [AllLtW]

theorem toNatW_append (xs ys : Big) :
    toNatW 32 (xs ++ ys) = toNatW 32 xs + Bw 32 ^ xs.length * toNatW 32 ys := by
  induction xs with
  | nil => simp [toNatW]
  | cons x xs ih =>
    simp only [List.cons_append, toNatW, ih, List.length_cons]
    ring

theorem toNatW_singleton (x : Nat) : toNatW 32 [x] = x := by simp [toNatW]

theorem toNatW_lt {xs : Big} (h : AllLtW 32 xs) : toNatW 32 xs < Bw 32 ^ xs.length := by
  induction xs with
  | nil => simp [toNatW]
  | cons x xs ih =>
    rw [allLtW_cons] at h
    have h1 := ih h.2
    simp only [toNatW, List.length_cons, Nat.pow_succ]
    have : Bw 32 * (toNatW 32 xs + 1) ≤ Bw 32 * Bw 32 ^ xs.length := Nat.mul_le_mul_left _ h1
    rw [Nat.mul_comm (Bw 32 ^ xs.length) (Bw 32)]
    have := h.1
    rw [Nat.mul_add] at *
    omega

theorem toNatW_ge_of_normalized {xs : Big} (hn : isNormalized xs = true) (hne : xs ≠ []) :
    Bw 32 ^ (xs.length - 1) ≤ toNatW 32 xs := by
  rw [isNormalized_iff] at hn
  cases h : xs.getLast? with
  | none => simp at h; exact absurd h hne
  | some v =>
    have hv : v ≠ 0 := by intro h0; rw [h0] at h; exact hn h
    obtain ⟨ys, rfl⟩ := List.getLast?_eq_some_iff.mp h
    rw [toNatW_append]
    simp only [List.length_append, List.length_cons, List.length_nil, toNatW_singleton]
    have e : ys.length + (0 + 1) - 1 = ys.length := by omega
    rw [e]
    have h1 : Bw 32 ^ ys.length * 1 ≤ Bw 32 ^ ys.length * v :=
      Nat.mul_le_mul_left _ (Nat.pos_of_ne_zero hv)
    omega

theorem toNatW_pos_of_normalized {xs : Big} (hn : isNormalized xs = true) (hne : xs ≠ []) :
    0 < toNatW 32 xs :=
  Nat.lt_of_lt_of_le (Bwpow_pos _) (toNatW_ge_of_normalized hn hne)

theorem ne_nil_of_toNatW_ne_zero {x : Big} (h : toNatW 32 x ≠ 0) : x ≠ [] := by
  intro h0; subst h0; exact h rfl

/-- a returned 32-bit result fits: below `(2^32)^c` on a stack vector of `c` limbs -/
theorem fitsW_of_some {c : Nat} {r : Big} (hr : AllLtW 32 r) (hc : capOk (some c) r.length = true) :
    toNatW 32 r < Bw 32 ^ c :=
  Nat.lt_of_lt_of_le (toNatW_lt hr) (Bwpow_le (capOk_some.mp hc))

-- ================================================================ the facts about the operations
/-- Everything the slow path needs to know about the 32-bit big-integer operations: they are
    exact, succeed when the result fits, and keep a normalised vector normalised.  (Statement
    shapes of `Props/C12.lean`; `isNormalized` does not depend on the limb width.) -/
structure OpsOK : Prop where
  smallMul_exact : ∀ {cap : Option Nat} {x r : Big} {y : Nat}, AllLtW 32 x → y < Bw 32 →
    capOk cap x.length = true → smallMul 32 cap x y = some r →
    toNatW 32 r = toNatW 32 x * y ∧ AllLtW 32 r ∧ capOk cap r.length = true
  smallMul_complete : ∀ {cap : Option Nat} {x : Big} {y : Nat},
    capOk cap (x.length + 1) = true ∨ toNatW 32 x * y < Bw 32 ^ x.length →
    ∃ r, smallMul 32 cap x y = some r
  smallMul_norm : ∀ {cap : Option Nat} {x r : Big} {y : Nat}, AllLtW 32 x → y < Bw 32 →
    isNormalized x = true → y ≠ 0 → smallMul 32 cap x y = some r → isNormalized r = true
  smallAdd_exact : ∀ {cap : Option Nat} {x r : Big} {y : Nat}, AllLtW 32 x → y < Bw 32 →
    capOk cap x.length = true → smallAdd 32 cap x y = some r →
    toNatW 32 r = toNatW 32 x + y ∧ AllLtW 32 r ∧ capOk cap r.length = true
  smallAdd_complete : ∀ {cap : Option Nat} {x : Big} {y : Nat}, AllLtW 32 x → y < Bw 32 →
    capOk cap (x.length + 1) = true ∨ toNatW 32 x + y < Bw 32 ^ x.length →
    ∃ r, smallAdd 32 cap x y = some r
  smallAdd_norm : ∀ {cap : Option Nat} {x r : Big} {y : Nat}, AllLtW 32 x → y < Bw 32 →
    capOk cap x.length = true → isNormalized x = true → smallAdd 32 cap x y = some r →
    isNormalized r = true
  fromU64_exact : ∀ {v : Nat}, v < 2 ^ 64 →
    toNatW 32 (fromU64 32 v) = v ∧ AllLtW 32 (fromU64 32 v) ∧
    isNormalized (fromU64 32 v) = true ∧ (fromU64 32 v).length ≤ 2
  bigintPow_exact : ∀ (compact : Bool) {cap : Option Nat} {x r : Big} {base e : Nat},
    base = 2 ∨ base = 5 ∨ base = 10 → AllLtW 32 x → toNatW 32 x ≠ 0 → capOk cap x.length = true →
    bigintPow 32 cap (genPowW 32 compact) x base e = some r →
    toNatW 32 r = toNatW 32 x * base ^ e ∧ AllLtW 32 r ∧ capOk cap r.length = true
  bigintPow_fits : ∀ (compact : Bool) {c : Nat} {x : Big} {base e : Nat},
    base = 2 ∨ base = 5 ∨ base = 10 → AllLtW 32 x → isNormalized x = true → x ≠ [] →
    capOk (some c) x.length = true → toNatW 32 x * base ^ e < Bw 32 ^ c →
    ∃ r, bigintPow 32 (some c) (genPowW 32 compact) x base e = some r
  bigintPow_heap : ∀ (T : PowTables) (x : Big) (base e : Nat),
    ∃ r, bigintPow 32 none T x base e = some r
  bigintPow_norm : ∀ (compact : Bool) {cap : Option Nat} {x r : Big} {base e : Nat},
    base = 2 ∨ base = 5 ∨ base = 10 → AllLtW 32 x → isNormalized x = true → x ≠ [] →
    capOk cap x.length = true → bigintPow 32 cap (genPowW 32 compact) x base e = some r →
    isNormalized r = true
  bigCompare_exact : ∀ {x y : Big}, AllLtW 32 x → AllLtW 32 y → isNormalized x = true →
    isNormalized y = true → bigCompare x y = compare (toNatW 32 x) (toNatW 32 y)
  bitLength_exact : ∀ {x : Big}, AllLtW 32 x → isNormalized x = true → x ≠ [] →
    bitLength 32 x = Nat.log2 (toNatW 32 x) + 1
  hi64_exact : ∀ {x : Big}, AllLtW 32 x → isNormalized x = true → x ≠ [] →
    (64 ≤ bitLength 32 x →
      (hi64 32 x).1 = toNatW 32 x / 2 ^ (bitLength 32 x - 64) ∧
      (hi64 32 x).2 = decide (toNatW 32 x % 2 ^ (bitLength 32 x - 64) ≠ 0)) ∧
    (bitLength 32 x < 64 →
      (hi64 32 x).1 = toNatW 32 x * 2 ^ (64 - bitLength 32 x) ∧ (hi64 32 x).2 = false)

-- ================================================================ 1. parse_mantissa, 9-digit chunks
/-- what `parse_mantissa` needs from `int_pow_fast_path(k, Ten)`: exact for `k ≤ 9` -/
def Pow10OK9 (T : PowTables) : Prop := ∀ k, k ≤ 9 → intPow10 T.compact T.smallIntPow10 k = 10 ^ k

theorem genPowW_pow10OK9 (c : Bool) : Pow10OK9 (genPowW 32 c) := by
  intro k hk
  have := genPow_pow10OK c k (by omega)
  simpa [genPowW] using this

theorem pow9_lt_Bw : 10 ^ 9 < Bw 32 := by rw [Bw32]; norm_num

theorem pow_le_pow9 {k : Nat} (hk : k ≤ 9) : 10 ^ k ≤ 10 ^ 9 :=
  Nat.pow_le_pow_right (by omega) hk

/-- the back-end has room for one more limb on every normalised big integer below `bound` -/
def CapRoomW (cap : Option Nat) (bound : Nat) : Prop :=
  ∀ x : Big, AllLtW 32 x → isNormalized x = true → toNatW 32 x < bound →
    capOk cap (x.length + 1) = true

theorem capRoomW_none (bound : Nat) : CapRoomW none bound := fun _ _ _ _ => rfl

theorem capRoomW_some {c bound : Nat} (hc : 1 ≤ c) (hb : bound ≤ Bw 32 ^ (c - 1)) :
    CapRoomW (some c) bound := by
  intro x _ hn hlt
  rw [capOk_some]
  by_cases hx : x = []
  · subst hx; exact hc
  · by_contra hcon
    have h1 := Bwpow_le (show c - 1 ≤ x.length - 1 by omega)
    have := toNatW_ge_of_normalized hn hx
    omega

/-- invariant of the digit loops: the accumulated big integer and the native temporary together
    hold the number `n` read so far -/
structure PMInv (cap : Option Nat) (s : PM) (n : Nat) : Prop where
  vlt : s.value < 10 ^ s.counter
  cle : s.counter ≤ 9
  res : ∀ r, s.result = some r →
    AllLtW 32 r ∧ capOk cap r.length = true ∧ isNormalized r = true ∧
      toNatW 32 r * 10 ^ s.counter + s.value = n
  tot : ∀ bound, CapRoomW cap bound → n < bound → s.result.isSome = true

theorem pmMulAdd_spec (O : OpsOK) {cap : Option Nat} {r0 : Option Big} {p v : Nat} {r' : Big}
    (hp : p < Bw 32) (hp0 : p ≠ 0) (hv : v < Bw 32)
    (h0 : ∀ r, r0 = some r → AllLtW 32 r ∧ capOk cap r.length = true ∧ isNormalized r = true)
    (h : pmMulAdd 32 cap r0 p v = some r') :
    ∃ r, r0 = some r ∧ toNatW 32 r' = toNatW 32 r * p + v ∧ AllLtW 32 r' ∧
      capOk cap r'.length = true ∧ isNormalized r' = true := by
  unfold pmMulAdd at h
  cases r0 with
  | none => simp at h
  | some x =>
    obtain ⟨hx, hc, hnx⟩ := h0 x rfl
    simp only at h
    cases hm : smallMul 32 cap x p with
    | none => rw [hm] at h; simp at h
    | some y =>
      rw [hm] at h
      simp only at h
      obtain ⟨a1, a2, a3⟩ := O.smallMul_exact hx hp hc hm
      obtain ⟨b1, b2, b3⟩ := O.smallAdd_exact a2 hv a3 h
      exact ⟨x, rfl, by rw [b1, a1], b2, b3,
        O.smallAdd_norm a2 hv a3 (O.smallMul_norm hx hp hnx hp0 hm) h⟩

theorem pmMulAdd_isSome (O : OpsOK) {cap : Option Nat} {r0 : Option Big} {p v bound : Nat}
    (hroom : CapRoomW cap bound) (hp : p < Bw 32) (hp0 : p ≠ 0) (hv : v < Bw 32)
    (h0 : ∀ r, r0 = some r → AllLtW 32 r ∧ capOk cap r.length = true ∧ isNormalized r = true ∧
      toNatW 32 r * p + v < bound) (h : r0.isSome = true) :
    (pmMulAdd 32 cap r0 p v).isSome = true := by
  cases r0 with
  | none => simp at h
  | some x =>
    obtain ⟨hx, hc, hnx, hlt⟩ := h0 x rfl
    have hle : toNatW 32 x * 1 ≤ toNatW 32 x * p := Nat.mul_le_mul_left _ (Nat.pos_of_ne_zero hp0)
    unfold pmMulAdd
    obtain ⟨y, hy⟩ := O.smallMul_complete (cap := cap) (x := x) (y := p)
      (Or.inl (hroom x hx hnx (by omega)))
    obtain ⟨a1, a2, a3⟩ := O.smallMul_exact hx hp hc hy
    obtain ⟨z, hz⟩ := O.smallAdd_complete (cap := cap) (x := y) (y := v) a2 hv
      (Or.inl (hroom y a2 (O.smallMul_norm hx hp hnx hp0 hy) (by omega)))
    simp only [hy, hz]; rfl

/-- `add_digit!` on an ASCII digit: no wrap (the temporary stays below `10^9 < 2^32`) -/
theorem addDigit_inv {cap : Option Nat} {s : PM} {n : Nat} {c : UInt8} (hc : isDigit c = true)
    (h : PMInv cap s n) (hlt : s.counter < 9) :
    PMInv cap (addDigit 32 s c) (n * 10 + digitVal c) ∧ (addDigit 32 s c).count = s.count + 1 ∧
    (addDigit 32 s c).counter = s.counter + 1 := by
  have hd := digitVal_le hc
  have h8 : 10 ^ s.counter ≤ 10 ^ 8 := Nat.pow_le_pow_right (by omega) (by omega)
  have hv := h.vlt
  have hu : (10:Nat) ^ 8 * 10 < Bw 32 := by rw [Bw32]; norm_num
  have e1 : s.value * 10 % Bw 32 = s.value * 10 := Nat.mod_eq_of_lt (by omega)
  have e2 : (s.value * 10 + digitVal c) % Bw 32 = s.value * 10 + digitVal c :=
    Nat.mod_eq_of_lt (by omega)
  have hval : (addDigit 32 s c).value = s.value * 10 + digitVal c := by
    unfold addDigit; simp only [digitOf_eq hc, e1, e2]
  refine ⟨⟨?_, ?_, ?_, ?_⟩, rfl, rfl⟩
  · rw [hval]; show _ < 10 ^ (s.counter + 1); rw [pow_succ]; omega
  · show s.counter + 1 ≤ 9; omega
  · intro r hr
    obtain ⟨a, b, nn, d⟩ := h.res r hr
    refine ⟨a, b, nn, ?_⟩
    rw [hval]; show toNatW 32 r * 10 ^ (s.counter + 1) + _ = _
    rw [← d, pow_succ]; ring
  · intro bound hr hb; exact h.tot bound hr (by omega)

theorem pmMaxNative32 : pmMaxNative 32 = 10 ^ 9 := by decide
theorem pmStep32 : pmStep 32 = 9 := by decide

/-- `add_temporary!(@max …)` after 9 digits -/
theorem flushMax_inv (O : OpsOK) {cap : Option Nat} {s : PM} {n : Nat} (h : PMInv cap s n)
    (hc : s.counter = 9) :
    PMInv cap (flushMax 32 cap s) n ∧ (flushMax 32 cap s).count = s.count ∧
      (flushMax 32 cap s).counter = 0 := by
  have hv := h.vlt
  rw [hc] at hv
  have hB := pow9_lt_Bw
  refine ⟨⟨?_, ?_, ?_, ?_⟩, rfl, rfl⟩
  · show 0 < 10 ^ 0; norm_num
  · show 0 ≤ 9; omega
  · intro r' hr'
    have hr'' : pmMulAdd 32 cap s.result (pmMaxNative 32) s.value = some r' := hr'
    rw [pmMaxNative32] at hr''
    obtain ⟨r, hr, e, a, b, nn⟩ := pmMulAdd_spec O hB (by norm_num) (by omega)
      (fun r hr => ⟨(h.res r hr).1, (h.res r hr).2.1, (h.res r hr).2.2.1⟩) hr''
    refine ⟨a, b, nn, ?_⟩
    show toNatW 32 r' * 10 ^ 0 + 0 = n
    rw [e, ← (h.res r hr).2.2.2, hc]; norm_num
  · intro bound hr hb
    show (pmMulAdd 32 cap s.result (pmMaxNative 32) s.value).isSome = true
    rw [pmMaxNative32]
    refine pmMulAdd_isSome O hr hB (by norm_num) (by omega) (fun r hr' => ?_) (h.tot bound hr hb)
    obtain ⟨a, b, nn, d⟩ := h.res r hr'
    refine ⟨a, b, nn, ?_⟩
    rw [hc] at d
    omega

/-- final state after `add_temporary!(@end …)`: the big integer holds everything -/
structure PMDone (cap : Option Nat) (s : PM) (n : Nat) : Prop where
  res : ∀ r, s.result = some r →
    AllLtW 32 r ∧ capOk cap r.length = true ∧ isNormalized r = true ∧ toNatW 32 r = n
  tot : ∀ bound, CapRoomW cap bound → n < bound → s.result.isSome = true

theorem flushEnd_done (O : OpsOK) {cap : Option Nat} {T : PowTables} (hT : Pow10OK9 T) {s : PM}
    {n : Nat} (h : PMInv cap s n) :
    PMDone cap (flushEnd 32 cap T s) n ∧ (flushEnd 32 cap T s).count = s.count := by
  unfold flushEnd
  by_cases hc : s.counter = 0
  · simp only [hc, ne_eq, not_true_eq_false, if_false]
    refine ⟨⟨?_, h.tot⟩, trivial⟩
    intro r hr
    obtain ⟨a, b, nn, d⟩ := h.res r hr
    have hv := h.vlt
    rw [hc] at hv d
    refine ⟨a, b, nn, ?_⟩
    omega
  · simp only [ne_eq, hc, not_false_eq_true, if_true]
    have hv := h.vlt
    have hp := pow_le_pow9 h.cle
    have hB := pow9_lt_Bw
    have hmod : intPow10 T.compact T.smallIntPow10 s.counter % Bw 32 = 10 ^ s.counter := by
      rw [hT _ h.cle]; exact Nat.mod_eq_of_lt (by omega)
    refine ⟨⟨?_, ?_⟩, trivial⟩
    · intro r' hr'
      have hr'' : pmMulAdd 32 cap s.result (intPow10 T.compact T.smallIntPow10 s.counter % Bw 32)
          s.value = some r' := hr'
      rw [hmod] at hr''
      obtain ⟨r, hr, e, a, b, nn⟩ := pmMulAdd_spec O (by omega) (Nat.pow_pos (by omega)).ne'
        (by omega) (fun r hr => ⟨(h.res r hr).1, (h.res r hr).2.1, (h.res r hr).2.2.1⟩) hr''
      exact ⟨a, b, nn, by rw [e, ← (h.res r hr).2.2.2]⟩
    · intro bound hr hb
      show (pmMulAdd 32 cap s.result (intPow10 T.compact T.smallIntPow10 s.counter % Bw 32)
          s.value).isSome = true
      rw [hmod]
      refine pmMulAdd_isSome O hr (by omega) (Nat.pow_pos (by omega)).ne' (by omega)
        (fun r hr' => ?_) (h.tot bound hr hb)
      obtain ⟨a, b, nn, d⟩ := h.res r hr'
      exact ⟨a, b, nn, by omega⟩

/-- the labelled digit loop: the 9-digit chunking does not matter -/
theorem pmLoop_spec (O : OpsOK) {cap : Option Nat} {T : PowTables} (hT : Pow10OK9 T) (md : Nat) :
    ∀ (ds : List UInt8) (s : PM) (n : Nat), AllDigits ds → PMInv cap s n → s.counter < 9 →
      s.count ≤ md →
      (s.count + ds.length < md → ∃ s', pmLoop 32 cap T md ds s = .exhausted s' ∧
          PMInv cap s' (n * 10 ^ ds.length + ofDigits ds) ∧ s'.counter < 9 ∧
          s'.count = s.count + ds.length) ∧
      (md ≤ s.count + ds.length → ∃ s', pmLoop 32 cap T md ds s = .full s' (ds.drop (md - s.count)) ∧
          PMDone cap s' (n * 10 ^ (md - s.count) + ofDigits (ds.take (md - s.count))) ∧
          s'.count = md) := by
  intro ds
  induction ds with
  | nil =>
    intro s n _ hi hc hle
    rw [pmLoop.eq_1]
    constructor
    · intro hlt
      have : ¬ s.count ≥ md := by simpa using hlt
      rw [if_neg this]
      exact ⟨s, rfl, by simpa [ofDigits_nil] using hi, hc, rfl⟩
    · intro hge
      have hge' : s.count ≥ md := by simpa using hge
      rw [if_pos hge']
      obtain ⟨a, b⟩ := flushEnd_done O hT hi
      refine ⟨flushEnd 32 cap T s, by simp, ?_, by rw [b]; omega⟩
      have : md - s.count = 0 := by omega
      simpa [this, ofDigits_nil] using a
  | cons c rest ih =>
    intro s n hd hi hc hle
    rw [AllDigits.cons_iff] at hd
    rw [pmLoop.eq_2]
    by_cases h0 : s.count ≥ md
    · rw [if_pos h0]
      have h00 : md - s.count = 0 := by omega
      constructor
      · intro hlt; omega
      · intro _
        obtain ⟨a, b⟩ := flushEnd_done O hT hi
        refine ⟨_, by rw [h00]; rfl, ?_, by rw [b]; omega⟩
        simpa [h00, ofDigits_nil] using a
    · rw [if_neg h0]
      obtain ⟨hi1, hcount1, hcounter1⟩ := addDigit_inv (cap := cap) hd.1 hi hc
      simp only []
      by_cases h1 : (addDigit 32 s c).count ≥ md
      · rw [if_pos h1]
        have h11 : md - s.count = 1 := by omega
        constructor
        · intro hlt; simp only [List.length_cons] at hlt; omega
        · intro _
          obtain ⟨a, b⟩ := flushEnd_done O hT hi1
          refine ⟨_, by rw [h11]; rfl, ?_, by rw [b]; omega⟩
          have := ofDigits_cons_take c rest (Nat.zero_le _) n
          simp only [Nat.zero_add, pow_zero, Nat.mul_one, List.take_zero, ofDigits_nil,
            Nat.add_zero] at this
          rw [h11, this]; exact a
      · rw [if_neg h1]
        have hk : md - s.count = (md - (s.count + 1)) + 1 := by omega
        -- common continuation
        have key : ∀ s2 : PM, PMInv cap s2 (n * 10 + digitVal c) → s2.counter < 9 →
            s2.count = s.count + 1 →
            (s.count + (c :: rest).length < md → ∃ s', pmLoop 32 cap T md rest s2 = .exhausted s' ∧
              PMInv cap s' (n * 10 ^ (c :: rest).length + ofDigits (c :: rest)) ∧ s'.counter < 9 ∧
              s'.count = s.count + (c :: rest).length) ∧
            (md ≤ s.count + (c :: rest).length → ∃ s', pmLoop 32 cap T md rest s2 =
                .full s' ((c :: rest).drop (md - s.count)) ∧
              PMDone cap s' (n * 10 ^ (md - s.count) + ofDigits ((c :: rest).take (md - s.count))) ∧
              s'.count = md) := by
          intro s2 hi2 hc2 hcnt2
          obtain ⟨ihA, ihB⟩ := ih s2 _ hd.2 hi2 hc2 (by omega)
          simp only [List.length_cons]
          constructor
          · intro hlt
            obtain ⟨s', e, a, b, d⟩ := ihA (by omega)
            refine ⟨s', e, ?_, b, by omega⟩
            have : n * 10 ^ (rest.length + 1) + ofDigits (c :: rest) =
                (n * 10 + digitVal c) * 10 ^ rest.length + ofDigits rest := by
              rw [ofDigits_cons, pow_succ]; ring
            rw [this]; exact a
          · intro hge
            obtain ⟨s', e, a, d⟩ := ihB (by omega)
            refine ⟨s', ?_, ?_, d⟩
            · rw [e, hcnt2, hk, List.drop_succ_cons]
            · rw [hk, ofDigits_cons_take c rest (by omega) n, ← hcnt2]; exact a
        by_cases h2 : (addDigit 32 s c).counter ≥ pmStep 32
        · rw [if_pos h2]
          have h9 : (addDigit 32 s c).counter = 9 := by rw [pmStep32] at h2; omega
          obtain ⟨a, b, d⟩ := flushMax_inv O hi1 h9
          exact key _ a (by omega) (by rw [b, hcount1])
        · rw [if_neg h2]
          exact key _ hi1 (by rw [pmStep32] at h2; omega) hcount1

/-- `round_up_nonzero!` -/
theorem roundUp_spec (O : OpsOK) {cap : Option Nat} {s : PM} {n : Nat} (h : PMDone cap s n)
    (rest : List UInt8) :
    (rest.any (· != 48) = true → ∃ s', roundUpNonzero 32 cap s rest = some s' ∧
        PMDone cap s' (n * 10 + 1) ∧ s'.count = s.count + 1) ∧
    (rest.any (· != 48) = false → roundUpNonzero 32 cap s rest = none) := by
  unfold roundUpNonzero
  have h10 : 10 < Bw 32 := by rw [Bw32]; norm_num
  have h1 : 1 < Bw 32 := by rw [Bw32]; norm_num
  constructor
  · intro ha
    rw [if_pos ha]
    refine ⟨_, rfl, ⟨?_, ?_⟩, rfl⟩
    · intro r' hr'
      have hr'' : pmMulAdd 32 cap s.result 10 1 = some r' := hr'
      obtain ⟨r, hr, e, a, b, nn⟩ := pmMulAdd_spec O h10 (by norm_num) h1
        (fun r hr => ⟨(h.res r hr).1, (h.res r hr).2.1, (h.res r hr).2.2.1⟩) hr''
      exact ⟨a, b, nn, by rw [e, (h.res r hr).2.2.2]⟩
    · intro bound hr hb
      refine pmMulAdd_isSome O hr h10 (by norm_num) h1
        (fun r hr' => ?_) (h.tot bound hr (by omega))
      obtain ⟨a, b, nn, d⟩ := h.res r hr'
      exact ⟨a, b, nn, by omega⟩
  · intro ha
    rw [if_neg (by simp [ha])]

/-- the part of `parse_mantissa` after the first loop has been left through `break` -/
def pmFinish (cap : Option Nat) (T : PowTables) (md : Nat) (ds : List UInt8) (s : PM) : PM :=
  match pmLoop 32 cap T md ds s with
  | .full s2 rest =>
    match roundUpNonzero 32 cap s2 rest with
    | some s' => s'
    | none => s2
  | .exhausted s2 => flushEnd 32 cap T s2

theorem pmFinish_spec (O : OpsOK) {cap : Option Nat} {T : PowTables} (hT : Pow10OK9 T) {md : Nat}
    (p ds : List UInt8) {s : PM} (hd : AllDigits ds) (hi : PMInv cap s (ofDigits p))
    (hc : s.counter < 9) (hcnt : s.count = p.length) (hle : p.length ≤ md) :
    PMDone cap (pmFinish cap T md ds s) (mantSpec (p ++ ds) md).1 ∧
    (pmFinish cap T md ds s).count = (mantSpec (p ++ ds) md).2 := by
  obtain ⟨hA, hB⟩ := pmLoop_spec O hT md ds s _ hd hi hc (by omega)
  unfold pmFinish mantSpec
  rw [List.length_append]
  by_cases hlt : p.length + ds.length < md
  · obtain ⟨s', e, a, b, d⟩ := hA (by omega)
    rw [e, if_pos (by omega)]
    simp only []
    obtain ⟨a1, a2⟩ := flushEnd_done O hT a
    rw [ofDigits_append]
    exact ⟨a1, by rw [a2, d, hcnt]⟩
  · obtain ⟨s', e, a, d⟩ := hB (by omega)
    rw [e]
    simp only []
    rw [hcnt] at a
    have htake : (p ++ ds).take md = p ++ ds.take (md - p.length) := by
      rw [List.take_append, List.take_of_length_le hle]
    have hdrop : (p ++ ds).drop md = ds.drop (md - p.length) := by
      rw [List.drop_append, List.drop_of_length_le hle, List.nil_append]
    have hval : ofDigits p * 10 ^ (md - p.length) + ofDigits (ds.take (md - p.length)) =
        ofDigits ((p ++ ds).take md) := by
      rw [htake, ofDigits_append, List.length_take, Nat.min_eq_left (by omega)]
    rw [hval] at a
    obtain ⟨rA, rB⟩ := roundUp_spec O a (ds.drop (md - s.count))
    by_cases heq : p.length + ds.length ≤ md
    · have hnil : ds.drop (md - s.count) = [] := by
        rw [hcnt]; exact List.drop_of_length_le (by omega)
      rw [if_pos heq, rB (by rw [hnil]; rfl)]
      simp only []
      have : (p ++ ds).take md = p ++ ds := List.take_of_length_le (by rw [List.length_append]; omega)
      rw [this] at a
      exact ⟨a, by omega⟩
    · rw [if_neg heq, hdrop, ← hcnt]
      cases hany : (ds.drop (md - s.count)).any (· != 48) with
      | true =>
        obtain ⟨s'', e2, a2, d2⟩ := rA hany
        rw [e2]; simp only [if_true]
        exact ⟨a2, by omega⟩
      | false =>
        rw [rB hany]; simp only [Bool.false_eq_true, if_false]
        exact ⟨a, d⟩

theorem pmSkipZeros_eq : ∀ (frac : List UInt8) (s : PM),
    pmSkipZeros 32 frac s =
      match frac.dropWhile (fun c => c == 48) with
      | [] => (s, [])
      | c :: rest => (addDigit 32 s c, rest) := by
  intro frac
  induction frac with
  | nil => intro s; rfl
  | cons c rest ih =>
    intro s
    unfold pmSkipZeros
    by_cases hc : c = 48
    · subst hc
      simp only [bne_self_eq_false, Bool.false_eq_true, if_false, List.dropWhile_cons, beq_self_eq_true,
        if_true]
      exact ih s
    · have h1 : (c != 48) = true := by simpa using hc
      have h2 : (c == 48) = false := by simpa using hc
      simp only [h1, if_true, List.dropWhile_cons, h2, Bool.false_eq_true, if_false]

theorem s0_inv (cap : Option Nat) : PMInv cap ⟨0, 0, 0, some [], false⟩ 0 := by
  refine ⟨by norm_num, by norm_num, ?_, fun _ _ _ => rfl⟩
  intro r hr
  simp only [Option.some.injEq] at hr
  subst hr
  refine ⟨allLtW_nil, ?_, rfl, (by simp [toNatW])⟩
  cases cap <;> simp [capOk]

/-- **M1 / C06 for 32-bit limbs**: `parse_mantissa` on ASCII digit lists, any back-end, any
    `max_digits ≥ 1`: the same `mantSpec` as the 64-bit build. -/
theorem parseMantissaPM_spec (O : OpsOK) {cap : Option Nat} {T : PowTables} (hT : Pow10OK9 T)
    {md : Nat} (hmd : 1 ≤ md) {int frac : List UInt8} (hi : AllDigits int) (hf : AllDigits frac)
    (h0 : int.head? ≠ some 48) :
    PMDone cap (parseMantissaPM 32 cap T int frac md) (mantSpec (sigDigits int frac) md).1 ∧
    (parseMantissaPM 32 cap T int frac md).count = (mantSpec (sigDigits int frac) md).2 := by
  obtain ⟨hA, hB⟩ := pmLoop_spec O hT md int _ 0 hi (s0_inv cap) (by norm_num) (Nat.zero_le _)
  simp only [Nat.zero_add, Nat.sub_zero, Nat.zero_mul] at hA hB
  unfold parseMantissaPM
  simp only []
  by_cases hlt : int.length < md
  · obtain ⟨s, e, a, b, d⟩ := hA hlt
    rw [e]
    simp only []
    cases int with
    | nil =>
      simp only [List.length_nil] at d
      rw [if_pos d, pmSkipZeros_eq]
      show PMDone cap (pmFinish cap T md _ _) _ ∧ (pmFinish cap T md _ _).count = _
      rw [sigDigits_nil]
      rw [pmLoop.eq_1, if_neg (by simp; omega)] at e
      injection e with e
      subst e
      cases hsig : frac.dropWhile (fun c => c == 48) with
      | nil =>
        simp only []
        exact pmFinish_spec O hT [] [] AllDigits.nil (s0_inv cap) (by norm_num) rfl (Nat.zero_le _)
      | cons c rest =>
        simp only []
        have hd : AllDigits (c :: rest) := by rw [← hsig]; exact AllDigits.dropWhile _ hf
        rw [AllDigits.cons_iff] at hd
        obtain ⟨i1, c1, c2⟩ := addDigit_inv (cap := cap) hd.1 (s0_inv cap) (by norm_num)
        have := pmFinish_spec O hT [c] rest hd.2 (s := addDigit 32 ⟨0, 0, 0, some [], false⟩ c)
          (by simpa [ofDigits_cons, ofDigits_nil] using i1) (by rw [c2]; norm_num) c1 hmd
        exact this
    | cons c int =>
      have hne : ¬ s.count = 0 := by rw [d]; simp
      rw [if_neg hne]
      show PMDone cap (pmFinish cap T md _ _) _ ∧ (pmFinish cap T md _ _).count = _
      have hc0 : c ≠ 48 := by intro hc; subst hc; exact h0 rfl
      rw [sigDigits_cons int frac hc0]
      have a' : PMInv cap s (ofDigits (c :: int)) := by simpa using a
      exact pmFinish_spec O hT (c :: int) frac hf a' b d (by omega)
  · obtain ⟨s, e, a, d⟩ := hB (by omega)
    rw [e]
    simp only []
    cases int with
    | nil => simp at hlt; omega
    | cons c int =>
      have hc0 : c ≠ 48 := by intro hc; subst hc; exact h0 rfl
      rw [sigDigits_cons int frac hc0]
      generalize hI : c :: int = I at *
      have hlen : md ≤ I.length := by omega
      have htake : (I ++ frac).take md = I.take md := by
        rw [List.take_append, show md - I.length = 0 by omega, List.take_zero, List.append_nil]
      have hdrop : (I ++ frac).drop md = I.drop md ++ frac := by
        rw [List.drop_append, show md - I.length = 0 by omega, List.drop_zero]
      unfold mantSpec
      rw [htake, hdrop, List.any_append, List.length_append]
      obtain ⟨rA, rB⟩ := roundUp_spec O a (I.drop md)
      obtain ⟨fA, fB⟩ := roundUp_spec O a frac
      cases h1 : (I.drop md).any (· != 48) with
      | true =>
        obtain ⟨s', e1, a1, d1⟩ := rA h1
        rw [e1]; simp only [Bool.true_or, if_true]
        have : ¬ I.length + frac.length ≤ md := by
          intro hh
          have : I.drop md = [] := List.drop_of_length_le (by omega)
          rw [this] at h1; simp at h1
        rw [if_neg this]
        exact ⟨a1, by omega⟩
      | false =>
        rw [rB h1]; simp only [Bool.false_or]
        cases h2 : frac.any (· != 48) with
        | true =>
          obtain ⟨s', e1, a1, d1⟩ := fA h2
          rw [e1]; simp only [if_true]
          have : ¬ I.length + frac.length ≤ md := by
            intro hh
            have : frac = [] := List.eq_nil_of_length_eq_zero (by omega)
            rw [this] at h2; simp at h2
          rw [if_neg this]
          exact ⟨a1, by omega⟩
        | false =>
          rw [fB h2]; simp only [Bool.false_eq_true, if_false]
          by_cases hle : I.length + frac.length ≤ md
          · rw [if_pos hle]
            have hf0 : frac = [] := List.eq_nil_of_length_eq_zero (by omega)
            have : I.take md = I := List.take_of_length_le (by omega)
            rw [this] at a
            subst hf0
            simp only [List.append_nil, List.length_nil, Nat.add_zero]
            exact ⟨a, by simp at hle; omega⟩
          · rw [if_neg hle]
            exact ⟨a, d⟩

/-- partial correctness on every back-end: a returned big integer is right -/
theorem parseMantissa_some (O : OpsOK) {cap : Option Nat} {T : PowTables} (hT : Pow10OK9 T)
    {md : Nat} (hmd : 1 ≤ md) {int frac : List UInt8} (hi : AllDigits int) (hf : AllDigits frac)
    (h0 : int.head? ≠ some 48) {r : Big} {count : Nat}
    (h : parseMantissa 32 cap T int frac md = some (r, count)) :
    toNatW 32 r = (mantSpec (sigDigits int frac) md).1 ∧
    count = (mantSpec (sigDigits int frac) md).2 ∧
    AllLtW 32 r ∧ capOk cap r.length = true ∧ isNormalized r = true := by
  obtain ⟨a, b⟩ := parseMantissaPM_spec O (cap := cap) hT hmd hi hf h0
  unfold parseMantissa at h
  simp only at h
  split at h
  · simp at h
  · next r' hr' =>
    simp only [Option.some.injEq, Prod.mk.injEq] at h
    obtain ⟨rfl, rfl⟩ := h
    obtain ⟨c1, c2, c3, c4⟩ := a.res _ hr'
    exact ⟨c4, b, c1, c2, c3⟩

/-- totality on any back-end that has room for every normalised big integer below `bound`, when
    the result is below `bound` -/
theorem parseMantissa_total (O : OpsOK) {cap : Option Nat} {T : PowTables} (hT : Pow10OK9 T)
    {md : Nat} (hmd : 1 ≤ md) {int frac : List UInt8} (hi : AllDigits int) (hf : AllDigits frac)
    (h0 : int.head? ≠ some 48) {bound : Nat} (hroom : CapRoomW cap bound)
    (hb : (mantSpec (sigDigits int frac) md).1 < bound) :
    ∃ r count, parseMantissa 32 cap T int frac md = some (r, count) := by
  obtain ⟨a, _⟩ := parseMantissaPM_spec O (cap := cap) hT hmd hi hf h0
  have := a.tot _ hroom hb
  unfold parseMantissa
  simp only
  cases hr : (parseMantissaPM 32 cap T int frac md).result with
  | none => rw [hr] at this; simp at this
  | some r => exact ⟨r, _, rfl⟩

-- ================================================================ 2. lock-step with the 64-bit model
/-- capacities of a 64-bit-limb back-end and of a 32-bit-limb back-end such that whatever fits the
    former fits the latter -/
structure Caps (c64 c32 : Option Nat) : Prop where
  one : capOk c64 1 = true
  two : capOk c32 2 = true
  room : ∀ c, c32 = some c → ∃ a, c64 = some a ∧ B ^ a ≤ Bw 32 ^ c

theorem caps_heap : Caps none none := ⟨rfl, rfl, fun _ h => nomatch h⟩

theorem caps_stack : Caps (some 62) (some 125) := by
  refine ⟨by decide, by decide, ?_⟩
  intro c hc
  simp only [Option.some.injEq] at hc
  subst hc
  exact ⟨62, rfl, by rw [Bw32]; unfold B; norm_num⟩

/-- a 64-bit-limb vector and a 32-bit-limb vector holding the same non-zero number, both
    well-formed, normalised and within their back-ends -/
structure Rel (c64 c32 : Option Nat) (x y : Big) : Prop where
  lx : AllLt x
  ly : AllLtW 32 y
  nx : isNormalized x = true
  ny : isNormalized y = true
  val : toNat x = toNatW 32 y
  nz : toNat x ≠ 0
  cx : capOk c64 x.length = true
  cy : capOk c32 y.length = true

theorem Rel.x_ne {c64 c32 : Option Nat} {x y : Big} (R : Rel c64 c32 x y) : x ≠ [] := by
  intro h; have := R.nz; rw [h] at this; exact this rfl

theorem Rel.y_ne {c64 c32 : Option Nat} {x y : Big} (R : Rel c64 c32 x y) : y ≠ [] := by
  intro h; have h1 := R.nz; rw [R.val, h] at h1; exact h1 rfl

theorem Rel.nzW {c64 c32 : Option Nat} {x y : Big} (R : Rel c64 c32 x y) : toNatW 32 y ≠ 0 := by
  rw [← R.val]; exact R.nz

/-- `Bigint::pow` in lock-step: if the 64-bit library returns, so does the 32-bit one, with the
    same number -/
theorem bigintPow_lock (O : OpsOK) {c64 c32 : Option Nat} (hC : Caps c64 c32) (compact : Bool)
    {x y r : Big} {base e : Nat} (hb : base = 2 ∨ base = 5 ∨ base = 10) (R : Rel c64 c32 x y)
    (h : MinLex.bigintPow c64 (genPow compact) x base e = some r) :
    ∃ r', bigintPow 32 c32 (genPowW 32 compact) y base e = some r' ∧ Rel c64 c32 r r' := by
  have hT : (genPow compact).compact = false → PowTablesOK (genPow compact) :=
    fun _ => C12.genPow_tablesOK compact
  obtain ⟨a1, a2, a3⟩ := C12.bigintPow_exact_partial hT hb R.lx R.nz R.cx h
  have a4 := SlowP.bigintPow_topNZ hT hb R.lx (TopNZ_of_normalized R.nx R.x_ne) R.cx h
  have hpos : 0 < base ^ e := by
    rcases hb with rfl | rfl | rfl <;> exact Nat.pow_pos (by omega)
  have hrnz : toNat r ≠ 0 := by
    rw [a1]; exact (Nat.mul_pos (Nat.pos_of_ne_zero R.nz) hpos).ne'
  have hex : ∃ r', bigintPow 32 c32 (genPowW 32 compact) y base e = some r' := by
    cases hc : c32 with
    | none => exact O.bigintPow_heap _ _ _ _
    | some c =>
      obtain ⟨a, ha, hle⟩ := hC.room c hc
      subst ha
      have hfit := C12.fits_of_some a2 a3
      have hcy := R.cy
      rw [hc] at hcy
      exact O.bigintPow_fits compact hb R.ly R.ny R.y_ne hcy (by rw [← R.val, ← a1]; omega)
  obtain ⟨r', hr'⟩ := hex
  obtain ⟨b1, b2, b3⟩ := O.bigintPow_exact compact hb R.ly R.nzW R.cy hr'
  have b4 := O.bigintPow_norm compact hb R.ly R.ny R.y_ne R.cy hr'
  exact ⟨r', hr', ⟨a2, b2, normalized_of_topNZ a2 a4, b4, by rw [a1, b1, R.val], hrnz, a3, b3⟩⟩

/-- the top 64 bits, the sticky flag and the bit length only depend on the number -/
theorem hi64_bitLength_eq (O : OpsOK) {c64 c32 : Option Nat} {x y : Big} (R : Rel c64 c32 x y) :
    hi64 32 y = MinLex.hi64 x ∧ bitLength 32 y = MinLex.bitLength x := by
  have hbl := C12.bitLength_exact R.lx R.nx R.x_ne
  have hbl' := O.bitLength_exact R.ly R.ny R.y_ne
  have e : bitLength 32 y = MinLex.bitLength x := by rw [hbl, hbl', R.val]
  refine ⟨?_, e⟩
  obtain ⟨p1, p2⟩ := C12.hi64_exact R.lx R.nx R.x_ne
  obtain ⟨q1, q2⟩ := O.hi64_exact R.ly R.ny R.y_ne
  rw [e, ← R.val] at q1 q2
  by_cases hL : 64 ≤ MinLex.bitLength x
  · obtain ⟨u1, u2⟩ := p1 hL
    obtain ⟨v1, v2⟩ := q1 hL
    exact Prod.ext (by rw [u1, v1]) (by rw [u2, v2])
  · obtain ⟨u1, u2⟩ := p2 (by omega)
    obtain ⟨v1, v2⟩ := q2 (by omega)
    exact Prod.ext (by rw [u1, v1]) (by rw [u2, v2])

/-- `positive_digit_comp`: the 32-bit build returns what the 64-bit build returns -/
theorem positiveDigitComp_lock (O : OpsOK) {c64 c32 : Option Nat} (hC : Caps c64 c32)
    (compact : Bool) (F : FloatC) {x y : Big} (R : Rel c64 c32 x y) (e : Int) {fp : ExtFloat}
    (h : MinLex.positiveDigitComp c64 (genPow compact) F x e = some fp) :
    positiveDigitComp 32 c32 (genPowW 32 compact) F y e = some fp := by
  unfold MinLex.positiveDigitComp at h
  unfold positiveDigitComp
  split at h
  · simp at h
  · next bm hbm =>
    obtain ⟨bm', hbm', R'⟩ := bigintPow_lock O hC compact (Or.inr (Or.inr rfl)) R hbm
    rw [hbm']
    obtain ⟨e1, e2⟩ := hi64_bitLength_eq O R'
    simp only [e1, e2]
    exact h

theorem fbh_mant_bounds (F : FloatC) (bits : Nat) :
    (fbh F bits).mant < B ∧ (fbh F bits).mant ≠ 0 := by
  unfold fbh u64Mod B
  simp only
  constructor <;> omega

/-- `from_u64` on both sides -/
theorem fromU64_rel (O : OpsOK) {c64 c32 : Option Nat} (hC : Caps c64 c32) {v : Nat} (hv : v < B)
    (h0 : v ≠ 0) : Rel c64 c32 (MinLex.fromU64 v) (fromU64 32 v) := by
  obtain ⟨f1, f2, f3, f4⟩ := C12.fromU64_exact hv
  obtain ⟨g1, g2, g3, g4⟩ := O.fromU64_exact (v := v) (by unfold B at hv; omega)
  exact ⟨f2, g2, f3, g3, by rw [f1, g1], by rw [f1]; exact h0, capOk_mono f4 hC.one,
    capOk_mono g4 hC.two⟩

theorem bigCompare_lock (O : OpsOK) {c64 c32 : Option Nat} {x y x' y' : Big}
    (R : Rel c64 c32 x y) (R' : Rel c64 c32 x' y') : bigCompare y y' = bigCompare x x' := by
  rw [C12.bigCompare_exact R.lx R'.lx R.nx R'.nx, O.bigCompare_exact R.ly R'.ly R.ny R'.ny,
    R.val, R'.val]

theorem negativeDigitComp_lock (O : OpsOK) {c64 c32 : Option Nat} (hC : Caps c64 c32)
    (compact : Bool) (F : FloatC) {x y : Big} (R : Rel c64 c32 x y) (fp : ExtFloat) (e : Int)
    {r : ExtFloat}
    (h : MinLex.negativeDigitComp c64 (genPow compact) F x fp e = some r) :
    negativeDigitComp 32 c32 (genPowW 32 compact) F y fp e = some r := by
  unfold MinLex.negativeDigitComp at h
  unfold negativeDigitComp
  simp only at h ⊢
  obtain ⟨hm1, hm0⟩ := fbh_mant_bounds F (extendedToFloat F (round F roundDown fp))
  have R0 := fromU64_rel O hC hm1 hm0
  generalize fbh F (extendedToFloat F (round F roundDown fp)) = theor at *
  split at h
  · simp at h
  · next t1 h1 =>
    obtain ⟨t1', h1', R1⟩ : ∃ t1', (if -e ≠ 0 then
        bigintPow 32 c32 (genPowW 32 compact) (fromU64 32 theor.mant) 5 (-e % 4294967296).toNat
        else some (fromU64 32 theor.mant)) = some t1' ∧ Rel c64 c32 t1 t1' := by
      by_cases hz : -e ≠ 0
      · rw [if_pos hz] at h1 ⊢
        exact bigintPow_lock O hC compact (Or.inr (Or.inl rfl)) R0 h1
      · rw [if_neg hz] at h1 ⊢
        simp only [Option.some.injEq] at h1
        subst h1
        exact ⟨_, rfl, R0⟩
    rw [h1']
    simp only
    by_cases hpos : theor.exp - e > 0
    · rw [if_pos hpos] at h ⊢
      cases ht : MinLex.bigintPow c64 (genPow compact) t1 2 ((theor.exp - e) % 4294967296).toNat with
      | none => rw [ht] at h; simp at h
      | some t =>
        rw [ht] at h
        obtain ⟨t', ht', R2⟩ := bigintPow_lock O hC compact (Or.inl rfl) R1 ht
        rw [ht']
        simp only at h ⊢
        rw [bigCompare_lock O R R2]
        exact h
    · rw [if_neg hpos] at h ⊢
      by_cases hneg : theor.exp - e < 0
      · rw [if_pos hneg] at h ⊢
        cases ht : MinLex.bigintPow c64 (genPow compact) x 2 (-(theor.exp - e) % 4294967296).toNat with
        | none => rw [ht] at h; simp at h
        | some t =>
          rw [ht] at h
          obtain ⟨t', ht', R2⟩ := bigintPow_lock O hC compact (Or.inl rfl) R ht
          rw [ht']
          simp only at h ⊢
          rw [bigCompare_lock O R2 R1]
          exact h
      · rw [if_neg hneg] at h ⊢
        simp only at h ⊢
        rw [bigCompare_lock O R R1]
        exact h

/-- **`slow` in lock-step**: on valid input with a non-zero significand and a moderate decimal
    exponent, whenever the 64-bit-limb build returns, the 32-bit-limb build returns the same
    extended float — provided its back-end has room for the parsed significand. -/
theorem slow_lock (O : OpsOK) {c64 c32 : Option Nat} (hC : Caps c64 c32) (compact : Bool)
    {F : FloatC} (hmd1 : 1 ≤ F.maxDigits) (hmd2 : F.maxDigits ≤ 1000000)
    (hroom : CapRoomW c32 (10 ^ (F.maxDigits + 1)))
    {int frac : List UInt8} {e : Int} (hv : Valid int frac e)
    (hm0 : (parseNumber int frac e).mantissa ≠ 0)
    (hlo : -1000 ≤ (parseNumber int frac e).exponent) (hhi : (parseNumber int frac e).exponent ≤ 1000)
    (fp : ExtFloat) {r : ExtFloat}
    (h : MinLex.slow c64 (genPow compact) F (parseNumber int frac e) fp int frac = some r) :
    slow 32 c32 (genPowW 32 compact) F (parseNumber int frac e) fp int frac = some r := by
  have hT10 := genPow_pow10OK compact
  have hT9 := genPowW_pow10OK9 compact
  unfold MinLex.slow at h
  simp only at h
  cases hpm : MinLex.parseMantissa c64 (genPow compact) int frac F.maxDigits with
  | none => rw [hpm] at h; simp at h
  | some res =>
    obtain ⟨bm, digits⟩ := res
    rw [hpm] at h
    simp only at h
    obtain ⟨p1, p2, p3, p4, p5⟩ := SlowP.parseMantissa_some hT10 hmd1 hv.1 hv.2.1 hv.2.2.1 hpm
    obtain ⟨_, _, _, _, hnz, _⟩ := slow_bookkeeping hT10 hmd1 hmd2 hv hm0 hlo hhi hpm
    have hd := (sigDigits_facts hv).2.2.2.2
    have hml := mantSpec_lt hd F.maxDigits
    have hpow : 10 ^ (mantSpec (sigDigits int frac) F.maxDigits).2 ≤ 10 ^ (F.maxDigits + 1) :=
      Nat.pow_le_pow_right (by omega) hml.2
    obtain ⟨bm', digits', hpm'⟩ := parseMantissa_total O (cap := c32) hT9 hmd1 hv.1 hv.2.1 hv.2.2.1
      hroom (by omega)
    obtain ⟨q1, q2, q3, q4, q5⟩ := parseMantissa_some O hT9 hmd1 hv.1 hv.2.1 hv.2.2.1 hpm'
    have hdig : digits' = digits := by rw [q2, p2]
    subst hdig
    have R : Rel c64 c32 bm bm' :=
      ⟨p3, q3, normalized_of_normOK p3 p5, q5, by rw [p1, q1], hnz, p4, q4⟩
    unfold slow
    simp only [hpm']
    by_cases hge : wrapI32 (scientificExponent (parseNumber int frac e) + 1 - asI32 digits') ≥ 0
    · rw [if_pos hge] at h ⊢
      exact positiveDigitComp_lock O hC compact F R _ h
    · rw [if_neg hge] at h ⊢
      exact negativeDigitComp_lock O hC compact F R _ _ h

end MinLex.W.SP
