/-
  Refinement lemmas: the iterator-level parser of Model/Iter.lean computes, for every lawful iterator,
  what the list-level model (Model/Parse.lean, Model/Slow.lean) computes on the yielded byte sequence.
  Also: the concrete iterators are lawful and yield what they should.
-/
import MinLex.Model.Iter
namespace MinLex.It
open MinLex

variable {I : ByteIter}

-- ================================================================ `toList` and `next`

theorem toList_of_size_zero {s : I.σ} (h0 : I.size s = 0) : I.toList s = [] := by
  unfold ByteIter.toList; rw [h0]; rfl

theorem toList_of_next_none {s s' : I.σ} (hn : I.next s = (none, s')) : I.toList s = [] := by
  unfold ByteIter.toList
  cases I.size s with
  | zero => rfl
  | succ n => unfold ByteIter.toListAux; rw [hn]

/-- surplus fuel does not change the yielded sequence -/
theorem toListAux_fuel (h : I.Lawful) : ∀ (n m : Nat) (s : I.σ), I.size s ≤ n → I.size s ≤ m →
    I.toListAux n s = I.toListAux m s := by
  intro n
  induction n with
  | zero =>
    intro m s hn _
    cases m with
    | zero => rfl
    | succ m =>
      unfold ByteIter.toListAux
      cases hx : I.next s with
      | mk o s' =>
        cases o with
        | none => rfl
        | some c => have := h.dec s c s' hx; omega
  | succ n ih =>
    intro m s hn hm
    cases m with
    | zero =>
      unfold ByteIter.toListAux
      cases hx : I.next s with
      | mk o s' =>
        cases o with
        | none => rfl
        | some c => have := h.dec s c s' hx; omega
    | succ m =>
      unfold ByteIter.toListAux
      cases hx : I.next s with
      | mk o s' =>
        cases o with
        | none => rfl
        | some c =>
          have := h.dec s c s' hx
          simp only []
          rw [ih m s' (by omega) (by omega)]

theorem toList_of_next_some (h : I.Lawful) {s s' : I.σ} {c : UInt8} (hn : I.next s = (some c, s')) :
    I.toList s = c :: I.toList s' := by
  have hd := h.dec s c s' hn
  unfold ByteIter.toList
  obtain ⟨k, hk⟩ : ∃ k, I.size s = k + 1 := ⟨I.size s - 1, by omega⟩
  rw [hk]
  conv => lhs; unfold ByteIter.toListAux
  rw [hn]
  simp only []
  rw [toListAux_fuel h k (I.size s') s' (by omega) (Nat.le_refl _)]

theorem toList_after_none (h : I.Lawful) {s s' : I.σ} (hn : I.next s = (none, s')) : I.toList s' = [] := by
  have hf := h.fused s s' hn
  cases hx : I.next s' with
  | mk o s'' =>
    rw [hx] at hf
    simp only [] at hf
    subst hf
    exact toList_of_next_none hx

/-- the only two things `next` can do on a lawful iterator, in terms of the yielded sequence -/
theorem next_cases (h : I.Lawful) (s : I.σ) :
    (∃ s', I.next s = (none, s') ∧ I.toList s = [] ∧ I.toList s' = []) ∨
    (∃ c s', I.next s = (some c, s') ∧ I.toList s = c :: I.toList s' ∧ I.size s' < I.size s) := by
  cases hx : I.next s with
  | mk o s' =>
    cases o with
    | none => exact .inl ⟨s', rfl, toList_of_next_none hx, toList_after_none h hx⟩
    | some c => exact .inr ⟨c, s', rfl, toList_of_next_some h hx, h.dec s c s' hx⟩

-- ================================================================ parse.rs loops

theorem countI_eq (h : I.Lawful) : ∀ (n : Nat) (s : I.σ) (acc : Nat), I.size s ≤ n →
    countI I n s acc = acc + (I.toList s).length := by
  intro n
  induction n with
  | zero => intro s acc hn; rw [toList_of_size_zero (by omega)]; rfl
  | succ n ih =>
    intro s acc hn
    unfold countI
    rcases next_cases h s with ⟨s', hx, hl, _⟩ | ⟨c, s', hx, hl, hd⟩
    · rw [hx, hl]; rfl
    · rw [hx, hl]; simp only []; rw [ih s' _ (by omega), List.length_cons]; omega

theorem accWrap_cons (m : Nat) (c : UInt8) (ds : List UInt8) :
    accWrap m (c :: ds) = accWrap (((m * 10) % u64Mod + digitOf c) % u64Mod) ds := by
  unfold accWrap; rfl

theorem pnfLoopI_eq (h : I.Lawful) : ∀ (n : Nat) (s : I.σ) (cnt m : Nat), I.size s ≤ n →
    pnfLoopI I n s cnt m = (cnt + (I.toList s).length, accWrap m (I.toList s)) := by
  intro n
  induction n with
  | zero => intro s cnt m hn; rw [toList_of_size_zero (by omega)]; rfl
  | succ n ih =>
    intro s cnt m hn
    unfold pnfLoopI
    rcases next_cases h s with ⟨s', hx, hl, _⟩ | ⟨c, s', hx, hl, hd⟩
    · rw [hx, hl]; rfl
    · rw [hx, hl]; simp only []
      rw [ih s' _ _ (by omega), List.length_cons, accWrap_cons, Nat.add_assoc, Nat.add_comm 1]

theorem parseNumberFastI_eq {I1 I2 : ByteIter} (h1 : I1.Lawful) (h2 : I2.Lawful) (s1 : I1.σ) (s2 : I2.σ)
    (e : Int) : parseNumberFastI I1 s1 I2 s2 e = parseNumberFast (I1.toList s1) (I2.toList s2) e := by
  unfold parseNumberFastI parseNumberFast
  rw [pnfLoopI_eq h1 _ s1 0 0 (Nat.le_refl _)]
  simp only []
  rw [pnfLoopI_eq h2 _ s2 0 _ (Nat.le_refl _)]
  simp only [Nat.zero_add]

theorem pnIntLoopI_eq (h : I.Lawful) (e : Int) : ∀ (n : Nat) (s : I.σ) (count m : Nat) (tr : Bool),
    I.size s ≤ n → pnIntLoopI I e n s count m tr = pnIntLoop e (I.toList s) count m tr := by
  intro n
  induction n with
  | zero => intro s count m tr hn; rw [toList_of_size_zero (by omega)]; rfl
  | succ n ih =>
    intro s count m tr hn
    unfold pnIntLoopI
    rcases next_cases h s with ⟨s', hx, hl, _⟩ | ⟨c, s', hx, hl, hd⟩
    · rw [hx, hl]; rfl
    · rw [hx, hl]; simp only []
      unfold pnIntLoop
      rw [countI_eq h _ s' 0 (Nat.le_refl _), Nat.zero_add]
      split
      · rfl
      · exact ih s' _ _ _ (by omega)

theorem pnSkipZerosI_eq (h : I.Lawful) : ∀ (n : Nat) (s : I.σ) (fc m : Nat) (tr : Bool), I.size s ≤ n →
    ((pnSkipZerosI I n s fc m tr).fc, (pnSkipZerosI I n s fc m tr).count, (pnSkipZerosI I n s fc m tr).m,
      (pnSkipZerosI I n s fc m tr).tr, I.toList (pnSkipZerosI I n s fc m tr).st)
      = pnSkipZeros (I.toList s) fc m tr := by
  intro n
  induction n with
  | zero =>
    intro s fc m tr hn
    unfold pnSkipZerosI
    simp only []
    rw [toList_of_size_zero (by omega)]; rfl
  | succ n ih =>
    intro s fc m tr hn
    unfold pnSkipZerosI
    rcases next_cases h s with ⟨s', hx, hl, hl'⟩ | ⟨c, s', hx, hl, hd⟩
    · rw [hx, hl]; simp only []; rw [hl']; rfl
    · rw [hx, hl]; simp only []
      unfold pnSkipZeros
      split
      · rfl
      · exact ih s' _ _ _ (by omega)

theorem pnFracLoopI_eq (h : I.Lawful) (e : Int) : ∀ (n : Nat) (s : I.σ) (fc count m : Nat) (tr : Bool),
    I.size s ≤ n → pnFracLoopI I e n s fc count m tr = pnFracLoop e (I.toList s) fc count m tr := by
  intro n
  induction n with
  | zero => intro s fc count m tr hn; rw [toList_of_size_zero (by omega)]; rfl
  | succ n ih =>
    intro s fc count m tr hn
    unfold pnFracLoopI
    rcases next_cases h s with ⟨s', hx, hl, _⟩ | ⟨c, s', hx, hl, hd⟩
    · rw [hx, hl]; rfl
    · rw [hx, hl]; simp only []
      unfold pnFracLoop
      split
      · rfl
      · exact ih s' _ _ _ _ (by omega)

theorem parseNumberSlowI_eq {I1 I2 : ByteIter} (h1 : I1.Lawful) (h2 : I2.Lawful) (s1 : I1.σ) (s2 : I2.σ)
    (e : Int) : parseNumberSlowI I1 s1 I2 s2 e = parseNumberSlow (I1.toList s1) (I2.toList s2) e := by
  unfold parseNumberSlowI parseNumberSlow
  rw [pnIntLoopI_eq h1 e _ s1 0 0 false (Nat.le_refl _)]
  cases pnIntLoop e (I1.toList s1) 0 0 false with
  | inl r => rfl
  | inr p =>
    obtain ⟨count, m, tr⟩ := p
    simp only []
    split
    · have hk := pnSkipZerosI_eq h2 _ s2 0 m tr (Nat.le_refl _)
      rw [pnFracLoopI_eq h2 e _ _ _ _ _ _ (Nat.le_refl _), ← hk]
    · exact pnFracLoopI_eq h2 e _ s2 0 count m tr (Nat.le_refl _)

theorem parseNumberI_eq' {I1 I2 : ByteIter} (h1 : I1.Lawful) (h2 : I2.Lawful) (s1 : I1.σ) (s2 : I2.σ)
    (e : Int) : parseNumberI I1 s1 I2 s2 e = parseNumber (I1.toList s1) (I2.toList s2) e := by
  unfold parseNumberI parseNumber
  rw [parseNumberFastI_eq h1 h2, parseNumberSlowI_eq h1 h2]
  cases parseNumberFast (I1.toList s1) (I2.toList s2) e <;> rfl

-- ================================================================ slow.rs: scans

theorem anyNonzeroI_eq (h : I.Lawful) : ∀ (n : Nat) (s : I.σ), I.size s ≤ n →
    anyNonzeroI I n s = (I.toList s).any (· != 48) := by
  intro n
  induction n with
  | zero => intro s hn; rw [toList_of_size_zero (by omega)]; rfl
  | succ n ih =>
    intro s hn
    unfold anyNonzeroI
    rcases next_cases h s with ⟨s', hx, hl, _⟩ | ⟨c, s', hx, hl, hd⟩
    · rw [hx, hl]; rfl
    · rw [hx, hl]; simp only [List.any_cons]
      rw [ih s' (by omega)]
      cases (c != 48) <;> rfl

theorem roundUpNonzeroI_eq (h : I.Lawful) (cap : Option Nat) (s : PM) (st : I.σ) :
    roundUpNonzeroI cap s I st = s.roundUpNonzero cap (I.toList st) := by
  unfold roundUpNonzeroI PM.roundUpNonzero
  rw [anyNonzeroI_eq h _ st (Nat.le_refl _)]

theorem pmSkipZerosI_eq (h : I.Lawful) : ∀ (n : Nat) (st : I.σ) (s : PM), I.size st ≤ n →
    ((pmSkipZerosI I n st s).1, I.toList (pmSkipZerosI I n st s).2) = pmSkipZeros (I.toList st) s := by
  intro n
  induction n with
  | zero =>
    intro st s hn
    unfold pmSkipZerosI
    simp only []
    rw [toList_of_size_zero (by omega)]; rfl
  | succ n ih =>
    intro st s hn
    unfold pmSkipZerosI
    rcases next_cases h st with ⟨s', hx, hl, hl'⟩ | ⟨c, s', hx, hl, hd⟩
    · rw [hx, hl]; simp only []; rw [hl']; rfl
    · rw [hx, hl]; simp only []
      unfold pmSkipZeros
      split
      · rfl
      · exact ih s' _ (by omega)

-- ================================================================ slow.rs: the labelled loops

/-- list-level counterpart of the inner `while` (`pmWhileI`) -/
def pmWhileL (md : Nat) : List UInt8 → PM → PM × List UInt8 × Bool
  | [], s => (s, [], decide (s.counter < pmStep ∧ s.count < md))
  | c :: rest, s =>
    if s.counter < pmStep ∧ s.count < md then pmWhileL md rest (s.addDigit c) else (s, c :: rest, false)

theorem pmWhileL_not_cond (md : Nat) (ds : List UInt8) (s : PM) (hc : ¬ (s.counter < pmStep ∧ s.count < md)) :
    pmWhileL md ds s = (s, ds, false) := by
  cases ds with
  | nil => unfold pmWhileL; rw [decide_eq_false hc]
  | cons c rest => unfold pmWhileL; rw [if_neg hc]

/-- the inner `while` on an iterator is the inner `while` on the yielded list; if it was not left by
    `break 'label` the iterator did not grow, and it shrank if the loop condition held on entry -/
theorem pmWhileI_spec (h : I.Lawful) (md : Nat) : ∀ (n : Nat) (st : I.σ) (s : PM), I.size st ≤ n →
    ((pmWhileI I md n st s).1, I.toList (pmWhileI I md n st s).2.1, (pmWhileI I md n st s).2.2)
      = pmWhileL md (I.toList st) s ∧
    ((pmWhileI I md n st s).2.2 = false →
      I.size (pmWhileI I md n st s).2.1 ≤ I.size st ∧
      ((s.counter < pmStep ∧ s.count < md) → I.size (pmWhileI I md n st s).2.1 < I.size st)) := by
  intro n
  induction n with
  | zero =>
    intro st s hn
    unfold pmWhileI
    simp only []
    rw [toList_of_size_zero (by omega)]
    refine ⟨rfl, fun hb => ⟨Nat.le_refl _, fun hc => ?_⟩⟩
    rw [decide_eq_true hc] at hb; cases hb
  | succ n ih =>
    intro st s hn
    unfold pmWhileI
    by_cases hc : s.counter < pmStep ∧ s.count < md
    · rw [if_pos hc]
      rcases next_cases h st with ⟨s', hx, hl, hl'⟩ | ⟨c, s', hx, hl, hd⟩
      · rw [hx, hl]; simp only []; rw [hl']
        refine ⟨?_, fun hb => by cases hb⟩
        unfold pmWhileL; rw [decide_eq_true hc]
      · rw [hx, hl]; simp only []
        obtain ⟨e1, e2⟩ := ih s' (s.addDigit c) (by omega)
        refine ⟨?_, fun hb => ?_⟩
        · rw [e1]; conv => rhs; unfold pmWhileL
          rw [if_pos hc]
        · have := (e2 hb).1
          exact ⟨by omega, fun _ => by omega⟩
    · rw [if_neg hc, pmWhileL_not_cond md _ s hc]
      exact ⟨rfl, fun _ => ⟨Nat.le_refl _, fun hc' => absurd hc' hc⟩⟩

theorem addDigit_counter' (s : PM) (c : UInt8) :
    (s.addDigit c).counter = s.counter + 1 ∧ (s.addDigit c).count = s.count + 1 := ⟨rfl, rfl⟩

theorem pmWhileL_count_le (md : Nat) : ∀ (ds : List UInt8) (s : PM), s.count ≤ md →
    (pmWhileL md ds s).1.count ≤ md := by
  intro ds
  induction ds with
  | nil => intro s hs; unfold pmWhileL; exact hs
  | cons c rest ih =>
    intro s hs
    unfold pmWhileL
    split
    · rename_i hc
      exact ih _ (by rw [(addDigit_counter' s c).2]; omega)
    · exact hs

/-- what follows the inner `while` inside `'label: loop { … }`, on lists -/
def pmAfterL (cap : Option Nat) (T : PowTables) (md : Nat) (r : PM × List UInt8 × Bool) : PMOut :=
  if r.2.2 then .exhausted r.1
  else if r.1.count = md then .full (r.1.flushEnd cap T) r.2.1
  else pmLoop cap T md r.2.1 (r.1.flushMax cap)

/-- The fused list-level loop `pmLoop` of Model/Slow.lean IS the nested Rust loop: from a loop head with
    `counter < step` and `count ≤ max_digits`, run the inner `while`, then either leave or flush and
    start again. -/
theorem pmLoop_eq_while (cap : Option Nat) (T : PowTables) (md : Nat) : ∀ (ds : List UInt8) (s : PM),
    s.counter < pmStep → s.count ≤ md →
    pmLoop cap T md ds s = pmAfterL cap T md (pmWhileL md ds s) := by
  intro ds
  induction ds with
  | nil =>
    intro s h1 h2
    unfold pmLoop pmWhileL pmAfterL
    by_cases hc : s.count ≥ md
    · rw [if_pos hc, decide_eq_false (by omega)]
      simp only [Bool.false_eq_true, if_false]
      rw [if_pos (by omega)]
    · rw [if_neg hc, decide_eq_true ⟨h1, by omega⟩]
      simp only [if_true]
  | cons c rest ih =>
    intro s h1 h2
    unfold pmLoop pmWhileL
    by_cases hc : s.count ≥ md
    · rw [if_pos hc, if_neg (by omega)]
      unfold pmAfterL
      simp only [Bool.false_eq_true, if_false]
      rw [if_pos (by omega)]
    · rw [if_neg hc, if_pos ⟨h1, by omega⟩]
      simp only []
      have hcnt := addDigit_counter' s c
      by_cases hf : (s.addDigit c).count ≥ md
      · rw [if_pos hf, pmWhileL_not_cond md rest _ (by omega)]
        unfold pmAfterL
        simp only [Bool.false_eq_true, if_false]
        rw [if_pos (by omega)]
      · rw [if_neg hf]
        by_cases hs : (s.addDigit c).counter ≥ pmStep
        · rw [if_pos hs, pmWhileL_not_cond md rest _ (by omega)]
          unfold pmAfterL
          simp only [Bool.false_eq_true, if_false]
          rw [if_neg (by omega)]
        · rw [if_neg hs]
          exact ih _ (by omega) (by omega)

/-- forget the iterator type: the result of a labelled loop as the list-level model reports it -/
def PMOutI.toOut : PMOutI I → Option PMOut
  | .exhausted s => some (.exhausted s)
  | .full s st => some (.full s (I.toList st))
  | .spin _ => none

/-- the nested iterator-level loop, started at a loop head with `counter < step`, `count ≤ max_digits`
    and fuel `> size`, never spins and is the list-level `pmLoop` -/
theorem pmLoopI_eq (h : I.Lawful) (cap : Option Nat) (T : PowTables) (md : Nat) :
    ∀ (k : Nat) (st : I.σ) (s : PM), s.counter < pmStep → s.count ≤ md → I.size st + 1 ≤ k →
    (pmLoopI I cap T md k st s).toOut = some (pmLoop cap T md (I.toList st) s) := by
  intro k
  induction k with
  | zero => intro st s _ _ hk; omega
  | succ k ih =>
    intro st s h1 h2 hk
    obtain ⟨e1, e2⟩ := pmWhileI_spec h md (I.size st) st s (Nat.le_refl _)
    have hcl := pmWhileL_count_le md (I.toList st) s h2
    rw [pmLoop_eq_while cap T md _ s h1 h2]
    rw [← e1] at hcl ⊢
    unfold pmLoopI pmAfterL
    generalize pmWhileI I md (I.size st) st s = r at e1 e2 hcl ⊢
    obtain ⟨s1, st1, b⟩ := r
    simp only [] at e1 e2 hcl ⊢
    cases b with
    | true => rfl
    | false =>
      simp only [Bool.false_eq_true, if_false]
      by_cases hm : s1.count = md
      · rw [if_pos hm, if_pos hm]; rfl
      · rw [if_neg hm, if_neg hm]
        obtain ⟨e3, e4⟩ := e2 rfl
        by_cases hc : s.counter < pmStep ∧ s.count < md
        · have := e4 hc
          exact ih st1 _ (by unfold PM.flushMax pmStep; simp) hcl (by omega)
        · -- the `while` did not run: `s1 = s`, so `count = max_digits` after all
          exfalso
          have := pmWhileL_not_cond md (I.toList st) s hc
          rw [← e1] at this
          have hs : s1 = s := congrArg Prod.fst this
          subst hs
          omega

/-- a loop left by `break 'label` leaves a loop-head state with room for more digits -/
theorem pmLoop_exhausted_inv (cap : Option Nat) (T : PowTables) (md : Nat) : ∀ (ds : List UInt8) (s s' : PM),
    s.counter < pmStep → s.counter ≤ s.count → s.count ≤ md → pmLoop cap T md ds s = .exhausted s' →
    s'.counter < pmStep ∧ s'.counter ≤ s'.count ∧ s'.count < md := by
  intro ds
  induction ds with
  | nil =>
    intro s s' h1 h2 h3 he
    unfold pmLoop at he
    by_cases hc : s.count ≥ md
    · rw [if_pos hc] at he; cases he
    · rw [if_neg hc] at he
      simp only [PMOut.exhausted.injEq] at he
      subst he; exact ⟨h1, h2, by omega⟩
  | cons c rest ih =>
    intro s s' h1 h2 h3 he
    unfold pmLoop at he
    by_cases hc : s.count ≥ md
    · rw [if_pos hc] at he; cases he
    · rw [if_neg hc] at he
      simp only [] at he
      have hcnt := addDigit_counter' s c
      by_cases hf : (s.addDigit c).count ≥ md
      · rw [if_pos hf] at he; cases he
      · rw [if_neg hf] at he
        by_cases hs : (s.addDigit c).counter ≥ pmStep
        · rw [if_pos hs] at he
          exact ih _ s' (by unfold PM.flushMax pmStep; simp) (by unfold PM.flushMax; simp)
            (by unfold PM.flushMax; simp only []; omega) he
        · rw [if_neg hs] at he
          exact ih _ s' (by omega) (by omega) (by omega) he

theorem pmSkipZeros_inv' (md : Nat) (hmd : 0 < md) : ∀ (ds : List UInt8) (s : PM),
    s.counter = 0 → s.count = 0 →
    (pmSkipZeros ds s).1.counter < pmStep ∧ (pmSkipZeros ds s).1.count ≤ md := by
  intro ds
  induction ds with
  | nil => intro s h1 h2; unfold pmSkipZeros pmStep; simp only []; omega
  | cons c rest ih =>
    intro s h1 h2
    unfold pmSkipZeros
    split
    · have := addDigit_counter' s c
      unfold pmStep; simp only []; omega
    · exact ih s h1 h2

-- ================================================================ parse_mantissa, slow, parse_float

theorem parseMantissaPMI_eq {I1 I2 : ByteIter} (h1 : I1.Lawful) (h2 : I2.Lawful) (cap : Option Nat)
    (T : PowTables) (s1 : I1.σ) (s2 : I2.σ) (md : Nat) :
    parseMantissaPMI cap T I1 s1 I2 s2 md = parseMantissaPM cap T (I1.toList s1) (I2.toList s2) md := by
  unfold parseMantissaPMI parseMantissaPM
  simp only []
  have hA := pmLoopI_eq h1 cap T md (I1.size s1 + 1) s1 ⟨0, 0, 0, some [], false⟩
    (by unfold pmStep; simp) (Nat.zero_le _) (Nat.le_refl _)
  have hInv := pmLoop_exhausted_inv cap T md (I1.toList s1) ⟨0, 0, 0, some [], false⟩
  generalize pmLoopI I1 cap T md (I1.size s1 + 1) s1 ⟨0, 0, 0, some [], false⟩ = o1 at hA
  cases o1 with
  | spin s => cases hA
  | full s st1 =>
    simp only [PMOutI.toOut, Option.some.injEq] at hA
    rw [← hA]
    simp only []
    rw [roundUpNonzeroI_eq h1, roundUpNonzeroI_eq h2]
    cases s.roundUpNonzero cap (I1.toList st1) with
    | some s' => rfl
    | none =>
      simp only []
      cases s.roundUpNonzero cap (I2.toList s2) <;> rfl
  | exhausted s =>
    simp only [PMOutI.toOut, Option.some.injEq] at hA
    rw [← hA]
    simp only []
    obtain ⟨i1, i2, i3⟩ := hInv s (by unfold pmStep; simp) (Nat.le_refl _) (Nat.zero_le _) hA.symm
    -- the state and the iterator with which the `'fraction` loop is entered
    have hk : ((if s.count = 0 then pmSkipZerosI I2 (I2.size s2) s2 s else (s, s2)).1,
               I2.toList (if s.count = 0 then pmSkipZerosI I2 (I2.size s2) s2 s else (s, s2)).2)
            = (if s.count = 0 then pmSkipZeros (I2.toList s2) s else (s, I2.toList s2)) := by
      by_cases hc : s.count = 0
      · rw [if_pos hc, if_pos hc]; exact pmSkipZerosI_eq h2 _ s2 s (Nat.le_refl _)
      · rw [if_neg hc, if_neg hc]
    have hkinv : (if s.count = 0 then pmSkipZeros (I2.toList s2) s else (s, I2.toList s2)).1.counter < pmStep ∧
        (if s.count = 0 then pmSkipZeros (I2.toList s2) s else (s, I2.toList s2)).1.count ≤ md := by
      by_cases hc : s.count = 0
      · rw [if_pos hc]; exact pmSkipZeros_inv' md (by omega) _ s (by omega) hc
      · rw [if_neg hc]; exact ⟨i1, Nat.le_of_lt i3⟩
    rw [← hk] at hkinv ⊢
    generalize (if s.count = 0 then pmSkipZerosI I2 (I2.size s2) s2 s else (s, s2)) = k at hkinv
    obtain ⟨sa, sta⟩ := k
    simp only [] at hkinv ⊢
    have hB := pmLoopI_eq h2 cap T md (I2.size sta + 1) sta sa hkinv.1 hkinv.2 (Nat.le_refl _)
    generalize pmLoopI I2 cap T md (I2.size sta + 1) sta sa = o2 at hB
    cases o2 with
    | spin s => cases hB
    | full s2' st2 =>
      simp only [PMOutI.toOut, Option.some.injEq] at hB
      rw [← hB]
      simp only []
      rw [roundUpNonzeroI_eq h2]
      cases s2'.roundUpNonzero cap (I2.toList st2) <;> rfl
    | exhausted s2' =>
      simp only [PMOutI.toOut, Option.some.injEq] at hB
      rw [← hB]

theorem parseMantissaI_eq' {I1 I2 : ByteIter} (h1 : I1.Lawful) (h2 : I2.Lawful) (cap : Option Nat)
    (T : PowTables) (s1 : I1.σ) (s2 : I2.σ) (md : Nat) :
    parseMantissaI cap T I1 s1 I2 s2 md = parseMantissa cap T (I1.toList s1) (I2.toList s2) md := by
  unfold parseMantissaI parseMantissa
  rw [parseMantissaPMI_eq h1 h2]
  rfl

theorem slowI_eq' {I1 I2 : ByteIter} (h1 : I1.Lawful) (h2 : I2.Lawful) (cap : Option Nat)
    (T : PowTables) (F : FloatC) (num : Number) (fp : ExtFloat) (s1 : I1.σ) (s2 : I2.σ) :
    slowI cap T F num fp I1 s1 I2 s2 = slow cap T F num fp (I1.toList s1) (I2.toList s2) := by
  unfold slowI slow
  rw [parseMantissaI_eq' h1 h2]
  rfl

theorem parseFloatI_eq' {I1 I2 : ByteIter} (h1 : I1.Lawful) (h2 : I2.Lawful) (E : Env) (F : FloatC)
    (s1 : I1.σ) (s2 : I2.σ) (e : Int) :
    parseFloatI E F I1 s1 I2 s2 e = parseFloat E F (I1.toList s1) (I2.toList s2) e := by
  unfold parseFloatI parseFloat
  rw [parseNumberI_eq' h1 h2]
  simp only [slowI_eq' h1 h2]
  rfl

-- ================================================================ the concrete iterators

theorem toList_congr_next (h : I.Lawful) {s t : I.σ} (hst : I.next s = I.next t) : I.toList s = I.toList t := by
  rcases next_cases h t with ⟨s', hx, hl, _⟩ | ⟨c, s', hx, hl, _⟩
  · rw [hl, toList_of_next_none (hst.trans hx)]
  · rw [hl, toList_of_next_some h (hst.trans hx)]

-- ---------------------------------------------------------------- slice
theorem sliceIter_lawful : sliceIter.Lawful where
  dec := by
    intro s c s' hn
    cases s with
    | nil => cases hn
    | cons d r =>
      have : r = s' := congrArg Prod.snd hn
      subst this
      exact Nat.lt_succ_self _
  fused := by
    intro s s' hn
    cases s with
    | nil =>
      have : ([] : List UInt8) = s' := congrArg Prod.snd hn
      subst this; rfl
    | cons d r => cases hn

theorem sliceIter_toList (l : List UInt8) : sliceIter.toList l = l := by
  induction l with
  | nil => rfl
  | cons c r ih =>
    rw [toList_of_next_some sliceIter_lawful (s := c :: r) (s' := r) (c := c) rfl, ih]

-- ---------------------------------------------------------------- chain
theorem chainIter_lawful : chainIter.Lawful where
  dec := by
    intro s c s' hn
    obtain ⟨a, b⟩ := s
    cases a with
    | cons d a' =>
      have : (a', b) = s' := congrArg Prod.snd hn
      subst this
      show a'.length + b.length < (d :: a').length + b.length
      rw [List.length_cons]; omega
    | nil =>
      cases b with
      | cons d b' =>
        have : (([] : List UInt8), b') = s' := congrArg Prod.snd hn
        subst this
        show ([] : List UInt8).length + b'.length < ([] : List UInt8).length + (d :: b').length
        rw [List.length_cons]; omega
      | nil => cases hn
  fused := by
    intro s s' hn
    obtain ⟨a, b⟩ := s
    cases a with
    | cons d a' => cases hn
    | nil =>
      cases b with
      | cons d b' => cases hn
      | nil =>
        have : (([] : List UInt8), ([] : List UInt8)) = s' := congrArg Prod.snd hn
        subst this; rfl

theorem chainIter_toList (a b : List UInt8) : chainIter.toList (a, b) = a ++ b := by
  induction a with
  | nil =>
    induction b with
    | nil => rfl
    | cons c r ih =>
      rw [toList_of_next_some chainIter_lawful (s := (([] : List UInt8), c :: r)) (s' := ([], r)) (c := c) rfl,
        ih]; rfl
  | cons c r ih =>
    rw [toList_of_next_some chainIter_lawful (s := (c :: r, b)) (s' := (r, b)) (c := c) rfl, ih]; rfl

-- ---------------------------------------------------------------- filter
theorem filterNext_some (skip : UInt8 → Bool) : ∀ (l : List UInt8) (c : UInt8) (s' : List UInt8),
    filterNext skip l = (some c, s') → s'.length < l.length := by
  intro l
  induction l with
  | nil => intro c s' hn; cases hn
  | cons d r ih =>
    intro c s' hn
    unfold filterNext at hn
    split at hn
    · have := ih c s' hn; rw [List.length_cons]; omega
    · have : r = s' := congrArg Prod.snd hn
      subst this; exact Nat.lt_succ_self _

theorem filterNext_none (skip : UInt8 → Bool) : ∀ (l s' : List UInt8),
    filterNext skip l = (none, s') → s' = [] := by
  intro l
  induction l with
  | nil => intro s' hn; exact (congrArg Prod.snd hn).symm
  | cons d r ih =>
    intro s' hn
    unfold filterNext at hn
    split at hn
    · exact ih s' hn
    · cases hn

theorem filterIter_lawful (skip : UInt8 → Bool) : (filterIter skip).Lawful where
  dec := fun s c s' hn => filterNext_some skip s c s' hn
  fused := by
    intro s s' hn
    have := filterNext_none skip s s' hn
    subst this; rfl

theorem filterIter_toList (skip : UInt8 → Bool) (l : List UInt8) :
    (filterIter skip).toList l = l.filter (fun c => !skip c) := by
  induction l with
  | nil => rfl
  | cons c r ih =>
    by_cases hs : skip c = true
    · have hn : (filterIter skip).next (c :: r) = (filterIter skip).next r := by
        show filterNext skip (c :: r) = filterNext skip r
        conv => lhs; unfold filterNext
        rw [if_pos hs]
      rw [toList_congr_next (filterIter_lawful skip) hn, ih, List.filter_cons, hs]; rfl
    · have hn : (filterIter skip).next (c :: r) = (some c, r) := by
        show filterNext skip (c :: r) = (some c, r)
        unfold filterNext
        rw [if_neg hs]
      rw [toList_of_next_some (filterIter_lawful skip) hn, ih, List.filter_cons]
      simp only [Bool.not_eq_true] at hs
      rw [hs]; rfl

-- ---------------------------------------------------------------- chunks
theorem chunksNext_some : ∀ (l : List (List UInt8)) (c : UInt8) (s' : List (List UInt8)),
    chunksNext l = (some c, s') → l.flatten = c :: s'.flatten := by
  intro l
  induction l with
  | nil => intro c s' hn; cases hn
  | cons ch rest ih =>
    intro c s' hn
    cases ch with
    | nil =>
      unfold chunksNext at hn
      rw [List.flatten_cons, List.nil_append]; exact ih c s' hn
    | cons d cs =>
      unfold chunksNext at hn
      have h1 : d = c := Option.some.inj (congrArg Prod.fst hn)
      have h2 : cs :: rest = s' := congrArg Prod.snd hn
      subst h1 h2
      simp only [List.flatten_cons, List.cons_append]

theorem chunksNext_none : ∀ (l s' : List (List UInt8)), chunksNext l = (none, s') → s' = [] := by
  intro l
  induction l with
  | nil => intro s' hn; exact (congrArg Prod.snd hn).symm
  | cons ch rest ih =>
    intro s' hn
    cases ch with
    | nil => unfold chunksNext at hn; exact ih s' hn
    | cons d cs => cases hn

theorem chunksIter_lawful : chunksIter.Lawful where
  dec := by
    intro s c s' hn
    have := chunksNext_some s c s' hn
    show s'.flatten.length < s.flatten.length
    rw [this, List.length_cons]; omega
  fused := by
    intro s s' hn
    have := chunksNext_none s s' hn
    subst this; rfl

theorem chunksIter_toList (l : List (List UInt8)) : chunksIter.toList l = l.flatten := by
  induction l with
  | nil => rfl
  | cons ch rest ih =>
    induction ch with
    | nil =>
      have hn : chunksIter.next ([] :: rest) = chunksIter.next rest := by
        show chunksNext ([] :: rest) = chunksNext rest
        conv => lhs; unfold chunksNext
      rw [toList_congr_next chunksIter_lawful hn, ih]; rfl
    | cons c cs ih2 =>
      have hn : chunksIter.next ((c :: cs) :: rest) = (some c, cs :: rest) := rfl
      rw [toList_of_next_some chunksIter_lawful hn, ih2]
      simp only [List.flatten_cons, List.cons_append]

-- ---------------------------------------------------------------- scripted (fused scripts only)
/-- the scripted iterator terminates; it is fused exactly when no `some` follows a `none` in the script,
    which is a property of the state, not of the machine — `scriptIter` as a whole is NOT lawful -/
theorem scriptIter_dec (s : List (Option UInt8)) (c : UInt8) (s' : List (Option UInt8))
    (hn : scriptIter.next s = (some c, s')) : scriptIter.size s' < scriptIter.size s := by
  cases s with
  | nil => cases hn
  | cons o r =>
    have : r = s' := congrArg Prod.snd hn
    subst this; exact Nat.lt_succ_self _

theorem scriptIter_not_lawful : ¬ scriptIter.Lawful := by
  intro h
  have := h.fused [none, some 0] [some 0] rfl
  cases this

end MinLex.It
