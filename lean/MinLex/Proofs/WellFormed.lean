/-
  Well-formedness of the per-format constants regenerated from the compiled crate.
  `FloatC.WF` ties every mask / bias constant to the two parameters (mantissa size, width);
  it is proved for `Gen.F32` and `Gen.F64` by `decide`, so the theorems that depend on it are
  re-checked against what the code says now on every run.
-/
import MinLex.Model.Env
namespace MinLex

/-- number of exponent bits -/
def FloatC.ebits (F : FloatC) : Nat := F.width - 1 - F.mantissaSize

/-- Structural constants: masks, bias and derived exponents are the canonical IEEE values. -/
structure FloatC.WF (F : FloatC) : Prop where
  ms_pos : 1 ≤ F.mantissaSize
  ms_le : F.mantissaSize + 3 ≤ 64
  eb_ge : 2 ≤ F.ebits
  width_eq : F.width = F.mantissaSize + F.ebits + 1
  width_le : F.width ≤ 64
  hidden : F.hiddenBitMask = 2 ^ F.mantissaSize
  mantMask : F.mantissaMask = 2 ^ F.mantissaSize - 1
  expMask : F.exponentMask = (2 ^ F.ebits - 1) * 2 ^ F.mantissaSize
  signMask : F.signMask = 2 ^ (F.width - 1)
  carry : F.carryMask = 2 ^ (F.mantissaSize + 1)
  bias : F.exponentBias = (2 : Int) ^ (F.ebits - 1) - 1 + F.mantissaSize
  denormal : F.denormalExponent = 1 - F.exponentBias
  maxExp : F.maxExponent = (2 : Int) ^ F.ebits - 1 - F.exponentBias
  infPower : F.infinitePower = (2 : Int) ^ F.ebits - 1
  invalid : F.invalidFp = -32768
  maxMantFast : F.maxMantissaFastPath = 2 ^ (F.mantissaSize + 1)
  minExp : F.minimumExponent = -((2 : Int) ^ (F.ebits - 1) - 1)

theorem F32_WF : Gen.F32.WF := by
  constructor <;> decide

theorem F64_WF : Gen.F64.WF := by
  constructor <;> decide

/-- the spec format of a well-formed constant record -/
theorem FloatC.WF.fmt_eq {F : FloatC} (_h : F.WF) : F.fmt = ⟨F.mantissaSize, F.ebits⟩ := rfl

theorem F32_fmt : Gen.F32.fmt = Fmt.f32 := by decide
theorem F64_fmt : Gen.F64.fmt = Fmt.f64 := by decide

/-- in a well-formed record the crate's bias convention equals the spec's -/
theorem FloatC.WF.bias_eq {F : FloatC} (h : F.WF) : F.exponentBias = F.fmt.bias := by
  rw [h.bias]; rfl

/-- `kmin = 1 - bias` -/
theorem FloatC.WF.kmin_eq {F : FloatC} (h : F.WF) : F.fmt.kmin = 1 - F.exponentBias := by
  rw [h.bias]; unfold Fmt.kmin FloatC.fmt; simp only []; unfold FloatC.ebits; omega

end MinLex
