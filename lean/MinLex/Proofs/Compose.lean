/-
  Discharging the stage contracts of `Main.Hyps` that are already provable for the regenerated
  environment `genEnv cfg` (every feature configuration) and the two formats `Gen.F32`, `Gen.F64`:

    pn        digit accumulation           (Props/ParseNumber)
    fast      fast path                    (Props/ParseNumber + RneSpec.rne_congr)
    modTotal  the moderate stage never panics (Props/LemireArith, Eisel–Lemire)
    modRange  Eisel–Lemire declines only for a non-zero significand and −342 ≤ q ≤ 308 (Props/C04)
    modSound, modEst (Eisel–Lemire: Props/LemireSound, Props/NoAllOnes), slow (Props/SlowPath)

  Result: `parseCorrect_noncompact` — no hypothesis left for the non-compact configurations.
  For the compact (Bellerophon) configurations totality and the decline range are discharged too
  (Proofs/Bellerophon); the two remaining contracts about `bellerophon genBel F` (soundness of a
  definite answer, hand-off contract of a declined one) are collected in `OpenCompact F`.
-/
import MinLex.Props.Main
import MinLex.Props.ParseNumber
import MinLex.Props.LemireArith
import MinLex.Props.LemireSound
import MinLex.Props.NoAllOnes
import MinLex.Props.SlowPath
import MinLex.Props.C04
import MinLex.Proofs.Bellerophon
import Mathlib.Tactic.Ring
import Mathlib.Tactic.Linarith
import Mathlib.Tactic.Positivity
namespace MinLex.Compose
open MinLex MinLex.Main

-- ------------------------------------------------------------------ (a) pn
theorem satI32_range (x : Int) : i32Min ≤ satI32 x ∧ satI32 x ≤ i32Max := by
  unfold satI32
  have : i32Min ≤ i32Max := by decide
  split
  · omega
  · split <;> omega

/-- shape facts of `parse_number` on valid input -/
theorem numOK_parseNumber {int frac : List UInt8} {e : Int} (h : Valid int frac e) :
    NumOK (parseNumber int frac e) := by
  unfold NumOK
  by_cases hs : (ParseNum.sigDigits int frac).length ≤ 19
  · obtain ⟨h1, h2, h3⟩ := parseNumber_spec_few h hs
    have hd := (sigDigits_facts h).2.2.2.2
    have hlt := (ofDigits_facts (ParseNum.sigDigits int frac) [] hd).1
    have hp : (10 : Nat) ^ (ParseNum.sigDigits int frac).length ≤ 10 ^ 19 :=
      Nat.pow_le_pow_right (by omega) hs
    refine ⟨?_, ?_, ?_⟩
    · rw [h2]; omega
    · intro hc; rw [h1] at hc; cases hc
    · rw [h3]; exact satI32_range _
  · obtain ⟨h1, h2, h3, h4, h5⟩ := parseNumber_spec_many h (by omega)
    refine ⟨h4, fun _ => h3, ?_⟩
    rw [h5]; exact satI32_range _

/-- the `pn` contract (it does not depend on the environment) -/
theorem pn_valid (int frac : List UInt8) (e : Int) (h : Valid int frac e) :
    Denotes (parseNumber int frac e) (digitsValue int frac e) ∧ NumOK (parseNumber int frac e) := by
  refine ⟨?_, numOK_parseNumber h⟩
  have hd := parseNumber_denotes h
  simp only at hd
  obtain ⟨h0, hc⟩ := hd
  refine ⟨h0, ?_⟩
  rcases hc with ⟨h1, h2⟩ | h | h | h
  · refine Or.inl ⟨h1, ?_⟩
    unfold numLo numHi
    exact h2
  · exact Or.inr (Or.inl h)
  · exact Or.inr (Or.inr (Or.inl h))
  · exact Or.inr (Or.inr (Or.inr h))

theorem pn_genEnv (_cfg : Cfg) : ∀ int frac e, Valid int frac e →
    Denotes (parseNumber int frac e) (digitsValue int frac e) ∧ NumOK (parseNumber int frac e) :=
  pn_valid

example : Valid [49, 50] [51] 4 ∧ Denotes (parseNumber [49, 50] [51] 4) (digitsValue [49, 50] [51] 4) :=
  ⟨by decide, (pn_valid _ _ _ (by decide)).1⟩

-- ------------------------------------------------------------------ (b) fast
theorem fast_genEnv (cfg : Cfg) {F : FloatC} (hF : F = Gen.F32 ∨ F = Gen.F64) :
    ∀ n v b, Denotes n v →
      tryFastPath F ((genEnv cfg).powFastPath F)
        (intPow10 (genEnv cfg).cfg.compact (genEnv cfg).pow.smallIntPow10) n = some b →
      b = rne F.fmt v := by
  intro n v b hd h
  refine tryFastPath_denotes_genEnv cfg hF (fun a b ha hb he => RneSpec.rne_congr F.fmt ha hb he)
    ?_ h
  obtain ⟨h0, hc⟩ := hd
  refine ⟨h0, ?_⟩
  rcases hc with ⟨h1, h2⟩ | h | h | h
  · exact Or.inl ⟨h1, h2⟩
  · exact Or.inr (Or.inl h)
  · exact Or.inr (Or.inr (Or.inl h))
  · exact Or.inr (Or.inr (Or.inr h))

-- ------------------------------------------------------------------ (c) modTotal
/-- `lemire` on a zero significand (not truncated) answers zero -/
theorem lemire_zero (T : LemireTables) (F : FloatC) (n : Number) (hm : n.mantissa = 0)
    (hmd : n.manyDigits = false) : lemire T F n = some ⟨0, 0⟩ := by
  rw [LemireArith.lemire_exact T F n hmd, hm]
  unfold computeFloat
  simp

theorem lemire_total {F : FloatC} (hF : F = Gen.F32 ∨ F = Gen.F64) (n : Number) (hn : NumOK n) :
    ∃ fp, lemire genLemire F n = some fp := by
  obtain ⟨h1, h2, _, _⟩ := hn
  by_cases hm : n.mantissa = 0
  · have hmd : n.manyDigits = false := by
      cases hc : n.manyDigits with
      | false => rfl
      | true => have := h2 hc; omega
    exact ⟨_, lemire_zero _ _ n hm hmd⟩
  · have hlt : n.mantissa + 1 < 2 ^ 64 := by
      have : (10 : Nat) ^ 19 + 1 < 2 ^ 64 := by norm_num
      omega
    have hne : lemire genLemire F n ≠ none := by
      rcases hF with rfl | rfl
      · exact (LemireArith.lemire_no_panic_f32 n (by omega) hlt).1
      · exact (LemireArith.lemire_no_panic_f64 n (by omega) hlt).1
    cases hl : lemire genLemire F n with
    | none => exact absurd hl hne
    | some fp => exact ⟨fp, rfl⟩

/-- `moderatePath` of a non-compact environment is Eisel–Lemire on the regenerated tables -/
theorem moderatePath_noncompact (cfg : Cfg) (hc : cfg.compact = false) (F : FloatC) (n : Number) :
    moderatePath (genEnv cfg) F n = lemire genLemire F n := by
  unfold moderatePath
  have : (genEnv cfg).cfg.compact = false := hc
  rw [this]; rfl

/-- `moderatePath` of a compact environment is Bellerophon on the regenerated tables -/
theorem moderatePath_compact (cfg : Cfg) (hc : cfg.compact = true) (F : FloatC) (n : Number) :
    moderatePath (genEnv cfg) F n = bellerophon genBel F n := by
  unfold moderatePath
  have : (genEnv cfg).cfg.compact = true := hc
  rw [this]; rfl

theorem modTotal_noncompact (cfg : Cfg) (hc : cfg.compact = false) {F : FloatC}
    (hF : F = Gen.F32 ∨ F = Gen.F64) :
    ∀ n, NumOK n → ∃ fp, moderatePath (genEnv cfg) F n = some fp := by
  intro n hn
  rw [moderatePath_noncompact cfg hc]
  exact lemire_total hF n hn

-- ------------------------------------------------------------------ (d) modRange (Eisel–Lemire)
theorem lemF_of {F : FloatC} (hF : F = Gen.F32 ∨ F = Gen.F64) : LemireP.LemF F := by
  rcases hF with rfl | rfl
  · exact LemireP.LemF_F32
  · exact LemireP.LemF_F64

/-- Eisel–Lemire declines only on a non-zero significand with `−342 ≤ q ≤ 308` -/
theorem modRange_noncompact (cfg : Cfg) (hc : cfg.compact = false) {F : FloatC}
    (hF : F = Gen.F32 ∨ F = Gen.F64) :
    ∀ n fp, NumOK n → moderatePath (genEnv cfg) F n = some fp → fp.exp < 0 →
      n.mantissa ≠ 0 ∧ -400 ≤ n.exponent ∧ n.exponent ≤ 400 := by
  intro n fp hn hmp hneg
  rw [moderatePath_noncompact cfg hc] at hmp
  have hL := lemF_of hF
  obtain ⟨h1, h2, _, _⟩ := hn
  have hm0 : n.mantissa ≠ 0 := by
    intro hm
    have hmd : n.manyDigits = false := by
      cases hc : n.manyDigits with
      | false => rfl
      | true => have := h2 hc; omega
    rw [lemire_zero _ _ n hm hmd] at hmp
    cases hmp
    exact absurd hneg (by decide)
  have hlt : n.mantissa + 1 < 2 ^ 64 := by
    have : (10 : Nat) ^ 19 + 1 < 2 ^ 64 := by norm_num
    omega
  have hr := C04.C04b_lemire_range hL n (by omega) hlt hmp hneg
  have := hL.sm; have := hL.lg
  exact ⟨hm0, by omega, by omega⟩

-- ------------------------------------------------------------------ non-compact: everything closed
/-- **All seven stage contracts hold for every non-compact configuration**, f32 and f64. -/
theorem hyps_noncompact (cfg : Cfg) (hc : cfg.compact = false) {F : FloatC}
    (hF : F = Gen.F32 ∨ F = Gen.F64) : Hyps (genEnv cfg) F :=
  { pn := pn_genEnv cfg
    fast := fast_genEnv cfg hF
    modTotal := modTotal_noncompact cfg hc hF
    modSound := by
      rcases hF with rfl | rfl
      · exact LemireSound.modSound_genEnv_f32 cfg hc
      · exact LemireSound.modSound_genEnv_f64 cfg hc
    modEst := by
      rcases hF with rfl | rfl
      · exact NoAllOnes.modEst_genEnv_f32 cfg hc
      · exact NoAllOnes.modEst_genEnv_f64 cfg hc
    modRange := modRange_noncompact cfg hc hF
    slow := SlowPath.slow_correct_range400 cfg hF }

/-- **`parse_float` is `rne ∘ digitsValue` on valid input, for every non-compact configuration
    (std / no_std, alloc / stack), f32 and f64 — no remaining hypothesis.** -/
theorem parseCorrect_noncompact (cfg : Cfg) (hc : cfg.compact = false) {F : FloatC}
    (hF : F = Gen.F32 ∨ F = Gen.F64) : ParseCorrect (genEnv cfg) F :=
  parseCorrect_of_hyps (hyps_noncompact cfg hc hF)

-- the moderate stage is exercised
example : (moderatePath (genEnv ⟨false, true, true⟩) Gen.F64 ⟨-5, 1234567, false⟩).isSome = true := by
  decide +kernel

-- ------------------------------------------------------------------ compact: the open contracts
/-- Bellerophon never takes its index-panic branch (all three table look-ups are guarded):
    `Bel.bellerophon_total`, for every `Number` and every format record. -/
theorem modTotal_compact (cfg : Cfg) (hc : cfg.compact = true) (F : FloatC) :
    ∀ n, NumOK n → ∃ fp, moderatePath (genEnv cfg) F n = some fp := by
  intro n _
  rw [moderatePath_compact cfg hc]
  exact Bel.bellerophon_total F n

/-- Bellerophon declines (`exp < 0`) only on its main path: non-zero significand and
    `−350 ≤ q ≤ 309` (from `Bel.bellerophon_cases`; the early returns have `exp ≥ 0`). -/
theorem bellerophon_range {F : FloatC} (hinf : 0 ≤ F.infinitePower) {n : Number} {fp : ExtFloat}
    (h : bellerophon genBel F n = some fp) (hneg : fp.exp < 0) :
    n.mantissa ≠ 0 ∧ -350 ≤ n.exponent ∧ n.exponent ≤ 309 := by
  rcases Bel.bellerophon_cases F n with ⟨_, h1⟩ | ⟨_, _, h2⟩ | ⟨hm, s, l, _, _, hs, hl, hq, _⟩
  · rw [h1] at h; cases h; exact absurd hneg (by decide)
  · rw [h2] at h; cases h; exact absurd hneg (by simp only []; omega)
  · exact ⟨hm, by omega, by omega⟩

theorem modRange_compact (cfg : Cfg) (hc : cfg.compact = true) {F : FloatC}
    (hF : F = Gen.F32 ∨ F = Gen.F64) :
    ∀ n fp, NumOK n → moderatePath (genEnv cfg) F n = some fp → fp.exp < 0 →
      n.mantissa ≠ 0 ∧ -400 ≤ n.exponent ∧ n.exponent ≤ 400 := by
  intro n fp _ hmp hneg
  rw [moderatePath_compact cfg hc] at hmp
  have hinf : 0 ≤ F.infinitePower := by rcases hF with rfl | rfl <;> decide
  obtain ⟨h1, h2, h3⟩ := bellerophon_range hinf hmp hneg
  exact ⟨h1, by omega, by omega⟩

/-- The two stage contracts that are NOT discharged here for the compact (Bellerophon)
    configurations.  They speak about `bellerophon genBel F` only (no dependence on the other
    features).  Totality and the decline range of Bellerophon ARE discharged (above). -/
structure OpenCompact (F : FloatC) : Prop where
  /-- C11: a definite answer of Bellerophon is right -/
  modSound : ∀ n v fp, Denotes n v → NumOK n → bellerophon genBel F n = some fp → 0 ≤ fp.exp →
    extendedToFloat F fp = rne F.fmt v
  /-- a declined answer satisfies the hand-off contract -/
  modEst : ∀ n v fp, Denotes n v → NumOK n → bellerophon genBel F n = some fp → fp.exp < 0 →
    EstOK F ⟨fp.mant, wrapI32 (fp.exp - F.invalidFp)⟩ v

theorem hyps_compact (cfg : Cfg) (hc : cfg.compact = true) {F : FloatC}
    (hF : F = Gen.F32 ∨ F = Gen.F64) (h : OpenCompact F) : Hyps (genEnv cfg) F :=
  { pn := pn_genEnv cfg
    fast := fast_genEnv cfg hF
    modTotal := modTotal_compact cfg hc F
    modSound := fun n v fp hd hn hmp => by
      rw [moderatePath_compact cfg hc] at hmp; exact h.modSound n v fp hd hn hmp
    modEst := fun n v fp hd hn hmp => by
      rw [moderatePath_compact cfg hc] at hmp; exact h.modEst n v fp hd hn hmp
    modRange := modRange_compact cfg hc hF
    slow := SlowPath.slow_correct_range400 cfg hF }

theorem parseCorrect_compact (cfg : Cfg) (hc : cfg.compact = true) {F : FloatC}
    (hF : F = Gen.F32 ∨ F = Gen.F64) (h : OpenCompact F) : ParseCorrect (genEnv cfg) F :=
  parseCorrect_of_hyps (hyps_compact cfg hc hF h)

/-- every configuration: closed for the non-compact ones, `OpenCompact F` for the compact ones -/
theorem parseCorrect_of_open (cfg : Cfg) {F : FloatC} (hF : F = Gen.F32 ∨ F = Gen.F64)
    (h : OpenCompact F) : ParseCorrect (genEnv cfg) F := by
  cases hc : cfg.compact with
  | false => exact parseCorrect_noncompact cfg hc hF
  | true => exact parseCorrect_compact cfg hc hF h

/-- the open contracts are exactly what `Hyps` of a compact configuration contains -/
theorem openCompact_of_hyps (cfg : Cfg) (hc : cfg.compact = true) {F : FloatC}
    (h : Hyps (genEnv cfg) F) : OpenCompact F :=
  { modSound := fun n v fp hd hn hmp => by
      rw [← moderatePath_compact cfg hc] at hmp; exact h.modSound n v fp hd hn hmp
    modEst := fun n v fp hd hn hmp => by
      rw [← moderatePath_compact cfg hc] at hmp; exact h.modEst n v fp hd hn hmp }

-- ------------------------------------------------------------------ decimal-value helpers (C06, C07)
theorem ofDigits_replicate_zero (k : Nat) : ofDigits (List.replicate k 48) = 0 := by
  induction k with
  | zero => rfl
  | succ k ih =>
    rw [List.replicate_succ', MinLex.ofDigits_append, ih]
    rfl

/-- all digits `'0'` ⇒ the digit string denotes 0 -/
theorem ofDigits_all_zero {ds : List UInt8} (h : ∀ c ∈ ds, c = 48) : ofDigits ds = 0 := by
  have : ds = List.replicate ds.length 48 := List.eq_replicate_iff.2 ⟨rfl, h⟩
  rw [this]; exact ofDigits_replicate_zero _

/-- (C06 i) any number of appended fraction zeros does not change the value -/
theorem digitsValue_append_zeros (int frac : List UInt8) (e : Int) (k : Nat) :
    Q.eqv (digitsValue int (frac ++ List.replicate k 48) e) (digitsValue int frac e) := by
  induction k with
  | zero => simp only [List.replicate_zero, List.append_nil]; exact Q.eqv_refl _
  | succ k ih =>
    rw [List.replicate_succ', ← List.append_assoc]
    exact Q.eqv_trans (MinLex.digitsValue_den_pos _ _ _) (MinLex.digitsValue_den_pos _ _ _)
      (MinLex.digitsValue_den_pos _ _ _) (MinLex.digitsValue_append_zero int _ e) ih

theorem rne_digitsValue_append_zeros (f : Fmt) (int frac : List UInt8) (e : Int) (k : Nat) :
    rne f (digitsValue int (frac ++ List.replicate k 48) e) = rne f (digitsValue int frac e) :=
  RneSpec.rne_congr f (MinLex.digitsValue_den_pos _ _ _) (MinLex.digitsValue_den_pos _ _ _)
    (digitsValue_append_zeros int frac e k)

theorem digitVal_pos {c : UInt8} (hd : isDigit c = true) (h0 : c ≠ 48) : 1 ≤ digitVal c := by
  unfold isDigit at hd
  unfold digitVal
  simp only [Bool.and_eq_true, decide_eq_true_eq] at hd
  have : c.toNat ≠ 48 := fun h => h0 (UInt8.toNat_inj.1 h)
  omega

/-- (C06 ii) a non-zero digit after arbitrarily many zeros makes the value strictly larger -/
theorem digitsValue_sticky_lt (int frac : List UInt8) (e : Int) (k : Nat) {c : UInt8}
    (hd : isDigit c = true) (h0 : c ≠ 48) :
    Q.lt (digitsValue int frac e) (digitsValue int (frac ++ List.replicate k 48 ++ [c]) e) := by
  rw [Q.lt_iff (MinLex.digitsValue_den_pos _ _ _) (MinLex.digitsValue_den_pos _ _ _),
    digitsValue_toRat, digitsValue_toRat]
  have hlen : (frac ++ List.replicate k 48 ++ [c]).length = frac.length + (k + 1) := by
    simp only [List.length_append, List.length_replicate, List.length_cons, List.length_nil]; omega
  have hdig : ofDigits (int ++ (frac ++ List.replicate k 48 ++ [c]))
      = ofDigits (int ++ frac) * 10 ^ (k + 1) + digitVal c := by
    have : int ++ (frac ++ List.replicate k 48 ++ [c]) = (int ++ frac) ++ (List.replicate k 48 ++ [c]) := by
      simp only [List.append_assoc]
    have hl2 : (List.replicate k 48 ++ [c]).length = k + 1 := by
      simp only [List.length_append, List.length_replicate, List.length_cons, List.length_nil]
    rw [this, MinLex.ofDigits_append, MinLex.ofDigits_append (List.replicate k 48) [c],
      ofDigits_replicate_zero, ofDigits_singleton, hl2, Nat.zero_mul, Nat.zero_add]
  rw [hlen, hdig]
  have hpos := digitVal_pos hd h0
  have hz : (10:ℚ) ^ (e - ((frac.length + (k + 1) : Nat) : Int)) * (10:ℚ) ^ (k + 1)
      = (10:ℚ) ^ (e - (frac.length : Int)) := by
    rw [← zpow_natCast (10:ℚ) (k + 1), ← zpow_add₀ (by norm_num : (10:ℚ) ≠ 0)]
    congr 1
    push_cast; ring
  have hp : (0:ℚ) < (10:ℚ) ^ (e - ((frac.length + (k + 1) : Nat) : Int)) := by positivity
  have hd1 : (1:ℚ) ≤ (digitVal c : ℚ) := by exact_mod_cast hpos
  rw [← hz]
  generalize (10:ℚ) ^ (e - ((frac.length + (k + 1) : Nat) : Int)) = P at hp ⊢
  have h3 : (0:ℚ) < (digitVal c : ℚ) * P := mul_pos (by linarith) hp
  have h4 : (((ofDigits (int ++ frac) * 10 ^ (k + 1) + digitVal c : Nat) : ℚ)) * P
      = (ofDigits (int ++ frac) : ℚ) * (P * (10:ℚ) ^ (k + 1)) + (digitVal c : ℚ) * P := by
    push_cast; ring
  rw [h4]
  linarith

/-- strictly above the midpoint of `b`, at most the next float: the result is `b + 1` -/
theorem rne_above_mid (f : Fmt) {v : Q} (hv : 0 < v.den) {b : Nat} (hb : b + 1 < f.infBits)
    (h1 : Q.lt (midpoint f b) v) (h2 : Q.le v (decodeQ f (b + 1))) : rne f v = b + 1 := by
  have hm := midpoint_between f b
  have hmd := midpoint_den_pos f b
  by_cases hlt : Q.lt v (decodeQ f (b + 1))
  · have hle : Q.le (decodeQ f b) v := by
      rw [Q.le_iff (decodeQ_den_pos _ _) hv]
      have := (Q.lt_iff hmd hv).1 h1
      linarith [hm.1]
    exact (MinLex.rne_of_between f hv (by omega) hle hlt).2.1 h1
  · have heq : Q.eqv v (decodeQ f (b + 1)) := by
      unfold Q.eqv; unfold Q.lt at hlt; unfold Q.le at h2; omega
    rw [RneSpec.rne_congr f hv (decodeQ_den_pos _ _) heq, RneSpec.rne_decode f hb]

/-- strictly below the midpoint of `b`, at least `b`: the result is `b` -/
theorem rne_below_mid (f : Fmt) {v : Q} (hv : 0 < v.den) {b : Nat} (hb : b < f.infBits)
    (h1 : Q.le (decodeQ f b) v) (h2 : Q.lt v (midpoint f b)) : rne f v = b := by
  have hm := midpoint_between f b
  have hmd := midpoint_den_pos f b
  have hlt : Q.lt v (decodeQ f (b + 1)) := by
    rw [Q.lt_iff hv (decodeQ_den_pos _ _)]
    have := (Q.lt_iff hv hmd).1 h2
    linarith [hm.2]
  exact (MinLex.rne_of_between f hv hb h1 hlt).1 h2

/-- exactly on the midpoint of `b`: the even one of `b`, `b + 1` -/
theorem rne_on_mid (f : Fmt) (hM : 1 ≤ f.mbits) {v : Q} (hv : 0 < v.den) {b : Nat} (hb : b < f.infBits)
    (h : Q.eqv v (midpoint f b)) : rne f v = if b % 2 = 0 then b else b + 1 := by
  have hmd := midpoint_den_pos f b
  have hm := midpoint_between f b
  have h' := (Q.eqv_iff hv hmd).1 h
  have h1 : Q.le (decodeQ f b) v := by
    rw [Q.le_iff (decodeQ_den_pos _ _) hv, h']; exact hm.1.le
  have h2 : Q.lt v (decodeQ f (b + 1)) := by
    rw [Q.lt_iff hv (decodeQ_den_pos _ _), h']; exact hm.2
  have := (MinLex.rne_of_between f hv hb h1 h2).2.2 h
  rw [RneSpec.decode_parity f hM] at this
  exact this

theorem F32_fmt : Gen.F32.fmt = Fmt.f32 := rfl
theorem F64_fmt : Gen.F64.fmt = Fmt.f64 := rfl

end MinLex.Compose
