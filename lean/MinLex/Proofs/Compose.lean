/-
  Discharging the stage contracts of `Main.Hyps` that are already provable for the regenerated
  environment `genEnv cfg` (every feature configuration) and the two formats `Gen.F32`, `Gen.F64`:

    pn        digit accumulation           (Props/ParseNumber)
    fast      fast path                    (Props/ParseNumber + RneSpec.rne_congr)
    modTotal  the moderate stage never panics (Props/LemireArith for Eisel–Lemire; table look-ups
              of Bellerophon are guarded)

  The remaining three contracts (`modSound`, `modEst`, `slow`) are collected in `Open`.
-/
import MinLex.Props.Main
import MinLex.Props.ParseNumber
import MinLex.Props.LemireArith
namespace MinLex.Compose
open MinLex MinLex.Main

-- ------------------------------------------------------------------ (a) pn
theorem satI32_range (x : Int) : i32Min ≤ satI32 x ∧ satI32 x ≤ i32Max := by
  unfold satI32
  have : i32Min ≤ i32Max := by decide
  split
  · omega
  · split <;> omega

/-- shape facts of `parse_number` on valid input -/
theorem numOK_parseNumber {int frac : List UInt8} {e : Int} (h : Valid int frac e) :
    NumOK (parseNumber int frac e) := by
  unfold NumOK
  by_cases hs : (ParseNum.sigDigits int frac).length ≤ 19
  · obtain ⟨h1, h2, h3⟩ := parseNumber_spec_few h hs
    have hd := (sigDigits_facts h).2.2.2.2
    have hlt := (ofDigits_facts (ParseNum.sigDigits int frac) [] hd).1
    have hp : (10 : Nat) ^ (ParseNum.sigDigits int frac).length ≤ 10 ^ 19 :=
      Nat.pow_le_pow_right (by omega) hs
    refine ⟨?_, ?_, ?_⟩
    · rw [h2]; omega
    · intro hc; rw [h1] at hc; cases hc
    · rw [h3]; exact satI32_range _
  · obtain ⟨h1, h2, h3, h4, h5⟩ := parseNumber_spec_many h (by omega)
    refine ⟨h4, fun _ => h3, ?_⟩
    rw [h5]; exact satI32_range _

/-- the `pn` contract (it does not depend on the environment) -/
theorem pn_valid (int frac : List UInt8) (e : Int) (h : Valid int frac e) :
    Denotes (parseNumber int frac e) (digitsValue int frac e) ∧ NumOK (parseNumber int frac e) := by
  refine ⟨?_, numOK_parseNumber h⟩
  have hd := parseNumber_denotes h
  simp only at hd
  obtain ⟨h0, hc⟩ := hd
  refine ⟨h0, ?_⟩
  rcases hc with ⟨h1, h2⟩ | h | h | h
  · refine Or.inl ⟨h1, ?_⟩
    unfold numLo numHi
    exact h2
  · exact Or.inr (Or.inl h)
  · exact Or.inr (Or.inr (Or.inl h))
  · exact Or.inr (Or.inr (Or.inr h))

theorem pn_genEnv (_cfg : Cfg) : ∀ int frac e, Valid int frac e →
    Denotes (parseNumber int frac e) (digitsValue int frac e) ∧ NumOK (parseNumber int frac e) :=
  pn_valid

example : Valid [49, 50] [51] 4 ∧ Denotes (parseNumber [49, 50] [51] 4) (digitsValue [49, 50] [51] 4) :=
  ⟨by decide, (pn_valid _ _ _ (by decide)).1⟩

-- ------------------------------------------------------------------ (b) fast
theorem fast_genEnv (cfg : Cfg) {F : FloatC} (hF : F = Gen.F32 ∨ F = Gen.F64) :
    ∀ n v b, Denotes n v →
      tryFastPath F ((genEnv cfg).powFastPath F)
        (intPow10 (genEnv cfg).cfg.compact (genEnv cfg).pow.smallIntPow10) n = some b →
      b = rne F.fmt v := by
  intro n v b hd h
  refine tryFastPath_denotes_genEnv cfg hF (fun a b ha hb he => RneSpec.rne_congr F.fmt ha hb he)
    ?_ h
  obtain ⟨h0, hc⟩ := hd
  refine ⟨h0, ?_⟩
  rcases hc with ⟨h1, h2⟩ | h | h | h
  · exact Or.inl ⟨h1, h2⟩
  · exact Or.inr (Or.inl h)
  · exact Or.inr (Or.inr (Or.inl h))
  · exact Or.inr (Or.inr (Or.inr h))

-- ------------------------------------------------------------------ (c) modTotal
/-- `lemire` on a zero significand (not truncated) answers zero -/
theorem lemire_zero (T : LemireTables) (F : FloatC) (n : Number) (hm : n.mantissa = 0)
    (hmd : n.manyDigits = false) : lemire T F n = some ⟨0, 0⟩ := by
  rw [LemireArith.lemire_exact T F n hmd, hm]
  unfold computeFloat
  simp

theorem lemire_total {F : FloatC} (hF : F = Gen.F32 ∨ F = Gen.F64) (n : Number) (hn : NumOK n) :
    ∃ fp, lemire genLemire F n = some fp := by
  obtain ⟨h1, h2, _, _⟩ := hn
  by_cases hm : n.mantissa = 0
  · have hmd : n.manyDigits = false := by
      cases hc : n.manyDigits with
      | false => rfl
      | true => have := h2 hc; omega
    exact ⟨_, lemire_zero _ _ n hm hmd⟩
  · have hlt : n.mantissa + 1 < 2 ^ 64 := by
      have : (10 : Nat) ^ 19 + 1 < 2 ^ 64 := by norm_num
      omega
    have hne : lemire genLemire F n ≠ none := by
      rcases hF with rfl | rfl
      · exact (LemireArith.lemire_no_panic_f32 n (by omega) hlt).1
      · exact (LemireArith.lemire_no_panic_f64 n (by omega) hlt).1
    cases hl : lemire genLemire F n with
    | none => exact absurd hl hne
    | some fp => exact ⟨fp, rfl⟩

theorem ite_some_ex {α : Type} {c : Prop} [Decidable c] {a : α} {o : Option α}
    (h : ∃ x, o = some x) : ∃ x, (if c then some a else o) = some x := by
  by_cases hc : c
  · rw [if_pos hc]; exact ⟨_, rfl⟩
  · rw [if_neg hc]; exact h

/-- `bellerophon` over ANY tables of the right lengths never takes the index-panic branch: all
    three look-ups are guarded. -/
theorem bellerophon_total_T (T : BelTables) (hstep : T.step = 10) (h1 : T.small.length = 10)
    (h2 : T.smallInt.length = 10) (F : FloatC) (n : Number) :
    ∃ fp, bellerophon T F n = some fp := by
  unfold bellerophon
  simp only
  refine ite_some_ex (ite_some_ex ?_)
  by_cases hneg : n.exponent + T.bias < 0
  · rw [if_pos hneg]; exact ⟨_, rfl⟩
  rw [if_neg hneg]
  by_cases hlarge : (Int.tdiv (n.exponent + T.bias) T.step).toNat ≥ T.large.length
  · rw [if_pos hlarge]; exact ⟨_, rfl⟩
  rw [if_neg hlarge]
  have hidx : (Int.tmod (n.exponent + T.bias) T.step).toNat < 10 := by
    rw [hstep]
    have := Int.tmod_lt_of_pos (n.exponent + T.bias) (show (0:Int) < 10 by decide)
    omega
  have e1 : T.smallInt[(Int.tmod (n.exponent + T.bias) T.step).toNat]? = some _ :=
    List.getElem?_eq_getElem (by omega)
  have e2 : T.getSmall (Int.tmod (n.exponent + T.bias) T.step).toNat = some _ := by
    unfold BelTables.getSmall
    rw [List.getElem?_eq_getElem (by omega)]
  have e3 : T.getLarge (Int.tdiv (n.exponent + T.bias) T.step).toNat = some _ := by
    unfold BelTables.getLarge
    rw [List.getElem?_eq_getElem (by omega)]
  rw [e1, e2, e3]
  simp only
  exact ite_some_ex (ite_some_ex (ite_some_ex ⟨_, rfl⟩))

theorem genBel_lengths : genBel.step = 10 ∧ genBel.small.length = 10 ∧ genBel.smallInt.length = 10 ∧
    genBel.large.length = 66 ∧ genBel.bias = 350 := by decide

theorem bellerophon_total (F : FloatC) (n : Number) : ∃ fp, bellerophon genBel F n = some fp :=
  bellerophon_total_T genBel genBel_lengths.1 genBel_lengths.2.1 genBel_lengths.2.2.1 F n

#exit
theorem modTotal_genEnv (cfg : Cfg) {F : FloatC} (hF : F = Gen.F32 ∨ F = Gen.F64) :
    ∀ n, NumOK n → ∃ fp, moderatePath (genEnv cfg) F n = some fp := by
  intro n hn
  unfold moderatePath
  by_cases hc : (genEnv cfg).cfg.compact = true
  · rw [if_pos hc]; exact bellerophon_total F n
  · rw [if_neg hc]; exact lemire_total hF n hn

-- both stages are exercised
example : (moderatePath (genEnv ⟨false, true, true⟩) Gen.F64 ⟨-5, 1234567, false⟩).isSome = true ∧
    (moderatePath (genEnv ⟨true, true, true⟩) Gen.F64 ⟨-5, 1234567, false⟩).isSome = true := by
  decide +kernel

-- ------------------------------------------------------------------ the remaining contracts
/-- The stage contracts of `Main.Hyps` that are NOT discharged here: soundness of a definite
    answer of the moderate stage (C11), the hand-off contract of a declined answer, and the
    big-integer path. -/
structure Open (E : Env) (F : FloatC) : Prop where
  /-- C11: a definite answer of the moderate stage is right -/
  modSound : ∀ n v fp, Denotes n v → NumOK n → moderatePath E F n = some fp → 0 ≤ fp.exp →
    extendedToFloat F fp = rne F.fmt v
  /-- a declined answer satisfies the hand-off contract -/
  modEst : ∀ n v fp, Denotes n v → NumOK n → moderatePath E F n = some fp → fp.exp < 0 →
    EstOK F ⟨fp.mant, wrapI32 (fp.exp - F.invalidFp)⟩ v
  /-- big-integer path: correct whenever the hand-off contract holds -/
  slow : ∀ int frac e fp, Valid int frac e → EstOK F fp (digitsValue int frac e) →
    ∃ r, slow E.cap E.pow F (parseNumber int frac e) fp int frac = some r ∧
      extendedToFloat F r = rne F.fmt (digitsValue int frac e)

theorem hyps_of_open (cfg : Cfg) {F : FloatC} (hF : F = Gen.F32 ∨ F = Gen.F64)
    (h : Open (genEnv cfg) F) : Hyps (genEnv cfg) F :=
  { pn := pn_genEnv cfg
    fast := fast_genEnv cfg hF
    modTotal := modTotal_genEnv cfg hF
    modSound := h.modSound
    modEst := h.modEst
    slow := h.slow }

theorem open_of_hyps {E : Env} {F : FloatC} (h : Hyps E F) : Open E F :=
  ⟨h.modSound, h.modEst, h.slow⟩

theorem parseCorrect_of_open (cfg : Cfg) {F : FloatC} (hF : F = Gen.F32 ∨ F = Gen.F64)
    (h : Open (genEnv cfg) F) : ParseCorrect (genEnv cfg) F :=
  parseCorrect_of_hyps (hyps_of_open cfg hF h)

theorem F32_fmt : Gen.F32.fmt = Fmt.f32 := rfl
theorem F64_fmt : Gen.F64.fmt = Fmt.f64 := rfl

end MinLex.Compose
