/-
  Helper lemmas for property C12: the big-integer model (`MinLex/Model/Bigint.lean`) refines
  arithmetic on `Nat`.
-/
import Mathlib.Tactic.Ring
import Mathlib.Tactic.Linarith
import MinLex.Model.Bigint
namespace MinLex

-- ---------------------------------------------------------------- basics
theorem B_pos : 0 < B := by unfold B; omega
theorem B_eq : B = 2 ^ 64 := by unfold B; norm_num
theorem Bpow_pos (n : Nat) : 0 < B ^ n := Nat.pow_pos B_pos

theorem capOk_false_iff {cap : Option Nat} {n : Nat} :
    capOk cap n = false ↔ ∃ c, cap = some c ∧ n > c := by
  cases cap with
  | none => simp [capOk]
  | some c => simp [capOk]

theorem capOk_none (n : Nat) : capOk none n = true := rfl

theorem capOk_some {c n : Nat} : capOk (some c) n = true ↔ n ≤ c := by simp [capOk]

theorem capOk_mono {cap : Option Nat} {m n : Nat} (h : m ≤ n) (hn : capOk cap n = true) :
    capOk cap m = true := by
  cases cap with
  | none => rfl
  | some c => simp [capOk] at *; omega

theorem AllLt_nil : AllLt [] := by intro x hx; cases hx

theorem AllLt_cons {x : Nat} {xs : Big} : AllLt (x :: xs) ↔ x < B ∧ AllLt xs := by
  simp [AllLt]

theorem AllLt_append {xs ys : Big} : AllLt (xs ++ ys) ↔ AllLt xs ∧ AllLt ys := by
  simp only [AllLt, List.mem_append]
  constructor
  · intro h; exact ⟨fun x hx => h x (Or.inl hx), fun x hx => h x (Or.inr hx)⟩
  · rintro ⟨h1, h2⟩ x (hx | hx)
    · exact h1 x hx
    · exact h2 x hx

theorem AllLt_singleton {x : Nat} : AllLt [x] ↔ x < B := by simp [AllLt]

theorem AllLt_take {xs : Big} (h : AllLt xs) (n : Nat) : AllLt (xs.take n) :=
  fun x hx => h x (List.mem_of_mem_take hx)

theorem AllLt_drop {xs : Big} (h : AllLt xs) (n : Nat) : AllLt (xs.drop n) :=
  fun x hx => h x (List.mem_of_mem_drop hx)

theorem AllLt_replicate_zero (n : Nat) : AllLt (List.replicate n 0) := by
  intro x hx
  rw [List.mem_replicate] at hx
  rw [hx.2]; exact B_pos

theorem AllLt_reverse {xs : Big} : AllLt xs.reverse ↔ AllLt xs := by
  simp [AllLt]

theorem toNat_nil : toNat [] = 0 := rfl
theorem toNat_cons (x : Nat) (xs : Big) : toNat (x :: xs) = x + B * toNat xs := rfl

theorem toNat_append (xs ys : Big) : toNat (xs ++ ys) = toNat xs + B ^ xs.length * toNat ys := by
  induction xs with
  | nil => simp [toNat]
  | cons x xs ih =>
    simp only [List.cons_append, toNat, ih, List.length_cons]
    ring

theorem toNat_singleton (x : Nat) : toNat [x] = x := by simp [toNat]

theorem toNat_replicate_zero (n : Nat) : toNat (List.replicate n 0) = 0 := by
  induction n with
  | zero => rfl
  | succ n ih => simp [List.replicate_succ, toNat, ih]

theorem toNat_lt {xs : Big} (h : AllLt xs) : toNat xs < B ^ xs.length := by
  induction xs with
  | nil => simp [toNat]
  | cons x xs ih =>
    rw [AllLt_cons] at h
    have h1 := ih h.2
    simp only [toNat, List.length_cons, Nat.pow_succ]
    have : B * (toNat xs + 1) ≤ B * B ^ xs.length := Nat.mul_le_mul_left _ h1
    rw [Nat.mul_comm (B ^ xs.length) B]
    have := h.1
    rw [Nat.mul_add] at *
    omega

theorem toNat_take_add_drop (xs : Big) (n : Nat) :
    toNat xs = toNat (xs.take n) + B ^ (xs.take n).length * toNat (xs.drop n) := by
  rw [← toNat_append, List.take_append_drop]

/-- A non-empty list whose last limb is non-zero has value at least `B^(len-1)`. -/
theorem toNat_ge_of_getLast {xs : Big} {v : Nat} (h : xs.getLast? = some v) :
    B ^ (xs.length - 1) * v ≤ toNat xs := by
  obtain ⟨ys, rfl⟩ := List.getLast?_eq_some_iff.mp h
  rw [toNat_append]
  simp only [List.length_append, List.length_cons, List.length_nil, toNat_singleton]
  have e : ys.length + (0 + 1) - 1 = ys.length := by omega
  rw [e]; omega

theorem isNormalized_iff {xs : Big} : isNormalized xs = true ↔ xs.getLast? ≠ some 0 := by
  unfold isNormalized
  split
  · next h => simp [h]
  · next h => simp; exact fun h' => h h'

theorem toNat_ge_of_normalized {xs : Big} (hn : isNormalized xs = true) (hne : xs ≠ []) :
    B ^ (xs.length - 1) ≤ toNat xs := by
  rw [isNormalized_iff] at hn
  cases h : xs.getLast? with
  | none => simp at h; exact absurd h hne
  | some v =>
    have hv : v ≠ 0 := by intro h0; rw [h0] at h; exact hn h
    have := toNat_ge_of_getLast h
    have h1 : B ^ (xs.length - 1) * 1 ≤ B ^ (xs.length - 1) * v :=
      Nat.mul_le_mul_left _ (Nat.pos_of_ne_zero hv)
    omega

theorem toNat_pos_of_normalized {xs : Big} (hn : isNormalized xs = true) (hne : xs ≠ []) :
    0 < toNat xs :=
  Nat.lt_of_lt_of_le (Bpow_pos _) (toNat_ge_of_normalized hn hne)

theorem Bpow_le {m n : Nat} (h : m ≤ n) : B ^ m ≤ B ^ n := Nat.pow_le_pow_right B_pos h

-- ---------------------------------------------------------------- vector primitives
theorem vecTryPush_some {cap : Option Nat} {x r : Big} {v : Nat} (h : vecTryPush cap x v = some r) :
    r = x ++ [v] ∧ capOk cap (x.length + 1) = true := by
  unfold vecTryPush at h
  split at h
  · next hc => simp at h; exact ⟨h.symm, hc⟩
  · simp at h

theorem vecTryPush_none {cap : Option Nat} {x : Big} {v : Nat} :
    vecTryPush cap x v = none ↔ capOk cap (x.length + 1) = false := by
  unfold vecTryPush
  split <;> simp_all

theorem vecTryFrom_some {cap : Option Nat} {x r : Big} (h : vecTryFrom cap x = some r) :
    r = x ∧ capOk cap x.length = true := by
  unfold vecTryFrom vecTryExtend at h
  split at h
  · next hc => simp at h hc; exact ⟨h.symm, hc⟩
  · simp at h

theorem vecTryFrom_none {cap : Option Nat} {x : Big} :
    vecTryFrom cap x = none ↔ capOk cap x.length = false := by
  unfold vecTryFrom vecTryExtend
  split <;> simp_all

-- ---------------------------------------------------------------- scalar
theorem scalarAdd_spec {x y : Nat} (hx : x < B) (hy : y < B) :
    (scalarAdd x y).1 + B * (if (scalarAdd x y).2 then 1 else 0) = x + y ∧ (scalarAdd x y).1 < B := by
  unfold scalarAdd B at *
  simp only [ge_iff_le, decide_eq_true_eq]
  split <;> omega

theorem scalarMul_spec {x y c : Nat} (hx : x < B) (hy : y < B) (hc : c < B) :
    (scalarMul x y c).1 + B * (scalarMul x y c).2 = x * y + c ∧
    (scalarMul x y c).1 < B ∧ (scalarMul x y c).2 < B := by
  unfold scalarMul
  simp only
  have h1 := Nat.div_add_mod (x * y + c) B
  refine ⟨by omega, Nat.mod_lt _ B_pos, ?_⟩
  apply Nat.div_lt_of_lt_mul
  have : x * y ≤ (B - 1) * (B - 1) := Nat.mul_le_mul (by omega) (by omega)
  have e : (B - 1) * (B - 1) + (B - 1) + 1 ≤ B * B := by unfold B; norm_num
  omega

-- ---------------------------------------------------------------- smallAdd
theorem smallAddAux_length (c : Nat) (xs : List Nat) : (smallAddAux c xs).1.length = xs.length := by
  induction xs generalizing c with
  | nil => rfl
  | cons x xs ih =>
    simp only [smallAddAux]
    split
    · rfl
    · simp [ih]

theorem smallAddAux_spec (xs : List Nat) (c : Nat) :
    toNat (smallAddAux c xs).1 + B ^ xs.length * (smallAddAux c xs).2 = toNat xs + c := by
  induction xs generalizing c with
  | nil => simp [smallAddAux, toNat]
  | cons x xs ih =>
    simp only [smallAddAux]
    split
    · next h => simp [h]
    · simp only [toNat, List.length_cons, Nat.pow_succ]
      have h1 := ih ((x + c) / B)
      have h2 := Nat.div_add_mod (x + c) B
      have : B ^ xs.length * B * (smallAddAux ((x + c) / B) xs).2
          = B * (B ^ xs.length * (smallAddAux ((x + c) / B) xs).2) := by ring
      rw [this]
      have : B * (toNat (smallAddAux ((x + c) / B) xs).1 +
          B ^ xs.length * (smallAddAux ((x + c) / B) xs).2) = B * (toNat xs + (x + c) / B) := by
        rw [h1]
      rw [Nat.mul_add] at this
      rw [Nat.mul_add] at this
      omega

theorem smallAddAux_allLt {xs : List Nat} (h : AllLt xs) (c : Nat) : AllLt (smallAddAux c xs).1 := by
  induction xs generalizing c with
  | nil => exact AllLt_nil
  | cons x xs ih =>
    rw [AllLt_cons] at h
    simp only [smallAddAux]
    split
    · exact AllLt_cons.mpr h
    · exact AllLt_cons.mpr ⟨Nat.mod_lt _ B_pos, ih h.2 _⟩

theorem smallAddAux_carry_lt {xs : List Nat} (h : AllLt xs) {c : Nat} (hc : c < B) :
    (smallAddAux c xs).2 < B := by
  induction xs generalizing c with
  | nil => exact hc
  | cons x xs ih =>
    rw [AllLt_cons] at h
    simp only [smallAddAux]
    split
    · exact B_pos
    · apply ih h.2
      have : (x + c) / B < 2 := by
        apply Nat.div_lt_of_lt_mul; have := h.1; omega
      have := B_pos; unfold B at *; omega

/-- the facts about the two components computed by `smallAddFrom` -/
theorem smallAddFrom_core {x : Big} {y start : Nat} (hx : AllLt x) (hy : y < B)
    (hs : start ≤ x.length) :
    (x.take start ++ (smallAddAux y (x.drop start)).1).length = x.length ∧
    toNat (x.take start ++ (smallAddAux y (x.drop start)).1)
      + B ^ x.length * (smallAddAux y (x.drop start)).2 = toNat x + y * B ^ start ∧
    AllLt (x.take start ++ (smallAddAux y (x.drop start)).1) ∧
    (smallAddAux y (x.drop start)).2 < B := by
  have hl : (x.take start).length = start := by simp [List.length_take]; omega
  refine ⟨?_, ?_, ?_, ?_⟩
  · simp [smallAddAux_length, List.length_take, List.length_drop]; omega
  · have h1 := smallAddAux_spec (x.drop start) y
    have h2 := toNat_take_add_drop x start
    rw [toNat_append, hl] at *
    have e : x.length = start + (x.drop start).length := by simp [List.length_drop]; omega
    have : B ^ x.length * (smallAddAux y (x.drop start)).2 =
        B ^ start * (B ^ (x.drop start).length * (smallAddAux y (x.drop start)).2) := by
      rw [e, Nat.pow_add]; simp only [List.length_drop]; ring
    rw [this, h2, Nat.add_assoc, ← Nat.mul_add, h1]; ring
  · exact AllLt_append.mpr ⟨AllLt_take hx _, smallAddAux_allLt (AllLt_drop hx _) _⟩
  · exact smallAddAux_carry_lt (AllLt_drop hx _) hy

theorem smallAddFrom_spec {cap : Option Nat} {x r : Big} {y start : Nat} (hx : AllLt x)
    (hy : y < B) (hs : start ≤ x.length) (hcap : capOk cap x.length = true)
    (h : smallAddFrom cap x y start = some r) :
    toNat r = toNat x + y * B ^ start ∧ AllLt r ∧ capOk cap r.length = true ∧
    x.length ≤ r.length ∧ r.length ≤ x.length + 1 := by
  obtain ⟨h1, h2, h3, h4⟩ := smallAddFrom_core hx hy hs
  unfold smallAddFrom at h
  simp only at h
  split at h
  · obtain ⟨rfl, hc⟩ := vecTryPush_some h
    rw [h1] at hc
    refine ⟨?_, ?_, ?_, ?_, ?_⟩
    · rw [toNat_append, toNat_singleton, h1]; exact h2
    · exact AllLt_append.mpr ⟨h3, AllLt_singleton.mpr h4⟩
    · rw [List.length_append, h1]; exact hc
    · rw [List.length_append, h1]; simp
    · rw [List.length_append, h1]; simp
  · next hz =>
    simp only [ne_eq, Decidable.not_not] at hz
    simp only [Option.some.injEq] at h
    subst h
    rw [hz] at h2
    refine ⟨by simpa using h2, h3, by rw [h1]; exact hcap, by omega, by omega⟩

theorem smallAddFrom_none_iff {cap : Option Nat} {x : Big} {y start : Nat} (hx : AllLt x)
    (hy : y < B) (hs : start ≤ x.length) :
    smallAddFrom cap x y start = none ↔
      capOk cap (x.length + 1) = false ∧ B ^ x.length ≤ toNat x + y * B ^ start := by
  obtain ⟨h1, h2, h3, h4⟩ := smallAddFrom_core hx hy hs
  have hlt := toNat_lt h3
  rw [h1] at hlt
  unfold smallAddFrom
  simp only
  split
  · next hz =>
    rw [vecTryPush_none, h1]
    have : B ^ x.length * 1 ≤ B ^ x.length * (smallAddAux y (x.drop start)).2 :=
      Nat.mul_le_mul_left _ (Nat.pos_of_ne_zero hz)
    constructor
    · intro h; exact ⟨h, by omega⟩
    · intro h; exact h.1
  · next hz =>
    simp only [ne_eq, Decidable.not_not] at hz
    rw [hz] at h2
    simp only [reduceCtorEq, false_iff, not_and, Nat.not_le]
    intro _; omega

-- ---------------------------------------------------------------- smallMul
theorem smallMulAux_length (y : Nat) (xs : List Nat) (c : Nat) :
    (smallMulAux y c xs).1.length = xs.length := by
  induction xs generalizing c with
  | nil => rfl
  | cons x xs ih => simp [smallMulAux, ih]

theorem smallMulAux_spec (y : Nat) (xs : List Nat) (c : Nat) :
    toNat (smallMulAux y c xs).1 + B ^ xs.length * (smallMulAux y c xs).2 = toNat xs * y + c := by
  induction xs generalizing c with
  | nil => simp [smallMulAux, toNat]
  | cons x xs ih =>
    simp only [smallMulAux, toNat, List.length_cons, Nat.pow_succ]
    have h1 := ih ((x * y + c) / B)
    have h2 := Nat.div_add_mod (x * y + c) B
    have e : B ^ xs.length * B * (smallMulAux y ((x * y + c) / B) xs).2
        = B * (B ^ xs.length * (smallMulAux y ((x * y + c) / B) xs).2) := by ring
    rw [e, Nat.add_assoc, ← Nat.mul_add, h1, Nat.add_mul, Nat.mul_add, Nat.mul_assoc]
    omega

theorem smallMulAux_allLt (y : Nat) (xs : List Nat) (c : Nat) : AllLt (smallMulAux y c xs).1 := by
  induction xs generalizing c with
  | nil => exact AllLt_nil
  | cons x xs ih =>
    simp only [smallMulAux]
    exact AllLt_cons.mpr ⟨Nat.mod_lt _ B_pos, ih _⟩

theorem smallMulAux_carry_lt {y : Nat} {xs : List Nat} (h : AllLt xs) (hy : y < B) {c : Nat}
    (hc : c < B) : (smallMulAux y c xs).2 < B := by
  induction xs generalizing c with
  | nil => exact hc
  | cons x xs ih =>
    rw [AllLt_cons] at h
    simp only [smallMulAux]
    exact ih h.2 (scalarMul_spec h.1 hy hc).2.2

theorem smallMul_spec {cap : Option Nat} {x r : Big} {y : Nat} (hx : AllLt x) (hy : y < B)
    (hcap : capOk cap x.length = true) (h : smallMul cap x y = some r) :
    toNat r = toNat x * y ∧ AllLt r ∧ capOk cap r.length = true ∧
    x.length ≤ r.length ∧ r.length ≤ x.length + 1 := by
  have h1 := smallMulAux_length y x 0
  have h2 := smallMulAux_spec y x 0
  have h3 := smallMulAux_allLt y x 0
  have h4 := smallMulAux_carry_lt hx hy B_pos
  unfold smallMul at h
  simp only at h
  split at h
  · obtain ⟨rfl, hc⟩ := vecTryPush_some h
    rw [h1] at hc
    refine ⟨?_, ?_, ?_, ?_, ?_⟩
    · rw [toNat_append, toNat_singleton, h1]; exact h2
    · exact AllLt_append.mpr ⟨h3, AllLt_singleton.mpr h4⟩
    · rw [List.length_append, h1]; exact hc
    · rw [List.length_append, h1]; simp
    · rw [List.length_append, h1]; simp
  · next hz =>
    simp only [ne_eq, Decidable.not_not] at hz
    simp only [Option.some.injEq] at h
    subst h
    rw [hz] at h2
    refine ⟨by simpa using h2, h3, by rw [h1]; exact hcap, by omega, by omega⟩

theorem smallMul_none_iff {cap : Option Nat} {x : Big} {y : Nat} :
    smallMul cap x y = none ↔
      capOk cap (x.length + 1) = false ∧ B ^ x.length ≤ toNat x * y := by
  have h1 := smallMulAux_length y x 0
  have h2 := smallMulAux_spec y x 0
  have hlt := toNat_lt (smallMulAux_allLt y x 0)
  rw [h1] at hlt
  unfold smallMul
  simp only
  split
  · next hz =>
    rw [vecTryPush_none, h1]
    have : B ^ x.length * 1 ≤ B ^ x.length * (smallMulAux y 0 x).2 :=
      Nat.mul_le_mul_left _ (Nat.pos_of_ne_zero hz)
    constructor
    · intro h; exact ⟨h, by omega⟩
    · intro h; exact h.1
  · next hz =>
    simp only [ne_eq, Decidable.not_not] at hz
    rw [hz] at h2
    simp only [reduceCtorEq, false_iff, not_and, Nat.not_le]
    intro _; omega

-- ---------------------------------------------------------------- largeAdd
def b2n (b : Bool) : Nat := if b then 1 else 0

theorem largeAddAux_length (xs ys : List Nat) (c : Bool) :
    (largeAddAux xs ys c).1.length = xs.length := by
  induction xs generalizing ys c with
  | nil => simp [largeAddAux]
  | cons x xs ih =>
    cases ys with
    | nil => simp [largeAddAux]
    | cons y ys => simp [largeAddAux, ih]

theorem largeAddAux_allLt {xs : List Nat} (h : AllLt xs) (ys : List Nat) (c : Bool) :
    AllLt (largeAddAux xs ys c).1 := by
  induction xs generalizing ys c with
  | nil => simp [largeAddAux]; exact AllLt_nil
  | cons x xs ih =>
    cases ys with
    | nil => simpa [largeAddAux] using h
    | cons y ys =>
      simp only [largeAddAux]
      exact AllLt_cons.mpr ⟨Nat.mod_lt _ B_pos, ih (AllLt_cons.mp h).2 _ _⟩

theorem largeAddAux_spec {xs ys : List Nat} (hx : AllLt xs) (hy : AllLt ys)
    (hl : xs.length = ys.length) (c : Bool) :
    toNat (largeAddAux xs ys c).1 + B ^ xs.length * b2n (largeAddAux xs ys c).2
      = toNat xs + toNat ys + b2n c := by
  induction xs generalizing ys c with
  | nil =>
    cases ys with
    | nil => simp [largeAddAux, toNat]
    | cons y ys => simp at hl
  | cons x xs ih =>
    cases ys with
    | nil => simp at hl
    | cons y ys =>
      rw [AllLt_cons] at hx hy
      simp only [List.length_cons, Nat.add_right_cancel_iff] at hl
      simp only [largeAddAux, toNat, List.length_cons, Nat.pow_succ]
      have h1 := ih hx.2 hy.2 hl (decide (x + y + (if c = true then 1 else 0) ≥ B))
      have e : B ^ xs.length * B * b2n (largeAddAux xs ys
            (decide (x + y + (if c = true then 1 else 0) ≥ B))).2
          = B * (B ^ xs.length * b2n (largeAddAux xs ys
            (decide (x + y + (if c = true then 1 else 0) ≥ B))).2) := by ring
      rw [e, Nat.add_assoc, ← Nat.mul_add, h1]
      have hx1 := hx.1
      have hy1 := hy.1
      generalize toNat xs = a
      generalize toNat ys = b
      rw [Nat.mul_add, Nat.mul_add]
      generalize B * a = a'
      generalize B * b = b'
      unfold b2n
      unfold B at *
      cases c <;> simp only [Bool.false_eq_true, if_false, if_true, decide_eq_true_eq] <;>
        split <;> omega

theorem toNat_resize_zero (x : Big) (k : Nat) : toNat (x ++ List.replicate k 0) = toNat x := by
  rw [toNat_append, toNat_replicate_zero]; simp

/-- the limb-wise addition step of `largeAddFrom` on a buffer that is long enough -/
theorem largeAddFrom_body {x1 y : Big} {start : Nat} (hx : AllLt x1) (hy : AllLt y)
    (hl : y.length + start ≤ x1.length) :
    let r := largeAddAux ((x1.drop start).take y.length) y false
    let x2 := x1.take start ++ r.1 ++ x1.drop (start + y.length)
    x2.length = x1.length ∧
    toNat x2 + B ^ (y.length + start) * b2n r.2 = toNat x1 + toNat y * B ^ start ∧
    AllLt x2 := by
  intro r x2
  have hmidl : ((x1.drop start).take y.length).length = y.length := by
    simp [List.length_take, List.length_drop]; omega
  have hprel : (x1.take start).length = start := by simp [List.length_take]; omega
  have hr1 : r.1.length = y.length := by
    show (largeAddAux _ _ _).1.length = _
    rw [largeAddAux_length, hmidl]
  have hmid : AllLt ((x1.drop start).take y.length) := AllLt_take (AllLt_drop hx _) _
  have hs := largeAddAux_spec hmid hy hmidl false
  rw [hmidl] at hs
  have hdecomp : x1 = x1.take start ++ (x1.drop start).take y.length ++ x1.drop (start + y.length) := by
    rw [List.append_assoc, ← List.drop_drop, List.take_append_drop, List.take_append_drop]
  refine ⟨?_, ?_, ?_⟩
  · show (x1.take start ++ r.1 ++ x1.drop (start + y.length)).length = _
    simp only [List.length_append, hr1, hprel, List.length_drop]; omega
  · have e1 : toNat x2 = toNat (x1.take start) + B ^ start * (toNat r.1 +
        B ^ y.length * toNat (x1.drop (start + y.length))) := by
      show toNat (x1.take start ++ r.1 ++ x1.drop (start + y.length)) = _
      rw [List.append_assoc, toNat_append, toNat_append, hprel, hr1]
    have e2 : toNat x1 = toNat (x1.take start) + B ^ start *
        (toNat ((x1.drop start).take y.length) +
        B ^ y.length * toNat (x1.drop (start + y.length))) := by
      conv => lhs; rw [hdecomp]
      rw [List.append_assoc, toNat_append, toNat_append, hprel, hmidl]
    rw [e1, e2]
    have hs' : toNat r.1 + B ^ y.length * b2n r.2 =
        toNat ((x1.drop start).take y.length) + toNat y + b2n false := hs
    have : b2n false = 0 := rfl
    rw [this, Nat.add_zero] at hs'
    rw [Nat.pow_add]
    have : toNat ((x1.drop start).take y.length) = toNat r.1 + B ^ y.length * b2n r.2 - toNat y := by
      omega
    have e3 : B ^ start * (toNat r.1 + B ^ y.length * b2n r.2) =
        B ^ start * (toNat ((x1.drop start).take y.length) + toNat y) := by rw [hs']
    linarith [e3]
  · exact AllLt_append.mpr ⟨AllLt_append.mpr ⟨AllLt_take hx _, largeAddAux_allLt hmid _ _⟩,
      AllLt_drop hx _⟩

theorem largeAddFrom_nil (cap : Option Nat) (x : Big) (start : Nat) :
    largeAddFrom cap x [] start = some x := by
  simp [largeAddFrom, largeAddAux]

/-- the optional resize at the start of `largeAddFrom` -/
theorem largeAddFrom_resize (cap : Option Nat) (x y : Big) (start : Nat) (hy : y ≠ []) :
    ((if y.length > x.length - start then vecTryResize cap x (y.length + start) 0 else some x) = none
      ∧ capOk cap (y.length + start) = false ∧ x.length < y.length + start) ∨
    ∃ x1, (if y.length > x.length - start then vecTryResize cap x (y.length + start) 0 else some x)
        = some x1 ∧ toNat x1 = toNat x ∧ x1.length = max x.length (y.length + start) ∧
        (AllLt x → AllLt x1) ∧ (capOk cap x.length = true → capOk cap x1.length = true) := by
  have hyl : 0 < y.length := List.length_pos_iff.mpr hy
  by_cases h : y.length > x.length - start
  · have hlt : x.length < y.length + start := by omega
    simp only [h, if_true]
    unfold vecTryResize
    by_cases hc : capOk cap (y.length + start) = true
    · right
      simp only [hc, if_true, gt_iff_lt, hlt]
      refine ⟨_, rfl, toNat_resize_zero _ _, ?_, ?_, ?_⟩
      · simp; omega
      · intro hx; exact AllLt_append.mpr ⟨hx, AllLt_replicate_zero _⟩
      · intro _; simp only [List.length_append, List.length_replicate]
        have : x.length + (y.length + start - x.length) = y.length + start := by omega
        rw [this]; exact hc
    · left
      simp only [Bool.not_eq_true] at hc
      simp [hc, hlt]
  · right
    simp only [h, if_false]
    refine ⟨x, rfl, rfl, ?_, id, id⟩
    omega

theorem largeAddFrom_spec {cap : Option Nat} {x y r : Big} {start : Nat} (hx : AllLt x)
    (hy : AllLt y) (hcap : capOk cap x.length = true) (h : largeAddFrom cap x y start = some r) :
    toNat r = toNat x + toNat y * B ^ start ∧ AllLt r ∧ capOk cap r.length = true ∧
    x.length ≤ r.length := by
  by_cases hy0 : y = []
  · subst hy0
    rw [largeAddFrom_nil] at h
    simp only [Option.some.injEq] at h
    subst h
    simp [toNat, hx, hcap]
  · unfold largeAddFrom at h
    rcases largeAddFrom_resize cap x y start hy0 with ⟨hn, _⟩ | ⟨x1, hs, hv, hlen, hA, hC⟩
    · rw [hn] at h; simp at h
    · rw [hs] at h
      simp only at h
      have hl : y.length + start ≤ x1.length := by omega
      obtain ⟨b1, b2, b3⟩ := largeAddFrom_body (hA hx) hy hl
      split at h
      · next hcarry =>
        rw [hcarry] at b2
        have := smallAddFrom_spec b3 (by unfold B; omega : 1 < B) (by omega)
          (by rw [b1]; exact hC hcap) h
        obtain ⟨s1, s2, s3, s4, _⟩ := this
        refine ⟨?_, s2, s3, by omega⟩
        rw [s1, ← hv, ← b2]; simp [b2n]
      · next hcarry =>
        simp only [Bool.not_eq_true] at hcarry
        rw [hcarry] at b2
        simp only [Option.some.injEq] at h
        subst h
        refine ⟨?_, b3, by rw [b1]; exact hC hcap, by omega⟩
        rw [← hv, ← b2]; simp [b2n]

theorem largeAddFrom_none_iff {cap : Option Nat} {x y : Big} {start : Nat} (hx : AllLt x)
    (hy : AllLt y) (hy0 : y ≠ []) :
    largeAddFrom cap x y start = none ↔
      (capOk cap (y.length + start) = false ∧ x.length < y.length + start) ∨
      (capOk cap (max x.length (y.length + start) + 1) = false ∧
        B ^ (max x.length (y.length + start)) ≤ toNat x + toNat y * B ^ start) := by
  unfold largeAddFrom
  rcases largeAddFrom_resize cap x y start hy0 with ⟨hn, hc1, hc2⟩ | ⟨x1, hs, hv, hlen, hA, hC⟩
  · rw [hn]; simp only [true_iff]; exact Or.inl ⟨hc1, hc2⟩
  · rw [hs]
    simp only
    have hl : y.length + start ≤ x1.length := by omega
    obtain ⟨b1, b2, b3⟩ := largeAddFrom_body (hA hx) hy hl
    have hlt := toNat_lt b3
    rw [b1] at hlt
    rw [← hlen, ← hv]
    have hfirst : ¬ (capOk cap (y.length + start) = false ∧ x.length < y.length + start) := by
      rintro ⟨h1, h2⟩
      by_cases h : y.length > x.length - start
      · simp only [h, if_true] at hs
        unfold vecTryResize at hs
        simp [h1] at hs
      · have := List.length_pos_iff.mpr hy0
        omega
    split
    · next hcarry =>
      rw [hcarry] at b2
      rw [smallAddFrom_none_iff b3 (by unfold B; omega : 1 < B) (by omega), b1, ← b2]
      simp only [b2n, if_true, Nat.mul_one, Nat.one_mul]
      constructor
      · intro h; exact Or.inr h
      · rintro (h | h)
        · exact absurd h hfirst
        · exact h
    · next hcarry =>
      simp only [Bool.not_eq_true] at hcarry
      rw [hcarry] at b2
      simp only [b2n, Bool.false_eq_true, if_false, Nat.mul_zero, Nat.add_zero] at b2
      simp only [reduceCtorEq, false_iff]
      rintro (h | h)
      · exact hfirst h
      · omega

-- ---------------------------------------------------------------- normalize
theorem toNat_concat_zero (xs : Big) : toNat (xs ++ [0]) = toNat xs := by
  rw [toNat_append]; simp [toNat]

theorem dropZerosRev_toNat (l : List Nat) : toNat (dropZerosRev l).reverse = toNat l.reverse := by
  induction l with
  | nil => rfl
  | cons x xs ih =>
    simp only [dropZerosRev]
    split
    · next h => subst h; rw [ih, List.reverse_cons, toNat_concat_zero]
    · rfl

theorem dropZerosRev_head (l : List Nat) : (dropZerosRev l).head? ≠ some 0 := by
  induction l with
  | nil => simp [dropZerosRev]
  | cons x xs ih =>
    simp only [dropZerosRev]
    split
    · exact ih
    · next h => simp [h]

theorem dropZerosRev_length (l : List Nat) : (dropZerosRev l).length ≤ l.length := by
  induction l with
  | nil => simp [dropZerosRev]
  | cons x xs ih =>
    simp only [dropZerosRev]
    split
    · simp; omega
    · simp

theorem dropZerosRev_mem {l : List Nat} {a : Nat} (h : a ∈ dropZerosRev l) : a ∈ l := by
  induction l with
  | nil => simp [dropZerosRev] at h
  | cons x xs ih =>
    simp only [dropZerosRev] at h
    split at h
    · exact List.mem_cons_of_mem _ (ih h)
    · exact h

theorem dropZerosRev_id {l : List Nat} (h : l.head? ≠ some 0) : dropZerosRev l = l := by
  cases l with
  | nil => rfl
  | cons x xs =>
    simp only [List.head?_cons, ne_eq, Option.some.injEq] at h
    simp [dropZerosRev, h]

theorem normalize_toNat (x : Big) : toNat (normalize x) = toNat x := by
  unfold normalize
  rw [dropZerosRev_toNat, List.reverse_reverse]

theorem normalize_isNormalized (x : Big) : isNormalized (normalize x) = true := by
  rw [isNormalized_iff]
  unfold normalize
  rw [List.getLast?_reverse]
  exact dropZerosRev_head _

theorem normalize_allLt {x : Big} (h : AllLt x) : AllLt (normalize x) := by
  intro a ha
  unfold normalize at ha
  rw [List.mem_reverse] at ha
  exact h a (List.mem_reverse.mp (dropZerosRev_mem ha))

theorem normalize_length (x : Big) : (normalize x).length ≤ x.length := by
  unfold normalize
  rw [List.length_reverse]
  have := dropZerosRev_length x.reverse
  rwa [List.length_reverse] at this

theorem normalize_of_isNormalized {x : Big} (h : isNormalized x = true) : normalize x = x := by
  rw [isNormalized_iff] at h
  unfold normalize
  rw [dropZerosRev_id, List.reverse_reverse]
  rwa [List.head?_reverse]

theorem normalize_capOk {cap : Option Nat} {x : Big} (h : capOk cap x.length = true) :
    capOk cap (normalize x).length = true := capOk_mono (normalize_length x) h

theorem fromU64_spec {v : Nat} (hv : v < B) :
    toNat (fromU64 v) = v ∧ AllLt (fromU64 v) ∧ isNormalized (fromU64 v) = true ∧
    (fromU64 v).length ≤ 1 := by
  unfold fromU64
  refine ⟨?_, normalize_allLt (AllLt_singleton.mpr hv), normalize_isNormalized _, normalize_length _⟩
  rw [normalize_toNat, toNat_singleton]

/-- a normalised value is zero exactly when it has no limbs -/
theorem toNat_eq_zero_of_normalized {x : Big} (hn : isNormalized x = true) :
    toNat x = 0 ↔ x = [] := by
  constructor
  · intro h
    by_contra hne
    have := toNat_pos_of_normalized hn hne
    omega
  · rintro rfl; rfl

-- ---------------------------------------------------------------- compare
theorem cmpRev_spec {l1 l2 : List Nat} (h1 : AllLt l1) (h2 : AllLt l2) (hl : l1.length = l2.length) :
    cmpRev l1 l2 = compare (toNat l1.reverse) (toNat l2.reverse) := by
  induction l1 generalizing l2 with
  | nil =>
    cases l2 with
    | nil => simp [cmpRev]
    | cons y ys => simp at hl
  | cons x xs ih =>
    cases l2 with
    | nil => simp at hl
    | cons y ys =>
      rw [AllLt_cons] at h1 h2
      simp only [List.length_cons, Nat.add_right_cancel_iff] at hl
      have hx := toNat_lt (AllLt_reverse.mpr h1.2)
      have hy := toNat_lt (AllLt_reverse.mpr h2.2)
      simp only [List.length_reverse] at hx hy
      simp only [cmpRev, List.reverse_cons, toNat_append, toNat_singleton, List.length_reverse]
      rw [← hl] at hy ⊢
      split
      · next hlt =>
        symm; rw [Nat.compare_eq_lt]
        have : B ^ xs.length * (x + 1) ≤ B ^ xs.length * y := Nat.mul_le_mul_left _ hlt
        rw [Nat.mul_add] at this; omega
      · split
        · next hgt =>
          symm; rw [Nat.compare_eq_gt]
          have : B ^ xs.length * (y + 1) ≤ B ^ xs.length * x := Nat.mul_le_mul_left _ hgt
          rw [Nat.mul_add] at this; omega
        · next hnlt hngt =>
          have : x = y := by omega
          subst this
          rw [ih h1.2 h2.2 hl]
          rcases Nat.lt_trichotomy (toNat xs.reverse) (toNat ys.reverse) with h | h | h
          · rw [Nat.compare_eq_lt.mpr h, Nat.compare_eq_lt.mpr (by omega)]
          · rw [Nat.compare_eq_eq.mpr h, Nat.compare_eq_eq.mpr (by omega)]
          · rw [Nat.compare_eq_gt.mpr h, Nat.compare_eq_gt.mpr (by omega)]

end MinLex
