/-
  Helper lemmas for property C12: the big-integer model (`MinLex/Model/Bigint.lean`) refines
  arithmetic on `Nat`.
-/
import Mathlib.Tactic.Ring
import Mathlib.Tactic.Linarith
import MinLex.Model.Bigint
namespace MinLex

-- ---------------------------------------------------------------- basics
theorem B_pos : 0 < B := by unfold B; omega
theorem B_eq : B = 2 ^ 64 := by unfold B; norm_num
theorem Bpow_pos (n : Nat) : 0 < B ^ n := Nat.pow_pos B_pos

theorem capOk_false_iff {cap : Option Nat} {n : Nat} :
    capOk cap n = false ↔ ∃ c, cap = some c ∧ n > c := by
  cases cap with
  | none => simp [capOk]
  | some c => simp [capOk]

theorem capOk_none (n : Nat) : capOk none n = true := rfl

theorem capOk_some {c n : Nat} : capOk (some c) n = true ↔ n ≤ c := by simp [capOk]

theorem capOk_mono {cap : Option Nat} {m n : Nat} (h : m ≤ n) (hn : capOk cap n = true) :
    capOk cap m = true := by
  cases cap with
  | none => rfl
  | some c => simp [capOk] at *; omega

instance (xs : Big) : Decidable (AllLt xs) := by unfold AllLt; infer_instance

theorem AllLt_nil : AllLt [] := by intro x hx; cases hx

theorem AllLt_cons {x : Nat} {xs : Big} : AllLt (x :: xs) ↔ x < B ∧ AllLt xs := by
  simp [AllLt]

theorem AllLt_append {xs ys : Big} : AllLt (xs ++ ys) ↔ AllLt xs ∧ AllLt ys := by
  simp only [AllLt, List.mem_append]
  constructor
  · intro h; exact ⟨fun x hx => h x (Or.inl hx), fun x hx => h x (Or.inr hx)⟩
  · rintro ⟨h1, h2⟩ x (hx | hx)
    · exact h1 x hx
    · exact h2 x hx

theorem AllLt_singleton {x : Nat} : AllLt [x] ↔ x < B := by simp [AllLt]

theorem AllLt_take {xs : Big} (h : AllLt xs) (n : Nat) : AllLt (xs.take n) :=
  fun x hx => h x (List.mem_of_mem_take hx)

theorem AllLt_drop {xs : Big} (h : AllLt xs) (n : Nat) : AllLt (xs.drop n) :=
  fun x hx => h x (List.mem_of_mem_drop hx)

theorem AllLt_replicate_zero (n : Nat) : AllLt (List.replicate n 0) := by
  intro x hx
  rw [List.mem_replicate] at hx
  rw [hx.2]; exact B_pos

theorem AllLt_reverse {xs : Big} : AllLt xs.reverse ↔ AllLt xs := by
  simp [AllLt]

theorem toNat_nil : toNat [] = 0 := rfl
theorem toNat_cons (x : Nat) (xs : Big) : toNat (x :: xs) = x + B * toNat xs := rfl

theorem toNat_append (xs ys : Big) : toNat (xs ++ ys) = toNat xs + B ^ xs.length * toNat ys := by
  induction xs with
  | nil => simp [toNat]
  | cons x xs ih =>
    simp only [List.cons_append, toNat, ih, List.length_cons]
    ring

theorem toNat_singleton (x : Nat) : toNat [x] = x := by simp [toNat]

theorem toNat_replicate_zero (n : Nat) : toNat (List.replicate n 0) = 0 := by
  induction n with
  | zero => rfl
  | succ n ih => simp [List.replicate_succ, toNat, ih]

theorem toNat_lt {xs : Big} (h : AllLt xs) : toNat xs < B ^ xs.length := by
  induction xs with
  | nil => simp [toNat]
  | cons x xs ih =>
    rw [AllLt_cons] at h
    have h1 := ih h.2
    simp only [toNat, List.length_cons, Nat.pow_succ]
    have : B * (toNat xs + 1) ≤ B * B ^ xs.length := Nat.mul_le_mul_left _ h1
    rw [Nat.mul_comm (B ^ xs.length) B]
    have := h.1
    rw [Nat.mul_add] at *
    omega

theorem toNat_take_add_drop (xs : Big) (n : Nat) :
    toNat xs = toNat (xs.take n) + B ^ (xs.take n).length * toNat (xs.drop n) := by
  rw [← toNat_append, List.take_append_drop]

/-- A non-empty list whose last limb is non-zero has value at least `B^(len-1)`. -/
theorem toNat_ge_of_getLast {xs : Big} {v : Nat} (h : xs.getLast? = some v) :
    B ^ (xs.length - 1) * v ≤ toNat xs := by
  obtain ⟨ys, rfl⟩ := List.getLast?_eq_some_iff.mp h
  rw [toNat_append]
  simp only [List.length_append, List.length_cons, List.length_nil, toNat_singleton]
  have e : ys.length + (0 + 1) - 1 = ys.length := by omega
  rw [e]; omega

theorem isNormalized_iff {xs : Big} : isNormalized xs = true ↔ xs.getLast? ≠ some 0 := by
  unfold isNormalized
  split
  · next h => simp [h]
  · next h => simp; exact fun h' => h h'

theorem toNat_ge_of_normalized {xs : Big} (hn : isNormalized xs = true) (hne : xs ≠ []) :
    B ^ (xs.length - 1) ≤ toNat xs := by
  rw [isNormalized_iff] at hn
  cases h : xs.getLast? with
  | none => simp at h; exact absurd h hne
  | some v =>
    have hv : v ≠ 0 := by intro h0; rw [h0] at h; exact hn h
    have := toNat_ge_of_getLast h
    have h1 : B ^ (xs.length - 1) * 1 ≤ B ^ (xs.length - 1) * v :=
      Nat.mul_le_mul_left _ (Nat.pos_of_ne_zero hv)
    omega

theorem toNat_pos_of_normalized {xs : Big} (hn : isNormalized xs = true) (hne : xs ≠ []) :
    0 < toNat xs :=
  Nat.lt_of_lt_of_le (Bpow_pos _) (toNat_ge_of_normalized hn hne)

theorem Bpow_le {m n : Nat} (h : m ≤ n) : B ^ m ≤ B ^ n := Nat.pow_le_pow_right B_pos h

-- ---------------------------------------------------------------- vector primitives
theorem vecTryPush_some {cap : Option Nat} {x r : Big} {v : Nat} (h : vecTryPush cap x v = some r) :
    r = x ++ [v] ∧ capOk cap (x.length + 1) = true := by
  unfold vecTryPush at h
  split at h
  · next hc => simp at h; exact ⟨h.symm, hc⟩
  · simp at h

theorem vecTryPush_none {cap : Option Nat} {x : Big} {v : Nat} :
    vecTryPush cap x v = none ↔ capOk cap (x.length + 1) = false := by
  unfold vecTryPush
  split <;> simp_all

theorem vecTryFrom_some {cap : Option Nat} {x r : Big} (h : vecTryFrom cap x = some r) :
    r = x ∧ capOk cap x.length = true := by
  unfold vecTryFrom vecTryExtend at h
  split at h
  · next hc => simp at h hc; exact ⟨h.symm, hc⟩
  · simp at h

theorem vecTryFrom_none {cap : Option Nat} {x : Big} :
    vecTryFrom cap x = none ↔ capOk cap x.length = false := by
  unfold vecTryFrom vecTryExtend
  split <;> simp_all

-- ---------------------------------------------------------------- scalar
theorem scalarAdd_spec {x y : Nat} (hx : x < B) (hy : y < B) :
    (scalarAdd x y).1 + B * (if (scalarAdd x y).2 then 1 else 0) = x + y ∧ (scalarAdd x y).1 < B := by
  unfold scalarAdd B at *
  simp only [ge_iff_le, decide_eq_true_eq]
  split <;> omega

theorem scalarMul_spec {x y c : Nat} (hx : x < B) (hy : y < B) (hc : c < B) :
    (scalarMul x y c).1 + B * (scalarMul x y c).2 = x * y + c ∧
    (scalarMul x y c).1 < B ∧ (scalarMul x y c).2 < B := by
  unfold scalarMul
  simp only
  have h1 := Nat.div_add_mod (x * y + c) B
  refine ⟨by omega, Nat.mod_lt _ B_pos, ?_⟩
  apply Nat.div_lt_of_lt_mul
  have : x * y ≤ (B - 1) * (B - 1) := Nat.mul_le_mul (by omega) (by omega)
  have e : (B - 1) * (B - 1) + (B - 1) + 1 ≤ B * B := by unfold B; norm_num
  omega

-- ---------------------------------------------------------------- smallAdd
theorem smallAddAux_length (c : Nat) (xs : List Nat) : (smallAddAux c xs).1.length = xs.length := by
  induction xs generalizing c with
  | nil => rfl
  | cons x xs ih =>
    simp only [smallAddAux]
    split
    · rfl
    · simp [ih]

theorem smallAddAux_spec (xs : List Nat) (c : Nat) :
    toNat (smallAddAux c xs).1 + B ^ xs.length * (smallAddAux c xs).2 = toNat xs + c := by
  induction xs generalizing c with
  | nil => simp [smallAddAux, toNat]
  | cons x xs ih =>
    simp only [smallAddAux]
    split
    · next h => simp [h]
    · simp only [toNat, List.length_cons, Nat.pow_succ]
      have h1 := ih ((x + c) / B)
      have h2 := Nat.div_add_mod (x + c) B
      have : B ^ xs.length * B * (smallAddAux ((x + c) / B) xs).2
          = B * (B ^ xs.length * (smallAddAux ((x + c) / B) xs).2) := by ring
      rw [this]
      have : B * (toNat (smallAddAux ((x + c) / B) xs).1 +
          B ^ xs.length * (smallAddAux ((x + c) / B) xs).2) = B * (toNat xs + (x + c) / B) := by
        rw [h1]
      rw [Nat.mul_add] at this
      rw [Nat.mul_add] at this
      omega

theorem smallAddAux_allLt {xs : List Nat} (h : AllLt xs) (c : Nat) : AllLt (smallAddAux c xs).1 := by
  induction xs generalizing c with
  | nil => exact AllLt_nil
  | cons x xs ih =>
    rw [AllLt_cons] at h
    simp only [smallAddAux]
    split
    · exact AllLt_cons.mpr h
    · exact AllLt_cons.mpr ⟨Nat.mod_lt _ B_pos, ih h.2 _⟩

theorem smallAddAux_carry_lt {xs : List Nat} (h : AllLt xs) {c : Nat} (hc : c < B) :
    (smallAddAux c xs).2 < B := by
  induction xs generalizing c with
  | nil => exact hc
  | cons x xs ih =>
    rw [AllLt_cons] at h
    simp only [smallAddAux]
    split
    · exact B_pos
    · apply ih h.2
      have : (x + c) / B < 2 := by
        apply Nat.div_lt_of_lt_mul; have := h.1; omega
      have := B_pos; unfold B at *; omega

/-- the facts about the two components computed by `smallAddFrom` -/
theorem smallAddFrom_core {x : Big} {y start : Nat} (hx : AllLt x) (hy : y < B)
    (hs : start ≤ x.length) :
    (x.take start ++ (smallAddAux y (x.drop start)).1).length = x.length ∧
    toNat (x.take start ++ (smallAddAux y (x.drop start)).1)
      + B ^ x.length * (smallAddAux y (x.drop start)).2 = toNat x + y * B ^ start ∧
    AllLt (x.take start ++ (smallAddAux y (x.drop start)).1) ∧
    (smallAddAux y (x.drop start)).2 < B := by
  have hl : (x.take start).length = start := by simp [List.length_take]; omega
  refine ⟨?_, ?_, ?_, ?_⟩
  · simp [smallAddAux_length, List.length_take, List.length_drop]; omega
  · have h1 := smallAddAux_spec (x.drop start) y
    have h2 := toNat_take_add_drop x start
    rw [toNat_append, hl] at *
    have e : x.length = start + (x.drop start).length := by simp [List.length_drop]; omega
    have : B ^ x.length * (smallAddAux y (x.drop start)).2 =
        B ^ start * (B ^ (x.drop start).length * (smallAddAux y (x.drop start)).2) := by
      rw [e, Nat.pow_add]; simp only [List.length_drop]; ring
    rw [this, h2, Nat.add_assoc, ← Nat.mul_add, h1]; ring
  · exact AllLt_append.mpr ⟨AllLt_take hx _, smallAddAux_allLt (AllLt_drop hx _) _⟩
  · exact smallAddAux_carry_lt (AllLt_drop hx _) hy

theorem smallAddFrom_spec {cap : Option Nat} {x r : Big} {y start : Nat} (hx : AllLt x)
    (hy : y < B) (hs : start ≤ x.length) (hcap : capOk cap x.length = true)
    (h : smallAddFrom cap x y start = some r) :
    toNat r = toNat x + y * B ^ start ∧ AllLt r ∧ capOk cap r.length = true ∧
    x.length ≤ r.length ∧ r.length ≤ x.length + 1 := by
  obtain ⟨h1, h2, h3, h4⟩ := smallAddFrom_core hx hy hs
  unfold smallAddFrom at h
  simp only at h
  split at h
  · obtain ⟨rfl, hc⟩ := vecTryPush_some h
    rw [h1] at hc
    refine ⟨?_, ?_, ?_, ?_, ?_⟩
    · rw [toNat_append, toNat_singleton, h1]; exact h2
    · exact AllLt_append.mpr ⟨h3, AllLt_singleton.mpr h4⟩
    · rw [List.length_append, h1]; exact hc
    · rw [List.length_append, h1]; simp
    · rw [List.length_append, h1]; simp
  · next hz =>
    simp only [ne_eq, Decidable.not_not] at hz
    simp only [Option.some.injEq] at h
    subst h
    rw [hz] at h2
    refine ⟨by simpa using h2, h3, by rw [h1]; exact hcap, by omega, by omega⟩

theorem smallAddFrom_none_iff {cap : Option Nat} {x : Big} {y start : Nat} (hx : AllLt x)
    (hy : y < B) (hs : start ≤ x.length) :
    smallAddFrom cap x y start = none ↔
      capOk cap (x.length + 1) = false ∧ B ^ x.length ≤ toNat x + y * B ^ start := by
  obtain ⟨h1, h2, h3, h4⟩ := smallAddFrom_core hx hy hs
  have hlt := toNat_lt h3
  rw [h1] at hlt
  unfold smallAddFrom
  simp only
  split
  · next hz =>
    rw [vecTryPush_none, h1]
    have : B ^ x.length * 1 ≤ B ^ x.length * (smallAddAux y (x.drop start)).2 :=
      Nat.mul_le_mul_left _ (Nat.pos_of_ne_zero hz)
    constructor
    · intro h; exact ⟨h, by omega⟩
    · intro h; exact h.1
  · next hz =>
    simp only [ne_eq, Decidable.not_not] at hz
    rw [hz] at h2
    simp only [reduceCtorEq, false_iff, not_and, Nat.not_le]
    intro _; omega

-- ---------------------------------------------------------------- smallMul
theorem smallMulAux_length (y : Nat) (xs : List Nat) (c : Nat) :
    (smallMulAux y c xs).1.length = xs.length := by
  induction xs generalizing c with
  | nil => rfl
  | cons x xs ih => simp [smallMulAux, ih]

theorem smallMulAux_spec (y : Nat) (xs : List Nat) (c : Nat) :
    toNat (smallMulAux y c xs).1 + B ^ xs.length * (smallMulAux y c xs).2 = toNat xs * y + c := by
  induction xs generalizing c with
  | nil => simp [smallMulAux, toNat]
  | cons x xs ih =>
    simp only [smallMulAux, toNat, List.length_cons, Nat.pow_succ]
    have h1 := ih ((x * y + c) / B)
    have h2 := Nat.div_add_mod (x * y + c) B
    have e : B ^ xs.length * B * (smallMulAux y ((x * y + c) / B) xs).2
        = B * (B ^ xs.length * (smallMulAux y ((x * y + c) / B) xs).2) := by ring
    rw [e, Nat.add_assoc, ← Nat.mul_add, h1, Nat.add_mul, Nat.mul_add, Nat.mul_assoc]
    omega

theorem smallMulAux_allLt (y : Nat) (xs : List Nat) (c : Nat) : AllLt (smallMulAux y c xs).1 := by
  induction xs generalizing c with
  | nil => exact AllLt_nil
  | cons x xs ih =>
    simp only [smallMulAux]
    exact AllLt_cons.mpr ⟨Nat.mod_lt _ B_pos, ih _⟩

theorem smallMulAux_carry_lt {y : Nat} {xs : List Nat} (h : AllLt xs) (hy : y < B) {c : Nat}
    (hc : c < B) : (smallMulAux y c xs).2 < B := by
  induction xs generalizing c with
  | nil => exact hc
  | cons x xs ih =>
    rw [AllLt_cons] at h
    simp only [smallMulAux]
    exact ih h.2 (scalarMul_spec h.1 hy hc).2.2

theorem smallMul_spec {cap : Option Nat} {x r : Big} {y : Nat} (hx : AllLt x) (hy : y < B)
    (hcap : capOk cap x.length = true) (h : smallMul cap x y = some r) :
    toNat r = toNat x * y ∧ AllLt r ∧ capOk cap r.length = true ∧
    x.length ≤ r.length ∧ r.length ≤ x.length + 1 := by
  have h1 := smallMulAux_length y x 0
  have h2 := smallMulAux_spec y x 0
  have h3 := smallMulAux_allLt y x 0
  have h4 := smallMulAux_carry_lt hx hy B_pos
  unfold smallMul at h
  simp only at h
  split at h
  · obtain ⟨rfl, hc⟩ := vecTryPush_some h
    rw [h1] at hc
    refine ⟨?_, ?_, ?_, ?_, ?_⟩
    · rw [toNat_append, toNat_singleton, h1]; exact h2
    · exact AllLt_append.mpr ⟨h3, AllLt_singleton.mpr h4⟩
    · rw [List.length_append, h1]; exact hc
    · rw [List.length_append, h1]; simp
    · rw [List.length_append, h1]; simp
  · next hz =>
    simp only [ne_eq, Decidable.not_not] at hz
    simp only [Option.some.injEq] at h
    subst h
    rw [hz] at h2
    refine ⟨by simpa using h2, h3, by rw [h1]; exact hcap, by omega, by omega⟩

theorem smallMul_none_iff {cap : Option Nat} {x : Big} {y : Nat} :
    smallMul cap x y = none ↔
      capOk cap (x.length + 1) = false ∧ B ^ x.length ≤ toNat x * y := by
  have h1 := smallMulAux_length y x 0
  have h2 := smallMulAux_spec y x 0
  have hlt := toNat_lt (smallMulAux_allLt y x 0)
  rw [h1] at hlt
  unfold smallMul
  simp only
  split
  · next hz =>
    rw [vecTryPush_none, h1]
    have : B ^ x.length * 1 ≤ B ^ x.length * (smallMulAux y 0 x).2 :=
      Nat.mul_le_mul_left _ (Nat.pos_of_ne_zero hz)
    constructor
    · intro h; exact ⟨h, by omega⟩
    · intro h; exact h.1
  · next hz =>
    simp only [ne_eq, Decidable.not_not] at hz
    rw [hz] at h2
    simp only [reduceCtorEq, false_iff, not_and, Nat.not_le]
    intro _; omega

-- ---------------------------------------------------------------- largeAdd
def b2n (b : Bool) : Nat := if b then 1 else 0

theorem largeAddAux_length (xs ys : List Nat) (c : Bool) :
    (largeAddAux xs ys c).1.length = xs.length := by
  induction xs generalizing ys c with
  | nil => simp [largeAddAux]
  | cons x xs ih =>
    cases ys with
    | nil => simp [largeAddAux]
    | cons y ys => simp [largeAddAux, ih]

theorem largeAddAux_allLt {xs : List Nat} (h : AllLt xs) (ys : List Nat) (c : Bool) :
    AllLt (largeAddAux xs ys c).1 := by
  induction xs generalizing ys c with
  | nil => simp [largeAddAux]; exact AllLt_nil
  | cons x xs ih =>
    cases ys with
    | nil => simpa [largeAddAux] using h
    | cons y ys =>
      simp only [largeAddAux]
      exact AllLt_cons.mpr ⟨Nat.mod_lt _ B_pos, ih (AllLt_cons.mp h).2 _ _⟩

theorem largeAddAux_spec {xs ys : List Nat} (hx : AllLt xs) (hy : AllLt ys)
    (hl : xs.length = ys.length) (c : Bool) :
    toNat (largeAddAux xs ys c).1 + B ^ xs.length * b2n (largeAddAux xs ys c).2
      = toNat xs + toNat ys + b2n c := by
  induction xs generalizing ys c with
  | nil =>
    cases ys with
    | nil => simp [largeAddAux, toNat]
    | cons y ys => simp at hl
  | cons x xs ih =>
    cases ys with
    | nil => simp at hl
    | cons y ys =>
      rw [AllLt_cons] at hx hy
      simp only [List.length_cons, Nat.add_right_cancel_iff] at hl
      simp only [largeAddAux, toNat, List.length_cons, Nat.pow_succ]
      have h1 := ih hx.2 hy.2 hl (decide (x + y + (if c = true then 1 else 0) ≥ B))
      have e : B ^ xs.length * B * b2n (largeAddAux xs ys
            (decide (x + y + (if c = true then 1 else 0) ≥ B))).2
          = B * (B ^ xs.length * b2n (largeAddAux xs ys
            (decide (x + y + (if c = true then 1 else 0) ≥ B))).2) := by ring
      rw [e, Nat.add_assoc, ← Nat.mul_add, h1]
      have hx1 := hx.1
      have hy1 := hy.1
      generalize toNat xs = a
      generalize toNat ys = b
      rw [Nat.mul_add, Nat.mul_add]
      generalize B * a = a'
      generalize B * b = b'
      unfold b2n
      unfold B at *
      cases c <;> simp only [Bool.false_eq_true, if_false, if_true, decide_eq_true_eq] <;>
        split <;> omega

theorem toNat_resize_zero (x : Big) (k : Nat) : toNat (x ++ List.replicate k 0) = toNat x := by
  rw [toNat_append, toNat_replicate_zero]; simp

/-- the limb-wise addition step of `largeAddFrom` on a buffer that is long enough -/
theorem largeAddFrom_body {x1 y : Big} {start : Nat} (hx : AllLt x1) (hy : AllLt y)
    (hl : y.length + start ≤ x1.length) :
    let r := largeAddAux ((x1.drop start).take y.length) y false
    let x2 := x1.take start ++ r.1 ++ x1.drop (start + y.length)
    x2.length = x1.length ∧
    toNat x2 + B ^ (y.length + start) * b2n r.2 = toNat x1 + toNat y * B ^ start ∧
    AllLt x2 := by
  intro r x2
  have hmidl : ((x1.drop start).take y.length).length = y.length := by
    simp [List.length_take, List.length_drop]; omega
  have hprel : (x1.take start).length = start := by simp [List.length_take]; omega
  have hr1 : r.1.length = y.length := by
    show (largeAddAux _ _ _).1.length = _
    rw [largeAddAux_length, hmidl]
  have hmid : AllLt ((x1.drop start).take y.length) := AllLt_take (AllLt_drop hx _) _
  have hs := largeAddAux_spec hmid hy hmidl false
  rw [hmidl] at hs
  have hdecomp : x1 = x1.take start ++ (x1.drop start).take y.length ++ x1.drop (start + y.length) := by
    rw [List.append_assoc, ← List.drop_drop, List.take_append_drop, List.take_append_drop]
  refine ⟨?_, ?_, ?_⟩
  · show (x1.take start ++ r.1 ++ x1.drop (start + y.length)).length = _
    simp only [List.length_append, hr1, hprel, List.length_drop]; omega
  · have e1 : toNat x2 = toNat (x1.take start) + B ^ start * (toNat r.1 +
        B ^ y.length * toNat (x1.drop (start + y.length))) := by
      show toNat (x1.take start ++ r.1 ++ x1.drop (start + y.length)) = _
      rw [List.append_assoc, toNat_append, toNat_append, hprel, hr1]
    have e2 : toNat x1 = toNat (x1.take start) + B ^ start *
        (toNat ((x1.drop start).take y.length) +
        B ^ y.length * toNat (x1.drop (start + y.length))) := by
      conv => lhs; rw [hdecomp]
      rw [List.append_assoc, toNat_append, toNat_append, hprel, hmidl]
    rw [e1, e2]
    have hs' : toNat r.1 + B ^ y.length * b2n r.2 =
        toNat ((x1.drop start).take y.length) + toNat y + b2n false := hs
    have : b2n false = 0 := rfl
    rw [this, Nat.add_zero] at hs'
    rw [Nat.pow_add]
    have : toNat ((x1.drop start).take y.length) = toNat r.1 + B ^ y.length * b2n r.2 - toNat y := by
      omega
    have e3 : B ^ start * (toNat r.1 + B ^ y.length * b2n r.2) =
        B ^ start * (toNat ((x1.drop start).take y.length) + toNat y) := by rw [hs']
    linarith [e3]
  · exact AllLt_append.mpr ⟨AllLt_append.mpr ⟨AllLt_take hx _, largeAddAux_allLt hmid _ _⟩,
      AllLt_drop hx _⟩

theorem largeAddFrom_nil (cap : Option Nat) (x : Big) (start : Nat) :
    largeAddFrom cap x [] start = some x := by
  simp [largeAddFrom, largeAddAux]

/-- the optional resize at the start of `largeAddFrom` -/
theorem largeAddFrom_resize (cap : Option Nat) (x y : Big) (start : Nat) (hy : y ≠ []) :
    ((if y.length > x.length - start then vecTryResize cap x (y.length + start) 0 else some x) = none
      ∧ capOk cap (y.length + start) = false ∧ x.length < y.length + start) ∨
    ∃ x1, (if y.length > x.length - start then vecTryResize cap x (y.length + start) 0 else some x)
        = some x1 ∧ toNat x1 = toNat x ∧ x1.length = max x.length (y.length + start) ∧
        (AllLt x → AllLt x1) ∧ (capOk cap x.length = true → capOk cap x1.length = true) := by
  have hyl : 0 < y.length := List.length_pos_iff.mpr hy
  by_cases h : y.length > x.length - start
  · have hlt : x.length < y.length + start := by omega
    simp only [h, if_true]
    unfold vecTryResize
    by_cases hc : capOk cap (y.length + start) = true
    · right
      simp only [hc, if_true, gt_iff_lt, hlt]
      refine ⟨_, rfl, toNat_resize_zero _ _, ?_, ?_, ?_⟩
      · simp; omega
      · intro hx; exact AllLt_append.mpr ⟨hx, AllLt_replicate_zero _⟩
      · intro _; simp only [List.length_append, List.length_replicate]
        have : x.length + (y.length + start - x.length) = y.length + start := by omega
        rw [this]; exact hc
    · left
      simp only [Bool.not_eq_true] at hc
      simp [hc, hlt]
  · right
    simp only [h, if_false]
    refine ⟨x, rfl, rfl, ?_, id, id⟩
    omega

theorem largeAddFrom_spec {cap : Option Nat} {x y r : Big} {start : Nat} (hx : AllLt x)
    (hy : AllLt y) (hcap : capOk cap x.length = true) (h : largeAddFrom cap x y start = some r) :
    toNat r = toNat x + toNat y * B ^ start ∧ AllLt r ∧ capOk cap r.length = true ∧
    x.length ≤ r.length := by
  by_cases hy0 : y = []
  · subst hy0
    rw [largeAddFrom_nil] at h
    simp only [Option.some.injEq] at h
    subst h
    simp [toNat, hx, hcap]
  · unfold largeAddFrom at h
    rcases largeAddFrom_resize cap x y start hy0 with ⟨hn, _⟩ | ⟨x1, hs, hv, hlen, hA, hC⟩
    · rw [hn] at h; simp at h
    · rw [hs] at h
      simp only at h
      have hl : y.length + start ≤ x1.length := by omega
      obtain ⟨b1, b2, b3⟩ := largeAddFrom_body (hA hx) hy hl
      split at h
      · next hcarry =>
        rw [hcarry] at b2
        have := smallAddFrom_spec b3 (by unfold B; omega : 1 < B) (by omega)
          (by rw [b1]; exact hC hcap) h
        obtain ⟨s1, s2, s3, s4, _⟩ := this
        refine ⟨?_, s2, s3, by omega⟩
        rw [s1, ← hv, ← b2]; simp [b2n]
      · next hcarry =>
        simp only [Bool.not_eq_true] at hcarry
        rw [hcarry] at b2
        simp only [Option.some.injEq] at h
        subst h
        refine ⟨?_, b3, by rw [b1]; exact hC hcap, by omega⟩
        rw [← hv, ← b2]; simp [b2n]

theorem largeAddFrom_none_iff {cap : Option Nat} {x y : Big} {start : Nat} (hx : AllLt x)
    (hy : AllLt y) (hy0 : y ≠ []) :
    largeAddFrom cap x y start = none ↔
      (capOk cap (y.length + start) = false ∧ x.length < y.length + start) ∨
      (capOk cap (max x.length (y.length + start) + 1) = false ∧
        B ^ (max x.length (y.length + start)) ≤ toNat x + toNat y * B ^ start) := by
  unfold largeAddFrom
  rcases largeAddFrom_resize cap x y start hy0 with ⟨hn, hc1, hc2⟩ | ⟨x1, hs, hv, hlen, hA, hC⟩
  · rw [hn]; simp only [true_iff]; exact Or.inl ⟨hc1, hc2⟩
  · rw [hs]
    simp only
    have hl : y.length + start ≤ x1.length := by omega
    obtain ⟨b1, b2, b3⟩ := largeAddFrom_body (hA hx) hy hl
    have hlt := toNat_lt b3
    rw [b1] at hlt
    rw [← hlen, ← hv]
    have hfirst : ¬ (capOk cap (y.length + start) = false ∧ x.length < y.length + start) := by
      rintro ⟨h1, h2⟩
      by_cases h : y.length > x.length - start
      · simp only [h, if_true] at hs
        unfold vecTryResize at hs
        simp [h1] at hs
      · have := List.length_pos_iff.mpr hy0
        omega
    split
    · next hcarry =>
      rw [hcarry] at b2
      rw [smallAddFrom_none_iff b3 (by unfold B; omega : 1 < B) (by omega), b1, ← b2]
      simp only [b2n, if_true, Nat.mul_one, Nat.one_mul]
      constructor
      · intro h; exact Or.inr h
      · rintro (h | h)
        · exact absurd h hfirst
        · exact h
    · next hcarry =>
      simp only [Bool.not_eq_true] at hcarry
      rw [hcarry] at b2
      simp only [b2n, Bool.false_eq_true, if_false, Nat.mul_zero, Nat.add_zero] at b2
      simp only [reduceCtorEq, false_iff]
      rintro (h | h)
      · exact hfirst h
      · omega

-- ---------------------------------------------------------------- normalize
theorem toNat_concat_zero (xs : Big) : toNat (xs ++ [0]) = toNat xs := by
  rw [toNat_append]; simp [toNat]

theorem dropZerosRev_toNat (l : List Nat) : toNat (dropZerosRev l).reverse = toNat l.reverse := by
  induction l with
  | nil => rfl
  | cons x xs ih =>
    simp only [dropZerosRev]
    split
    · next h => subst h; rw [ih, List.reverse_cons, toNat_concat_zero]
    · rfl

theorem dropZerosRev_head (l : List Nat) : (dropZerosRev l).head? ≠ some 0 := by
  induction l with
  | nil => simp [dropZerosRev]
  | cons x xs ih =>
    simp only [dropZerosRev]
    split
    · exact ih
    · next h => simp [h]

theorem dropZerosRev_length (l : List Nat) : (dropZerosRev l).length ≤ l.length := by
  induction l with
  | nil => simp [dropZerosRev]
  | cons x xs ih =>
    simp only [dropZerosRev]
    split
    · simp; omega
    · simp

theorem dropZerosRev_mem {l : List Nat} {a : Nat} (h : a ∈ dropZerosRev l) : a ∈ l := by
  induction l with
  | nil => simp [dropZerosRev] at h
  | cons x xs ih =>
    simp only [dropZerosRev] at h
    split at h
    · exact List.mem_cons_of_mem _ (ih h)
    · exact h

theorem dropZerosRev_id {l : List Nat} (h : l.head? ≠ some 0) : dropZerosRev l = l := by
  cases l with
  | nil => rfl
  | cons x xs =>
    simp only [List.head?_cons, ne_eq, Option.some.injEq] at h
    simp [dropZerosRev, h]

theorem normalize_toNat (x : Big) : toNat (normalize x) = toNat x := by
  unfold normalize
  rw [dropZerosRev_toNat, List.reverse_reverse]

theorem normalize_isNormalized (x : Big) : isNormalized (normalize x) = true := by
  rw [isNormalized_iff]
  unfold normalize
  rw [List.getLast?_reverse]
  exact dropZerosRev_head _

theorem normalize_allLt {x : Big} (h : AllLt x) : AllLt (normalize x) := by
  intro a ha
  unfold normalize at ha
  rw [List.mem_reverse] at ha
  exact h a (List.mem_reverse.mp (dropZerosRev_mem ha))

theorem normalize_length (x : Big) : (normalize x).length ≤ x.length := by
  unfold normalize
  rw [List.length_reverse]
  have := dropZerosRev_length x.reverse
  rwa [List.length_reverse] at this

theorem normalize_of_isNormalized {x : Big} (h : isNormalized x = true) : normalize x = x := by
  rw [isNormalized_iff] at h
  unfold normalize
  rw [dropZerosRev_id, List.reverse_reverse]
  rwa [List.head?_reverse]

theorem normalize_capOk {cap : Option Nat} {x : Big} (h : capOk cap x.length = true) :
    capOk cap (normalize x).length = true := capOk_mono (normalize_length x) h

theorem fromU64_spec {v : Nat} (hv : v < B) :
    toNat (fromU64 v) = v ∧ AllLt (fromU64 v) ∧ isNormalized (fromU64 v) = true ∧
    (fromU64 v).length ≤ 1 := by
  unfold fromU64
  refine ⟨?_, normalize_allLt (AllLt_singleton.mpr hv), normalize_isNormalized _, normalize_length _⟩
  rw [normalize_toNat, toNat_singleton]

/-- a normalised value is zero exactly when it has no limbs -/
theorem toNat_eq_zero_of_normalized {x : Big} (hn : isNormalized x = true) :
    toNat x = 0 ↔ x = [] := by
  constructor
  · intro h
    by_contra hne
    have := toNat_pos_of_normalized hn hne
    omega
  · rintro rfl; rfl

-- ---------------------------------------------------------------- compare
theorem cmpRev_spec {l1 l2 : List Nat} (h1 : AllLt l1) (h2 : AllLt l2) (hl : l1.length = l2.length) :
    cmpRev l1 l2 = compare (toNat l1.reverse) (toNat l2.reverse) := by
  induction l1 generalizing l2 with
  | nil =>
    cases l2 with
    | nil => simp [cmpRev]
    | cons y ys => simp at hl
  | cons x xs ih =>
    cases l2 with
    | nil => simp at hl
    | cons y ys =>
      rw [AllLt_cons] at h1 h2
      simp only [List.length_cons, Nat.add_right_cancel_iff] at hl
      have hx := toNat_lt (AllLt_reverse.mpr h1.2)
      have hy := toNat_lt (AllLt_reverse.mpr h2.2)
      simp only [List.length_reverse] at hx hy
      simp only [cmpRev, List.reverse_cons, toNat_append, toNat_singleton, List.length_reverse]
      rw [← hl] at hy ⊢
      split
      · next hlt =>
        symm; rw [Nat.compare_eq_lt]
        have : B ^ xs.length * (x + 1) ≤ B ^ xs.length * y := Nat.mul_le_mul_left _ hlt
        rw [Nat.mul_add] at this; omega
      · split
        · next hgt =>
          symm; rw [Nat.compare_eq_gt]
          have : B ^ xs.length * (y + 1) ≤ B ^ xs.length * x := Nat.mul_le_mul_left _ hgt
          rw [Nat.mul_add] at this; omega
        · next hnlt hngt =>
          have : x = y := by omega
          subst this
          rw [ih h1.2 h2.2 hl]
          rcases Nat.lt_trichotomy (toNat xs.reverse) (toNat ys.reverse) with h | h | h
          · rw [Nat.compare_eq_lt.mpr h, Nat.compare_eq_lt.mpr (by omega)]
          · rw [Nat.compare_eq_eq.mpr h, Nat.compare_eq_eq.mpr (by omega)]
          · rw [Nat.compare_eq_gt.mpr h, Nat.compare_eq_gt.mpr (by omega)]

theorem bigCompare_spec {x y : Big} (hx : AllLt x) (hy : AllLt y)
    (nx : isNormalized x = true) (ny : isNormalized y = true) :
    bigCompare x y = compare (toNat x) (toNat y) := by
  unfold bigCompare
  have bx := toNat_lt hx
  have by' := toNat_lt hy
  split
  · next h =>
    have hne : y ≠ [] := by intro h0; subst h0; simp at h
    have := toNat_ge_of_normalized ny hne
    have := Bpow_le (show x.length ≤ y.length - 1 by omega)
    symm; rw [Nat.compare_eq_lt]; omega
  · split
    · next h =>
      have hne : x ≠ [] := by intro h0; subst h0; simp at h
      have := toNat_ge_of_normalized nx hne
      have := Bpow_le (show y.length ≤ x.length - 1 by omega)
      symm; rw [Nat.compare_eq_gt]; omega
    · next h1 h2 =>
      have := cmpRev_spec (AllLt_reverse.mpr hx) (AllLt_reverse.mpr hy)
        (by simp only [List.length_reverse]; omega)
      simpa only [List.reverse_reverse] using this

-- ---------------------------------------------------------------- shifts
theorem shl64_eq (x : Nat) {n : Nat} (hn : n < 64) : shl64 x n = (x * 2 ^ n) % B := by
  unfold shl64; rw [Nat.mod_eq_of_lt hn]

theorem shr64_eq (x : Nat) {n : Nat} (hn : n < 64) : shr64 x n = x / 2 ^ n := by
  unfold shr64; rw [Nat.mod_eq_of_lt hn]

theorem two_pow_split {n : Nat} (hn : n ≤ 64) : 2 ^ (64 - n) * 2 ^ n = B := by
  rw [← Nat.pow_add, B_eq]; congr 1; omega

/-- one output limb of `shlBits` -/
theorem shl_limb {n : Nat} (h0 : 0 < n) (hn : n < 64) (x : Nat) {prev : Nat} (hp : prev < B) :
    shl64 x n ||| shr64 prev (64 - n) = (x % 2 ^ (64 - n)) * 2 ^ n + prev / 2 ^ (64 - n) := by
  rw [shl64_eq x hn, shr64_eq prev (by omega : 64 - n < 64)]
  have hB := two_pow_split (Nat.le_of_lt hn)
  have hlt : prev / 2 ^ (64 - n) < 2 ^ n := by
    apply Nat.div_lt_of_lt_mul; rw [hB]; exact hp
  rw [← hB, Nat.mul_mod_mul_right, Nat.mul_comm (x % 2 ^ (64 - n)) (2 ^ n)]
  exact (Nat.two_pow_add_eq_or_of_lt hlt _).symm

theorem shl_limb_lt {n : Nat} (hn : n ≤ 64) (x : Nat) {prev : Nat} (hp : prev < B) :
    (x % 2 ^ (64 - n)) * 2 ^ n + prev / 2 ^ (64 - n) < B := by
  have hB := two_pow_split hn
  have hlt : prev / 2 ^ (64 - n) < 2 ^ n := by
    apply Nat.div_lt_of_lt_mul; rw [hB]; exact hp
  have hm : x % 2 ^ (64 - n) < 2 ^ (64 - n) := Nat.mod_lt _ (Nat.two_pow_pos _)
  have : (x % 2 ^ (64 - n) + 1) * 2 ^ n ≤ 2 ^ (64 - n) * 2 ^ n := Nat.mul_le_mul_right _ hm
  rw [Nat.add_mul, hB] at this
  omega

theorem shl_arith (P Q x d m a Bl t T p : Nat) (hx : x = Q * d + m)
    (ih : a + Bl * t = T * P + d) :
    m * P + p + (Q * P) * a + Bl * (Q * P) * t = (x + (Q * P) * T) * P + p := by
  subst hx
  have e : Q * P * (a + Bl * t) = Q * P * (T * P + d) := by rw [ih]
  linarith [e]

theorem shlBitsAux_length (n : Nat) (xs : List Nat) (prev : Nat) :
    (shlBitsAux n prev xs).1.length = xs.length := by
  induction xs generalizing prev with
  | nil => rfl
  | cons x xs ih => simp [shlBitsAux, ih]

theorem shlBitsAux_snd_lt {n : Nat} {xs : List Nat} (h : AllLt xs) {prev : Nat} (hp : prev < B) :
    (shlBitsAux n prev xs).2 < B := by
  induction xs generalizing prev with
  | nil => exact hp
  | cons x xs ih =>
    rw [AllLt_cons] at h
    simp only [shlBitsAux]
    exact ih h.2 h.1

theorem shlBitsAux_allLt {n : Nat} (h0 : 0 < n) (hn : n < 64) {xs : List Nat} (h : AllLt xs)
    {prev : Nat} (hp : prev < B) : AllLt (shlBitsAux n prev xs).1 := by
  induction xs generalizing prev with
  | nil => exact AllLt_nil
  | cons x xs ih =>
    rw [AllLt_cons] at h
    simp only [shlBitsAux]
    refine AllLt_cons.mpr ⟨?_, ih h.2 h.1⟩
    rw [shl_limb h0 hn x hp]
    exact shl_limb_lt (Nat.le_of_lt hn) x hp

theorem shlBitsAux_spec {n : Nat} (h0 : 0 < n) (hn : n < 64) {xs : List Nat} (h : AllLt xs)
    {prev : Nat} (hp : prev < B) :
    toNat (shlBitsAux n prev xs).1 + B ^ xs.length * ((shlBitsAux n prev xs).2 / 2 ^ (64 - n))
      = toNat xs * 2 ^ n + prev / 2 ^ (64 - n) := by
  induction xs generalizing prev with
  | nil => simp [shlBitsAux, toNat]
  | cons x xs ih =>
    rw [AllLt_cons] at h
    simp only [shlBitsAux, toNat, List.length_cons, Nat.pow_succ]
    rw [shl_limb h0 hn x hp]
    have hB := two_pow_split (Nat.le_of_lt hn)
    rw [← hB]
    have := shl_arith (2 ^ n) (2 ^ (64 - n)) x (x / 2 ^ (64 - n)) (x % 2 ^ (64 - n))
      (toNat (shlBitsAux n x xs).1) ((2 ^ (64 - n) * 2 ^ n) ^ xs.length)
      ((shlBitsAux n x xs).2 / 2 ^ (64 - n)) (toNat xs) (prev / 2 ^ (64 - n))
      (Nat.div_add_mod x _).symm (by rw [hB]; exact ih h.2 h.1)
    exact this

theorem shlBits_core {n : Nat} (h0 : 0 < n) (hn : n < 64) {x : Big} (hx : AllLt x) :
    (shlBitsAux n 0 x).1.length = x.length ∧
    toNat (shlBitsAux n 0 x).1 + B ^ x.length * shr64 (shlBitsAux n 0 x).2 (64 - n)
      = toNat x * 2 ^ n ∧
    AllLt (shlBitsAux n 0 x).1 ∧ shr64 (shlBitsAux n 0 x).2 (64 - n) < B := by
  refine ⟨shlBitsAux_length _ _ _, ?_, shlBitsAux_allLt h0 hn hx B_pos, ?_⟩
  · rw [shr64_eq _ (by omega : 64 - n < 64)]
    have := shlBitsAux_spec h0 hn hx B_pos
    simpa using this
  · rw [shr64_eq _ (by omega : 64 - n < 64)]
    exact Nat.lt_of_le_of_lt (Nat.div_le_self _ _) (shlBitsAux_snd_lt hx B_pos)

theorem shlBits_spec {cap : Option Nat} {x r : Big} {n : Nat} (h0 : 0 < n) (hn : n < 64)
    (hx : AllLt x) (hcap : capOk cap x.length = true) (h : shlBits cap x n = some r) :
    toNat r = toNat x * 2 ^ n ∧ AllLt r ∧ capOk cap r.length = true ∧
    x.length ≤ r.length ∧ r.length ≤ x.length + 1 ∧
    (r.length = x.length + 1 → B ^ x.length ≤ toNat r) := by
  obtain ⟨h1, h2, h3, h4⟩ := shlBits_core h0 hn hx
  unfold shlBits at h
  simp only at h
  split at h
  · next hz =>
    obtain ⟨rfl, hc⟩ := vecTryPush_some h
    rw [h1] at hc
    have hv : toNat ((shlBitsAux n 0 x).1 ++ [shr64 (shlBitsAux n 0 x).2 (64 - n)])
        = toNat x * 2 ^ n := by
      rw [toNat_append, toNat_singleton, h1]; exact h2
    refine ⟨hv, ?_, ?_, ?_, ?_, ?_⟩
    · exact AllLt_append.mpr ⟨h3, AllLt_singleton.mpr h4⟩
    · rw [List.length_append, h1]; exact hc
    · rw [List.length_append, h1]; simp
    · rw [List.length_append, h1]; simp
    · intro _
      rw [hv, ← h2]
      have : B ^ x.length * 1 ≤ B ^ x.length * shr64 (shlBitsAux n 0 x).2 (64 - n) :=
        Nat.mul_le_mul_left _ (Nat.pos_of_ne_zero hz)
      omega
  · next hz =>
    simp only [ne_eq, Decidable.not_not] at hz
    simp only [Option.some.injEq] at h
    subst h
    rw [hz] at h2
    refine ⟨by simpa using h2, h3, by rw [h1]; exact hcap, by omega, by omega, by omega⟩

theorem shlBits_none_iff {cap : Option Nat} {x : Big} {n : Nat} (h0 : 0 < n) (hn : n < 64)
    (hx : AllLt x) :
    shlBits cap x n = none ↔
      capOk cap (x.length + 1) = false ∧ B ^ x.length ≤ toNat x * 2 ^ n := by
  obtain ⟨h1, h2, h3, h4⟩ := shlBits_core h0 hn hx
  have hlt := toNat_lt h3
  rw [h1] at hlt
  unfold shlBits
  simp only
  split
  · next hz =>
    rw [vecTryPush_none, h1]
    have : B ^ x.length * 1 ≤ B ^ x.length * shr64 (shlBitsAux n 0 x).2 (64 - n) :=
      Nat.mul_le_mul_left _ (Nat.pos_of_ne_zero hz)
    constructor
    · intro h; exact ⟨h, by omega⟩
    · intro h; exact h.1
  · next hz =>
    simp only [ne_eq, Decidable.not_not] at hz
    rw [hz] at h2
    simp only [reduceCtorEq, false_iff, not_and, Nat.not_le]
    intro _; omega

theorem shlLimbs_spec {cap : Option Nat} {x r : Big} {n : Nat} (hx : AllLt x)
    (h : shlLimbs cap x n = some r) :
    toNat r = toNat x * B ^ n ∧ AllLt r ∧ capOk cap r.length = true ∧
    (x ≠ [] → r.length = n + x.length) ∧ (x = [] → r = []) := by
  unfold shlLimbs at h
  split at h
  · simp at h
  · next hc =>
    simp only [Bool.not_eq_eq_eq_not, Bool.not_true, Bool.not_eq_false] at hc
    split at h
    · next he =>
      simp only [Option.some.injEq] at h
      subst h
      simp only [List.isEmpty_iff] at he
      subst he
      refine ⟨by simp [toNat], hx, capOk_mono (by simp) hc, by simp, by simp⟩
    · next he =>
      simp only [Option.some.injEq] at h
      subst h
      refine ⟨?_, ?_, ?_, ?_, ?_⟩
      · rw [toNat_append, toNat_replicate_zero, List.length_replicate]; ring
      · exact AllLt_append.mpr ⟨AllLt_replicate_zero _, hx⟩
      · simpa using hc
      · intro _; simp
      · intro h0; subst h0; simp at he

theorem shlLimbs_none_iff {cap : Option Nat} {x : Big} {n : Nat} :
    shlLimbs cap x n = none ↔ capOk cap (n + x.length) = false := by
  unfold shlLimbs
  split
  · next hc => simpa using hc
  · next hc =>
    simp only [Bool.not_eq_eq_eq_not, Bool.not_true, Bool.not_eq_false] at hc
    split <;> simp [hc]

theorem two_pow_eq (n : Nat) : 2 ^ n = 2 ^ (n % 64) * B ^ (n / 64) := by
  rw [B_eq, ← Nat.pow_mul, ← Nat.pow_add]
  congr 1
  have := Nat.div_add_mod n 64
  omega

theorem capOk_false_mono {cap : Option Nat} {m n : Nat} (h : m ≤ n) (hm : capOk cap m = false) :
    capOk cap n = false := by
  cases hn : capOk cap n with
  | false => rfl
  | true => rw [capOk_mono h hn] at hm; exact absurd hm (by simp)

/-- "has no superfluous high zero limb", expressed on the value -/
def TopNZ (x : Big) : Prop := x ≠ [] ∧ B ^ (x.length - 1) ≤ toNat x

theorem TopNZ_of_normalized {x : Big} (hn : isNormalized x = true) (hne : x ≠ []) : TopNZ x :=
  ⟨hne, toNat_ge_of_normalized hn hne⟩

theorem shl_spec {cap : Option Nat} {x r : Big} {n : Nat} (hx : AllLt x)
    (hcap : capOk cap x.length = true) (h : shl cap x n = some r) :
    toNat r = toNat x * 2 ^ n ∧ AllLt r ∧ capOk cap r.length = true := by
  unfold shl at h
  simp only at h
  rw [two_pow_eq n]
  have hr : n % 64 < 64 := Nat.mod_lt _ (by omega)
  split at h
  · simp at h
  · next x1 hx1 =>
    have h1 : toNat x1 = toNat x * 2 ^ (n % 64) ∧ AllLt x1 ∧ capOk cap x1.length = true := by
      split at hx1
      · next hrem =>
        obtain ⟨a, b, c, _⟩ := shlBits_spec (Nat.pos_of_ne_zero hrem) hr hx hcap hx1
        exact ⟨a, b, c⟩
      · next hrem =>
        simp only [ne_eq, Decidable.not_not] at hrem
        simp only [Option.some.injEq] at hx1
        subst hx1
        rw [hrem]; simp [hx, hcap]
    obtain ⟨a, b, c⟩ := h1
    split at h
    · obtain ⟨a', b', c', _⟩ := shlLimbs_spec b h
      refine ⟨?_, b', c'⟩
      rw [a', a]; ring
    · next hdiv =>
      simp only [ne_eq, Decidable.not_not] at hdiv
      simp only [Option.some.injEq] at h
      subst h
      rw [hdiv]; simp [a, b, c]

theorem shl_none {cap : Option Nat} {x : Big} {n : Nat} (hx : AllLt x)
    (hcap : capOk cap x.length = true) (h : shl cap x n = none) :
    capOk cap (x.length + 1 + n / 64) = false := by
  unfold shl at h
  simp only at h
  have hr : n % 64 < 64 := Nat.mod_lt _ (by omega)
  split at h
  · next hx1 =>
    split at hx1
    · next hrem =>
      rw [shlBits_none_iff (Nat.pos_of_ne_zero hrem) hr hx] at hx1
      exact capOk_false_mono (by omega) hx1.1
    · simp at hx1
  · next x1 hx1 =>
    have h1 : x1.length ≤ x.length + 1 := by
      split at hx1
      · next hrem =>
        obtain ⟨_, _, _, _, e, _⟩ := shlBits_spec (Nat.pos_of_ne_zero hrem) hr hx hcap hx1
        exact e
      · simp only [Option.some.injEq] at hx1
        subst hx1; omega
    split at h
    · rw [shlLimbs_none_iff] at h
      exact capOk_false_mono (by omega) h
    · simp at h

theorem shl_none_topNZ {cap : Option Nat} {x : Big} {n : Nat} (hx : AllLt x)
    (hcap : capOk cap x.length = true) (hn : TopNZ x) (h : shl cap x n = none) :
    ∃ c, cap = some c ∧ B ^ c ≤ toNat x * 2 ^ n := by
  unfold shl at h
  simp only at h
  have hr : n % 64 < 64 := Nat.mod_lt _ (by omega)
  rw [two_pow_eq n]
  have hpos : 0 < B ^ (n / 64) := Bpow_pos _
  have hxl : 0 < x.length := List.length_pos_iff.mpr hn.1
  split at h
  · next hx1 =>
    split at hx1
    · next hrem =>
      rw [shlBits_none_iff (Nat.pos_of_ne_zero hrem) hr hx] at hx1
      obtain ⟨c, hc, hlt⟩ := capOk_false_iff.mp hx1.1
      refine ⟨c, hc, ?_⟩
      have h1 := Bpow_le (show c ≤ x.length by omega)
      have h2 : toNat x * 2 ^ (n % 64) * 1 ≤ toNat x * 2 ^ (n % 64) * B ^ (n / 64) :=
        Nat.mul_le_mul_left _ hpos
      rw [← Nat.mul_assoc]
      have := hx1.2
      omega
    · simp at hx1
  · next x1 hx1 =>
    have h1 : toNat x1 = toNat x * 2 ^ (n % 64) ∧ 0 < x1.length ∧ B ^ (x1.length - 1) ≤ toNat x1 := by
      split at hx1
      · next hrem =>
        obtain ⟨a, _, _, d, e, f⟩ := shlBits_spec (Nat.pos_of_ne_zero hrem) hr hx hcap hx1
        refine ⟨a, by omega, ?_⟩
        by_cases hl : x1.length = x.length + 1
        · have := f hl
          rw [hl]; simpa using this
        · have e' : x1.length = x.length := by omega
          rw [e', a]
          have : toNat x * 1 ≤ toNat x * 2 ^ (n % 64) := Nat.mul_le_mul_left _ (Nat.two_pow_pos _)
          have := hn.2
          omega
      · simp only [Option.some.injEq] at hx1
        subst hx1
        next hrem =>
        simp only [ne_eq, Decidable.not_not] at hrem
        rw [hrem]; simp [hxl, hn.2]
    obtain ⟨a, b, c⟩ := h1
    split at h
    · rw [shlLimbs_none_iff] at h
      obtain ⟨c', hc, hlt⟩ := capOk_false_iff.mp h
      refine ⟨c', hc, ?_⟩
      rw [← Nat.mul_assoc, ← a]
      have h1 := Bpow_le (show c' ≤ (x1.length - 1) + n / 64 by omega)
      rw [Nat.pow_add] at h1
      have := Nat.mul_le_mul_right (B ^ (n / 64)) c
      omega
    · simp at h

-- ---------------------------------------------------------------- longMul
theorem smallMul_topNZ {cap : Option Nat} {x r : Big} {y : Nat}
    (hn : TopNZ x) (hy0 : y ≠ 0) (h : smallMul cap x y = some r) : TopNZ r := by
  have h1 := smallMulAux_length y x 0
  have h2 := smallMulAux_spec y x 0
  have hxl : 0 < x.length := List.length_pos_iff.mpr hn.1
  have hge : toNat x * 1 ≤ toNat x * y := Nat.mul_le_mul_left _ (Nat.pos_of_ne_zero hy0)
  have := hn.2
  unfold smallMul at h
  simp only at h
  split at h
  · next hz =>
    obtain ⟨rfl, hc⟩ := vecTryPush_some h
    refine ⟨by simp, ?_⟩
    rw [toNat_append, toNat_singleton, h1, List.length_append, h1]
    have : B ^ x.length * 1 ≤ B ^ x.length * (smallMulAux y 0 x).2 :=
      Nat.mul_le_mul_left _ (Nat.pos_of_ne_zero hz)
    simp only [List.length_cons, List.length_nil, Nat.zero_add, Nat.add_sub_cancel]
    omega
  · next hz =>
    simp only [ne_eq, Decidable.not_not] at hz
    simp only [Option.some.injEq] at h
    subst h
    rw [hz] at h2
    refine ⟨?_, ?_⟩
    · intro h0; rw [h0] at h1; simp at h1; omega
    · rw [h1]; omega

theorem longMulLoop_spec {cap : Option Nat} {x : Big} (hx : AllLt x) :
    ∀ {ys : List Nat} {index : Nat} {z r : Big}, AllLt ys → AllLt z → capOk cap z.length = true →
    longMulLoop cap x ys index z = some r →
    toNat r = toNat z + toNat x * toNat ys * B ^ index ∧ AllLt r ∧ capOk cap r.length = true := by
  intro ys
  induction ys with
  | nil =>
    intro index z r _ hz hc h
    simp only [longMulLoop, Option.some.injEq] at h
    subst h
    simp [toNat, hz, hc]
  | cons yi ys ih =>
    intro index z r hys hz hc h
    rw [AllLt_cons] at hys
    simp only [longMulLoop] at h
    split at h
    · next hyi =>
      split at h
      · simp at h
      · next zi0 h0 =>
        obtain ⟨rfl, hcx⟩ := vecTryFrom_some h0
        split at h
        · simp at h
        · next zi h1 =>
          obtain ⟨m1, m2, m3, _⟩ := smallMul_spec hx hys.1 hcx h1
          split at h
          · simp at h
          · next z' h2 =>
            obtain ⟨a1, a2, a3, _⟩ := largeAddFrom_spec hz m2 hc h2
            obtain ⟨r1, r2, r3⟩ := ih hys.2 a2 a3 h
            refine ⟨?_, r2, r3⟩
            rw [r1, a1, m1, toNat_cons, Nat.pow_succ]; ring
    · next hyi =>
      simp only [ne_eq, Decidable.not_not] at hyi
      obtain ⟨r1, r2, r3⟩ := ih hys.2 hz hc h
      refine ⟨?_, r2, r3⟩
      rw [r1, toNat_cons, hyi, Nat.pow_succ]; ring

theorem longMul_spec {cap : Option Nat} {x y r : Big} (hx : AllLt x) (hy : AllLt y) (hy0 : y ≠ [])
    (h : longMul cap x y = some r) :
    toNat r = toNat x * toNat y ∧ AllLt r ∧ capOk cap r.length = true ∧
    isNormalized r = true := by
  unfold longMul at h
  split at h
  · simp at h
  · next z0 h0 =>
    obtain ⟨rfl, hcx⟩ := vecTryFrom_some h0
    cases y with
    | nil => exact absurd rfl hy0
    | cons y0 ys =>
      rw [AllLt_cons] at hy
      simp only at h
      split at h
      · simp at h
      · next z1 h1 =>
        obtain ⟨m1, m2, m3, _⟩ := smallMul_spec hx hy.1 hcx h1
        split at h
        · simp at h
        · next z h2 =>
          obtain ⟨r1, r2, r3⟩ := longMulLoop_spec hx hy.2 m2 m3 h2
          simp only [Option.some.injEq] at h
          subst h
          refine ⟨?_, normalize_allLt r2, normalize_capOk r3, normalize_isNormalized _⟩
          rw [normalize_toNat, r1, m1, toNat_cons]; ring

theorem longMul_nil (cap : Option Nat) (x : Big) (h : capOk cap x.length = true) :
    longMul cap x [] = some (normalize x) := by
  simp [longMul, vecTryFrom, vecTryExtend, h]

theorem mul_limb_bound {p b x y : Nat} (hx : x < p) (hy : y < b) : x * y + p ≤ p * b := by
  obtain ⟨p', rfl⟩ : ∃ p', p = p' + 1 := ⟨p - 1, by omega⟩
  obtain ⟨b', rfl⟩ : ∃ b', b = b' + 1 := ⟨b - 1, by omega⟩
  have : x * y ≤ p' * b' := Nat.mul_le_mul (by omega) (by omega)
  have e : (p' + 1) * (b' + 1) = p' * b' + p' + b' + 1 := by ring
  omega

/-- the loop of `longMul` succeeds when `x.length + y.length` limbs are available -/
theorem longMulLoop_some {cap : Option Nat} {x : Big} (hx : AllLt x) :
    ∀ {ys : List Nat} {index : Nat} {z : Big}, AllLt ys → AllLt z → capOk cap z.length = true →
    capOk cap (x.length + index + ys.length) = true → toNat z < B ^ (x.length + index) →
    ∃ r, longMulLoop cap x ys index z = some r := by
  intro ys
  induction ys with
  | nil => intro index z _ _ _ _ _; exact ⟨z, rfl⟩
  | cons yi ys ih =>
    intro index z hys hz hc hN hlt
    rw [AllLt_cons] at hys
    simp only [longMulLoop]
    simp only [List.length_cons] at hN
    have hN' : capOk cap (x.length + (index + 1) + ys.length) = true := by
      have : x.length + (index + 1) + ys.length = x.length + index + (ys.length + 1) := by omega
      rw [this]; exact hN
    have hlt' : toNat z < B ^ (x.length + (index + 1)) :=
      Nat.lt_of_lt_of_le hlt (Bpow_le (by omega))
    split
    · next hyi =>
      have hcx : capOk cap x.length = true := capOk_mono (by omega) hN
      have h0 : vecTryFrom cap x = some x := by
        simp [vecTryFrom, vecTryExtend, hcx]
      rw [h0]
      simp only
      cases h1 : smallMul cap x yi with
      | none =>
        rw [smallMul_none_iff] at h1
        rw [capOk_mono (by omega) hN] at h1
        simp at h1
      | some zi =>
        simp only
        obtain ⟨m1, m2, m3, m4, m5⟩ := smallMul_spec hx hys.1 hcx h1
        have hbound : toNat z + toNat zi * B ^ index < B ^ (x.length + (index + 1)) := by
          have hb := mul_limb_bound (toNat_lt hx) hys.1
          have := Nat.mul_le_mul_right (B ^ index) hb
          rw [Nat.add_mul] at this
          have e : B ^ x.length * B * B ^ index = B ^ (x.length + (index + 1)) := by
            rw [Nat.pow_add, Nat.pow_succ]; ring
          have e2 : B ^ x.length * B ^ index = B ^ (x.length + index) := by rw [Nat.pow_add]
          rw [e, e2] at this
          rw [m1]; omega
        cases h2 : largeAddFrom cap z zi index with
        | none =>
          exfalso
          by_cases hzi : zi = []
          · subst hzi; rw [largeAddFrom_nil] at h2; simp at h2
          · rw [largeAddFrom_none_iff hz m2 hzi] at h2
            rcases h2 with ⟨h2, _⟩ | ⟨h2, h3⟩
            · rw [capOk_mono (by omega) hN] at h2; simp at h2
            · obtain ⟨c, hcc, hgt⟩ := capOk_false_iff.mp h2
              subst hcc
              rw [capOk_some] at hN
              have := Bpow_le (show x.length + (index + 1) ≤ max z.length (zi.length + index)
                by omega)
              omega
        | some z' =>
          simp only
          obtain ⟨a1, a2, a3, _⟩ := largeAddFrom_spec hz m2 hc h2
          exact ih hys.2 a2 a3 hN' (by rw [a1]; exact hbound)
    · exact ih hys.2 hz hc hN' hlt'

theorem longMul_some {cap : Option Nat} {x y : Big} (hx : AllLt x) (hy : AllLt y)
    (hN : capOk cap (x.length + y.length) = true) : ∃ r, longMul cap x y = some r := by
  unfold longMul
  have hcx : capOk cap x.length = true := capOk_mono (by omega) hN
  have h0 : vecTryFrom cap x = some x := by simp [vecTryFrom, vecTryExtend, hcx]
  rw [h0]
  simp only
  cases y with
  | nil => exact ⟨_, rfl⟩
  | cons y0 ys =>
    rw [AllLt_cons] at hy
    simp only [List.length_cons] at hN
    simp only
    cases h1 : smallMul cap x y0 with
    | none =>
      rw [smallMul_none_iff] at h1
      rw [capOk_mono (by omega) hN] at h1
      simp at h1
    | some z1 =>
      simp only
      obtain ⟨m1, m2, m3, _⟩ := smallMul_spec hx hy.1 hcx h1
      have hb := mul_limb_bound (toNat_lt hx) hy.1
      have := Bpow_pos x.length
      obtain ⟨z, hz⟩ := longMulLoop_some (cap := cap) hx hy.2 m2 m3
        (by rw [show x.length + 1 + ys.length = x.length + (ys.length + 1) by omega]; exact hN)
        (by rw [m1, Nat.pow_succ]; omega)
      rw [hz]
      exact ⟨_, rfl⟩

/-- if the loop of `longMul` fails, the exact product does not fit -/
theorem longMulLoop_none {cap : Option Nat} {x : Big} (hx : AllLt x) (hn : TopNZ x)
    (hcx : capOk cap x.length = true) :
    ∀ {ys : List Nat} {index : Nat} {z : Big}, AllLt ys → AllLt z → capOk cap z.length = true →
    longMulLoop cap x ys index z = none →
    ∃ c, cap = some c ∧ B ^ c ≤ toNat z + toNat x * toNat ys * B ^ index := by
  intro ys
  induction ys with
  | nil => intro index z _ _ _ h; simp [longMulLoop] at h
  | cons yi ys ih =>
    intro index z hys hz hc h
    rw [AllLt_cons] at hys
    simp only [longMulLoop] at h
    have hxl : 0 < x.length := List.length_pos_iff.mpr hn.1
    have hBi : 0 < B ^ index := Bpow_pos _
    -- the contribution of limb `yi` is bounded by the whole remaining product
    have hmono : toNat x * yi * B ^ index ≤ toNat x * toNat (yi :: ys) * B ^ index := by
      apply Nat.mul_le_mul_right
      apply Nat.mul_le_mul_left
      rw [toNat_cons]; omega
    split at h
    · next hyi =>
      have h0 : vecTryFrom cap x = some x := by simp [vecTryFrom, vecTryExtend, hcx]
      rw [h0] at h
      simp only at h
      split at h
      · next h1 =>
        rw [smallMul_none_iff] at h1
        obtain ⟨c, hcc, hgt⟩ := capOk_false_iff.mp h1.1
        refine ⟨c, hcc, ?_⟩
        have := Bpow_le (show c ≤ x.length by omega)
        have : toNat x * yi * 1 ≤ toNat x * yi * B ^ index := Nat.mul_le_mul_left _ hBi
        have := h1.2
        omega
      · next zi h1 =>
        obtain ⟨m1, m2, m3, _⟩ := smallMul_spec hx hys.1 hcx h1
        have mt := smallMul_topNZ hn hyi h1
        split at h
        · next h2 =>
          rw [largeAddFrom_none_iff hz m2 mt.1] at h2
          rcases h2 with ⟨h2, _⟩ | ⟨h2, h3⟩
          · obtain ⟨c, hcc, hgt⟩ := capOk_false_iff.mp h2
            refine ⟨c, hcc, ?_⟩
            have h4 := Bpow_le (show c ≤ (zi.length - 1) + index by omega)
            rw [Nat.pow_add] at h4
            have := Nat.mul_le_mul_right (B ^ index) mt.2
            rw [m1] at this
            omega
          · obtain ⟨c, hcc, hgt⟩ := capOk_false_iff.mp h2
            refine ⟨c, hcc, ?_⟩
            have := Bpow_le (show c ≤ max z.length (zi.length + index) by omega)
            rw [m1] at h3
            omega
        · next z' h2 =>
          obtain ⟨a1, a2, a3, _⟩ := largeAddFrom_spec hz m2 hc h2
          obtain ⟨c, hcc, hge⟩ := ih hys.2 a2 a3 h
          refine ⟨c, hcc, ?_⟩
          have e : toNat z' + toNat x * toNat ys * B ^ (index + 1) =
              toNat z + toNat x * toNat (yi :: ys) * B ^ index := by
            rw [a1, m1, toNat_cons, Nat.pow_succ]; ring
          omega
    · next hyi =>
      simp only [ne_eq, Decidable.not_not] at hyi
      obtain ⟨c, hcc, hge⟩ := ih hys.2 hz hc h
      refine ⟨c, hcc, ?_⟩
      have e : toNat z + toNat x * toNat ys * B ^ (index + 1) =
          toNat z + toNat x * toNat (yi :: ys) * B ^ index := by
        rw [toNat_cons, hyi, Nat.pow_succ]; ring
      omega

theorem longMul_none_topNZ {cap : Option Nat} {x y : Big} (hx : AllLt x) (hy : AllLt y)
    (hn : TopNZ x) (hy0 : 0 < toNat y) (h : longMul cap x y = none) :
    ∃ c, cap = some c ∧ B ^ c ≤ toNat x * toNat y := by
  unfold longMul at h
  have hxy : toNat x * 1 ≤ toNat x * toNat y := Nat.mul_le_mul_left _ hy0
  split at h
  · next h0 =>
    rw [vecTryFrom_none] at h0
    obtain ⟨c, hcc, hgt⟩ := capOk_false_iff.mp h0
    refine ⟨c, hcc, ?_⟩
    have := Bpow_le (show c ≤ x.length - 1 by omega)
    have := hn.2
    omega
  · next z0 h0 =>
    obtain ⟨rfl, hcx⟩ := vecTryFrom_some h0
    cases y with
    | nil => simp at h
    | cons y0 ys =>
      rw [AllLt_cons] at hy
      simp only at h
      split at h
      · next h1 =>
        rw [smallMul_none_iff] at h1
        obtain ⟨c, hcc, hgt⟩ := capOk_false_iff.mp h1.1
        refine ⟨c, hcc, ?_⟩
        have := Bpow_le (show c ≤ z0.length by omega)
        have : toNat z0 * y0 ≤ toNat z0 * toNat (y0 :: ys) := by
          apply Nat.mul_le_mul_left; rw [toNat_cons]; omega
        have := h1.2
        omega
      · next z1 h1 =>
        obtain ⟨m1, m2, m3, _⟩ := smallMul_spec hx hy.1 hcx h1
        split at h
        · next h2 =>
          obtain ⟨c, hcc, hge⟩ := longMulLoop_none hx hn hcx hy.2 m2 m3 h2
          refine ⟨c, hcc, ?_⟩
          have e : toNat z1 + toNat z0 * toNat ys * B ^ 1 = toNat z0 * toNat (y0 :: ys) := by
            rw [m1, toNat_cons]; ring
          omega
        · simp at h

-- ---------------------------------------------------------------- largeMul
theorem largeMul_spec {cap : Option Nat} {x y r : Big} (hx : AllLt x) (hy : AllLt y)
    (hx0 : x ≠ []) (hcap : capOk cap x.length = true) (h : largeMul cap x y = some r) :
    toNat r = toNat x * toNat y ∧ AllLt r ∧ capOk cap r.length = true := by
  unfold largeMul at h
  split at h
  · next y0 =>
    obtain ⟨a, b, c, _⟩ := smallMul_spec hx (AllLt_singleton.mp hy) hcap h
    exact ⟨by rw [a, toNat_singleton], b, c⟩
  · obtain ⟨a, b, c, _⟩ := longMul_spec hy hx hx0 h
    exact ⟨by rw [a, Nat.mul_comm], b, c⟩

theorem largeMul_some {cap : Option Nat} {x y : Big} (hx : AllLt x) (hy : AllLt y)
    (hN : capOk cap (x.length + y.length) = true) : ∃ r, largeMul cap x y = some r := by
  unfold largeMul
  split
  · next y0 =>
    cases h1 : smallMul cap x y0 with
    | none =>
      rw [smallMul_none_iff] at h1
      simp only [List.length_cons, List.length_nil, Nat.zero_add] at hN
      rw [hN] at h1; simp at h1
    | some r => exact ⟨r, rfl⟩
  · exact longMul_some hy hx (by rw [Nat.add_comm]; exact hN)

theorem largeMul_none_topNZ {cap : Option Nat} {x y : Big} (hx : AllLt x) (hy : AllLt y)
    (hnx : TopNZ x) (hny : TopNZ y) (h : largeMul cap x y = none) :
    ∃ c, cap = some c ∧ B ^ c ≤ toNat x * toNat y := by
  unfold largeMul at h
  split at h
  · next y0 =>
    rw [smallMul_none_iff] at h
    obtain ⟨c, hcc, hgt⟩ := capOk_false_iff.mp h.1
    refine ⟨c, hcc, ?_⟩
    have := Bpow_le (show c ≤ x.length by omega)
    rw [toNat_singleton]
    have := h.2
    omega
  · have hxpos : 0 < toNat x := Nat.lt_of_lt_of_le (Bpow_pos _) hnx.2
    obtain ⟨c, hcc, hge⟩ := longMul_none_topNZ hy hx hny hxpos h
    exact ⟨c, hcc, by rw [Nat.mul_comm]; exact hge⟩

/-- the result of `largeMul` on non-zero operands again has a non-zero top limb -/
theorem largeMul_topNZ {cap : Option Nat} {x y r : Big} (hx : AllLt x) (hy : AllLt y)
    (hnx : TopNZ x) (hny : TopNZ y) (h : largeMul cap x y = some r) : TopNZ r := by
  have hxpos : 0 < toNat x := Nat.lt_of_lt_of_le (Bpow_pos _) hnx.2
  have hypos : 0 < toNat y := Nat.lt_of_lt_of_le (Bpow_pos _) hny.2
  unfold largeMul at h
  split at h
  · next y0 =>
    rw [toNat_singleton] at hypos
    exact smallMul_topNZ hnx (by omega) h
  · obtain ⟨a, _, _, d⟩ := longMul_spec hy hx hnx.1 h
    have hpos : 0 < toNat r := by rw [a]; exact Nat.mul_pos hypos hxpos
    have hne : r ≠ [] := by intro h0; subst h0; simp [toNat] at hpos
    exact TopNZ_of_normalized d hne

-- ---------------------------------------------------------------- pow
/-- what `pow` needs from the tables of a non-compact build -/
structure PowTablesOK (T : PowTables) : Prop where
  large_val : toNat T.largePow5 = 5 ^ T.largePow5Step
  large_lt : AllLt T.largePow5
  large_norm : isNormalized T.largePow5 = true
  small : ∀ i, i < 27 → T.smallIntPow5.getD i 0 = 5 ^ i

theorem five_pow_lt {e : Nat} (h : e ≤ 27) : 5 ^ e < B := by
  have : 5 ^ e ≤ 5 ^ 27 := Nat.pow_le_pow_right (by omega) h
  have : (5 : Nat) ^ 27 < B := by unfold B; norm_num
  omega

theorem PowTablesOK.topNZ {T : PowTables} (h : PowTablesOK T) : TopNZ T.largePow5 := by
  apply TopNZ_of_normalized h.large_norm
  intro h0
  have := h.large_val
  rw [h0] at this
  have := Nat.pow_pos (n := T.largePow5Step) (show 0 < 5 by omega)
  simp only [toNat] at *
  omega

theorem powLargeLoop_spec {cap : Option Nat} {T : PowTables} (hT : PowTablesOK T) :
    ∀ (fuel : Nat) {x x' : Big} {e e' : Nat}, AllLt x → toNat x ≠ 0 →
    capOk cap x.length = true → powLargeLoop cap T fuel x e = some (x', e') →
    toNat x' * 5 ^ e' = toNat x * 5 ^ e ∧ AllLt x' ∧ toNat x' ≠ 0 ∧
    capOk cap x'.length = true ∧ (TopNZ x → TopNZ x') := by
  intro fuel
  induction fuel with
  | zero =>
    intro x x' e e' hx h0 hc h
    simp only [powLargeLoop, Option.some.injEq, Prod.mk.injEq] at h
    obtain ⟨rfl, rfl⟩ := h
    exact ⟨rfl, hx, h0, hc, id⟩
  | succ fuel ih =>
    intro x x' e e' hx h0 hc h
    simp only [powLargeLoop] at h
    split at h
    · next hge =>
      split at h
      · simp at h
      · next x1 h1 =>
        have hne : x ≠ [] := by intro hh; subst hh; simp [toNat] at h0
        obtain ⟨a, b, c⟩ := largeMul_spec hx hT.large_lt hne hc h1
        have h0' : toNat x1 ≠ 0 := by
          rw [a, hT.large_val]
          exact Nat.mul_ne_zero h0 (Nat.pow_pos (by omega)).ne'
        obtain ⟨r1, r2, r3, r4, r5⟩ := ih b h0' c h
        refine ⟨?_, r2, r3, r4, fun ht => r5 (largeMul_topNZ hx hT.large_lt ht hT.topNZ h1)⟩
        rw [r1, a, hT.large_val, Nat.mul_assoc, ← Nat.pow_add]
        congr 2; omega
    · simp only [Option.some.injEq, Prod.mk.injEq] at h
      obtain ⟨rfl, rfl⟩ := h
      exact ⟨rfl, hx, h0, hc, id⟩

theorem powLargeLoop_none {cap : Option Nat} {T : PowTables} (hT : PowTablesOK T) :
    ∀ (fuel : Nat) {x : Big} {e : Nat}, AllLt x → TopNZ x →
    capOk cap x.length = true → powLargeLoop cap T fuel x e = none →
    ∃ c, cap = some c ∧ B ^ c ≤ toNat x * 5 ^ e := by
  intro fuel
  induction fuel with
  | zero => intro x e _ _ _ h; simp [powLargeLoop] at h
  | succ fuel ih =>
    intro x e hx hn hc h
    simp only [powLargeLoop] at h
    split at h
    · next hge =>
      have hsplit : (5 : Nat) ^ e = 5 ^ T.largePow5Step * 5 ^ (e - T.largePow5Step) := by
        rw [← Nat.pow_add]; congr 1; omega
      split at h
      · next h1 =>
        obtain ⟨c, hcc, hle⟩ := largeMul_none_topNZ hx hT.large_lt hn hT.topNZ h1
        refine ⟨c, hcc, ?_⟩
        rw [hT.large_val] at hle
        rw [hsplit, ← Nat.mul_assoc]
        have : toNat x * 5 ^ T.largePow5Step * 1 ≤
            toNat x * 5 ^ T.largePow5Step * 5 ^ (e - T.largePow5Step) :=
          Nat.mul_le_mul_left _ (Nat.pow_pos (by omega))
        omega
      · next x1 h1 =>
        obtain ⟨a, b, c⟩ := largeMul_spec hx hT.large_lt hn.1 hc h1
        obtain ⟨c', hcc, hle⟩ := ih b (largeMul_topNZ hx hT.large_lt hn hT.topNZ h1) c h
        refine ⟨c', hcc, ?_⟩
        rw [a, hT.large_val, Nat.mul_assoc, ← hsplit] at hle
        exact hle
    · simp at h

theorem powSmallLoop_spec {cap : Option Nat} :
    ∀ (fuel : Nat) {x x' : Big} {e e' : Nat}, AllLt x →
    capOk cap x.length = true → powSmallLoop cap fuel x e = some (x', e') →
    toNat x' * 5 ^ e' = toNat x * 5 ^ e ∧ AllLt x' ∧
    capOk cap x'.length = true ∧ (TopNZ x → TopNZ x') ∧ (e < fuel → e' < 27) := by
  intro fuel
  induction fuel with
  | zero =>
    intro x x' e e' hx hc h
    simp only [powSmallLoop, Option.some.injEq, Prod.mk.injEq] at h
    obtain ⟨rfl, rfl⟩ := h
    exact ⟨rfl, hx, hc, id, by omega⟩
  | succ fuel ih =>
    intro x x' e e' hx hc h
    simp only [powSmallLoop] at h
    split at h
    · next hge =>
      split at h
      · simp at h
      · next x1 h1 =>
        obtain ⟨a, b, c, _⟩ := smallMul_spec hx (five_pow_lt (Nat.le_refl _)) hc h1
        obtain ⟨r1, r2, r3, r4, r5⟩ := ih b c h
        refine ⟨?_, r2, r3, fun ht => r4 (smallMul_topNZ ht (by norm_num) h1), fun _ => r5 (by omega)⟩
        rw [r1, a, Nat.mul_assoc, ← Nat.pow_add]
        congr 2; omega
    · next hlt =>
      simp only [Option.some.injEq, Prod.mk.injEq] at h
      obtain ⟨rfl, rfl⟩ := h
      exact ⟨rfl, hx, hc, id, fun _ => by omega⟩

theorem powSmallLoop_none {cap : Option Nat} :
    ∀ (fuel : Nat) {x : Big} {e : Nat}, AllLt x →
    capOk cap x.length = true → powSmallLoop cap fuel x e = none →
    ∃ c, cap = some c ∧ B ^ c ≤ toNat x * 5 ^ e := by
  intro fuel
  induction fuel with
  | zero => intro x e _ _ h; simp [powSmallLoop] at h
  | succ fuel ih =>
    intro x e hx hc h
    simp only [powSmallLoop] at h
    split at h
    · next hge =>
      have hsplit : (5 : Nat) ^ e = 5 ^ 27 * 5 ^ (e - 27) := by
        rw [← Nat.pow_add]; congr 1; omega
      split at h
      · next h1 =>
        rw [smallMul_none_iff] at h1
        obtain ⟨c, hcc, hgt⟩ := capOk_false_iff.mp h1.1
        refine ⟨c, hcc, ?_⟩
        have := Bpow_le (show c ≤ x.length by omega)
        rw [hsplit, ← Nat.mul_assoc]
        have : toNat x * 5 ^ 27 * 1 ≤ toNat x * 5 ^ 27 * 5 ^ (e - 27) :=
          Nat.mul_le_mul_left _ (Nat.pow_pos (by omega))
        have := h1.2
        omega
      · next x1 h1 =>
        obtain ⟨a, b, c, _⟩ := smallMul_spec hx (five_pow_lt (Nat.le_refl _)) hc h1
        obtain ⟨c', hcc, hle⟩ := ih b c h
        refine ⟨c', hcc, ?_⟩
        rw [a, Nat.mul_assoc, ← hsplit] at hle
        exact hle
    · simp at h

theorem intPow5_eq {T : PowTables} (hT : T.compact = false → PowTablesOK T) {e : Nat}
    (he : e < 27) : intPow5 T.compact T.smallIntPow5 e = 5 ^ e := by
  unfold intPow5
  cases hc : T.compact with
  | true => simp only [if_true]; exact Nat.mod_eq_of_lt (five_pow_lt (by omega))
  | false => simp only [Bool.false_eq_true, if_false]; exact (hT hc).small e he

theorem pow_stage1 {cap : Option Nat} {T : PowTables} (hT : T.compact = false → PowTablesOK T)
    {x x1 : Big} {e e1 : Nat} (hx : AllLt x)
    (h0 : toNat x ≠ 0 ∨ T.compact = true ∨ e < T.largePow5Step)
    (hc : capOk cap x.length = true)
    (h : (if T.compact then some (x, e) else powLargeLoop cap T (e + 1) x e) = some (x1, e1)) :
    toNat x1 * 5 ^ e1 = toNat x * 5 ^ e ∧ AllLt x1 ∧ capOk cap x1.length = true ∧
    (TopNZ x → TopNZ x1) := by
  cases hcm : T.compact with
  | true =>
    rw [hcm] at h
    simp only [if_true, Option.some.injEq, Prod.mk.injEq] at h
    obtain ⟨rfl, rfl⟩ := h
    exact ⟨rfl, hx, hc, id⟩
  | false =>
    rw [hcm] at h
    simp only [Bool.false_eq_true, if_false] at h
    rcases h0 with h0 | h0 | h0
    · obtain ⟨a, b, _, d, e⟩ := powLargeLoop_spec (hT hcm) _ hx h0 hc h
      exact ⟨a, b, d, e⟩
    · rw [hcm] at h0; exact absurd h0 (by simp)
    · have hn : ¬ (T.largePow5Step ≠ 0 ∧ e ≥ T.largePow5Step) := by omega
      simp only [powLargeLoop, hn, if_false, Option.some.injEq, Prod.mk.injEq] at h
      obtain ⟨rfl, rfl⟩ := h
      exact ⟨rfl, hx, hc, id⟩

theorem pow_spec {cap : Option Nat} {T : PowTables} (hT : T.compact = false → PowTablesOK T)
    {x r : Big} {e : Nat} (hx : AllLt x)
    (h0 : toNat x ≠ 0 ∨ T.compact = true ∨ e < T.largePow5Step)
    (hc : capOk cap x.length = true) (h : pow cap T x e = some r) :
    toNat r = toNat x * 5 ^ e ∧ AllLt r ∧ capOk cap r.length = true ∧ (TopNZ x → TopNZ r) := by
  unfold pow at h
  simp only at h
  split at h
  · simp at h
  · next x1 e1 h1 =>
    obtain ⟨a1, a2, a3, a4⟩ := pow_stage1 hT hx h0 hc h1
    split at h
    · simp at h
    · next x2 e2 h2 =>
      obtain ⟨b1, b2, b3, b4, b5⟩ := powSmallLoop_spec _ a2 a3 h2
      have he2 : e2 < 27 := b5 (by omega)
      split at h
      · next hne =>
        rw [intPow5_eq hT he2] at h
        obtain ⟨c1, c2, c3, _⟩ := smallMul_spec b2 (five_pow_lt (by omega)) b3 h
        refine ⟨by rw [c1, b1, a1], c2, c3, fun ht => ?_⟩
        exact smallMul_topNZ (b4 (a4 ht)) (Nat.pow_pos (by omega)).ne' h
      · next hz =>
        simp only [ne_eq, Decidable.not_not] at hz
        simp only [Option.some.injEq] at h
        subst h
        subst hz
        refine ⟨by rw [← a1, ← b1]; simp, b2, b3, fun ht => b4 (a4 ht)⟩

theorem pow_none_topNZ {cap : Option Nat} {T : PowTables} (hT : T.compact = false → PowTablesOK T)
    {x : Big} {e : Nat} (hx : AllLt x) (hn : TopNZ x) (hc : capOk cap x.length = true)
    (h : pow cap T x e = none) : ∃ c, cap = some c ∧ B ^ c ≤ toNat x * 5 ^ e := by
  have h0 : toNat x ≠ 0 := (Nat.lt_of_lt_of_le (Bpow_pos _) hn.2).ne'
  unfold pow at h
  simp only at h
  split at h
  · next h1 =>
    cases hcm : T.compact with
    | true => rw [hcm] at h1; simp at h1
    | false =>
      rw [hcm] at h1
      simp only [Bool.false_eq_true, if_false] at h1
      exact powLargeLoop_none (hT hcm) _ hx hn hc h1
  · next x1 e1 h1 =>
    obtain ⟨a1, a2, a3, a4⟩ := pow_stage1 hT hx (Or.inl h0) hc h1
    split at h
    · next h2 =>
      obtain ⟨c, hcc, hle⟩ := powSmallLoop_none _ a2 a3 h2
      exact ⟨c, hcc, by rw [← a1]; exact hle⟩
    · next x2 e2 h2 =>
      obtain ⟨b1, b2, b3, b4, b5⟩ := powSmallLoop_spec _ a2 a3 h2
      have he2 : e2 < 27 := b5 (by omega)
      split at h
      · rw [intPow5_eq hT he2, smallMul_none_iff] at h
        obtain ⟨c, hcc, hgt⟩ := capOk_false_iff.mp h.1
        refine ⟨c, hcc, ?_⟩
        have := Bpow_le (show c ≤ x2.length by omega)
        have := h.2
        rw [← a1, ← b1]; omega
      · simp at h

theorem bigintPow_spec {cap : Option Nat} {T : PowTables}
    (hT : T.compact = false → PowTablesOK T) {x r : Big} {base e : Nat}
    (hb : base = 2 ∨ base = 5 ∨ base = 10) (hx : AllLt x) (h0 : toNat x ≠ 0)
    (hc : capOk cap x.length = true) (h : bigintPow cap T x base e = some r) :
    toNat r = toNat x * base ^ e ∧ AllLt r ∧ capOk cap r.length = true := by
  unfold bigintPow at h
  rcases hb with rfl | rfl | rfl
  · simp only [Nat.reduceMod, OfNat.ofNat_ne_zero, if_false, if_true] at h
    exact shl_spec hx hc h
  · simp only [Nat.reduceMod, if_true, Nat.reduceEqDiff, if_false] at h
    split at h
    · simp at h
    · next x1 h1 =>
      simp only [Option.some.injEq] at h
      subst h
      obtain ⟨a, b, c, _⟩ := pow_spec hT hx (Or.inl h0) hc h1
      exact ⟨a, b, c⟩
  · simp only [Nat.reduceMod, if_true] at h
    split at h
    · simp at h
    · next x1 h1 =>
      obtain ⟨a, b, c, _⟩ := pow_spec hT hx (Or.inl h0) hc h1
      obtain ⟨a', b', c'⟩ := shl_spec b c h
      refine ⟨?_, b', c'⟩
      rw [a', a, Nat.mul_assoc, ← Nat.mul_pow]

theorem bigintPow_none_topNZ {cap : Option Nat} {T : PowTables}
    (hT : T.compact = false → PowTablesOK T) {x : Big} {base e : Nat}
    (hb : base = 2 ∨ base = 5 ∨ base = 10) (hx : AllLt x) (hn : TopNZ x)
    (hc : capOk cap x.length = true) (h : bigintPow cap T x base e = none) :
    ∃ c, cap = some c ∧ B ^ c ≤ toNat x * base ^ e := by
  have h0 : toNat x ≠ 0 := (Nat.lt_of_lt_of_le (Bpow_pos _) hn.2).ne'
  unfold bigintPow at h
  rcases hb with rfl | rfl | rfl
  · simp only [Nat.reduceMod, OfNat.ofNat_ne_zero, if_false, if_true] at h
    exact shl_none_topNZ hx hc hn h
  · simp only [Nat.reduceMod, if_true, Nat.reduceEqDiff, if_false] at h
    split at h
    · next h1 => exact pow_none_topNZ hT hx hn hc h1
    · simp at h
  · simp only [Nat.reduceMod, if_true] at h
    split at h
    · next h1 =>
      obtain ⟨c, hcc, hle⟩ := pow_none_topNZ hT hx hn hc h1
      refine ⟨c, hcc, ?_⟩
      have : toNat x * 5 ^ e ≤ toNat x * 10 ^ e :=
        Nat.mul_le_mul_left _ (Nat.pow_le_pow_left (by omega) _)
      omega
    · next x1 h1 =>
      obtain ⟨a, b, c, d⟩ := pow_spec hT hx (Or.inl h0) hc h1
      obtain ⟨c', hcc, hle⟩ := shl_none_topNZ b c (d hn) h
      refine ⟨c', hcc, ?_⟩
      rw [a, Nat.mul_assoc, ← Nat.mul_pow] at hle
      exact hle

-- ---------------------------------------------------------------- bitLength / hi64
theorem Bpow_eq (k : Nat) : B ^ k = 2 ^ (64 * k) := by rw [B_eq, ← Nat.pow_mul]

theorem log2_lt_64 {v : Nat} (h0 : v ≠ 0) (hv : v < B) : Nat.log2 v < 64 := by
  rw [Nat.log2_lt h0, ← B_eq]; exact hv

theorem clz64_eq {v : Nat} (h0 : v ≠ 0) : clz64 v = 63 - Nat.log2 v := by
  simp [clz64, h0]

/-- value bounds of a limb list in terms of its top limb -/
theorem log2_toNat_concat {ys : Big} {v : Nat} (hys : AllLt ys) (h0 : v ≠ 0) :
    Nat.log2 (toNat (ys ++ [v])) = 64 * ys.length + Nat.log2 v := by
  have hlt := toNat_lt hys
  have h1 := Nat.log2_self_le h0
  have h2 := @Nat.lt_log2_self v
  have hpos := Bpow_pos ys.length
  rw [toNat_append, toNat_singleton]
  have hne : toNat ys + B ^ ys.length * v ≠ 0 := by
    have : B ^ ys.length * 1 ≤ B ^ ys.length * v := Nat.mul_le_mul_left _ (Nat.pos_of_ne_zero h0)
    omega
  rw [Nat.log2_eq_iff hne]
  have e1 : 2 ^ (64 * ys.length + Nat.log2 v) = B ^ ys.length * 2 ^ Nat.log2 v := by
    rw [Nat.pow_add, Bpow_eq]
  have e2 : 2 ^ (64 * ys.length + Nat.log2 v + 1) = B ^ ys.length * 2 ^ (Nat.log2 v + 1) := by
    rw [Nat.add_assoc, Nat.pow_add, Bpow_eq]
  rw [e1, e2]
  have a1 := Nat.mul_le_mul_left (B ^ ys.length) h1
  have a2 : B ^ ys.length * (v + 1) ≤ B ^ ys.length * 2 ^ (Nat.log2 v + 1) :=
    Nat.mul_le_mul_left _ h2
  rw [Nat.mul_add] at a2
  omega

theorem bitLength_concat {ys : Big} {v : Nat} (h0 : v ≠ 0) (hv : v < B) :
    bitLength (ys ++ [v]) = 64 * ys.length + Nat.log2 v + 1 := by
  unfold bitLength leadingZeros
  have := log2_lt_64 h0 hv
  simp only [List.getLast?_concat, List.length_append, List.length_cons, List.length_nil,
    clz64_eq h0]
  omega

/-- a normalised non-empty list splits into a prefix and a non-zero top limb -/
theorem exists_concat_of_normalized {x : Big} (hn : isNormalized x = true) (hne : x ≠ []) :
    ∃ ys v, x = ys ++ [v] ∧ v ≠ 0 := by
  rw [isNormalized_iff] at hn
  cases h : x.getLast? with
  | none => simp at h; exact absurd h hne
  | some v =>
    obtain ⟨ys, rfl⟩ := List.getLast?_eq_some_iff.mp h
    refine ⟨ys, v, rfl, ?_⟩
    intro hv; subst hv; exact hn h

theorem bitLength_spec {x : Big} (hx : AllLt x) (hn : isNormalized x = true) (hne : x ≠ []) :
    bitLength x = Nat.log2 (toNat x) + 1 := by
  obtain ⟨ys, v, rfl, h0⟩ := exists_concat_of_normalized hn hne
  rw [AllLt_append, AllLt_singleton] at hx
  rw [bitLength_concat h0 hx.2, log2_toNat_concat hx.1 h0]

theorem bne_zero_eq_decide {a b : Nat} (h : a = 0 ↔ b = 0) : (a != 0) = decide (b ≠ 0) := by
  by_cases hb : b = 0
  · have := h.mpr hb; simp [this, hb]
  · have : a ≠ 0 := fun ha => hb (h.mp ha)
    simp [this, hb]

theorem u64ToHi64_1_spec {r0 : Nat} (h0 : r0 ≠ 0) (hr : r0 < B) :
    u64ToHi64_1 r0 = (r0 * 2 ^ (63 - Nat.log2 r0), false) := by
  unfold u64ToHi64_1
  have hl := log2_lt_64 h0 hr
  rw [clz64_eq h0, shl64_eq _ (by omega : 63 - Nat.log2 r0 < 64)]
  congr 1
  apply Nat.mod_eq_of_lt
  have h2 := @Nat.lt_log2_self r0
  have : r0 * 2 ^ (63 - Nat.log2 r0) < 2 ^ (Nat.log2 r0 + 1) * 2 ^ (63 - Nat.log2 r0) :=
    Nat.mul_lt_mul_of_pos_right h2 (Nat.two_pow_pos _)
  rw [← Nat.pow_add, show Nat.log2 r0 + 1 + (63 - Nat.log2 r0) = 64 by omega, ← B_eq] at this
  exact this

theorem u64ToHi64_2_spec {r0 r1 : Nat} (h0 : r0 ≠ 0) (hr0 : r0 < B) (hr1 : r1 < B) :
    (u64ToHi64_2 r0 r1).1 = (r1 + B * r0) / 2 ^ (Nat.log2 r0 + 1) ∧
    (u64ToHi64_2 r0 r1).2 = decide ((r1 + B * r0) % 2 ^ (Nat.log2 r0 + 1) ≠ 0) := by
  unfold u64ToHi64_2
  have hl := log2_lt_64 h0 hr0
  have h2 := @Nat.lt_log2_self r0
  simp only [clz64_eq h0]
  by_cases hls : 63 - Nat.log2 r0 = 0
  · have hl63 : Nat.log2 r0 + 1 = 64 := by omega
    rw [hl63, ← B_eq]
    simp only [hls, if_true]
    constructor
    · rw [Nat.add_mul_div_left _ _ B_pos, Nat.div_eq_of_lt hr1]; simp
    · apply bne_zero_eq_decide
      rw [Nat.add_mul_mod_self_left, Nat.mod_eq_of_lt hr1, shl64_eq _ (by omega : 0 < 64)]
      simp [Nat.mod_eq_of_lt hr1]
  · simp only [hls, if_false]
    have hpos : 0 < 63 - Nat.log2 r0 := Nat.pos_of_ne_zero hls
    have hlt : 63 - Nat.log2 r0 < 64 := by omega
    have hrs : 64 - (63 - Nat.log2 r0) = Nat.log2 r0 + 1 := by omega
    have hB := two_pow_split (Nat.le_of_lt hlt)
    rw [hrs] at hB
    constructor
    · rw [shl_limb hpos hlt r0 hr1, hrs, Nat.mod_eq_of_lt h2, ← hB, Nat.mul_assoc,
        Nat.add_mul_div_left _ _ (Nat.two_pow_pos _)]
      rw [Nat.mul_comm r0]; omega
    · apply bne_zero_eq_decide
      rw [shl64_eq _ hlt, ← hB, Nat.mul_mod_mul_right, Nat.mul_assoc, Nat.add_mul_mod_self_left]
      have := Nat.two_pow_pos (63 - Nat.log2 r0)
      constructor
      · intro h
        rcases Nat.mul_eq_zero.mp h with h | h
        · exact h
        · omega
      · intro h; rw [h]; simp

theorem any_ne_zero_eq (lo : Big) : lo.any (· != 0) = decide (toNat lo ≠ 0) := by
  induction lo with
  | nil => simp [toNat]
  | cons a lo ih =>
    simp only [List.any_cons, ih, toNat]
    have := B_pos
    by_cases ha : a = 0
    · subst ha
      by_cases hl : toNat lo = 0
      · simp [hl]
      · have : B * toNat lo ≠ 0 := Nat.mul_ne_zero (by omega) hl
        simp [hl, this]
    · simp [ha]

/-- dividing by `B^m * Q` strips the low part -/
theorem low_part_div {lo : Big} (hlo : AllLt lo) (T Q : Nat) :
    (toNat lo + B ^ lo.length * T) / (B ^ lo.length * Q) = T / Q := by
  rw [← Nat.div_div_eq_div_mul, Nat.add_mul_div_left _ _ (Bpow_pos _),
    Nat.div_eq_of_lt (toNat_lt hlo)]
  simp

theorem low_part_mod {lo : Big} (hlo : AllLt lo) (T Q : Nat) :
    (toNat lo + B ^ lo.length * T) % (B ^ lo.length * Q) = toNat lo + B ^ lo.length * (T % Q) := by
  rw [Nat.mod_mul, Nat.add_mul_mod_self_left, Nat.mod_eq_of_lt (toNat_lt hlo),
    Nat.add_mul_div_left _ _ (Bpow_pos _), Nat.div_eq_of_lt (toNat_lt hlo)]
  simp

/-- the arithmetic content of `hi64` on a list with at least two limbs -/
theorem hi64_general {lo : Big} {r0 r1 : Nat} (hlo : AllLt lo) (h0 : r0 ≠ 0) (hr0 : r0 < B)
    (hr1 : r1 < B) :
    bitLength (lo ++ [r1, r0]) = 64 * lo.length + 64 + Nat.log2 r0 + 1 ∧
    (u64ToHi64_2 r0 r1).1 = toNat (lo ++ [r1, r0]) / 2 ^ (bitLength (lo ++ [r1, r0]) - 64) ∧
    ((u64ToHi64_2 r0 r1).2 || lo.any (· != 0)) =
      decide (toNat (lo ++ [r1, r0]) % 2 ^ (bitLength (lo ++ [r1, r0]) - 64) ≠ 0) := by
  have hbl : bitLength (lo ++ [r1, r0]) = 64 * lo.length + 64 + Nat.log2 r0 + 1 := by
    have : lo ++ [r1, r0] = (lo ++ [r1]) ++ [r0] := by simp
    rw [this, bitLength_concat h0 hr0]
    simp only [List.length_append, List.length_cons, List.length_nil]; omega
  obtain ⟨s1, s2⟩ := u64ToHi64_2_spec h0 hr0 hr1
  have hpow : 2 ^ (bitLength (lo ++ [r1, r0]) - 64) = B ^ lo.length * 2 ^ (Nat.log2 r0 + 1) := by
    rw [hbl, Bpow_eq, ← Nat.pow_add]; congr 1; omega
  have hval : toNat (lo ++ [r1, r0]) = toNat lo + B ^ lo.length * (r1 + B * r0) := by
    rw [toNat_append]; simp [toNat]
  refine ⟨hbl, ?_, ?_⟩
  · rw [hpow, hval, low_part_div hlo, s1]
  · rw [hpow, hval, low_part_mod hlo, s2, any_ne_zero_eq]
    have hpos := Bpow_pos lo.length
    rw [Bool.eq_iff_iff]
    simp only [Bool.or_eq_true, decide_eq_true_eq]
    constructor
    · rintro (h | h)
      · have := Nat.mul_ne_zero (Nat.ne_of_gt hpos) h; omega
      · omega
    · intro h
      by_cases ha : (r1 + B * r0) % 2 ^ (Nat.log2 r0 + 1) = 0
      · right; rw [ha] at h; simpa using h
      · left; exact ha

theorem hi64_rev_spec : ∀ (l : List Nat), AllLt l → l.head? ≠ some 0 → l ≠ [] →
    (64 ≤ bitLength l.reverse →
      (hi64 l.reverse).1 = toNat l.reverse / 2 ^ (bitLength l.reverse - 64) ∧
      (hi64 l.reverse).2 = decide (toNat l.reverse % 2 ^ (bitLength l.reverse - 64) ≠ 0)) ∧
    (bitLength l.reverse < 64 →
      (hi64 l.reverse).1 = toNat l.reverse * 2 ^ (64 - bitLength l.reverse) ∧
      (hi64 l.reverse).2 = false) := by
  intro l hl hh hne
  match l, hl, hh, hne with
  | [], _, _, hne => exact absurd rfl hne
  | [r0], hl, hh, _ =>
    have h0 : r0 ≠ 0 := by simpa using hh
    have hr0 : r0 < B := AllLt_singleton.mp hl
    have hbl : bitLength [r0] = Nat.log2 r0 + 1 := by
      have := bitLength_concat (ys := []) h0 hr0
      simpa using this
    have hlog := log2_lt_64 h0 hr0
    have hhi : hi64 [r0] = (r0 * 2 ^ (63 - Nat.log2 r0), false) := by
      simp only [hi64, List.reverse_cons, List.reverse_nil, List.nil_append]
      exact u64ToHi64_1_spec h0 hr0
    simp only [List.reverse_cons, List.reverse_nil, List.nil_append, hbl, hhi, toNat_singleton]
    constructor
    · intro h
      have : Nat.log2 r0 = 63 := by omega
      rw [this]; simp [Nat.mod_one]
    · intro h
      rw [show 64 - (Nat.log2 r0 + 1) = 63 - Nat.log2 r0 by omega]; simp
  | [r0, r1], hl, hh, _ =>
    have h0 : r0 ≠ 0 := by simpa using hh
    rw [AllLt_cons, AllLt_singleton] at hl
    obtain ⟨g1, g2, g3⟩ := hi64_general (lo := []) AllLt_nil h0 hl.1 hl.2
    have hhi : hi64 [r1, r0] = u64ToHi64_2 r0 r1 := by
      simp only [hi64, List.reverse_cons, List.reverse_nil, List.nil_append, List.cons_append]
    simp only [List.any_nil, Bool.or_false, List.nil_append] at g1 g2 g3
    simp only [List.reverse_cons, List.reverse_nil, List.nil_append, List.cons_append, hhi]
    exact ⟨fun _ => ⟨g2, g3⟩, fun h => by omega⟩
  | r0 :: r1 :: r2 :: rest, hl, hh, _ =>
    have h0 : r0 ≠ 0 := by simpa using hh
    rw [AllLt_cons, AllLt_cons] at hl
    have hlo : AllLt (r2 :: rest).reverse := AllLt_reverse.mpr hl.2.2
    obtain ⟨g1, g2, g3⟩ := hi64_general hlo h0 hl.1 hl.2.1
    have hx : (r0 :: r1 :: r2 :: rest).reverse = (r2 :: rest).reverse ++ [r1, r0] := by
      simp
    have hhi : hi64 ((r2 :: rest).reverse ++ [r1, r0]) =
        ((u64ToHi64_2 r0 r1).1, (u64ToHi64_2 r0 r1).2 || ((r2 :: rest).reverse).any (· != 0)) := by
      unfold hi64
      rw [← hx, List.reverse_reverse]
      simp only [nonzero, List.length_reverse, List.length_cons]
      congr 2
      rw [hx, List.take_left' (by simp)]
    rw [hx, hhi]
    exact ⟨fun _ => ⟨g2, g3⟩, fun h => by omega⟩

theorem hi64_spec {x : Big} (hx : AllLt x) (hn : isNormalized x = true) (hne : x ≠ []) :
    (64 ≤ bitLength x →
      (hi64 x).1 = toNat x / 2 ^ (bitLength x - 64) ∧
      (hi64 x).2 = decide (toNat x % 2 ^ (bitLength x - 64) ≠ 0)) ∧
    (bitLength x < 64 →
      (hi64 x).1 = toNat x * 2 ^ (64 - bitLength x) ∧ (hi64 x).2 = false) := by
  have := hi64_rev_spec x.reverse (AllLt_reverse.mpr hx)
    (by rw [List.head?_reverse]; exact isNormalized_iff.mp hn) (by simpa using hne)
  rwa [List.reverse_reverse] at this

/-- `pow` with an arbitrary description `V` of the value after the large-power stage -/
theorem pow_spec_gen {cap : Option Nat} {T : PowTables} (hT : T.compact = false → PowTablesOK T)
    {x r : Big} {e V : Nat}
    (hstage : ∀ x1 e1, (if T.compact then some (x, e) else powLargeLoop cap T (e + 1) x e)
        = some (x1, e1) → toNat x1 * 5 ^ e1 = V ∧ AllLt x1 ∧ capOk cap x1.length = true)
    (h : pow cap T x e = some r) :
    toNat r = V ∧ AllLt r ∧ capOk cap r.length = true := by
  unfold pow at h
  simp only at h
  split at h
  · simp at h
  · next x1 e1 h1 =>
    obtain ⟨a1, a2, a3⟩ := hstage x1 e1 h1
    split at h
    · simp at h
    · next x2 e2 h2 =>
      obtain ⟨b1, b2, b3, b4, b5⟩ := powSmallLoop_spec _ a2 a3 h2
      have he2 : e2 < 27 := b5 (by omega)
      split at h
      · next hne =>
        rw [intPow5_eq hT he2] at h
        obtain ⟨c1, c2, c3, _⟩ := smallMul_spec b2 (five_pow_lt (by omega)) b3 h
        exact ⟨by rw [c1, b1, a1], c2, c3⟩
      · next hz =>
        simp only [ne_eq, Decidable.not_not] at hz
        simp only [Option.some.injEq] at h
        subst h
        subst hz
        exact ⟨by rw [← a1, ← b1]; simp, b2, b3⟩

theorem largeMul_nil_left {cap : Option Nat} {P r : Big} (hlen : P.length ≠ 1)
    (h : largeMul cap [] P = some r) : r = normalize P ∧ capOk cap P.length = true := by
  unfold largeMul at h
  split at h
  · simp at hlen
  · unfold longMul at h
    split at h
    · simp at h
    · next z0 h0 =>
      obtain ⟨rfl, hc⟩ := vecTryFrom_some h0
      simp only [Option.some.injEq] at h
      exact ⟨h.symm, hc⟩

/-- What `pow` computes on the EMPTY vector (value 0) in a non-compact build once `e` reaches the
    large-power step: the first `large_mul` replaces the empty vector by `LARGE_POW5`, so the
    result is `5^e` instead of `0`. -/
theorem pow_empty_large {cap : Option Nat} {T : PowTables} (hT : PowTablesOK T)
    (hcm : T.compact = false) (hlen : T.largePow5.length ≠ 1) (hs : T.largePow5Step ≠ 0)
    {e : Nat} {r : Big} (he : T.largePow5Step ≤ e) (h : pow cap T [] e = some r) :
    toNat r = 5 ^ e ∧ AllLt r ∧ capOk cap r.length = true := by
  refine pow_spec_gen (fun _ => hT) ?_ h
  intro x1 e1 h1
  rw [hcm] at h1
  simp only [Bool.false_eq_true, if_false] at h1
  have hcond : T.largePow5Step ≠ 0 ∧ e ≥ T.largePow5Step := ⟨hs, he⟩
  rw [powLargeLoop, if_pos hcond] at h1
  split at h1
  · simp at h1
  · next x' hx' =>
    obtain ⟨rfl, hc⟩ := largeMul_nil_left hlen hx'
    have hv : toNat (normalize T.largePow5) = 5 ^ T.largePow5Step := by
      rw [normalize_toNat, hT.large_val]
    have hnz : toNat (normalize T.largePow5) ≠ 0 := by
      rw [hv]; exact (Nat.pow_pos (by omega)).ne'
    obtain ⟨a, b, _, d, _⟩ := powLargeLoop_spec hT _ (normalize_allLt hT.large_lt) hnz
      (normalize_capOk hc) h1
    refine ⟨?_, b, d⟩
    rw [a, hv, ← Nat.pow_add]; congr 1; omega

/-- the 64-bit value returned by `hi64` has its top bit set (and fits 64 bits) -/
theorem hi64_top_bit {x : Big} (hx : AllLt x) (hn : isNormalized x = true) (hne : x ≠ []) :
    2 ^ 63 ≤ (hi64 x).1 ∧ (hi64 x).1 < 2 ^ 64 := by
  have hbl := bitLength_spec hx hn hne
  have hN : toNat x ≠ 0 := (toNat_pos_of_normalized hn hne).ne'
  have h1 := Nat.log2_self_le hN
  have h2 := @Nat.lt_log2_self (toNat x)
  obtain ⟨s1, s2⟩ := hi64_spec hx hn hne
  by_cases hge : 64 ≤ bitLength x
  · rw [(s1 hge).1]
    have e1 : (2 : Nat) ^ 63 * 2 ^ (bitLength x - 64) = 2 ^ Nat.log2 (toNat x) := by
      rw [← Nat.pow_add]; congr 1; omega
    have e2 : (2 : Nat) ^ 64 * 2 ^ (bitLength x - 64) = 2 ^ (Nat.log2 (toNat x) + 1) := by
      rw [← Nat.pow_add]; congr 1; omega
    constructor
    · rw [Nat.le_div_iff_mul_le (Nat.two_pow_pos _), e1]; exact h1
    · rw [Nat.div_lt_iff_lt_mul (Nat.two_pow_pos _), e2]; exact h2
  · have hlt : bitLength x < 64 := by omega
    rw [(s2 hlt).1]
    have e1 : (2 : Nat) ^ 63 = 2 ^ Nat.log2 (toNat x) * 2 ^ (64 - bitLength x) := by
      rw [← Nat.pow_add]; congr 1; omega
    have e2 : (2 : Nat) ^ 64 = 2 ^ (Nat.log2 (toNat x) + 1) * 2 ^ (64 - bitLength x) := by
      rw [← Nat.pow_add]; congr 1; omega
    rw [e1, e2]
    exact ⟨Nat.mul_le_mul_right _ h1, Nat.mul_lt_mul_of_pos_right h2 (Nat.two_pow_pos _)⟩

-- ---------------------------------------------------------------- heap back-end never fails
theorem smallAddFrom_heap (x : Big) (y s : Nat) : ∃ r, smallAddFrom none x y s = some r := by
  unfold smallAddFrom vecTryPush
  simp only [capOk_none, if_true]
  split <;> exact ⟨_, rfl⟩

theorem smallMul_heap (x : Big) (y : Nat) : ∃ r, smallMul none x y = some r := by
  unfold smallMul vecTryPush
  simp only [capOk_none, if_true]
  split <;> exact ⟨_, rfl⟩

theorem largeAddFrom_heap (x y : Big) (s : Nat) : ∃ r, largeAddFrom none x y s = some r := by
  unfold largeAddFrom vecTryResize
  simp only [capOk_none, if_true]
  split
  · next h => split at h <;> simp at h
  · split
    · exact smallAddFrom_heap _ _ _
    · exact ⟨_, rfl⟩

theorem longMulLoop_heap (x : Big) : ∀ (ys : List Nat) (i : Nat) (z : Big),
    ∃ r, longMulLoop none x ys i z = some r := by
  intro ys
  induction ys with
  | nil => intro i z; exact ⟨z, rfl⟩
  | cons yi ys ih =>
    intro i z
    simp only [longMulLoop, vecTryFrom, vecTryExtend, capOk_none, if_true, List.nil_append]
    split
    · obtain ⟨zi, hzi⟩ := smallMul_heap x yi
      rw [hzi]
      obtain ⟨z', hz'⟩ := largeAddFrom_heap z zi i
      simp only [hz']
      exact ih _ _
    · exact ih _ _

theorem longMul_heap (x y : Big) : ∃ r, longMul none x y = some r := by
  unfold longMul
  simp only [vecTryFrom, vecTryExtend, capOk_none, if_true, List.nil_append]
  cases y with
  | nil => exact ⟨_, rfl⟩
  | cons y0 ys =>
    obtain ⟨z1, hz1⟩ := smallMul_heap x y0
    simp only [hz1]
    obtain ⟨z, hz⟩ := longMulLoop_heap x ys 1 z1
    simp only [hz]
    exact ⟨_, rfl⟩

theorem largeMul_heap (x y : Big) : ∃ r, largeMul none x y = some r := by
  unfold largeMul
  split
  · exact smallMul_heap _ _
  · exact longMul_heap _ _

theorem shlBits_heap (x : Big) (n : Nat) : ∃ r, shlBits none x n = some r := by
  unfold shlBits vecTryPush
  simp only [capOk_none, if_true]
  split <;> exact ⟨_, rfl⟩

theorem shlLimbs_heap (x : Big) (n : Nat) : ∃ r, shlLimbs none x n = some r := by
  unfold shlLimbs
  simp only [capOk_none, Bool.not_true, Bool.false_eq_true, if_false]
  split <;> exact ⟨_, rfl⟩

theorem shl_heap (x : Big) (n : Nat) : ∃ r, shl none x n = some r := by
  unfold shl
  simp only
  split
  · next h =>
    split at h
    · obtain ⟨r, hr⟩ := shlBits_heap x (n % 64); rw [hr] at h; simp at h
    · simp at h
  · split
    · exact shlLimbs_heap _ _
    · exact ⟨_, rfl⟩

theorem powLargeLoop_heap (T : PowTables) : ∀ (fuel : Nat) (x : Big) (e : Nat),
    ∃ r, powLargeLoop none T fuel x e = some r := by
  intro fuel
  induction fuel with
  | zero => intro x e; exact ⟨_, rfl⟩
  | succ fuel ih =>
    intro x e
    simp only [powLargeLoop]
    split
    · obtain ⟨x', hx'⟩ := largeMul_heap x T.largePow5
      simp only [hx']
      exact ih _ _
    · exact ⟨_, rfl⟩

theorem powSmallLoop_heap : ∀ (fuel : Nat) (x : Big) (e : Nat),
    ∃ r, powSmallLoop none fuel x e = some r := by
  intro fuel
  induction fuel with
  | zero => intro x e; exact ⟨_, rfl⟩
  | succ fuel ih =>
    intro x e
    simp only [powSmallLoop]
    split
    · obtain ⟨x', hx'⟩ := smallMul_heap x (5 ^ 27)
      simp only [hx']
      exact ih _ _
    · exact ⟨_, rfl⟩

theorem pow_heap_total (T : PowTables) (x : Big) (e : Nat) : ∃ r, pow none T x e = some r := by
  unfold pow
  simp only
  have h1 : ∃ p, (if T.compact then some (x, e) else powLargeLoop none T (e + 1) x e) = some p := by
    split
    · exact ⟨_, rfl⟩
    · exact powLargeLoop_heap T _ _ _
  obtain ⟨⟨x1, e1⟩, h1⟩ := h1
  rw [h1]
  simp only
  obtain ⟨⟨x2, e2⟩, h2⟩ := powSmallLoop_heap (e1 + 1) x1 e1
  rw [h2]
  simp only
  split
  · exact smallMul_heap _ _
  · exact ⟨_, rfl⟩

theorem bigintPow_heap_total (T : PowTables) (x : Big) (base e : Nat) :
    ∃ r, bigintPow none T x base e = some r := by
  unfold bigintPow
  have h1 : ∃ x1, (if base % 5 = 0 then pow none T x e else some x) = some x1 := by
    split
    · exact pow_heap_total T x e
    · exact ⟨_, rfl⟩
  obtain ⟨x1, h1⟩ := h1
  rw [h1]
  simp only
  split
  · exact shl_heap _ _
  · exact ⟨_, rfl⟩

end MinLex
