/-
  Verified modular search: the least `x ≥ 0` with `(a·x) mod m ∈ [l, r]`, by the Euclid-like descent.

  `first fuel a m l r`
    * `none`            — out of fuel (never happens with `fuel ≥ 2·log2 m + 2`; not needed: callers
                          evaluate the function on closed inputs and treat `none` as failure),
    * `some none`       — no `x` at all,
    * `some (some x0)`  — `x0` is the least solution.

  The descent: if `l = 0`, `x = 0`.  If `a = 0` (and `l > 0`) there is no solution.  Let `k = ⌈l/a⌉`;
  if `k·a ≤ r` then `k` is the least solution (no wrap).  Otherwise `[l, r]` contains no multiple of
  `a`, and a solution `x` with wrap count `y = ⌊a·x/m⌋` has `l + m·y ≤ a·x ≤ r + m·y`; such an `x`
  exists for a given `y` iff `(m·y) mod a ∈ [a − r mod a, a − l mod a]`, and then `x = ⌈(l + m·y)/a⌉`
  is monotone in `y`.  So recurse on `(m mod a, a, a − r mod a, a − l mod a)`: the pairs `(a, m)`
  follow the Euclidean algorithm.

  Proved here (unconditionally, no side conditions on the arguments):
    * `first_lower`  : the result is a LOWER BOUND for every solution (`some none`: no solution);
  and, for well-formed arguments (`l ≤ r < m`),
    * `first_sound`  : a returned `x0` IS a solution.
  Together: `first_least`.
-/
namespace MinLex.ModSearch

/-- least `x` with `l ≤ a·x mod m ≤ r`; outer `none` = out of fuel, inner `none` = no solution -/
def first : Nat → Nat → Nat → Nat → Nat → Option (Option Nat)
  | 0, _, _, _, _ => none
  | fuel+1, a, m, l, r =>
    if l = 0 then some (some 0)
    else if a = 0 then some none
    else if (l + a - 1) / a * a ≤ r then some (some ((l + a - 1) / a))
    else match first fuel (m % a) a (a - r % a) (a - l % a) with
      | none => none
      | some none => some none
      | some (some y) => some (some ((l + m * y + a - 1) / a))

/-! ### arithmetic lemmas -/

/-- `⌈l/a⌉ ≤ x` when `l ≤ a·x` -/
theorem ceil_le {a l x : Nat} (ha : 0 < a) (h : l ≤ a * x) : (l + a - 1) / a ≤ x := by
  apply Nat.le_of_lt_succ
  rw [Nat.div_lt_iff_lt_mul ha]
  have : x.succ * a = a * x + a := by rw [Nat.succ_mul, Nat.mul_comm]
  omega

/-- `l ≤ ⌈l/a⌉·a < l + a` -/
theorem ceil_bounds {a : Nat} (l : Nat) (ha : 0 < a) :
    l ≤ (l + a - 1) / a * a ∧ (l + a - 1) / a * a < l + a := by
  have h1 := Nat.div_add_mod (l + a - 1) a
  have h2 := Nat.mod_lt (l + a - 1) ha
  have h3 : (l + a - 1) / a * a = a * ((l + a - 1) / a) := Nat.mul_comm ..
  omega

/-- if `[l, r]` contains no multiple of `a`, its elements have the same quotient by `a`, and a
    non-zero remainder between those of `l` and `r` -/
theorem window {a l r : Nat} (ha : 0 < a) (hl : 0 < l) (h : ¬ (l + a - 1) / a * a ≤ r)
    {v : Nat} (h1 : l ≤ v) (h2 : v ≤ r) :
    0 < l % a ∧ l % a ≤ v % a ∧ v % a ≤ r % a ∧ r % a < a ∧ v / a = l / a := by
  obtain ⟨c1, c2⟩ := ceil_bounds l ha
  generalize hk : (l + a - 1) / a = k at *
  have hk1 : 1 ≤ k := by
    rcases Nat.eq_zero_or_pos k with h0 | h0
    · rw [h0] at c1; omega
    · exact h0
  obtain ⟨j, rfl⟩ : ∃ j, k = j + 1 := ⟨k - 1, by omega⟩
  have e : (j + 1) * a = j * a + a := by rw [Nat.add_mul, Nat.one_mul]
  have q : ∀ u, l ≤ u → u ≤ r → u / a = j := fun u u1 u2 =>
    Nat.div_eq_of_lt_le (by omega) (by omega)
  have m : ∀ u, l ≤ u → u ≤ r → u = j * a + u % a := fun u u1 u2 => by
    have := Nat.div_add_mod u a
    rw [q u u1 u2, Nat.mul_comm] at this
    omega
  have ml := m l (Nat.le_refl _) (by omega)
  have mv := m v h1 h2
  have mr := m r (by omega) (Nat.le_refl _)
  have := Nat.mod_lt r ha
  have q1 := q l (Nat.le_refl _) (by omega)
  have q2 := q v h1 h2
  omega

/-- two residues below `a`, one non-zero, summing to a multiple of `a`, sum to `a` -/
theorem sum_eq_of_mod {a p e : Nat} (hp : p < a) (he0 : 0 < e) (he : e < a) (h : (p + e) % a = 0) :
    p + e = a := by
  have hd := Nat.div_add_mod (p + e) a
  rw [h] at hd
  generalize (p + e) / a = j at hd
  match j, hd with
  | 0, hd => simp at hd; omega
  | 1, hd => simp at hd; omega
  | j+2, hd =>
    have : a * (j + 2) = a * j + a + a := by rw [Nat.mul_add]; omega
    omega

/-- **the reduction step**: a solution `x` of the problem `(a, m, l, r)` (in the wrapping case) has a
    wrap count `y = ⌊a·x/m⌋` solving the problem `(m mod a, a, a − r mod a, a − l mod a)` -/
theorem step_down {a m l r : Nat} (ha : 0 < a) (hl : 0 < l) (h : ¬ (l + a - 1) / a * a ≤ r)
    {x : Nat} (h1 : l ≤ a * x % m) (h2 : a * x % m ≤ r) :
    a - r % a ≤ (m % a) * (a * x / m) % a ∧ (m % a) * (a * x / m) % a ≤ a - l % a := by
  obtain ⟨w1, w2, w3, w4, _⟩ := window ha hl h h1 h2
  have hd := Nat.div_add_mod (a * x) m
  generalize a * x / m = y at *
  generalize hv : a * x % m = v at *
  have e1 : (m % a) * y % a = (m * y) % a := by
    rw [Nat.mul_mod, Nat.mod_mod, ← Nat.mul_mod]
  rw [e1]
  have hz : (m * y + v) % a = 0 := by rw [hd]; exact Nat.mul_mod_right ..
  rw [Nat.add_mod] at hz
  have hp := Nat.mod_lt (m * y) ha
  have := sum_eq_of_mod hp (by omega) (by omega) hz
  omega

/-! ### the result is a lower bound for every solution -/

/-- **lower bound**: if the search returns `some none` there is no solution at all, and if it returns
    `some (some x0)` every solution is `≥ x0`.  No side condition on `a m l r`. -/
theorem first_lower : ∀ (fuel a m l r : Nat) (res : Option Nat), first fuel a m l r = some res →
    ∀ x, l ≤ a * x % m → a * x % m ≤ r → ∃ x0, res = some x0 ∧ x0 ≤ x
  | 0, _, _, _, _, _, h, _, _, _ => by simp [first] at h
  | fuel+1, a, m, l, r, res, h, x, h1, h2 => by
    unfold first at h
    split at h
    · cases h; exact ⟨0, rfl, Nat.zero_le _⟩
    rename_i hl0
    split at h
    · rename_i ha0
      subst ha0
      simp at h1
      omega
    rename_i ha0
    have ha : 0 < a := Nat.pos_of_ne_zero ha0
    have hl : 0 < l := Nat.pos_of_ne_zero hl0
    have hax : l ≤ a * x := Nat.le_trans h1 (Nat.mod_le _ _)
    split at h
    · cases h
      exact ⟨_, rfl, ceil_le ha hax⟩
    rename_i hk
    obtain ⟨s1, s2⟩ := step_down ha hl hk h1 h2
    split at h
    · cases h
    · rename_i hrec
      obtain ⟨y0, hy0, _⟩ := first_lower fuel _ _ _ _ _ hrec _ s1 s2
      cases hy0
    · rename_i y0 hrec
      cases h
      obtain ⟨y0', hy0, hle⟩ := first_lower fuel _ _ _ _ _ hrec _ s1 s2
      cases hy0
      refine ⟨_, rfl, ?_⟩
      have hd := Nat.div_add_mod (a * x) m
      have : m * y0 ≤ m * (a * x / m) := Nat.mul_le_mul_left _ hle
      have e : l + m * y0 + a - 1 = (l + m * y0) + a - 1 := rfl
      rw [e]
      exact ceil_le ha (by omega)

/-! ### the result is a solution -/

/-- **the lifting step**: a solution `y` of the reduced problem gives the solution `⌈(l + m·y)/a⌉` -/
theorem step_up {a m l r y : Nat} (ha : 0 < a) (hl : 0 < l) (hlr : l ≤ r) (hrm : r < m)
    (h : ¬ (l + a - 1) / a * a ≤ r)
    (s1 : a - r % a ≤ (m % a) * y % a) (s2 : (m % a) * y % a ≤ a - l % a) :
    l ≤ a * ((l + m * y + a - 1) / a) % m ∧ a * ((l + m * y + a - 1) / a) % m ≤ r := by
  obtain ⟨w1, _, w3, w4, w5⟩ := window ha hl h hlr (Nat.le_refl r)
  have e1 : (m % a) * y % a = (m * y) % a := by rw [Nat.mul_mod, Nat.mod_mod, ← Nat.mul_mod]
  rw [e1] at s1 s2
  have d1 := Nat.div_add_mod (m * y) a
  have d2 := Nat.div_add_mod l a
  have d3 := Nat.div_add_mod r a
  rw [w5] at d3
  have lp := Nat.mod_lt (m * y) ha
  generalize m * y % a = p at *
  generalize m * y / a = Y at *
  generalize l / a = j at *
  have eX : a * (Y + j + 1) = m * y + (a * j + (a - p)) := by
    rw [Nat.mul_add, Nat.mul_add, Nat.mul_one]; omega
  have hx : (l + m * y + a - 1) / a = Y + j + 1 := by
    have c1 : (Y + j + 1) * a = a * (Y + j + 1) := Nat.mul_comm ..
    have c2 : (Y + j + 1 + 1) * a = a * (Y + j + 1) + a := by rw [Nat.add_mul, Nat.one_mul, c1]
    apply Nat.div_eq_of_lt_le
    · omega
    · omega
  rw [hx, eX, Nat.mul_add_mod, Nat.mod_eq_of_lt (by omega)]
  omega

/-- **soundness**: for a well-formed interval `l ≤ r < m`, a returned `x0` is a solution -/
theorem first_sound : ∀ (fuel a m l r x0 : Nat), l ≤ r → r < m → first fuel a m l r = some (some x0) →
    l ≤ a * x0 % m ∧ a * x0 % m ≤ r
  | 0, _, _, _, _, _, _, _, h => by simp [first] at h
  | fuel+1, a, m, l, r, x0, hlr, hrm, h => by
    unfold first at h
    split at h
    · rename_i hl0
      cases h
      simp [hl0]
    rename_i hl0
    split at h
    · cases h
    rename_i ha0
    have ha : 0 < a := Nat.pos_of_ne_zero ha0
    have hl : 0 < l := Nat.pos_of_ne_zero hl0
    split at h
    · rename_i hk
      cases h
      obtain ⟨c1, _⟩ := ceil_bounds l ha
      rw [Nat.mul_comm, Nat.mod_eq_of_lt (by omega)]
      exact ⟨c1, hk⟩
    rename_i hk
    obtain ⟨w1, _, w3, w4, _⟩ := window ha hl hk hlr (Nat.le_refl r)
    have wl := (window ha hl hk (Nat.le_refl l) hlr).2.2.1
    split at h
    · cases h
    · cases h
    · rename_i y0 hrec
      cases h
      obtain ⟨s1, s2⟩ := first_sound fuel _ _ _ _ _ (by omega) (by omega) hrec
      exact step_up ha hl hlr hrm hk s1 s2

/-- **the search is exact**: for `l ≤ r < m`, `some (some x0)` is the least solution and `some none`
    means there is none -/
theorem first_least {fuel a m l r : Nat} (hlr : l ≤ r) (hrm : r < m) {res : Option Nat}
    (h : first fuel a m l r = some res) :
    (∀ x0, res = some x0 → (l ≤ a * x0 % m ∧ a * x0 % m ≤ r) ∧
        ∀ x, l ≤ a * x % m → a * x % m ≤ r → x0 ≤ x) ∧
    (res = none → ∀ x, ¬ (l ≤ a * x % m ∧ a * x % m ≤ r)) := by
  constructor
  · intro x0 e
    subst e
    refine ⟨first_sound _ _ _ _ _ _ hlr hrm h, fun x h1 h2 => ?_⟩
    obtain ⟨_, e, hle⟩ := first_lower _ _ _ _ _ _ h x h1 h2
    cases e; exact hle
  · intro e x hx
    subst e
    obtain ⟨_, e, _⟩ := first_lower _ _ _ _ _ _ h x hx.1 hx.2
    cases e

/-- non-vacuity / sanity: `3·x mod 7 ∈ [5, 6]` first at `x = 2`; `6·x mod 9 ∈ [1, 2]` never;
    a wrapping case with several reduction steps -/
example : first 10 3 7 5 6 = some (some 2) := by decide
example : first 10 6 9 1 2 = some none := by decide
example : first 20 1234567 100000007 17 19 = some (some 17499983) ∧
    1234567 * 17499983 % 100000007 = 18 := by decide +kernel

/-- corollary used by the table checks: all solutions are `≥ bound` -/
def allGe (res : Option (Option Nat)) (bound : Nat) : Bool :=
  match res with
  | none => false
  | some none => true
  | some (some x0) => decide (bound ≤ x0)

theorem allGe_spec {fuel a m l r bound : Nat} (h : allGe (first fuel a m l r) bound = true)
    {x : Nat} (h1 : l ≤ a * x % m) (h2 : a * x % m ≤ r) : bound ≤ x := by
  unfold allGe at h
  split at h
  · cases h
  · rename_i hrec
    obtain ⟨_, e, _⟩ := first_lower _ _ _ _ _ _ hrec x h1 h2
    cases e
  · rename_i x0 hrec
    obtain ⟨_, e, hle⟩ := first_lower _ _ _ _ _ _ hrec x h1 h2
    cases e
    have := of_decide_eq_true h
    omega

end MinLex.ModSearch
