/-
  Helper lemmas for the big-integer slow path (`slow.rs`): `parse_mantissa`, `scientific_exponent`,
  `positive_digit_comp`, `negative_digit_comp`, the digit cut, and their composition.
-/
import MinLex.Props.C12
import MinLex.Props.C18
import MinLex.Props.RneSpec
import MinLex.Props.ParseNumber
import MinLex.Props.Main
import Mathlib.Tactic.Ring
import Mathlib.Tactic.Linarith
namespace MinLex.SlowP
open MinLex ParseNum

-- ================================================================ 0. normalisation bookkeeping
/-- value-level "normalised": empty, or the top limb is non-zero -/
def NormOK (x : Big) : Prop := x = [] ∨ TopNZ x

theorem normalized_of_topNZ {x : Big} (hx : AllLt x) (h : TopNZ x) : isNormalized x = true := by
  rw [isNormalized_iff]
  intro hl
  obtain ⟨ys, rfl⟩ : ∃ ys, x = ys ++ [0] := by
    rcases List.eq_nil_or_concat x with h0 | ⟨ys, v, rfl⟩
    · exact absurd h0 h.1
    · rw [List.concat_eq_append, List.getLast?_concat] at hl
      simp only [Option.some.injEq] at hl
      subst hl; exact ⟨ys, by simp⟩
  have h2 := h.2
  rw [toNat_append, toNat_singleton] at h2
  have := toNat_lt (AllLt_append.mp hx).1
  simp only [List.length_append, List.length_cons, List.length_nil, Nat.zero_add,
    Nat.add_sub_cancel, Nat.mul_zero, Nat.add_zero] at h2
  omega

theorem normalized_of_normOK {x : Big} (hx : AllLt x) (h : NormOK x) : isNormalized x = true := by
  rcases h with rfl | h
  · rfl
  · exact normalized_of_topNZ hx h

theorem topNZ_of_normOK {x : Big} (h : NormOK x) (h0 : toNat x ≠ 0) : TopNZ x := by
  rcases h with rfl | h
  · exact absurd rfl h0
  · exact h

theorem smallMul_normOK {cap : Option Nat} {x r : Big} {y : Nat} (hn : NormOK x) (hy0 : y ≠ 0)
    (h : smallMul cap x y = some r) : NormOK r := by
  rcases hn with rfl | hn
  · left
    unfold smallMul at h
    simpa [smallMulAux] using h.symm
  · exact Or.inr (smallMul_topNZ hn hy0 h)

theorem smallAdd_normOK {cap : Option Nat} {x r : Big} {y : Nat} (hx : AllLt x) (hy : y < B)
    (hn : NormOK x) (h : smallAdd cap x y = some r) : NormOK r := by
  obtain ⟨h1, h2, h3, h4⟩ := smallAddFrom_core hx hy (Nat.zero_le _)
  unfold smallAdd smallAddFrom at h
  simp only at h
  split at h
  · next hz =>
    obtain ⟨rfl, _⟩ := vecTryPush_some h
    right
    refine ⟨by simp, ?_⟩
    rw [toNat_append, toNat_singleton, List.length_append]
    have : B ^ (List.take 0 x ++ (smallAddAux y (List.drop 0 x)).1).length * 1 ≤
        B ^ (List.take 0 x ++ (smallAddAux y (List.drop 0 x)).1).length *
          (smallAddAux y (List.drop 0 x)).2 :=
      Nat.mul_le_mul_left _ (Nat.pos_of_ne_zero hz)
    simp only [List.length_cons, List.length_nil, Nat.zero_add, Nat.add_sub_cancel]
    omega
  · next hz =>
    simp only [ne_eq, Decidable.not_not] at hz
    simp only [Option.some.injEq] at h
    subst h
    rw [hz] at h2
    rcases hn with rfl | hn
    · left
      exact List.eq_nil_of_length_eq_zero (by rw [h1]; rfl)
    · right
      refine ⟨fun h0 => hn.1 (List.eq_nil_of_length_eq_zero (by rw [← h1, h0]; rfl)), ?_⟩
      rw [h1]
      have := hn.2
      simp only [Nat.mul_zero, Nat.add_zero, Nat.pow_zero, Nat.mul_one] at h2
      omega

theorem shl_topNZ {cap : Option Nat} {x r : Big} {n : Nat} (hx : AllLt x)
    (hcap : capOk cap x.length = true) (hn : TopNZ x) (h : shl cap x n = some r) : TopNZ r := by
  unfold shl at h
  simp only at h
  have hr : n % 64 < 64 := Nat.mod_lt _ (by omega)
  have hxl : 0 < x.length := List.length_pos_iff.mpr hn.1
  split at h
  · simp at h
  · next x1 hx1 =>
    have h1 : AllLt x1 ∧ TopNZ x1 := by
      split at hx1
      · next hrem =>
        obtain ⟨a, b, _, d, e, f⟩ := shlBits_spec (Nat.pos_of_ne_zero hrem) hr hx hcap hx1
        refine ⟨b, fun h0 => by rw [h0] at d; simp only [List.length_nil] at d; omega, ?_⟩
        by_cases hl : x1.length = x.length + 1
        · have := f hl
          rw [hl]; simpa using this
        · have e' : x1.length = x.length := by omega
          rw [e', a]
          have : toNat x * 1 ≤ toNat x * 2 ^ (n % 64) := Nat.mul_le_mul_left _ (Nat.two_pow_pos _)
          have := hn.2
          omega
      · simp only [Option.some.injEq] at hx1
        subst hx1
        exact ⟨hx, hn⟩
    obtain ⟨b, c⟩ := h1
    split at h
    · obtain ⟨a', _, _, d', _⟩ := shlLimbs_spec b h
      have hl := d' c.1
      refine ⟨fun h0 => by rw [h0] at hl; simp only [List.length_nil] at hl; have := List.length_pos_iff.mpr c.1; omega, ?_⟩
      rw [a', hl]
      have hx1l : 0 < x1.length := List.length_pos_iff.mpr c.1
      rw [show n / 64 + x1.length - 1 = (x1.length - 1) + n / 64 by omega, Nat.pow_add]
      exact Nat.mul_le_mul_right _ c.2
    · simp only [Option.some.injEq] at h
      subst h; exact c

/-- `Bigint::pow` keeps a non-zero normalised vector normalised -/
theorem bigintPow_topNZ {cap : Option Nat} {T : PowTables}
    (hT : T.compact = false → PowTablesOK T) {x r : Big} {base e : Nat}
    (hb : base = 2 ∨ base = 5 ∨ base = 10) (hx : AllLt x) (hn : TopNZ x)
    (hc : capOk cap x.length = true) (h : bigintPow cap T x base e = some r) : TopNZ r := by
  have h0 : toNat x ≠ 0 := (Nat.lt_of_lt_of_le (Bpow_pos _) hn.2).ne'
  unfold bigintPow at h
  rcases hb with rfl | rfl | rfl
  · simp only [Nat.reduceMod, OfNat.ofNat_ne_zero, if_false, if_true] at h
    exact shl_topNZ hx hc hn h
  · simp only [Nat.reduceMod, if_true, Nat.reduceEqDiff, if_false] at h
    split at h
    · simp at h
    · next x1 h1 =>
      simp only [Option.some.injEq] at h
      subst h
      exact (pow_spec hT hx (Or.inl h0) hc h1).2.2.2 hn
  · simp only [Nat.reduceMod, if_true] at h
    split at h
    · simp at h
    · next x1 h1 =>
      obtain ⟨_, b, c, d⟩ := pow_spec hT hx (Or.inl h0) hc h1
      exact shl_topNZ b c (d hn) h

-- ================================================================ 1. parse_mantissa (C06)
/-- what `parse_mantissa` needs from `int_pow_fast_path(k, Ten)`: exact for `k ≤ 19` -/
def Pow10OK (T : PowTables) : Prop := ∀ k, k ≤ 19 → intPow10 T.compact T.smallIntPow10 k = 10 ^ k

theorem genPow_pow10OK (c : Bool) : Pow10OK (genPow c) := by
  cases c <;> (unfold Pow10OK; decide +kernel)

theorem pow19_lt_B : 10 ^ 19 < B := by unfold B; norm_num

theorem pow_le_pow19 {k : Nat} (hk : k ≤ 19) : 10 ^ k ≤ 10 ^ 19 :=
  Nat.pow_le_pow_right (by omega) hk

/-- the back-end has room for one more limb on every normalised big integer below `bound` -/
def CapRoom (cap : Option Nat) (bound : Nat) : Prop :=
  ∀ x : Big, AllLt x → NormOK x → toNat x < bound → capOk cap (x.length + 1) = true

theorem capRoom_none (bound : Nat) : CapRoom none bound := fun _ _ _ _ => rfl

theorem capRoom_some {c bound : Nat} (hc : 1 ≤ c) (hb : bound ≤ B ^ (c - 1)) :
    CapRoom (some c) bound := by
  intro x _ hn hlt
  rw [capOk_some]
  rcases hn with rfl | hn
  · exact hc
  · by_contra hcon
    have h1 := Bpow_le (show c - 1 ≤ x.length - 1 by omega)
    have := hn.2
    omega

/-- the big-integer part of the invariant: whenever no unwrap has failed so far, the accumulated
    big integer `r` and the native temporary together hold the number `n` read so far -/
structure PMInv (cap : Option Nat) (s : PM) (n : Nat) : Prop where
  vlt : s.value < 10 ^ s.counter
  cle : s.counter ≤ 19
  trap : s.trap = false
  res : ∀ r, s.result = some r →
    AllLt r ∧ capOk cap r.length = true ∧ NormOK r ∧ toNat r * 10 ^ s.counter + s.value = n
  tot : ∀ bound, CapRoom cap bound → n < bound → s.result.isSome = true

theorem pmMulAdd_spec {cap : Option Nat} {r0 : Option Big} {p v : Nat} {r' : Big} (hp : p < B)
    (hp0 : p ≠ 0)
    (hv : v < B) (h0 : ∀ r, r0 = some r → AllLt r ∧ capOk cap r.length = true ∧ NormOK r)
    (h : pmMulAdd cap r0 p v = some r') :
    ∃ r, r0 = some r ∧ toNat r' = toNat r * p + v ∧ AllLt r' ∧ capOk cap r'.length = true ∧
      NormOK r' := by
  unfold pmMulAdd at h
  cases r0 with
  | none => simp at h
  | some x =>
    obtain ⟨hx, hc, hnx⟩ := h0 x rfl
    simp only at h
    cases hm : smallMul cap x p with
    | none => rw [hm] at h; simp at h
    | some y =>
      rw [hm] at h
      simp only at h
      obtain ⟨a1, a2, a3⟩ := C12.smallMul_exact hx hp hc hm
      obtain ⟨b1, b2, b3⟩ := C12.smallAdd_exact a2 hv a3 h
      exact ⟨x, rfl, by rw [b1, a1], b2, b3, smallAdd_normOK a2 hv (smallMul_normOK hnx hp0 hm) h⟩

/-- `add_temporary!(@mul …)` succeeds when the back-end has room for the result -/
theorem pmMulAdd_isSome {cap : Option Nat} {r0 : Option Big} {p v bound : Nat}
    (hroom : CapRoom cap bound) (hp : p < B) (hp0 : p ≠ 0) (hv : v < B)
    (h0 : ∀ r, r0 = some r → AllLt r ∧ capOk cap r.length = true ∧ NormOK r ∧
      toNat r * p + v < bound) (h : r0.isSome = true) :
    (pmMulAdd cap r0 p v).isSome = true := by
  cases r0 with
  | none => simp at h
  | some x =>
    obtain ⟨hx, hc, hnx, hlt⟩ := h0 x rfl
    have hle : toNat x * 1 ≤ toNat x * p := Nat.mul_le_mul_left _ (Nat.pos_of_ne_zero hp0)
    unfold pmMulAdd
    obtain ⟨y, hy⟩ := C12.smallMul_complete (cap := cap) (x := x) (y := p)
      (Or.inl (hroom x hx hnx (by omega)))
    obtain ⟨a1, a2, a3⟩ := C12.smallMul_exact hx hp hc hy
    obtain ⟨z, hz⟩ := C12.smallAdd_complete (cap := cap) (x := y) (y := v) a2 hv
      (Or.inl (hroom y a2 (smallMul_normOK hnx hp0 hy) (by omega)))
    simp only [hy, hz]; rfl

/-- `add_digit!` on an ASCII digit: no wrap (the temporary stays below `10^19 < 2^64`) -/
theorem addDigit_inv {cap : Option Nat} {s : PM} {n : Nat} {c : UInt8} (hc : isDigit c = true)
    (h : PMInv cap s n) (hlt : s.counter < 19) :
    PMInv cap (s.addDigit c) (n * 10 + digitVal c) ∧ (s.addDigit c).count = s.count + 1 ∧
    (s.addDigit c).counter = s.counter + 1 := by
  have hd := digitVal_le hc
  have h18 : 10 ^ s.counter ≤ 10 ^ 18 := Nat.pow_le_pow_right (by omega) (by omega)
  have hv := h.vlt
  have hu : (10:Nat) ^ 18 * 10 < u64Mod := by unfold u64Mod; norm_num
  have e1 : s.value * 10 % u64Mod = s.value * 10 := Nat.mod_eq_of_lt (by omega)
  have e2 : (s.value * 10 + digitVal c) % u64Mod = s.value * 10 + digitVal c :=
    Nat.mod_eq_of_lt (by omega)
  have hval : (s.addDigit c).value = s.value * 10 + digitVal c := by
    unfold PM.addDigit; simp only [digitOf_eq hc, e1, e2]
  refine ⟨⟨?_, ?_, ?_, ?_, ?_⟩, rfl, rfl⟩
  · rw [hval]; show _ < 10 ^ (s.counter + 1); rw [pow_succ]; omega
  · show s.counter + 1 ≤ 19; omega
  · unfold PM.addDigit
    simp only [digitOf_eq hc, e1, digitTraps_eq hc, h.trap, Bool.false_or, Bool.or_eq_false_iff,
      decide_eq_false_iff_not]
    constructor <;> omega
  · intro r hr
    obtain ⟨a, b, nn, d⟩ := h.res r hr
    refine ⟨a, b, nn, ?_⟩
    rw [hval]; show toNat r * 10 ^ (s.counter + 1) + _ = _
    rw [← d, pow_succ]; ring
  · intro bound hr hb; exact h.tot bound hr (by omega)

/-- `add_temporary!(@max …)` after 19 digits -/
theorem flushMax_inv {cap : Option Nat} {s : PM} {n : Nat} (h : PMInv cap s n)
    (hc : s.counter = 19) :
    PMInv cap (s.flushMax cap) n ∧ (s.flushMax cap).count = s.count ∧ (s.flushMax cap).counter = 0 := by
  have hv := h.vlt
  rw [hc] at hv
  have hB := pow19_lt_B
  refine ⟨⟨?_, ?_, h.trap, ?_, ?_⟩, rfl, rfl⟩
  · show 0 < 10 ^ 0; norm_num
  · show 0 ≤ 19; omega
  · intro r' hr'
    have hr'' : pmMulAdd cap s.result pmMaxNative s.value = some r' := hr'
    obtain ⟨r, hr, e, a, b, nn⟩ := pmMulAdd_spec (by unfold pmMaxNative B; norm_num)
      (by unfold pmMaxNative; norm_num) (by omega)
      (fun r hr => ⟨(h.res r hr).1, (h.res r hr).2.1, (h.res r hr).2.2.1⟩) hr''
    refine ⟨a, b, nn, ?_⟩
    show toNat r' * 10 ^ 0 + 0 = n
    rw [e, ← (h.res r hr).2.2.2, hc]; unfold pmMaxNative; norm_num
  · intro bound hr hb
    refine pmMulAdd_isSome hr (by unfold pmMaxNative B; norm_num) (by unfold pmMaxNative; norm_num)
      (by omega) (fun r hr' => ?_) (h.tot bound hr hb)
    obtain ⟨a, b, nn, d⟩ := h.res r hr'
    refine ⟨a, b, nn, ?_⟩
    rw [hc] at d
    have : pmMaxNative = 10 ^ 19 := by unfold pmMaxNative; norm_num
    rw [this]; omega

/-- final state after `add_temporary!(@end …)`: the big integer holds everything -/
structure PMDone (cap : Option Nat) (s : PM) (n : Nat) : Prop where
  trap : s.trap = false
  res : ∀ r, s.result = some r → AllLt r ∧ capOk cap r.length = true ∧ NormOK r ∧ toNat r = n
  tot : ∀ bound, CapRoom cap bound → n < bound → s.result.isSome = true

theorem flushEnd_done {cap : Option Nat} {T : PowTables} (hT : Pow10OK T) {s : PM} {n : Nat}
    (h : PMInv cap s n) :
    PMDone cap (s.flushEnd cap T) n ∧ (s.flushEnd cap T).count = s.count := by
  unfold PM.flushEnd
  by_cases hc : s.counter = 0
  · simp only [hc, ne_eq, not_true_eq_false, if_false]
    refine ⟨⟨h.trap, ?_, h.tot⟩, trivial⟩
    intro r hr
    obtain ⟨a, b, nn, d⟩ := h.res r hr
    have hv := h.vlt
    rw [hc] at hv d
    refine ⟨a, b, nn, ?_⟩
    omega
  · simp only [ne_eq, hc, not_false_eq_true, if_true]
    have hv := h.vlt
    have hp := pow_le_pow19 h.cle
    have hB := pow19_lt_B
    refine ⟨⟨h.trap, ?_, ?_⟩, trivial⟩
    · intro r' hr'
      have hr'' : pmMulAdd cap s.result (intPow10 T.compact T.smallIntPow10 s.counter) s.value
          = some r' := hr'
      rw [hT _ h.cle] at hr''
      obtain ⟨r, hr, e, a, b, nn⟩ := pmMulAdd_spec (by omega) (Nat.pow_pos (by omega)).ne' (by omega)
        (fun r hr => ⟨(h.res r hr).1, (h.res r hr).2.1, (h.res r hr).2.2.1⟩) hr''
      exact ⟨a, b, nn, by rw [e, ← (h.res r hr).2.2.2]⟩
    · intro bound hr hb
      rw [hT _ h.cle]
      refine pmMulAdd_isSome hr (by omega) (Nat.pow_pos (by omega)).ne' (by omega) (fun r hr' => ?_)
        (h.tot bound hr hb)
      obtain ⟨a, b, nn, d⟩ := h.res r hr'
      exact ⟨a, b, nn, by omega⟩

theorem ofDigits_cons_take (c : UInt8) (rest : List UInt8) {k : Nat} (hk : k ≤ rest.length) (n : Nat) :
    n * 10 ^ (k + 1) + ofDigits ((c :: rest).take (k + 1)) =
      (n * 10 + digitVal c) * 10 ^ k + ofDigits (rest.take k) := by
  rw [List.take_succ_cons, ofDigits_cons, List.length_take, Nat.min_eq_left hk, pow_succ]; ring

/-- the labelled digit loop: the 19-digit chunking does not matter -/
theorem pmLoop_spec {cap : Option Nat} {T : PowTables} (hT : Pow10OK T) (md : Nat) :
    ∀ (ds : List UInt8) (s : PM) (n : Nat), AllDigits ds → PMInv cap s n → s.counter < 19 →
      s.count ≤ md →
      (s.count + ds.length < md → ∃ s', pmLoop cap T md ds s = .exhausted s' ∧
          PMInv cap s' (n * 10 ^ ds.length + ofDigits ds) ∧ s'.counter < 19 ∧
          s'.count = s.count + ds.length) ∧
      (md ≤ s.count + ds.length → ∃ s', pmLoop cap T md ds s = .full s' (ds.drop (md - s.count)) ∧
          PMDone cap s' (n * 10 ^ (md - s.count) + ofDigits (ds.take (md - s.count))) ∧
          s'.count = md) := by
  intro ds
  induction ds with
  | nil =>
    intro s n _ hi hc hle
    rw [pmLoop.eq_1]
    constructor
    · intro hlt
      have : ¬ s.count ≥ md := by simpa using hlt
      rw [if_neg this]
      exact ⟨s, rfl, by simpa [ofDigits_nil] using hi, hc, rfl⟩
    · intro hge
      have hge' : s.count ≥ md := by simpa using hge
      rw [if_pos hge']
      obtain ⟨a, b⟩ := flushEnd_done hT hi
      refine ⟨s.flushEnd cap T, by simp, ?_, by rw [b]; omega⟩
      have : md - s.count = 0 := by omega
      simpa [this, ofDigits_nil] using a
  | cons c rest ih =>
    intro s n hd hi hc hle
    rw [AllDigits.cons_iff] at hd
    rw [pmLoop.eq_2]
    by_cases h0 : s.count ≥ md
    · rw [if_pos h0]
      have h00 : md - s.count = 0 := by omega
      constructor
      · intro hlt; omega
      · intro _
        obtain ⟨a, b⟩ := flushEnd_done hT hi
        refine ⟨_, by rw [h00]; rfl, ?_, by rw [b]; omega⟩
        simpa [h00, ofDigits_nil] using a
    · rw [if_neg h0]
      obtain ⟨hi1, hcount1, hcounter1⟩ := addDigit_inv (cap := cap) hd.1 hi hc
      simp only []
      by_cases h1 : (s.addDigit c).count ≥ md
      · rw [if_pos h1]
        have h11 : md - s.count = 1 := by omega
        constructor
        · intro hlt; simp only [List.length_cons] at hlt; omega
        · intro _
          obtain ⟨a, b⟩ := flushEnd_done hT hi1
          refine ⟨_, by rw [h11]; rfl, ?_, by rw [b]; omega⟩
          have := ofDigits_cons_take c rest (Nat.zero_le _) n
          simp only [Nat.zero_add, pow_zero, Nat.mul_one, List.take_zero, ofDigits_nil,
            Nat.add_zero] at this
          rw [h11, this]; exact a
      · rw [if_neg h1]
        have hk : md - s.count = (md - (s.count + 1)) + 1 := by omega
        -- common continuation
        have key : ∀ s2 : PM, PMInv cap s2 (n * 10 + digitVal c) → s2.counter < 19 →
            s2.count = s.count + 1 →
            (s.count + (c :: rest).length < md → ∃ s', pmLoop cap T md rest s2 = .exhausted s' ∧
              PMInv cap s' (n * 10 ^ (c :: rest).length + ofDigits (c :: rest)) ∧ s'.counter < 19 ∧
              s'.count = s.count + (c :: rest).length) ∧
            (md ≤ s.count + (c :: rest).length → ∃ s', pmLoop cap T md rest s2 =
                .full s' ((c :: rest).drop (md - s.count)) ∧
              PMDone cap s' (n * 10 ^ (md - s.count) + ofDigits ((c :: rest).take (md - s.count))) ∧
              s'.count = md) := by
          intro s2 hi2 hc2 hcnt2
          obtain ⟨ihA, ihB⟩ := ih s2 _ hd.2 hi2 hc2 (by omega)
          simp only [List.length_cons]
          constructor
          · intro hlt
            obtain ⟨s', e, a, b, d⟩ := ihA (by omega)
            refine ⟨s', e, ?_, b, by omega⟩
            have : n * 10 ^ (rest.length + 1) + ofDigits (c :: rest) =
                (n * 10 + digitVal c) * 10 ^ rest.length + ofDigits rest := by
              rw [ofDigits_cons, pow_succ]; ring
            rw [this]; exact a
          · intro hge
            obtain ⟨s', e, a, d⟩ := ihB (by omega)
            refine ⟨s', ?_, ?_, d⟩
            · rw [e, hcnt2, hk, List.drop_succ_cons]
            · rw [hk, ofDigits_cons_take c rest (by omega) n, ← hcnt2]; exact a
        by_cases h2 : (s.addDigit c).counter ≥ pmStep
        · rw [if_pos h2]
          have h19 : (s.addDigit c).counter = 19 := by unfold pmStep at h2; omega
          obtain ⟨a, b, d⟩ := flushMax_inv hi1 h19
          exact key _ a (by omega) (by rw [b, hcount1])
        · rw [if_neg h2]
          exact key _ hi1 (by unfold pmStep at h2; omega) hcount1


/-- `round_up_nonzero!` -/
theorem roundUp_spec {cap : Option Nat} {s : PM} {n : Nat} (h : PMDone cap s n) (rest : List UInt8) :
    (rest.any (· != 48) = true → ∃ s', s.roundUpNonzero cap rest = some s' ∧
        PMDone cap s' (n * 10 + 1) ∧ s'.count = s.count + 1) ∧
    (rest.any (· != 48) = false → s.roundUpNonzero cap rest = none) := by
  unfold PM.roundUpNonzero
  constructor
  · intro ha
    rw [if_pos ha]
    refine ⟨_, rfl, ⟨h.trap, ?_, ?_⟩, rfl⟩
    · intro r' hr'
      have hr'' : pmMulAdd cap s.result 10 1 = some r' := hr'
      obtain ⟨r, hr, e, a, b, nn⟩ := pmMulAdd_spec (by unfold B; norm_num) (by norm_num)
        (by unfold B; norm_num)
        (fun r hr => ⟨(h.res r hr).1, (h.res r hr).2.1, (h.res r hr).2.2.1⟩) hr''
      exact ⟨a, b, nn, by rw [e, (h.res r hr).2.2.2]⟩
    · intro bound hr hb
      refine pmMulAdd_isSome hr (by unfold B; norm_num) (by norm_num) (by unfold B; norm_num)
        (fun r hr' => ?_) (h.tot bound hr (by omega))
      obtain ⟨a, b, nn, d⟩ := h.res r hr'
      exact ⟨a, b, nn, by omega⟩
  · intro ha
    rw [if_neg (by simp [ha])]

/-- the result `parse_mantissa` must produce on the significant digits `sig` (leading zeros
    stripped): everything when there are at most `md` digits; otherwise the first `md` digits,
    followed by a sticky `1` digit iff a non-zero digit was cut off. -/
def mantSpec (sig : List UInt8) (md : Nat) : Nat × Nat :=
  if sig.length ≤ md then (ofDigits sig, sig.length)
  else if (sig.drop md).any (· != 48) then (ofDigits (sig.take md) * 10 + 1, md + 1)
  else (ofDigits (sig.take md), md)

/-- the part of `parse_mantissa` after the first loop has been left through `break` -/
def pmFinish (cap : Option Nat) (T : PowTables) (md : Nat) (ds : List UInt8) (s : PM) : PM :=
  match pmLoop cap T md ds s with
  | .full s2 rest =>
    match s2.roundUpNonzero cap rest with
    | some s' => s'
    | none => s2
  | .exhausted s2 => s2.flushEnd cap T

theorem pmFinish_spec {cap : Option Nat} {T : PowTables} (hT : Pow10OK T) {md : Nat}
    (p ds : List UInt8) {s : PM} (hd : AllDigits ds) (hi : PMInv cap s (ofDigits p))
    (hc : s.counter < 19) (hcnt : s.count = p.length) (hle : p.length ≤ md) :
    PMDone cap (pmFinish cap T md ds s) (mantSpec (p ++ ds) md).1 ∧
    (pmFinish cap T md ds s).count = (mantSpec (p ++ ds) md).2 := by
  obtain ⟨hA, hB⟩ := pmLoop_spec hT md ds s _ hd hi hc (by omega)
  unfold pmFinish mantSpec
  rw [List.length_append]
  by_cases hlt : p.length + ds.length < md
  · obtain ⟨s', e, a, b, d⟩ := hA (by omega)
    rw [e, if_pos (by omega)]
    simp only []
    obtain ⟨a1, a2⟩ := flushEnd_done hT a
    rw [ofDigits_append]
    exact ⟨a1, by rw [a2, d, hcnt]⟩
  · obtain ⟨s', e, a, d⟩ := hB (by omega)
    rw [e]
    simp only []
    rw [hcnt] at a
    have htake : (p ++ ds).take md = p ++ ds.take (md - p.length) := by
      rw [List.take_append, List.take_of_length_le hle]
    have hdrop : (p ++ ds).drop md = ds.drop (md - p.length) := by
      rw [List.drop_append, List.drop_of_length_le hle, List.nil_append]
    have hval : ofDigits p * 10 ^ (md - p.length) + ofDigits (ds.take (md - p.length)) =
        ofDigits ((p ++ ds).take md) := by
      rw [htake, ofDigits_append, List.length_take, Nat.min_eq_left (by omega)]
    rw [hval] at a
    obtain ⟨rA, rB⟩ := roundUp_spec a (ds.drop (md - s.count))
    by_cases heq : p.length + ds.length ≤ md
    · have hnil : ds.drop (md - s.count) = [] := by
        rw [hcnt]; exact List.drop_of_length_le (by omega)
      rw [if_pos heq, rB (by rw [hnil]; rfl)]
      simp only []
      have : (p ++ ds).take md = p ++ ds := List.take_of_length_le (by rw [List.length_append]; omega)
      rw [this] at a
      exact ⟨a, by omega⟩
    · rw [if_neg heq, hdrop, ← hcnt]
      cases hany : (ds.drop (md - s.count)).any (· != 48) with
      | true =>
        obtain ⟨s'', e2, a2, d2⟩ := rA hany
        rw [e2]; simp only [if_true]
        exact ⟨a2, by omega⟩
      | false =>
        rw [rB hany]; simp only [Bool.false_eq_true, if_false]
        exact ⟨a, d⟩

theorem pmSkipZeros_eq : ∀ (frac : List UInt8) (s : PM),
    pmSkipZeros frac s =
      match frac.dropWhile (fun c => c == 48) with
      | [] => (s, [])
      | c :: rest => (s.addDigit c, rest) := by
  intro frac
  induction frac with
  | nil => intro s; rfl
  | cons c rest ih =>
    intro s
    unfold pmSkipZeros
    by_cases hc : c = 48
    · subst hc
      simp only [bne_self_eq_false, Bool.false_eq_true, if_false, List.dropWhile_cons, beq_self_eq_true,
        if_true]
      exact ih s
    · have h1 : (c != 48) = true := by simpa using hc
      have h2 : (c == 48) = false := by simpa using hc
      simp only [h1, if_true, List.dropWhile_cons, h2, Bool.false_eq_true, if_false]

theorem s0_inv (cap : Option Nat) : PMInv cap ⟨0, 0, 0, some [], false⟩ 0 := by
  refine ⟨by norm_num, by norm_num, rfl, ?_, fun _ _ _ => rfl⟩
  intro r hr
  simp only [Option.some.injEq] at hr
  subst hr
  refine ⟨(by intro x hx; cases hx), ?_, Or.inl rfl, (by simp [toNat])⟩
  cases cap <;> simp [capOk]

/-- **M1 / C06**: `parse_mantissa` on ASCII digit lists, any back-end, any `max_digits ≥ 1`. -/
theorem parseMantissaPM_spec {cap : Option Nat} {T : PowTables} (hT : Pow10OK T) {md : Nat}
    (hmd : 1 ≤ md) {int frac : List UInt8} (hi : AllDigits int) (hf : AllDigits frac)
    (h0 : int.head? ≠ some 48) :
    PMDone cap (parseMantissaPM cap T int frac md) (mantSpec (sigDigits int frac) md).1 ∧
    (parseMantissaPM cap T int frac md).count = (mantSpec (sigDigits int frac) md).2 := by
  obtain ⟨hA, hB⟩ := pmLoop_spec hT md int _ 0 hi (s0_inv cap) (by norm_num) (Nat.zero_le _)
  simp only [Nat.zero_add, Nat.sub_zero, Nat.zero_mul] at hA hB
  unfold parseMantissaPM
  simp only []
  by_cases hlt : int.length < md
  · obtain ⟨s, e, a, b, d⟩ := hA hlt
    rw [e]
    simp only []
    cases int with
    | nil =>
      simp only [List.length_nil] at d
      rw [if_pos d, pmSkipZeros_eq]
      show PMDone cap (pmFinish cap T md _ _) _ ∧ (pmFinish cap T md _ _).count = _
      rw [sigDigits_nil]
      rw [pmLoop.eq_1, if_neg (by simp; omega)] at e
      injection e with e
      subst e
      cases hsig : frac.dropWhile (fun c => c == 48) with
      | nil =>
        simp only []
        exact pmFinish_spec hT [] [] AllDigits.nil (s0_inv cap) (by norm_num) rfl (Nat.zero_le _)
      | cons c rest =>
        simp only []
        have hd : AllDigits (c :: rest) := by rw [← hsig]; exact AllDigits.dropWhile _ hf
        rw [AllDigits.cons_iff] at hd
        obtain ⟨i1, c1, c2⟩ := addDigit_inv (cap := cap) hd.1 (s0_inv cap) (by norm_num)
        have := pmFinish_spec hT [c] rest hd.2 (s := PM.addDigit ⟨0, 0, 0, some [], false⟩ c)
          (by simpa [ofDigits_cons, ofDigits_nil] using i1) (by rw [c2]; norm_num) c1 hmd
        exact this
    | cons c int =>
      have hne : ¬ s.count = 0 := by rw [d]; simp
      rw [if_neg hne]
      show PMDone cap (pmFinish cap T md _ _) _ ∧ (pmFinish cap T md _ _).count = _
      have hc0 : c ≠ 48 := by intro hc; subst hc; exact h0 rfl
      rw [sigDigits_cons int frac hc0]
      have a' : PMInv cap s (ofDigits (c :: int)) := by simpa using a
      exact pmFinish_spec hT (c :: int) frac hf a' b d (by omega)
  · obtain ⟨s, e, a, d⟩ := hB (by omega)
    rw [e]
    simp only []
    cases int with
    | nil => simp at hlt; omega
    | cons c int =>
      have hc0 : c ≠ 48 := by intro hc; subst hc; exact h0 rfl
      rw [sigDigits_cons int frac hc0]
      generalize hI : c :: int = I at *
      have hlen : md ≤ I.length := by omega
      have htake : (I ++ frac).take md = I.take md := by
        rw [List.take_append, show md - I.length = 0 by omega, List.take_zero, List.append_nil]
      have hdrop : (I ++ frac).drop md = I.drop md ++ frac := by
        rw [List.drop_append, show md - I.length = 0 by omega, List.drop_zero]
      unfold mantSpec
      rw [htake, hdrop, List.any_append, List.length_append]
      obtain ⟨rA, rB⟩ := roundUp_spec a (I.drop md)
      obtain ⟨fA, fB⟩ := roundUp_spec a frac
      cases h1 : (I.drop md).any (· != 48) with
      | true =>
        obtain ⟨s', e1, a1, d1⟩ := rA h1
        rw [e1]; simp only [Bool.true_or, if_true]
        have : ¬ I.length + frac.length ≤ md := by
          intro hh
          have : I.drop md = [] := List.drop_of_length_le (by omega)
          rw [this] at h1; simp at h1
        rw [if_neg this]
        exact ⟨a1, by omega⟩
      | false =>
        rw [rB h1]; simp only [Bool.false_or]
        cases h2 : frac.any (· != 48) with
        | true =>
          obtain ⟨s', e1, a1, d1⟩ := fA h2
          rw [e1]; simp only [if_true]
          have : ¬ I.length + frac.length ≤ md := by
            intro hh
            have : frac = [] := List.eq_nil_of_length_eq_zero (by omega)
            rw [this] at h2; simp at h2
          rw [if_neg this]
          exact ⟨a1, by omega⟩
        | false =>
          rw [fB h2]; simp only [Bool.false_eq_true, if_false]
          by_cases hle : I.length + frac.length ≤ md
          · rw [if_pos hle]
            have hf0 : frac = [] := List.eq_nil_of_length_eq_zero (by omega)
            have : I.take md = I := List.take_of_length_le (by omega)
            rw [this] at a
            subst hf0
            simp only [List.append_nil, List.length_nil, Nat.add_zero]
            exact ⟨a, by simp at hle; omega⟩
          · rw [if_neg hle]
            exact ⟨a, d⟩


/-- partial correctness on every back-end: a returned big integer is right -/
theorem parseMantissa_some {cap : Option Nat} {T : PowTables} (hT : Pow10OK T) {md : Nat}
    (hmd : 1 ≤ md) {int frac : List UInt8} (hi : AllDigits int) (hf : AllDigits frac)
    (h0 : int.head? ≠ some 48) {r : Big} {count : Nat}
    (h : parseMantissa cap T int frac md = some (r, count)) :
    toNat r = (mantSpec (sigDigits int frac) md).1 ∧ count = (mantSpec (sigDigits int frac) md).2 ∧
    AllLt r ∧ capOk cap r.length = true ∧ NormOK r := by
  obtain ⟨a, b⟩ := parseMantissaPM_spec (cap := cap) hT hmd hi hf h0
  unfold parseMantissa at h
  simp only at h
  split at h
  · simp at h
  · next r' hr' =>
    simp only [Option.some.injEq, Prod.mk.injEq] at h
    obtain ⟨rfl, rfl⟩ := h
    obtain ⟨c1, c2, c3, c4⟩ := a.res _ hr'
    exact ⟨c4, b, c1, c2, c3⟩

/-- totality on the heap back-end -/
theorem parseMantissa_heap {T : PowTables} (hT : Pow10OK T) {md : Nat}
    (hmd : 1 ≤ md) {int frac : List UInt8} (hi : AllDigits int) (hf : AllDigits frac)
    (h0 : int.head? ≠ some 48) : ∃ r count, parseMantissa none T int frac md = some (r, count) := by
  obtain ⟨a, _⟩ := parseMantissaPM_spec (cap := none) hT hmd hi hf h0
  have := a.tot _ (capRoom_none _) (Nat.lt_succ_self _)
  unfold parseMantissa
  simp only
  cases hr : (parseMantissaPM none T int frac md).result with
  | none => rw [hr] at this; simp at this
  | some r => exact ⟨r, _, rfl⟩

/-- totality on any back-end that has room for every normalised big integer below `bound`, when
    the result is below `bound` -/
theorem parseMantissa_total {cap : Option Nat} {T : PowTables} (hT : Pow10OK T) {md : Nat}
    (hmd : 1 ≤ md) {int frac : List UInt8} (hi : AllDigits int) (hf : AllDigits frac)
    (h0 : int.head? ≠ some 48) {bound : Nat} (hroom : CapRoom cap bound)
    (hb : (mantSpec (sigDigits int frac) md).1 < bound) :
    ∃ r count, parseMantissa cap T int frac md = some (r, count) := by
  obtain ⟨a, _⟩ := parseMantissaPM_spec (cap := cap) hT hmd hi hf h0
  have := a.tot _ hroom hb
  unfold parseMantissa
  simp only
  cases hr : (parseMantissaPM cap T int frac md).result with
  | none => rw [hr] at this; simp at this
  | some r => exact ⟨r, _, rfl⟩

/-- the result has as many decimal digits as `count` says -/
theorem mantSpec_lt {sig : List UInt8} (hd : AllDigits sig) (md : Nat) :
    (mantSpec sig md).1 < 10 ^ (mantSpec sig md).2 ∧ (mantSpec sig md).2 ≤ md + 1 := by
  unfold mantSpec
  have h1 := ofDigits_lt hd
  have h2 := ofDigits_lt (AllDigits.take md hd)
  rw [List.length_take] at h2
  split
  · exact ⟨h1, by simp only; omega⟩
  · rw [Nat.min_eq_left (by omega)] at h2
    split
    · refine ⟨?_, by simp only; omega⟩
      simp only [pow_succ]; omega
    · exact ⟨h2, by simp only; omega⟩

/-- a checked build does not trap in `parse_mantissa` on digit input -/
theorem parseMantissaPM_noTrap {cap : Option Nat} {T : PowTables} (hT : Pow10OK T) {md : Nat}
    (hmd : 1 ≤ md) {int frac : List UInt8} (hi : AllDigits int) (hf : AllDigits frac)
    (h0 : int.head? ≠ some 48) : (parseMantissaPM cap T int frac md).trap = false :=
  (parseMantissaPM_spec (cap := cap) hT hmd hi hf h0).1.trap

-- ================================================================ 2. scientific_exponent
theorem wrapI32_id {x : Int} (h1 : i32Min ≤ x) (h2 : x ≤ i32Max) : wrapI32 x = x := by
  unfold wrapI32 i32Min i32Max at *
  simp only
  split <;> omega

/-- one power-reduction loop of `scientific_exponent`: `step·q + rem` digits after the first -/
theorem sciLoop_spec (step lim : Nat) (hstep : 0 < step) (hlim : lim = 10 ^ step) :
    ∀ (fuel q rem m : Nat) (e : Int), 10 ^ (step * q + rem) ≤ m → m < 10 ^ (step * q + rem + 1) →
      rem < step → q ≤ fuel → i32Min ≤ e → e + (step * q : Nat) ≤ i32Max →
      sciLoop step lim fuel m e = (m / 10 ^ (step * q), e + (step * q : Nat)) ∧
      10 ^ rem ≤ m / 10 ^ (step * q) ∧ m / 10 ^ (step * q) < 10 ^ (rem + 1) := by
  subst hlim
  intro fuel
  induction fuel with
  | zero =>
    intro q rem m e h1 h2 _ hq _ _
    have : q = 0 := by omega
    subst this
    simp only [Nat.mul_zero, Nat.zero_add, pow_zero, Nat.div_one] at *
    exact ⟨by simp [sciLoop], h1, h2⟩
  | succ fuel ih =>
    intro q rem m e h1 h2 hrem hq he1 he2
    cases q with
    | zero =>
      simp only [Nat.mul_zero, Nat.zero_add, pow_zero, Nat.div_one] at *
      have hlt : ¬ m ≥ 10 ^ step := by
        have : 10 ^ (rem + 1) ≤ 10 ^ step := Nat.pow_le_pow_right (by omega) (by omega)
        omega
      refine ⟨by simp [sciLoop, hlt], h1, h2⟩
    | succ q =>
      have e1 : step * (q + 1) + rem = step + (step * q + rem) := by ring
      have hge : m ≥ 10 ^ step := by
        have : 10 ^ step ≤ 10 ^ (step * (q + 1) + rem) := Nat.pow_le_pow_right (by omega) (by omega)
        omega
      have hp : 0 < 10 ^ step := Nat.pow_pos (by omega)
      have a1 : 10 ^ (step * q + rem) ≤ m / 10 ^ step := by
        rw [Nat.le_div_iff_mul_le hp, ← pow_add, Nat.add_comm, ← e1]; exact h1
      have a2 : m / 10 ^ step < 10 ^ (step * q + rem + 1) := by
        rw [Nat.div_lt_iff_lt_mul hp, ← pow_add, show step * q + rem + 1 + step = step * (q + 1) + rem + 1 by ring]
        exact h2
      have hc : ((step * (q + 1) : Nat) : Int) = (step : Int) + ((step * q : Nat) : Int) := by
        push_cast; ring
      have hw : wrapI32 (e + step) = e + step := wrapI32_id (by omega) (by omega)
      obtain ⟨b1, b2, b3⟩ := ih q rem (m / 10 ^ step) (e + step) a1 a2 hrem (by omega) (by omega) (by omega)
      have e2 : m / 10 ^ (step * (q + 1)) = m / 10 ^ step / 10 ^ (step * q) := by
        rw [Nat.div_div_eq_div_mul, ← pow_add]; congr 2; ring
      rw [e2]
      refine ⟨?_, b2, b3⟩
      simp only [sciLoop, hge, if_true, hw, b1, Prod.mk.injEq, true_and]
      omega

/-- **M2**: `scientific_exponent` is the decimal exponent of the leading digit: for a mantissa with
    `d + 1` decimal digits the result is `exponent + d`, with no `i32` wrap. -/
theorem scientificExponent_eq {num : Number} {d : Nat} (h1 : 10 ^ d ≤ num.mantissa)
    (h2 : num.mantissa < 10 ^ (d + 1)) (hd : d ≤ 32) (he1 : i32Min ≤ num.exponent)
    (he2 : num.exponent + d ≤ i32Max) : scientificExponent num = num.exponent + d := by
  unfold scientificExponent
  simp only
  obtain ⟨a1, a2, a3⟩ := sciLoop_spec 4 10000 (by omega) (by norm_num) 8 (d / 4) (d % 4) num.mantissa num.exponent
    (by rw [Nat.div_add_mod]; exact h1) (by rw [Nat.div_add_mod]; exact h2)
    (Nat.mod_lt _ (by omega)) (by omega) he1 (by omega)
  rw [a1]
  simp only
  obtain ⟨b1, b2, b3⟩ := sciLoop_spec 2 100 (by omega) (by norm_num) 4 (d % 4 / 2) (d % 4 % 2)
    (num.mantissa / 10 ^ (4 * (d / 4))) (num.exponent + (4 * (d / 4) : Nat))
    (by rw [Nat.div_add_mod]; exact a2) (by rw [Nat.div_add_mod]; exact a3)
    (Nat.mod_lt _ (by omega)) (by omega) (by omega) (by omega)
  rw [b1]
  simp only
  obtain ⟨c1, _, _⟩ := sciLoop_spec 1 10 (by omega) (by norm_num) 4 (d % 4 % 2) 0
    (num.mantissa / 10 ^ (4 * (d / 4)) / 10 ^ (2 * (d % 4 / 2)))
    (num.exponent + (4 * (d / 4) : Nat) + (2 * (d % 4 / 2) : Nat))
    (by simpa using b2) (by simpa using b3) (by omega) (by omega) (by omega) (by omega)
  rw [c1]
  simp only
  omega

-- ================================================================ 4. positive_digit_comp
/-- round-half-even of `N / 2^(s+t)` from the top bits `N / 2^s` of `N` plus a sticky flag:
    when some bit below the kept ones is set, the quotient is never a tie and rounds up exactly
    when the kept remainder is at least one half. -/
theorem rhe_sticky {N s t : Nat} (ht : 1 ≤ t) (hrem : N % 2 ^ s ≠ 0) :
    rhe N (2 ^ (s + t)) =
      N / 2 ^ s / 2 ^ t + (if N / 2 ^ s % 2 ^ t ≥ 2 ^ (t - 1) then 1 else 0) := by
  have hP : 0 < 2 ^ s := Nat.two_pow_pos s
  have hH : 0 < 2 ^ (t - 1) := Nat.two_pow_pos _
  have hT : 2 ^ t = 2 * 2 ^ (t - 1) := by
    rw [Nat.mul_comm, ← Nat.pow_succ]; congr 1; omega
  generalize hPd : 2 ^ s = P at *
  generalize hHd : 2 ^ (t - 1) = H at *
  have e0 : 2 ^ (s + t) = 2 * H * P := by rw [Nat.pow_add, hPd, hT, Nat.mul_comm]
  rw [e0, hT]
  have d1 := Nat.div_add_mod N P
  have d2 := Nat.div_add_mod (N / P) (2 * H)
  have m1 := Nat.mod_lt N hP
  have m2 := Nat.mod_lt (N / P) (show 0 < 2 * H by omega)
  generalize N / P = M at *
  generalize N % P = rem at *
  generalize M / (2 * H) = q at *
  generalize M % (2 * H) = r at *
  have hr1 : r * P + P ≤ 2 * H * P := by
    have := Nat.mul_le_mul_right P (show r + 1 ≤ 2 * H by omega)
    rw [Nat.add_mul, Nat.one_mul] at this; exact this
  have hdm : N / (2 * H * P) = q ∧ N % (2 * H * P) = r * P + rem := by
    rw [Nat.div_mod_unique (by positivity)]
    constructor
    · rw [← d1, ← d2]; ring
    · omega
  unfold rhe
  simp only [hdm.1, hdm.2]
  by_cases hge : r ≥ H
  · have := Nat.mul_le_mul_right P hge
    have e1 : 2 * H * P = 2 * (H * P) := by ring
    rw [if_pos hge, if_pos (Or.inl (by omega))]
  · have : r * P + P ≤ H * P := by
      have := Nat.mul_le_mul_right P (show r + 1 ≤ H by omega)
      rw [Nat.add_mul, Nat.one_mul] at this; exact this
    have e1 : 2 * H * P = 2 * (H * P) := by ring
    rw [if_neg hge, if_neg (by omega), Nat.add_zero]

theorem cbTruncatedAbove_false : cbTruncatedAbove false = cbNearestEven := by
  funext a b c; simp [cbTruncatedAbove, cbNearestEven]

theorem bias_pos {F : FloatC} (h : F.WF) : 1 ≤ F.exponentBias := by
  rw [h.bias]
  have : (0 : Int) < 2 ^ (F.ebits - 1) := by positivity
  have := h.ms_pos
  omega

/-- `ulpExp` of a natural number with `64 + s` bits, in the notation of C18 -/
theorem ulpExp_nat_bits {F : FloatC} (h : F.WF) {N s : Nat} (hlo : 2 ^ (63 + s) ≤ N)
    (hhi : N < 2 ^ (64 + s)) :
    ulpExp F.fmt ⟨N, 1⟩ = F.fmt.kmin + expOff F (s + F.exponentBias) ∧
    F.fmt.kmin + expOff F (s + F.exponentBias) = ((s + specShift F (s + F.exponentBias) : Nat) : Int) := by
  have hN : N ≠ 0 := by have := Nat.two_pow_pos (63 + s); omega
  have hlog : Nat.log2 N = 63 + s := (Nat.log2_eq_iff hN).mpr ⟨hlo, by rw [show 63 + s + 1 = 64 + s by omega]; exact hhi⟩
  obtain ⟨a, b⟩ := ulpExp_ofDyadic h (mant := 2 ^ 63) (Nat.le_refl _) (by norm_num) (s + F.exponentBias)
  have e : (s : Int) + F.exponentBias - F.exponentBias = s := by omega
  rw [e] at a b
  constructor
  · rw [← a]
    unfold ulpExp
    rw [flog2_ofDyadic (Nat.le_refl _) (by norm_num)]
    show max (flog2 N 1 - _) _ = _
    rw [flog2_nat hN, hlog]
    push_cast; rfl
  · push_cast; omega

/-- the exact top 64 bits of a natural number `N` (left-aligned) plus a sticky flag for the
    remaining bits determine the correctly rounded float of `N` -/
theorem round_topbits {F : FloatC} (hF : F.WF) {N mant : Nat} {sticky : Bool} (hN : N ≠ 0)
    (hm : 2 ^ 63 ≤ mant) (hm' : mant < 2 ^ 64)
    (hhi : 64 ≤ Nat.log2 N + 1 → mant = N / 2 ^ (Nat.log2 N + 1 - 64) ∧
        sticky = decide (N % 2 ^ (Nat.log2 N + 1 - 64) ≠ 0))
    (hlo : Nat.log2 N + 1 < 64 → mant = N * 2 ^ (64 - (Nat.log2 N + 1)) ∧ sticky = false) :
    extendedToFloat F (round F (roundNearestTieEven (cbTruncatedAbove sticky))
        ⟨mant, ((Nat.log2 N + 1 : Nat) : Int) - 64 + F.exponentBias⟩) = rne F.fmt ⟨N, 1⟩ := by
  have hb := bias_pos hF
  have hexp : -63 ≤ ((Nat.log2 N + 1 : Nat) : Int) - 64 + F.exponentBias := by omega
  have hlog1 := Nat.log2_self_le hN
  have hlog2 := Nat.lt_log2_self (n := N)
  cases sticky with
  | false =>
    rw [cbTruncatedAbove_false, C18_round_nearest hF hm hm' hexp]
    apply rne_congr _ (MinLex.ofDyadic_den_pos _ _) Nat.one_pos
    unfold Q.eqv ofDyadic
    by_cases hL : 64 ≤ Nat.log2 N + 1
    · obtain ⟨e1, e2⟩ := hhi hL
      have hz : N % 2 ^ (Nat.log2 N + 1 - 64) = 0 := by simpa using e2.symm
      have hj : ((Nat.log2 N + 1 : Nat) : Int) - 64 + F.exponentBias - F.exponentBias ≥ 0 := by omega
      rw [if_pos hj]
      have : (((Nat.log2 N + 1 : Nat) : Int) - 64 + F.exponentBias - F.exponentBias).toNat =
          Nat.log2 N + 1 - 64 := by omega
      simp only [this, Nat.mul_one]
      have := Nat.div_add_mod N (2 ^ (Nat.log2 N + 1 - 64))
      rw [hz, Nat.add_zero, ← e1] at this
      rw [Nat.mul_comm]; exact this
    · obtain ⟨e1, _⟩ := hlo (by omega)
      have hj : ¬ ((Nat.log2 N + 1 : Nat) : Int) - 64 + F.exponentBias - F.exponentBias ≥ 0 := by omega
      rw [if_neg hj]
      have : (-(((Nat.log2 N + 1 : Nat) : Int) - 64 + F.exponentBias - F.exponentBias)).toNat =
          64 - (Nat.log2 N + 1) := by omega
      simp only [this, Nat.mul_one]
      exact e1
  | true =>
    have hL : 64 ≤ Nat.log2 N + 1 := by
      by_contra hc
      have := (hlo (by omega)).2
      simp at this
    obtain ⟨e1, e2⟩ := hhi hL
    have hz : N % 2 ^ (Nat.log2 N + 1 - 64) ≠ 0 := by simpa using e2.symm
    obtain ⟨s, hs⟩ : ∃ s, Nat.log2 N + 1 - 64 = s := ⟨_, rfl⟩
    have hls : Nat.log2 N = 63 + s := by omega
    rw [hs] at e1 hz
    have hexpeq : ((Nat.log2 N + 1 : Nat) : Int) - 64 + F.exponentBias = s + F.exponentBias := by
      omega
    rw [hexpeq] at hexp ⊢
    obtain ⟨t1, t64⟩ := specShift_bounds hF hexp
    obtain ⟨u1, u2⟩ := ulpExp_nat_bits hF (N := N) (s := s) (by rw [← hls]; exact hlog1)
      (by rw [show 64 + s = Nat.log2 N + 1 by omega]; exact hlog2)
    rw [C18_round_callback hF hm hm' hexp, rneTrunc_ofDyadic hF hm hm', rne_of_num_ne _ (show (⟨N, 1⟩ : Q).num ≠ 0 from hN),
      u1, u2]
    have hk : (F.fmt.kmin + (expOff F (s + F.exponentBias) : Int) - F.fmt.kmin).toNat =
        expOff F (s + F.exponentBias) := by omega
    have hk2 : (((s + specShift F (s + F.exponentBias) : Nat) : Int) - F.fmt.kmin).toNat =
        expOff F (s + F.exponentBias) := by rw [← u2]; exact hk
    have hsc : scaleP2 ⟨N, 1⟩ ((s + specShift F (s + F.exponentBias) : Nat) : Int) =
        (N, 2 ^ (s + specShift F (s + F.exponentBias))) := by
      unfold scaleP2
      rw [if_pos (Int.natCast_nonneg _), Int.toNat_natCast, Nat.one_mul]
    rw [hsc, hk2]
    simp only
    rw [rhe_sticky t1 hz, ← e1]
    generalize specShift F (s + F.exponentBias) = t at *
    have hT : 2 ^ t = 2 * 2 ^ (t - 1) := by
      rw [Nat.mul_comm, ← Nat.pow_succ]; congr 1; omega
    have hr := Nat.mod_lt mant (Nat.two_pow_pos t)
    have hd : (if cbTruncatedAbove true (mant / 2 ^ t % 2 == 1) (mant % 2 ^ t == 2 ^ (t - 1))
          (decide (mant % 2 ^ t > 2 ^ (t - 1))) = true then 1 else 0) =
        (if mant % 2 ^ t ≥ 2 ^ (t - 1) then 1 else 0) := by
      unfold cbTruncatedAbove
      by_cases h1 : mant % 2 ^ t > 2 ^ (t - 1)
      · simp [h1, Nat.le_of_lt h1]
      · by_cases h2 : mant % 2 ^ t = 2 ^ (t - 1)
        · simp [h2]
        · have : ¬ mant % 2 ^ t ≥ 2 ^ (t - 1) := by omega
          simp [h1, h2, this]
    rw [hd]
    show _ = min (_ + _ * 2 ^ F.mantissaSize) _
    split <;> omega

/-- **M4**: `positive_digit_comp` returns the correctly rounded value of `bigmant · 10^exponent`. -/
theorem positiveDigitComp_spec {cap : Option Nat} {T : PowTables} {F : FloatC}
    (hT : T.compact = false → PowTablesOK T) (hF : F.WF) {bigmant : Big} (hx : AllLt bigmant)
    (hn : TopNZ bigmant) (hc : capOk cap bigmant.length = true) {exponent : Int}
    (h0 : 0 ≤ exponent) (h1 : exponent < 4294967296) {fp : ExtFloat}
    (h : positiveDigitComp cap T F bigmant exponent = some fp) :
    extendedToFloat F fp = rne F.fmt ⟨toNat bigmant * 10 ^ exponent.toNat, 1⟩ := by
  have hnz : toNat bigmant ≠ 0 := (Nat.lt_of_lt_of_le (Bpow_pos _) hn.2).ne'
  unfold positiveDigitComp at h
  have he : (exponent % 4294967296).toNat = exponent.toNat := by
    rw [Int.emod_eq_of_lt h0 h1]
  rw [he] at h
  split at h
  · simp at h
  · next bm hbm =>
    simp only [Option.some.injEq] at h
    subst h
    obtain ⟨a, b, c⟩ := C12.bigintPow_exact_partial hT (Or.inr (Or.inr rfl)) hx hnz hc hbm
    have ht := bigintPow_topNZ hT (Or.inr (Or.inr rfl)) hx hn hc hbm
    have hnorm := normalized_of_topNZ b ht
    have hN : toNat bm ≠ 0 := (Nat.lt_of_lt_of_le (Bpow_pos _) ht.2).ne'
    have hbl := C12.bitLength_exact b hnorm ht.1
    obtain ⟨p1, p2⟩ := C12.hi64_exact b hnorm ht.1
    obtain ⟨q1, q2⟩ := C12.hi64_normalized b hnorm ht.1
    rw [hbl] at p1 p2 ⊢
    rw [← a]
    exact round_topbits hF hN q1 q2 p1 p2

theorem positiveDigitComp_heap (T : PowTables) (F : FloatC) (bigmant : Big) (exponent : Int) :
    ∃ fp, positiveDigitComp none T F bigmant exponent = some fp := by
  unfold positiveDigitComp
  obtain ⟨bm, hbm⟩ := (C12.heap_total T bigmant [] 0 (exponent % 4294967296).toNat 10).2.2.2.2.2.2.2.2.2.2.2
  rw [hbm]
  exact ⟨_, rfl⟩

-- ================================================================ 5. negative_digit_comp
/-! ### spec side: `rne` against the midpoint above an arbitrary finite float -/

theorem decodeQ_infBits_ge (f : Fmt) (hE : 2 ≤ f.ebits) : Q.le f.infThreshold (decodeQ f f.infBits) := by
  rw [Q.le_iff (infThreshold_den_pos f) (decodeQ_den_pos _ _)]
  obtain ⟨n, hn1, hn2, hn3⟩ := fmt_facts f hE
  obtain ⟨c, _, _, _, _, _, hlt⟩ := infThreshold_facts f
  have hdec : decode f f.infBits = (2 ^ f.mbits, f.kmin + n + 1) := by
    have := decode_encode f (q := 2 ^ f.mbits) (k := f.kmin + n + 1) (by omega)
      (by rw [Nat.pow_succ]; have := Nat.two_pow_pos f.mbits; omega) (Or.inr (Nat.le_refl _))
    have e : (f.kmin + (n : Int) + 1 - f.kmin).toNat = n + 1 := by omega
    rw [e] at this
    rw [hn3, ← this]; congr 1; ring
  rw [decodeQ_toRat, hdec]
  simp only
  have e : f.kmin + (n : Int) + 1 = f.kmax + 1 := by omega
  rw [e]
  have : ((2 ^ f.mbits : Nat) : ℚ) * (2 : ℚ) ^ (f.kmax + 1) = (2 : ℚ) ^ (f.kmax + f.mbits + 1) := by
    push_cast
    rw [← zpow_natCast, ← zpow_add₀ (by norm_num)]; congr 1; ring
  rw [this]; exact hlt.le

/-- above the midpoint: at least the successor -/
theorem succ_le_rne_of_mid_lt (f : Fmt) (hE : 2 ≤ f.ebits) {v : Q} (hv : 0 < v.den) {b : Nat}
    (hb : b < f.infBits) (h : Q.lt (midpoint f b) v) : b + 1 ≤ rne f v := by
  obtain ⟨m1, m2⟩ := midpoint_between f b
  have h' := (Q.lt_iff (midpoint_den_pos _ _) hv).1 h
  by_cases hlt : Q.lt v (decodeQ f (b + 1))
  · have := (rne_of_between f hv hb ((Q.le_iff (decodeQ_den_pos _ _) hv).2 (by linarith)) hlt).2.1 h
    omega
  · have hle : Q.le (decodeQ f (b + 1)) v := by
      by_contra hc; exact hlt (Q.lt_iff_not_le.2 hc)
    have hmono := rne_mono f (decodeQ_den_pos f (b + 1)) hv hle
    by_cases hfin : b + 1 < f.infBits
    · rw [(rne_decode f hfin).1] at hmono; exact hmono
    · have hbe : b + 1 = f.infBits := by omega
      rw [hbe] at hmono ⊢
      have := (rne_eq_inf_iff f hE (decodeQ_den_pos f f.infBits)).2 (decodeQ_infBits_ge f hE)
      omega

/-- below the midpoint: at most the float itself -/
theorem rne_le_of_lt_mid (f : Fmt) {v : Q} (hv : 0 < v.den) {b : Nat}
    (hb : b < f.infBits) (h : Q.lt v (midpoint f b)) : rne f v ≤ b := by
  obtain ⟨m1, m2⟩ := midpoint_between f b
  have h' := (Q.lt_iff hv (midpoint_den_pos _ _)).1 h
  by_cases hge : Q.le (decodeQ f b) v
  · have := (rne_of_between f hv hb hge
      ((Q.lt_iff hv (decodeQ_den_pos _ _)).2 (by linarith))).1 h
    omega
  · have hle : Q.le v (decodeQ f b) := by
      rcases Q.le_total v (decodeQ f b) with h1 | h1
      · exact h1
      · exact absurd h1 hge
    have hmono := rne_mono f hv (decodeQ_den_pos f b) hle
    rw [(rne_decode f hb).1] at hmono; exact hmono

/-- on the midpoint: the even neighbour -/
theorem rne_of_eqv_mid (f : Fmt) {v : Q} (hv : 0 < v.den) {b : Nat}
    (hb : b < f.infBits) (h : Q.eqv v (midpoint f b)) :
    rne f v = if (decode f b).1 % 2 = 0 then b else b + 1 := by
  obtain ⟨m1, m2⟩ := midpoint_between f b
  have h' := (Q.eqv_iff hv (midpoint_den_pos _ _)).1 h
  exact (rne_of_between f hv hb ((Q.le_iff (decodeQ_den_pos _ _) hv).2 (by linarith))
    ((Q.lt_iff hv (decodeQ_den_pos _ _)).2 (by linarith))).2.2 h

/-- what the `Ordering` callback adds to the truncated pattern -/
def ordDelta (ord : Ordering) (b : Nat) : Nat :=
  match ord with
  | .gt => 1
  | .lt => 0
  | .eq => b % 2

/-- The decision of the slow path: if the correctly rounded result is known to be the float `b`
    or its successor, comparing `v` with the midpoint above `b` identifies it. -/
theorem rne_by_ordering (f : Fmt) (hE : 2 ≤ f.ebits) (hM : 1 ≤ f.mbits) {v : Q} (hv : 0 < v.den)
    {b : Nat} (hb : b ≤ f.infBits) (hor : rne f v = b ∨ rne f v = b + 1) (ord : Ordering)
    (hlt : ord = .lt → Q.lt v (midpoint f b)) (hgt : ord = .gt → Q.lt (midpoint f b) v)
    (heq : ord = .eq → Q.eqv v (midpoint f b)) :
    min (b + ordDelta ord b) f.infBits = rne f v := by
  unfold ordDelta
  have hinf := rne_le_inf f v
  rcases Nat.lt_or_ge b f.infBits with hfin | hge
  · cases ord with
    | lt =>
      have := rne_le_of_lt_mid f hv hfin (hlt rfl)
      simp only; omega
    | gt =>
      have := succ_le_rne_of_mid_lt f hE hv hfin (hgt rfl)
      simp only; omega
    | eq =>
      have := rne_of_eqv_mid f hv hfin (heq rfl)
      rw [decode_parity f hM] at this
      simp only
      rcases Nat.mod_two_eq_zero_or_one b with h0 | h0
      · rw [h0] at this ⊢; simp only [if_true] at this; omega
      · rw [h0] at this ⊢; simp at this; omega
  · have : b = f.infBits := by omega
    subst this
    have : rne f v = f.infBits := by omega
    rw [this]
    cases ord <;> simp only <;> omega

/-! ### code side -/

/-- `C18_round_ordering` extended to the boundary exponent `-64` of the hand-off contract (shift 65
    clamped to 64: the kept significand is 0, the `Equal` tie goes to the even pattern 0). -/
theorem round_ordering_ext {F : FloatC} (h : F.WF) {mant : Nat} {exp : Int} (hm : 2 ^ 63 ≤ mant)
    (hm' : mant < 2 ^ 64) (hexp : -64 ≤ exp) (ord : Ordering) :
    extendedToFloat F (round F (roundNearestTieEven (cbOrdering ord)) ⟨mant, exp⟩) =
      min (rneTrunc F.fmt (ofDyadic mant (exp - F.exponentBias)) +
            (match ord with
              | .gt => 1
              | .lt => 0
              | .eq => rneTrunc F.fmt (ofDyadic mant (exp - F.exponentBias)) % 2))
          F.fmt.infBits := by
  by_cases h63 : -63 ≤ exp
  · exact C18_round_ordering h hm hm' h63 ord
  · have he : exp = -64 := by omega
    subst he
    have hms := h.ms_le
    have hS : specShift F (-64) = 65 := by
      unfold specShift; rw [if_pos (by omega)]; rfl
    have hO : expOff F (-64) = 0 := by
      unfold expOff; rw [if_pos (by omega)]
    have hq : mant / 2 ^ 65 = 0 := Nat.div_eq_of_lt (by omega)
    have hq64 : mant / 2 ^ 64 = 0 := Nat.div_eq_of_lt hm'
    rw [rneTrunc_ofDyadic h hm hm', hS, hO, hq]
    have hpack := round_pack h hm hm' (roundNearestTieEven (cbOrdering ord))
      (match ord with | .gt => 1 | _ => 0)
      (by
        rw [hS, show min 65 64 = 64 by decide, roundNearestTieEven_eq _ _ (by decide) (by decide) hm', hq64]
        cases ord <;> simp [cbOrdering])
      (by rw [hS, hq]; exact Nat.zero_le _)
      (by rw [hS, hq]; cases ord <;> simp)
    rw [hpack, hO]
    have hinf := infBits_pos F.fmt (by have := h.eb_ge; exact Nat.le_of_lt this)
    cases ord <;> simp

/-- the comparison the code makes on scaled integers is the comparison of the values:
    `M·10^-E − W·2^kk` is a positive multiple of `M·2^a − W·5^E·2^b` when `b − a = kk + E` -/
theorem scaled_diff (M W E a b : Nat) (kk : Int) (hab : (b : Int) - a = kk + E) :
    ∃ c : ℚ, 0 < c ∧ (M : ℚ) * (10 : ℚ) ^ (-(E : Int)) - (W : ℚ) * (2 : ℚ) ^ kk =
      c * (((M * 2 ^ a : Nat) : ℚ) - ((W * 5 ^ E * 2 ^ b : Nat) : ℚ)) := by
  refine ⟨((10 : ℚ) ^ E)⁻¹ * ((2 : ℚ) ^ a)⁻¹, by positivity, ?_⟩
  have hk : kk = (b : Int) - a - E := by omega
  rw [hk, zpow_neg, zpow_natCast, zpow_sub₀ (by norm_num), zpow_sub₀ (by norm_num), zpow_natCast,
    zpow_natCast, zpow_natCast]
  have h10 : (10 : ℚ) ^ E = 2 ^ E * 5 ^ E := by rw [← mul_pow]; norm_num
  rw [h10]
  push_cast
  field_simp

theorem compare_scaled {M W E a b : Nat} {kk : Int} (hab : (b : Int) - a = kk + E)
    {v mid : Q} (hv : 0 < v.den) (hmid : 0 < mid.den)
    (hvr : v.toRat = (M : ℚ) * (10 : ℚ) ^ (-(E : Int))) (hmr : mid.toRat = (W : ℚ) * (2 : ℚ) ^ kk) :
    (compare (M * 2 ^ a) (W * 5 ^ E * 2 ^ b) = .lt → Q.lt v mid) ∧
    (compare (M * 2 ^ a) (W * 5 ^ E * 2 ^ b) = .gt → Q.lt mid v) ∧
    (compare (M * 2 ^ a) (W * 5 ^ E * 2 ^ b) = .eq → Q.eqv v mid) := by
  obtain ⟨c, hc, hid⟩ := scaled_diff M W E a b kk hab
  rw [← hvr, ← hmr] at hid
  rw [Nat.compare_eq_lt, Nat.compare_eq_gt, Nat.compare_eq_eq, Q.lt_iff hv hmid, Q.lt_iff hmid hv,
    Q.eqv_iff hv hmid]
  refine ⟨fun h => ?_, fun h => ?_, fun h => ?_⟩
  · have h' : ((M * 2 ^ a : Nat) : ℚ) < ((W * 5 ^ E * 2 ^ b : Nat) : ℚ) := by exact_mod_cast h
    have := mul_neg_of_pos_of_neg hc (sub_neg.mpr h')
    linarith
  · have h' : ((W * 5 ^ E * 2 ^ b : Nat) : ℚ) < ((M * 2 ^ a : Nat) : ℚ) := by exact_mod_cast h
    have := mul_pos hc (sub_pos.mpr h')
    linarith
  · have h' : ((M * 2 ^ a : Nat) : ℚ) = ((W * 5 ^ E * 2 ^ b : Nat) : ℚ) := by exact_mod_cast h
    rw [h', sub_self, mul_zero] at hid
    linarith

theorem infBits_lt_width {F : FloatC} (hF : F.WF) : F.fmt.infBits < 2 ^ (F.width - 1) := by
  have := field_pack_lt hF (fr := 0) (E := 2 ^ F.ebits - 1) (Nat.zero_le _)
    (by have := Nat.two_pow_pos F.ebits; omega)
    (by intro h0; have := Nat.two_pow_pos F.mantissaSize; omega)
  rw [Nat.add_zero] at this
  exact this

/-- bounds on the exponent of a decoded pattern `≤ infBits` for a format with few exponent bits -/
theorem decode_exp_bounds {F : FloatC} (hF : F.WF) (hEb : F.ebits ≤ 20) {bb : Nat}
    (hble : bb ≤ F.fmt.infBits) :
    -1048576 ≤ (decode F.fmt bb).2 ∧ (decode F.fmt bb).2 ≤ 1048576 := by
  obtain ⟨hk1, _, _, hsum, _⟩ := decode_canonical F.fmt bb
  have hms := hF.ms_le
  have heb := hF.eb_ge
  have hP1 : 2 ^ (F.ebits - 1) ≤ 2 ^ 19 := Nat.pow_le_pow_right (by decide) (by omega)
  have hP0 := Nat.two_pow_pos (F.ebits - 1)
  have hP2 : 2 ^ F.ebits = 2 * 2 ^ (F.ebits - 1) := by
    rw [Nat.mul_comm, ← Nat.pow_succ]; congr 1; omega
  have hkmin : F.fmt.kmin = 2 - ((2 ^ (F.ebits - 1) : Nat) : Int) - F.mantissaSize := by
    unfold Fmt.kmin; push_cast; rfl
  have hj : ((decode F.fmt bb).2 - F.fmt.kmin).toNat ≤ 2 ^ F.ebits - 1 := by
    by_contra hcon
    have h1 : 2 ^ F.ebits ≤ ((decode F.fmt bb).2 - F.fmt.kmin).toNat := by omega
    have h2 := Nat.mul_le_mul_right (2 ^ F.fmt.mbits) h1
    have h3 : F.fmt.infBits = (2 ^ F.ebits - 1) * 2 ^ F.fmt.mbits := rfl
    have hp := Nat.two_pow_pos F.fmt.mbits
    rw [Nat.sub_mul, Nat.one_mul] at h3
    omega
  omega

/-- last step of `negative_digit_comp`, for both scaling branches at once -/
theorem neg_tail {F : FloatC} (hF : F.WF) {fp : ExtFloat} (hm : 2 ^ 63 ≤ fp.mant)
    (hm' : fp.mant < 2 ^ 64) (hexp : -64 ≤ fp.exp) {M E : Nat}
    (hor : rne F.fmt (ofDec M (-(E : Int))) =
        rneTrunc F.fmt (ofDyadic fp.mant (fp.exp - F.exponentBias)) ∨
      rne F.fmt (ofDec M (-(E : Int))) =
        rneTrunc F.fmt (ofDyadic fp.mant (fp.exp - F.exponentBias)) + 1)
    {real theor : Big} {a b : Nat}
    (hr1 : toNat real = M * 2 ^ a) (hr2 : AllLt real) (hr3 : TopNZ real)
    (ht1 : toNat theor = (2 * (decode F.fmt (rneTrunc F.fmt (ofDyadic fp.mant (fp.exp - F.exponentBias)))).1 + 1)
        * 5 ^ E * 2 ^ b)
    (ht2 : AllLt theor) (ht3 : TopNZ theor)
    (hab : (b : Int) - a =
      (decode F.fmt (rneTrunc F.fmt (ofDyadic fp.mant (fp.exp - F.exponentBias)))).2 - 1 + E) :
    extendedToFloat F (round F (roundNearestTieEven (cbOrdering (bigCompare real theor))) fp) =
      rne F.fmt (ofDec M (-(E : Int))) := by
  have hcmp := C12.bigCompare_exact hr2 ht2 (normalized_of_topNZ hr2 hr3) (normalized_of_topNZ ht2 ht3)
  rw [hr1, ht1] at hcmp
  have hro := round_ordering_ext hF (mant := fp.mant) (exp := fp.exp) hm hm' hexp
    (bigCompare real theor)
  rw [show (⟨fp.mant, fp.exp⟩ : ExtFloat) = fp from rfl] at hro
  rw [hro]
  generalize rneTrunc F.fmt (ofDyadic fp.mant (fp.exp - F.exponentBias)) = bb at *
  have hvden := MinLex.ofDec_den_pos M (-(E : Int))
  obtain ⟨c1, c2, c3⟩ := compare_scaled (M := M) (E := E) hab hvden (midpoint_den_pos F.fmt bb)
    (MinLex.ofDec_toRat M _) (by unfold midpoint; rw [MinLex.ofDyadic_toRat])
  rw [← hcmp] at c1 c2 c3
  have hd : ∀ o : Ordering, (match o with | .gt => 1 | .lt => 0 | .eq => bb % 2) = ordDelta o bb := by
    intro o; cases o <;> rfl
  rw [hd]
  exact rne_by_ordering F.fmt hF.eb_ge hF.ms_pos hvden (by
    have := rne_le_inf F.fmt (ofDec M (-(E : Int)))
    have := MinLex.rneTrunc_le_inf F.fmt (ofDyadic fp.mant (fp.exp - F.exponentBias))
    rcases hor with h | h <;> omega) hor _ c1 c2 c3

/-- **M5**: `negative_digit_comp` under the hand-off contract `EstOK`. -/
theorem negativeDigitComp_spec {cap : Option Nat} {T : PowTables} {F : FloatC}
    (hT : T.compact = false → PowTablesOK T) (hF : F.WF) (hEb : F.ebits ≤ 20)
    (hcap1 : capOk cap 1 = true) {bigmant : Big} (hx : AllLt bigmant)
    (hn : TopNZ bigmant) (hc : capOk cap bigmant.length = true) {fp : ExtFloat} {exponent : Int}
    (hneg : exponent < 0) (hlo : -2147483648 ≤ exponent)
    (hest : Main.EstOK F fp (ofDec (toNat bigmant) exponent)) {r : ExtFloat}
    (h : negativeDigitComp cap T F bigmant fp exponent = some r) :
    extendedToFloat F r = rne F.fmt (ofDec (toNat bigmant) exponent) := by
  obtain ⟨hm, hm', hexp, hor⟩ := hest
  have hbb : extendedToFloat F (round F roundDown fp) =
      rneTrunc F.fmt (ofDyadic fp.mant (fp.exp - F.exponentBias)) :=
    C18_round_down hF (mant := fp.mant) (exp := fp.exp) hm hm'
  obtain ⟨E, hE⟩ : ∃ E : Nat, exponent = -(E : Int) := ⟨(-exponent).toNat, by omega⟩
  subst hE
  have hE1 : 1 ≤ E := by omega
  have hE2 : E ≤ 2147483648 := by omega
  unfold negativeDigitComp at h
  simp only [hbb] at h
  rw [hbb] at hor
  have hble : rneTrunc F.fmt (ofDyadic fp.mant (fp.exp - F.exponentBias)) ≤ F.fmt.infBits :=
    MinLex.rneTrunc_le_inf _ _
  have hwid : rneTrunc F.fmt (ofDyadic fp.mant (fp.exp - F.exponentBias)) % 2 ^ (F.width - 1) =
      rneTrunc F.fmt (ofDyadic fp.mant (fp.exp - F.exponentBias)) :=
    Nat.mod_eq_of_lt (by have := infBits_lt_width hF; omega)
  have hfbh := C17_fbh hF (rneTrunc F.fmt (ofDyadic fp.mant (fp.exp - F.exponentBias)))
  rw [hwid] at hfbh
  obtain ⟨hk1, hk2⟩ := decode_exp_bounds hF hEb hble
  obtain ⟨_, hm1, _, _, _⟩ :=
    decode_canonical F.fmt (rneTrunc F.fmt (ofDyadic fp.mant (fp.exp - F.exponentBias)))
  have key := @neg_tail F hF fp hm hm' hexp (toNat bigmant) E hor
  generalize (decode F.fmt (rneTrunc F.fmt (ofDyadic fp.mant (fp.exp - F.exponentBias)))).1 = m at *
  generalize (decode F.fmt (rneTrunc F.fmt (ofDyadic fp.mant (fp.exp - F.exponentBias)))).2 = k at *
  simp only [hfbh] at h
  have hW : 2 * m + 1 < B := by
    have : 2 ^ (F.fmt.mbits + 1) ≤ 2 ^ 62 :=
      Nat.pow_le_pow_right (by decide) (by have := hF.ms_le; show F.mantissaSize + 1 ≤ 62; omega)
    unfold B; omega
  obtain ⟨f1, f2, f3, f4⟩ := C12.fromU64_exact hW
  have f0 : fromU64 (2 * m + 1) ≠ [] := by
    intro h0; rw [h0] at f1; simp [toNat] at f1
  have f5 : TopNZ (fromU64 (2 * m + 1)) := TopNZ_of_normalized f3 f0
  have f6 : capOk cap (fromU64 (2 * m + 1)).length = true := capOk_mono f4 hcap1
  have f7 : toNat (fromU64 (2 * m + 1)) ≠ 0 := by rw [f1]; omega
  have hmant0 : toNat bigmant ≠ 0 := (Nat.lt_of_lt_of_le (Bpow_pos _) hn.2).ne'
  rw [if_pos (by omega), show (- -(E : Int) % 4294967296).toNat = E by omega] at h
  split at h
  · simp at h
  · next theor1 h1 =>
    obtain ⟨a1, a2, a3⟩ := C12.bigintPow_exact_partial hT (Or.inr (Or.inl rfl)) f2 f7 f6 h1
    have a4 := bigintPow_topNZ hT (Or.inr (Or.inl rfl)) f2 f5 f6 h1
    rw [f1] at a1
    have a0 : toNat theor1 ≠ 0 := (Nat.lt_of_lt_of_le (Bpow_pos _) a4.2).ne'
    by_cases hpos : k - 1 - -(E : Int) > 0
    · rw [if_pos hpos] at h
      rw [show ((k - 1 - -(E : Int)) % 4294967296).toNat = (k - 1 - -(E : Int)).toNat by omega] at h
      cases ht : bigintPow cap T theor1 2 (k - 1 - -(E : Int)).toNat with
      | none => rw [ht] at h; simp at h
      | some t =>
        rw [ht] at h
        simp only [Option.some.injEq] at h
        subst h
        obtain ⟨b1, b2, b3⟩ := C12.bigintPow_exact_partial hT (Or.inl rfl) a2 a0 a3 ht
        have b4 := bigintPow_topNZ hT (Or.inl rfl) a2 a4 a3 ht
        exact key (a := 0) (b := (k - 1 - -(E : Int)).toNat) (by simp) hx hn
          (by rw [b1, a1]) b2 b4 (by omega)
    · rw [if_neg hpos] at h
      by_cases hnegb : k - 1 - -(E : Int) < 0
      · rw [if_pos hnegb] at h
        rw [show (-(k - 1 - -(E : Int)) % 4294967296).toNat = (-(k - 1 - -(E : Int))).toNat by omega] at h
        cases ht : bigintPow cap T bigmant 2 (-(k - 1 - -(E : Int))).toNat with
        | none => rw [ht] at h; simp at h
        | some t =>
          rw [ht] at h
          simp only [Option.some.injEq] at h
          subst h
          obtain ⟨b1, b2, b3⟩ := C12.bigintPow_exact_partial hT (Or.inl rfl) hx hmant0 hc ht
          have b4 := bigintPow_topNZ hT (Or.inl rfl) hx hn hc ht
          exact key (a := (-(k - 1 - -(E : Int))).toNat) (b := 0) b1 b2 b4
            (by rw [a1]; simp) a2 a4 (by omega)
      · rw [if_neg hnegb] at h
        simp only [Option.some.injEq] at h
        subst h
        exact key (a := 0) (b := 0) (by simp) hx hn (by rw [a1]; simp) a2 a4 (by omega)

theorem negativeDigitComp_heap (T : PowTables) (F : FloatC) (bigmant : Big) (fp : ExtFloat)
    (exponent : Int) : ∃ r, negativeDigitComp none T F bigmant fp exponent = some r := by
  have tot : ∀ x base n, ∃ r, bigintPow none T x base n = some r := fun x base n =>
    (C12.heap_total T x [] 0 n base).2.2.2.2.2.2.2.2.2.2.2
  unfold negativeDigitComp
  simp only
  split
  · next hh =>
    split at hh
    · obtain ⟨r, hr⟩ := tot (fromU64 (fbh F (extendedToFloat F (round F roundDown fp))).mant) 5
        ((-exponent) % 4294967296).toNat
      rw [hr] at hh; simp at hh
    · simp at hh
  · next theor1 _ =>
    split
    · next hh =>
      split at hh
      · obtain ⟨r, hr⟩ := tot theor1 2
          (((fbh F (extendedToFloat F (round F roundDown fp))).exp - exponent) % 4294967296).toNat
        rw [hr] at hh; simp at hh
      · split at hh
        · obtain ⟨r, hr⟩ := tot bigmant 2
            ((-((fbh F (extendedToFloat F (round F roundDown fp))).exp - exponent)) % 4294967296).toNat
          rw [hr] at hh; simp at hh
        · simp at hh
    · exact ⟨_, rfl⟩

-- ================================================================ 6. the digit cut (midpoint_digits)
theorem dyadic_mul_pow10 (W : Nat) (p : Int) (n : Nat) (h : 0 ≤ p + n) :
    (W : ℚ) * (2 : ℚ) ^ p * (10 : ℚ) ^ n = ((W * 2 ^ (p + n).toNat * 5 ^ n : Nat) : ℚ) := by
  have h10 : (10 : ℚ) ^ n = 2 ^ n * 5 ^ n := by rw [← mul_pow]; norm_num
  have h2 : ((2 : ℚ) ^ (p + n).toNat) = (2 : ℚ) ^ p * 2 ^ n := by
    rw [← zpow_natCast, Int.toNat_of_nonneg h, zpow_add₀ (by norm_num), zpow_natCast]
  push_cast
  rw [h10, h2]; ring

theorem dec_mul_pow10 (D : Nat) (kk : Int) (n : Nat) (h : 0 ≤ kk + n) :
    (D : ℚ) * (10 : ℚ) ^ kk * (10 : ℚ) ^ n = ((D * 10 ^ (kk + n).toNat : Nat) : ℚ) := by
  have h2 : ((10 : ℚ) ^ (kk + n).toNat) = (10 : ℚ) ^ kk * 10 ^ n := by
    rw [← zpow_natCast, Int.toNat_of_nonneg h, zpow_add₀ (by norm_num), zpow_natCast]
  push_cast
  rw [h2]; ring

/-- A dyadic `W·2^p` whose decimal significand `W·2^(p+j)·5^j` (`j = max 0 (−p)`) is shorter than `D`
    cannot lie strictly between `D·10^kk` and `(D+1)·10^kk`. -/
theorem no_dyadic_between {D W Ab : Nat} {kk p : Int} (hD : Ab ≤ D)
    (hA : W * 2 ^ (p + ((-p).toNat : Nat)).toNat * 5 ^ (-p).toNat < Ab)
    (h1 : (D : ℚ) * (10 : ℚ) ^ kk < (W : ℚ) * (2 : ℚ) ^ p)
    (h2 : (W : ℚ) * (2 : ℚ) ^ p < ((D + 1 : Nat) : ℚ) * (10 : ℚ) ^ kk) : False := by
  generalize hj : (-p).toNat = j at hA
  by_cases hc : 0 ≤ kk + j
  · have hp : (0 : ℚ) < (10 : ℚ) ^ j := by positivity
    have h1' := mul_lt_mul_of_pos_right h1 hp
    rw [dyadic_mul_pow10 W p j (by omega), dec_mul_pow10 D kk j hc] at h1'
    have h1'' : D * 10 ^ (kk + j).toNat < W * 2 ^ (p + j).toNat * 5 ^ j := by exact_mod_cast h1'
    have : D * 1 ≤ D * 10 ^ (kk + j).toNat := Nat.mul_le_mul_left _ (Nat.pow_pos (by omega))
    omega
  · obtain ⟨n, hn⟩ : ∃ n : Nat, kk = -(n : Int) := ⟨(-kk).toNat, by omega⟩
    have hp : (0 : ℚ) < (10 : ℚ) ^ n := by positivity
    have h1' := mul_lt_mul_of_pos_right h1 hp
    have h2' := mul_lt_mul_of_pos_right h2 hp
    rw [dyadic_mul_pow10 W p n (by omega), dec_mul_pow10 D kk n (by omega)] at h1'
    rw [dyadic_mul_pow10 W p n (by omega), dec_mul_pow10 (D + 1) kk n (by omega)] at h2'
    have e : (kk + n).toNat = 0 := by omega
    rw [e] at h1' h2'
    have a1 : D * 10 ^ 0 < W * 2 ^ (p + n).toNat * 5 ^ n := by exact_mod_cast h1'
    have a2 : W * 2 ^ (p + n).toNat * 5 ^ n < (D + 1) * 10 ^ 0 := by exact_mod_cast h2'
    omega

/-- closed numeric facts that make the `max_digits` cut sound for a format -/
structure DigitCutOK (f : Fmt) (md : Nat) : Prop where
  ebits : 2 ≤ f.ebits
  small : 2 ^ (f.mbits + 2) * 5 ^ (1 - f.kmin).toNat ≤ 10 ^ (md - 1)
  large : 2 ^ (f.mbits + 2) * 2 ^ f.kmax.toNat ≤ 10 ^ (md - 1)
  kmin_neg : f.kmin ≤ 0

theorem digitCutOK_f64 : DigitCutOK Fmt.f64 769 := by
  constructor <;> decide +kernel

theorem digitCutOK_f32 : DigitCutOK Fmt.f32 114 := by
  constructor <;> decide +kernel

theorem decode_exp_le_kmax (f : Fmt) (hE : 2 ≤ f.ebits) {b : Nat} (hb : b < f.infBits) :
    (decode f b).2 ≤ f.kmax := by
  obtain ⟨n, hn1, hn2, hn3⟩ := fmt_facts f hE
  obtain ⟨hk1, _, hc, hsum, _⟩ := decode_canonical f b
  have hp := Nat.two_pow_pos f.mbits
  rcases hc with hc | hc
  · omega
  · by_contra hcon
    have h1 : n + 1 ≤ ((decode f b).2 - f.kmin).toNat := by omega
    have := Nat.mul_le_mul_right (2 ^ f.mbits) h1
    rw [Nat.add_mul, Nat.one_mul] at this
    omega

/-- no rounding boundary (midpoint of two adjacent floats, or the overflow threshold, which is the
    midpoint above the largest finite float) lies strictly inside `(D·10^kk, (D+1)·10^kk)` when `D`
    has at least `md` digits -/
theorem no_midpoint_between {f : Fmt} {md : Nat} (hf : DigitCutOK f md) {D : Nat} {kk : Int}
    (hD : 10 ^ (md - 1) ≤ D) {b : Nat} (hb : b < f.infBits)
    (h1 : (D : ℚ) * (10 : ℚ) ^ kk < (midpoint f b).toRat)
    (h2 : (midpoint f b).toRat < ((D + 1 : Nat) : ℚ) * (10 : ℚ) ^ kk) : False := by
  unfold midpoint at h1 h2
  rw [MinLex.ofDyadic_toRat] at h1 h2
  obtain ⟨hk1, hm1, _, _, _⟩ := decode_canonical f b
  have hk2 := decode_exp_le_kmax f hf.ebits hb
  refine no_dyadic_between hD ?_ h1 h2
  generalize (decode f b).1 = m at *
  generalize (decode f b).2 = k at *
  have hW : 2 * m + 1 < 2 ^ (f.mbits + 2) := by rw [Nat.pow_succ]; omega
  by_cases hp : 0 ≤ k - 1
  · have e1 : (-(k - 1)).toNat = 0 := by omega
    rw [e1]
    simp only [Nat.cast_zero, Int.add_zero, pow_zero, Nat.mul_one]
    have h3 : 2 ^ (k - 1).toNat ≤ 2 ^ f.kmax.toNat := Nat.pow_le_pow_right (by decide) (by omega)
    calc (2 * m + 1) * 2 ^ (k - 1).toNat < 2 ^ (f.mbits + 2) * 2 ^ (k - 1).toNat :=
          Nat.mul_lt_mul_of_pos_right hW (Nat.two_pow_pos _)
      _ ≤ 2 ^ (f.mbits + 2) * 2 ^ f.kmax.toNat := Nat.mul_le_mul_left _ h3
      _ ≤ 10 ^ (md - 1) := hf.large
  · have e1 : (k - 1 + (((-(k - 1)).toNat : Nat) : Int)).toNat = 0 := by omega
    rw [e1]
    simp only [pow_zero, Nat.mul_one]
    have h3 : 5 ^ (-(k - 1)).toNat ≤ 5 ^ (1 - f.kmin).toNat :=
      Nat.pow_le_pow_right (by decide) (by omega)
    calc (2 * m + 1) * 5 ^ (-(k - 1)).toNat < 2 ^ (f.mbits + 2) * 5 ^ (-(k - 1)).toNat :=
          Nat.mul_lt_mul_of_pos_right hW (Nat.pow_pos (by decide))
      _ ≤ 2 ^ (f.mbits + 2) * 5 ^ (1 - f.kmin).toNat := Nat.mul_le_mul_left _ h3
      _ ≤ 10 ^ (md - 1) := hf.small

/-- one direction of `midpoint_digits` -/
theorem rne_le_of_same_cell {f : Fmt} {md : Nat} (hf : DigitCutOK f md) {D : Nat} {kk : Int}
    (hD : 10 ^ (md - 1) ≤ D) {v v' : Q} (hv : 0 < v.den) (hv' : 0 < v'.den)
    (h1 : (D : ℚ) * (10 : ℚ) ^ kk < v.toRat) (h2' : v'.toRat < ((D + 1 : Nat) : ℚ) * (10 : ℚ) ^ kk) :
    rne f v' ≤ rne f v := by
  by_contra hcon
  have hlt : rne f v < rne f v' := by omega
  have hfin : rne f v < f.infBits := by have := rne_le_inf f v'; omega
  have a1 : ¬ Q.lt (midpoint f (rne f v)) v := by
    intro h
    have := succ_le_rne_of_mid_lt f hf.ebits hv hfin h
    omega
  have a2 : ¬ Q.lt v' (midpoint f (rne f v)) := by
    intro h
    have := rne_le_of_lt_mid f hv' hfin h
    omega
  rw [Q.lt_iff (midpoint_den_pos _ _) hv] at a1
  rw [Q.lt_iff hv' (midpoint_den_pos _ _)] at a2
  exact no_midpoint_between hf hD hfin (by linarith) (by linarith)

/-- **M6** (`midpoint_digits`): two values in the same open decimal cell `(D·10^kk, (D+1)·10^kk)`
    with `D ≥ 10^(md−1)` round to the same float. -/
theorem rne_eq_of_same_cell {f : Fmt} {md : Nat} (hf : DigitCutOK f md) {D : Nat} {kk : Int}
    (hD : 10 ^ (md - 1) ≤ D) {v v' : Q} (hv : 0 < v.den) (hv' : 0 < v'.den)
    (h1 : Q.lt (ofDec D kk) v) (h2 : Q.lt v (ofDec (D + 1) kk))
    (h1' : Q.lt (ofDec D kk) v') (h2' : Q.lt v' (ofDec (D + 1) kk)) : rne f v = rne f v' := by
  rw [Q.lt_iff (MinLex.ofDec_den_pos _ _) hv, MinLex.ofDec_toRat] at h1
  rw [Q.lt_iff hv (MinLex.ofDec_den_pos _ _), MinLex.ofDec_toRat] at h2
  rw [Q.lt_iff (MinLex.ofDec_den_pos _ _) hv', MinLex.ofDec_toRat] at h1'
  rw [Q.lt_iff hv' (MinLex.ofDec_den_pos _ _), MinLex.ofDec_toRat] at h2'
  have a := rne_le_of_same_cell hf hD hv hv' h1 h2'
  have b := rne_le_of_same_cell hf hD hv' hv h1' h2
  omega

-- ================================================================ 3./7. bookkeeping and assembly
theorem estOK_congr {F : FloatC} {fp : ExtFloat} {v v' : Q} (h : rne F.fmt v = rne F.fmt v')
    (hest : Main.EstOK F fp v) : Main.EstOK F fp v' := by
  obtain ⟨a, b, c, d⟩ := hest
  exact ⟨a, b, c, by rw [← h]; exact d⟩

/-- the two digit-comparison algorithms, dispatched on the sign of the decimal exponent -/
theorem slow_tail {cap : Option Nat} {T : PowTables} {F : FloatC}
    (hT : T.compact = false → PowTablesOK T) (hF : F.WF) (hEb : F.ebits ≤ 20)
    (hcap1 : capOk cap 1 = true) {bigmant : Big} (hx : AllLt bigmant) (hn : TopNZ bigmant)
    (hc : capOk cap bigmant.length = true) {fp : ExtFloat} {exponent : Int}
    (hlo : -2147483648 ≤ exponent) (hhi : exponent < 2147483648) {v : Q}
    (hrne : rne F.fmt v = rne F.fmt (ofDec (toNat bigmant) exponent))
    (hest : Main.EstOK F fp v) {r : ExtFloat}
    (h : (if exponent ≥ 0 then positiveDigitComp cap T F bigmant exponent
          else negativeDigitComp cap T F bigmant fp exponent) = some r) :
    extendedToFloat F r = rne F.fmt v := by
  rw [hrne]
  by_cases hge : exponent ≥ 0
  · rw [if_pos hge] at h
    rw [positiveDigitComp_spec hT hF hx hn hc hge (by omega) h]
    unfold ofDec; rw [if_pos hge]
  · rw [if_neg hge] at h
    exact negativeDigitComp_spec hT hF hEb hcap1 hx hn hc (by omega) hlo (estOK_congr hrne hest) h

theorem satI32_inv {x : Int} (h1 : -1000 ≤ satI32 x) (h2 : satI32 x ≤ 1000) : satI32 x = x := by
  unfold satI32 i32Min i32Max at *
  by_cases ha : x < -2147483648
  · rw [if_pos ha] at h1; omega
  · rw [if_neg ha] at h1 h2 ⊢
    by_cases hb : x > 2147483647
    · rw [if_pos hb] at h2; omega
    · rw [if_neg hb]

/-- **M3 (a)**: on the result of `parse_number` (non-zero mantissa, moderate exponent) the scientific
    exponent is the decimal exponent of the first significant digit. -/
theorem sci_of_parse {int frac : List UInt8} {e : Int} (hv : Valid int frac e)
    (hm0 : (parseNumber int frac e).mantissa ≠ 0)
    (hlo : -1000 ≤ (parseNumber int frac e).exponent) (hhi : (parseNumber int frac e).exponent ≤ 1000) :
    ∃ c rest, sigDigits int frac = c :: rest ∧ c ≠ 48 ∧ isDigit c = true ∧
      scientificExponent (parseNumber int frac e) = e - frac.length + rest.length ∧
      (parseNumber int frac e).exponent =
        e - frac.length + max 0 (((sigDigits int frac).length : Int) - 19) ∧
      -1000 ≤ e - frac.length + max 0 (((sigDigits int frac).length : Int) - 19) ∧
      e - frac.length + max 0 (((sigDigits int frac).length : Int) - 19) ≤ 1000 := by
  have hd := (sigDigits_facts hv).2.2.2.2
  have hhead := (sigDigits_facts hv).2.2.1
  rw [parseNumber_spec hv] at hm0 hlo hhi ⊢
  simp only at hm0 hlo hhi
  have hx := satI32_inv hlo hhi
  rw [hx] at hlo hhi
  have htr := trueExp_eq int frac e
  rw [htr] at hlo hhi
  cases hs : sigDigits int frac with
  | nil => rw [hs] at hm0; simp [ofDigits_nil] at hm0
  | cons c rest =>
    rw [hs] at hd hlo hhi htr
    have hc0 := hhead c rest hs
    have hdc : isDigit c = true := hd c (List.mem_cons_self)
    have hdr : AllDigits rest := fun x hx => hd x (List.mem_cons_of_mem _ hx)
    refine ⟨c, rest, rfl, hc0, hdc, ?_, (by show satI32 _ = _; rw [hx, htr]), hlo, hhi⟩
    have e19 : (c :: rest).take 19 = c :: rest.take 18 := rfl
    have hlen : (rest.take 18).length = min 18 rest.length := List.length_take
    have hge := ofDigits_ge (ds := rest.take 18) hdc hc0
    have hlt := ofDigits_lt (ds := c :: rest.take 18)
      (AllDigits.cons_iff.mpr ⟨hdc, AllDigits.take 18 hdr⟩)
    rw [List.length_cons] at hlt
    have := scientificExponent_eq
      (num := ⟨satI32 (trueExp int frac e), ofDigits ((c :: rest).take 19), decide (19 < (c :: rest).length)⟩)
      (d := (rest.take 18).length) (by rw [e19]; exact hge) (by rw [e19]; exact hlt)
      (by omega) (by show i32Min ≤ satI32 _; rw [hx, htr]; unfold i32Min; omega)
      (by show satI32 _ + _ ≤ i32Max; rw [hx, htr]; unfold i32Max; omega)
    rw [this]
    show satI32 _ + _ = _
    rw [hx, htr, hlen]
    simp only [List.length_cons]
    omega

theorem ofDec_cell (D : Nat) (kk : Int) :
    Q.lt (ofDec D kk) (ofDec (D * 10 + 1) (kk - 1)) ∧
    Q.lt (ofDec (D * 10 + 1) (kk - 1)) (ofDec (D + 1) kk) := by
  simp only [ofDec_eq_scaled]
  have hx : 0 ≤ kk + (((-(kk - 1)).toNat : Nat) : Int) := by omega
  have hy : 0 ≤ kk - 1 + (((-(kk - 1)).toNat : Nat) : Int) := by omega
  rw [scaled_lt_iff (by omega) _ _ (-(kk - 1)).toNat hx hy,
    scaled_lt_iff (by omega) _ _ (-(kk - 1)).toNat hy hx]
  have e : (kk + (((-(kk - 1)).toNat : Nat) : Int)).toNat =
      (kk - 1 + (((-(kk - 1)).toNat : Nat) : Int)).toNat + 1 := by omega
  rw [e, pow_succ]
  have hP : 0 < 10 ^ (kk - 1 + (((-(kk - 1)).toNat : Nat) : Int)).toNat := Nat.pow_pos (by omega)
  generalize 10 ^ (kk - 1 + (((-(kk - 1)).toNat : Nat) : Int)).toNat = P at *
  constructor <;> nlinarith

/-- **M3**: value bookkeeping of `slow`.  With `(bigmant, digits)` the result of `parse_mantissa`
    and `x = sci_exp + 1 − digits` (no `i32` wrap), the exact input value `v` is `bigmant·10^x`
    when no non-zero digit was cut; otherwise `bigmant = D·10 + 1` (sticky digit) where `D ≥ 10^(md−1)`
    are the first `md` significant digits, and `v` lies strictly inside the decimal cell
    `(D·10^(x+1), (D+1)·10^(x+1))`. -/
theorem slow_bookkeeping {cap : Option Nat} {T : PowTables} (hT10 : Pow10OK T) {md : Nat}
    (hmd1 : 1 ≤ md) (hmd2 : md ≤ 1000000) {int frac : List UInt8} {e : Int}
    (hv : Valid int frac e) (hm0 : (parseNumber int frac e).mantissa ≠ 0)
    (hlo : -1000 ≤ (parseNumber int frac e).exponent) (hhi : (parseNumber int frac e).exponent ≤ 1000)
    {bigmant : Big} {digits : Nat} (hpm : parseMantissa cap T int frac md = some (bigmant, digits)) :
    ∃ x : Int, wrapI32 (scientificExponent (parseNumber int frac e) + 1 - asI32 digits) = x ∧
      -2147483648 ≤ x ∧ x < 2147483648 ∧ toNat bigmant ≠ 0 ∧
      toNat bigmant < 10 ^ digits ∧ digits ≤ md + 1 ∧
      (parseNumber int frac e).exponent + 1 ≤ x + digits ∧
      x + digits ≤ (parseNumber int frac e).exponent + 19 ∧
      (Q.eqv (ofDec (toNat bigmant) x) (digitsValue int frac e) ∨
       ∃ D : Nat, 10 ^ (md - 1) ≤ D ∧ toNat bigmant = D * 10 + 1 ∧
         Q.lt (ofDec D (x + 1)) (digitsValue int frac e) ∧
         Q.lt (digitsValue int frac e) (ofDec (D + 1) (x + 1))) := by
  obtain ⟨c, rest, hs, hc0, hdc, hsci, hq, hb1, hb2⟩ := sci_of_parse hv hm0 hlo hhi
  have hd := (sigDigits_facts hv).2.2.2.2
  obtain ⟨p1, p2, p3, p4, p5⟩ := parseMantissa_some hT10 hmd1 hv.1 hv.2.1 hv.2.2.1 hpm
  have hval : digitsValue int frac e = ofDec (ofDigits (sigDigits int frac)) (e - frac.length) := by
    unfold digitsValue; rw [ofDigits_sigDigits]
  have hsig0 : 10 ^ rest.length ≤ ofDigits (sigDigits int frac) := by
    rw [hs]; exact ofDigits_ge hdc hc0
  have hL : (sigDigits int frac).length = rest.length + 1 := by rw [hs]; rfl
  rw [hsci]
  have hvb := value_bracket hd md (e - frac.length)
  have hml := mantSpec_lt hd md
  rw [← p1, ← p2] at hml
  obtain ⟨hml1, hml2⟩ := hml
  rw [hq]
  unfold mantSpec at p1 p2
  by_cases hle : (sigDigits int frac).length ≤ md
  · -- nothing cut
    rw [if_pos hle] at p1 p2
    simp only at p1 p2
    refine ⟨e - frac.length, ?_, by omega, by omega, ?_, hml1, hml2, by omega, by omega, Or.inl ?_⟩
    · rw [asI32_small (by omega), wrapI32_id (by unfold i32Min; omega) (by unfold i32Max; omega)]
      omega
    · have := Nat.pow_pos (n := rest.length) (show 0 < 10 by omega); omega
    · rw [hval, p1]; exact Q.eqv_refl _
  · rw [if_neg hle] at p1 p2
    have hk : e - frac.length + (((sigDigits int frac).length - md : Nat) : Int) =
        e - frac.length + rest.length + 1 - md := by omega
    rw [hk] at hvb
    have hDge : 10 ^ (md - 1) ≤ ofDigits ((sigDigits int frac).take md) := by
      obtain ⟨n, hn⟩ : ∃ n, md = n + 1 := ⟨md - 1, by omega⟩
      rw [hs, hn, List.take_succ_cons]
      have := ofDigits_ge (ds := rest.take n) hdc hc0
      rw [List.length_take, Nat.min_eq_left (by omega)] at this
      simpa using this
    by_cases hany : ((sigDigits int frac).drop md).any (· != 48) = true
    · -- a non-zero digit was cut: sticky digit, same decimal cell
      rw [if_pos hany] at p1 p2
      simp only at p1 p2
      have hdrop : ofDigits ((sigDigits int frac).drop md) ≠ 0 := by
        intro h0
        have := (ofDigits_eq_zero_iff (AllDigits.drop _ hd)).mp h0
        rw [List.any_eq_true] at hany
        obtain ⟨x, hx1, hx2⟩ := hany
        have := this x hx1
        simp [this] at hx2
      refine ⟨e - frac.length + rest.length + 1 - md - 1, ?_, by omega, by omega, by omega,
        hml1, hml2, by omega, by omega, Or.inr ⟨_, hDge, p1, ?_, ?_⟩⟩
      · rw [asI32_small (by omega), wrapI32_id (by unfold i32Min; omega) (by unfold i32Max; omega)]
        omega
      · rw [hval, show e - frac.length + rest.length + 1 - md - 1 + 1 =
          e - frac.length + rest.length + 1 - md by omega]
        have h1 := hvb.1
        have h3 := hvb.2.2
        unfold Q.lt; unfold Q.le at h1; unfold Q.eqv at h3
        have : ¬ _ := fun hh => hdrop (h3.mp hh)
        omega
      · rw [hval, show e - frac.length + rest.length + 1 - md - 1 + 1 =
          e - frac.length + rest.length + 1 - md by omega]
        exact hvb.2.1
    · -- only zeros were cut
      rw [if_neg hany] at p1 p2
      simp only at p1 p2
      have hdrop : ofDigits ((sigDigits int frac).drop md) = 0 := by
        rw [ofDigits_eq_zero_iff (AllDigits.drop _ hd)]
        intro x hx
        by_contra hne
        apply hany
        rw [List.any_eq_true]
        exact ⟨x, hx, by simpa using hne⟩
      refine ⟨e - frac.length + rest.length + 1 - md, ?_, by omega, by omega, ?_, hml1, hml2,
        by omega, by omega, Or.inl ?_⟩
      · rw [asI32_small (by omega), wrapI32_id (by unfold i32Min; omega) (by unfold i32Max; omega)]
        omega
      · have := Nat.pow_pos (n := md - 1) (show 0 < 10 by omega); omega
      · rw [hval, p1]; exact hvb.2.2.mpr hdrop

/-- **M7, partial correctness on any back-end**: whenever `slow` returns (no big-integer operation
    ran out of limbs), the result is the correctly rounded value of the input. -/
theorem slow_spec {cap : Option Nat} {T : PowTables} {F : FloatC}
    (hT : T.compact = false → PowTablesOK T) (hT10 : Pow10OK T) (hF : F.WF) (hEb : F.ebits ≤ 20)
    (hcut : DigitCutOK F.fmt F.maxDigits) (hmd1 : 1 ≤ F.maxDigits) (hmd2 : F.maxDigits ≤ 1000000)
    (hcap1 : capOk cap 1 = true) {int frac : List UInt8} {e : Int} {fp : ExtFloat}
    (hv : Valid int frac e) (hm0 : (parseNumber int frac e).mantissa ≠ 0)
    (hlo : -1000 ≤ (parseNumber int frac e).exponent) (hhi : (parseNumber int frac e).exponent ≤ 1000)
    (hest : Main.EstOK F fp (digitsValue int frac e)) {r : ExtFloat}
    (h : slow cap T F (parseNumber int frac e) fp int frac = some r) :
    extendedToFloat F r = rne F.fmt (digitsValue int frac e) := by
  have hvden := MinLex.digitsValue_den_pos int frac e
  unfold slow at h
  simp only at h
  cases hpm : parseMantissa cap T int frac F.maxDigits with
  | none => rw [hpm] at h; simp at h
  | some res =>
    obtain ⟨bigmant, digits⟩ := res
    rw [hpm] at h
    simp only at h
    obtain ⟨_, _, p3, p4, p5⟩ := parseMantissa_some hT10 hmd1 hv.1 hv.2.1 hv.2.2.1 hpm
    obtain ⟨x, hx, hx1, hx2, hnz, _, _, _, _, hcase⟩ :=
      slow_bookkeeping hT10 hmd1 hmd2 hv hm0 hlo hhi hpm
    rw [hx] at h
    have hrne : rne F.fmt (digitsValue int frac e) = rne F.fmt (ofDec (toNat bigmant) x) := by
      rcases hcase with heqv | ⟨D, hD, hbm, h1, h2⟩
      · exact (rne_congr F.fmt (MinLex.ofDec_den_pos _ _) hvden heqv).symm
      · have hcell := ofDec_cell D (x + 1)
        rw [show x + 1 - 1 = x by omega, ← hbm] at hcell
        exact rne_eq_of_same_cell hcut hD hvden (MinLex.ofDec_den_pos _ _) h1 h2 hcell.1 hcell.2
    exact slow_tail hT hF hEb hcap1 p3 (topNZ_of_normOK p5 hnz) p4 hx1 hx2 hrne hest h

/-- totality of `slow` on the heap back-end, for digit input -/
theorem slow_heap {T : PowTables} (hT10 : Pow10OK T) {F : FloatC} (hmd1 : 1 ≤ F.maxDigits)
    {int frac : List UInt8} (hi : AllDigits int) (hf : AllDigits frac)
    (h0 : int.head? ≠ some 48) (num : Number) (fp : ExtFloat) :
    ∃ r, slow none T F num fp int frac = some r := by
  obtain ⟨bm, cnt, hpm⟩ := parseMantissa_heap hT10 hmd1 hi hf h0
  unfold slow
  simp only [hpm]
  split
  · exact positiveDigitComp_heap _ _ _ _
  · exact negativeDigitComp_heap _ _ _ _ _

-- ================================================================ 8. no overflow on the stack vector
/-- if `rne v` is at least the non-zero float `b`, the midpoint above `b` is at most `3·v` -/
theorem mid_le_three_mul (f : Fmt) {v : Q} (hv : 0 < v.den) {b : Nat} (hb : b ≤ f.infBits)
    (hm1 : 1 ≤ (decode f b).1) (hor : b ≤ rne f v) : (midpoint f b).toRat ≤ 3 * v.toRat := by
  have hb0 : b ≠ 0 := by
    intro h0
    have := (decode_canonical f b).2.2.2.2.mpr h0
    omega
  have hge : (midpoint f (b - 1)).toRat ≤ v.toRat := by
    by_contra hcon
    have hlt : Q.lt v (midpoint f (b - 1)) := (Q.lt_iff hv (midpoint_den_pos _ _)).2 (not_le.1 hcon)
    have := rne_le_of_lt_mid f hv (b := b - 1) (by omega) hlt
    omega
  have e1 := midpoint_toRat f (b - 1)
  rw [show b - 1 + 1 = b by omega] at e1
  have e2 := midpoint_toRat f b
  have e3 := decodeQ_succ_toRat f b
  have e4 := decodeQ_toRat f b
  have e5 := decodeQ_toRat f (b - 1)
  have hpos : (0 : ℚ) ≤ (decodeQ f (b - 1)).toRat := by rw [e5]; positivity
  have hp2 : (0 : ℚ) < (2 : ℚ) ^ (decode f b).2 := by positivity
  have hm' : (1 : ℚ) ≤ ((decode f b).1 : ℚ) := by exact_mod_cast hm1
  have h2 : (decodeQ f (b + 1)).toRat ≤ 2 * (decodeQ f b).toRat := by
    rw [e3, e4]; push_cast
    nlinarith
  linarith

/-- closed numeric facts: the `c`-limb stack vector is large enough for every big integer of the
    slow path when the decimal exponent of the `Number` is within `±Qb` -/
structure StackOK (F : FloatC) (c Qb : Nat) : Prop where
  c1 : 1 ≤ c
  pm : 10 ^ (F.maxDigits + 1) ≤ B ^ (c - 1)
  pos : 10 ^ (Qb + 19) ≤ B ^ c
  th5 : 2 ^ (F.mantissaSize + 2) * 10 ^ (F.maxDigits + Qb) ≤ B ^ c
  th4 : 4 * 10 ^ (F.maxDigits + 1) ≤ B ^ c
  re : 10 ^ (F.maxDigits + 1) * 2 ^ (1 - F.fmt.kmin).toNat ≤ B ^ c

theorem stackOK_f64 : StackOK Gen.F64 62 400 := by
  constructor <;> decide +kernel

theorem stackOK_f32 : StackOK Gen.F32 62 400 := by
  constructor <;> decide +kernel

theorem positiveDigitComp_fits {c : Nat} {T : PowTables} {F : FloatC}
    (hT : T.compact = false → PowTablesOK T) {bigmant : Big} (hx : AllLt bigmant)
    (hn : TopNZ bigmant) (hc : capOk (some c) bigmant.length = true) {exponent : Int}
    (h0 : 0 ≤ exponent) (h1 : exponent < 4294967296)
    (hfit : toNat bigmant * 10 ^ exponent.toNat < B ^ c) :
    ∃ fp, positiveDigitComp (some c) T F bigmant exponent = some fp := by
  unfold positiveDigitComp
  rw [show (exponent % 4294967296).toNat = exponent.toNat by rw [Int.emod_eq_of_lt h0 h1]]
  obtain ⟨bm, hbm⟩ := (C12.bigintPow_some_iff_fits hT (Or.inr (Or.inr rfl)) hx
    (normalized_of_topNZ hx hn) hn.1 hc).mpr hfit
  rw [hbm]
  exact ⟨_, rfl⟩

theorem negativeDigitComp_fits {c : Nat} {T : PowTables} {F : FloatC}
    (hT : T.compact = false → PowTablesOK T) (hF : F.WF) (hEb : F.ebits ≤ 20) (hc1 : 1 ≤ c)
    {bigmant : Big} (hx : AllLt bigmant) (hn : TopNZ bigmant)
    (hc : capOk (some c) bigmant.length = true) {fp : ExtFloat} {exponent : Int}
    (hneg : exponent < 0) (hlo : -2147483648 ≤ exponent)
    (hest : Main.EstOK F fp (ofDec (toNat bigmant) exponent)) {Emax Mmax : Nat}
    (hE : -exponent ≤ Emax) (hM : toNat bigmant < Mmax)
    (h5 : 2 ^ (F.mantissaSize + 2) * 10 ^ Emax ≤ B ^ c) (h4 : 4 * Mmax ≤ B ^ c)
    (hre : Mmax * 2 ^ (1 - F.fmt.kmin).toNat ≤ B ^ c) :
    ∃ r, negativeDigitComp (some c) T F bigmant fp exponent = some r := by
  obtain ⟨hm, hm', hexp, hor⟩ := hest
  have hvden := MinLex.ofDec_den_pos (toNat bigmant) exponent
  have hbb : extendedToFloat F (round F roundDown fp) =
      rneTrunc F.fmt (ofDyadic fp.mant (fp.exp - F.exponentBias)) :=
    C18_round_down hF (mant := fp.mant) (exp := fp.exp) hm hm'
  obtain ⟨E, hEq⟩ : ∃ E : Nat, exponent = -(E : Int) := ⟨(-exponent).toNat, by omega⟩
  subst hEq
  have hE1 : 1 ≤ E := by omega
  have hE2 : E ≤ 2147483648 := by omega
  have hE3 : E ≤ Emax := by omega
  unfold negativeDigitComp
  simp only [hbb]
  rw [hbb] at hor
  have hble : rneTrunc F.fmt (ofDyadic fp.mant (fp.exp - F.exponentBias)) ≤ F.fmt.infBits :=
    MinLex.rneTrunc_le_inf _ _
  have hwid : rneTrunc F.fmt (ofDyadic fp.mant (fp.exp - F.exponentBias)) % 2 ^ (F.width - 1) =
      rneTrunc F.fmt (ofDyadic fp.mant (fp.exp - F.exponentBias)) :=
    Nat.mod_eq_of_lt (by have := infBits_lt_width hF; omega)
  have hfbh := C17_fbh hF (rneTrunc F.fmt (ofDyadic fp.mant (fp.exp - F.exponentBias)))
  rw [hwid] at hfbh
  obtain ⟨hk1, hk2⟩ := decode_exp_bounds hF hEb hble
  obtain ⟨hkmin, hm1, hcan, _, _⟩ :=
    decode_canonical F.fmt (rneTrunc F.fmt (ofDyadic fp.mant (fp.exp - F.exponentBias)))
  have hkm0 : F.fmt.kmin ≤ 0 := by rw [hF.kmin_eq]; have := bias_pos hF; omega
  have hmid : 1 ≤ (decode F.fmt (rneTrunc F.fmt (ofDyadic fp.mant (fp.exp - F.exponentBias)))).1 →
      (midpoint F.fmt (rneTrunc F.fmt (ofDyadic fp.mant (fp.exp - F.exponentBias)))).toRat ≤
        3 * (ofDec (toNat bigmant) (-(E : Int))).toRat := fun h1 =>
    mid_le_three_mul F.fmt hvden hble h1 (by rcases hor with h | h <;> omega)
  unfold midpoint at hmid
  rw [MinLex.ofDyadic_toRat, MinLex.ofDec_toRat] at hmid
  generalize (decode F.fmt (rneTrunc F.fmt (ofDyadic fp.mant (fp.exp - F.exponentBias)))).1 = m at *
  generalize (decode F.fmt (rneTrunc F.fmt (ofDyadic fp.mant (fp.exp - F.exponentBias)))).2 = k at *
  simp only [hfbh]
  have hW2 : 2 * m + 1 < 2 ^ (F.mantissaSize + 2) := by
    have : 2 ^ (F.fmt.mbits + 1) = 2 ^ (F.mantissaSize + 1) := rfl
    rw [Nat.pow_succ]; omega
  have hW : 2 * m + 1 < B := by
    have : 2 ^ (F.mantissaSize + 2) ≤ 2 ^ 63 :=
      Nat.pow_le_pow_right (by decide) (by have := hF.ms_le; omega)
    unfold B; omega
  obtain ⟨f1, f2, f3, f4⟩ := C12.fromU64_exact hW
  have f0 : fromU64 (2 * m + 1) ≠ [] := by
    intro h0; rw [h0] at f1; simp [toNat] at f1
  have f5 : TopNZ (fromU64 (2 * m + 1)) := TopNZ_of_normalized f3 f0
  have f6 : capOk (some c) (fromU64 (2 * m + 1)).length = true := by rw [capOk_some]; omega
  have f7 : toNat (fromU64 (2 * m + 1)) ≠ 0 := by rw [f1]; omega
  have hmant0 : toNat bigmant ≠ 0 := (Nat.lt_of_lt_of_le (Bpow_pos _) hn.2).ne'
  have h10E : 10 ^ E ≤ 10 ^ Emax := Nat.pow_le_pow_right (by omega) hE3
  have h510 : (5 : Nat) ^ E * 2 ^ E = 10 ^ E := by rw [← Nat.mul_pow]
  have hWE : (2 * m + 1) * 10 ^ E < B ^ c := by
    calc (2 * m + 1) * 10 ^ E < 2 ^ (F.mantissaSize + 2) * 10 ^ E :=
          Nat.mul_lt_mul_of_pos_right hW2 (Nat.pow_pos (by omega))
      _ ≤ 2 ^ (F.mantissaSize + 2) * 10 ^ Emax := Nat.mul_le_mul_left _ h10E
      _ ≤ B ^ c := h5
  rw [if_pos (by omega), show (- -(E : Int) % 4294967296).toNat = E by omega]
  -- theor_digits.pow(5, E)
  have hfit1 : toNat (fromU64 (2 * m + 1)) * 5 ^ E < B ^ c := by
    rw [f1]
    have : (2 * m + 1) * 5 ^ E ≤ (2 * m + 1) * 10 ^ E :=
      Nat.mul_le_mul_left _ (Nat.pow_le_pow_left (by omega) _)
    omega
  obtain ⟨theor1, h1⟩ := (C12.bigintPow_some_iff_fits hT (Or.inr (Or.inl rfl)) f2 f3 f0 f6).mpr hfit1
  rw [h1]
  simp only
  obtain ⟨a1, a2, a3⟩ := C12.bigintPow_exact_partial hT (Or.inr (Or.inl rfl)) f2 f7 f6 h1
  have a4 := bigintPow_topNZ hT (Or.inr (Or.inl rfl)) f2 f5 f6 h1
  rw [f1] at a1
  by_cases hpos : k - 1 - -(E : Int) > 0
  · rw [if_pos hpos, show ((k - 1 - -(E : Int)) % 4294967296).toNat = (k - 1 - -(E : Int)).toNat by omega]
    have hfit2 : toNat theor1 * 2 ^ (k - 1 - -(E : Int)).toNat < B ^ c := by
      rw [a1]
      by_cases hk : k - 1 ≤ 0
      · have : 2 ^ (k - 1 - -(E : Int)).toNat ≤ 2 ^ E := Nat.pow_le_pow_right (by decide) (by omega)
        have : (2 * m + 1) * 5 ^ E * 2 ^ (k - 1 - -(E : Int)).toNat ≤ (2 * m + 1) * 5 ^ E * 2 ^ E :=
          Nat.mul_le_mul_left _ this
        rw [Nat.mul_assoc _ (5 ^ E) (2 ^ E), h510] at this
        omega
      · have hmm : 1 ≤ m := by
          rcases hcan with hcan | hcan
          · omega
          · have := Nat.two_pow_pos F.fmt.mbits; omega
        have h3 := hmid hmm
        have hp : (0 : ℚ) < (10 : ℚ) ^ E := by positivity
        have h3' := mul_le_mul_of_nonneg_right h3 hp.le
        rw [dyadic_mul_pow10 (2 * m + 1) (k - 1) E (by omega)] at h3'
        have e10 : 3 * ((toNat bigmant : ℚ) * (10 : ℚ) ^ (-(E : Int))) * (10 : ℚ) ^ E =
            ((3 * toNat bigmant : Nat) : ℚ) := by
          rw [zpow_neg, zpow_natCast]; push_cast; field_simp
        rw [e10] at h3'
        have h3'' : (2 * m + 1) * 2 ^ (k - 1 + (E : Int)).toNat * 5 ^ E ≤ 3 * toNat bigmant := by
          exact_mod_cast h3'
        have e : (k - 1 - -(E : Int)).toNat = (k - 1 + (E : Int)).toNat := by omega
        rw [e, Nat.mul_right_comm]
        omega
    obtain ⟨t, ht⟩ := (C12.bigintPow_some_iff_fits hT (Or.inl rfl) a2 (normalized_of_topNZ a2 a4)
      a4.1 a3).mpr hfit2
    rw [ht]
    exact ⟨_, rfl⟩
  · rw [if_neg hpos]
    by_cases hnegb : k - 1 - -(E : Int) < 0
    · rw [if_pos hnegb,
        show (-(k - 1 - -(E : Int)) % 4294967296).toNat = (-(k - 1 - -(E : Int))).toNat by omega]
      have hfit3 : toNat bigmant * 2 ^ (-(k - 1 - -(E : Int))).toNat < B ^ c := by
        have h2 : 2 ^ (-(k - 1 - -(E : Int))).toNat ≤ 2 ^ (1 - F.fmt.kmin).toNat :=
          Nat.pow_le_pow_right (by decide) (by omega)
        calc toNat bigmant * 2 ^ (-(k - 1 - -(E : Int))).toNat
            < Mmax * 2 ^ (-(k - 1 - -(E : Int))).toNat :=
              Nat.mul_lt_mul_of_pos_right hM (Nat.two_pow_pos _)
          _ ≤ Mmax * 2 ^ (1 - F.fmt.kmin).toNat := Nat.mul_le_mul_left _ h2
          _ ≤ B ^ c := hre
      obtain ⟨t, ht⟩ := (C12.bigintPow_some_iff_fits hT (Or.inl rfl) hx (normalized_of_topNZ hx hn)
        hn.1 hc).mpr hfit3
      rw [ht]
      exact ⟨_, rfl⟩
    · rw [if_neg hnegb]
      exact ⟨_, rfl⟩

/-- **no overflow**: on a `c`-limb stack vector satisfying `StackOK F c Qb`, `slow` always returns
    when the decimal exponent of the `Number` is within `±Qb` -/
theorem slow_fits {c Qb : Nat} {T : PowTables} {F : FloatC}
    (hT : T.compact = false → PowTablesOK T) (hT10 : Pow10OK T) (hF : F.WF) (hEb : F.ebits ≤ 20)
    (hcut : DigitCutOK F.fmt F.maxDigits) (hmd1 : 1 ≤ F.maxDigits) (hmd2 : F.maxDigits ≤ 1000000)
    (hS : StackOK F c Qb) (hQ : Qb ≤ 1000) {int frac : List UInt8} {e : Int} {fp : ExtFloat}
    (hv : Valid int frac e) (hm0 : (parseNumber int frac e).mantissa ≠ 0)
    (hlo : -(Qb : Int) ≤ (parseNumber int frac e).exponent)
    (hhi : (parseNumber int frac e).exponent ≤ Qb)
    (hest : Main.EstOK F fp (digitsValue int frac e)) :
    ∃ r, slow (some c) T F (parseNumber int frac e) fp int frac = some r := by
  have hvden := MinLex.digitsValue_den_pos int frac e
  have hd := (sigDigits_facts hv).2.2.2.2
  have hml := mantSpec_lt hd F.maxDigits
  have hpow : 10 ^ (mantSpec (sigDigits int frac) F.maxDigits).2 ≤ 10 ^ (F.maxDigits + 1) :=
    Nat.pow_le_pow_right (by omega) hml.2
  obtain ⟨bigmant, digits, hpm⟩ := parseMantissa_total (cap := some c) hT10 hmd1 hv.1 hv.2.1 hv.2.2.1
    (capRoom_some hS.c1 hS.pm) (by omega)
  obtain ⟨_, _, p3, p4, p5⟩ := parseMantissa_some hT10 hmd1 hv.1 hv.2.1 hv.2.2.1 hpm
  obtain ⟨x, hx, hx1, hx2, hnz, hM, hdg, hq1, hq2, hcase⟩ :=
    slow_bookkeeping hT10 hmd1 hmd2 hv hm0 (by omega) (by omega) hpm
  have hMmax : toNat bigmant < 10 ^ (F.maxDigits + 1) := by
    have := Nat.pow_le_pow_right (show 0 < 10 by omega) hdg
    omega
  unfold slow
  simp only [hpm, hx]
  by_cases hge : x ≥ 0
  · rw [if_pos hge]
    apply positiveDigitComp_fits hT p3 (topNZ_of_normOK p5 hnz) p4 hge (by omega)
    have h1 : toNat bigmant * 10 ^ x.toNat < 10 ^ digits * 10 ^ x.toNat :=
      Nat.mul_lt_mul_of_pos_right hM (Nat.pow_pos (by omega))
    rw [← pow_add] at h1
    have h2 : 10 ^ (digits + x.toNat) ≤ 10 ^ (Qb + 19) := Nat.pow_le_pow_right (by omega) (by omega)
    have := hS.pos
    omega
  · rw [if_neg hge]
    have hrne : rne F.fmt (digitsValue int frac e) = rne F.fmt (ofDec (toNat bigmant) x) := by
      rcases hcase with heqv | ⟨D, hD, hbm, h1, h2⟩
      · exact (rne_congr F.fmt (MinLex.ofDec_den_pos _ _) hvden heqv).symm
      · have hcell := ofDec_cell D (x + 1)
        rw [show x + 1 - 1 = x by omega, ← hbm] at hcell
        exact rne_eq_of_same_cell hcut hD hvden (MinLex.ofDec_den_pos _ _) h1 h2 hcell.1 hcell.2
    exact negativeDigitComp_fits hT hF hEb hS.c1 p3 (topNZ_of_normOK p5 hnz) p4 (by omega) hx1
      (estOK_congr hrne hest) (Emax := F.maxDigits + Qb) (by omega) hMmax hS.th5 hS.th4 hS.re

end MinLex.SlowP
