/-
  Nat bit-arithmetic helpers used by the C17 / C18 proofs: masks as `%`, shifts as `/`,
  field extraction, disjoint OR as `+`, single-bit tests.
-/
import Mathlib.Tactic.Ring
import Mathlib.Tactic.Linarith
namespace MinLex.Bits

/-- `x & (2^n - 1) = x mod 2^n` -/
theorem and_lowMask (x n : Nat) : x &&& (2 ^ n - 1) = x % 2 ^ n :=
  Nat.and_two_pow_sub_one_eq_mod x n

/-- `x >> n = x / 2^n` -/
theorem shr_eq_div (x n : Nat) : x >>> n = x / 2 ^ n := Nat.shiftRight_eq_div_pow x n

/-- extraction of the `e`-bit field that starts at bit `m` -/
theorem and_field (x e m : Nat) : x &&& ((2 ^ e - 1) * 2 ^ m) = (x / 2 ^ m % 2 ^ e) * 2 ^ m := by
  apply Nat.eq_of_testBit_eq
  intro i
  simp only [Nat.testBit_and, Nat.testBit_mul_two_pow, Nat.testBit_two_pow_sub_one,
    Nat.testBit_mod_two_pow, Nat.testBit_div_two_pow]
  by_cases h : m ≤ i
  · have : i - m + m = i := by omega
    simp [h, this]
    exact Bool.and_comm _ _
  · simp [h]

/-- `(y * 2^m) >> m = y` -/
theorem mul_pow_shr (y m : Nat) : (y * 2 ^ m) >>> m = y := by
  rw [Nat.shiftRight_eq_div_pow, Nat.mul_div_cancel _ (Nat.two_pow_pos m)]

/-- OR of disjoint bit ranges is addition -/
theorem or_eq_add_of_lt {a m : Nat} (ha : a < 2 ^ m) (b : Nat) : a ||| (b * 2 ^ m) = a + b * 2 ^ m := by
  have := Nat.two_pow_add_eq_or_of_lt ha b
  rw [Nat.or_comm, Nat.mul_comm b, ← this, Nat.add_comm]

/-- OR of a bit with itself -/
theorem or_self_pow (m : Nat) : 2 ^ m ||| (1 * 2 ^ m) = 2 ^ m := by
  rw [Nat.one_mul, Nat.or_self]

/-- single-bit test against `2^k` when nothing above bit `k` can be set -/
theorem and_pow_eq_iff {x k : Nat} (hx : x ≤ 2 ^ k) : x &&& 2 ^ k = 2 ^ k ↔ x = 2 ^ k := by
  constructor
  · intro h
    rcases Nat.lt_or_ge x (2 ^ k) with hlt | hge
    · have : x &&& 2 ^ k ≤ x := Nat.and_le_left
      omega
    · omega
  · intro h; subst h; exact Nat.and_self _

theorem and_pow_beq {x k : Nat} (hx : x ≤ 2 ^ k) : (x &&& 2 ^ k == 2 ^ k) = decide (x = 2 ^ k) := by
  by_cases h : x = 2 ^ k
  · simp [h]
  · have := (and_pow_eq_iff hx).not.mpr h
    simp [h, this]

/-- `bits mod 2^(m+e) / 2^m = bits / 2^m mod 2^e` -/
theorem mod_pow_add_div (x m e : Nat) : x % 2 ^ (m + e) / 2 ^ m = x / 2 ^ m % 2 ^ e := by
  rw [Nat.pow_add, Nat.mod_mul_right_div_self]

theorem mod_pow_add_mod (x m e : Nat) : x % 2 ^ (m + e) % 2 ^ m = x % 2 ^ m := by
  apply Nat.mod_mod_of_dvd
  exact ⟨2 ^ e, Nat.pow_add 2 m e⟩

/-- bounds of the top `ms+1` bits of a normalised 64-bit word -/
theorem norm_div_bounds {mant ms sh : Nat} (hs : ms + sh = 63) (h1 : 2 ^ 63 ≤ mant) (h2 : mant < 2 ^ 64) :
    2 ^ ms ≤ mant / 2 ^ sh ∧ mant / 2 ^ sh < 2 ^ (ms + 1) := by
  have hp : 2 ^ ms * 2 ^ sh = 2 ^ 63 := by rw [← Nat.pow_add, hs]
  have hp' : 2 ^ (ms + 1) * 2 ^ sh = 2 ^ 64 := by rw [← Nat.pow_add]; congr 1; omega
  constructor
  · rw [Nat.le_div_iff_mul_le (Nat.two_pow_pos sh)]; omega
  · rw [Nat.div_lt_iff_lt_mul (Nat.two_pow_pos sh)]; omega

/-- a 64-bit word shifted right by at least `64 - ms` is below `2^ms` -/
theorem div_lt_of_shift_ge {mant ms s : Nat} (hs : 64 ≤ ms + s) (h2 : mant < 2 ^ 64) :
    mant / 2 ^ s < 2 ^ ms := by
  rw [Nat.div_lt_iff_lt_mul (Nat.two_pow_pos s), ← Nat.pow_add]
  exact Nat.lt_of_lt_of_le h2 (Nat.pow_le_pow_right (by decide) hs)

end MinLex.Bits
