/-
  Proofs about the string front-end model (`MinLex/Model/Front.lean`), property C19.
-/
import MinLex.Model.Front
import Mathlib.Tactic.Ring
import Mathlib.Tactic.Linarith
namespace MinLex.Front
open MinLex

-- ---------------------------------------------------------------- consume_digits
theorem consumeDigits_eq (bs : List UInt8) :
    consumeDigits bs = (bs.takeWhile isDigit, bs.dropWhile isDigit) := by
  induction bs with
  | nil => rfl
  | cons c rest ih =>
    simp only [consumeDigits, List.takeWhile_cons, List.dropWhile_cons]
    split <;> simp_all

theorem consumeDigits_append (bs : List UInt8) :
    (consumeDigits bs).1 ++ (consumeDigits bs).2 = bs := by
  simp [consumeDigits_eq]

theorem consumeDigits_digits (bs : List UInt8) : ∀ c ∈ (consumeDigits bs).1, isDigit c = true := by
  induction bs with
  | nil => intro c hc; simp [consumeDigits] at hc
  | cons a rest ih =>
    intro c hc
    by_cases ha : isDigit a = true
    · simp only [consumeDigits, ha, if_true, List.mem_cons] at hc
      rcases hc with rfl | hc
      · exact ha
      · exact ih c hc
    · simp [consumeDigits, ha] at hc

theorem consumeDigits_head (bs : List UInt8) :
    (consumeDigits bs).2.head?.all (fun c => !isDigit c) = true := by
  rw [consumeDigits_eq]
  induction bs with
  | nil => rfl
  | cons c rest ih =>
    simp only [List.dropWhile_cons]
    split
    · exact ih
    · simp_all

theorem consumeDigits_spec {bs ds rest : List UInt8} (h : consumeDigits bs = (ds, rest)) :
    ds ++ rest = bs ∧ (∀ c ∈ ds, isDigit c = true) ∧
      rest.head?.all (fun c => !isDigit c) = true := by
  have h1 := consumeDigits_append bs
  have h2 := consumeDigits_digits bs
  have h3 := consumeDigits_head bs
  rw [h] at h1 h2 h3
  exact ⟨h1, h2, h3⟩

/-- the digit prefix is the longest one: any all-digit prefix is a prefix of it -/
theorem consumeDigits_append_digits (ds t : List UInt8) (hd : ∀ c ∈ ds, isDigit c = true) :
    consumeDigits (ds ++ t) = (ds ++ (consumeDigits t).1, (consumeDigits t).2) := by
  induction ds with
  | nil => rfl
  | cons c rest ih =>
    have hc : isDigit c = true := hd c (by simp)
    have := ih (fun x hx => hd x (by simp [hx]))
    simp only [List.cons_append, consumeDigits, hc, if_true, this]

theorem consumeDigits_nondigit (t : List UInt8) (h : t.head?.all (fun c => !isDigit c) = true) :
    consumeDigits t = ([], t) := by
  cases t with
  | nil => rfl
  | cons c rest =>
    simp at h
    simp [consumeDigits, h]

theorem consumeDigits_snd_length (bs : List UInt8) : (consumeDigits bs).2.length ≤ bs.length := by
  have := congrArg List.length (consumeDigits_append bs)
  simp at this; omega

-- ---------------------------------------------------------------- trimming
theorem ltrimZero_spec (bs : List UInt8) :
    ∃ k, bs = List.replicate k 48 ++ ltrimZero bs ∧ (ltrimZero bs).head? ≠ some 48 := by
  induction bs with
  | nil => exact ⟨0, rfl, by simp [ltrimZero]⟩
  | cons c rest ih =>
    by_cases hc : c = 48
    · obtain ⟨k, h1, h2⟩ := ih
      refine ⟨k + 1, ?_, ?_⟩
      · simp only [ltrimZero, hc, if_true, List.replicate_succ, List.cons_append]
        rw [← h1]
      · simpa only [ltrimZero, hc, if_true] using h2
    · refine ⟨0, by simp [ltrimZero, hc], by simp [ltrimZero, hc]⟩

theorem rtrimZero_spec (bs : List UInt8) :
    ∃ k, bs = rtrimZero bs ++ List.replicate k 48 ∧ (rtrimZero bs).getLast? ≠ some 48 := by
  obtain ⟨k, h1, h2⟩ := ltrimZero_spec bs.reverse
  refine ⟨k, ?_, ?_⟩
  · have := congrArg List.reverse h1
    simpa [rtrimZero] using this
  · simpa [rtrimZero, List.getLast?_reverse] using h2

theorem ltrimZero_sublist (bs : List UInt8) : ∀ c ∈ ltrimZero bs, c ∈ bs := by
  obtain ⟨k, h1, _⟩ := ltrimZero_spec bs
  intro c hc
  rw [h1]; simp [hc]

theorem rtrimZero_sublist (bs : List UInt8) : ∀ c ∈ rtrimZero bs, c ∈ bs := by
  obtain ⟨k, h1, _⟩ := rtrimZero_spec bs
  intro c hc
  rw [h1]; simp [hc]

theorem ltrimZero_length (bs : List UInt8) : (ltrimZero bs).length ≤ bs.length := by
  obtain ⟨k, h1, _⟩ := ltrimZero_spec bs
  have := congrArg List.length h1
  simp at this; omega

theorem rtrimZero_length (bs : List UInt8) : (rtrimZero bs).length ≤ bs.length := by
  obtain ⟨k, h1, _⟩ := rtrimZero_spec bs
  have := congrArg List.length h1
  simp at this; omega

-- ---------------------------------------------------------------- digit values
/-- digit accumulation from an arbitrary start -/
def foldD (n : Nat) (ds : List UInt8) : Nat := ds.foldl (fun acc c => acc * 10 + digitVal c) n

theorem ofDigits_eq_foldD (ds : List UInt8) : ofDigits ds = foldD 0 ds := rfl

theorem foldD_cons (n : Nat) (c : UInt8) (ds : List UInt8) : foldD n (c :: ds) = foldD (n * 10 + digitVal c) ds := by
  unfold foldD; rw [List.foldl_cons]

theorem foldD_append (n : Nat) (a b : List UInt8) : foldD n (a ++ b) = foldD (foldD n a) b := by
  simp [foldD, List.foldl_append]

theorem foldD_eq (n : Nat) (ds : List UInt8) : foldD n ds = n * 10 ^ ds.length + foldD 0 ds := by
  induction ds generalizing n with
  | nil => simp [foldD]
  | cons c rest ih =>
    rw [foldD_cons, foldD_cons, ih, ih (0 * 10 + digitVal c)]
    simp only [List.length_cons]; ring

theorem foldD_ge (n : Nat) (ds : List UInt8) : n ≤ foldD n ds := by
  rw [foldD_eq]
  have : 1 ≤ 10 ^ ds.length := Nat.one_le_pow _ _ (by decide)
  nlinarith

theorem foldD_replicate_zero (n k : Nat) : foldD n (List.replicate k 48) = n * 10 ^ k := by
  induction k generalizing n with
  | zero => simp [foldD]
  | succ k ih =>
    rw [List.replicate_succ, foldD_cons, ih]
    have : digitVal 48 = 0 := by decide
    rw [this]; ring

theorem ofDigits_append (a b : List UInt8) :
    ofDigits (a ++ b) = ofDigits a * 10 ^ b.length + ofDigits b := by
  rw [ofDigits_eq_foldD, foldD_append, foldD_eq]; rfl

theorem ofDigits_replicate_zero (k : Nat) : ofDigits (List.replicate k 48) = 0 := by
  rw [ofDigits_eq_foldD, foldD_replicate_zero]; simp

theorem ofDigits_ltrimZero (bs : List UInt8) : ofDigits (ltrimZero bs) = ofDigits bs := by
  obtain ⟨k, h1, _⟩ := ltrimZero_spec bs
  conv => rhs; rw [h1]
  rw [ofDigits_append, ofDigits_replicate_zero]; simp

theorem ofDec_scale (N j : Nat) (x : Int) : Q.eqv (ofDec (N * 10 ^ j) (x - j)) (ofDec N x) := by
  unfold Q.eqv ofDec
  by_cases hx : x ≥ 0
  · by_cases hxj : x - j ≥ 0
    · simp only [hx, hxj, if_true]
      have : x.toNat = (x - j).toNat + j := by omega
      rw [this, pow_add]; ring
    · simp only [hx, hxj, if_true, if_false]
      have : j = x.toNat + (-(x - (j:Int))).toNat := by omega
      conv => lhs; rw [this]
      rw [pow_add]; ring
  · have hxj : ¬ (x - j ≥ 0) := by omega
    simp only [hx, hxj, if_false]
    have : (-(x - (j:Int))).toNat = j + (-x).toNat := by omega
    rw [this, pow_add]; ring

/-- trimming does not change the value -/
theorem digitsValue_trim (int frac : List UInt8) (e : Int) :
    Q.eqv (digitsValue (ltrimZero int) (rtrimZero frac) e) (digitsValue int frac e) := by
  obtain ⟨k, h1, _⟩ := ltrimZero_spec int
  obtain ⟨j, h2, _⟩ := rtrimZero_spec frac
  have hv : ofDigits (int ++ frac) = ofDigits (ltrimZero int ++ rtrimZero frac) * 10 ^ j := by
    conv => lhs; rw [h1, h2]
    rw [List.append_assoc, ofDigits_append (List.replicate k 48), ofDigits_replicate_zero,
      ← List.append_assoc, ofDigits_append _ (List.replicate j 48), ofDigits_replicate_zero]
    simp
  have hl : (frac.length : Int) = (rtrimZero frac).length + j := by
    have := congrArg List.length h2
    simp at this; omega
  unfold digitsValue
  rw [hv, hl]
  have := ofDec_scale (ofDigits (ltrimZero int ++ rtrimZero frac)) j (e - (rtrimZero frac).length)
  unfold Q.eqv at this ⊢
  rw [show e - ((rtrimZero frac).length + (j:Int)) = e - (rtrimZero frac).length - j by ring]
  exact this.symm

-- ---------------------------------------------------------------- exponent
theorem parseExponent_pos_aux (ds : List UInt8) (n : Nat) (hn : (n : Int) ≤ i32Max) :
    parseExponent true ds n = min ((foldD n ds : Nat) : Int) i32Max := by
  induction ds generalizing n with
  | nil => simp only [parseExponent, foldD, List.foldl_nil]; omega
  | cons c rest ih =>
    rw [foldD_cons]
    simp only [parseExponent, if_true]
    have hge := foldD_ge (n * 10 + digitVal c) rest
    split
    · rename_i h
      have : (n : Int) * 10 + digitVal c > i32Max := by
        rcases h with h | h <;> omega
      have : ((foldD (n * 10 + digitVal c) rest : Nat) : Int) > i32Max := by
        have : ((n * 10 + digitVal c : Nat) : Int) ≤ (foldD (n * 10 + digitVal c) rest : Nat) := by
          exact_mod_cast hge
        push_cast at this; omega
      omega
    · rename_i h
      have h' : ((n * 10 + digitVal c : Nat) : Int) ≤ i32Max := by push_cast; omega
      have := ih (n * 10 + digitVal c) h'
      push_cast at this
      exact this

theorem parseExponent_neg_aux (ds : List UInt8) (n : Nat) (hn : i32Min ≤ -(n : Int)) :
    parseExponent false ds (-(n : Int)) = max (-((foldD n ds : Nat) : Int)) i32Min := by
  induction ds generalizing n with
  | nil => simp only [parseExponent, foldD, List.foldl_nil]; omega
  | cons c rest ih =>
    rw [foldD_cons]
    simp only [parseExponent, Bool.false_eq_true, if_false]
    have hge := foldD_ge (n * 10 + digitVal c) rest
    split
    · rename_i h
      have : -(n : Int) * 10 - digitVal c < i32Min := by
        rcases h with h | h <;> omega
      have : ((n * 10 + digitVal c : Nat) : Int) ≤ (foldD (n * 10 + digitVal c) rest : Nat) := by
        exact_mod_cast hge
      push_cast at this
      omega
    · rename_i h
      have h' : i32Min ≤ -((n * 10 + digitVal c : Nat) : Int) := by push_cast; omega
      have := ih (n * 10 + digitVal c) h'
      push_cast at this
      rw [show -(n : Int) * 10 - digitVal c = -((n : Int) * 10 + digitVal c) by ring]
      exact this

/-- positive exponents: exact value, saturating at `i32::MAX` -/
theorem parseExponent_pos (ds : List UInt8) :
    parseExponent true ds 0 = min (ofDigits ds : Int) i32Max := by
  have := parseExponent_pos_aux ds 0 (by decide)
  simpa [ofDigits_eq_foldD] using this

/-- negative exponents: exact value, saturating at `i32::MIN` -/
theorem parseExponent_neg (ds : List UInt8) :
    parseExponent false ds 0 = max (-(ofDigits ds : Int)) i32Min := by
  have := parseExponent_neg_aux ds 0 (by decide)
  simpa [ofDigits_eq_foldD] using this

theorem parseExponent_range (pos : Bool) (ds : List UInt8) :
    i32Min ≤ parseExponent pos ds 0 ∧ parseExponent pos ds 0 ≤ i32Max := by
  cases pos
  · rw [parseExponent_neg]; have : i32Min ≤ i32Max := by decide
    have : (0:Int) ≤ ofDigits ds := Int.natCast_nonneg _
    have : i32Min ≤ 0 := by decide
    have : (0:Int) ≤ i32Max := by decide
    omega
  · rw [parseExponent_pos]
    have : (0:Int) ≤ ofDigits ds := Int.natCast_nonneg _
    have : i32Min ≤ 0 := by decide
    have : (0:Int) ≤ i32Max := by decide
    omega

-- ---------------------------------------------------------------- sign
/-- the bytes taken by `parse_sign` -/
def signPart : List UInt8 → List UInt8
  | 43 :: _ => [43]
  | 45 :: _ => [45]
  | _ => []

theorem parseSign_append (bs : List UInt8) : signPart bs ++ (parseSign bs).2 = bs := by
  unfold signPart parseSign
  split <;> simp

theorem parseSign_fst (bs : List UInt8) : (parseSign bs).1 = (bs.head? != some 45) := by
  unfold parseSign
  split
  · simp
  · simp
  · rename_i h1 h2
    cases bs with
    | nil => rfl
    | cons c rest =>
      have : c ≠ 45 := fun hc => h2 rest (by rw [hc])
      simp [this]

theorem parseSign_snd_length (bs : List UInt8) : (parseSign bs).2.length ≤ bs.length := by
  have := congrArg List.length (parseSign_append bs)
  simp at this; omega

/-- `parse_sign` takes a sign byte whenever there is one -/
theorem parseSign_nosign (bs : List UInt8) (h1 : bs.head? ≠ some 43) (h2 : bs.head? ≠ some 45) :
    parseSign bs = (true, bs) := by
  unfold parseSign
  split <;> simp_all

theorem parseSign_plus (rest : List UInt8) : parseSign (43 :: rest) = (true, rest) := rfl
theorem parseSign_minus (rest : List UInt8) : parseSign (45 :: rest) = (false, rest) := rfl

-- ---------------------------------------------------------------- the stages of `parse_float`
/-- fraction stage: (fraction digits, rest) -/
def fracSplit (b1 : List UInt8) : List UInt8 × List UInt8 :=
  match b1 with
  | 46 :: rest => consumeDigits rest
  | _ => ([], b1)

/-- what follows an exponent marker: (exponent, rest) -/
def expTail (rest : List UInt8) : Int × List UInt8 :=
  (parseExponent (parseSign rest).1 (consumeDigits (parseSign rest).2).1 0,
    (consumeDigits (parseSign rest).2).2)

/-- exponent stage: (exponent, rest) -/
def expSplit (b2 : List UInt8) : Int × List UInt8 :=
  match b2 with
  | 101 :: rest => expTail rest
  | 69 :: rest => expTail rest
  | _ => (0, b2)

/-- integer digits found in the body `b0` (input after the sign) -/
def intOf (b0 : List UInt8) : List UInt8 := (consumeDigits b0).1
/-- fraction digits -/
def fracOf (b0 : List UInt8) : List UInt8 := (fracSplit (consumeDigits b0).2).1
/-- the (clamped) exponent -/
def expOf (b0 : List UInt8) : Int := (expSplit (fracSplit (consumeDigits b0).2).2).1
/-- unconsumed suffix -/
def restOf (b0 : List UInt8) : List UInt8 := (expSplit (fracSplit (consumeDigits b0).2).2).2

theorem parseBody_eq (E : Env) (F : FloatC) (special : Bool) (startLen : Nat) (pos : Bool)
    (b0 : List UInt8) : parseBody E F special startLen pos b0 =
    if special && (restOf b0).length == startLen then .ok 0 (restOf b0).length
    else
      match parseFloat E F (ltrimZero (intOf b0)) (rtrimZero (fracOf b0)) (expOf b0) with
      | .panic => .panic
      | .ok bits => .ok (withSign F pos bits) (restOf b0).length := by
  unfold parseBody restOf intOf fracOf expOf fracSplit expSplit expTail
  rfl

theorem parse_simple_eq (E : Env) (F : FloatC) (bytes : List UInt8) :
    parse E F false bytes =
      match parseFloat E F (ltrimZero (intOf (parseSign bytes).2))
          (rtrimZero (fracOf (parseSign bytes).2)) (expOf (parseSign bytes).2) with
      | .panic => .panic
      | .ok bits => .ok (withSign F (parseSign bytes).1 bits) (restOf (parseSign bytes).2).length := by
  simp only [parse, Bool.false_and, Bool.false_eq_true, if_false, parseBody_eq]

theorem fracSplit_dot (rest : List UInt8) : fracSplit (46 :: rest) = consumeDigits rest := rfl

theorem fracSplit_nodot (b1 : List UInt8) (h : b1.head? ≠ some 46) : fracSplit b1 = ([], b1) := by
  unfold fracSplit
  split
  · simp at h
  · rfl

theorem expSplit_e (rest : List UInt8) : expSplit (101 :: rest) = expTail rest := rfl
theorem expSplit_E (rest : List UInt8) : expSplit (69 :: rest) = expTail rest := rfl

theorem expSplit_none (b2 : List UInt8) (h1 : b2.head? ≠ some 101) (h2 : b2.head? ≠ some 69) :
    expSplit b2 = (0, b2) := by
  unfold expSplit
  split
  · simp at h1
  · simp at h2
  · rfl

/-- bytes taken by the fraction stage -/
def dotPart (b1 : List UInt8) : List UInt8 :=
  match b1 with
  | 46 :: rest => 46 :: (consumeDigits rest).1
  | _ => []

/-- bytes taken after an exponent marker -/
def expTailPart (rest : List UInt8) : List UInt8 :=
  signPart rest ++ (consumeDigits (parseSign rest).2).1

/-- bytes taken by the exponent stage -/
def expPart (b2 : List UInt8) : List UInt8 :=
  match b2 with
  | 101 :: rest => 101 :: expTailPart rest
  | 69 :: rest => 69 :: expTailPart rest
  | _ => []

theorem dotPart_append (b1 : List UInt8) : dotPart b1 ++ (fracSplit b1).2 = b1 := by
  unfold dotPart fracSplit
  split
  · simp [consumeDigits_append]
  · simp

theorem expTailPart_append (rest : List UInt8) : expTailPart rest ++ (expTail rest).2 = rest := by
  unfold expTailPart expTail
  simp only [List.append_assoc, consumeDigits_append, parseSign_append]

theorem expPart_append (b2 : List UInt8) : expPart b2 ++ (expSplit b2).2 = b2 := by
  unfold expPart expSplit
  split
  · simp [expTailPart_append]
  · simp [expTailPart_append]
  · simp

/-- the input is the concatenation of the five pieces -/
theorem decomposition (bytes : List UInt8) :
    signPart bytes ++ intOf (parseSign bytes).2 ++ dotPart (consumeDigits (parseSign bytes).2).2
      ++ expPart (fracSplit (consumeDigits (parseSign bytes).2).2).2 ++ restOf (parseSign bytes).2
      = bytes := by
  unfold intOf restOf
  simp only [List.append_assoc, expPart_append, dotPart_append, consumeDigits_append,
    parseSign_append]

theorem fracSplit_digits (b1 : List UInt8) : ∀ c ∈ (fracSplit b1).1, isDigit c = true := by
  unfold fracSplit
  split
  · exact consumeDigits_digits _
  · simp

theorem expTail_range (rest : List UInt8) :
    i32Min ≤ (expTail rest).1 ∧ (expTail rest).1 ≤ i32Max := parseExponent_range _ _

theorem expSplit_range (b2 : List UInt8) :
    i32Min ≤ (expSplit b2).1 ∧ (expSplit b2).1 ≤ i32Max := by
  unfold expSplit
  split
  · exact expTail_range _
  · exact expTail_range _
  · exact ⟨(by decide : i32Min ≤ 0), (by decide : (0:Int) ≤ i32Max)⟩

/-- the pieces handed to the library are valid input (given the `i32` length bound) -/
theorem pieces_valid (b0 : List UInt8)
    (hi : (ltrimZero (intOf b0)).length < 2147483647)
    (hf : (rtrimZero (fracOf b0)).length < 2147483647) :
    Valid (ltrimZero (intOf b0)) (rtrimZero (fracOf b0)) (expOf b0) := by
  refine ⟨?_, ?_, ?_, hi, hf, (expSplit_range _).1, (expSplit_range _).2⟩
  · intro c hc
    exact consumeDigits_digits b0 c (ltrimZero_sublist _ c hc)
  · intro c hc
    exact fracSplit_digits _ c (rtrimZero_sublist _ c hc)
  · exact (ltrimZero_spec _).choose_spec.2

theorem intOf_fracOf_length (b0 : List UInt8) : (intOf b0).length + (fracOf b0).length ≤ b0.length := by
  have h1 := congrArg List.length (consumeDigits_append b0)
  have h2 := congrArg List.length (dotPart_append (consumeDigits b0).2)
  have h3 : (fracSplit (consumeDigits b0).2).1.length ≤ (dotPart (consumeDigits b0).2).length := by
    unfold fracSplit dotPart
    split <;> simp
  simp only [List.length_append] at h1 h2
  unfold intOf fracOf
  omega
