/-
  Proofs about the string front-end model (`MinLex/Model/Front.lean`), property C19.
-/
import MinLex.Model.Front
import Mathlib.Tactic.Ring
import Mathlib.Tactic.Linarith
namespace MinLex.Front
open MinLex

-- ---------------------------------------------------------------- consume_digits
theorem consumeDigits_eq (bs : List UInt8) :
    consumeDigits bs = (bs.takeWhile isDigit, bs.dropWhile isDigit) := by
  induction bs with
  | nil => rfl
  | cons c rest ih =>
    simp only [consumeDigits, List.takeWhile_cons, List.dropWhile_cons]
    split <;> simp_all

theorem consumeDigits_append (bs : List UInt8) :
    (consumeDigits bs).1 ++ (consumeDigits bs).2 = bs := by
  simp [consumeDigits_eq]

theorem consumeDigits_digits (bs : List UInt8) : ∀ c ∈ (consumeDigits bs).1, isDigit c = true := by
  induction bs with
  | nil => intro c hc; simp [consumeDigits] at hc
  | cons a rest ih =>
    intro c hc
    by_cases ha : isDigit a = true
    · simp only [consumeDigits, ha, if_true, List.mem_cons] at hc
      rcases hc with rfl | hc
      · exact ha
      · exact ih c hc
    · simp [consumeDigits, ha] at hc

theorem consumeDigits_head (bs : List UInt8) :
    (consumeDigits bs).2.head?.all (fun c => !isDigit c) = true := by
  rw [consumeDigits_eq]
  induction bs with
  | nil => rfl
  | cons c rest ih =>
    simp only [List.dropWhile_cons]
    split
    · exact ih
    · simp_all

theorem consumeDigits_spec {bs ds rest : List UInt8} (h : consumeDigits bs = (ds, rest)) :
    ds ++ rest = bs ∧ (∀ c ∈ ds, isDigit c = true) ∧
      rest.head?.all (fun c => !isDigit c) = true := by
  have h1 := consumeDigits_append bs
  have h2 := consumeDigits_digits bs
  have h3 := consumeDigits_head bs
  rw [h] at h1 h2 h3
  exact ⟨h1, h2, h3⟩

/-- the digit prefix is the longest one: any all-digit prefix is a prefix of it -/
theorem consumeDigits_append_digits (ds t : List UInt8) (hd : ∀ c ∈ ds, isDigit c = true) :
    consumeDigits (ds ++ t) = (ds ++ (consumeDigits t).1, (consumeDigits t).2) := by
  induction ds with
  | nil => rfl
  | cons c rest ih =>
    have hc : isDigit c = true := hd c (by simp)
    have := ih (fun x hx => hd x (by simp [hx]))
    simp only [List.cons_append, consumeDigits, hc, if_true, this]

theorem consumeDigits_nondigit (t : List UInt8) (h : t.head?.all (fun c => !isDigit c) = true) :
    consumeDigits t = ([], t) := by
  cases t with
  | nil => rfl
  | cons c rest =>
    simp at h
    simp [consumeDigits, h]

theorem consumeDigits_snd_length (bs : List UInt8) : (consumeDigits bs).2.length ≤ bs.length := by
  have := congrArg List.length (consumeDigits_append bs)
  simp at this; omega

-- ---------------------------------------------------------------- trimming
theorem ltrimZero_spec (bs : List UInt8) :
    ∃ k, bs = List.replicate k 48 ++ ltrimZero bs ∧ (ltrimZero bs).head? ≠ some 48 := by
  induction bs with
  | nil => exact ⟨0, rfl, by simp [ltrimZero]⟩
  | cons c rest ih =>
    by_cases hc : c = 48
    · obtain ⟨k, h1, h2⟩ := ih
      refine ⟨k + 1, ?_, ?_⟩
      · simp only [ltrimZero, hc, if_true, List.replicate_succ, List.cons_append]
        rw [← h1]
      · simpa only [ltrimZero, hc, if_true] using h2
    · refine ⟨0, by simp [ltrimZero, hc], by simp [ltrimZero, hc]⟩

theorem rtrimZero_spec (bs : List UInt8) :
    ∃ k, bs = rtrimZero bs ++ List.replicate k 48 ∧ (rtrimZero bs).getLast? ≠ some 48 := by
  obtain ⟨k, h1, h2⟩ := ltrimZero_spec bs.reverse
  refine ⟨k, ?_, ?_⟩
  · have := congrArg List.reverse h1
    simpa [rtrimZero] using this
  · simpa [rtrimZero, List.getLast?_reverse] using h2

theorem ltrimZero_sublist (bs : List UInt8) : ∀ c ∈ ltrimZero bs, c ∈ bs := by
  obtain ⟨k, h1, _⟩ := ltrimZero_spec bs
  intro c hc
  rw [h1]; simp [hc]

theorem rtrimZero_sublist (bs : List UInt8) : ∀ c ∈ rtrimZero bs, c ∈ bs := by
  obtain ⟨k, h1, _⟩ := rtrimZero_spec bs
  intro c hc
  rw [h1]; simp [hc]

theorem ltrimZero_length (bs : List UInt8) : (ltrimZero bs).length ≤ bs.length := by
  obtain ⟨k, h1, _⟩ := ltrimZero_spec bs
  have := congrArg List.length h1
  simp at this; omega

theorem rtrimZero_length (bs : List UInt8) : (rtrimZero bs).length ≤ bs.length := by
  obtain ⟨k, h1, _⟩ := rtrimZero_spec bs
  have := congrArg List.length h1
  simp at this; omega

-- ---------------------------------------------------------------- digit values
/-- digit accumulation from an arbitrary start -/
def foldD (n : Nat) (ds : List UInt8) : Nat := ds.foldl (fun acc c => acc * 10 + digitVal c) n

theorem ofDigits_eq_foldD (ds : List UInt8) : ofDigits ds = foldD 0 ds := rfl

theorem foldD_cons (n : Nat) (c : UInt8) (ds : List UInt8) : foldD n (c :: ds) = foldD (n * 10 + digitVal c) ds := by
  unfold foldD; rw [List.foldl_cons]

theorem foldD_append (n : Nat) (a b : List UInt8) : foldD n (a ++ b) = foldD (foldD n a) b := by
  simp [foldD, List.foldl_append]

theorem foldD_eq (n : Nat) (ds : List UInt8) : foldD n ds = n * 10 ^ ds.length + foldD 0 ds := by
  induction ds generalizing n with
  | nil => simp [foldD]
  | cons c rest ih =>
    rw [foldD_cons, foldD_cons, ih, ih (0 * 10 + digitVal c)]
    simp only [List.length_cons]; ring

theorem foldD_ge (n : Nat) (ds : List UInt8) : n ≤ foldD n ds := by
  rw [foldD_eq]
  have : 1 ≤ 10 ^ ds.length := Nat.one_le_pow _ _ (by decide)
  nlinarith

theorem foldD_replicate_zero (n k : Nat) : foldD n (List.replicate k 48) = n * 10 ^ k := by
  induction k generalizing n with
  | zero => simp [foldD]
  | succ k ih =>
    rw [List.replicate_succ, foldD_cons, ih]
    have : digitVal 48 = 0 := by decide
    rw [this]; ring

theorem ofDigits_append (a b : List UInt8) :
    ofDigits (a ++ b) = ofDigits a * 10 ^ b.length + ofDigits b := by
  rw [ofDigits_eq_foldD, foldD_append, foldD_eq]; rfl

theorem ofDigits_replicate_zero (k : Nat) : ofDigits (List.replicate k 48) = 0 := by
  rw [ofDigits_eq_foldD, foldD_replicate_zero]; simp

theorem ofDigits_ltrimZero (bs : List UInt8) : ofDigits (ltrimZero bs) = ofDigits bs := by
  obtain ⟨k, h1, _⟩ := ltrimZero_spec bs
  conv => rhs; rw [h1]
  rw [ofDigits_append, ofDigits_replicate_zero]; simp

theorem ofDec_scale (N j : Nat) (x : Int) : Q.eqv (ofDec (N * 10 ^ j) (x - j)) (ofDec N x) := by
  unfold Q.eqv ofDec
  by_cases hx : x ≥ 0
  · by_cases hxj : x - j ≥ 0
    · simp only [hx, hxj, if_true]
      have : x.toNat = (x - j).toNat + j := by omega
      rw [this, pow_add]; ring
    · simp only [hx, hxj, if_true, if_false]
      have : j = x.toNat + (-(x - (j:Int))).toNat := by omega
      conv => lhs; rw [this]
      rw [pow_add]; ring
  · have hxj : ¬ (x - j ≥ 0) := by omega
    simp only [hx, hxj, if_false]
    have : (-(x - (j:Int))).toNat = j + (-x).toNat := by omega
    rw [this, pow_add]; ring

/-- trimming does not change the value -/
theorem digitsValue_trim (int frac : List UInt8) (e : Int) :
    Q.eqv (digitsValue (ltrimZero int) (rtrimZero frac) e) (digitsValue int frac e) := by
  obtain ⟨k, h1, _⟩ := ltrimZero_spec int
  obtain ⟨j, h2, _⟩ := rtrimZero_spec frac
  have hv : ofDigits (int ++ frac) = ofDigits (ltrimZero int ++ rtrimZero frac) * 10 ^ j := by
    conv => lhs; rw [h1, h2]
    rw [List.append_assoc, ofDigits_append (List.replicate k 48), ofDigits_replicate_zero,
      ← List.append_assoc, ofDigits_append _ (List.replicate j 48), ofDigits_replicate_zero]
    simp
  have hl : (frac.length : Int) = (rtrimZero frac).length + j := by
    have := congrArg List.length h2
    simp at this; omega
  unfold digitsValue
  rw [hv, hl]
  have := ofDec_scale (ofDigits (ltrimZero int ++ rtrimZero frac)) j (e - (rtrimZero frac).length)
  unfold Q.eqv at this ⊢
  rw [show e - ((rtrimZero frac).length + (j:Int)) = e - (rtrimZero frac).length - j by ring]
  exact this.symm

-- ---------------------------------------------------------------- exponent
theorem parseExponent_pos_aux (ds : List UInt8) (n : Nat) (hn : (n : Int) ≤ i32Max) :
    parseExponent true ds n = min ((foldD n ds : Nat) : Int) i32Max := by
  induction ds generalizing n with
  | nil => simp only [parseExponent, foldD, List.foldl_nil]; omega
  | cons c rest ih =>
    rw [foldD_cons]
    simp only [parseExponent, if_true]
    have hge := foldD_ge (n * 10 + digitVal c) rest
    split
    · rename_i h
      have : (n : Int) * 10 + digitVal c > i32Max := by
        rcases h with h | h <;> omega
      have : ((foldD (n * 10 + digitVal c) rest : Nat) : Int) > i32Max := by
        have : ((n * 10 + digitVal c : Nat) : Int) ≤ (foldD (n * 10 + digitVal c) rest : Nat) := by
          exact_mod_cast hge
        push_cast at this; omega
      omega
    · rename_i h
      have h' : ((n * 10 + digitVal c : Nat) : Int) ≤ i32Max := by push_cast; omega
      have := ih (n * 10 + digitVal c) h'
      push_cast at this
      exact this

theorem parseExponent_neg_aux (ds : List UInt8) (n : Nat) (hn : i32Min ≤ -(n : Int)) :
    parseExponent false ds (-(n : Int)) = max (-((foldD n ds : Nat) : Int)) i32Min := by
  induction ds generalizing n with
  | nil => simp only [parseExponent, foldD, List.foldl_nil]; omega
  | cons c rest ih =>
    rw [foldD_cons]
    simp only [parseExponent, Bool.false_eq_true, if_false]
    have hge := foldD_ge (n * 10 + digitVal c) rest
    split
    · rename_i h
      have : -(n : Int) * 10 - digitVal c < i32Min := by
        rcases h with h | h <;> omega
      have : ((n * 10 + digitVal c : Nat) : Int) ≤ (foldD (n * 10 + digitVal c) rest : Nat) := by
        exact_mod_cast hge
      push_cast at this
      omega
    · rename_i h
      have h' : i32Min ≤ -((n * 10 + digitVal c : Nat) : Int) := by push_cast; omega
      have := ih (n * 10 + digitVal c) h'
      push_cast at this
      rw [show -(n : Int) * 10 - digitVal c = -((n : Int) * 10 + digitVal c) by ring]
      exact this

/-- positive exponents: exact value, saturating at `i32::MAX` -/
theorem parseExponent_pos (ds : List UInt8) :
    parseExponent true ds 0 = min (ofDigits ds : Int) i32Max := by
  have := parseExponent_pos_aux ds 0 (by decide)
  simpa [ofDigits_eq_foldD] using this

/-- negative exponents: exact value, saturating at `i32::MIN` -/
theorem parseExponent_neg (ds : List UInt8) :
    parseExponent false ds 0 = max (-(ofDigits ds : Int)) i32Min := by
  have := parseExponent_neg_aux ds 0 (by decide)
  simpa [ofDigits_eq_foldD] using this

theorem parseExponent_range (pos : Bool) (ds : List UInt8) :
    i32Min ≤ parseExponent pos ds 0 ∧ parseExponent pos ds 0 ≤ i32Max := by
  cases pos
  · rw [parseExponent_neg]; have : i32Min ≤ i32Max := by decide
    have : (0:Int) ≤ ofDigits ds := Int.natCast_nonneg _
    have : i32Min ≤ 0 := by decide
    have : (0:Int) ≤ i32Max := by decide
    omega
  · rw [parseExponent_pos]
    have : (0:Int) ≤ ofDigits ds := Int.natCast_nonneg _
    have : i32Min ≤ 0 := by decide
    have : (0:Int) ≤ i32Max := by decide
    omega

-- ---------------------------------------------------------------- sign
/-- the bytes taken by `parse_sign` -/
def signPart : List UInt8 → List UInt8
  | 43 :: _ => [43]
  | 45 :: _ => [45]
  | _ => []

theorem parseSign_append (bs : List UInt8) : signPart bs ++ (parseSign bs).2 = bs := by
  unfold signPart parseSign
  split <;> simp

theorem parseSign_fst (bs : List UInt8) : (parseSign bs).1 = (bs.head? != some 45) := by
  unfold parseSign
  split
  · simp
  · simp
  · rename_i h1 h2
    cases bs with
    | nil => rfl
    | cons c rest =>
      have : c ≠ 45 := fun hc => h2 rest (by rw [hc])
      simp [this]

theorem parseSign_snd_length (bs : List UInt8) : (parseSign bs).2.length ≤ bs.length := by
  have := congrArg List.length (parseSign_append bs)
  simp at this; omega

/-- `parse_sign` takes a sign byte whenever there is one -/
theorem parseSign_nosign (bs : List UInt8) (h1 : bs.head? ≠ some 43) (h2 : bs.head? ≠ some 45) :
    parseSign bs = (true, bs) := by
  unfold parseSign
  split <;> simp_all

theorem parseSign_plus (rest : List UInt8) : parseSign (43 :: rest) = (true, rest) := rfl
theorem parseSign_minus (rest : List UInt8) : parseSign (45 :: rest) = (false, rest) := rfl

-- ---------------------------------------------------------------- the stages of `parse_float`
/-- fraction stage: (fraction digits, rest) -/
def fracSplit (b1 : List UInt8) : List UInt8 × List UInt8 :=
  match b1 with
  | 46 :: rest => consumeDigits rest
  | _ => ([], b1)

/-- what follows an exponent marker: (exponent, rest) -/
def expTail (rest : List UInt8) : Int × List UInt8 :=
  (parseExponent (parseSign rest).1 (consumeDigits (parseSign rest).2).1 0,
    (consumeDigits (parseSign rest).2).2)

/-- exponent stage: (exponent, rest) -/
def expSplit (b2 : List UInt8) : Int × List UInt8 :=
  match b2 with
  | 101 :: rest => expTail rest
  | 69 :: rest => expTail rest
  | _ => (0, b2)

/-- integer digits found in the body `b0` (input after the sign) -/
def intOf (b0 : List UInt8) : List UInt8 := (consumeDigits b0).1
/-- fraction digits -/
def fracOf (b0 : List UInt8) : List UInt8 := (fracSplit (consumeDigits b0).2).1
/-- the (clamped) exponent -/
def expOf (b0 : List UInt8) : Int := (expSplit (fracSplit (consumeDigits b0).2).2).1
/-- unconsumed suffix -/
def restOf (b0 : List UInt8) : List UInt8 := (expSplit (fracSplit (consumeDigits b0).2).2).2

theorem parseBody_eq (E : Env) (F : FloatC) (special : Bool) (startLen : Nat) (pos : Bool)
    (b0 : List UInt8) : parseBody E F special startLen pos b0 =
    if special && (restOf b0).length == startLen then .ok 0 (restOf b0).length
    else
      match parseFloat E F (ltrimZero (intOf b0)) (rtrimZero (fracOf b0)) (expOf b0) with
      | .panic => .panic
      | .ok bits => .ok (withSign F pos bits) (restOf b0).length := by
  unfold parseBody restOf intOf fracOf expOf fracSplit expSplit expTail
  rfl

theorem parse_simple_eq (E : Env) (F : FloatC) (bytes : List UInt8) :
    parse E F false bytes =
      match parseFloat E F (ltrimZero (intOf (parseSign bytes).2))
          (rtrimZero (fracOf (parseSign bytes).2)) (expOf (parseSign bytes).2) with
      | .panic => .panic
      | .ok bits => .ok (withSign F (parseSign bytes).1 bits) (restOf (parseSign bytes).2).length := by
  simp only [parse, Bool.false_and, Bool.false_eq_true, if_false, parseBody_eq]

theorem fracSplit_dot (rest : List UInt8) : fracSplit (46 :: rest) = consumeDigits rest := rfl

theorem fracSplit_nodot (b1 : List UInt8) (h : b1.head? ≠ some 46) : fracSplit b1 = ([], b1) := by
  unfold fracSplit
  split
  · simp at h
  · rfl

theorem expSplit_e (rest : List UInt8) : expSplit (101 :: rest) = expTail rest := rfl
theorem expSplit_E (rest : List UInt8) : expSplit (69 :: rest) = expTail rest := rfl

theorem expSplit_none (b2 : List UInt8) (h1 : b2.head? ≠ some 101) (h2 : b2.head? ≠ some 69) :
    expSplit b2 = (0, b2) := by
  unfold expSplit
  split
  · simp at h1
  · simp at h2
  · rfl

/-- bytes taken by the fraction stage -/
def dotPart (b1 : List UInt8) : List UInt8 :=
  match b1 with
  | 46 :: rest => 46 :: (consumeDigits rest).1
  | _ => []

/-- bytes taken after an exponent marker -/
def expTailPart (rest : List UInt8) : List UInt8 :=
  signPart rest ++ (consumeDigits (parseSign rest).2).1

/-- bytes taken by the exponent stage -/
def expPart (b2 : List UInt8) : List UInt8 :=
  match b2 with
  | 101 :: rest => 101 :: expTailPart rest
  | 69 :: rest => 69 :: expTailPart rest
  | _ => []

theorem dotPart_append (b1 : List UInt8) : dotPart b1 ++ (fracSplit b1).2 = b1 := by
  unfold dotPart fracSplit
  split
  · simp [consumeDigits_append]
  · simp

theorem expTailPart_append (rest : List UInt8) : expTailPart rest ++ (expTail rest).2 = rest := by
  unfold expTailPart expTail
  simp only [List.append_assoc, consumeDigits_append, parseSign_append]

theorem expPart_append (b2 : List UInt8) : expPart b2 ++ (expSplit b2).2 = b2 := by
  unfold expPart expSplit
  split
  · simp [expTailPart_append]
  · simp [expTailPart_append]
  · simp

/-- the input is the concatenation of the five pieces -/
theorem decomposition (bytes : List UInt8) :
    signPart bytes ++ intOf (parseSign bytes).2 ++ dotPart (consumeDigits (parseSign bytes).2).2
      ++ expPart (fracSplit (consumeDigits (parseSign bytes).2).2).2 ++ restOf (parseSign bytes).2
      = bytes := by
  unfold intOf restOf
  simp only [List.append_assoc, expPart_append, dotPart_append, consumeDigits_append,
    parseSign_append]

theorem fracSplit_digits (b1 : List UInt8) : ∀ c ∈ (fracSplit b1).1, isDigit c = true := by
  unfold fracSplit
  split
  · exact consumeDigits_digits _
  · simp

theorem expTail_range (rest : List UInt8) :
    i32Min ≤ (expTail rest).1 ∧ (expTail rest).1 ≤ i32Max := parseExponent_range _ _

theorem expSplit_range (b2 : List UInt8) :
    i32Min ≤ (expSplit b2).1 ∧ (expSplit b2).1 ≤ i32Max := by
  unfold expSplit
  split
  · exact expTail_range _
  · exact expTail_range _
  · exact ⟨(by decide : i32Min ≤ 0), (by decide : (0:Int) ≤ i32Max)⟩

/-- the pieces handed to the library are valid input (given the `i32` length bound) -/
theorem pieces_valid (b0 : List UInt8)
    (hi : (ltrimZero (intOf b0)).length < 2147483647)
    (hf : (rtrimZero (fracOf b0)).length < 2147483647) :
    Valid (ltrimZero (intOf b0)) (rtrimZero (fracOf b0)) (expOf b0) := by
  refine ⟨?_, ?_, ?_, hi, hf, (expSplit_range _).1, (expSplit_range _).2⟩
  · intro c hc
    exact consumeDigits_digits b0 c (ltrimZero_sublist _ c hc)
  · intro c hc
    exact fracSplit_digits _ c (rtrimZero_sublist _ c hc)
  · exact (ltrimZero_spec _).choose_spec.2

theorem intOf_fracOf_length (b0 : List UInt8) : (intOf b0).length + (fracOf b0).length ≤ b0.length := by
  have h1 := congrArg List.length (consumeDigits_append b0)
  have h2 := congrArg List.length (dotPart_append (consumeDigits b0).2)
  have h3 : (fracSplit (consumeDigits b0).2).1.length ≤ (dotPart (consumeDigits b0).2).length := by
    unfold fracSplit dotPart
    split <;> simp
  simp only [List.length_append] at h1 h2
  unfold intOf fracOf
  omega

-- ---------------------------------------------------------------- the grammar G
/-- `D*` -/
def AllDigits (ds : List UInt8) : Prop := ∀ c ∈ ds, isDigit c = true
/-- `[+-]?` -/
def IsSign (s : List UInt8) : Prop := s = [] ∨ s = [43] ∨ s = [45]
/-- `(\. D*)?` -/
def IsDotPart (p : List UInt8) : Prop := p = [] ∨ ∃ ds, AllDigits ds ∧ p = 46 :: ds
/-- `([eE] [+-]? D*)?` -/
def IsExpPart (p : List UInt8) : Prop :=
  p = [] ∨ ∃ m s ds, (m = 101 ∨ m = 69) ∧ IsSign s ∧ AllDigits ds ∧ p = m :: (s ++ ds)
/-- `G = [+-]? D* (\. D*)? ([eE] [+-]? D*)?` -/
def InG (bs : List UInt8) : Prop :=
  ∃ s i d x, IsSign s ∧ AllDigits i ∧ IsDotPart d ∧ IsExpPart x ∧ bs = s ++ i ++ d ++ x

theorem signPart_isSign (bs : List UInt8) : IsSign (signPart bs) := by
  unfold signPart IsSign
  split <;> simp

theorem dotPart_isDotPart (b1 : List UInt8) : IsDotPart (dotPart b1) := by
  unfold dotPart
  split
  · exact Or.inr ⟨_, consumeDigits_digits _, rfl⟩
  · exact Or.inl rfl

theorem expPart_isExpPart (b2 : List UInt8) : IsExpPart (expPart b2) := by
  unfold expPart
  split
  · exact Or.inr ⟨101, _, _, Or.inl rfl, signPart_isSign _, consumeDigits_digits _, rfl⟩
  · exact Or.inr ⟨69, _, _, Or.inr rfl, signPart_isSign _, consumeDigits_digits _, rfl⟩
  · exact Or.inl rfl

/-- the bytes consumed by the body parser -/
def consumedOf (bytes : List UInt8) : List UInt8 :=
  signPart bytes ++ intOf (parseSign bytes).2 ++ dotPart (consumeDigits (parseSign bytes).2).2
      ++ expPart (fracSplit (consumeDigits (parseSign bytes).2).2).2

theorem consumedOf_append (bytes : List UInt8) :
    consumedOf bytes ++ restOf (parseSign bytes).2 = bytes := decomposition bytes

theorem consumedOf_inG (bytes : List UInt8) : InG (consumedOf bytes) :=
  ⟨_, _, _, _, signPart_isSign _, consumeDigits_digits _, dotPart_isDotPart _, expPart_isExpPart _, rfl⟩

theorem restOf_length_le (bytes : List UInt8) : (restOf (parseSign bytes).2).length ≤ bytes.length := by
  have := congrArg List.length (consumedOf_append bytes)
  simp only [List.length_append] at this; omega

theorem eq_take_of_append {α : Type} (p r bs : List α) (h : p ++ r = bs) :
    p = bs.take (bs.length - r.length) := by
  subst h; simp

theorem consumedOf_eq_take (bytes : List UInt8) :
    consumedOf bytes = bytes.take (bytes.length - (restOf (parseSign bytes).2).length) :=
  eq_take_of_append _ _ _ (consumedOf_append bytes)

-- ---------------------------------------------------------------- maximal munch
theorem fracSplit_snd_length (t : List UInt8) : (fracSplit t).2.length ≤ t.length := by
  have := congrArg List.length (dotPart_append t)
  simp only [List.length_append] at this; omega

theorem expSplit_snd_length (t : List UInt8) : (expSplit t).2.length ≤ t.length := by
  have := congrArg List.length (expPart_append t)
  simp only [List.length_append] at this; omega

theorem expTail_snd_length (t : List UInt8) : (expTail t).2.length ≤ t.length := by
  have := congrArg List.length (expTailPart_append t)
  simp only [List.length_append] at this; omega

theorem digit_ne {c : UInt8} (h : isDigit c = true) : c ≠ 43 ∧ c ≠ 45 ∧ c ≠ 46 ∧ c ≠ 101 ∧ c ≠ 69 := by
  refine ⟨?_, ?_, ?_, ?_, ?_⟩ <;> (rintro rfl; revert h; decide)

theorem expTail_munch (s ds r : List UInt8) (hs : IsSign s) (hd : AllDigits ds) :
    (expTail (s ++ ds ++ r)).2.length ≤ r.length := by
  have key : (consumeDigits (ds ++ r)).2.length ≤ r.length := by
    rw [consumeDigits_append_digits ds r hd]; exact consumeDigits_snd_length r
  rcases hs with rfl | rfl | rfl
  · cases ds with
    | nil => simpa using expTail_snd_length r
    | cons c ds' =>
      have hc := digit_ne (hd c (by simp))
      have : parseSign ([] ++ c :: ds' ++ r) = (true, c :: ds' ++ r) :=
        parseSign_nosign _ (by simp [hc.1]) (by simp [hc.2.1])
      unfold expTail; rw [this]; exact key
  · unfold expTail
    rw [show [43] ++ ds ++ r = 43 :: (ds ++ r) by simp, parseSign_plus]; exact key
  · unfold expTail
    rw [show [45] ++ ds ++ r = 45 :: (ds ++ r) by simp, parseSign_minus]; exact key

theorem expSplit_munch (x r : List UInt8) (hx : IsExpPart x) :
    (expSplit (x ++ r)).2.length ≤ r.length := by
  rcases hx with rfl | ⟨m, s, ds, hm, hs, hd, rfl⟩
  · simpa using expSplit_snd_length r
  · have := expTail_munch s ds r hs hd
    rcases hm with rfl | rfl
    · rw [show 101 :: (s ++ ds) ++ r = 101 :: (s ++ ds ++ r) by simp, expSplit_e]; exact this
    · rw [show 69 :: (s ++ ds) ++ r = 69 :: (s ++ ds ++ r) by simp, expSplit_E]; exact this

/-- an exponent part (if non-empty) starts with a byte that is neither a digit, a dot nor a sign -/
theorem expPart_head (x r : List UInt8) (hx : IsExpPart x) (hne : x ≠ []) :
    ∃ m t, x ++ r = m :: t ∧ (m = 101 ∨ m = 69) := by
  rcases hx with rfl | ⟨m, s, ds, hm, _, _, rfl⟩
  · exact absurd rfl hne
  · exact ⟨m, s ++ ds ++ r, by simp, hm⟩

theorem exp_after_digits (x r : List UInt8) (hx : IsExpPart x) :
    (expSplit (consumeDigits (x ++ r)).2).2.length ≤ r.length := by
  by_cases hne : x = []
  · subst hne
    have h1 := expSplit_snd_length (consumeDigits r).2
    have h2 := consumeDigits_snd_length r
    simp only [List.nil_append]; omega
  · obtain ⟨m, t, ht, hm⟩ := expPart_head x r hx hne
    have : consumeDigits (x ++ r) = ([], x ++ r) := by
      apply consumeDigits_nondigit
      rw [ht]; rcases hm with rfl | rfl <;> simp <;> decide
    rw [this]; exact expSplit_munch x r hx

theorem exp_after_nodot (x r : List UInt8) (hx : IsExpPart x) :
    (expSplit (fracSplit (x ++ r)).2).2.length ≤ r.length := by
  by_cases hne : x = []
  · subst hne
    have h1 := expSplit_snd_length (fracSplit r).2
    have h2 := fracSplit_snd_length r
    simp only [List.nil_append]; omega
  · obtain ⟨m, t, ht, hm⟩ := expPart_head x r hx hne
    have : fracSplit (x ++ r) = ([], x ++ r) := by
      apply fracSplit_nodot
      rw [ht]; rcases hm with rfl | rfl <;> simp
    rw [this]; exact expSplit_munch x r hx

theorem frac_munch (d x r : List UInt8) (hd : IsDotPart d) (hx : IsExpPart x) :
    (expSplit (fracSplit (d ++ x ++ r)).2).2.length ≤ r.length := by
  rcases hd with rfl | ⟨ds, hds, rfl⟩
  · simpa using exp_after_nodot x r hx
  · rw [show 46 :: ds ++ x ++ r = 46 :: (ds ++ (x ++ r)) by simp, fracSplit_dot,
      consumeDigits_append_digits ds _ hds]
    exact exp_after_digits x r hx

theorem body_munch (i d x r : List UInt8) (hi : AllDigits i) (hd : IsDotPart d) (hx : IsExpPart x) :
    (restOf (i ++ d ++ x ++ r)).length ≤ r.length := by
  unfold restOf
  rw [show i ++ d ++ x ++ r = i ++ (d ++ x ++ r) by simp, consumeDigits_append_digits i _ hi]
  simp only
  rcases hd with rfl | ⟨ds, hds, rfl⟩
  · by_cases hne : x = []
    · subst hne
      have h1 := expSplit_snd_length (fracSplit (consumeDigits r).2).2
      have h2 := fracSplit_snd_length (consumeDigits r).2
      have h3 := consumeDigits_snd_length r
      simp only [List.nil_append]; omega
    · obtain ⟨m, t, ht, hm⟩ := expPart_head x r hx hne
      have : consumeDigits ([] ++ x ++ r) = ([], [] ++ x ++ r) := by
        apply consumeDigits_nondigit
        rw [List.nil_append, ht]; rcases hm with rfl | rfl <;> simp <;> decide
      rw [this]; exact frac_munch [] x r (Or.inl rfl) hx
  · have : consumeDigits (46 :: ds ++ x ++ r) = ([], 46 :: ds ++ x ++ r) := by
      apply consumeDigits_nondigit; simp; decide
    rw [this]; exact frac_munch (46 :: ds) x r (Or.inr ⟨ds, hds, rfl⟩) hx

/-- maximal munch: every prefix of the input that is a word of `G` is at most as long as the
    consumed prefix -/
theorem munch_max (bytes q r : List UInt8) (h : bytes = q ++ r) (hq : InG q) :
    (restOf (parseSign bytes).2).length ≤ r.length := by
  obtain ⟨s, i, d, x, hs, hi, hd, hx, rfl⟩ := hq
  subst h
  rcases hs with rfl | rfl | rfl
  · by_cases hh : ([] ++ i ++ d ++ x ++ r).head? = some 43 ∨ ([] ++ i ++ d ++ x ++ r).head? = some 45
    · -- then the word is empty
      have hi' : i = [] := by
        cases i with
        | nil => rfl
        | cons c _ =>
          have hc := digit_ne (hi c (by simp))
          rcases hh with hh | hh <;> simp at hh <;> simp_all
      subst hi'
      have hd' : d = [] := by
        rcases hd with rfl | ⟨ds, _, rfl⟩
        · rfl
        · rcases hh with hh | hh <;> simp at hh
      subst hd'
      have hx' : x = [] := by
        rcases hx with rfl | ⟨m, s, ds, hm, _, _, rfl⟩
        · rfl
        · rcases hm with rfl | rfl <;> rcases hh with hh | hh <;> simp at hh
      subst hx'
      simpa using restOf_length_le r
    · have hh1 : ([] ++ i ++ d ++ x ++ r).head? ≠ some 43 := fun h => hh (Or.inl h)
      have hh2 : ([] ++ i ++ d ++ x ++ r).head? ≠ some 45 := fun h => hh (Or.inr h)
      rw [parseSign_nosign _ hh1 hh2]
      simpa using body_munch i d x r hi hd hx
  · rw [show [43] ++ i ++ d ++ x ++ r = 43 :: (i ++ d ++ x ++ r) by simp, parseSign_plus]
    exact body_munch i d x r hi hd hx
  · rw [show [45] ++ i ++ d ++ x ++ r = 45 :: (i ++ d ++ x ++ r) by simp, parseSign_minus]
    exact body_munch i d x r hi hd hx

-- ---------------------------------------------------------------- case-insensitive prefix
theorem xor_eq_32_iff (x y : UInt8) : x ^^^ y = 32 ↔ x = y ^^^ 32 := by
  constructor
  · intro h
    have : x = (x ^^^ y) ^^^ y := by rw [UInt8.xor_assoc, UInt8.xor_self, UInt8.xor_zero]
    rw [this, h, UInt8.xor_comm]
  · rintro rfl
    rw [UInt8.xor_comm y 32, UInt8.xor_assoc, UInt8.xor_self, UInt8.xor_zero]

theorem ci_step (x y : UInt8) :
    ((x ^^^ y != 0 && x ^^^ y != 32) = true) ↔ ¬ (x = y ∨ x = y ^^^ 32) := by
  rw [← xor_eq_32_iff, ← UInt8.xor_eq_zero_iff (a := x) (b := y)]
  simp

theorem ciStartsWith_cons (x y : UInt8) (xs ys : List UInt8) :
    ciStartsWith (x :: xs) (y :: ys) = true ↔ (x = y ∨ x = y ^^^ 32) ∧ ciStartsWith xs ys = true := by
  have := ci_step x y
  by_cases h : (x = y ∨ x = y ^^^ 32)
  · have h' : ¬ ((x ^^^ y != 0 && x ^^^ y != 32) = true) := fun hc => (this.mp hc) h
    simp only [ciStartsWith, h', Bool.false_eq_true, if_false, h, true_and]
  · have h' := this.mpr h
    simp only [ciStartsWith, h', if_true, h, false_and]
    simp

/-- `case_insensitive_starts_with`: every pattern byte is matched exactly or with bit 5 flipped -/
theorem ciStartsWith_iff (b p : List UInt8) :
    ciStartsWith b p = true ↔
      p.length ≤ b.length ∧ ∀ i, (hi : i < p.length) → (hb : i < b.length) →
        b[i] = p[i] ∨ b[i] = p[i] ^^^ 32 := by
  induction p generalizing b with
  | nil => simp [ciStartsWith]
  | cons y ys ih =>
    cases b with
    | nil => simp [ciStartsWith]
    | cons x xs =>
      rw [ciStartsWith_cons, ih]
      constructor
      · rintro ⟨h0, hl, hr⟩
        refine ⟨by simpa using hl, ?_⟩
        intro i hi hb
        cases i with
        | zero => simp only [List.getElem_cons_zero]; exact h0
        | succ i =>
          simp only [List.getElem_cons_succ]
          exact hr i (by simpa using hi) (by simpa using hb)
      · rintro ⟨hl, hr⟩
        have h0 := hr 0 (by simp) (by simp)
        simp only [List.getElem_cons_zero] at h0
        refine ⟨h0, by simpa using hl, ?_⟩
        intro i hi hb
        have := hr (i + 1) (by simpa using hi) (by simpa using hb)
        simp only [List.getElem_cons_succ] at this
        exact this

/-- ASCII lower-casing (on byte values) -/
def lowerNat (n : Nat) : Nat := if 65 ≤ n ∧ n ≤ 90 then n + 32 else n
def asciiLower (c : UInt8) : Nat := lowerNat c.toNat
def isLetterNat (n : Nat) : Bool := (decide (65 ≤ n) && decide (n ≤ 90)) || (decide (97 ≤ n) && decide (n ≤ 122))
def isAsciiLetter (c : UInt8) : Bool := isLetterNat c.toNat

def letterCheck : Bool :=
  (List.range 256).all fun n => !isLetterNat n || (List.range 256).all fun m =>
    (decide (m = n) || decide (m = n ^^^ 32)) == decide (lowerNat m = lowerNat n)
theorem letterCheck_true : letterCheck = true := by decide +kernel
theorem letter_match_nat (n : Nat) (hn : n < 256) (m : Nat) (hm : m < 256) (h : isLetterNat n = true) :
    ((m = n ∨ m = n ^^^ 32) ↔ lowerNat m = lowerNat n) := by
  have := letterCheck_true
  unfold letterCheck at this
  rw [List.all_eq_true] at this
  have := this n (List.mem_range.mpr hn)
  rw [h] at this
  simp only [Bool.not_true, Bool.false_or, List.all_eq_true] at this
  have := this m (List.mem_range.mpr hm)
  simp only [beq_iff_eq] at this
  rw [← Bool.decide_or] at this
  exact decide_eq_decide.mp this

theorem letter_match (y : UInt8) (hy : isAsciiLetter y = true) (x : UInt8) :
    (x = y ∨ x = y ^^^ 32) ↔ asciiLower x = asciiLower y := by
  have := letter_match_nat y.toNat y.toNat_lt x.toNat x.toNat_lt hy
  rw [← UInt8.toNat_inj, ← UInt8.toNat_inj (b := y ^^^ 32), UInt8.toNat_xor]
  exact this

/-- for a pattern of ASCII letters, `ciStartsWith` is exactly case-insensitive prefix match -/
theorem ciStartsWith_letters (b p : List UInt8) (hp : ∀ c ∈ p, isAsciiLetter c = true) :
    ciStartsWith b p = true ↔
      p.length ≤ b.length ∧ (b.take p.length).map asciiLower = p.map asciiLower := by
  induction p generalizing b with
  | nil => simp [ciStartsWith]
  | cons y ys ih =>
    cases b with
    | nil => simp [ciStartsWith]
    | cons x xs =>
      have hy : isAsciiLetter y = true := hp y (by simp)
      rw [ciStartsWith_cons, ih xs (fun c hc => hp c (by simp [hc])), letter_match y hy x]
      simp only [List.length_cons, List.take_succ_cons, List.map_cons, List.cons.injEq,
        Nat.add_le_add_iff_right]
      tauto

theorem ciStartsWith_length {b p : List UInt8} (h : ciStartsWith b p = true) :
    p.length ≤ b.length := ((ciStartsWith_iff b p).mp h).1

theorem sNaN_letters : ∀ c ∈ sNaN, isAsciiLetter c = true := by decide
theorem sInfinity_letters : ∀ c ∈ sInfinity, isAsciiLetter c = true := by decide
theorem sInf_letters : ∀ c ∈ sInf, isAsciiLetter c = true := by decide

/-- "infinity" and "nan" cannot both match -/
theorem not_nan_of_inf {b : List UInt8} (h : ciStartsWith b sInf = true) :
    ciStartsWith b sNaN = false := by
  cases b with
  | nil => simp [ciStartsWith, sInf] at h
  | cons x xs =>
    rw [sInf, ciStartsWith_cons] at h
    rw [Bool.eq_false_iff]
    intro h'
    rw [sNaN, ciStartsWith_cons] at h'
    rcases h.1 with rfl | rfl <;> rcases h'.1 with h'' | h'' <;> revert h'' <;> decide

/-- a match of "infinity" is a match of "inf" -/
theorem inf_of_infinity {b : List UInt8} (h : ciStartsWith b sInfinity = true) :
    ciStartsWith b sInf = true := by
  rw [ciStartsWith_letters _ _ sInfinity_letters] at h
  rw [ciStartsWith_letters _ _ sInf_letters]
  obtain ⟨hl, hm⟩ := h
  have hl' : 8 ≤ b.length := hl
  refine ⟨by show 3 ≤ b.length; omega, ?_⟩
  have := congrArg (List.take 3) hm
  rw [← List.map_take, List.take_take] at this
  exact this

-- ---------------------------------------------------------------- `parse`
def nanBits (F : FloatC) : Nat := F.exponentMask ||| (F.hiddenBitMask >>> 1)

theorem parse_nan (E : Env) (F : FloatC) (bytes : List UInt8)
    (h : ciStartsWith (parseSign bytes).2 sNaN = true) :
    parse E F true bytes =
      .ok (withSign F (parseSign bytes).1 (nanBits F)) ((parseSign bytes).2.length - 3) := by
  simp only [parse, h, Bool.true_and, if_true, nanBits]

theorem parse_infinity (E : Env) (F : FloatC) (bytes : List UInt8)
    (h : ciStartsWith (parseSign bytes).2 sInfinity = true) :
    parse E F true bytes =
      .ok (withSign F (parseSign bytes).1 F.exponentMask) ((parseSign bytes).2.length - 8) := by
  have hn := not_nan_of_inf (inf_of_infinity h)
  simp only [parse, hn, h, Bool.true_and, Bool.false_eq_true, if_true, if_false]

theorem parse_inf (E : Env) (F : FloatC) (bytes : List UInt8)
    (h : ciStartsWith (parseSign bytes).2 sInf = true)
    (h' : ciStartsWith (parseSign bytes).2 sInfinity = false) :
    parse E F true bytes =
      .ok (withSign F (parseSign bytes).1 F.exponentMask) ((parseSign bytes).2.length - 3) := by
  have hn := not_nan_of_inf h
  simp only [parse, hn, h, h', Bool.true_and, Bool.false_eq_true, if_true, if_false]

theorem parse_noliteral (E : Env) (F : FloatC) (bytes : List UInt8)
    (h : ciStartsWith (parseSign bytes).2 sInf = false)
    (hn : ciStartsWith (parseSign bytes).2 sNaN = false) :
    parse E F true bytes = parseBody E F true bytes.length (parseSign bytes).1 (parseSign bytes).2 := by
  have h' : ciStartsWith (parseSign bytes).2 sInfinity = false := by
    rw [Bool.eq_false_iff]; intro hc; rw [inf_of_infinity hc] at h; exact Bool.noConfusion h
  simp only [parse, hn, h, h', Bool.true_and, Bool.false_eq_true, if_false]

/-- the front-end never fails by itself: a panic is a panic of the library on the trimmed pieces -/
theorem parse_panic (E : Env) (F : FloatC) (special : Bool) (bytes : List UInt8)
    (h : parse E F special bytes = .panic) :
    parseFloat E F (ltrimZero (intOf (parseSign bytes).2)) (rtrimZero (fracOf (parseSign bytes).2))
      (expOf (parseSign bytes).2) = .panic := by
  unfold parse at h
  simp only at h
  split at h
  · exact Res.noConfusion h
  split at h
  · exact Res.noConfusion h
  split at h
  · exact Res.noConfusion h
  rw [parseBody_eq] at h
  split at h
  · exact Res.noConfusion h
  split at h
  · assumption
  · exact Res.noConfusion h

/-- whenever the body is reached and yields a result, it is the library result with the sign -/
theorem parseBody_ok {E : Env} {F : FloatC} {special : Bool} {startLen : Nat} {pos : Bool}
    {b0 : List UInt8} {bits restLen : Nat}
    (h : parseBody E F special startLen pos b0 = .ok bits restLen) :
    restLen = (restOf b0).length ∧
    ((special = true ∧ restLen = startLen ∧ bits = 0) ∨
     ((special = false ∨ restLen ≠ startLen) ∧
      ∃ b, parseFloat E F (ltrimZero (intOf b0)) (rtrimZero (fracOf b0)) (expOf b0) = .ok b ∧
        bits = withSign F pos b)) := by
  rw [parseBody_eq] at h
  split at h
  · rename_i hc
    simp only [Bool.and_eq_true, beq_iff_eq] at hc
    injection h with h1 h2
    exact ⟨h2.symm, Or.inl ⟨hc.1, by omega, h1.symm⟩⟩
  · rename_i hc
    split at h
    · exact Res.noConfusion h
    · rename_i b hb
      injection h with h1 h2
      refine ⟨h2.symm, Or.inr ⟨?_, b, hb, h1.symm⟩⟩
      cases special
      · exact Or.inl rfl
      · right; intro he; apply hc; simp only [Bool.true_and, beq_iff_eq]; omega

theorem parse_body_reached (E : Env) (F : FloatC) (special : Bool) (bytes : List UInt8)
    (h : special = false ∨ (ciStartsWith (parseSign bytes).2 sNaN = false ∧
      ciStartsWith (parseSign bytes).2 sInf = false)) :
    parse E F special bytes =
      parseBody E F special bytes.length (parseSign bytes).1 (parseSign bytes).2 := by
  rcases h with rfl | ⟨h1, h2⟩
  · simp only [parse, Bool.false_and, Bool.false_eq_true, if_false]
  · cases special
    · simp only [parse, Bool.false_and, Bool.false_eq_true, if_false]
    · exact parse_noliteral E F bytes h2 h1

theorem withSign_split (F : FloatC) (pos : Bool) (b : Nat) (hb : b < F.signMask) :
    withSign F pos b / F.signMask = (if pos then 0 else 1) ∧ withSign F pos b % F.signMask = b := by
  have hpos : 0 < F.signMask := by omega
  cases pos
  · simp only [withSign, Bool.false_eq_true, if_false]
    rw [Nat.add_div_right _ hpos, Nat.add_mod_right, Nat.div_eq_of_lt hb, Nat.mod_eq_of_lt hb]
    exact ⟨rfl, rfl⟩
  · simp only [withSign, if_true]
    exact ⟨Nat.div_eq_of_lt hb, Nat.mod_eq_of_lt hb⟩

end MinLex.Front
