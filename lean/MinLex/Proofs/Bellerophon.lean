/-
  Helper lemmas for the Bellerophon stage (compact builds): `belNormalize`, `belMul`, table facts
  in ∀-form, the error analysis in ℚ, and the "no rounding boundary inside the error window" lemma.
-/
import MinLex.Props.C14
import MinLex.Props.C18
import MinLex.Props.Main
namespace MinLex.Bel
open MinLex Bits

/-! ## B1 — `normalize` -/

theorem log2_bounds {w : Nat} (hw : w ≠ 0) : 2 ^ Nat.log2 w ≤ w ∧ w < 2 ^ (Nat.log2 w + 1) :=
  (Nat.log2_eq_iff hw).mp rfl

theorem clz64_le {w : Nat} (hw : w ≠ 0) (h64 : w < 2 ^ 64) : Nat.log2 w ≤ 63 := by
  have := (Nat.log2_lt hw).2 h64
  omega

/-- the shifted word is normalised and nothing is shifted out -/
theorem shl_clz {w : Nat} (hw : w ≠ 0) (h64 : w < 2 ^ 64) :
    2 ^ 63 ≤ w * 2 ^ clz64 w ∧ w * 2 ^ clz64 w < 2 ^ 64 := by
  obtain ⟨h1, h2⟩ := log2_bounds hw
  have hl := clz64_le hw h64
  unfold clz64
  rw [if_neg hw]
  constructor
  · have : 2 ^ 63 = 2 ^ Nat.log2 w * 2 ^ (63 - Nat.log2 w) := by
      rw [← Nat.pow_add]; congr 1; omega
    rw [this]; exact Nat.mul_le_mul_right _ h1
  · have : 2 ^ 64 = 2 ^ (Nat.log2 w + 1) * 2 ^ (63 - Nat.log2 w) := by
      rw [← Nat.pow_add]; congr 1; omega
    rw [this]; exact Nat.mul_lt_mul_of_pos_right h2 (Nat.two_pow_pos _)

/-- **B1 (normalize).** For a non-zero 64-bit significand: the shift is `clz`, the new significand
    is `mant · 2^shift` (no bits lost), it is normalised, and the exponent drops by the shift. -/
theorem belNormalize_spec {fp : ExtFloat} (h0 : fp.mant ≠ 0) (h64 : fp.mant < 2 ^ 64) :
    (belNormalize fp).2 = clz64 fp.mant ∧
    (belNormalize fp).1.mant = fp.mant * 2 ^ clz64 fp.mant ∧
    (belNormalize fp).1.exp = fp.exp - clz64 fp.mant ∧
    2 ^ 63 ≤ (belNormalize fp).1.mant ∧ (belNormalize fp).1.mant < 2 ^ 64 := by
  obtain ⟨h1, h2⟩ := shl_clz h0 h64
  have hmod : fp.mant * 2 ^ clz64 fp.mant % u64Mod = fp.mant * 2 ^ clz64 fp.mant :=
    Nat.mod_eq_of_lt (by unfold u64Mod; omega)
  have e : belNormalize fp = (⟨fp.mant * 2 ^ clz64 fp.mant, fp.exp - clz64 fp.mant⟩, clz64 fp.mant) := by
    unfold belNormalize
    simp only [ne_eq, h0, not_false_eq_true, if_true, hmod]
  rw [e]
  exact ⟨rfl, rfl, rfl, h1, h2⟩

theorem belNormalize_zero {fp : ExtFloat} (h0 : fp.mant = 0) : belNormalize fp = (fp, 0) := by
  unfold belNormalize; simp [h0]

/-- rational value of an extended float: `mant · 2^exp` -/
def val (fp : ExtFloat) : ℚ := (fp.mant : ℚ) * (2 : ℚ) ^ fp.exp

/-- **B1 (normalize), value form**: `mant · 2^exp` is unchanged. -/
theorem belNormalize_val {fp : ExtFloat} (h64 : fp.mant < 2 ^ 64) :
    val (belNormalize fp).1 = val fp := by
  by_cases h0 : fp.mant = 0
  · rw [belNormalize_zero h0]
  · obtain ⟨_, hm, he, _, _⟩ := belNormalize_spec h0 h64
    unfold val
    rw [hm, he, zpow_sub₀ (by norm_num)]
    push_cast
    have : ((2:ℚ) ^ (clz64 fp.mant : ℤ)) = (2:ℚ) ^ (clz64 fp.mant) := zpow_natCast _ _
    rw [this]
    field_simp

theorem clz64_norm {w : Nat} (h1 : 2 ^ 63 ≤ w) (h2 : w < 2 ^ 64) : clz64 w = 0 := by
  have hw : w ≠ 0 := by omega
  have : Nat.log2 w = 63 := (Nat.log2_eq_iff hw).mpr ⟨h1, h2⟩
  unfold clz64; rw [if_neg hw, this]

/-- lower bound on the word gives an upper bound on the shift -/
theorem clz64_le_of_le {w s : Nat} (hs : s ≤ 63) (h1 : 2 ^ (63 - s) ≤ w) : clz64 w ≤ s := by
  have hw : w ≠ 0 := by have := Nat.two_pow_pos (63 - s); omega
  have : 63 - s ≤ Nat.log2 w := by
    by_contra hc
    have := (Nat.log2_lt hw).1 (show Nat.log2 w < 63 - s by omega)
    omega
  unfold clz64; rw [if_neg hw]; omega

/-! ## B1 — `mul` -/

/-- **B1 (mul).** The 32-bit-halves computation is the round-half-up of the 128-bit product to its
    upper 64 bits; the result fits in 64 bits, so the model's `% 2^64` is the identity. -/
theorem belMul_mant {x y : ExtFloat} (hx : x.mant < 2 ^ 64) (hy : y.mant < 2 ^ 64) :
    (belMul x y).mant = (x.mant * y.mant + 2 ^ 63) / 2 ^ 64 := by
  unfold belMul u64Mod
  simp only
  have hx1 := Nat.div_add_mod x.mant 4294967296
  have hy1 := Nat.div_add_mod y.mant 4294967296
  have hx0 := Nat.mod_lt x.mant (show 0 < 4294967296 by decide)
  have hy0 := Nat.mod_lt y.mant (show 0 < 4294967296 by decide)
  have hx2 : x.mant / 4294967296 < 4294967296 := by omega
  have hy2 : y.mant / 4294967296 < 4294967296 := by omega
  generalize x.mant / 4294967296 = x1 at *
  generalize x.mant % 4294967296 = x0 at *
  generalize y.mant / 4294967296 = y1 at *
  generalize y.mant % 4294967296 = y0 at *
  have hp : x.mant * y.mant =
      x1 * y1 * 18446744073709551616 + (x1 * y0 + x0 * y1) * 4294967296 + x0 * y0 := by
    rw [← hx1, ← hy1]; ring
  have b11 : x1 * y1 ≤ 4294967295 * 4294967295 := Nat.mul_le_mul (by omega) (by omega)
  have b10 : x1 * y0 ≤ 4294967295 * 4294967295 := Nat.mul_le_mul (by omega) (by omega)
  have b01 : x0 * y1 ≤ 4294967295 * 4294967295 := Nat.mul_le_mul (by omega) (by omega)
  have b00 : x0 * y0 ≤ 4294967295 * 4294967295 := Nat.mul_le_mul (by omega) (by omega)
  rw [hp]
  generalize x1 * y1 = p11 at *
  generalize x1 * y0 = p10 at *
  generalize x0 * y1 = p01 at *
  generalize x0 * y0 = p00 at *
  omega

theorem belMul_exp (x y : ExtFloat) : (belMul x y).exp = x.exp + y.exp + 64 := rfl

/-- **B1 (mul), error form**: the result is within half a unit of the exact quotient. -/
theorem belMul_err {x y : ExtFloat} (hx : x.mant < 2 ^ 64) (hy : y.mant < 2 ^ 64) :
    x.mant * y.mant < (belMul x y).mant * 2 ^ 64 + 2 ^ 63 ∧
    (belMul x y).mant * 2 ^ 64 ≤ x.mant * y.mant + 2 ^ 63 := by
  rw [belMul_mant hx hy]
  have := Nat.div_add_mod (x.mant * y.mant + 2 ^ 63) (2 ^ 64)
  have := Nat.mod_lt (x.mant * y.mant + 2 ^ 63) (show 0 < 2 ^ 64 by decide)
  omega

theorem belMul_lt {x y : ExtFloat} (hx : x.mant < 2 ^ 64) (hy : y.mant < 2 ^ 64) :
    (belMul x y).mant < 2 ^ 64 := by
  have h := (belMul_err hx hy).2
  have : x.mant * y.mant ≤ (2 ^ 64 - 1) * (2 ^ 64 - 1) := Nat.mul_le_mul (by omega) (by omega)
  omega

/-- lower bound: operands with `2^a ≤ x`, `2^63 ≤ y` give `2^(a-1) ≤ result` (used for the shift
    bound and for the `debug_assert!(x.mant >> 32 != 0)` of the next multiplication). -/
theorem belMul_ge {x y : ExtFloat} {a : Nat} (ha : 1 ≤ a) (ha' : a ≤ 63) (hx : x.mant < 2 ^ 64)
    (hy : y.mant < 2 ^ 64) (hxa : 2 ^ a ≤ x.mant) (hy' : 2 ^ 63 ≤ y.mant) :
    2 ^ (a - 1) ≤ (belMul x y).mant := by
  have h := (belMul_err hx hy).1
  have h2 : 2 ^ a * 2 ^ 63 ≤ x.mant * y.mant := Nat.mul_le_mul hxa hy'
  have e : 2 ^ a * 2 ^ 63 = 2 ^ (a - 1) * 2 ^ 64 := by
    rw [← Nat.pow_add, ← Nat.pow_add]; congr 1; omega
  rw [e] at h2
  by_contra hc
  have : (belMul x y).mant + 1 ≤ 2 ^ (a - 1) := by omega
  have := Nat.mul_le_mul_right (2 ^ 64) this
  omega

/-! ## Table facts in ∀-form (from `C14.bellerophon_tables`) -/

theorem belSmallGo_get (T : BelTables) : ∀ (n s : Nat), C14.belSmallGo T n s = true →
    ∀ i, s ≤ i → i < s + n → ∃ fp, T.getSmall i = some fp ∧
      C14.isTrunc64 (C14.pow10Q i).1 (C14.pow10Q i).2 fp.mant fp.exp = true
  | 0, _, _, i, h1, h2 => by omega
  | n+1, s, hgo, i, h1, h2 => by
    simp only [C14.belSmallGo, Bool.and_eq_true] at hgo
    rcases Nat.eq_or_lt_of_le h1 with h | h
    · subst h
      cases hg : T.getSmall s with
      | none => rw [hg] at hgo; exact absurd hgo.1 (by simp)
      | some fp => rw [hg] at hgo; exact ⟨fp, rfl, hgo.1⟩
    · exact belSmallGo_get T n (s+1) hgo.2 i (by omega) (by omega)

theorem belLargeGo_get (T : BelTables) : ∀ (n s : Nat), C14.belLargeGo T n s = true →
    ∀ i, s ≤ i → i < s + n → ∃ fp, T.getLarge i = some fp ∧
      C14.isTrunc64 (C14.pow10Q ((i : Int) * T.step - T.bias)).1
        (C14.pow10Q ((i : Int) * T.step - T.bias)).2 fp.mant fp.exp = true
  | 0, _, _, i, h1, h2 => by omega
  | n+1, s, hgo, i, h1, h2 => by
    simp only [C14.belLargeGo, Bool.and_eq_true] at hgo
    rcases Nat.eq_or_lt_of_le h1 with h | h
    · subst h
      cases hg : T.getLarge s with
      | none => rw [hg] at hgo; exact absurd hgo.1 (by simp)
      | some fp => rw [hg] at hgo; exact ⟨fp, rfl, hgo.1⟩
    · exact belLargeGo_get T n (s+1) hgo.2 i (by omega) (by omega)

theorem pow10Q_rat (k : Int) :
    0 < (C14.pow10Q k).2 ∧ ((C14.pow10Q k).1 : ℚ) / ((C14.pow10Q k).2 : ℚ) = (10:ℚ) ^ k := by
  unfold C14.pow10Q
  split
  · rename_i h
    obtain ⟨n, rfl⟩ := Int.eq_ofNat_of_zero_le h
    simp
  · rename_i h
    obtain ⟨n, hn⟩ := Int.eq_ofNat_of_zero_le (show 0 ≤ -k by omega)
    have he : k = -(n:ℤ) := by omega
    subst he
    refine ⟨Nat.pow_pos (by decide), ?_⟩
    simp

/-- `isTrunc64` in ℚ: `m · 2^e ≤ num/den < (m+1) · 2^e`, `m` normalised -/
theorem isTrunc64_rat {num den m : Nat} {e : Int} (hd : 0 < den)
    (h : C14.isTrunc64 num den m e = true) :
    2 ^ 63 ≤ m ∧ m < 2 ^ 64 ∧ (m : ℚ) * (2:ℚ) ^ e ≤ (num : ℚ) / den ∧
      (num : ℚ) / den < ((m : ℚ) + 1) * (2:ℚ) ^ e := by
  have hd' : (0:ℚ) < den := by exact_mod_cast hd
  unfold C14.isTrunc64 at h
  simp only [Bool.and_eq_true, decide_eq_true_eq] at h
  obtain ⟨⟨h1, h2⟩, h3⟩ := h
  refine ⟨h1, h2, ?_⟩
  split at h3
  · rename_i he
    obtain ⟨n, rfl⟩ := Int.eq_ofNat_of_zero_le he
    simp only [Int.toNat_natCast, Bool.and_eq_true, decide_eq_true_eq] at h3
    rw [le_div_iff₀ hd', div_lt_iff₀ hd', zpow_natCast]
    constructor
    · have : ((m * (den * 2 ^ n) : Nat) : ℚ) ≤ (num : ℚ) := by exact_mod_cast h3.1
      push_cast at this; linarith
    · have : ((num : Nat) : ℚ) < (((m + 1) * (den * 2 ^ n) : Nat) : ℚ) := by exact_mod_cast h3.2
      push_cast at this; linarith
  · rename_i he
    obtain ⟨n, hn⟩ := Int.eq_ofNat_of_zero_le (show 0 ≤ -e by omega)
    have he' : e = -(n:ℤ) := by omega
    subst he'
    simp only [neg_neg, Int.toNat_natCast, Bool.and_eq_true, decide_eq_true_eq] at h3
    have hp : (0:ℚ) < (2:ℚ) ^ n := by positivity
    rw [le_div_iff₀ hd', div_lt_iff₀ hd', zpow_neg, zpow_natCast]
    constructor
    · have : ((m * den : Nat) : ℚ) ≤ ((num * 2 ^ n : Nat) : ℚ) := by exact_mod_cast h3.1
      push_cast at this
      rw [mul_assoc, inv_mul_eq_div, mul_div_assoc', div_le_iff₀ hp]; linarith
    · have : ((num * 2 ^ n : Nat) : ℚ) < (((m + 1) * den : Nat) : ℚ) := by exact_mod_cast h3.2
      push_cast at this
      rw [mul_assoc, inv_mul_eq_div, mul_div_assoc', lt_div_iff₀ hp]; linarith

theorem genBel_facts : genBel.small.length = 10 ∧ genBel.large.length = 66 ∧
    genBel.smallInt.length = 10 ∧ genBel.step = 10 ∧ genBel.bias = 350 := by
  have h := C14.bellerophon_tables
  simp only [C14.belCheck, Bool.and_eq_true, beq_iff_eq] at h
  exact ⟨h.1.1.1.1.1.1.1.1.1, h.1.1.1.1.1.1.1.1.2, h.1.1.1.1.1.1.1.2, h.1.1.1.1.1.1.2, h.1.1.1.1.1.2⟩

/-- `small[i]` with its derived exponent is the truncated normalised `10^i` -/
theorem small_entry {i : Nat} (hi : i < 10) : ∃ fp, genBel.getSmall i = some fp ∧
    2 ^ 63 ≤ fp.mant ∧ fp.mant < 2 ^ 64 ∧ val fp ≤ (10:ℚ) ^ i ∧ (10:ℚ) ^ i < val fp + (2:ℚ) ^ fp.exp := by
  have h := C14.bellerophon_tables
  simp only [C14.belCheck, Bool.and_eq_true] at h
  obtain ⟨fp, h1, h2⟩ := belSmallGo_get genBel 10 0 h.1.1.1.1.2 i (Nat.zero_le _) (by omega)
  obtain ⟨hd, hq⟩ := pow10Q_rat (i : Int)
  obtain ⟨a, b, c, d⟩ := isTrunc64_rat hd h2
  rw [hq, zpow_natCast] at c d
  refine ⟨fp, h1, a, b, c, ?_⟩
  unfold val; linarith

/-- `large[i]` with its derived exponent is the truncated normalised `10^(10·i − 350)` -/
theorem large_entry {i : Nat} (hi : i < 66) : ∃ fp, genBel.getLarge i = some fp ∧
    2 ^ 63 ≤ fp.mant ∧ fp.mant < 2 ^ 64 ∧ val fp ≤ (10:ℚ) ^ ((i : Int) * 10 - 350) ∧
      (10:ℚ) ^ ((i : Int) * 10 - 350) < val fp + (2:ℚ) ^ fp.exp := by
  have h := C14.bellerophon_tables
  simp only [C14.belCheck, Bool.and_eq_true] at h
  obtain ⟨fp, h1, h2⟩ := belLargeGo_get genBel 66 0 h.1.1.1.2 i (Nat.zero_le _) (by omega)
  obtain ⟨_, _, _, hs, hb⟩ := genBel_facts
  rw [hs, hb] at h2
  obtain ⟨hd, hq⟩ := pow10Q_rat ((i : Int) * 10 - 350)
  obtain ⟨a, b, c, d⟩ := isTrunc64_rat hd h2
  rw [hq] at c d
  refine ⟨fp, h1, a, b, c, ?_⟩
  unfold val; linarith

theorem smallInt_entry {i : Nat} (hi : i < 10) : genBel.smallInt[i]? = some (10 ^ i) := by
  have h := C14.bellerophon_tables
  simp only [C14.belCheck, Bool.and_eq_true, beq_iff_eq] at h
  have hl : i < Gen.belSmallInt.length := by rw [h.1.1.1.1.1.1.1.2]; exact hi
  have := C14.powGo_get 10 Gen.belSmallInt 0 h.1.1.2 i hl
  show Gen.belSmallInt[i]? = _
  rw [List.getElem?_eq_getElem hl, this, Nat.zero_add]

/-! ## The model's control flow, restated with named stages -/

/-- the small-power step: `(fp1, errors1)` -/
def stage1 (num : Number) (sInt : Nat) (sFp : ExtFloat) : ExtFloat × Nat :=
  if num.mantissa * sInt ≥ u64Mod then
    (belMul (belNormalize ⟨num.mantissa, 0⟩).1 sFp,
      truncatedErrors num (belNormalize ⟨num.mantissa, 0⟩).1 + errorHalfscale)
  else
    ((belNormalize ⟨num.mantissa * sInt, 0⟩).1,
      truncatedErrors num (belNormalize ⟨num.mantissa * sInt, 0⟩).1)

/-- `errors2` from `errors1` -/
def bump (errors1 : Nat) : Nat := (if errors1 > 0 then errors1 + 1 else errors1) + errorHalfscale

/-- the computation between the index guards and `error_is_accurate`: `(fp4, errors3)` -/
def stage (F : FloatC) (num : Number) (sInt : Nat) (sFp lFp : ExtFloat) : ExtFloat × Nat :=
  (⟨(belNormalize (belMul (stage1 num sInt sFp).1 lFp)).1.mant,
    (belNormalize (belMul (stage1 num sInt sFp).1 lFp)).1.exp + F.exponentBias⟩,
   (bump (stage1 num sInt sFp).2 * 2 ^ (belNormalize (belMul (stage1 num sInt sFp).1 lFp)).2) % u64Mod)

/-- the tail of `bellerophon` after `fp.exp += F::EXPONENT_BIAS` -/
def finish (F : FloatC) (fp4 : ExtFloat) (errors3 : Nat) : ExtFloat :=
  if -fp4.exp + 1 > 65 then ⟨0, 0⟩
  else if !errorIsAccurate F errors3 fp4 then ⟨fp4.mant, fp4.exp + F.invalidFp⟩
  else if -fp4.exp + 1 = 65 then ⟨0, 0⟩
  else round F (roundNearestTieEven cbNearestEven) fp4

/-! ## B3 — error tracking in ℚ -/

/-- signed error of `fp` against the real value `V`, in units of the last place of `fp`:
    `V / 2^exp − mant` -/
def off (fp : ExtFloat) (V : ℚ) : ℚ := V / (2:ℚ) ^ fp.exp - fp.mant

theorem two_zpow_ne (e : Int) : (2:ℚ) ^ e ≠ 0 := (two_zpow_pos e).ne'

/-- normalising scales the error with the significand -/
theorem off_normalize {fp : ExtFloat} (h0 : fp.mant ≠ 0) (h64 : fp.mant < 2 ^ 64) (V : ℚ) :
    off (belNormalize fp).1 V = off fp V * (2:ℚ) ^ (clz64 fp.mant) := by
  obtain ⟨_, hm, he, _, _⟩ := belNormalize_spec h0 h64
  unfold off
  rw [hm, he, zpow_sub₀ (by norm_num), zpow_natCast]
  have h1 := two_zpow_ne fp.exp
  have h2 : (2:ℚ) ^ (clz64 fp.mant) ≠ 0 := by positivity
  push_cast
  field_simp

/-- one extended multiplication by a truncated table entry: the lower slack grows by ½ (product
    rounding), the upper slack by 3/2 (product rounding + the entry's truncation). -/
theorem off_mul {x y : ExtFloat} (hx : x.mant < 2 ^ 64) (hy : y.mant < 2 ^ 64)
    {X Y a b : ℚ} (ha : 0 ≤ a) (hb : 0 ≤ b) (h1 : -a ≤ off x X) (h2 : off x X ≤ b)
    (h3 : val y ≤ Y) (h4 : Y < val y + (2:ℚ) ^ y.exp) :
    -(a + 1/2) ≤ off (belMul x y) (X * Y) ∧ off (belMul x y) (X * Y) ≤ b + 3/2 := by
  obtain ⟨e1, e2⟩ := belMul_err hx hy
  have hpx := two_zpow_pos x.exp
  have hpy := two_zpow_pos y.exp
  -- scaled quantities
  set o := off x X with ho
  set Y1 := Y / (2:ℚ) ^ y.exp with hY1
  have hXe : X / (2:ℚ) ^ x.exp = x.mant + o := by rw [ho]; unfold off; ring
  have hY1a : (y.mant : ℚ) ≤ Y1 := by
    rw [hY1, le_div_iff₀ hpy]; unfold val at h3; exact h3
  have hY1b : Y1 < (y.mant : ℚ) + 1 := by
    rw [hY1, div_lt_iff₀ hpy]; unfold val at h4; linarith
  have hyq : (y.mant : ℚ) + 1 ≤ 2 ^ 64 := by
    have : y.mant + 1 ≤ 2 ^ 64 := hy
    exact_mod_cast this
  have hxq : (x.mant : ℚ) < 2 ^ 64 := by exact_mod_cast hx
  have hx0 : (0:ℚ) ≤ x.mant := Nat.cast_nonneg _
  have hy0 : (0:ℚ) ≤ y.mant := Nat.cast_nonneg _
  have q1 : ((x.mant * y.mant : Nat) : ℚ) < (((belMul x y).mant * 2 ^ 64 + 2 ^ 63 : Nat) : ℚ) := by
    exact_mod_cast e1
  have q2 : (((belMul x y).mant * 2 ^ 64 : Nat) : ℚ) ≤ ((x.mant * y.mant + 2 ^ 63 : Nat) : ℚ) := by
    exact_mod_cast e2
  push_cast at q1 q2
  have hoff : off (belMul x y) (X * Y) =
      o * (Y1 / 2 ^ 64) + (x.mant : ℚ) * (Y1 - y.mant) / 2 ^ 64 +
        ((x.mant : ℚ) * y.mant / 2 ^ 64 - (belMul x y).mant) := by
    unfold off
    rw [belMul_exp, zpow_add₀ (by norm_num), zpow_add₀ (by norm_num)]
    have : X * Y / ((2:ℚ) ^ x.exp * (2:ℚ) ^ y.exp * (2:ℚ) ^ (64:ℤ)) =
        (X / (2:ℚ) ^ x.exp) * Y1 / 2 ^ 64 := by
      rw [hY1]; field_simp
    rw [this, hXe]; ring
  set c := Y1 / 2 ^ 64 with hc
  have hc0 : 0 ≤ c := by rw [hc]; apply div_nonneg (by linarith) (by norm_num)
  have hc1 : c ≤ 1 := by rw [hc, div_le_one (by norm_num)]; linarith
  have t1 : -a ≤ o * c := by
    have := mul_le_mul_of_nonneg_right h1 hc0
    have := mul_le_mul_of_nonneg_left hc1 ha
    linarith
  have t2 : o * c ≤ b := by
    have := mul_le_mul_of_nonneg_right h2 hc0
    have := mul_le_mul_of_nonneg_left hc1 hb
    linarith
  have t3 : 0 ≤ (x.mant : ℚ) * (Y1 - y.mant) / 2 ^ 64 :=
    div_nonneg (mul_nonneg hx0 (by linarith)) (by norm_num)
  have t4 : (x.mant : ℚ) * (Y1 - y.mant) / 2 ^ 64 ≤ 1 := by
    rw [div_le_one (by norm_num)]
    have := mul_le_mul hxq.le (show Y1 - y.mant ≤ 1 by linarith) (by linarith) (by norm_num)
    linarith
  have t5 : (x.mant : ℚ) * y.mant / 2 ^ 64 - (belMul x y).mant ≤ 1 / 2 := by
    rw [sub_le_iff_le_add, div_le_iff₀ (by norm_num)]; linarith
  have t6 : -(1 / 2) ≤ (x.mant : ℚ) * y.mant / 2 ^ 64 - (belMul x y).mant := by
    rw [le_sub_iff_add_le, le_div_iff₀ (by norm_num)]; linarith
  rw [hoff]
  constructor <;> linarith

/-! ### `truncated_errors` -/

theorem te_le (num : Number) (fp : ExtFloat) : truncatedErrors num fp ≤ tooManyErrors := by
  unfold truncatedErrors
  split
  · exact Nat.min_le_right _ _
  · exact Nat.zero_le _

theorem te_not_many {num : Number} (h : num.manyDigits = false) (fp : ExtFloat) :
    truncatedErrors num fp = 0 := by
  unfold truncatedErrors; simp [h]

theorem te_many {num : Number} (h : num.manyDigits = true) {fp : ExtFloat}
    (hlt : fp.mant / num.mantissa * 8 < tooManyErrors) :
    truncatedErrors num fp = fp.mant / num.mantissa * 8 := by
  unfold truncatedErrors errorScale
  unfold tooManyErrors at hlt
  simp only [h, if_true]
  unfold u64Max tooManyErrors
  omega

theorem te_sat {num : Number} (h : num.manyDigits = true) {fp : ExtFloat}
    (hge : tooManyErrors ≤ fp.mant / num.mantissa * 8) :
    truncatedErrors num fp = tooManyErrors := by
  unfold truncatedErrors errorScale
  unfold tooManyErrors at hge
  simp only [h, if_true]
  unfold u64Max tooManyErrors
  omega

/-- the exactly scaled significand: `fpn.mant = w · f` with `f = m · 2^clz`, and the digits dropped
    from `x ∈ [w, w+1)` are worth `(x − w) · f` units in the last place of `fpn` -/
theorem level0 {w m W : Nat} (hw : w ≠ 0) (hm : 1 ≤ m) (hW : W = w * m) (h64 : W < 2 ^ 64) (x : ℚ) :
    2 ^ 63 ≤ (belNormalize ⟨W, 0⟩).1.mant ∧ (belNormalize ⟨W, 0⟩).1.mant < 2 ^ 64 ∧
    (belNormalize ⟨W, 0⟩).1.mant / w = m * 2 ^ clz64 W ∧ 1 ≤ (belNormalize ⟨W, 0⟩).1.mant / w ∧
    off (belNormalize ⟨W, 0⟩).1 (x * m) = (x - w) * (((belNormalize ⟨W, 0⟩).1.mant / w : Nat) : ℚ) := by
  have hW0 : W ≠ 0 := by
    rw [hW]; exact Nat.mul_ne_zero hw (by omega)
  obtain ⟨_, hmant, _, hn1, hn2⟩ := belNormalize_spec (fp := ⟨W, 0⟩) hW0 h64
  simp only at hmant
  have hdiv : (belNormalize ⟨W, 0⟩).1.mant / w = m * 2 ^ clz64 W := by
    rw [hmant, hW, Nat.mul_assoc, Nat.mul_div_cancel_left _ (Nat.pos_of_ne_zero hw)]
  refine ⟨hn1, hn2, hdiv, ?_, ?_⟩
  · rw [hdiv]; exact Nat.mul_pos (by omega) (Nat.two_pow_pos _)
  · rw [off_normalize (fp := ⟨W, 0⟩) hW0 h64, hdiv]
    unfold off
    simp only [zpow_zero, div_one]
    rw [hW]; push_cast; ring

/-- **B3, first step.**  After the small-power step the significand has its top two bits in range,
    the error budget is bounded, and — unless the budget saturated — the true scaled value lies
    within `[-a, b]` units of the last place with `a ≤ ½` and `b + 5/2 ≤ errors2`. -/
theorem stage1_spec {num : Number} {s : Nat} {sFp : ExtFloat} {x : ℚ}
    (hw0 : num.mantissa ≠ 0) (hw64 : num.mantissa < 2 ^ 64)
    (hs1 : 2 ^ 63 ≤ sFp.mant) (hs2 : sFp.mant < 2 ^ 64)
    (hs3 : val sFp ≤ (10:ℚ) ^ s) (hs4 : (10:ℚ) ^ s < val sFp + (2:ℚ) ^ sFp.exp)
    (hx1 : (num.mantissa : ℚ) ≤ x) (hx2 : x ≤ num.mantissa + 1)
    (hx3 : num.manyDigits = false → x = num.mantissa) :
    2 ^ 62 ≤ (stage1 num (10 ^ s) sFp).1.mant ∧ (stage1 num (10 ^ s) sFp).1.mant < 2 ^ 64 ∧
    (stage1 num (10 ^ s) sFp).2 ≤ tooManyErrors + 4 ∧
    ((num.manyDigits = true → 10 ^ 18 ≤ num.mantissa) → (stage1 num (10 ^ s) sFp).2 ≤ 148) ∧
    ∃ a b : ℚ, 0 ≤ a ∧ a ≤ 1 / 2 ∧ 0 ≤ b ∧
      -a ≤ off (stage1 num (10 ^ s) sFp).1 (x * (10:ℚ) ^ s) ∧
      off (stage1 num (10 ^ s) sFp).1 (x * (10:ℚ) ^ s) ≤ b ∧
      (tooManyErrors ≤ (stage1 num (10 ^ s) sFp).2 ∨
        b + 5 / 2 ≤ ((bump (stage1 num (10 ^ s) sFp).2 : Nat) : ℚ)) := by
  have h10 : 1 ≤ 10 ^ s := Nat.one_le_two_pow.trans (Nat.pow_le_pow_left (by decide) s)
  -- generic facts about the truncation term for a scaled significand `fpn` with `fpn.mant / w = f`
  have key : ∀ (fpn : ExtFloat) (X : ℚ), 1 ≤ fpn.mant / num.mantissa → fpn.mant < 2 ^ 64 →
      off fpn X = (x - num.mantissa) * ((fpn.mant / num.mantissa : Nat) : ℚ) →
      ∃ b0 : ℚ, 0 ≤ b0 ∧ 0 ≤ off fpn X ∧ off fpn X ≤ b0 ∧
        ((num.manyDigits = true → 10 ^ 18 ≤ num.mantissa) → truncatedErrors num fpn ≤ 144) ∧
        (tooManyErrors ≤ truncatedErrors num fpn ∨
          (b0 + 5 / 2 ≤ ((bump (truncatedErrors num fpn) : Nat) : ℚ) ∧
           b0 + 4 ≤ ((bump (truncatedErrors num fpn + errorHalfscale) : Nat) : ℚ))) := by
    intro fpn X hf1 hf64 hoff
    cases hmany : num.manyDigits with
    | false =>
      refine ⟨0, le_refl _, ?_, ?_, ?_, ?_⟩
      · rw [hoff, hx3 hmany]; simp
      · rw [hoff, hx3 hmany]; simp
      · intro _; rw [te_not_many hmany]; omega
      · right
        rw [te_not_many hmany]
        unfold bump errorHalfscale
        norm_num
    | true =>
      refine ⟨((fpn.mant / num.mantissa : Nat) : ℚ), Nat.cast_nonneg _, ?_, ?_, ?_, ?_⟩
      · rw [hoff]; exact mul_nonneg (by linarith) (Nat.cast_nonneg _)
      · rw [hoff]
        have : x - num.mantissa ≤ 1 := by linarith
        have := mul_le_mul_of_nonneg_right this (Nat.cast_nonneg (fpn.mant / num.mantissa) : (0:ℚ) ≤ _)
        linarith
      · intro hbig
        have hb := hbig rfl
        have : fpn.mant / num.mantissa ≤ 18 := by
          have h1 : fpn.mant / num.mantissa ≤ fpn.mant / 10 ^ 18 := Nat.div_le_div_left hb (by decide)
          have h2 : fpn.mant / 10 ^ 18 ≤ 18 := by omega
          omega
        have hte := te_le num fpn
        rcases Nat.lt_or_ge (fpn.mant / num.mantissa * 8) tooManyErrors with hlt | hge
        · rw [te_many hmany hlt]; omega
        · unfold tooManyErrors at hge; omega
      · rcases Nat.lt_or_ge (fpn.mant / num.mantissa * 8) tooManyErrors with hlt | hge
        · right
          rw [te_many hmany hlt]
          unfold bump errorHalfscale
          have hpos : fpn.mant / num.mantissa * 8 > 0 := by omega
          have hpos' : fpn.mant / num.mantissa * 8 + 4 > 0 := by omega
          rw [if_pos hpos, if_pos hpos']
          have : (1:ℚ) ≤ ((fpn.mant / num.mantissa : Nat) : ℚ) := by exact_mod_cast hf1
          push_cast
          constructor <;> linarith
        · left; rw [te_sat hmany hge]
  unfold stage1
  by_cases hprod : num.mantissa * 10 ^ s ≥ u64Mod
  · -- the product overflows: normalise `w`, multiply by the truncated table entry
    simp only [hprod, if_true]
    obtain ⟨n1, n2, _, nf, noff⟩ :=
      level0 (w := num.mantissa) (m := 1) (W := num.mantissa) hw0 (Nat.le_refl 1) (by omega) hw64 x
    simp only [Nat.cast_one, mul_one] at noff
    obtain ⟨b0, hb0, o1, o2, hsmall, hbud⟩ := key _ x nf n2 noff
    obtain ⟨m1, m2⟩ := off_mul (x := (belNormalize ⟨num.mantissa, 0⟩).1) (y := sFp) n2 hs2
      (a := 0) (b := b0) (le_refl _) hb0 (by linarith) o2 hs3 hs4
    have hge := belMul_ge (x := (belNormalize ⟨num.mantissa, 0⟩).1) (y := sFp) (a := 63)
      (by decide) (by decide) n2 hs2 n1 hs1
    have hte := te_le num (belNormalize ⟨num.mantissa, 0⟩).1
    refine ⟨hge, belMul_lt n2 hs2, ?_, ?_, 1 / 2, b0 + 3 / 2, by norm_num, le_refl _, by linarith,
      by linarith, m2, ?_⟩
    · unfold errorHalfscale; omega
    · intro h; have := hsmall h; unfold errorHalfscale; omega
    · rcases hbud with h | h
      · left; omega
      · right; linarith [h.2]
  · -- exact integer product
    simp only [hprod, if_false]
    have h64 : num.mantissa * 10 ^ s < 2 ^ 64 := by unfold u64Mod at hprod; omega
    obtain ⟨n1, n2, _, nf, noff⟩ :=
      level0 (w := num.mantissa) (m := 10 ^ s) (W := num.mantissa * 10 ^ s) hw0 h10 rfl h64 x
    have e10 : ((10 ^ s : Nat) : ℚ) = (10:ℚ) ^ s := by push_cast; rfl
    rw [e10] at noff
    obtain ⟨b0, hb0, o1, o2, hsmall, hbud⟩ := key _ _ nf n2 noff
    have hte := te_le num (belNormalize ⟨num.mantissa * 10 ^ s, 0⟩).1
    refine ⟨by omega, n2, by omega, ?_, 0, b0, le_refl _, by norm_num, hb0, by linarith, o2, ?_⟩
    · intro h; have := hsmall h; omega
    · rcases hbud with h | h
      · left; exact h
      · right; exact h.1

theorem bump_ge (e : Nat) : 4 ≤ bump e ∧ e ≤ bump e ∧ bump e ≤ e + 5 := by
  unfold bump errorHalfscale; split <;> omega

theorem stage_leaf (F : FloatC) (num : Number) (sInt : Nat) (sFp lFp : ExtFloat)
    {fp1 fp3 : ExtFloat} {errors1 shift : Nat}
    (heq1 : stage1 num sInt sFp = (fp1, errors1))
    (heq2 : belNormalize (belMul fp1 lFp) = (fp3, shift)) :
    stage F num sInt sFp lFp =
      (⟨fp3.mant, fp3.exp + F.exponentBias⟩, (bump errors1 * 2 ^ shift) % u64Mod) := by
  unfold stage
  rw [heq1]
  dsimp only
  rw [heq2]


/-- **B3.**  Just before `error_is_accurate`: the significand is normalised, and — unless the error
    budget saturated (`errors3 ≥ TOO_MANY_ERRORS`) — the true value `x · 10^s · P` lies in
    `[(mant − d) · 2^e, (mant + errors3 − d) · 2^e]`, `e = exp − bias`, where `d = 2^shift ≤ errors3/4`
    is the weight of the final normalisation shift. -/
theorem stage_spec (F : FloatC) {num : Number} {s : Nat} {sFp lFp : ExtFloat} {x P : ℚ}
    (hw0 : num.mantissa ≠ 0) (hw64 : num.mantissa < 2 ^ 64)
    (hs1 : 2 ^ 63 ≤ sFp.mant) (hs2 : sFp.mant < 2 ^ 64)
    (hs3 : val sFp ≤ (10:ℚ) ^ s) (hs4 : (10:ℚ) ^ s < val sFp + (2:ℚ) ^ sFp.exp)
    (hl1 : 2 ^ 63 ≤ lFp.mant) (hl2 : lFp.mant < 2 ^ 64)
    (hl3 : val lFp ≤ P) (hl4 : P < val lFp + (2:ℚ) ^ lFp.exp)
    (hx1 : (num.mantissa : ℚ) ≤ x) (hx2 : x ≤ num.mantissa + 1)
    (hx3 : num.manyDigits = false → x = num.mantissa) :
    2 ^ 63 ≤ (stage F num (10 ^ s) sFp lFp).1.mant ∧ (stage F num (10 ^ s) sFp lFp).1.mant < 2 ^ 64 ∧
    (stage F num (10 ^ s) sFp lFp).1.exp =
      (stage1 num (10 ^ s) sFp).1.exp + lFp.exp + 64
        - clz64 (belMul (stage1 num (10 ^ s) sFp).1 lFp).mant + F.exponentBias ∧
    clz64 (belMul (stage1 num (10 ^ s) sFp).1 lFp).mant ≤ 2 ∧
    4 ≤ (stage F num (10 ^ s) sFp lFp).2 ∧
    ((num.manyDigits = true → 10 ^ 18 ≤ num.mantissa) → (stage F num (10 ^ s) sFp lFp).2 ≤ 612) ∧
    (tooManyErrors ≤ (stage F num (10 ^ s) sFp lFp).2 ∨
      ∃ d : Nat, 1 ≤ d ∧ 4 * d ≤ (stage F num (10 ^ s) sFp lFp).2 ∧
        (((stage F num (10 ^ s) sFp lFp).1.mant : ℚ) - d) *
            (2:ℚ) ^ ((stage F num (10 ^ s) sFp lFp).1.exp - F.exponentBias) ≤ x * (10:ℚ) ^ s * P ∧
        x * (10:ℚ) ^ s * P ≤
          (((stage F num (10 ^ s) sFp lFp).1.mant : ℚ) + (stage F num (10 ^ s) sFp lFp).2 - d) *
            (2:ℚ) ^ ((stage F num (10 ^ s) sFp lFp).1.exp - F.exponentBias)) := by
  obtain ⟨p62, p64, pe, psmall, a, b, ha0, ha, hb0, o1, o2, hbud⟩ :=
    stage1_spec (s := s) hw0 hw64 hs1 hs2 hs3 hs4 hx1 hx2 hx3
  obtain ⟨fp1, errors1, heq1⟩ : ∃ u v, stage1 num (10 ^ s) sFp = (u, v) := ⟨_, _, Prod.mk.eta.symm⟩
  rw [heq1] at p62 p64 pe psmall o1 o2 hbud
  dsimp only at p62 p64 pe psmall o1 o2 hbud
  obtain ⟨m1, m2⟩ := off_mul (x := fp1) (y := lFp) p64 hl2 (X := x * (10:ℚ) ^ s) (Y := P)
    ha0 hb0 o1 o2 hl3 hl4
  have f61 := belMul_ge (x := fp1) (y := lFp) (a := 62) (by decide) (by decide) p64 hl2 p62 hl1
  have f64 := belMul_lt (x := fp1) (y := lFp) p64 hl2
  have hsh : clz64 (belMul fp1 lFp).mant ≤ 2 := clz64_le_of_le (by decide) f61
  have f0 : (belMul fp1 lFp).mant ≠ 0 := by
    have : 0 < 2 ^ (62 - 1) := Nat.two_pow_pos _
    omega
  obtain ⟨n1, n2, n3, n4, n5⟩ := belNormalize_spec f0 f64
  have noff := off_normalize f0 f64 (x * (10:ℚ) ^ s * P)
  obtain ⟨fp3, shift, heq2⟩ : ∃ u v, belNormalize (belMul fp1 lFp) = (u, v) := ⟨_, _, Prod.mk.eta.symm⟩
  rw [heq2] at n1 n2 n3 n4 n5 noff
  dsimp only at n1 n2 n3 n4 n5 noff
  rw [stage_leaf F num (10 ^ s) sFp lFp heq1 heq2, heq1]
  dsimp only
  subst n1
  obtain ⟨b4, b5, b6⟩ := bump_ge errors1
  have hd4 : 2 ^ clz64 (belMul fp1 lFp).mant ≤ 2 ^ 2 := Nat.pow_le_pow_right (by decide) hsh
  have hd1 : 1 ≤ 2 ^ clz64 (belMul fp1 lFp).mant := Nat.two_pow_pos _
  have hst2 : (bump errors1 * 2 ^ clz64 (belMul fp1 lFp).mant) % u64Mod =
      bump errors1 * 2 ^ clz64 (belMul fp1 lFp).mant := by
    apply Nat.mod_eq_of_lt
    have := Nat.mul_le_mul (show bump errors1 ≤ tooManyErrors + 9 by omega) hd4
    unfold tooManyErrors at this
    unfold u64Mod
    omega
  rw [hst2]
  generalize hd : 2 ^ clz64 (belMul fp1 lFp).mant = d at *
  refine ⟨n4, n5, ?_, hsh, ?_, ?_, ?_⟩
  · rw [n3, belMul_exp]
  · have := Nat.mul_le_mul b4 hd1; omega
  · intro h
    have h1 := psmall h
    have := Nat.mul_le_mul (show bump errors1 ≤ 153 by omega) hd4
    omega
  · rcases hbud with h | h
    · left
      have := Nat.mul_le_mul (show tooManyErrors ≤ bump errors1 by omega) hd1
      omega
    · right
      refine ⟨d, hd1, ?_, ?_, ?_⟩
      · have := Nat.mul_le_mul_right d b4; omega
      · -- lower bound
        have e : fp3.exp + F.exponentBias - F.exponentBias =
            fp3.exp := by ring
        rw [e]
        have hp := two_zpow_pos fp3.exp
        have hdq : ((2:ℚ) ^ clz64 (belMul fp1 lFp).mant) = (d : ℚ) := by rw [← hd]; push_cast; rfl
        rw [hdq] at noff
        have hd1q : (1:ℚ) ≤ d := by exact_mod_cast hd1
        have lo : -(d:ℚ) ≤ off fp3 (x * (10:ℚ) ^ s * P) := by
          rw [noff]
          have := mul_le_mul_of_nonneg_right m1 (show (0:ℚ) ≤ d by linarith)
          nlinarith
        unfold off at lo
        rw [← le_div_iff₀ hp]; linarith
      · have e : fp3.exp + F.exponentBias - F.exponentBias =
            fp3.exp := by ring
        rw [e]
        have hp := two_zpow_pos fp3.exp
        have hdq : ((2:ℚ) ^ clz64 (belMul fp1 lFp).mant) = (d : ℚ) := by rw [← hd]; push_cast; rfl
        rw [hdq] at noff
        have hd1q : (1:ℚ) ≤ d := by exact_mod_cast hd1
        have hi : off fp3 (x * (10:ℚ) ^ s * P) ≤
            ((bump errors1 : Nat) : ℚ) * d - d := by
          rw [noff]
          have := mul_le_mul_of_nonneg_right m2 (show (0:ℚ) ≤ d by linarith)
          have := mul_le_mul_of_nonneg_right h (show (0:ℚ) ≤ d by linarith)
          nlinarith
        unfold off at hi
        rw [← div_le_iff₀ hp]; push_cast; linarith




/-! ## The model's main path as `finish ∘ stage` -/

theorem bellerophon_main (T : BelTables) (F : FloatC) (num : Number) {sInt : Nat} {sFp lFp : ExtFloat}
    (h1 : ¬ (num.mantissa = 0 ∨ num.exponent ≤ -4096)) (h2 : ¬ num.exponent ≥ 4096)
    (h3 : ¬ num.exponent + T.bias < 0)
    (h4 : ¬ (Int.tdiv (num.exponent + T.bias) T.step).toNat ≥ T.large.length)
    (hs : T.smallInt[(Int.tmod (num.exponent + T.bias) T.step).toNat]? = some sInt)
    (hsf : T.getSmall (Int.tmod (num.exponent + T.bias) T.step).toNat = some sFp)
    (hlf : T.getLarge (Int.tdiv (num.exponent + T.bias) T.step).toNat = some lFp) :
    bellerophon T F num = some (finish F (stage F num sInt sFp lFp).1 (stage F num sInt sFp lFp).2) := by
  refine bellerophon.fun_cases_unfolding T F num
    (fun r => r = some (finish F (stage F num sInt sFp lFp).1 (stage F num sInt sFp lFp).2))
    ?_ ?_ ?_ ?_ ?_ ?_ ?_ ?_ ?_
  · intro _ h; exact absurd h h1
  · intro _ _ h; exact absurd h h2
  · intro _ _ _ _ h; exact absurd h h3
  · intro _ _ _ _ _ _ h; exact absurd h h4
  · dsimp only
    intro _ _ _ _ sInt' sFp' lFp' e3 e2 e1 fp1 errors1 heq1 fp3 shift heq2 c1
    rw [hs] at e1; rw [hsf] at e2; rw [hlf] at e3
    cases e1; cases e2; cases e3
    rw [stage_leaf F num sInt sFp lFp heq1 heq2]
    unfold finish bump
    dsimp only
    rw [if_pos c1]
  · dsimp only
    intro _ _ _ _ sInt' sFp' lFp' e3 e2 e1 fp1 errors1 heq1 fp3 shift heq2 c1 c2
    rw [hs] at e1; rw [hsf] at e2; rw [hlf] at e3
    cases e1; cases e2; cases e3
    rw [stage_leaf F num sInt sFp lFp heq1 heq2]
    unfold finish bump
    dsimp only
    rw [if_neg c1, if_pos c2]
  · dsimp only
    intro _ _ _ _ sInt' sFp' lFp' e3 e2 e1 fp1 errors1 heq1 fp3 shift heq2 c1 c2 c3
    rw [hs] at e1; rw [hsf] at e2; rw [hlf] at e3
    cases e1; cases e2; cases e3
    rw [stage_leaf F num sInt sFp lFp heq1 heq2]
    unfold finish bump
    dsimp only
    rw [if_neg c1, if_neg c2, if_pos c3]
  · dsimp only
    intro _ _ _ _ sInt' sFp' lFp' e3 e2 e1 fp1 errors1 heq1 fp3 shift heq2 c1 c2 c3
    rw [hs] at e1; rw [hsf] at e2; rw [hlf] at e3
    cases e1; cases e2; cases e3
    rw [stage_leaf F num sInt sFp lFp heq1 heq2]
    unfold finish bump
    dsimp only
    rw [if_neg c1, if_neg c2, if_neg c3]
  · dsimp only
    intro _ _ _ _ hn
    exact absurd hlf (fun h => hn _ _ _ hs hsf h)

/-! ## B2 — totality, early returns, case analysis -/

set_option linter.unusedVariables false in
theorem bel_zero1 (T : BelTables) (F : FloatC) (num : Number)
    (h : num.mantissa = 0 ∨ num.exponent ≤ -4096) : bellerophon T F num = some ⟨0, 0⟩ := by
  refine bellerophon.fun_cases_unfolding T F num (fun r => r = some ⟨0, 0⟩)
    ?_ ?_ ?_ ?_ ?_ ?_ ?_ ?_ ?_ <;> (try dsimp only) <;> intros <;> first | rfl | contradiction

set_option linter.unusedVariables false in
theorem bel_inf1 (T : BelTables) (F : FloatC) (num : Number)
    (h1 : ¬ (num.mantissa = 0 ∨ num.exponent ≤ -4096)) (h2 : num.exponent ≥ 4096) :
    bellerophon T F num = some ⟨0, F.infinitePower⟩ := by
  refine bellerophon.fun_cases_unfolding T F num (fun r => r = some ⟨0, F.infinitePower⟩)
    ?_ ?_ ?_ ?_ ?_ ?_ ?_ ?_ ?_ <;> (try dsimp only) <;> intros <;> first | rfl | contradiction

set_option linter.unusedVariables false in
theorem bel_zero2 (T : BelTables) (F : FloatC) (num : Number)
    (h1 : ¬ (num.mantissa = 0 ∨ num.exponent ≤ -4096)) (h2 : ¬ num.exponent ≥ 4096)
    (h3 : num.exponent + T.bias < 0) : bellerophon T F num = some ⟨0, 0⟩ := by
  refine bellerophon.fun_cases_unfolding T F num (fun r => r = some ⟨0, 0⟩)
    ?_ ?_ ?_ ?_ ?_ ?_ ?_ ?_ ?_ <;> (try dsimp only) <;> intros <;> first | rfl | contradiction

set_option linter.unusedVariables false in
theorem bel_inf2 (T : BelTables) (F : FloatC) (num : Number)
    (h1 : ¬ (num.mantissa = 0 ∨ num.exponent ≤ -4096)) (h2 : ¬ num.exponent ≥ 4096)
    (h3 : ¬ num.exponent + T.bias < 0)
    (h4 : (Int.tdiv (num.exponent + T.bias) T.step).toNat ≥ T.large.length) :
    bellerophon T F num = some ⟨0, F.infinitePower⟩ := by
  refine bellerophon.fun_cases_unfolding T F num (fun r => r = some ⟨0, F.infinitePower⟩)
    ?_ ?_ ?_ ?_ ?_ ?_ ?_ ?_ ?_ <;> (try dsimp only) <;> intros <;> first | rfl | contradiction

/-- **B2 (case analysis).**  On the regenerated tables `bellerophon` never panics, and its result is
    one of: the zero return (`w = 0` or `q ≤ −351`), the infinity return (`q ≥ 310`), or
    `finish (stage …)` with in-range table indices `s = (q+350) mod 10 < 10`, `l = (q+350)/10 < 66`. -/
theorem bellerophon_cases (F : FloatC) (num : Number) :
    ((num.mantissa = 0 ∨ num.exponent ≤ -351) ∧ bellerophon genBel F num = some ⟨0, 0⟩) ∨
    (num.mantissa ≠ 0 ∧ 310 ≤ num.exponent ∧ bellerophon genBel F num = some ⟨0, F.infinitePower⟩) ∨
    (num.mantissa ≠ 0 ∧ ∃ (s l : Nat) (sFp lFp : ExtFloat), s < 10 ∧ l < 66 ∧
      num.exponent = (s : Int) + (l : Int) * 10 - 350 ∧
      genBel.getSmall s = some sFp ∧ genBel.getLarge l = some lFp ∧
      bellerophon genBel F num =
        some (finish F (stage F num (10 ^ s) sFp lFp).1 (stage F num (10 ^ s) sFp lFp).2)) := by
  obtain ⟨g1, g2, g3, g4, g5⟩ := genBel_facts
  by_cases h1 : num.mantissa = 0 ∨ num.exponent ≤ -4096
  · left
    exact ⟨by rcases h1 with h | h; exact Or.inl h; exact Or.inr (by omega), bel_zero1 _ _ _ h1⟩
  have hw : num.mantissa ≠ 0 := fun h => h1 (Or.inl h)
  by_cases h2 : num.exponent ≥ 4096
  · right; left; exact ⟨hw, by omega, bel_inf1 _ _ _ h1 h2⟩
  by_cases h3 : num.exponent + genBel.bias < 0
  · left; exact ⟨Or.inr (by rw [g5] at h3; omega), bel_zero2 _ _ _ h1 h2 h3⟩
  have h3' : 0 ≤ num.exponent + 350 := by rw [g5] at h3; omega
  by_cases h4 : (Int.tdiv (num.exponent + genBel.bias) genBel.step).toNat ≥ genBel.large.length
  · right; left
    refine ⟨hw, ?_, bel_inf2 _ _ _ h1 h2 h3 h4⟩
    rw [g5, g4, g2, Int.tdiv_eq_ediv_of_nonneg h3'] at h4
    omega
  right; right
  refine ⟨hw, ?_⟩
  have hidx1 : (Int.tmod (num.exponent + genBel.bias) genBel.step).toNat =
      ((num.exponent + 350) % 10).toNat := by
    rw [g5, g4, Int.tmod_eq_emod_of_nonneg h3']
  have hidx2 : (Int.tdiv (num.exponent + genBel.bias) genBel.step).toNat =
      ((num.exponent + 350) / 10).toNat := by
    rw [g5, g4, Int.tdiv_eq_ediv_of_nonneg h3']
  have hs : ((num.exponent + 350) % 10).toNat < 10 := by omega
  have hl : ((num.exponent + 350) / 10).toNat < 66 := by
    rw [hidx2, g2] at h4; omega
  obtain ⟨sFp, hsf, _⟩ := small_entry hs
  obtain ⟨lFp, hlf, _⟩ := large_entry hl
  refine ⟨_, _, sFp, lFp, hs, hl, by omega, hsf, hlf, ?_⟩
  apply bellerophon_main genBel F num h1 h2 h3 h4
  · rw [hidx1]; exact smallInt_entry hs
  · rw [hidx1]; exact hsf
  · rw [hidx2]; exact hlf

/-- **B2 (totality).** -/
theorem bellerophon_total (F : FloatC) (num : Number) : ∃ fp, bellerophon genBel F num = some fp := by
  rcases bellerophon_cases F num with h | h | ⟨_, _, _, _, _, _, _, _, _, _, h⟩
  · exact ⟨_, h.2⟩
  · exact ⟨_, h.2.2⟩
  · exact ⟨_, h⟩


/-! ## B4 — no rounding boundary inside the error window -/

theorem rhe_decomp {A B q r : Nat} (hB : 0 < B) (h : A = q * B + r) (hr : r < B) :
    rhe A B = if 2 * r > B ∨ (2 * r = B ∧ q % 2 = 1) then q + 1 else q := by
  have h1 : A / B = q := by
    rw [h, Nat.mul_comm, Nat.mul_add_div hB, Nat.div_eq_of_lt hr, Nat.add_zero]
  have h2 : A % B = r := by
    rw [h, Nat.mul_comm, Nat.mul_add_mod, Nat.mod_eq_of_lt hr]
  unfold rhe; simp only [h1, h2]

theorem rhe_down {A B q r : Nat} (h : A = q * B + r) (hr : 2 * r < B) : rhe A B = q := by
  rw [rhe_decomp (by omega) h (by omega), if_neg (by omega)]

theorem rhe_up {A B q r : Nat} (h : A = q * B + r) (hr : r < B) (hr2 : B < 2 * r) :
    rhe A B = q + 1 := by
  rw [rhe_decomp (by omega) h hr, if_pos (by omega)]

/-- closed form of `rne` at a normalised significand -/
def cf (F : FloatC) (N : Nat) (exp : Int) : Nat :=
  min (rhe N (2 ^ specShift F exp) + expOff F exp * 2 ^ F.mantissaSize) F.fmt.infBits

theorem rne_cf {F : FloatC} (h : F.WF) {N : Nat} (h1 : 2 ^ 63 ≤ N) (h2 : N < 2 ^ 64) (exp : Int) :
    rne F.fmt (ofDyadic N (exp - F.exponentBias)) = cf F N exp := rne_ofDyadic h h1 h2 exp

/-- how shift and exponent offset change from `exp` to `exp + 1` -/
theorem shift_rel {F : FloatC} (h : F.WF) (exp : Int) :
    (specShift F exp = specShift F (exp + 1) + 1 ∧ expOff F exp = 0 ∧ expOff F (exp + 1) = 0) ∨
    (specShift F exp = 63 - F.mantissaSize ∧ specShift F (exp + 1) = 63 - F.mantissaSize ∧
      expOff F (exp + 1) = expOff F exp + 1) := by
  have := h.ms_le
  unfold specShift expOff
  split <;> split <;> omega

theorem pow_succ' (k : Nat) : 2 ^ (k + 1) = 2 * 2 ^ k := by rw [Nat.pow_succ, Nat.mul_comm]

/-- crossing the lower binade boundary: `(2^63 − d)·2^j = (2^64 − 2d)·2^(j−1)` rounds like `2^63·2^j` -/
theorem cross_low {F : FloatC} (h : F.WF) {exp : Int} {d : Nat} (hk63 : specShift F exp ≤ 63)
    (hd : 1 ≤ d) (hd8 : 8 * d ≤ 2 ^ specShift F exp) :
    cf F (2 ^ 64 - 2 * d) (exp - 1) = cf F (2 ^ 63) exp := by
  have hms := h.ms_le
  have hrel := shift_rel h (exp - 1)
  rw [show exp - 1 + 1 = exp by ring] at hrel
  unfold cf
  generalize hk : specShift F exp = k at *
  have hP : 0 < 2 ^ k := Nat.two_pow_pos k
  rcases hrel with ⟨r1, r2, r3⟩ | ⟨r1, r2, r3⟩
  · -- the shift grows by one, both subnormal
    rw [r1, r2, r3, pow_succ' k]
    obtain ⟨U, hU⟩ : ∃ U, 2 ^ 63 = U * 2 ^ k := ⟨2 ^ (63 - k), by rw [← Nat.pow_add]; congr 1; omega⟩
    have hU1 : 1 ≤ U := by
      rcases Nat.eq_zero_or_pos U with h0 | h0
      · rw [h0] at hU; omega
      · exact h0
    generalize 2 ^ k = P at *
    have e1 : rhe (2 ^ 64 - 2 * d) (2 * P) = U := by
      have : 2 ^ 64 - 2 * d = (U - 1) * (2 * P) + (2 * P - 2 * d) := by
        have : (U - 1) * (2 * P) = 2 * (U * P) - 2 * P := by
          rw [Nat.sub_mul, Nat.one_mul]; ring_nf
        have hle : 2 * P ≤ 2 * (U * P) := by
          have := Nat.mul_le_mul_right P hU1; omega
        omega
      rw [rhe_up this (by omega) (by omega)]; omega
    have e2 : rhe (2 ^ 63) P = U := rhe_down (r := 0) (by omega) (by omega)
    rw [e1, e2]
  · -- both normal: same shift, offset one less
    rw [r1, r3, ← r2]
    obtain ⟨S, hS⟩ : ∃ S, S = 2 ^ F.mantissaSize := ⟨_, rfl⟩
    have hSP : 2 ^ 63 = S * 2 ^ k := by
      rw [hS, ← Nat.pow_add]; congr 1; omega
    have hS1 : 1 ≤ S := by rw [hS]; exact Nat.two_pow_pos _
    rw [← hS]
    generalize 2 ^ k = P at *
    have e1 : rhe (2 ^ 64 - 2 * d) P = 2 * S := by
      have : 2 ^ 64 - 2 * d = (2 * S - 1) * P + (P - 2 * d) := by
        have : (2 * S - 1) * P = 2 * (S * P) - P := by
          rw [Nat.sub_mul, Nat.one_mul]; ring_nf
        have hle : P ≤ 2 * (S * P) := by
          have := Nat.mul_le_mul_right P hS1; omega
        omega
      rw [rhe_up this (by omega) (by omega)]; omega
    have e2 : rhe (2 ^ 63) P = S := rhe_down (r := 0) (by omega) (by omega)
    rw [e1, e2, Nat.add_mul, Nat.one_mul]
    congr 1
    omega

/-- crossing the upper binade boundary: `(2^64 + H − 2)·2^j`, `H = 2^(k−1)`, rounds like `2^64·2^j` -/
theorem cross_up {F : FloatC} (h : F.WF) {exp : Int} (hk2 : 2 ≤ specShift F exp)
    (hk64 : specShift F exp ≤ 64) :
    cf F (2 ^ 63 + 2 ^ (specShift F exp - 2) - 1) (exp + 1) =
      min (2 ^ (64 - specShift F exp) + expOff F exp * 2 ^ F.mantissaSize) F.fmt.infBits := by
  have hms := h.ms_le
  have hrel := shift_rel h exp
  unfold cf
  generalize hk : specShift F exp = k at *
  obtain ⟨H2, hH2⟩ : ∃ H2, H2 = 2 ^ (k - 2) := ⟨_, rfl⟩
  have hH21 : 1 ≤ H2 := by rw [hH2]; exact Nat.two_pow_pos _
  rw [← hH2]
  rcases hrel with ⟨r1, r2, r3⟩ | ⟨r1, r2, r3⟩
  · have hk' : specShift F (exp + 1) = k - 1 := by omega
    rw [hk', r2, r3]
    have hP : 2 ^ (k - 1) = 2 * H2 := by
      rw [hH2, ← pow_succ' (k - 2)]; congr 1; omega
    have hT : 2 ^ 63 = 2 ^ (64 - k) * 2 ^ (k - 1) := by
      rw [← Nat.pow_add]; congr 1; omega
    rw [hP] at hT ⊢
    generalize 2 ^ (64 - k) = T at *
    have : 2 ^ 63 + H2 - 1 = T * (2 * H2) + (H2 - 1) := by omega
    rw [rhe_down this (by omega)]
  · rw [r2, r3, ← r1]
    have hk4 : 2 ^ k = 4 * H2 := by
      have e1 : 2 ^ k = 2 * 2 ^ (k - 1) := by rw [← pow_succ' (k - 1)]; congr 1; omega
      have e2 : 2 ^ (k - 1) = 2 * 2 ^ (k - 2) := by rw [← pow_succ' (k - 2)]; congr 1; omega
      rw [e1, e2, hH2]; ring
    obtain ⟨S, hS⟩ : ∃ S, S = 2 ^ F.mantissaSize := ⟨_, rfl⟩
    have hSP : 2 ^ 63 = S * 2 ^ k := by
      rw [hS, ← Nat.pow_add]; congr 1; omega
    have hT : 2 ^ (64 - k) = 2 * S := by
      rw [hS, ← pow_succ' F.mantissaSize]; congr 1; omega
    rw [← hS, hT, hk4]
    rw [hk4] at hSP
    have : 2 ^ 63 + H2 - 1 = S * (4 * H2) + (H2 - 1) := by omega
    rw [rhe_down this (by omega), Nat.add_mul, Nat.one_mul]
    congr 1
    omega

/-- what `error_is_accurate` checks, for `exp ≥ −63`: the budget is below `TOO_MANY_ERRORS`, at most
    half a float ulp, and the dropped bits are at least `errors` away from the halfway point -/
theorem acc_unpack {F : FloatC} (h : F.WF) {M e : Nat} {exp : Int} 
    (hexp : -63 ≤ exp) (hacc : errorIsAccurate F e ⟨M, exp⟩ = true) :
    e < tooManyErrors ∧ e ≤ 2 ^ (specShift F exp - 1) ∧
    (M % 2 ^ specShift F exp + e ≤ 2 ^ (specShift F exp - 1) ∨
     2 ^ (specShift F exp - 1) + e ≤ M % 2 ^ specShift F exp) := by
  obtain ⟨hk1, hk64⟩ := specShift_bounds h hexp
  have hms := h.ms_le
  unfold errorIsAccurate at hacc
  by_cases he : e ≥ tooManyErrors
  · simp [he] at hacc
  rw [if_neg he] at hacc
  have hx : (if exp ≤ -(64 - (F.mantissaSize : Int) - 1) then 1 - exp
      else 64 - (F.mantissaSize : Int) - 1) = (specShift F exp : Int) := by
    unfold specShift; split <;> split <;> omega
  dsimp only at hacc
  rw [hx] at hacc
  rw [if_neg (by omega), Int.toNat_natCast, C18_lowerNMask hk64, C18_lowerNHalfway hk1 hk64,
    and_lowMask] at hacc
  generalize hk : specShift F exp = k at *
  have hH : 2 ^ (k - 1) ≤ 2 ^ 63 := Nat.pow_le_pow_right (by decide) (by omega)
  generalize 2 ^ (k - 1) = H at *
  generalize M % 2 ^ k = extra at *
  unfold tooManyErrors at he
  by_cases hgt : e > H
  · simp [hgt] at hacc
  rw [if_neg hgt] at hacc
  refine ⟨by unfold tooManyErrors; omega, by omega, ?_⟩
  have c1 : (H + u64Mod - e) % u64Mod = H - e := by unfold u64Mod; omega
  have c2 : (H + e) % u64Mod = H + e := by unfold u64Mod; omega
  rw [c1, c2] at hacc
  simp only [Bool.not_eq_true', Bool.and_eq_false_iff, decide_eq_false_iff_not] at hacc
  omega

theorem rne_squeeze (f : Fmt) {lo v hi : Q} (hlo : 0 < lo.den) (hv : 0 < v.den) (hhi : 0 < hi.den)
    (h1 : lo.toRat ≤ v.toRat) (h2 : v.toRat ≤ hi.toRat) {r : Nat}
    (e1 : rne f lo = r) (e2 : rne f hi = r) : rne f v = r := by
  have a := RneSpec.rne_mono f hlo hv ((Q.le_iff hlo hv).2 h1)
  have b := RneSpec.rne_mono f hv hhi ((Q.le_iff hv hhi).2 h2)
  omega

theorem specShift_ge2 {F : FloatC} (h : F.WF) (exp : Int) : 2 ≤ specShift F exp := by
  have := h.ms_le
  unfold specShift; split <;> omega

/-- **B4 (core).**  If `error_is_accurate` accepts the budget `e` at the normalised estimate
    `M · 2^(exp − bias)` and the true value lies in `[(M − d), (M + e − d)] · 2^(exp − bias)` with
    `4·d ≤ e`, then no rounding boundary of the format separates the true value from the estimate. -/
theorem accurate_rne {F : FloatC} (h : F.WF) {M e d : Nat} {exp : Int} (hM : 2 ^ 63 ≤ M)
    (hM' : M < 2 ^ 64) (hexp : -63 ≤ exp) (hd : 1 ≤ d) (hde : 4 * d ≤ e)
    (hacc : errorIsAccurate F e ⟨M, exp⟩ = true) {v : Q} (hv : 0 < v.den)
    (hlo : ((M : ℚ) - d) * (2:ℚ) ^ (exp - F.exponentBias) ≤ v.toRat)
    (hhi : v.toRat ≤ ((M : ℚ) + e - d) * (2:ℚ) ^ (exp - F.exponentBias)) :
    rne F.fmt v = rne F.fmt (ofDyadic M (exp - F.exponentBias)) := by
  obtain ⟨he59, heH, hcase⟩ := acc_unpack h hexp hacc
  obtain ⟨_, hk64⟩ := specShift_bounds h hexp
  have hk2 := specShift_ge2 h exp
  have hcl := @cross_low F h exp
  have hcu := @cross_up F h exp
  rw [rne_cf h hM hM']
  have hcf : ∀ N, cf F N exp =
      min (rhe N (2 ^ specShift F exp) + expOff F exp * 2 ^ F.mantissaSize) F.fmt.infBits := fun _ => rfl
  have hrne : ∀ N, 2 ^ 63 ≤ N → N < 2 ^ 64 →
      rne F.fmt (ofDyadic N (exp - F.exponentBias)) = cf F N exp := fun N a b => rne_cf h a b exp
  generalize hk : specShift F exp = k at *
  set j := exp - F.exponentBias with hj
  have hpj := two_zpow_pos j
  -- powers of two around the shift
  obtain ⟨H2, hH2⟩ : ∃ H2, H2 = 2 ^ (k - 2) := ⟨_, rfl⟩
  have hH21 : 1 ≤ H2 := by rw [hH2]; exact Nat.two_pow_pos _
  have hH : 2 ^ (k - 1) = 2 * H2 := by
    rw [hH2, ← pow_succ' (k - 2)]; congr 1; omega
  have hP : 2 ^ k = 2 * 2 ^ (k - 1) := by rw [← pow_succ' (k - 1)]; congr 1; omega
  have hT : 2 ^ 64 = 2 ^ (64 - k) * 2 ^ k := by rw [← Nat.pow_add]; congr 1; omega
  have hdm := Nat.div_add_mod M (2 ^ k)
  have hex := Nat.mod_lt M (Nat.two_pow_pos k)
  rw [← hH2] at hcu
  rw [hH] at heH hcase hP
  generalize 2 ^ (64 - k) = T at *
  generalize M / 2 ^ k = Q at *
  generalize M % 2 ^ k = extra at *
  have hQT : Q + 1 ≤ T := by
    by_contra hc
    have := Nat.mul_le_mul_right (2 ^ k) (show T ≤ Q by omega)
    rw [Nat.mul_comm Q] at this
    omega
  have hQT' := Nat.mul_le_mul_right (2 ^ k) hQT
  rw [Nat.add_mul, Nat.one_mul] at hQT'
  have hcomm : 2 ^ k * Q = Q * 2 ^ k := Nat.mul_comm _ _
  -- casts
  have cN : ∀ N : Nat, (ofDyadic N j).toRat = (N : ℚ) * (2:ℚ) ^ j := fun N => ofDyadic_toRat N j
  have hdle : d ≤ M + e := by omega
  have chi : ((M + e - d : Nat) : ℚ) = (M : ℚ) + e - d := by
    rw [Nat.cast_sub hdle]; push_cast; ring
  have clo : ((M - d : Nat) : ℚ) = (M : ℚ) - d := by
    rw [Nat.cast_sub (by omega)]
  rcases hcase with hc | hc
  · -- the dropped bits are below the halfway point: everything rounds down to `Q`
    have eM : cf F M exp = min (Q + expOff F exp * 2 ^ F.mantissaSize) F.fmt.infBits := by
      rw [hcf, rhe_down (q := Q) (r := extra) (by rw [Nat.mul_comm]; omega) (by omega)]
    rw [eM]
    have ehi : rne F.fmt (ofDyadic (M + e - d) j) =
        min (Q + expOff F exp * 2 ^ F.mantissaSize) F.fmt.infBits := by
      rw [hrne _ (by omega) (by omega), hcf,
        rhe_down (q := Q) (r := extra + e - d) (by rw [Nat.mul_comm]; omega) (by omega)]
    have vhi : v.toRat ≤ (ofDyadic (M + e - d) j).toRat := by rw [cN, chi]; exact hhi
    by_cases hnorm : 2 ^ 63 + d ≤ M
    · -- the lower end stays in the binade
      have elo : rne F.fmt (ofDyadic (M - d) j) =
          min (Q + expOff F exp * 2 ^ F.mantissaSize) F.fmt.infBits := by
        rw [hrne _ (by omega) (by omega), hcf]
        by_cases hde' : d ≤ extra
        · rw [rhe_down (q := Q) (r := extra - d) (by rw [Nat.mul_comm]; omega) (by omega)]
        · have hQ1 : 1 ≤ Q := by
            rcases Nat.eq_zero_or_pos Q with h0 | h0
            · rw [h0] at hdm; omega
            · exact h0
          have : (Q - 1) * 2 ^ k = 2 ^ k * Q - 2 ^ k := by
            rw [Nat.sub_mul, Nat.one_mul, Nat.mul_comm]
          have hle : 2 ^ k ≤ 2 ^ k * Q := Nat.le_mul_of_pos_right _ hQ1
          rw [rhe_up (q := Q - 1) (r := 2 ^ k + extra - d) (by omega) (by omega) (by omega)]
          congr 2; omega
      have vlo : (ofDyadic (M - d) j).toRat ≤ v.toRat := by rw [cN, clo]; exact hlo
      exact rne_squeeze _ (ofDyadic_den_pos _ _) hv (ofDyadic_den_pos _ _) vlo vhi elo ehi
    · -- the lower end crosses below `2^63`
      have hk63 : k ≤ 63 := by
        by_contra hc'
        have hk' : k = 64 := by omega
        subst hk'
        have : Q = 0 := by
          rcases Nat.eq_zero_or_pos Q with h0 | h0
          · exact h0
          · have := Nat.le_mul_of_pos_right (2 ^ 64) h0; omega
        subst this
        omega
      obtain ⟨U, hU⟩ : ∃ U, 2 ^ 63 = U * 2 ^ k := ⟨2 ^ (63 - k), by rw [← Nat.pow_add]; congr 1; omega⟩
      have hQU : Q = U := by
        rcases Nat.lt_trichotomy Q U with hlt | heq | hgt
        · have := Nat.mul_le_mul_right (2 ^ k) (show Q + 1 ≤ U by omega)
          rw [Nat.add_mul, Nat.one_mul, Nat.mul_comm Q] at this
          omega
        · exact heq
        · have := Nat.mul_le_mul_right (2 ^ k) (show U + 1 ≤ Q by omega)
          rw [Nat.add_mul, Nat.one_mul, Nat.mul_comm Q] at this
          omega
      have e63 : cf F (2 ^ 63) exp = min (Q + expOff F exp * 2 ^ F.mantissaSize) F.fmt.infBits := by
        rw [hcf, rhe_down (q := U) (r := 0) (by omega) (by omega), hQU]
      have elo : rne F.fmt (ofDyadic (2 ^ 64 - 2 * d) (exp - 1 - F.exponentBias)) =
          min (Q + expOff F exp * 2 ^ F.mantissaSize) F.fmt.infBits := by
        rw [rne_cf h (by omega) (by omega) (exp - 1), hcl hk63 hd (by omega), e63]
      have vlo : (ofDyadic (2 ^ 64 - 2 * d) (exp - 1 - F.exponentBias)).toRat ≤ v.toRat := by
        rw [ofDyadic_toRat, show exp - 1 - F.exponentBias = j - 1 by rw [hj]; ring,
          zpow_sub_one₀ (by norm_num), Nat.cast_sub (by omega)]
        have hM63 : ((2:ℚ) ^ 63) ≤ M := by exact_mod_cast hM
        have : ((2 ^ 64 : Nat) : ℚ) - ((2 * d : Nat) : ℚ) = 2 * ((2:ℚ) ^ 63 - d) := by
          push_cast; ring
        rw [this]
        have hx : 2 * ((2:ℚ) ^ 63 - d) * ((2:ℚ) ^ j * 2⁻¹) = ((2:ℚ) ^ 63 - d) * (2:ℚ) ^ j := by ring
        rw [hx]
        have := mul_le_mul_of_nonneg_right (show (2:ℚ) ^ 63 - d ≤ (M : ℚ) - d by linarith) hpj.le
        linarith
      exact rne_squeeze _ (ofDyadic_den_pos _ _) hv (ofDyadic_den_pos _ _) vlo vhi elo ehi
  · -- the dropped bits are above the halfway point: everything rounds up to `Q + 1`
    have eM : cf F M exp = min (Q + 1 + expOff F exp * 2 ^ F.mantissaSize) F.fmt.infBits := by
      rw [hcf, rhe_up (q := Q) (r := extra) (by rw [Nat.mul_comm]; omega) hex (by omega)]
    rw [eM]
    have hN63 : 2 ^ 63 ≤ M - d := by
      by_cases hk63 : k ≤ 63
      · obtain ⟨U, hU⟩ : ∃ U, 2 ^ 63 = U * 2 ^ k :=
          ⟨2 ^ (63 - k), by rw [← Nat.pow_add]; congr 1; omega⟩
        have hUQ : U ≤ Q := by
          by_contra hc'
          have := Nat.mul_le_mul_right (2 ^ k) (show Q + 1 ≤ U by omega)
          rw [Nat.add_mul, Nat.one_mul, Nat.mul_comm Q] at this
          omega
        have := Nat.mul_le_mul_right (2 ^ k) hUQ
        rw [Nat.mul_comm Q] at this
        omega
      · have hk' : k = 64 := by omega
        subst hk'
        omega
    have elo : rne F.fmt (ofDyadic (M - d) j) =
        min (Q + 1 + expOff F exp * 2 ^ F.mantissaSize) F.fmt.infBits := by
      rw [hrne _ hN63 (by omega), hcf,
        rhe_up (q := Q) (r := extra - d) (by rw [Nat.mul_comm]; omega) (by omega) (by omega)]
    have vlo : (ofDyadic (M - d) j).toRat ≤ v.toRat := by rw [cN, clo]; exact hlo
    by_cases hnorm : M + e - d < 2 ^ 64
    · have ehi : rne F.fmt (ofDyadic (M + e - d) j) =
          min (Q + 1 + expOff F exp * 2 ^ F.mantissaSize) F.fmt.infBits := by
        rw [hrne _ (by omega) hnorm, hcf]
        by_cases hwrap : extra + e - d < 2 ^ k
        · rw [rhe_up (q := Q) (r := extra + e - d) (by rw [Nat.mul_comm]; omega) hwrap (by omega)]
        · rw [rhe_down (q := Q + 1) (r := extra + e - d - 2 ^ k)
            (by rw [Nat.add_mul, Nat.one_mul, Nat.mul_comm Q]; omega) (by omega)]
      have vhi : v.toRat ≤ (ofDyadic (M + e - d) j).toRat := by rw [cN, chi]; exact hhi
      exact rne_squeeze _ (ofDyadic_den_pos _ _) hv (ofDyadic_den_pos _ _) vlo vhi elo ehi
    · -- the upper end crosses `2^64`
      have hQ1T : Q + 1 = T := by
        by_contra hc'
        have := Nat.mul_le_mul_right (2 ^ k) (show Q + 2 ≤ T by omega)
        rw [Nat.add_mul, Nat.mul_comm Q] at this
        omega
      have ehi : rne F.fmt (ofDyadic (2 ^ 63 + H2 - 1) (exp + 1 - F.exponentBias)) =
          min (Q + 1 + expOff F exp * 2 ^ F.mantissaSize) F.fmt.infBits := by
        have hH2le : H2 ≤ 2 ^ 62 := by
          rw [hH2]; exact Nat.pow_le_pow_right (by decide) (by omega)
        rw [rne_cf h (by omega) (by omega) (exp + 1), hcu hk2 hk64, hQ1T]
      have vhi : v.toRat ≤ (ofDyadic (2 ^ 63 + H2 - 1) (exp + 1 - F.exponentBias)).toRat := by
        rw [ofDyadic_toRat, show exp + 1 - F.exponentBias = j + 1 by rw [hj]; ring,
          zpow_add_one₀ (by norm_num)]
        have hb : (M : ℚ) + e - d ≤ 2 * (((2 ^ 63 + H2 - 1 : Nat)) : ℚ) := by
          have : M + e - d ≤ 2 * (2 ^ 63 + H2 - 1) := by omega
          have := (Nat.cast_le (α := ℚ)).2 this
          rw [chi] at this
          push_cast at this ⊢
          linarith
        have := mul_le_mul_of_nonneg_right hb hpj.le
        calc v.toRat ≤ ((M : ℚ) + e - d) * (2:ℚ) ^ j := hhi
          _ ≤ 2 * (((2 ^ 63 + H2 - 1 : Nat)) : ℚ) * (2:ℚ) ^ j := this
          _ = _ := by ring
      exact rne_squeeze _ (ofDyadic_den_pos _ _) hv (ofDyadic_den_pos _ _) vlo vhi elo ehi


/-! ## B5 — a declined estimate is within one float of the truth -/

/-- closed form of `rneTrunc` at a normalised significand -/
theorem rneTrunc_cf {F : FloatC} (h : F.WF) {N : Nat} (h1 : 2 ^ 63 ≤ N) (h2 : N < 2 ^ 64) (exp : Int) :
    rneTrunc F.fmt (ofDyadic N (exp - F.exponentBias)) =
      min (N / 2 ^ specShift F exp + expOff F exp * 2 ^ F.mantissaSize) F.fmt.infBits :=
  rneTrunc_ofDyadic h h1 h2 exp

/-- **B5 (core).**  With a budget `e ≤ 612` (what `NumOK` guarantees), `4·d ≤ e`, a format with at most
    52 explicit significand bits and `exp ≥ −64`: if the true value lies in
    `[(M − d), (M + e − d)] · 2^(exp − bias)` then it rounds to the truncation `b` of the estimate or to
    `b + 1`. -/
theorem est_rne {F : FloatC} (h : F.WF) (hms52 : F.mantissaSize ≤ 52) {M e d : Nat} {exp : Int}
    (hM : 2 ^ 63 ≤ M) (hM' : M < 2 ^ 64) (hexp : -64 ≤ exp) (he : e ≤ 612) (hd : 1 ≤ d)
    (hde : 4 * d ≤ e) {v : Q} (hv : 0 < v.den)
    (hlo : ((M : ℚ) - d) * (2:ℚ) ^ (exp - F.exponentBias) ≤ v.toRat)
    (hhi : v.toRat ≤ ((M : ℚ) + e - d) * (2:ℚ) ^ (exp - F.exponentBias)) :
    rne F.fmt v = rneTrunc F.fmt (ofDyadic M (exp - F.exponentBias)) ∨
    rne F.fmt v = rneTrunc F.fmt (ofDyadic M (exp - F.exponentBias)) + 1 := by
  have hms := h.ms_le
  have hk2 := specShift_ge2 h exp
  have hk11 : 11 ≤ specShift F exp := by unfold specShift; split <;> omega
  have hcl := @cross_low F h exp
  have hcu := @cross_up F h exp
  rw [rneTrunc_cf h hM hM']
  have hcf : ∀ N, cf F N exp =
      min (rhe N (2 ^ specShift F exp) + expOff F exp * 2 ^ F.mantissaSize) F.fmt.infBits := fun _ => rfl
  have hrne : ∀ N, 2 ^ 63 ≤ N → N < 2 ^ 64 →
      rne F.fmt (ofDyadic N (exp - F.exponentBias)) = cf F N exp := fun N a b => rne_cf h a b exp
  have hoff64 : 64 ≤ specShift F exp → expOff F exp = 0 := by
    unfold specShift expOff; split <;> omega
  have hk65 : specShift F exp ≤ 65 := by unfold specShift; split <;> omega
  have hk64iff : specShift F exp ≤ 64 ↔ -63 ≤ exp := by unfold specShift; split <;> omega
  set j := exp - F.exponentBias with hj
  have hpj := two_zpow_pos j
  have cN : ∀ N : Nat, (ofDyadic N j).toRat = (N : ℚ) * (2:ℚ) ^ j := fun N => ofDyadic_toRat N j
  have hdle : d ≤ M + e := by omega
  have chi : ((M + e - d : Nat) : ℚ) = (M : ℚ) + e - d := by
    rw [Nat.cast_sub hdle]; push_cast; ring
  have clo : ((M - d : Nat) : ℚ) = (M : ℚ) - d := by
    rw [Nat.cast_sub (by omega)]
  have hinf := RneSpec.rne_le_inf F.fmt v
  generalize hk : specShift F exp = k at *
  have hdm := Nat.div_add_mod M (2 ^ k)
  have hex := Nat.mod_lt M (Nat.two_pow_pos k)
  generalize M / 2 ^ k = Qd at *
  generalize M % 2 ^ k = extra at *
  have hcomm : 2 ^ k * Qd = Qd * 2 ^ k := Nat.mul_comm _ _
  -- it suffices to bracket `rne v`
  suffices hb : min (Qd + expOff F exp * 2 ^ F.mantissaSize) F.fmt.infBits ≤ rne F.fmt v ∧
      rne F.fmt v ≤ min (Qd + expOff F exp * 2 ^ F.mantissaSize) F.fmt.infBits + 1 by omega
  constructor
  · -- lower bracket
    by_cases hk63 : k ≤ 63
    · obtain ⟨U, hU⟩ : ∃ U, 2 ^ 63 = U * 2 ^ k := ⟨2 ^ (63 - k), by rw [← Nat.pow_add]; congr 1; omega⟩
      have hH : 2 ^ 11 ≤ 2 ^ k := Nat.pow_le_pow_right (by decide) hk11
      have hUQ : U ≤ Qd := by
        by_contra hc'
        have := Nat.mul_le_mul_right (2 ^ k) (show Qd + 1 ≤ U by omega)
        rw [Nat.add_mul, Nat.one_mul] at this
        omega
      by_cases hnorm : 2 ^ 63 + d ≤ M
      · have vlo : (ofDyadic (M - d) j).toRat ≤ v.toRat := by rw [cN, clo]; exact hlo
        have hmono := RneSpec.rne_mono F.fmt (ofDyadic_den_pos _ _) hv
          ((Q.le_iff (ofDyadic_den_pos _ _) hv).2 vlo)
        rw [hrne _ (by omega) (by omega), hcf] at hmono
        have hr : Qd ≤ rhe (M - d) (2 ^ k) := by
          by_cases hde' : d ≤ extra
          · have : Qd ≤ (M - d) / 2 ^ k := by
              rw [Nat.le_div_iff_mul_le (Nat.two_pow_pos k)]; omega
            exact Nat.le_trans this (div_le_rhe _ _)
          · have hQ1 : 1 ≤ Qd := by
              have : 1 ≤ U := by
                rcases Nat.eq_zero_or_pos U with h0 | h0
                · rw [h0] at hU; omega
                · exact h0
              omega
            have : (Qd - 1) * 2 ^ k = Qd * 2 ^ k - 2 ^ k := by rw [Nat.sub_mul, Nat.one_mul]
            have hle : 2 ^ k ≤ Qd * 2 ^ k := Nat.le_mul_of_pos_left _ hQ1
            rw [rhe_up (q := Qd - 1) (r := 2 ^ k + extra - d) (by omega) (by omega) (by omega)]
            omega
        omega
      · have hQU : Qd = U := by
          rcases Nat.lt_or_eq_of_le hUQ with hlt | heq
          · have := Nat.mul_le_mul_right (2 ^ k) (show U + 1 ≤ Qd by omega)
            rw [Nat.add_mul, Nat.one_mul] at this
            omega
          · exact heq.symm
        have e63 : cf F (2 ^ 63) exp = min (Qd + expOff F exp * 2 ^ F.mantissaSize) F.fmt.infBits := by
          rw [hcf, rhe_down (q := U) (r := 0) (by omega) (by omega), hQU]
        have elo : rne F.fmt (ofDyadic (2 ^ 64 - 2 * d) (exp - 1 - F.exponentBias)) =
            min (Qd + expOff F exp * 2 ^ F.mantissaSize) F.fmt.infBits := by
          rw [rne_cf h (by omega) (by omega) (exp - 1), hcl hk63 hd (by omega), e63]
        have vlo : (ofDyadic (2 ^ 64 - 2 * d) (exp - 1 - F.exponentBias)).toRat ≤ v.toRat := by
          rw [ofDyadic_toRat, show exp - 1 - F.exponentBias = j - 1 by rw [hj]; ring,
            zpow_sub_one₀ (by norm_num), Nat.cast_sub (by omega)]
          have hM63 : ((2:ℚ) ^ 63) ≤ M := by exact_mod_cast hM
          have : ((2 ^ 64 : Nat) : ℚ) - ((2 * d : Nat) : ℚ) = 2 * ((2:ℚ) ^ 63 - d) := by
            push_cast; ring
          rw [this]
          have hx : 2 * ((2:ℚ) ^ 63 - d) * ((2:ℚ) ^ j * 2⁻¹) = ((2:ℚ) ^ 63 - d) * (2:ℚ) ^ j := by ring
          rw [hx]
          have := mul_le_mul_of_nonneg_right (show (2:ℚ) ^ 63 - d ≤ (M : ℚ) - d by linarith) hpj.le
          linarith
        have hmono := RneSpec.rne_mono F.fmt (ofDyadic_den_pos _ _) hv
          ((Q.le_iff (ofDyadic_den_pos _ _) hv).2 vlo)
        rw [elo] at hmono
        exact hmono
    · -- shift ≥ 64: the truncation is 0
      have h0 : Qd = 0 := by
        have hbig : 2 ^ 64 ≤ 2 ^ k := Nat.pow_le_pow_right (by decide) (by omega)
        rcases Nat.eq_zero_or_pos Qd with h0 | h0
        · exact h0
        · have := Nat.le_mul_of_pos_right (2 ^ k) h0; omega
      rw [h0, hoff64 (by omega)]
      simp
  · -- upper bracket
    by_cases hE : -63 ≤ exp
    · have hk64 : k ≤ 64 := hk64iff.2 hE
      have hT : 2 ^ 64 = 2 ^ (64 - k) * 2 ^ k := by rw [← Nat.pow_add]; congr 1; omega
      obtain ⟨H2, hH2⟩ : ∃ H2, H2 = 2 ^ (k - 2) := ⟨_, rfl⟩
      have hH2big : 2 ^ 9 ≤ H2 := by rw [hH2]; exact Nat.pow_le_pow_right (by decide) (by omega)
      have hP : 2 ^ k = 4 * H2 := by
        have e1 : 2 ^ k = 2 * 2 ^ (k - 1) := by rw [← pow_succ' (k - 1)]; congr 1; omega
        have e2 : 2 ^ (k - 1) = 2 * 2 ^ (k - 2) := by rw [← pow_succ' (k - 2)]; congr 1; omega
        rw [e1, e2, hH2]; ring
      rw [← hH2] at hcu
      generalize 2 ^ (64 - k) = T at *
      have hQT : Qd + 1 ≤ T := by
        by_contra hc
        have := Nat.mul_le_mul_right (2 ^ k) (show T ≤ Qd by omega)
        omega
      by_cases hnorm : M + e - d < 2 ^ 64
      · have vhi : v.toRat ≤ (ofDyadic (M + e - d) j).toRat := by rw [cN, chi]; exact hhi
        have hmono := RneSpec.rne_mono F.fmt hv (ofDyadic_den_pos _ _)
          ((Q.le_iff hv (ofDyadic_den_pos _ _)).2 vhi)
        rw [hrne _ (by omega) hnorm, hcf] at hmono
        have hr : rhe (M + e - d) (2 ^ k) ≤ Qd + 1 := by
          apply rhe_le_of_lt_half (Nat.two_pow_pos k)
          have : (2 * (Qd + 1) + 1) * 2 ^ k = 2 * (Qd * 2 ^ k) + 3 * 2 ^ k := by ring
          omega
        omega
      · have hQ1T : Qd + 1 = T := by
          by_contra hc'
          have := Nat.mul_le_mul_right (2 ^ k) (show Qd + 2 ≤ T by omega)
          rw [Nat.add_mul] at this
          omega
        have ehi : rne F.fmt (ofDyadic (2 ^ 63 + H2 - 1) (exp + 1 - F.exponentBias)) =
            min (Qd + 1 + expOff F exp * 2 ^ F.mantissaSize) F.fmt.infBits := by
          have hH2le : H2 ≤ 2 ^ 62 := by
            rw [hH2]; exact Nat.pow_le_pow_right (by decide) (by omega)
          rw [rne_cf h (by omega) (by omega) (exp + 1), hcu hk2 hk64, hQ1T]
        have vhi : v.toRat ≤ (ofDyadic (2 ^ 63 + H2 - 1) (exp + 1 - F.exponentBias)).toRat := by
          rw [ofDyadic_toRat, show exp + 1 - F.exponentBias = j + 1 by rw [hj]; ring,
            zpow_add_one₀ (by norm_num)]
          have hb : (M : ℚ) + e - d ≤ 2 * (((2 ^ 63 + H2 - 1 : Nat)) : ℚ) := by
            have : M + e - d ≤ 2 * (2 ^ 63 + H2 - 1) := by omega
            have := (Nat.cast_le (α := ℚ)).2 this
            rw [chi] at this
            push_cast at this ⊢
            linarith
          have := mul_le_mul_of_nonneg_right hb hpj.le
          calc v.toRat ≤ ((M : ℚ) + e - d) * (2:ℚ) ^ j := hhi
            _ ≤ 2 * (((2 ^ 63 + H2 - 1 : Nat)) : ℚ) * (2:ℚ) ^ j := this
            _ = _ := by ring
        have hmono := RneSpec.rne_mono F.fmt hv (ofDyadic_den_pos _ _)
          ((Q.le_iff hv (ofDyadic_den_pos _ _)).2 vhi)
        rw [ehi] at hmono
        omega
    · -- exp = −64: the value is below the smallest subnormal
      have hE64 : exp = -64 := by omega
      have e1 : rne F.fmt (ofDyadic (2 ^ 63) (-62 - F.exponentBias)) = 1 := by
        rw [rne_cf h (Nat.le_refl _) (by decide) (-62)]
        unfold cf
        have s1 : specShift F (-62) = 63 := by unfold specShift; split <;> omega
        have s2 : expOff F (-62) = 0 := by unfold expOff; split <;> omega
        rw [s1, s2, rhe_down (q := 1) (r := 0) (by omega) (by decide)]
        have := infBits_pos F.fmt (by have := h.eb_ge; exact Nat.le_trans (by decide) this)
        omega
      have vhi : v.toRat ≤ (ofDyadic (2 ^ 63) (-62 - F.exponentBias)).toRat := by
        rw [ofDyadic_toRat, show -62 - F.exponentBias = j + 2 by rw [hj, hE64]; ring,
          zpow_add₀ (by norm_num)]
        have hb : (M : ℚ) + e - d ≤ ((2 ^ 63 : Nat) : ℚ) * (2:ℚ) ^ (2 : Int) := by
          have : M + e - d ≤ 2 ^ 63 * 4 := by omega
          have := (Nat.cast_le (α := ℚ)).2 this
          rw [chi] at this
          push_cast at this ⊢
          norm_num at this ⊢
          linarith
        have := mul_le_mul_of_nonneg_right hb hpj.le
        calc v.toRat ≤ ((M : ℚ) + e - d) * (2:ℚ) ^ j := hhi
          _ ≤ ((2 ^ 63 : Nat) : ℚ) * (2:ℚ) ^ (2 : Int) * (2:ℚ) ^ j := this
          _ = _ := by ring
      have hmono := RneSpec.rne_mono F.fmt hv (ofDyadic_den_pos _ _)
        ((Q.le_iff hv (ofDyadic_den_pos _ _)).2 vhi)
      rw [e1] at hmono
      omega


end MinLex.Bel
