/-
  Helper lemmas for the Bellerophon stage (compact builds): `belNormalize`, `belMul`, table facts
  in ∀-form, the error analysis in ℚ, and the "no rounding boundary inside the error window" lemma.
-/
import MinLex.Props.C14
import MinLex.Props.C18
import MinLex.Props.Main
namespace MinLex.Bel
open MinLex Bits

/-! ## B1 — `normalize` -/

theorem log2_bounds {w : Nat} (hw : w ≠ 0) : 2 ^ Nat.log2 w ≤ w ∧ w < 2 ^ (Nat.log2 w + 1) :=
  (Nat.log2_eq_iff hw).mp rfl

theorem clz64_le {w : Nat} (hw : w ≠ 0) (h64 : w < 2 ^ 64) : Nat.log2 w ≤ 63 := by
  have := (Nat.log2_lt hw).2 h64
  omega

/-- the shifted word is normalised and nothing is shifted out -/
theorem shl_clz {w : Nat} (hw : w ≠ 0) (h64 : w < 2 ^ 64) :
    2 ^ 63 ≤ w * 2 ^ clz64 w ∧ w * 2 ^ clz64 w < 2 ^ 64 := by
  obtain ⟨h1, h2⟩ := log2_bounds hw
  have hl := clz64_le hw h64
  unfold clz64
  rw [if_neg hw]
  constructor
  · have : 2 ^ 63 = 2 ^ Nat.log2 w * 2 ^ (63 - Nat.log2 w) := by
      rw [← Nat.pow_add]; congr 1; omega
    rw [this]; exact Nat.mul_le_mul_right _ h1
  · have : 2 ^ 64 = 2 ^ (Nat.log2 w + 1) * 2 ^ (63 - Nat.log2 w) := by
      rw [← Nat.pow_add]; congr 1; omega
    rw [this]; exact Nat.mul_lt_mul_of_pos_right h2 (Nat.two_pow_pos _)

/-- **B1 (normalize).** For a non-zero 64-bit significand: the shift is `clz`, the new significand
    is `mant · 2^shift` (no bits lost), it is normalised, and the exponent drops by the shift. -/
theorem belNormalize_spec {fp : ExtFloat} (h0 : fp.mant ≠ 0) (h64 : fp.mant < 2 ^ 64) :
    (belNormalize fp).2 = clz64 fp.mant ∧
    (belNormalize fp).1.mant = fp.mant * 2 ^ clz64 fp.mant ∧
    (belNormalize fp).1.exp = fp.exp - clz64 fp.mant ∧
    2 ^ 63 ≤ (belNormalize fp).1.mant ∧ (belNormalize fp).1.mant < 2 ^ 64 := by
  obtain ⟨h1, h2⟩ := shl_clz h0 h64
  have hmod : fp.mant * 2 ^ clz64 fp.mant % u64Mod = fp.mant * 2 ^ clz64 fp.mant :=
    Nat.mod_eq_of_lt (by unfold u64Mod; omega)
  have e : belNormalize fp = (⟨fp.mant * 2 ^ clz64 fp.mant, fp.exp - clz64 fp.mant⟩, clz64 fp.mant) := by
    unfold belNormalize
    simp only [ne_eq, h0, not_false_eq_true, if_true, hmod]
  rw [e]
  exact ⟨rfl, rfl, rfl, h1, h2⟩

theorem belNormalize_zero {fp : ExtFloat} (h0 : fp.mant = 0) : belNormalize fp = (fp, 0) := by
  unfold belNormalize; simp [h0]

/-- rational value of an extended float: `mant · 2^exp` -/
def val (fp : ExtFloat) : ℚ := (fp.mant : ℚ) * (2 : ℚ) ^ fp.exp

/-- **B1 (normalize), value form**: `mant · 2^exp` is unchanged. -/
theorem belNormalize_val {fp : ExtFloat} (h64 : fp.mant < 2 ^ 64) :
    val (belNormalize fp).1 = val fp := by
  by_cases h0 : fp.mant = 0
  · rw [belNormalize_zero h0]
  · obtain ⟨_, hm, he, _, _⟩ := belNormalize_spec h0 h64
    unfold val
    rw [hm, he, zpow_sub₀ (by norm_num)]
    push_cast
    have : ((2:ℚ) ^ (clz64 fp.mant : ℤ)) = (2:ℚ) ^ (clz64 fp.mant) := zpow_natCast _ _
    rw [this]
    field_simp

theorem clz64_norm {w : Nat} (h1 : 2 ^ 63 ≤ w) (h2 : w < 2 ^ 64) : clz64 w = 0 := by
  have hw : w ≠ 0 := by omega
  have : Nat.log2 w = 63 := (Nat.log2_eq_iff hw).mpr ⟨h1, h2⟩
  unfold clz64; rw [if_neg hw, this]

/-- lower bound on the word gives an upper bound on the shift -/
theorem clz64_le_of_le {w s : Nat} (hs : s ≤ 63) (h1 : 2 ^ (63 - s) ≤ w) : clz64 w ≤ s := by
  have hw : w ≠ 0 := by have := Nat.two_pow_pos (63 - s); omega
  have : 63 - s ≤ Nat.log2 w := by
    by_contra hc
    have := (Nat.log2_lt hw).1 (show Nat.log2 w < 63 - s by omega)
    omega
  unfold clz64; rw [if_neg hw]; omega

/-! ## B1 — `mul` -/

/-- **B1 (mul).** The 32-bit-halves computation is the round-half-up of the 128-bit product to its
    upper 64 bits; the result fits in 64 bits, so the model's `% 2^64` is the identity. -/
theorem belMul_mant {x y : ExtFloat} (hx : x.mant < 2 ^ 64) (hy : y.mant < 2 ^ 64) :
    (belMul x y).mant = (x.mant * y.mant + 2 ^ 63) / 2 ^ 64 := by
  unfold belMul u64Mod
  simp only
  have hx1 := Nat.div_add_mod x.mant 4294967296
  have hy1 := Nat.div_add_mod y.mant 4294967296
  have hx0 := Nat.mod_lt x.mant (show 0 < 4294967296 by decide)
  have hy0 := Nat.mod_lt y.mant (show 0 < 4294967296 by decide)
  have hx2 : x.mant / 4294967296 < 4294967296 := by omega
  have hy2 : y.mant / 4294967296 < 4294967296 := by omega
  generalize x.mant / 4294967296 = x1 at *
  generalize x.mant % 4294967296 = x0 at *
  generalize y.mant / 4294967296 = y1 at *
  generalize y.mant % 4294967296 = y0 at *
  have hp : x.mant * y.mant =
      x1 * y1 * 18446744073709551616 + (x1 * y0 + x0 * y1) * 4294967296 + x0 * y0 := by
    rw [← hx1, ← hy1]; ring
  have b11 : x1 * y1 ≤ 4294967295 * 4294967295 := Nat.mul_le_mul (by omega) (by omega)
  have b10 : x1 * y0 ≤ 4294967295 * 4294967295 := Nat.mul_le_mul (by omega) (by omega)
  have b01 : x0 * y1 ≤ 4294967295 * 4294967295 := Nat.mul_le_mul (by omega) (by omega)
  have b00 : x0 * y0 ≤ 4294967295 * 4294967295 := Nat.mul_le_mul (by omega) (by omega)
  rw [hp]
  generalize x1 * y1 = p11 at *
  generalize x1 * y0 = p10 at *
  generalize x0 * y1 = p01 at *
  generalize x0 * y0 = p00 at *
  omega

theorem belMul_exp (x y : ExtFloat) : (belMul x y).exp = x.exp + y.exp + 64 := rfl

/-- **B1 (mul), error form**: the result is within half a unit of the exact quotient. -/
theorem belMul_err {x y : ExtFloat} (hx : x.mant < 2 ^ 64) (hy : y.mant < 2 ^ 64) :
    x.mant * y.mant < (belMul x y).mant * 2 ^ 64 + 2 ^ 63 ∧
    (belMul x y).mant * 2 ^ 64 ≤ x.mant * y.mant + 2 ^ 63 := by
  rw [belMul_mant hx hy]
  have := Nat.div_add_mod (x.mant * y.mant + 2 ^ 63) (2 ^ 64)
  have := Nat.mod_lt (x.mant * y.mant + 2 ^ 63) (show 0 < 2 ^ 64 by decide)
  omega

theorem belMul_lt {x y : ExtFloat} (hx : x.mant < 2 ^ 64) (hy : y.mant < 2 ^ 64) :
    (belMul x y).mant < 2 ^ 64 := by
  have h := (belMul_err hx hy).2
  have : x.mant * y.mant ≤ (2 ^ 64 - 1) * (2 ^ 64 - 1) := Nat.mul_le_mul (by omega) (by omega)
  omega

/-- lower bound: operands with `2^a ≤ x`, `2^63 ≤ y` give `2^(a-1) ≤ result` (used for the shift
    bound and for the `debug_assert!(x.mant >> 32 != 0)` of the next multiplication). -/
theorem belMul_ge {x y : ExtFloat} {a : Nat} (ha : 1 ≤ a) (ha' : a ≤ 63) (hx : x.mant < 2 ^ 64)
    (hy : y.mant < 2 ^ 64) (hxa : 2 ^ a ≤ x.mant) (hy' : 2 ^ 63 ≤ y.mant) :
    2 ^ (a - 1) ≤ (belMul x y).mant := by
  have h := (belMul_err hx hy).1
  have h2 : 2 ^ a * 2 ^ 63 ≤ x.mant * y.mant := Nat.mul_le_mul hxa hy'
  have e : 2 ^ a * 2 ^ 63 = 2 ^ (a - 1) * 2 ^ 64 := by
    rw [← Nat.pow_add, ← Nat.pow_add]; congr 1; omega
  rw [e] at h2
  by_contra hc
  have : (belMul x y).mant + 1 ≤ 2 ^ (a - 1) := by omega
  have := Nat.mul_le_mul_right (2 ^ 64) this
  omega

/-! ## Table facts in ∀-form (from `C14.bellerophon_tables`) -/

theorem belSmallGo_get (T : BelTables) : ∀ (n s : Nat), C14.belSmallGo T n s = true →
    ∀ i, s ≤ i → i < s + n → ∃ fp, T.getSmall i = some fp ∧
      C14.isTrunc64 (C14.pow10Q i).1 (C14.pow10Q i).2 fp.mant fp.exp = true
  | 0, _, _, i, h1, h2 => by omega
  | n+1, s, hgo, i, h1, h2 => by
    simp only [C14.belSmallGo, Bool.and_eq_true] at hgo
    rcases Nat.eq_or_lt_of_le h1 with h | h
    · subst h
      cases hg : T.getSmall s with
      | none => rw [hg] at hgo; exact absurd hgo.1 (by simp)
      | some fp => rw [hg] at hgo; exact ⟨fp, rfl, hgo.1⟩
    · exact belSmallGo_get T n (s+1) hgo.2 i (by omega) (by omega)

theorem belLargeGo_get (T : BelTables) : ∀ (n s : Nat), C14.belLargeGo T n s = true →
    ∀ i, s ≤ i → i < s + n → ∃ fp, T.getLarge i = some fp ∧
      C14.isTrunc64 (C14.pow10Q ((i : Int) * T.step - T.bias)).1
        (C14.pow10Q ((i : Int) * T.step - T.bias)).2 fp.mant fp.exp = true
  | 0, _, _, i, h1, h2 => by omega
  | n+1, s, hgo, i, h1, h2 => by
    simp only [C14.belLargeGo, Bool.and_eq_true] at hgo
    rcases Nat.eq_or_lt_of_le h1 with h | h
    · subst h
      cases hg : T.getLarge s with
      | none => rw [hg] at hgo; exact absurd hgo.1 (by simp)
      | some fp => rw [hg] at hgo; exact ⟨fp, rfl, hgo.1⟩
    · exact belLargeGo_get T n (s+1) hgo.2 i (by omega) (by omega)

theorem pow10Q_rat (k : Int) :
    0 < (C14.pow10Q k).2 ∧ ((C14.pow10Q k).1 : ℚ) / ((C14.pow10Q k).2 : ℚ) = (10:ℚ) ^ k := by
  unfold C14.pow10Q
  split
  · rename_i h
    obtain ⟨n, rfl⟩ := Int.eq_ofNat_of_zero_le h
    simp
  · rename_i h
    obtain ⟨n, hn⟩ := Int.eq_ofNat_of_zero_le (show 0 ≤ -k by omega)
    have he : k = -(n:ℤ) := by omega
    subst he
    refine ⟨Nat.pow_pos (by decide), ?_⟩
    simp

/-- `isTrunc64` in ℚ: `m · 2^e ≤ num/den < (m+1) · 2^e`, `m` normalised -/
theorem isTrunc64_rat {num den m : Nat} {e : Int} (hd : 0 < den)
    (h : C14.isTrunc64 num den m e = true) :
    2 ^ 63 ≤ m ∧ m < 2 ^ 64 ∧ (m : ℚ) * (2:ℚ) ^ e ≤ (num : ℚ) / den ∧
      (num : ℚ) / den < ((m : ℚ) + 1) * (2:ℚ) ^ e := by
  have hd' : (0:ℚ) < den := by exact_mod_cast hd
  unfold C14.isTrunc64 at h
  simp only [Bool.and_eq_true, decide_eq_true_eq] at h
  obtain ⟨⟨h1, h2⟩, h3⟩ := h
  refine ⟨h1, h2, ?_⟩
  split at h3
  · rename_i he
    obtain ⟨n, rfl⟩ := Int.eq_ofNat_of_zero_le he
    simp only [Int.toNat_natCast, Bool.and_eq_true, decide_eq_true_eq] at h3
    rw [le_div_iff₀ hd', div_lt_iff₀ hd', zpow_natCast]
    constructor
    · have : ((m * (den * 2 ^ n) : Nat) : ℚ) ≤ (num : ℚ) := by exact_mod_cast h3.1
      push_cast at this; linarith
    · have : ((num : Nat) : ℚ) < (((m + 1) * (den * 2 ^ n) : Nat) : ℚ) := by exact_mod_cast h3.2
      push_cast at this; linarith
  · rename_i he
    obtain ⟨n, hn⟩ := Int.eq_ofNat_of_zero_le (show 0 ≤ -e by omega)
    have he' : e = -(n:ℤ) := by omega
    subst he'
    simp only [neg_neg, Int.toNat_natCast, Bool.and_eq_true, decide_eq_true_eq] at h3
    have hp : (0:ℚ) < (2:ℚ) ^ n := by positivity
    rw [le_div_iff₀ hd', div_lt_iff₀ hd', zpow_neg, zpow_natCast]
    constructor
    · have : ((m * den : Nat) : ℚ) ≤ ((num * 2 ^ n : Nat) : ℚ) := by exact_mod_cast h3.1
      push_cast at this
      rw [mul_assoc, inv_mul_eq_div, mul_div_assoc', div_le_iff₀ hp]; linarith
    · have : ((num * 2 ^ n : Nat) : ℚ) < (((m + 1) * den : Nat) : ℚ) := by exact_mod_cast h3.2
      push_cast at this
      rw [mul_assoc, inv_mul_eq_div, mul_div_assoc', lt_div_iff₀ hp]; linarith

theorem genBel_facts : genBel.small.length = 10 ∧ genBel.large.length = 66 ∧
    genBel.smallInt.length = 10 ∧ genBel.step = 10 ∧ genBel.bias = 350 := by
  have h := C14.bellerophon_tables
  simp only [C14.belCheck, Bool.and_eq_true, beq_iff_eq] at h
  exact ⟨h.1.1.1.1.1.1.1.1.1, h.1.1.1.1.1.1.1.1.2, h.1.1.1.1.1.1.1.2, h.1.1.1.1.1.1.2, h.1.1.1.1.1.2⟩

/-- `small[i]` with its derived exponent is the truncated normalised `10^i` -/
theorem small_entry {i : Nat} (hi : i < 10) : ∃ fp, genBel.getSmall i = some fp ∧
    2 ^ 63 ≤ fp.mant ∧ fp.mant < 2 ^ 64 ∧ val fp ≤ (10:ℚ) ^ i ∧ (10:ℚ) ^ i < val fp + (2:ℚ) ^ fp.exp := by
  have h := C14.bellerophon_tables
  simp only [C14.belCheck, Bool.and_eq_true] at h
  obtain ⟨fp, h1, h2⟩ := belSmallGo_get genBel 10 0 h.1.1.1.1.2 i (Nat.zero_le _) (by omega)
  obtain ⟨hd, hq⟩ := pow10Q_rat (i : Int)
  obtain ⟨a, b, c, d⟩ := isTrunc64_rat hd h2
  rw [hq, zpow_natCast] at c d
  refine ⟨fp, h1, a, b, c, ?_⟩
  unfold val; linarith

/-- `large[i]` with its derived exponent is the truncated normalised `10^(10·i − 350)` -/
theorem large_entry {i : Nat} (hi : i < 66) : ∃ fp, genBel.getLarge i = some fp ∧
    2 ^ 63 ≤ fp.mant ∧ fp.mant < 2 ^ 64 ∧ val fp ≤ (10:ℚ) ^ ((i : Int) * 10 - 350) ∧
      (10:ℚ) ^ ((i : Int) * 10 - 350) < val fp + (2:ℚ) ^ fp.exp := by
  have h := C14.bellerophon_tables
  simp only [C14.belCheck, Bool.and_eq_true] at h
  obtain ⟨fp, h1, h2⟩ := belLargeGo_get genBel 66 0 h.1.1.1.2 i (Nat.zero_le _) (by omega)
  obtain ⟨_, _, _, hs, hb⟩ := genBel_facts
  rw [hs, hb] at h2
  obtain ⟨hd, hq⟩ := pow10Q_rat ((i : Int) * 10 - 350)
  obtain ⟨a, b, c, d⟩ := isTrunc64_rat hd h2
  rw [hq] at c d
  refine ⟨fp, h1, a, b, c, ?_⟩
  unfold val; linarith

theorem smallInt_entry {i : Nat} (hi : i < 10) : genBel.smallInt[i]? = some (10 ^ i) := by
  have h := C14.bellerophon_tables
  simp only [C14.belCheck, Bool.and_eq_true, beq_iff_eq] at h
  have hl : i < Gen.belSmallInt.length := by rw [h.1.1.1.1.1.1.1.2]; exact hi
  have := C14.powGo_get 10 Gen.belSmallInt 0 h.1.1.2 i hl
  show Gen.belSmallInt[i]? = _
  rw [List.getElem?_eq_getElem hl, this, Nat.zero_add]

/-! ## The model's control flow, restated with named stages -/

/-- the computation between the index guards and `error_is_accurate`: `(fp4, errors3)` -/
def stage (F : FloatC) (num : Number) (sInt : Nat) (sFp lFp : ExtFloat) : ExtFloat × Nat :=
  let prod := num.mantissa * sInt
  let p1 : ExtFloat × Nat :=
    if prod ≥ u64Mod then
      let fpn := (belNormalize ⟨num.mantissa, 0⟩).1
      (belMul fpn sFp, truncatedErrors num fpn + errorHalfscale)
    else
      let fpn := (belNormalize ⟨prod, 0⟩).1
      (fpn, truncatedErrors num fpn)
  let fp2 := belMul p1.1 lFp
  let errors2 := (if p1.2 > 0 then p1.2 + 1 else p1.2) + errorHalfscale
  let n := belNormalize fp2
  (⟨n.1.mant, n.1.exp + F.exponentBias⟩, (errors2 * 2 ^ n.2) % u64Mod)

/-- the tail of `bellerophon` after `fp.exp += F::EXPONENT_BIAS` -/
def finish (F : FloatC) (fp4 : ExtFloat) (errors3 : Nat) : ExtFloat :=
  if -fp4.exp + 1 > 65 then ⟨0, 0⟩
  else if !errorIsAccurate F errors3 fp4 then ⟨fp4.mant, fp4.exp + F.invalidFp⟩
  else if -fp4.exp + 1 = 65 then ⟨0, 0⟩
  else round F (roundNearestTieEven cbNearestEven) fp4

/-- `finish` with the `some` on every branch, as the model has it -/
def finishO (F : FloatC) (fp4 : ExtFloat) (errors3 : Nat) : Option ExtFloat :=
  if -fp4.exp + 1 > 65 then some ⟨0, 0⟩
  else if !errorIsAccurate F errors3 fp4 then some ⟨fp4.mant, fp4.exp + F.invalidFp⟩
  else if -fp4.exp + 1 = 65 then some ⟨0, 0⟩
  else some (round F (roundNearestTieEven cbNearestEven) fp4)

theorem finishO_eq (F : FloatC) (fp4 : ExtFloat) (errors3 : Nat) :
    finishO F fp4 errors3 = some (finish F fp4 errors3) := by
  unfold finish finishO
  split
  · rfl
  split
  · rfl
  split
  · rfl
  rfl

theorem bellerophon_eq (T : BelTables) (F : FloatC) (num : Number) :
    bellerophon T F num =
      if num.mantissa = 0 ∨ num.exponent ≤ -4096 then some ⟨0, 0⟩
      else if num.exponent ≥ 4096 then some ⟨0, F.infinitePower⟩
      else if num.exponent + T.bias < 0 then some ⟨0, 0⟩
      else if (Int.tdiv (num.exponent + T.bias) T.step).toNat ≥ T.large.length then
        some ⟨0, F.infinitePower⟩
      else
        match T.smallInt[(Int.tmod (num.exponent + T.bias) T.step).toNat]?,
              T.getSmall (Int.tmod (num.exponent + T.bias) T.step).toNat,
              T.getLarge (Int.tdiv (num.exponent + T.bias) T.step).toNat with
        | some sInt, some sFp, some lFp =>
          finishO F (stage F num sInt sFp lFp).1 (stage F num sInt sFp lFp).2
        | _, _, _ => none := by
  rfl

end MinLex.Bel
