/-
  Glue for C08Final: ONE instrumented copy of the whole parser that logs every unchecked table read.

  Design.  The crate's unchecked constant-table reads are
     S1 / S2 / S4   `F::pow_fast_path(k)`            → `SMALL_F32_POW10[k]` / `SMALL_F64_POW10[k]`
     S3             `int_pow_fast_path(k, Ten)`      → `SMALL_INT_POW10[k]`     (number.rs)
     S5 / S6        `int_pow_fast_path(k, Ten)`      → `SMALL_INT_POW10[k]`     (slow.rs, `add_temporary!`)
     S7             `int_pow_fast_path(k, Five)`     → `SMALL_INT_POW5[k]`      (bigint.rs, `pow`)
  In the model these are the `tbl.getD k 0` of `intPow10` / `intPow5` (non-compact branch) and the
  call `E.powFastPath F k` (a table read iff the build is not `compact`; compact builds call
  `powf` / `u64::pow` and read no table).

  Every instrumented function below is the model function with each such read replaced by the
  logging primitive (`readTbl`, `intPow10Log`, `intPow5Log`, `powFastPathLog`), and with the log
  threaded through — also through failing (`none`) results, so that the log of a run that ends in a
  panic still contains the reads performed before (in fact a superset: the model keeps going where
  the Rust code has already unwound).
  `*_fst` : the instrumentation does not change the result.
  `*_good`: every logged access satisfies the site's static range, for ARBITRARY bytes.
-/
import MinLex.Proofs.Sites
import MinLex.Proofs.Rne
namespace MinLex
namespace SitesAll
open Sites

/-- the unchecked constant-table look-ups of the crate -/
inductive SiteId where
  /-- number.rs `F::pow_fast_path((-exponent) as usize)` (division branch) -/
  | S1
  /-- number.rs `F::pow_fast_path(exponent as usize)` (multiplication branch) -/
  | S2
  /-- number.rs `int_pow_fast_path(shift as usize, Ten)` (disguised fast path) -/
  | S3
  /-- number.rs `F::pow_fast_path(max_exponent as usize)` (disguised fast path) -/
  | S4
  /-- slow.rs `int_pow_fast_path(counter, Ten)` in `add_temporary!(@end …)` (both call sites) -/
  | S5S6
  /-- bigint.rs `int_pow_fast_path(exp, Five)` in `pow` -/
  | S7
deriving Repr, DecidableEq

/-- one unchecked read: which site, the index handed to `get_unchecked`, the length of the table -/
structure Access where
  site : SiteId
  index : Nat
  bound : Nat
deriving Repr, DecidableEq

-- ================================================================ the logging primitives

/-- `*tbl.get_unchecked(k)`: the value the model uses and the log entry -/
def readTbl (site : SiteId) (tbl : List Nat) (k : Nat) : Nat × List Access :=
  (tbl.getD k 0, [⟨site, k, tbl.length⟩])

/-- `int_pow_fast_path(k, Ten)`: `u64::pow` in compact builds (no table), else a table read -/
def intPow10Log (site : SiteId) (compact : Bool) (tbl : List Nat) (k : Nat) : Nat × List Access :=
  if compact then ((10 ^ k) % B, []) else readTbl site tbl k

/-- `int_pow_fast_path(k, Five)` -/
def intPow5Log (compact : Bool) (tbl : List Nat) (k : Nat) : Nat × List Access :=
  if compact then ((5 ^ k) % B, []) else readTbl .S7 tbl k

theorem intPow10Log_fst (site : SiteId) (compact : Bool) (tbl : List Nat) (k : Nat) :
    (intPow10Log site compact tbl k).1 = intPow10 compact tbl k := by
  unfold intPow10Log intPow10 readTbl; split <;> rfl

theorem intPow5Log_fst (compact : Bool) (tbl : List Nat) (k : Nat) :
    (intPow5Log compact tbl k).1 = intPow5 compact tbl k := by
  unfold intPow5Log intPow5 readTbl; split <;> rfl

/-- the float table `F::pow_fast_path` indexes in a default (non-compact) build -/
def floatTable (F : FloatC) : List Nat := if F.width = 32 then Gen.smallF32Pow10 else Gen.smallF64Pow10

/-- `F::pow_fast_path(k)`: the environment supplies the value; in a non-compact build it is a read
    of `floatTable F` (see `genEnv_powFastPathLog`), in a compact build a call of `powf` (no read) -/
def powFastPathLog (E : Env) (F : FloatC) (site : SiteId) (k : Nat) : Nat × List Access :=
  (E.powFastPath F k, if E.cfg.compact then [] else [⟨site, k, (floatTable F).length⟩])

/-- in the generated environment of a non-compact build, `powFastPathLog` IS the logged table read -/
theorem genEnv_powFastPathLog (cfg : Cfg) (hc : cfg.compact = false) (F : FloatC) (site : SiteId) (k : Nat) :
    powFastPathLog (genEnv cfg) F site k = readTbl site (floatTable F) k := by
  unfold powFastPathLog readTbl floatTable genEnv genPowFastPath
  simp only [hc, Bool.not_false, if_true, Bool.false_eq_true, if_false]
  split <;> rfl

-- ================================================================ S1 – S4: `try_fast_path`

/-- instrumented `Number::try_fast_path::<F>()` in environment `E` -/
def tryFastPathLog (E : Env) (F : FloatC) (n : Number) : Option Nat × List Access :=
  if isFastPath F n then
    let maxExponent := F.maxExponentFastPath
    if n.exponent ≤ maxExponent then
      let value := floatFromU64 F n.mantissa
      if n.exponent < 0 then
        let p := powFastPathLog E F .S1 (-n.exponent).toNat
        (some (fdiv F value p.1), p.2)
      else
        let p := powFastPathLog E F .S2 n.exponent.toNat
        (some (fmul F value p.1), p.2)
    else
      let shift := n.exponent - maxExponent
      let ip := intPow10Log .S3 E.cfg.compact E.pow.smallIntPow10 shift.toNat
      let mantissa := n.mantissa * ip.1
      if mantissa ≥ u64Mod then (none, ip.2)
      else if mantissa > F.maxMantissaFastPath then (none, ip.2)
      else
        let p := powFastPathLog E F .S4 maxExponent.toNat
        (some (fmul F (floatFromU64 F mantissa) p.1), ip.2 ++ p.2)
  else (none, [])

theorem tryFastPathLog_fst (E : Env) (F : FloatC) (n : Number) :
    (tryFastPathLog E F n).1 =
      tryFastPath F (E.powFastPath F) (intPow10 E.cfg.compact E.pow.smallIntPow10) n := by
  unfold tryFastPathLog tryFastPath
  simp only [intPow10Log_fst, powFastPathLog]
  split
  · split
    · split <;> rfl
    · split
      · rfl
      · split <;> rfl
  · rfl

/-- the static range of each site (what the guards of the code establish), and the table whose
    length is recorded -/
def Access.Good (T : PowTables) (F : FloatC) (a : Access) : Prop :=
  match a.site with
  | .S1 => a.index ≤ (-F.minExponentFastPath).toNat ∧ a.bound = (floatTable F).length
  | .S2 => a.index ≤ F.maxExponentFastPath.toNat ∧ a.bound = (floatTable F).length
  | .S4 => a.index = F.maxExponentFastPath.toNat ∧ a.bound = (floatTable F).length
  | .S3 => 1 ≤ a.index ∧ a.index ≤ (F.maxExponentDisguisedFastPath - F.maxExponentFastPath).toNat ∧
      a.bound = T.smallIntPow10.length
  | .S5S6 => 1 ≤ a.index ∧ a.index ≤ 19 ∧ a.bound = T.smallIntPow10.length
  | .S7 => 1 ≤ a.index ∧ a.index ≤ 26 ∧ a.bound = T.smallIntPow5.length

theorem tryFastPathLog_good (E : Env) (F : FloatC) (n : Number) :
    ∀ a ∈ (tryFastPathLog E F n).2, a.Good E.pow F := by
  intro a ha
  unfold tryFastPathLog at ha
  by_cases h1 : isFastPath F n = true
  · simp only [h1, if_true] at ha
    by_cases h2 : n.exponent ≤ F.maxExponentFastPath
    · simp only [h2, if_true] at ha
      by_cases h3 : n.exponent < 0
      · simp only [h3, if_true, powFastPathLog] at ha
        split at ha
        · simp at ha
        · simp only [List.mem_singleton] at ha
          subst ha
          exact ⟨S1_index h1 h2 h3, rfl⟩
      · simp only [h3, if_false, powFastPathLog] at ha
        split at ha
        · simp at ha
        · simp only [List.mem_singleton] at ha
          subst ha
          exact ⟨S2_index h1 h2 h3, rfl⟩
    · simp only [h2, if_false] at ha
      have hS3 : ∀ a ∈ (intPow10Log .S3 E.cfg.compact E.pow.smallIntPow10
          (n.exponent - F.maxExponentFastPath).toNat).2, a.Good E.pow F := by
        intro a ha
        unfold intPow10Log readTbl at ha
        split at ha
        · simp at ha
        · simp only [List.mem_singleton] at ha
          subst ha
          have := S3_index h1 h2
          exact ⟨by show 1 ≤ (n.exponent - F.maxExponentFastPath).toNat; omega, this.1, rfl⟩
      split at ha
      · exact hS3 a ha
      · split at ha
        · exact hS3 a ha
        · rcases List.mem_append.mp ha with ha | ha
          · exact hS3 a ha
          · simp only [powFastPathLog] at ha
            split at ha
            · simp at ha
            · simp only [List.mem_singleton] at ha
              subst ha
              exact ⟨rfl, rfl⟩
  · simp only [h1] at ha
    simp at ha

/-- compact builds: the fast path reads no table -/
theorem tryFastPathLog_compact (E : Env) (F : FloatC) (n : Number) (hc : E.cfg.compact = true) :
    (tryFastPathLog E F n).2 = [] := by
  unfold tryFastPathLog intPow10Log powFastPathLog
  simp only [hc, if_true]
  split
  · split
    · split <;> rfl
    · split
      · rfl
      · split <;> rfl
  · rfl

-- ================================================================ S5 / S6: `parse_mantissa`

/-- the log entry of one `add_temporary!(@end …)` -/
def flushEndLog (T : PowTables) (s : PM) : List Access :=
  if s.counter ≠ 0 then (intPow10Log .S5S6 T.compact T.smallIntPow10 s.counter).2 else []

/-- `flushEnd` written with the logging primitive: the look-up it performs is the logged one -/
theorem flushEnd_eq_log (cap : Option Nat) (T : PowTables) (s : PM) :
    s.flushEnd cap T = (if s.counter ≠ 0 then
      { s with
        result := pmMulAdd cap s.result (intPow10Log .S5S6 T.compact T.smallIntPow10 s.counter).1 s.value }
      else s) := by
  unfold PM.flushEnd; rw [intPow10Log_fst]

/-- … and the log entry is `flushEndSite` of Proofs/Sites with site and table length attached -/
theorem flushEndLog_eq (T : PowTables) (s : PM) :
    flushEndLog T s = if T.compact then []
      else (flushEndSite s).map (fun k => ⟨.S5S6, k, T.smallIntPow10.length⟩) := by
  unfold flushEndLog flushEndSite intPow10Log readTbl
  by_cases hc : T.compact = true
  · simp only [hc, if_true]; split <;> rfl
  · simp only [hc]; split <;> rfl

/-- instrumented `slow::parse_mantissa`: `parseMantissaPMI` of Proofs/Sites (which logs the index of
    every `add_temporary!(@end …)` with `counter ≠ 0`), each index tagged with site and table length;
    compact builds compute `10u64.pow(counter)` instead and read nothing -/
def parseMantissaLog (cap : Option Nat) (T : PowTables) (int frac : List UInt8) (maxDigits : Nat) :
    Option (Big × Nat) × List Access :=
  let p := parseMantissaPMI cap T int frac maxDigits
  (match p.1.result with
    | none => none
    | some r => some (r, p.1.count),
   if T.compact then [] else p.2.map (fun k => ⟨.S5S6, k, T.smallIntPow10.length⟩))

theorem parseMantissaLog_fst (cap : Option Nat) (T : PowTables) (int frac : List UInt8) (maxDigits : Nat) :
    (parseMantissaLog cap T int frac maxDigits).1 = parseMantissa cap T int frac maxDigits := by
  unfold parseMantissaLog parseMantissa
  simp only [parseMantissaPMI_fst]
  cases (parseMantissaPM cap T int frac maxDigits).result <;> rfl

theorem parseMantissaLog_good (cap : Option Nat) (T : PowTables) (F : FloatC) (int frac : List UInt8)
    (maxDigits : Nat) : ∀ a ∈ (parseMantissaLog cap T int frac maxDigits).2, a.Good T F := by
  intro a ha
  unfold parseMantissaLog at ha
  simp only [] at ha
  split at ha
  · simp at ha
  · obtain ⟨k, hk, rfl⟩ := List.mem_map.mp ha
    have := parseMantissaPMI_sites cap T int frac maxDigits k hk
    exact ⟨this.1, this.2, rfl⟩

theorem parseMantissaLog_compact (cap : Option Nat) (T : PowTables) (int frac : List UInt8) (maxDigits : Nat)
    (hc : T.compact = true) : (parseMantissaLog cap T int frac maxDigits).2 = [] := by
  unfold parseMantissaLog; simp only [hc, if_true]

-- ================================================================ S7: `pow`, `Bigint::pow`

/-- instrumented `bigint::pow` (multiply by `5^exp`) -/
def powLog (cap : Option Nat) (T : PowTables) (x : Big) (exp : Nat) : Option Big × List Access :=
  let r1 := if T.compact then some (x, exp) else powLargeLoop cap T (exp + 1) x exp
  match r1 with
  | none => (none, [])
  | some (x1, e1) =>
    match powSmallLoop cap (e1 + 1) x1 e1 with
    | none => (none, [])
    | some (x2, e2) =>
      if e2 ≠ 0 then
        let p := intPow5Log T.compact T.smallIntPow5 e2
        (smallMul cap x2 p.1, p.2)
      else (some x2, [])

theorem powLog_fst (cap : Option Nat) (T : PowTables) (x : Big) (exp : Nat) :
    (powLog cap T x exp).1 = pow cap T x exp := by
  unfold powLog pow
  simp only [intPow5Log_fst]
  cases (if T.compact = true then some (x, exp) else powLargeLoop cap T (exp + 1) x exp) with
  | none => rfl
  | some p1 =>
    obtain ⟨x1, e1⟩ := p1
    simp only []
    cases powSmallLoop cap (e1 + 1) x1 e1 with
    | none => rfl
    | some p2 =>
      obtain ⟨x2, e2⟩ := p2
      simp only []
      split <;> rfl

/-- the log of `powLog` is `powSite` of Proofs/Sites with site and table length attached -/
theorem powLog_snd (cap : Option Nat) (T : PowTables) (x : Big) (exp : Nat) :
    (powLog cap T x exp).2 = if T.compact then []
      else (powSite cap T x exp).map (fun k => ⟨.S7, k, T.smallIntPow5.length⟩) := by
  unfold powLog powSite intPow5Log readTbl
  simp only []
  cases (if T.compact = true then some (x, exp) else powLargeLoop cap T (exp + 1) x exp) with
  | none => simp
  | some p1 =>
    obtain ⟨x1, e1⟩ := p1
    simp only []
    cases powSmallLoop cap (e1 + 1) x1 e1 with
    | none => simp
    | some p2 =>
      obtain ⟨x2, e2⟩ := p2
      simp only []
      by_cases hc : T.compact = true
      · simp only [hc, if_true]; split <;> rfl
      · simp only [hc]; split <;> simp

theorem powLog_good (cap : Option Nat) (T : PowTables) (F : FloatC) (x : Big) (exp : Nat) :
    ∀ a ∈ (powLog cap T x exp).2, a.Good T F := by
  intro a ha
  rw [powLog_snd] at ha
  split at ha
  · simp at ha
  · obtain ⟨k, hk, rfl⟩ := List.mem_map.mp ha
    have := powSite_bound cap T x exp k hk
    exact ⟨this.1, this.2, rfl⟩

theorem powLog_compact (cap : Option Nat) (T : PowTables) (x : Big) (exp : Nat) (hc : T.compact = true) :
    (powLog cap T x exp).2 = [] := by
  rw [powLog_snd, hc]; rfl

/-- instrumented `Bigint::pow(base, exp)` -/
def bigintPowLog (cap : Option Nat) (T : PowTables) (x : Big) (base exp : Nat) : Option Big × List Access :=
  match (if base % 5 = 0 then powLog cap T x exp else (some x, [])) with
  | (none, l) => (none, l)
  | (some x1, l) => (if base % 2 = 0 then shl cap x1 exp else some x1, l)

theorem bigintPowLog_fst (cap : Option Nat) (T : PowTables) (x : Big) (base exp : Nat) :
    (bigintPowLog cap T x base exp).1 = bigintPow cap T x base exp := by
  unfold bigintPowLog bigintPow
  rw [← powLog_fst]
  by_cases h5 : base % 5 = 0
  · simp only [h5, if_true]
    rcases powLog cap T x exp with ⟨o, l⟩
    cases o <;> rfl
  · simp only [h5, if_false]

theorem bigintPowLog_snd (cap : Option Nat) (T : PowTables) (x : Big) (base exp : Nat) :
    (bigintPowLog cap T x base exp).2 = if base % 5 = 0 then (powLog cap T x exp).2 else [] := by
  unfold bigintPowLog
  by_cases h5 : base % 5 = 0
  · simp only [h5, if_true]
    rcases powLog cap T x exp with ⟨o, l⟩
    cases o <;> rfl
  · simp only [h5, if_false]

theorem bigintPowLog_good (cap : Option Nat) (T : PowTables) (F : FloatC) (x : Big) (base exp : Nat) :
    ∀ a ∈ (bigintPowLog cap T x base exp).2, a.Good T F := by
  intro a ha
  rw [bigintPowLog_snd] at ha
  split at ha
  · exact powLog_good cap T F x exp a ha
  · simp at ha

theorem bigintPowLog_compact (cap : Option Nat) (T : PowTables) (x : Big) (base exp : Nat)
    (hc : T.compact = true) : (bigintPowLog cap T x base exp).2 = [] := by
  rw [bigintPowLog_snd, powLog_compact cap T x exp hc]; split <;> rfl

-- ================================================================ slow.rs: the digit comparisons

/-- instrumented `slow::positive_digit_comp` (one `pow(10, …)`: S7) -/
def positiveDigitCompLog (cap : Option Nat) (T : PowTables) (F : FloatC) (bigmant : Big) (exponent : Int) :
    Option ExtFloat × List Access :=
  match bigintPowLog cap T bigmant 10 (exponent % 4294967296).toNat with
  | (none, l) => (none, l)
  | (some bm, l) =>
    let h := hi64 bm
    let exp : Int := (bitLength bm : Int) - 64 + F.exponentBias
    (some (round F (roundNearestTieEven (cbTruncatedAbove h.2)) ⟨h.1, exp⟩), l)

theorem positiveDigitCompLog_fst (cap : Option Nat) (T : PowTables) (F : FloatC) (bigmant : Big) (exponent : Int) :
    (positiveDigitCompLog cap T F bigmant exponent).1 = positiveDigitComp cap T F bigmant exponent := by
  unfold positiveDigitCompLog positiveDigitComp
  rw [← bigintPowLog_fst]
  rcases bigintPowLog cap T bigmant 10 (exponent % 4294967296).toNat with ⟨o, l⟩
  cases o <;> rfl

theorem positiveDigitCompLog_snd (cap : Option Nat) (T : PowTables) (F : FloatC) (bigmant : Big) (exponent : Int) :
    (positiveDigitCompLog cap T F bigmant exponent).2 =
      (bigintPowLog cap T bigmant 10 (exponent % 4294967296).toNat).2 := by
  unfold positiveDigitCompLog
  rcases bigintPowLog cap T bigmant 10 (exponent % 4294967296).toNat with ⟨o, l⟩
  cases o <;> rfl

/-- the second stage of `negative_digit_comp` (after `theor_digits.pow(5, …)`): the two `pow(2, …)`
    (pure shifts: they log nothing, `bigintPowLog_snd`) and the comparison -/
def negativeDigitCompTailLog (cap : Option Nat) (T : PowTables) (F : FloatC) (bigmant : Big) (fp : ExtFloat)
    (binaryExp : Int) (theor1 : Big) : Option ExtFloat × List Access :=
  let both : Option (Big × Big) × List Access :=
    if binaryExp > 0 then
      match bigintPowLog cap T theor1 2 (binaryExp % 4294967296).toNat with
      | (none, l) => (none, l)
      | (some t, l) => (some (bigmant, t), l)
    else if binaryExp < 0 then
      match bigintPowLog cap T bigmant 2 ((-binaryExp) % 4294967296).toNat with
      | (none, l) => (none, l)
      | (some r, l) => (some (r, theor1), l)
    else (some (bigmant, theor1), [])
  match both with
  | (none, l) => (none, l)
  | (some (realDigits, theorDigits), l) =>
    let ord := bigCompare realDigits theorDigits
    (some (round F (roundNearestTieEven (cbOrdering ord)) fp), l)

/-- instrumented `slow::negative_digit_comp` (one `pow(5, …)`: S7) -/
def negativeDigitCompLog (cap : Option Nat) (T : PowTables) (F : FloatC) (bigmant : Big) (fp : ExtFloat)
    (exponent : Int) : Option ExtFloat × List Access :=
  let realExp := exponent
  let b := round F roundDown fp
  let bBits := extendedToFloat F b
  let theor := fbh F bBits
  let theorDigits0 := fromU64 theor.mant
  let binaryExp := theor.exp - realExp
  let halfradixExp := -realExp
  let theor1 : Option Big × List Access :=
    if halfradixExp ≠ 0 then bigintPowLog cap T theorDigits0 5 (halfradixExp % 4294967296).toNat
    else (some theorDigits0, [])
  match theor1 with
  | (none, l) => (none, l)
  | (some t1, l) =>
    let r := negativeDigitCompTailLog cap T F bigmant fp binaryExp t1
    (r.1, l ++ r.2)

theorem negativeDigitCompTailLog_snd (cap : Option Nat) (T : PowTables) (F : FloatC) (bigmant : Big)
    (fp : ExtFloat) (binaryExp : Int) (theor1 : Big) :
    (negativeDigitCompTailLog cap T F bigmant fp binaryExp theor1).2 = [] := by
  have h2 : ∀ x e, (bigintPowLog cap T x 2 e).2 = [] := fun x e => by rw [bigintPowLog_snd]; rfl
  unfold negativeDigitCompTailLog
  simp only []
  by_cases hp : binaryExp > 0
  · simp only [hp, if_true]
    have := h2 theor1 (binaryExp % 4294967296).toNat
    generalize bigintPowLog cap T theor1 2 (binaryExp % 4294967296).toNat = p at this ⊢
    obtain ⟨o, l⟩ := p
    simp only at this; subst this
    cases o <;> rfl
  · simp only [hp, if_false]
    by_cases hn : binaryExp < 0
    · simp only [hn, if_true]
      have := h2 bigmant ((-binaryExp) % 4294967296).toNat
      generalize bigintPowLog cap T bigmant 2 ((-binaryExp) % 4294967296).toNat = p at this ⊢
      obtain ⟨o, l⟩ := p
      simp only at this; subst this
      cases o <;> rfl
    · simp only [hn, if_false]

theorem negativeDigitCompTailLog_fst (cap : Option Nat) (T : PowTables) (F : FloatC) (bigmant : Big)
    (fp : ExtFloat) (binaryExp : Int) (theor1 : Big) :
    (negativeDigitCompTailLog cap T F bigmant fp binaryExp theor1).1 =
      (match (if binaryExp > 0 then
              match bigintPow cap T theor1 2 (binaryExp % 4294967296).toNat with
              | none => none
              | some t => some (bigmant, t)
            else if binaryExp < 0 then
              match bigintPow cap T bigmant 2 ((-binaryExp) % 4294967296).toNat with
              | none => none
              | some r => some (r, theor1)
            else some (bigmant, theor1) : Option (Big × Big)) with
        | none => none
        | some (realDigits, theorDigits) =>
          some (round F (roundNearestTieEven (cbOrdering (bigCompare realDigits theorDigits))) fp)) := by
  unfold negativeDigitCompTailLog
  simp only [← bigintPowLog_fst]
  by_cases hp : binaryExp > 0
  · simp only [hp, if_true]
    rcases bigintPowLog cap T theor1 2 (binaryExp % 4294967296).toNat with ⟨o, l⟩
    cases o <;> rfl
  · simp only [hp, if_false]
    by_cases hn : binaryExp < 0
    · simp only [hn, if_true]
      rcases bigintPowLog cap T bigmant 2 ((-binaryExp) % 4294967296).toNat with ⟨o, l⟩
      cases o <;> rfl
    · simp only [hn, if_false]

theorem negativeDigitCompLog_fst (cap : Option Nat) (T : PowTables) (F : FloatC) (bigmant : Big) (fp : ExtFloat)
    (exponent : Int) :
    (negativeDigitCompLog cap T F bigmant fp exponent).1 = negativeDigitComp cap T F bigmant fp exponent := by
  unfold negativeDigitCompLog negativeDigitComp
  simp only []
  by_cases h0 : -exponent ≠ 0
  · simp only [if_pos h0]
    have e5 := bigintPowLog_fst cap T (fromU64 (fbh F (extendedToFloat F (round F roundDown fp))).mant) 5
      (-exponent % 4294967296).toNat
    generalize bigintPowLog cap T (fromU64 (fbh F (extendedToFloat F (round F roundDown fp))).mant) 5
      (-exponent % 4294967296).toNat = p at e5 ⊢
    obtain ⟨o, l⟩ := p
    simp only at e5
    rw [← e5]
    cases o with
    | none => rfl
    | some t1 => simp only [negativeDigitCompTailLog_fst]; rfl
  · simp only [if_neg h0, negativeDigitCompTailLog_fst]; rfl

theorem negativeDigitCompLog_snd (cap : Option Nat) (T : PowTables) (F : FloatC) (bigmant : Big) (fp : ExtFloat)
    (exponent : Int) :
    (negativeDigitCompLog cap T F bigmant fp exponent).2 =
      if -exponent ≠ 0 then
        (bigintPowLog cap T (fromU64 (fbh F (extendedToFloat F (round F roundDown fp))).mant) 5
          (-exponent % 4294967296).toNat).2
      else [] := by
  unfold negativeDigitCompLog
  simp only []
  by_cases h0 : -exponent ≠ 0
  · simp only [if_pos h0]
    rcases bigintPowLog cap T (fromU64 (fbh F (extendedToFloat F (round F roundDown fp))).mant) 5
      (-exponent % 4294967296).toNat with ⟨o, l⟩
    cases o with
    | none => rfl
    | some t1 => simp only [negativeDigitCompTailLog_snd, List.append_nil]
  · simp only [if_neg h0, negativeDigitCompTailLog_snd, List.append_nil]

-- ================================================================ slow.rs: `slow`

/-- instrumented `slow::slow::<F>` -/
def slowLog (cap : Option Nat) (T : PowTables) (F : FloatC) (num : Number) (fp : ExtFloat)
    (int frac : List UInt8) : Option ExtFloat × List Access :=
  let sciExp := scientificExponent num
  match parseMantissaLog cap T int frac F.maxDigits with
  | (none, l) => (none, l)
  | (some (bigmant, digits), l) =>
    let exponent := wrapI32 (sciExp + 1 - asI32 digits)
    if exponent ≥ 0 then
      let r := positiveDigitCompLog cap T F bigmant exponent
      (r.1, l ++ r.2)
    else
      let r := negativeDigitCompLog cap T F bigmant fp exponent
      (r.1, l ++ r.2)

theorem slowLog_fst (cap : Option Nat) (T : PowTables) (F : FloatC) (num : Number) (fp : ExtFloat)
    (int frac : List UInt8) : (slowLog cap T F num fp int frac).1 = slow cap T F num fp int frac := by
  unfold slowLog slow
  simp only []
  rw [← parseMantissaLog_fst]
  rcases parseMantissaLog cap T int frac F.maxDigits with ⟨o, l⟩
  cases o with
  | none => rfl
  | some p =>
    obtain ⟨bigmant, digits⟩ := p
    simp only []
    split
    · exact positiveDigitCompLog_fst ..
    · exact negativeDigitCompLog_fst ..

theorem slowLog_good (cap : Option Nat) (T : PowTables) (F : FloatC) (num : Number) (fp : ExtFloat)
    (int frac : List UInt8) : ∀ a ∈ (slowLog cap T F num fp int frac).2, a.Good T F := by
  intro a ha
  have hpm := parseMantissaLog_good cap T F int frac F.maxDigits
  unfold slowLog at ha
  simp only [] at ha
  generalize parseMantissaLog cap T int frac F.maxDigits = pm at ha hpm
  obtain ⟨o, l⟩ := pm
  cases o with
  | none => exact hpm a ha
  | some p =>
    obtain ⟨bigmant, digits⟩ := p
    simp only [] at ha hpm
    split at ha
    · rcases List.mem_append.mp ha with ha | ha
      · exact hpm a ha
      · rw [positiveDigitCompLog_snd] at ha
        exact bigintPowLog_good cap T F _ _ _ a ha
    · rcases List.mem_append.mp ha with ha | ha
      · exact hpm a ha
      · rw [negativeDigitCompLog_snd] at ha
        split at ha
        · exact bigintPowLog_good cap T F _ _ _ a ha
        · simp at ha

theorem slowLog_compact (cap : Option Nat) (T : PowTables) (F : FloatC) (num : Number) (fp : ExtFloat)
    (int frac : List UInt8) (hc : T.compact = true) : (slowLog cap T F num fp int frac).2 = [] := by
  have hpm := parseMantissaLog_compact cap T int frac F.maxDigits hc
  unfold slowLog
  simp only []
  generalize parseMantissaLog cap T int frac F.maxDigits = pm at hpm ⊢
  obtain ⟨o, l⟩ := pm
  simp only at hpm; subst hpm
  cases o with
  | none => rfl
  | some p =>
    obtain ⟨bigmant, digits⟩ := p
    simp only []
    split
    · simp only [List.nil_append, positiveDigitCompLog_snd, bigintPowLog_compact _ _ _ _ _ hc]
    · simp only [List.nil_append, negativeDigitCompLog_snd, bigintPowLog_compact _ _ _ _ _ hc]
      split <;> rfl

-- ================================================================ parse.rs: `parse_float`

/-- THE instrumented parser: `parseFloat` with every unchecked table read logged (in program order) -/
def parseFloatLog (E : Env) (F : FloatC) (int frac : List UInt8) (e : Int) : Outcome × List Access :=
  let num := parseNumber int frac e
  match tryFastPathLog E F num with
  | (some v, l) => (.ok v, l)
  | (none, l) =>
    match moderatePath E F num with
    | none => (.panic, l)
    | some fp =>
      if fp.exp < 0 then
        match slowLog E.cap E.pow F num ⟨fp.mant, wrapI32 (fp.exp - F.invalidFp)⟩ int frac with
        | (none, l2) => (.panic, l ++ l2)
        | (some fp', l2) => (.ok (extendedToFloat F fp'), l ++ l2)
      else (.ok (extendedToFloat F fp), l)

/-- (1) the instrumentation does not change the result — any environment, any bytes -/
theorem parseFloatLog_fst (E : Env) (F : FloatC) (int frac : List UInt8) (e : Int) :
    (parseFloatLog E F int frac e).1 = parseFloat E F int frac e := by
  unfold parseFloatLog parseFloat
  simp only []
  rw [← tryFastPathLog_fst]
  rcases tryFastPathLog E F (parseNumber int frac e) with ⟨o, l⟩
  cases o with
  | some v => rfl
  | none =>
    simp only []
    cases moderatePath E F (parseNumber int frac e) with
    | none => rfl
    | some fp =>
      simp only []
      split
      · rw [← slowLog_fst]
        rcases slowLog E.cap E.pow F (parseNumber int frac e) ⟨fp.mant, wrapI32 (fp.exp - F.invalidFp)⟩
          int frac with ⟨o2, l2⟩
        cases o2 <;> rfl
      · rfl

/-- the log is the fast-path log followed (if the slow path runs) by the slow-path log -/
theorem parseFloatLog_good (E : Env) (F : FloatC) (int frac : List UInt8) (e : Int) :
    ∀ a ∈ (parseFloatLog E F int frac e).2, a.Good E.pow F := by
  intro a ha
  have hfp := tryFastPathLog_good E F (parseNumber int frac e)
  unfold parseFloatLog at ha
  simp only [] at ha
  generalize tryFastPathLog E F (parseNumber int frac e) = tf at ha hfp
  obtain ⟨o, l⟩ := tf
  cases o with
  | some v => exact hfp a ha
  | none =>
    simp only [] at ha hfp
    cases hm : moderatePath E F (parseNumber int frac e) with
    | none => rw [hm] at ha; exact hfp a ha
    | some fp =>
      rw [hm] at ha
      simp only [] at ha
      split at ha
      · have hsl := slowLog_good E.cap E.pow F (parseNumber int frac e)
          ⟨fp.mant, wrapI32 (fp.exp - F.invalidFp)⟩ int frac
        generalize slowLog E.cap E.pow F (parseNumber int frac e) ⟨fp.mant, wrapI32 (fp.exp - F.invalidFp)⟩
          int frac = sl at ha hsl
        obtain ⟨o2, l2⟩ := sl
        cases o2 <;>
        · simp only [] at ha hsl
          rcases List.mem_append.mp ha with ha | ha
          · exact hfp a ha
          · exact hsl a ha
      · exact hfp a ha

/-- compact builds read none of the tables -/
theorem parseFloatLog_compact (E : Env) (F : FloatC) (int frac : List UInt8) (e : Int)
    (hc : E.cfg.compact = true) (hc' : E.pow.compact = true) : (parseFloatLog E F int frac e).2 = [] := by
  have hfp := tryFastPathLog_compact E F (parseNumber int frac e) hc
  unfold parseFloatLog
  simp only []
  generalize tryFastPathLog E F (parseNumber int frac e) = tf at hfp ⊢
  obtain ⟨o, l⟩ := tf
  simp only at hfp; subst hfp
  cases o with
  | some v => rfl
  | none =>
    simp only []
    cases moderatePath E F (parseNumber int frac e) with
    | none => rfl
    | some fp =>
      simp only []
      split
      · have hsl := slowLog_compact E.cap E.pow F (parseNumber int frac e)
          ⟨fp.mant, wrapI32 (fp.exp - F.invalidFp)⟩ int frac hc'
        generalize slowLog E.cap E.pow F (parseNumber int frac e) ⟨fp.mant, wrapI32 (fp.exp - F.invalidFp)⟩
          int frac = sl at hsl ⊢
        obtain ⟨o2, l2⟩ := sl
        simp only at hsl; subst hsl
        cases o2 <;> rfl
      · rfl

-- ================================================================ the result is a bit pattern

/-- the fast path returns the bit pattern of a finite float or of `+∞` -/
theorem tryFastPath_le_inf (F : FloatC) (pw ip : Nat → Nat) (n : Number) (v : Nat)
    (h : tryFastPath F pw ip n = some v) : v ≤ F.fmt.infBits := by
  have hmul : ∀ a b, fmul F a b ≤ F.fmt.infBits := fun a b => rne_le_inf _ _
  have hdiv : ∀ a b, fdiv F a b ≤ F.fmt.infBits := by
    intro a b; unfold fdiv; split
    · exact Nat.le_refl _
    · exact rne_le_inf _ _
  unfold tryFastPath at h
  split at h
  · simp only [] at h
    split at h
    · split at h <;> (simp only [Option.some.injEq] at h; rw [← h]; first | exact hdiv _ _ | exact hmul _ _)
    · split at h
      · simp at h
      · split at h
        · simp at h
        · simp only [Option.some.injEq] at h; rw [← h]; exact hmul _ _
  · simp at h

theorem extendedToFloat_lt (F : FloatC) (x : ExtFloat) : extendedToFloat F x < 2 ^ F.width := by
  unfold extendedToFloat; exact Nat.mod_lt _ (Nat.two_pow_pos _)

/-- (4) any environment, any bytes: `parse_float` returns a bit pattern of the format or panics -/
theorem parseFloat_bits (E : Env) (F : FloatC) (hinf : F.fmt.infBits < 2 ^ F.width)
    (int frac : List UInt8) (e : Int) (bits : Nat) (h : parseFloat E F int frac e = .ok bits) :
    bits < 2 ^ F.width := by
  unfold parseFloat at h
  simp only [] at h
  split at h
  · rename_i v hv
    simp only [Outcome.ok.injEq] at h
    rw [← h]
    exact Nat.lt_of_le_of_lt (tryFastPath_le_inf _ _ _ _ _ hv) hinf
  · split at h
    · simp at h
    · split at h
      · split at h
        · simp at h
        · simp only [Outcome.ok.injEq] at h; rw [← h]; exact extendedToFloat_lt _ _
      · simp only [Outcome.ok.injEq] at h; rw [← h]; exact extendedToFloat_lt _ _

-- ================================================================ completeness of the log
/-! The log is *complete*: the outcome of a run depends on the unchecked tables only through the
    slots recorded in the log of that very run.  (Per-run non-interference; the static version is
    `Sites.parseFloat_congr`.) -/

/-- `T'` agrees with `T` on the table slots recorded in `l` (and on everything that is not an
    unchecked table) -/
structure AgreeLog (T T' : PowTables) (l : List Access) : Prop where
  compact : T.compact = T'.compact
  large : T.largePow5 = T'.largePow5
  step : T.largePow5Step = T'.largePow5Step
  pow10 : ∀ a ∈ l, (a.site = .S3 ∨ a.site = .S5S6) →
    T.smallIntPow10.getD a.index 0 = T'.smallIntPow10.getD a.index 0
  pow5 : ∀ a ∈ l, a.site = .S7 → T.smallIntPow5.getD a.index 0 = T'.smallIntPow5.getD a.index 0

theorem AgreeLog.sub {T T' : PowTables} {l l' : List Access} (h : AgreeLog T T' l) (hs : ∀ a ∈ l', a ∈ l) :
    AgreeLog T T' l' :=
  ⟨h.compact, h.large, h.step, fun a ha => h.pow10 a (hs a ha), fun a ha => h.pow5 a (hs a ha)⟩

theorem AgreeLog.left {T T' : PowTables} {l1 l2 : List Access} (h : AgreeLog T T' (l1 ++ l2)) :
    AgreeLog T T' l1 := h.sub (fun _ ha => List.mem_append_left _ ha)

theorem AgreeLog.right {T T' : PowTables} {l1 l2 : List Access} (h : AgreeLog T T' (l1 ++ l2)) :
    AgreeLog T T' l2 := h.sub (fun _ ha => List.mem_append_right _ ha)

-- ---------------------------------------------------------------- S5 / S6

theorem flushEnd_congrLog (cap : Option Nat) {T T' : PowTables} (hc : T.compact = T'.compact) {s : PM}
    (h : T.compact = false → ∀ k ∈ flushEndSite s, T.smallIntPow10.getD k 0 = T'.smallIntPow10.getD k 0) :
    s.flushEnd cap T = s.flushEnd cap T' := by
  unfold PM.flushEnd
  split
  · rename_i h0
    have : intPow10 T.compact T.smallIntPow10 s.counter = intPow10 T'.compact T'.smallIntPow10 s.counter := by
      unfold intPow10
      rw [← hc]
      split
      · rfl
      · rename_i hnc
        refine h (by simpa using hnc) _ ?_
        unfold flushEndSite; rw [if_pos h0]; exact List.mem_singleton.mpr rfl
    rw [this]
  · rfl

theorem pmLoop_congrLog (cap : Option Nat) {T T' : PowTables} (hc : T.compact = T'.compact) (maxDigits : Nat)
    (ds : List UInt8) (s : PM)
    (h : T.compact = false → ∀ k ∈ (pmLoopI cap T maxDigits ds s).2,
      T.smallIntPow10.getD k 0 = T'.smallIntPow10.getD k 0) :
    pmLoop cap T maxDigits ds s = pmLoop cap T' maxDigits ds s := by
  induction ds generalizing s with
  | nil =>
    unfold pmLoopI at h
    unfold pmLoop
    split
    · rename_i hge; rw [if_pos hge] at h; rw [flushEnd_congrLog cap hc h]
    · rfl
  | cons c rest ih =>
    unfold pmLoopI at h
    unfold pmLoop
    split
    · rename_i hge; rw [if_pos hge] at h; rw [flushEnd_congrLog cap hc h]
    · rename_i hge
      rw [if_neg hge] at h
      simp only [] at h ⊢
      split
      · rename_i h1; rw [if_pos h1] at h; rw [flushEnd_congrLog cap hc h]
      · rename_i h1
        rw [if_neg h1] at h
        split
        · rename_i h2; rw [if_pos h2] at h; exact ih _ h
        · rename_i h2; rw [if_neg h2] at h; exact ih _ h

theorem parseMantissaPM_congrLog (cap : Option Nat) {T T' : PowTables} (hc : T.compact = T'.compact)
    (int frac : List UInt8) (maxDigits : Nat)
    (h : T.compact = false → ∀ k ∈ (parseMantissaPMI cap T int frac maxDigits).2,
      T.smallIntPow10.getD k 0 = T'.smallIntPow10.getD k 0) :
    parseMantissaPM cap T int frac maxDigits = parseMantissaPM cap T' int frac maxDigits := by
  unfold parseMantissaPMI at h
  simp only [] at h
  unfold parseMantissaPM
  simp only []
  have e1 := pmLoopI_fst cap T maxDigits int ⟨0, 0, 0, some [], false⟩
  rcases h1 : pmLoopI cap T maxDigits int ⟨0, 0, 0, some [], false⟩ with ⟨o1, l1⟩
  rw [h1] at h e1
  simp only at e1
  cases o1 with
  | full s rest =>
    simp only [] at h
    have hl1 : T.compact = false → ∀ k ∈ l1, T.smallIntPow10.getD k 0 = T'.smallIntPow10.getD k 0 := by
      intro hnc
      cases hr : s.roundUpNonzero cap rest with
      | some s' => rw [hr] at h; exact h hnc
      | none =>
        rw [hr] at h
        simp only [] at h
        cases hr2 : s.roundUpNonzero cap frac with
        | some s' => rw [hr2] at h; exact h hnc
        | none => rw [hr2] at h; exact h hnc
    rw [← pmLoop_congrLog cap hc maxDigits int _ (by rw [h1]; exact hl1), ← e1]
  | exhausted s =>
    simp only [] at h
    have e2 := pmLoopI_fst cap T maxDigits (if s.count = 0 then pmSkipZeros frac s else (s, frac)).2
      (if s.count = 0 then pmSkipZeros frac s else (s, frac)).1
    rcases h2 : pmLoopI cap T maxDigits (if s.count = 0 then pmSkipZeros frac s else (s, frac)).2
      (if s.count = 0 then pmSkipZeros frac s else (s, frac)).1 with ⟨o2, l2⟩
    rw [h2] at h e2
    simp only at e2
    have hl12 : T.compact = false →
        (∀ k ∈ l1, T.smallIntPow10.getD k 0 = T'.smallIntPow10.getD k 0) ∧
        (∀ k ∈ l2, T.smallIntPow10.getD k 0 = T'.smallIntPow10.getD k 0) ∧
        (∀ s2, o2 = .exhausted s2 → ∀ k ∈ flushEndSite s2,
          T.smallIntPow10.getD k 0 = T'.smallIntPow10.getD k 0) := by
      intro hnc
      cases o2 with
      | full s2 rest =>
        simp only [] at h
        have h' : ∀ k ∈ l1 ++ l2, T.smallIntPow10.getD k 0 = T'.smallIntPow10.getD k 0 := by
          cases hr : s2.roundUpNonzero cap rest with
          | some s' => rw [hr] at h; exact h hnc
          | none => rw [hr] at h; exact h hnc
        exact ⟨fun k hk => h' k (List.mem_append_left _ hk), fun k hk => h' k (List.mem_append_right _ hk),
          fun s2' e => by simp at e⟩
      | exhausted s2 =>
        simp only [] at h
        have h' := h hnc
        refine ⟨fun k hk => h' k ?_, fun k hk => h' k ?_, fun s2' e k hk => h' k ?_⟩
        · exact List.mem_append_left _ (List.mem_append_left _ hk)
        · exact List.mem_append_left _ (List.mem_append_right _ hk)
        · simp only [PMOut.exhausted.injEq] at e; subst e
          exact List.mem_append_right _ hk
    rw [← pmLoop_congrLog cap hc maxDigits int _ (by rw [h1]; exact fun hnc => (hl12 hnc).1), ← e1]
    simp only []
    rw [← pmLoop_congrLog cap hc maxDigits _ _ (by rw [h2]; exact fun hnc => (hl12 hnc).2.1), ← e2]
    cases o2 with
    | full s2 rest => rfl
    | exhausted s2 =>
      simp only []
      exact flushEnd_congrLog cap hc (fun hnc => (hl12 hnc).2.2 s2 rfl)

theorem parseMantissa_congrLog (cap : Option Nat) {T T' : PowTables} (int frac : List UInt8) (maxDigits : Nat)
    (h : AgreeLog T T' (parseMantissaLog cap T int frac maxDigits).2) :
    parseMantissa cap T int frac maxDigits = parseMantissa cap T' int frac maxDigits := by
  unfold parseMantissa
  rw [parseMantissaPM_congrLog cap h.compact int frac maxDigits]
  intro hnc k hk
  refine h.pow10 ⟨.S5S6, k, T.smallIntPow10.length⟩ ?_ (Or.inr rfl)
  unfold parseMantissaLog
  simp only [hnc, Bool.false_eq_true, if_false]
  exact List.mem_map.mpr ⟨k, hk, rfl⟩

-- ---------------------------------------------------------------- S7

theorem pow_congrLog (cap : Option Nat) {T T' : PowTables} (x : Big) (exp : Nat)
    (h : AgreeLog T T' (powLog cap T x exp).2) : pow cap T x exp = pow cap T' x exp := by
  have hL : ∀ fuel x e, powLargeLoop cap T fuel x e = powLargeLoop cap T' fuel x e := by
    intro fuel
    induction fuel with
    | zero => intro x e; rfl
    | succ n ih =>
      intro x e
      unfold powLargeLoop
      rw [← h.large, ← h.step]
      split
      · cases largeMul cap x T.largePow5 with
        | none => rfl
        | some y => exact ih y _
      · rfl
  have h5 := h.pow5
  rw [powLog_snd] at h5
  unfold powSite at h5
  unfold pow
  simp only [] at h5 ⊢
  rw [← h.compact, ← hL]
  cases h1 : (if T.compact = true then some (x, exp) else powLargeLoop cap T (exp + 1) x exp) with
  | none => rfl
  | some p1 =>
    obtain ⟨x1, e1⟩ := p1
    rw [h1] at h5
    simp only [] at h5 ⊢
    cases h2 : powSmallLoop cap (e1 + 1) x1 e1 with
    | none => rfl
    | some p2 =>
      obtain ⟨x2, e2⟩ := p2
      rw [h2] at h5
      simp only [] at h5 ⊢
      split
      · rename_i hne
        rw [if_pos hne] at h5
        have : intPow5 T.compact T.smallIntPow5 e2 = intPow5 T.compact T'.smallIntPow5 e2 := by
          unfold intPow5
          split
          · rfl
          · rename_i hnc
            refine h5 ⟨.S7, e2, T.smallIntPow5.length⟩ ?_ rfl
            simp only [hnc]
            exact List.mem_map.mpr ⟨e2, List.mem_singleton.mpr rfl, rfl⟩
        rw [this]
      · rfl

theorem bigintPow_congrLog (cap : Option Nat) {T T' : PowTables} (x : Big) (base exp : Nat)
    (h : AgreeLog T T' (bigintPowLog cap T x base exp).2) :
    bigintPow cap T x base exp = bigintPow cap T' x base exp := by
  rw [bigintPowLog_snd] at h
  unfold bigintPow
  by_cases h5 : base % 5 = 0
  · rw [if_pos h5] at h
    simp only [if_pos h5]
    rw [pow_congrLog cap x exp h]
  · simp only [if_neg h5]

/-- `Bigint::pow(2, …)` (a pure shift) does not depend on the tables at all -/
theorem bigintPow_two (cap : Option Nat) (T T' : PowTables) (x : Big) (exp : Nat) :
    bigintPow cap T x 2 exp = bigintPow cap T' x 2 exp := by
  unfold bigintPow; rfl

-- ---------------------------------------------------------------- slow.rs

theorem positiveDigitComp_congrLog (cap : Option Nat) {T T' : PowTables} (F : FloatC) (bigmant : Big)
    (exponent : Int) (h : AgreeLog T T' (positiveDigitCompLog cap T F bigmant exponent).2) :
    positiveDigitComp cap T F bigmant exponent = positiveDigitComp cap T' F bigmant exponent := by
  rw [positiveDigitCompLog_snd] at h
  unfold positiveDigitComp
  rw [bigintPow_congrLog cap _ _ _ h]

theorem negativeDigitComp_congrLog (cap : Option Nat) {T T' : PowTables} (F : FloatC) (bigmant : Big)
    (fp : ExtFloat) (exponent : Int) (h : AgreeLog T T' (negativeDigitCompLog cap T F bigmant fp exponent).2) :
    negativeDigitComp cap T F bigmant fp exponent = negativeDigitComp cap T' F bigmant fp exponent := by
  rw [negativeDigitCompLog_snd] at h
  unfold negativeDigitComp
  simp only [bigintPow_two cap T T']
  by_cases h0 : -exponent ≠ 0
  · rw [if_pos h0] at h
    simp only [if_pos h0]
    rw [bigintPow_congrLog cap _ _ _ h]
  · simp only [if_neg h0]

theorem slow_congrLog (cap : Option Nat) {T T' : PowTables} (F : FloatC) (num : Number) (fp : ExtFloat)
    (int frac : List UInt8) (h : AgreeLog T T' (slowLog cap T F num fp int frac).2) :
    slow cap T F num fp int frac = slow cap T' F num fp int frac := by
  have e1 := parseMantissaLog_fst cap T int frac F.maxDigits
  have hpm : AgreeLog T T' (parseMantissaLog cap T int frac F.maxDigits).2 := by
    refine h.sub (fun a ha => ?_)
    unfold slowLog
    simp only []
    generalize parseMantissaLog cap T int frac F.maxDigits = pm at ha ⊢
    obtain ⟨o, l⟩ := pm
    cases o with
    | none => exact ha
    | some p =>
      obtain ⟨bigmant, digits⟩ := p
      simp only []
      split <;> exact List.mem_append_left _ ha
  have e2 := parseMantissa_congrLog cap int frac F.maxDigits hpm
  unfold slowLog at h
  unfold slow
  simp only [] at h ⊢
  rw [← e2, ← e1]
  generalize parseMantissaLog cap T int frac F.maxDigits = pm at h ⊢
  obtain ⟨o, l⟩ := pm
  cases o with
  | none => rfl
  | some p =>
    obtain ⟨bigmant, digits⟩ := p
    simp only [] at h ⊢
    split
    · rename_i hge
      rw [if_pos hge] at h
      exact positiveDigitComp_congrLog cap F bigmant _ h.right
    · rename_i hge
      rw [if_neg hge] at h
      exact negativeDigitComp_congrLog cap F bigmant fp _ h.right

-- ---------------------------------------------------------------- number.rs / parse.rs

/-- agreement of the `pow_fast_path` values at the logged S1 / S2 / S4 reads -/
def AgreePw (E E' : Env) (F : FloatC) (l : List Access) : Prop :=
  ∀ a ∈ l, (a.site = .S1 ∨ a.site = .S2 ∨ a.site = .S4) → E.powFastPath F a.index = E'.powFastPath F a.index

theorem tryFastPath_congrLog (E E' : Env) (F : FloatC) (n : Number) (hcfg : E.cfg = E'.cfg)
    (hnc : E.cfg.compact = false)
    (h10 : ∀ a ∈ (tryFastPathLog E F n).2, a.site = .S3 →
      E.pow.smallIntPow10.getD a.index 0 = E'.pow.smallIntPow10.getD a.index 0)
    (hpw : AgreePw E E' F (tryFastPathLog E F n).2) :
    tryFastPath F (E.powFastPath F) (intPow10 E.cfg.compact E.pow.smallIntPow10) n =
      tryFastPath F (E'.powFastPath F) (intPow10 E'.cfg.compact E'.pow.smallIntPow10) n := by
  unfold AgreePw at hpw
  unfold tryFastPathLog intPow10Log powFastPathLog readTbl at h10 hpw
  unfold tryFastPath intPow10
  rw [← hcfg]
  simp only [hnc, Bool.false_eq_true, if_false] at h10 hpw ⊢
  by_cases h1 : isFastPath F n = true
  · simp only [h1, if_true] at h10 hpw ⊢
    by_cases h2 : n.exponent ≤ F.maxExponentFastPath
    · simp only [h2, if_true] at h10 hpw ⊢
      by_cases h3 : n.exponent < 0
      · simp only [h3, if_true] at hpw ⊢
        rw [hpw ⟨.S1, _, _⟩ (List.mem_singleton.mpr rfl) (Or.inl rfl)]
      · simp only [h3, if_false] at hpw ⊢
        rw [hpw ⟨.S2, _, _⟩ (List.mem_singleton.mpr rfl) (Or.inr (Or.inl rfl))]
    · simp only [h2, if_false] at h10 hpw ⊢
      have e3 : E.pow.smallIntPow10.getD (n.exponent - F.maxExponentFastPath).toNat 0 =
          E'.pow.smallIntPow10.getD (n.exponent - F.maxExponentFastPath).toNat 0 := by
        refine h10 ⟨.S3, _, E.pow.smallIntPow10.length⟩ ?_ rfl
        split
        · exact List.mem_singleton.mpr rfl
        · split
          · exact List.mem_singleton.mpr rfl
          · exact List.mem_append_left _ (List.mem_singleton.mpr rfl)
      rw [← e3]
      split
      · rfl
      · rename_i hA
        split
        · rfl
        · rename_i hB
          rw [if_neg hA, if_neg hB] at hpw
          rw [hpw ⟨.S4, _, _⟩ (List.mem_append_right _ (List.mem_singleton.mpr rfl)) (Or.inr (Or.inr rfl))]
  · simp only [h1]; rfl

/-- **completeness of the log**: in a non-compact configuration the outcome of `parse_float` on
    ARBITRARY bytes is the same in any environment `E'` that agrees with `E` on the table slots recorded
    in the log of THIS run (and on the checked data) — whatever `E'` holds in every other slot.
    So the log misses no read the result depends on. -/
theorem parseFloat_congrLog (E E' : Env) (F : FloatC) (int frac : List UInt8) (e : Int)
    (hcfg : E.cfg = E'.cfg) (hlem : E.lem = E'.lem) (hbel : E.bel = E'.bel) (hnc : E.cfg.compact = false)
    (hT : AgreeLog E.pow E'.pow (parseFloatLog E F int frac e).2)
    (hpw : AgreePw E E' F (parseFloatLog E F int frac e).2) :
    parseFloat E F int frac e = parseFloat E' F int frac e := by
  have hmod : ∀ n, moderatePath E F n = moderatePath E' F n := by
    intro n; unfold moderatePath; rw [hcfg, hlem, hbel]
  have hcap : E.cap = E'.cap := by unfold Env.cap; rw [hcfg]
  have e1 := tryFastPathLog_fst E F (parseNumber int frac e)
  -- the fast-path log is a prefix of the whole log
  have hsub : ∀ a ∈ (tryFastPathLog E F (parseNumber int frac e)).2, a ∈ (parseFloatLog E F int frac e).2 := by
    intro a ha
    unfold parseFloatLog
    simp only []
    generalize tryFastPathLog E F (parseNumber int frac e) = tf at ha ⊢
    obtain ⟨o, l⟩ := tf
    cases o with
    | some v => exact ha
    | none =>
      simp only []
      cases moderatePath E F (parseNumber int frac e) with
      | none => exact ha
      | some fp =>
        simp only []
        split
        · generalize slowLog E.cap E.pow F (parseNumber int frac e) ⟨fp.mant, wrapI32 (fp.exp - F.invalidFp)⟩
            int frac = sl
          obtain ⟨o2, l2⟩ := sl
          cases o2 <;> exact List.mem_append_left _ ha
        · exact ha
  have efast := tryFastPath_congrLog E E' F (parseNumber int frac e) hcfg hnc
    (fun a ha hs => hT.pow10 a (hsub a ha) (Or.inl hs)) (fun a ha hs => hpw a (hsub a ha) hs)
  unfold parseFloatLog at hT
  unfold parseFloat
  simp only [] at hT ⊢
  rw [← efast, ← e1, ← hmod, ← hcap]
  generalize tryFastPathLog E F (parseNumber int frac e) = tf at hT ⊢
  obtain ⟨o, l⟩ := tf
  cases o with
  | some v => rfl
  | none =>
    simp only [] at hT ⊢
    cases hm : moderatePath E F (parseNumber int frac e) with
    | none => rfl
    | some fp =>
      rw [hm] at hT
      simp only [] at hT ⊢
      split
      · rename_i hneg
        rw [if_pos hneg] at hT
        have hsl : AgreeLog E.pow E'.pow (slowLog E.cap E.pow F (parseNumber int frac e)
            ⟨fp.mant, wrapI32 (fp.exp - F.invalidFp)⟩ int frac).2 := by
          generalize slowLog E.cap E.pow F (parseNumber int frac e) ⟨fp.mant, wrapI32 (fp.exp - F.invalidFp)⟩
            int frac = sl at hT ⊢
          obtain ⟨o2, l2⟩ := sl
          cases o2 <;> exact hT.right
        rw [slow_congrLog E.cap F _ _ int frac hsl]
      · rfl


-- ---------------------------------------------------------------- a scrubbed environment

/-- `tbl` with every slot NOT selected by `keep` replaced by `junk` -/
@[irreducible] def scrub (keep : Nat → Bool) (junk : Nat) (tbl : List Nat) : List Nat :=
  tbl.mapIdx (fun i v => if keep i then v else junk)

theorem scrub_getD_keep (keep : Nat → Bool) (junk : Nat) (tbl : List Nat) (k : Nat) (h : keep k = true) :
    (scrub keep junk tbl).getD k 0 = tbl.getD k 0 := by
  unfold scrub
  rw [List.getD_eq_getElem?_getD, List.getD_eq_getElem?_getD, List.getElem?_mapIdx]
  cases tbl[k]? with
  | none => rfl
  | some v => simp [h]

theorem scrub_length (keep : Nat → Bool) (junk : Nat) (tbl : List Nat) : (scrub keep junk tbl).length = tbl.length := by
  unfold scrub; exact List.length_mapIdx

/-- slot `k` of the table read by sites `sites` occurs in the log -/
def logged (l : List Access) (sites : List SiteId) (k : Nat) : Bool :=
  l.any (fun a => decide (a.site ∈ sites) && decide (a.index = k))

theorem logged_of_mem {l : List Access} {sites : List SiteId} {a : Access} (ha : a ∈ l) (hs : a.site ∈ sites) :
    logged l sites a.index = true := by
  unfold logged
  exact List.any_eq_true.mpr ⟨a, ha, by simp [hs]⟩

/-- the generated environment with EVERY table slot that is not in the log `l` overwritten by junk -/
def scrubEnv (cfg : Cfg) (l : List Access) : Env :=
  ⟨cfg, genLemire, genBel,
   ⟨cfg.compact, scrub (logged l [.S7]) 31337 Gen.smallIntPow5,
     scrub (logged l [.S3, .S5S6]) 777 Gen.smallIntPow10, Gen.largePow5, Gen.largePow5Step⟩,
   fun F k => if logged l [.S1, .S2, .S4] k then genPowFastPath cfg F k else 424242⟩

theorem scrubEnv_pow10 (cfg : Cfg) (l : List Access) :
    (scrubEnv cfg l).pow.smallIntPow10 = scrub (logged l [.S3, .S5S6]) 777 Gen.smallIntPow10 := rfl
theorem scrubEnv_pow5 (cfg : Cfg) (l : List Access) :
    (scrubEnv cfg l).pow.smallIntPow5 = scrub (logged l [.S7]) 31337 Gen.smallIntPow5 := rfl
theorem genEnv_pow10 (cfg : Cfg) : (genEnv cfg).pow.smallIntPow10 = Gen.smallIntPow10 := rfl
theorem genEnv_pow5 (cfg : Cfg) : (genEnv cfg).pow.smallIntPow5 = Gen.smallIntPow5 := rfl

theorem scrubEnv_agreeLog (cfg : Cfg) (l : List Access) : AgreeLog (genEnv cfg).pow (scrubEnv cfg l).pow l := by
  refine ⟨rfl, rfl, rfl, fun a ha hs => ?_, fun a ha hs => ?_⟩
  · rw [scrubEnv_pow10, genEnv_pow10]
    have hm : a.site ∈ [SiteId.S3, SiteId.S5S6] := by rcases hs with hs | hs <;> simp [hs]
    exact (scrub_getD_keep (logged l [.S3, .S5S6]) 777 Gen.smallIntPow10 a.index (logged_of_mem ha hm)).symm
  · rw [scrubEnv_pow5, genEnv_pow5]
    have hm : a.site ∈ [SiteId.S7] := by simp [hs]
    exact (scrub_getD_keep (logged l [.S7]) 31337 Gen.smallIntPow5 a.index (logged_of_mem ha hm)).symm

theorem scrubEnv_agreePw (cfg : Cfg) (F : FloatC) (l : List Access) : AgreePw (genEnv cfg) (scrubEnv cfg l) F l := by
  intro a ha hs
  show genPowFastPath cfg F a.index = if logged l [.S1, .S2, .S4] a.index then _ else _
  rw [if_pos (logged_of_mem ha (by rcases hs with hs | hs | hs <;> simp [hs]))]

end SitesAll
end MinLex
