/-
  Capacity monotonicity of the big-integer model (`Model/Bigint.lean`, `Model/Slow.lean`):
  the capacity `cap` only ever turns a `some` into a `none`.  Every fallible operation has the
  shape `if capOk cap n then some (f args) else none` with `f` independent of `cap`, so

      op cap args = some r  →  op none args = some r            (`…_cap_mono`)

  for every operation, up to `slow`.  No hypothesis on the limbs, digits or tables: the lemmas hold
  for ARBITRARY arguments.  Used by C15 (`Props/C15.lean`): whatever the 62-limb stack vector
  computes, the heap vector computes the same value — and, since the stack computation never needed
  more than 62 limbs, the heap vector (reserved with `Vec::with_capacity(62)`) never re-allocates.
-/
import MinLex.Model.Slow
import MinLex.Proofs.Sites
namespace MinLex
namespace CapMono

/-- `if c then a else b` is monotone in both branches -/
theorem ite_mono {α : Type} {c : Prop} [Decidable c] {a b a' b' : Option α} {r : α}
    (h : (if c then a else b) = some r) (ha : a = some r → a' = some r) (hb : b = some r → b' = some r) :
    (if c then a' else b') = some r := by
  by_cases hc : c
  · rw [if_pos hc] at h ⊢; exact ha h
  · rw [if_neg hc] at h ⊢; exact hb h

-- ---------------------------------------------------------------- vector primitives
theorem vecTryPush_cap_mono {cap : Option Nat} {x r : Big} {v : Nat} (h : vecTryPush cap x v = some r) :
    vecTryPush none x v = some r := by
  unfold vecTryPush at h ⊢
  split at h
  · simpa [capOk] using h
  · simp at h

theorem vecTryExtend_cap_mono {cap : Option Nat} {x s r : Big} (h : vecTryExtend cap x s = some r) :
    vecTryExtend none x s = some r := by
  unfold vecTryExtend at h ⊢
  split at h
  · simpa [capOk] using h
  · simp at h

theorem vecTryFrom_cap_mono {cap : Option Nat} {s r : Big} (h : vecTryFrom cap s = some r) :
    vecTryFrom none s = some r := vecTryExtend_cap_mono h

theorem vecTryResize_cap_mono {cap : Option Nat} {x r : Big} {len v : Nat}
    (h : vecTryResize cap x len v = some r) : vecTryResize none x len v = some r := by
  unfold vecTryResize at h ⊢
  split at h
  · simpa [capOk] using h
  · simp at h

-- ---------------------------------------------------------------- small
theorem smallAddFrom_cap_mono {cap : Option Nat} {x r : Big} {y start : Nat}
    (h : smallAddFrom cap x y start = some r) : smallAddFrom none x y start = some r := by
  unfold smallAddFrom at h ⊢
  simp only [] at h ⊢
  exact ite_mono h vecTryPush_cap_mono id

theorem smallAdd_cap_mono {cap : Option Nat} {x r : Big} {y : Nat} (h : smallAdd cap x y = some r) :
    smallAdd none x y = some r := smallAddFrom_cap_mono h

theorem smallMul_cap_mono {cap : Option Nat} {x r : Big} {y : Nat} (h : smallMul cap x y = some r) :
    smallMul none x y = some r := by
  unfold smallMul at h ⊢
  simp only [] at h ⊢
  exact ite_mono h vecTryPush_cap_mono id

-- ---------------------------------------------------------------- large
theorem largeAddFrom_cap_mono {cap : Option Nat} {x y r : Big} {start : Nat}
    (h : largeAddFrom cap x y start = some r) : largeAddFrom none x y start = some r := by
  unfold largeAddFrom at h ⊢
  simp only [] at h ⊢
  split at h
  · simp at h
  · rename_i x1 hx1
    have hx1' : (if y.length > x.length - start then vecTryResize none x (y.length + start) 0 else some x)
        = some x1 := ite_mono hx1 vecTryResize_cap_mono id
    rw [hx1']
    simp only []
    exact ite_mono h smallAddFrom_cap_mono id

theorem largeAdd_cap_mono {cap : Option Nat} {x y r : Big} (h : largeAdd cap x y = some r) :
    largeAdd none x y = some r := largeAddFrom_cap_mono h

theorem longMulLoop_cap_mono {cap : Option Nat} {x : Big} : ∀ (ys : List Nat) (i : Nat) (z r : Big),
    longMulLoop cap x ys i z = some r → longMulLoop none x ys i z = some r := by
  intro ys
  induction ys with
  | nil => intro i z r h; unfold longMulLoop at h ⊢; exact h
  | cons yi ys ih =>
    intro i z r h
    unfold longMulLoop at h ⊢
    by_cases hy : yi ≠ 0
    · rw [if_pos hy] at h ⊢
      cases h1 : vecTryFrom cap x with
      | none => rw [h1] at h; simp at h
      | some zi0 =>
        rw [h1] at h; simp only [] at h
        rw [vecTryFrom_cap_mono h1]; simp only []
        cases h2 : smallMul cap zi0 yi with
        | none => rw [h2] at h; simp at h
        | some zi =>
          rw [h2] at h; simp only [] at h
          rw [smallMul_cap_mono h2]; simp only []
          cases h3 : largeAddFrom cap z zi i with
          | none => rw [h3] at h; simp at h
          | some z' =>
            rw [h3] at h; simp only [] at h
            rw [largeAddFrom_cap_mono h3]; simp only []
            exact ih _ _ _ h
    · rw [if_neg hy] at h ⊢
      exact ih _ _ _ h

theorem longMul_cap_mono {cap : Option Nat} {x y r : Big} (h : longMul cap x y = some r) :
    longMul none x y = some r := by
  unfold longMul at h ⊢
  cases h1 : vecTryFrom cap x with
  | none => rw [h1] at h; simp at h
  | some z0 =>
    rw [h1] at h; simp only [] at h
    rw [vecTryFrom_cap_mono h1]; simp only []
    cases y with
    | nil => exact h
    | cons y0 ys =>
      simp only [] at h ⊢
      cases h2 : smallMul cap z0 y0 with
      | none => rw [h2] at h; simp at h
      | some z1 =>
        rw [h2] at h; simp only [] at h
        rw [smallMul_cap_mono h2]; simp only []
        cases h3 : longMulLoop cap x ys 1 z1 with
        | none => rw [h3] at h; simp at h
        | some z =>
          rw [h3] at h; simp only [] at h
          rw [longMulLoop_cap_mono _ _ _ _ h3]; simp only []
          exact h

theorem largeMul_cap_mono {cap : Option Nat} {x y r : Big} (h : largeMul cap x y = some r) :
    largeMul none x y = some r := by
  unfold largeMul at h ⊢
  split at h
  · exact smallMul_cap_mono h
  · exact longMul_cap_mono h

-- ---------------------------------------------------------------- shifts
theorem shlBits_cap_mono {cap : Option Nat} {x r : Big} {n : Nat} (h : shlBits cap x n = some r) :
    shlBits none x n = some r := by
  unfold shlBits at h ⊢
  simp only [] at h ⊢
  exact ite_mono h vecTryPush_cap_mono id

theorem shlLimbs_cap_mono {cap : Option Nat} {x r : Big} {n : Nat} (h : shlLimbs cap x n = some r) :
    shlLimbs none x n = some r := by
  unfold shlLimbs at h ⊢
  split at h
  · simp at h
  · simpa [capOk] using h

theorem shl_cap_mono {cap : Option Nat} {x r : Big} {n : Nat} (h : shl cap x n = some r) :
    shl none x n = some r := by
  unfold shl at h ⊢
  simp only [] at h ⊢
  split at h
  · simp at h
  · rename_i x1 h1
    have h1' : (if n % 64 ≠ 0 then shlBits none x (n % 64) else some x) = some x1 :=
      ite_mono h1 shlBits_cap_mono id
    rw [h1']
    simp only []
    exact ite_mono h shlLimbs_cap_mono id

-- ---------------------------------------------------------------- powers
theorem powLargeLoop_cap_mono {cap : Option Nat} {T : PowTables} : ∀ (fuel : Nat) (x : Big) (e : Nat)
    (p : Big × Nat), powLargeLoop cap T fuel x e = some p → powLargeLoop none T fuel x e = some p := by
  intro fuel
  induction fuel with
  | zero => intro x e p h; unfold powLargeLoop at h ⊢; exact h
  | succ n ih =>
    intro x e p h
    unfold powLargeLoop at h ⊢
    by_cases hc : T.largePow5Step ≠ 0 ∧ e ≥ T.largePow5Step
    · rw [if_pos hc] at h ⊢
      cases hm : largeMul cap x T.largePow5 with
      | none => rw [hm] at h; simp at h
      | some y =>
        rw [hm] at h; simp only [] at h
        rw [largeMul_cap_mono hm]; simp only []
        exact ih _ _ _ h
    · rw [if_neg hc] at h ⊢; exact h

theorem powSmallLoop_cap_mono {cap : Option Nat} : ∀ (fuel : Nat) (x : Big) (e : Nat)
    (p : Big × Nat), powSmallLoop cap fuel x e = some p → powSmallLoop none fuel x e = some p := by
  intro fuel
  induction fuel with
  | zero => intro x e p h; unfold powSmallLoop at h ⊢; exact h
  | succ n ih =>
    intro x e p h
    unfold powSmallLoop at h ⊢
    by_cases hc : e ≥ 27
    · rw [if_pos hc] at h ⊢
      cases hm : smallMul cap x (5 ^ 27) with
      | none => rw [hm] at h; simp at h
      | some y =>
        rw [hm] at h; simp only [] at h
        rw [smallMul_cap_mono hm]; simp only []
        exact ih _ _ _ h
    · rw [if_neg hc] at h ⊢; exact h

theorem pow_cap_mono {cap : Option Nat} {T : PowTables} {x r : Big} {exp : Nat}
    (h : pow cap T x exp = some r) : pow none T x exp = some r := by
  unfold pow at h ⊢
  simp only [] at h ⊢
  split at h
  · simp at h
  · rename_i x1 e1 h1
    have h1' : (if T.compact then some (x, exp) else powLargeLoop none T (exp + 1) x exp) = some (x1, e1) := by
      cases hc : T.compact with
      | true => rw [hc] at h1; simpa using h1
      | false =>
        rw [hc] at h1
        simp only [Bool.false_eq_true, if_false] at h1 ⊢
        exact powLargeLoop_cap_mono _ _ _ _ h1
    rw [h1']
    simp only []
    split at h
    · simp at h
    · rename_i x2 e2 h2
      rw [powSmallLoop_cap_mono _ _ _ _ h2]
      simp only []
      exact ite_mono h smallMul_cap_mono id

theorem bigintPow_cap_mono {cap : Option Nat} {T : PowTables} {x r : Big} {base exp : Nat}
    (h : bigintPow cap T x base exp = some r) : bigintPow none T x base exp = some r := by
  unfold bigintPow at h ⊢
  split at h
  · simp at h
  · rename_i x1 h1
    have h1' : (if base % 5 = 0 then pow none T x exp else some x) = some x1 :=
      ite_mono h1 pow_cap_mono id
    rw [h1']
    simp only []
    exact ite_mono h shl_cap_mono id

-- ---------------------------------------------------------------- parse_mantissa
/-- two `parse_mantissa` states that agree on everything that steers control flow, the second one
    holding every big integer the first one holds -/
structure PMLe (s s' : PM) : Prop where
  counter : s.counter = s'.counter
  count : s.count = s'.count
  value : s.value = s'.value
  trap : s.trap = s'.trap
  result : ∀ r, s.result = some r → s'.result = some r

theorem PMLe.rfl' (s : PM) : PMLe s s := ⟨rfl, rfl, rfl, rfl, fun _ h => h⟩

theorem pmMulAdd_cap_mono {cap : Option Nat} {r r' : Option Big} {power value : Nat} {z : Big}
    (hr : ∀ x, r = some x → r' = some x) (h : pmMulAdd cap r power value = some z) :
    pmMulAdd none r' power value = some z := by
  unfold pmMulAdd at h ⊢
  cases r with
  | none => simp at h
  | some x =>
    rw [hr x rfl]
    simp only [] at h ⊢
    cases h1 : smallMul cap x power with
    | none => rw [h1] at h; simp at h
    | some y =>
      rw [h1] at h; simp only [] at h
      rw [smallMul_cap_mono h1]; simp only []
      exact smallAdd_cap_mono h

theorem addDigit_le {s s' : PM} (c : UInt8) (h : PMLe s s') : PMLe (s.addDigit c) (s'.addDigit c) := by
  unfold PM.addDigit
  refine ⟨?_, ?_, ?_, ?_, ?_⟩
  · simp only []; rw [h.counter]
  · simp only []; rw [h.count]
  · simp only []; rw [h.value]
  · simp only []; rw [h.trap, h.value]
  · exact h.result

theorem flushMax_le {cap : Option Nat} {s s' : PM} (h : PMLe s s') :
    PMLe (s.flushMax cap) (s'.flushMax none) := by
  unfold PM.flushMax
  refine ⟨rfl, h.count, rfl, h.trap, ?_⟩
  intro r hr
  simp only [] at hr ⊢
  rw [← h.value]
  exact pmMulAdd_cap_mono h.result hr

theorem flushEnd_le {cap : Option Nat} (T : PowTables) {s s' : PM} (h : PMLe s s') :
    PMLe (s.flushEnd cap T) (s'.flushEnd none T) := by
  unfold PM.flushEnd
  rw [← h.counter]
  by_cases hc : s.counter ≠ 0
  · rw [if_pos hc, if_pos hc]
    refine ⟨rfl, h.count, h.value, h.trap, ?_⟩
    intro r hr
    simp only [] at hr ⊢
    rw [← h.value]
    exact pmMulAdd_cap_mono h.result hr
  · rw [if_neg hc, if_neg hc]; exact h

/-- `round_up_nonzero!`: the decision depends on the bytes only; the new states are related -/
theorem roundUpNonzero_le {cap : Option Nat} {s s' : PM} (rest : List UInt8) (h : PMLe s s') :
    (s.roundUpNonzero cap rest = none ∧ s'.roundUpNonzero none rest = none) ∨
    ∃ t t', s.roundUpNonzero cap rest = some t ∧ s'.roundUpNonzero none rest = some t' ∧ PMLe t t' := by
  unfold PM.roundUpNonzero
  by_cases hc : rest.any (· != 48) = true
  · rw [if_pos hc, if_pos hc]
    refine Or.inr ⟨_, _, rfl, rfl, ⟨h.counter, ?_, h.value, h.trap, ?_⟩⟩
    · simp only []; rw [h.count]
    · intro r hr
      simp only [] at hr ⊢
      exact pmMulAdd_cap_mono h.result hr
  · rw [if_neg hc, if_neg hc]; exact Or.inl ⟨rfl, rfl⟩

/-- related outcomes of one labelled loop -/
inductive PMOutLe : PMOut → PMOut → Prop
  | exhausted {s s' : PM} : PMLe s s' → PMOutLe (.exhausted s) (.exhausted s')
  | full {s s' : PM} (rest : List UInt8) : PMLe s s' → PMOutLe (.full s rest) (.full s' rest)

theorem pmLoop_le (cap : Option Nat) (T : PowTables) (maxDigits : Nat) (ds : List UInt8) (s s' : PM)
    (h : PMLe s s') : PMOutLe (pmLoop cap T maxDigits ds s) (pmLoop none T maxDigits ds s') := by
  induction ds generalizing s s' with
  | nil =>
    unfold pmLoop
    rw [← h.count]
    by_cases hc : s.count ≥ maxDigits
    · rw [if_pos hc, if_pos hc]; exact .full _ (flushEnd_le T h)
    · rw [if_neg hc, if_neg hc]; exact .exhausted h
  | cons c rest ih =>
    unfold pmLoop
    rw [← h.count]
    by_cases hc : s.count ≥ maxDigits
    · rw [if_pos hc, if_pos hc]; exact .full _ (flushEnd_le T h)
    · rw [if_neg hc, if_neg hc]
      simp only []
      have h1 := addDigit_le c h
      rw [← h1.count, ← h1.counter]
      by_cases hc1 : (s.addDigit c).count ≥ maxDigits
      · rw [if_pos hc1, if_pos hc1]; exact .full _ (flushEnd_le T h1)
      · rw [if_neg hc1, if_neg hc1]
        by_cases hc2 : (s.addDigit c).counter ≥ pmStep
        · rw [if_pos hc2, if_pos hc2]; exact ih _ _ (flushMax_le h1)
        · rw [if_neg hc2, if_neg hc2]; exact ih _ _ h1

theorem pmSkipZeros_le (frac : List UInt8) (s s' : PM) (h : PMLe s s') :
    PMLe (pmSkipZeros frac s).1 (pmSkipZeros frac s').1 ∧ (pmSkipZeros frac s).2 = (pmSkipZeros frac s').2 := by
  induction frac with
  | nil => unfold pmSkipZeros; exact ⟨h, rfl⟩
  | cons c rest ih =>
    unfold pmSkipZeros
    by_cases hc : (c != 48) = true
    · rw [if_pos hc, if_pos hc]; exact ⟨addDigit_le c h, rfl⟩
    · rw [if_neg hc, if_neg hc]; exact ih

/-- `parse_mantissa`: the heap run holds every big integer the bounded run holds, with the same
    digit count and trap flag -/
theorem parseMantissaPM_le (cap : Option Nat) (T : PowTables) (int frac : List UInt8) (maxDigits : Nat) :
    PMLe (parseMantissaPM cap T int frac maxDigits) (parseMantissaPM none T int frac maxDigits) := by
  have H1 := pmLoop_le cap T maxDigits int _ _ (PMLe.rfl' ⟨0, 0, 0, some [], false⟩)
  unfold parseMantissaPM
  simp only []
  generalize pmLoop cap T maxDigits int ⟨0, 0, 0, some [], false⟩ = o1 at H1
  generalize pmLoop none T maxDigits int ⟨0, 0, 0, some [], false⟩ = o1' at H1
  cases H1 with
  | full rest hs =>
    rename_i s s'
    simp only []
    rcases roundUpNonzero_le (cap := cap) rest hs with ⟨e1, e2⟩ | ⟨t, t', e1, e2, ht⟩
    · rw [e1, e2]; simp only []
      rcases roundUpNonzero_le (cap := cap) frac hs with ⟨e3, e4⟩ | ⟨t, t', e3, e4, ht⟩
      · rw [e3, e4]; exact hs
      · rw [e3, e4]; exact ht
    · rw [e1, e2]; exact ht
  | exhausted hs =>
    rename_i s s'
    simp only []
    have hs1 : PMLe (if s.count = 0 then pmSkipZeros frac s else (s, frac)).1
        (if s'.count = 0 then pmSkipZeros frac s' else (s', frac)).1 ∧
        (if s.count = 0 then pmSkipZeros frac s else (s, frac)).2 =
        (if s'.count = 0 then pmSkipZeros frac s' else (s', frac)).2 := by
      rw [← hs.count]
      by_cases hc : s.count = 0
      · rw [if_pos hc, if_pos hc]; exact pmSkipZeros_le frac s s' hs
      · rw [if_neg hc, if_neg hc]; exact ⟨hs, rfl⟩
    have H2 := pmLoop_le cap T maxDigits (if s.count = 0 then pmSkipZeros frac s else (s, frac)).2 _ _ hs1.1
    rw [← hs1.2]
    generalize pmLoop cap T maxDigits (if s.count = 0 then pmSkipZeros frac s else (s, frac)).2
      (if s.count = 0 then pmSkipZeros frac s else (s, frac)).1 = o2 at H2 ⊢
    generalize pmLoop none T maxDigits (if s.count = 0 then pmSkipZeros frac s else (s, frac)).2
      (if s'.count = 0 then pmSkipZeros frac s' else (s', frac)).1 = o2' at H2 ⊢
    cases H2 with
    | full rest hs2 =>
      rename_i s2 s2'
      simp only []
      rcases roundUpNonzero_le (cap := cap) rest hs2 with ⟨e1, e2⟩ | ⟨t, t', e1, e2, ht⟩
      · rw [e1, e2]; exact hs2
      · rw [e1, e2]; exact ht
    | exhausted hs2 => exact flushEnd_le T hs2

theorem parseMantissa_cap_mono {cap : Option Nat} {T : PowTables} {int frac : List UInt8} {maxDigits : Nat}
    {p : Big × Nat} (h : parseMantissa cap T int frac maxDigits = some p) :
    parseMantissa none T int frac maxDigits = some p := by
  have hle := parseMantissaPM_le cap T int frac maxDigits
  unfold parseMantissa at h ⊢
  simp only [] at h ⊢
  split at h
  · simp at h
  · rename_i r hr
    rw [hle.result r hr, ← hle.count]
    exact h

-- ---------------------------------------------------------------- slow.rs
theorem positiveDigitComp_cap_mono {cap : Option Nat} {T : PowTables} {F : FloatC} {bigmant : Big}
    {exponent : Int} {r : ExtFloat} (h : positiveDigitComp cap T F bigmant exponent = some r) :
    positiveDigitComp none T F bigmant exponent = some r := by
  unfold positiveDigitComp at h ⊢
  split at h
  · simp at h
  · rename_i bm hbm
    rw [bigintPow_cap_mono hbm]
    exact h

theorem negativeDigitComp_cap_mono {cap : Option Nat} {T : PowTables} {F : FloatC} {bigmant : Big}
    {fp : ExtFloat} {exponent : Int} {r : ExtFloat}
    (h : negativeDigitComp cap T F bigmant fp exponent = some r) :
    negativeDigitComp none T F bigmant fp exponent = some r := by
  unfold negativeDigitComp at h ⊢
  simp only [] at h ⊢
  split at h
  · simp at h
  · rename_i theor1 h1
    rw [ite_mono h1 bigintPow_cap_mono id]
    simp only []
    generalize (fbh F (extendedToFloat F (round F roundDown fp))).exp - exponent = be at h ⊢
    by_cases hb1 : be > 0
    · rw [if_pos hb1] at h ⊢
      cases ht : bigintPow cap T theor1 2 (be % 4294967296).toNat with
      | none => rw [ht] at h; simp at h
      | some t => rw [ht] at h; rw [bigintPow_cap_mono ht]; exact h
    · rw [if_neg hb1] at h ⊢
      by_cases hb2 : be < 0
      · rw [if_pos hb2] at h ⊢
        cases ht : bigintPow cap T bigmant 2 ((-be) % 4294967296).toNat with
        | none => rw [ht] at h; simp at h
        | some t => rw [ht] at h; rw [bigintPow_cap_mono ht]; exact h
      · rw [if_neg hb2] at h ⊢
        exact h

/-- **capacity monotonicity of the slow path**: whatever a bounded back-end computes, the heap
    back-end computes as well — for ARBITRARY bytes, numbers, estimates and tables -/
theorem slow_cap_mono {cap : Option Nat} {T : PowTables} {F : FloatC} {num : Number} {fp : ExtFloat}
    {int frac : List UInt8} {r : ExtFloat} (h : slow cap T F num fp int frac = some r) :
    slow none T F num fp int frac = some r := by
  unfold slow at h ⊢
  simp only [] at h ⊢
  split at h
  · simp at h
  · rename_i bigmant digits hpm
    rw [parseMantissa_cap_mono hpm]
    simp only []
    exact ite_mono h positiveDigitComp_cap_mono negativeDigitComp_cap_mono

-- ---------------------------------------------------------------- the instrumented slow path
open Sites in
theorem positiveDigitCompI_cap_mono {cap : Option Nat} {T : PowTables} {F : FloatC} {bigmant : Big}
    {exponent : Int} {p : ExtFloat × List Big} (h : positiveDigitCompI cap T F bigmant exponent = some p) :
    positiveDigitCompI none T F bigmant exponent = some p := by
  unfold positiveDigitCompI at h ⊢
  split at h
  · simp at h
  · rename_i bm hbm
    rw [bigintPow_cap_mono hbm]
    exact h

open Sites in
theorem negativeDigitCompI_cap_mono {cap : Option Nat} {T : PowTables} {F : FloatC} {bigmant : Big}
    {fp : ExtFloat} {exponent : Int} {p : ExtFloat × List Big}
    (h : negativeDigitCompI cap T F bigmant fp exponent = some p) :
    negativeDigitCompI none T F bigmant fp exponent = some p := by
  unfold negativeDigitCompI at h ⊢
  simp only [] at h ⊢
  split at h
  · simp at h
  · rename_i theor1 h1
    rw [ite_mono h1 bigintPow_cap_mono id]
    simp only []
    generalize (fbh F (extendedToFloat F (round F roundDown fp))).exp - exponent = be at h ⊢
    by_cases hb1 : be > 0
    · rw [if_pos hb1] at h ⊢
      cases ht : bigintPow cap T theor1 2 (be % 4294967296).toNat with
      | none => rw [ht] at h; simp at h
      | some t => rw [ht] at h; rw [bigintPow_cap_mono ht]; exact h
    · rw [if_neg hb1] at h ⊢
      by_cases hb2 : be < 0
      · rw [if_pos hb2] at h ⊢
        cases ht : bigintPow cap T bigmant 2 ((-be) % 4294967296).toNat with
        | none => rw [ht] at h; simp at h
        | some t => rw [ht] at h; rw [bigintPow_cap_mono ht]; exact h
      · rw [if_neg hb2] at h ⊢
        exact h

theorem map_mono {α β : Type} {a a' : Option α} (f : α → β) {q : β}
    (ha : ∀ p, a = some p → a' = some p) (h : a.map f = some q) : a'.map f = some q := by
  cases a with
  | none => simp at h
  | some p => rw [ha p rfl]; exact h

/-- the heap run builds exactly the big integers the bounded run builds -/
theorem slowI_cap_mono {cap : Option Nat} {T : PowTables} {F : FloatC} {num : Number} {fp : ExtFloat}
    {int frac : List UInt8} {p : ExtFloat × List Big} (h : Sites.slowI cap T F num fp int frac = some p) :
    Sites.slowI none T F num fp int frac = some p := by
  unfold Sites.slowI at h ⊢
  simp only [] at h ⊢
  split at h
  · simp at h
  · rename_i bigmant digits hpm
    rw [parseMantissa_cap_mono hpm]
    simp only []
    exact ite_mono h (map_mono _ fun _ => positiveDigitCompI_cap_mono)
      (map_mono _ fun _ => negativeDigitCompI_cap_mono)

end CapMono
end MinLex
