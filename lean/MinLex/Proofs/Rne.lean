import MinLex.Spec.Rne
import Mathlib.Tactic.Ring
import Mathlib.Tactic.Linarith
import Mathlib.Tactic.Positivity
import Mathlib.Tactic.FieldSimp
import Mathlib.Algebra.Order.Field.Power
import Mathlib.Data.Rat.Cast.Order
namespace MinLex

/-- The rational number denoted by a `Q`. -/
def Q.toRat (v : Q) : ℚ := (v.num : ℚ) / (v.den : ℚ)

theorem Q.le_iff {a b : Q} (ha : 0 < a.den) (hb : 0 < b.den) : Q.le a b ↔ a.toRat ≤ b.toRat := by
  unfold Q.le Q.toRat
  have ha' : (0:ℚ) < a.den := by exact_mod_cast ha
  have hb' : (0:ℚ) < b.den := by exact_mod_cast hb
  rw [div_le_div_iff₀ ha' hb']
  exact_mod_cast Iff.rfl

theorem Q.lt_iff {a b : Q} (ha : 0 < a.den) (hb : 0 < b.den) : Q.lt a b ↔ a.toRat < b.toRat := by
  unfold Q.lt Q.toRat
  have ha' : (0:ℚ) < a.den := by exact_mod_cast ha
  have hb' : (0:ℚ) < b.den := by exact_mod_cast hb
  rw [div_lt_div_iff₀ ha' hb']
  exact_mod_cast Iff.rfl

theorem Q.eqv_iff {a b : Q} (ha : 0 < a.den) (hb : 0 < b.den) : Q.eqv a b ↔ a.toRat = b.toRat := by
  unfold Q.eqv Q.toRat
  have ha' : (a.den:ℚ) ≠ 0 := by exact_mod_cast ha.ne'
  have hb' : (b.den:ℚ) ≠ 0 := by exact_mod_cast hb.ne'
  rw [div_eq_div_iff ha' hb']
  exact_mod_cast Iff.rfl

theorem geP2_iff {N D : Nat} (hD : 0 < D) (e : Int) :
    geP2 N D e = true ↔ (2:ℚ)^e ≤ (N:ℚ) / D := by
  have hD' : (0:ℚ) < D := by exact_mod_cast hD
  unfold geP2
  split
  · rename_i h
    obtain ⟨n, rfl⟩ := Int.eq_ofNat_of_zero_le h
    rw [le_div_iff₀ hD']
    simp only [Int.toNat_natCast, zpow_natCast, decide_eq_true_eq, ge_iff_le]
    rw [mul_comm]
    exact_mod_cast Iff.rfl
  · rename_i h
    obtain ⟨n, hn⟩ := Int.eq_ofNat_of_zero_le (show 0 ≤ -e by omega)
    have he : e = -(n:ℤ) := by omega
    subst he
    rw [le_div_iff₀ hD']
    simp only [neg_neg, Int.toNat_natCast, zpow_neg, zpow_natCast, decide_eq_true_eq, ge_iff_le]
    rw [inv_mul_le_iff₀ (by positivity), mul_comm]
    exact_mod_cast Iff.rfl

theorem two_zpow_pos (e : Int) : (0:ℚ) < (2:ℚ)^e := by positivity

theorem two_zpow_lt_imp {e e' : Int} {x : ℚ} (h1 : (2:ℚ)^e ≤ x) (h2 : x < (2:ℚ)^(e'+1)) : e ≤ e' := by
  have := lt_of_le_of_lt h1 h2
  rw [zpow_lt_zpow_iff_right₀ (by norm_num)] at this
  omega

theorem log2_bounds_rat {N : Nat} (hN : 0 < N) :
    (2:ℚ)^((Nat.log2 N : Nat) : Int) ≤ N ∧ (N:ℚ) < (2:ℚ)^(((Nat.log2 N : Nat) : Int) + 1) := by
  constructor
  · rw [zpow_natCast]; exact_mod_cast Nat.log2_self_le hN.ne'
  · have : (((Nat.log2 N : Nat) : Int) + 1) = ((Nat.log2 N + 1 : Nat) : Int) := by push_cast; ring
    rw [this, zpow_natCast]; exact_mod_cast Nat.lt_log2_self

/-- `flog2` is the floor of the binary logarithm (rational form). -/
theorem flog2_spec_rat {N D : Nat} (hN : 0 < N) (hD : 0 < D) :
    (2:ℚ)^(flog2 N D) ≤ (N:ℚ)/D ∧ (N:ℚ)/D < (2:ℚ)^(flog2 N D + 1) := by
  have hD' : (0:ℚ) < D := by exact_mod_cast hD
  obtain ⟨n1, n2⟩ := log2_bounds_rat hN
  obtain ⟨d1, d2⟩ := log2_bounds_rat hD
  generalize hlN : ((Nat.log2 N : Nat) : Int) = lN at *
  generalize hlD : ((Nat.log2 D : Nat) : Int) = lD at *
  have two_ne : (2:ℚ) ≠ 0 := by norm_num
  have up : (N:ℚ)/D < (2:ℚ)^(lN - lD + 1) := by
    rw [div_lt_iff₀ hD']
    have e1 : (2:ℚ)^(lN - lD + 1) * (2:ℚ)^lD = (2:ℚ)^(lN+1) := by
      rw [← zpow_add₀ two_ne]; congr 1; ring
    have : (2:ℚ)^(lN - lD + 1) * (2:ℚ)^lD ≤ (2:ℚ)^(lN - lD + 1) * D :=
      mul_le_mul_of_nonneg_left d1 (two_zpow_pos _).le
    linarith
  have lo : (2:ℚ)^(lN - lD - 1) ≤ (N:ℚ)/D := by
    rw [le_div_iff₀ hD']
    have e1 : (2:ℚ)^(lN - lD - 1) * (2:ℚ)^(lD+1) = (2:ℚ)^lN := by
      rw [← zpow_add₀ two_ne]; congr 1; ring
    have : (2:ℚ)^(lN - lD - 1) * D ≤ (2:ℚ)^(lN - lD - 1) * (2:ℚ)^(lD+1) :=
      mul_le_mul_of_nonneg_left d2.le (two_zpow_pos _).le
    linarith
  unfold flog2
  simp only [hlN, hlD]
  split
  · rename_i h
    rw [geP2_iff hD] at h
    exact absurd (lt_of_le_of_lt h up) (lt_irrefl _)
  · split
    · rename_i h
      rw [geP2_iff hD] at h
      exact ⟨h, up⟩
    · rename_i h
      rw [geP2_iff hD, not_le] at h
      refine ⟨lo, ?_⟩
      have : lN - lD - 1 + 1 = lN - lD := by ring
      rw [this]; exact h

/-- `flog2 N D = e` with `2^e ≤ N/D < 2^(e+1)`, in the cross-multiplied form of `geP2`. -/
theorem flog2_spec {N D : Nat} (hN : 0 < N) (hD : 0 < D) :
    geP2 N D (flog2 N D) = true ∧ geP2 N D (flog2 N D + 1) = false := by
  obtain ⟨h1, h2⟩ := flog2_spec_rat hN hD
  refine ⟨(geP2_iff hD _).2 h1, ?_⟩
  rw [← Bool.not_eq_true, geP2_iff hD, not_le]
  exact h2

theorem flog2_unique {N D : Nat} (hN : 0 < N) (hD : 0 < D) {e : Int}
    (h1 : (2:ℚ)^e ≤ (N:ℚ)/D) (h2 : (N:ℚ)/D < (2:ℚ)^(e+1)) : flog2 N D = e := by
  obtain ⟨g1, g2⟩ := flog2_spec_rat hN hD
  have := two_zpow_lt_imp h1 g2
  have := two_zpow_lt_imp g1 h2
  omega

theorem flog2_congr {N D N' D' : Nat} (hN : 0 < N) (hD : 0 < D) (hD' : 0 < D')
    (h : N * D' = N' * D) : flog2 N D = flog2 N' D' := by
  have hN' : 0 < N' := by
    rcases Nat.eq_zero_or_pos N' with h0 | h0
    · subst h0; simp at h; omega
    · exact h0
  have hx : (N:ℚ)/D = (N':ℚ)/D' := by
    rw [div_eq_div_iff (by exact_mod_cast hD.ne') (by exact_mod_cast hD'.ne')]
    exact_mod_cast h
  obtain ⟨g1, g2⟩ := flog2_spec_rat hN' hD'
  rw [← hx] at g1 g2
  exact flog2_unique hN hD g1 g2

theorem flog2_mono {N D N' D' : Nat} (hN : 0 < N) (hD : 0 < D) (hN' : 0 < N') (hD' : 0 < D')
    (h : (N:ℚ)/D ≤ (N':ℚ)/D') : flog2 N D ≤ flog2 N' D' := by
  obtain ⟨g1, _⟩ := flog2_spec_rat hN hD
  obtain ⟨_, g2'⟩ := flog2_spec_rat hN' hD'
  exact two_zpow_lt_imp (le_trans g1 h) g2'

/-! ### `rhe` : round-half-even of a quotient -/

theorem rhe_scale (A B : Nat) {C : Nat} (hC : 0 < C) : rhe (A * C) (B * C) = rhe A B := by
  unfold rhe
  simp only [Nat.mul_div_mul_right A B hC, Nat.mul_mod_mul_right]
  have e1 : 2 * (A % B * C) = (2 * (A % B)) * C := by rw [Nat.mul_assoc]
  have h1 : (2 * (A % B * C) > B * C) ↔ (2 * (A % B) > B) := by
    rw [e1]; exact Nat.mul_lt_mul_right hC
  have h2 : (2 * (A % B * C) = B * C) ↔ (2 * (A % B) = B) := by
    rw [e1]; exact Nat.mul_right_cancel_iff hC
  simp only [h1, h2]

theorem rhe_mono_same {A A' B : Nat} (hB : 0 < B) (h : A ≤ A') : rhe A B ≤ rhe A' B := by
  unfold rhe
  simp only
  have := Nat.div_add_mod A B
  have := Nat.div_add_mod A' B
  have := Nat.mod_lt A hB
  have := Nat.mod_lt A' hB
  have hd := Nat.div_le_div_right (c := B) h
  generalize A / B = q at *
  generalize A' / B = q' at *
  rcases Nat.lt_or_ge q q' with hlt | hge
  · have hm := Nat.mul_le_mul_left B (show q + 1 ≤ q' from hlt)
    rw [Nat.mul_add] at hm
    split <;> split <;> omega
  · have heq : q = q' := by omega
    subst heq
    split <;> split <;> omega

/-- `rhe` is monotone in the value of the quotient. -/
theorem rhe_mono {A B A' B' : Nat} (hB : 0 < B) (hB' : 0 < B') (h : A * B' ≤ A' * B) :
    rhe A B ≤ rhe A' B' := by
  rw [← rhe_scale A B hB', ← rhe_scale A' B' hB, Nat.mul_comm B' B]
  exact rhe_mono_same (Nat.mul_pos hB hB') h

theorem rhe_congr {A B A' B' : Nat} (hB : 0 < B) (hB' : 0 < B') (h : A * B' = A' * B) :
    rhe A B = rhe A' B' :=
  Nat.le_antisymm (rhe_mono hB hB' h.le) (rhe_mono hB' hB h.ge)

theorem rhe_mul_self (n : Nat) {B : Nat} (hB : 0 < B) : rhe (n * B) B = n := by
  unfold rhe
  simp only [Nat.mul_div_cancel _ hB, Nat.mul_mod_left]
  split <;> omega

theorem rhe_mono_rat {A B A' B' : Nat} (hB : 0 < B) (hB' : 0 < B')
    (h : (A:ℚ)/B ≤ (A':ℚ)/B') : rhe A B ≤ rhe A' B' := by
  apply rhe_mono hB hB'
  rw [div_le_div_iff₀ (by exact_mod_cast hB) (by exact_mod_cast hB')] at h
  exact_mod_cast h

theorem rhe_congr_rat {A B A' B' : Nat} (hB : 0 < B) (hB' : 0 < B')
    (h : (A:ℚ)/B = (A':ℚ)/B') : rhe A B = rhe A' B' :=
  Nat.le_antisymm (rhe_mono_rat hB hB' h.le) (rhe_mono_rat hB' hB h.ge)

theorem rhe_eq_of_rat {A B n : Nat} (hB : 0 < B) (h : (A:ℚ)/B = n) : rhe A B = n := by
  have : (A:ℚ)/B = ((n*1 : Nat) : ℚ)/((1:Nat):ℚ) := by simp [h]
  rw [rhe_congr_rat hB Nat.one_pos this, rhe_mul_self n Nat.one_pos]

theorem rhe_le_of_rat {A B n : Nat} (hB : 0 < B) (h : (A:ℚ)/B ≤ n) : rhe A B ≤ n := by
  have : (A:ℚ)/B ≤ ((n*1 : Nat) : ℚ)/((1:Nat):ℚ) := by simp [h]
  have := rhe_mono_rat hB Nat.one_pos this
  rwa [rhe_mul_self n Nat.one_pos] at this

theorem le_rhe_of_rat {A B n : Nat} (hB : 0 < B) (h : (n:ℚ) ≤ (A:ℚ)/B) : n ≤ rhe A B := by
  have : ((n*1 : Nat) : ℚ)/((1:Nat):ℚ) ≤ (A:ℚ)/B := by simp [h]
  have := rhe_mono_rat Nat.one_pos hB this
  rwa [rhe_mul_self n Nat.one_pos] at this

theorem div_le_rhe (A B : Nat) : A / B ≤ rhe A B := by
  unfold rhe; simp only; split <;> omega

theorem rhe_le_div_succ (A B : Nat) : rhe A B ≤ A / B + 1 := by
  unfold rhe; simp only; split <;> omega

/-! ### `scaleP2`, `ulpExp` and unfolding lemmas for `rne` -/

theorem scaleP2_den_pos {v : Q} (hv : 0 < v.den) (k : Int) : 0 < (scaleP2 v k).2 := by
  unfold scaleP2
  split
  · exact Nat.mul_pos hv (Nat.pow_pos (by decide))
  · exact hv

theorem scaleP2_rat {v : Q} (hv : 0 < v.den) (k : Int) :
    ((scaleP2 v k).1 : ℚ) / ((scaleP2 v k).2 : ℚ) = v.toRat / (2:ℚ)^k := by
  have hv' : (v.den:ℚ) ≠ 0 := by exact_mod_cast hv.ne'
  unfold scaleP2 Q.toRat
  split
  · rename_i h
    obtain ⟨n, rfl⟩ := Int.eq_ofNat_of_zero_le h
    simp only [Int.toNat_natCast, zpow_natCast, Nat.cast_mul, Nat.cast_pow, Nat.cast_ofNat]
    rw [div_div]
  · rename_i h
    obtain ⟨n, hn⟩ := Int.eq_ofNat_of_zero_le (show 0 ≤ -k by omega)
    have he : k = -(n:ℤ) := by omega
    subst he
    simp only [neg_neg, Int.toNat_natCast, zpow_neg, zpow_natCast, Nat.cast_mul, Nat.cast_pow,
      Nat.cast_ofNat, div_inv_eq_mul]
    ring

theorem rne_of_num_zero (f : Fmt) {v : Q} (h : v.num = 0) : rne f v = 0 := by
  unfold rne; simp [h]

theorem rneTrunc_of_num_zero (f : Fmt) {v : Q} (h : v.num = 0) : rneTrunc f v = 0 := by
  unfold rneTrunc; simp [h]

theorem rne_of_num_ne (f : Fmt) {v : Q} (h : v.num ≠ 0) :
    rne f v = min (rhe (scaleP2 v (ulpExp f v)).1 (scaleP2 v (ulpExp f v)).2
      + (ulpExp f v - f.kmin).toNat * 2^f.mbits) f.infBits := by
  unfold rne; simp [h]

theorem rneTrunc_of_num_ne (f : Fmt) {v : Q} (h : v.num ≠ 0) :
    rneTrunc f v = min ((scaleP2 v (ulpExp f v)).1 / (scaleP2 v (ulpExp f v)).2
      + (ulpExp f v - f.kmin).toNat * 2^f.mbits) f.infBits := by
  unfold rneTrunc; simp [h]

theorem Q.toRat_pos {v : Q} (hv : 0 < v.den) (hn : v.num ≠ 0) : 0 < v.toRat := by
  unfold Q.toRat
  have : (0:ℚ) < v.num := by exact_mod_cast Nat.pos_of_ne_zero hn
  have : (0:ℚ) < v.den := by exact_mod_cast hv
  positivity

theorem Q.num_eq_zero_iff {v : Q} (hv : 0 < v.den) : v.num = 0 ↔ v.toRat = 0 := by
  unfold Q.toRat
  have : (v.den:ℚ) ≠ 0 := by exact_mod_cast hv.ne'
  simp [this]

theorem ulpExp_congr (f : Fmt) {a b : Q} (ha : 0 < a.den) (hb : 0 < b.den) (hn : a.num ≠ 0)
    (h : Q.eqv a b) : ulpExp f a = ulpExp f b := by
  unfold ulpExp
  rw [flog2_congr (Nat.pos_of_ne_zero hn) ha hb h]

theorem nat_div_congr_rat {A B A' B' : Nat} (hB : 0 < B) (hB' : 0 < B')
    (h : (A:ℚ)/B = (A':ℚ)/B') : A / B = A' / B' := by
  rw [div_eq_div_iff (by exact_mod_cast hB.ne') (by exact_mod_cast hB'.ne')] at h
  have h' : A * B' = A' * B := by exact_mod_cast h
  have e1 : A / B = (A * B') / (B * B') := (Nat.mul_div_mul_right A B hB').symm
  have e2 : A' / B' = (A' * B) / (B' * B) := (Nat.mul_div_mul_right A' B' hB).symm
  rw [e1, e2, h', Nat.mul_comm B B']

/-- **C10 (spec side)**: `rne` depends only on the value, not on the representation. -/
theorem rne_congr (f : Fmt) {a b : Q} (ha : 0 < a.den) (hb : 0 < b.den) (h : Q.eqv a b) :
    rne f a = rne f b := by
  have hr := (Q.eqv_iff ha hb).1 h
  by_cases hn : a.num = 0
  · have hn' : b.num = 0 := by
      rw [Q.num_eq_zero_iff hb, ← hr, ← Q.num_eq_zero_iff ha]; exact hn
    rw [rne_of_num_zero f hn, rne_of_num_zero f hn']
  · have hn' : b.num ≠ 0 := by
      rw [Ne, Q.num_eq_zero_iff hb, ← hr, ← Q.num_eq_zero_iff ha]; exact hn
    rw [rne_of_num_ne f hn, rne_of_num_ne f hn', ← ulpExp_congr f ha hb hn h]
    congr 2
    apply rhe_congr_rat (scaleP2_den_pos ha _) (scaleP2_den_pos hb _)
    rw [scaleP2_rat ha, scaleP2_rat hb, hr]

theorem rneTrunc_congr (f : Fmt) {a b : Q} (ha : 0 < a.den) (hb : 0 < b.den) (h : Q.eqv a b) :
    rneTrunc f a = rneTrunc f b := by
  have hr := (Q.eqv_iff ha hb).1 h
  by_cases hn : a.num = 0
  · have hn' : b.num = 0 := by
      rw [Q.num_eq_zero_iff hb, ← hr, ← Q.num_eq_zero_iff ha]; exact hn
    rw [rneTrunc_of_num_zero f hn, rneTrunc_of_num_zero f hn']
  · have hn' : b.num ≠ 0 := by
      rw [Ne, Q.num_eq_zero_iff hb, ← hr, ← Q.num_eq_zero_iff ha]; exact hn
    rw [rneTrunc_of_num_ne f hn, rneTrunc_of_num_ne f hn', ← ulpExp_congr f ha hb hn h]
    congr 2
    apply nat_div_congr_rat (scaleP2_den_pos ha _) (scaleP2_den_pos hb _)
    rw [scaleP2_rat ha, scaleP2_rat hb, hr]

/-! ### Bounds on the scaled quotient and monotonicity of `rne` -/

theorem kmin_le_ulpExp (f : Fmt) (v : Q) : f.kmin ≤ ulpExp f v := by
  unfold ulpExp; omega

theorem ulpExp_mono (f : Fmt) {a b : Q} (ha : 0 < a.den) (hb : 0 < b.den) (hn : a.num ≠ 0)
    (hn' : b.num ≠ 0) (h : a.toRat ≤ b.toRat) : ulpExp f a ≤ ulpExp f b := by
  have := flog2_mono (Nat.pos_of_ne_zero hn) ha (Nat.pos_of_ne_zero hn') hb h
  unfold ulpExp; omega

/-- The scaled quotient is below `2^(mbits+1)`. -/
theorem scaled_lt (f : Fmt) {v : Q} (hv : 0 < v.den) (hn : v.num ≠ 0) :
    v.toRat / (2:ℚ)^(ulpExp f v) < ((2^(f.mbits+1) : Nat) : ℚ) := by
  obtain ⟨_, g2⟩ := flog2_spec_rat (Nat.pos_of_ne_zero hn) hv
  rw [div_lt_iff₀ (two_zpow_pos _)]
  have e1 : (((2^(f.mbits+1) : Nat) : ℚ)) * (2:ℚ)^(ulpExp f v)
      = (2:ℚ)^(((f.mbits+1 : Nat) : Int) + ulpExp f v) := by
    rw [zpow_add₀ (by norm_num), zpow_natCast]; push_cast; ring
  rw [e1]
  refine lt_of_lt_of_le g2 ?_
  rw [zpow_le_zpow_iff_right₀ (by norm_num)]
  unfold ulpExp; push_cast; omega

/-- Above the first binade the scaled quotient is at least `2^mbits`. -/
theorem scaled_ge (f : Fmt) {v : Q} (hv : 0 < v.den) (hn : v.num ≠ 0) (hk : f.kmin < ulpExp f v) :
    ((2^f.mbits : Nat) : ℚ) ≤ v.toRat / (2:ℚ)^(ulpExp f v) := by
  obtain ⟨g1, _⟩ := flog2_spec_rat (Nat.pos_of_ne_zero hn) hv
  rw [le_div_iff₀ (two_zpow_pos _)]
  have e1 : (((2^f.mbits : Nat) : ℚ)) * (2:ℚ)^(ulpExp f v)
      = (2:ℚ)^(((f.mbits : Nat) : Int) + ulpExp f v) := by
    rw [zpow_add₀ (by norm_num), zpow_natCast]; push_cast; ring
  rw [e1]
  refine le_trans ?_ g1
  rw [zpow_le_zpow_iff_right₀ (by norm_num)]
  unfold ulpExp at hk ⊢; omega

/-- The rounded significand of `v` at its ulp exponent. -/
def mant (f : Fmt) (v : Q) : Nat :=
  rhe (scaleP2 v (ulpExp f v)).1 (scaleP2 v (ulpExp f v)).2

theorem mant_le (f : Fmt) {v : Q} (hv : 0 < v.den) (hn : v.num ≠ 0) :
    mant f v ≤ 2^(f.mbits+1) := by
  apply rhe_le_of_rat (scaleP2_den_pos hv _)
  rw [scaleP2_rat hv]
  exact (scaled_lt f hv hn).le

theorem le_mant (f : Fmt) {v : Q} (hv : 0 < v.den) (hn : v.num ≠ 0) (hk : f.kmin < ulpExp f v) :
    2^f.mbits ≤ mant f v := by
  apply le_rhe_of_rat (scaleP2_den_pos hv _)
  rw [scaleP2_rat hv]
  exact scaled_ge f hv hn hk

/-- The bit pattern before saturation at infinity. -/
def bitsU (f : Fmt) (v : Q) : Nat := mant f v + (ulpExp f v - f.kmin).toNat * 2^f.mbits

theorem rne_eq_min (f : Fmt) {v : Q} (hn : v.num ≠ 0) : rne f v = min (bitsU f v) f.infBits :=
  rne_of_num_ne f hn

theorem bitsU_mono (f : Fmt) {a b : Q} (ha : 0 < a.den) (hb : 0 < b.den) (hn : a.num ≠ 0)
    (hn' : b.num ≠ 0) (h : a.toRat ≤ b.toRat) : bitsU f a ≤ bitsU f b := by
  have hk := ulpExp_mono f ha hb hn hn' h
  rcases Int.lt_or_eq_of_le hk with hlt | heq
  · have h1 := mant_le f ha hn
    have h2 := le_mant f hb hn' (lt_of_le_of_lt (kmin_le_ulpExp f a) hlt)
    have hka := kmin_le_ulpExp f a
    have h3 : (ulpExp f a - f.kmin).toNat + 1 ≤ (ulpExp f b - f.kmin).toNat := by omega
    have h4 := Nat.mul_le_mul_right (2^f.mbits) h3
    rw [Nat.add_mul, Nat.pow_succ] at *
    unfold bitsU
    omega
  · unfold bitsU mant
    rw [← heq]
    apply Nat.add_le_add_right
    apply rhe_mono_rat (scaleP2_den_pos ha _) (scaleP2_den_pos hb _)
    rw [scaleP2_rat ha, scaleP2_rat hb]
    exact div_le_div_of_nonneg_right h (two_zpow_pos _).le

/-- **C09 (spec side)**: `rne` is monotone. -/
theorem rne_mono (f : Fmt) {a b : Q} (ha : 0 < a.den) (hb : 0 < b.den) (h : Q.le a b) :
    rne f a ≤ rne f b := by
  have hr := (Q.le_iff ha hb).1 h
  by_cases hn : a.num = 0
  · rw [rne_of_num_zero f hn]; exact Nat.zero_le _
  · have hn' : b.num ≠ 0 := by
      intro h0
      have := Q.toRat_pos ha hn
      rw [(Q.num_eq_zero_iff hb).1 h0] at hr
      linarith
    rw [rne_eq_min f hn, rne_eq_min f hn']
    have := bitsU_mono f ha hb hn hn' hr
    omega

/-! ### Dyadic values: `ofDyadic`, `decode`, and idempotence of `rne` on finite floats -/

theorem ofDyadic_den_pos (m : Nat) (j : Int) : 0 < (ofDyadic m j).den := by
  unfold ofDyadic
  split
  · exact Nat.one_pos
  · exact Nat.pow_pos (by decide)

theorem ofDyadic_toRat (m : Nat) (j : Int) : (ofDyadic m j).toRat = (m:ℚ) * (2:ℚ)^j := by
  unfold ofDyadic Q.toRat
  split
  · rename_i h
    obtain ⟨n, rfl⟩ := Int.eq_ofNat_of_zero_le h
    simp
  · rename_i h
    obtain ⟨n, hn⟩ := Int.eq_ofNat_of_zero_le (show 0 ≤ -j by omega)
    have he : j = -(n:ℤ) := by omega
    subst he
    simp [div_eq_mul_inv]

theorem ofDyadic_num_eq_zero (m : Nat) (j : Int) : (ofDyadic m j).num = 0 ↔ m = 0 := by
  rw [Q.num_eq_zero_iff (ofDyadic_den_pos m j), ofDyadic_toRat]
  have := (two_zpow_pos j).ne'
  simp [this]

theorem nat_div_eq_of_rat {A B n : Nat} (hB : 0 < B) (h : (A:ℚ)/B = n) : A / B = n := by
  have : (A:ℚ)/B = ((n*1 : Nat) : ℚ)/((1:Nat):ℚ) := by simp [h]
  rw [nat_div_congr_rat hB Nat.one_pos this]; simp

theorem ulpExp_of_dyadic (f : Fmt) {v : Q} (hv : 0 < v.den) {m : Nat} (hm : 0 < m) {k : Int}
    (h : v.toRat = (m:ℚ) * (2:ℚ)^k) :
    ulpExp f v = max (((Nat.log2 m : Nat) : Int) + k - f.mbits) f.kmin := by
  have hn : v.num ≠ 0 := by
    rw [Ne, Q.num_eq_zero_iff hv, h]
    have := (two_zpow_pos k).ne'
    have : (m:ℚ) ≠ 0 := by exact_mod_cast hm.ne'
    simp [*]
  obtain ⟨m1, m2⟩ := log2_bounds_rat hm
  have hfl : flog2 v.num v.den = ((Nat.log2 m : Nat) : Int) + k := by
    apply flog2_unique (Nat.pos_of_ne_zero hn) hv
    · show _ ≤ v.toRat
      rw [h, zpow_add₀ (by norm_num)]
      exact mul_le_mul_of_nonneg_right m1 (two_zpow_pos _).le
    · show v.toRat < _
      have : ((Nat.log2 m : Nat) : Int) + k + 1 = (((Nat.log2 m : Nat) : Int) + 1) + k := by ring
      rw [h, this, zpow_add₀ (by norm_num)]
      exact mul_lt_mul_of_pos_right m2 (two_zpow_pos _)
  unfold ulpExp
  rw [hfl]

/-- A value that is exactly `m * 2^k` with `(m, k)` a canonical float is rounded to itself. -/
theorem mant_of_dyadic (f : Fmt) {v : Q} (hv : 0 < v.den) {m : Nat} (hm : 0 < m) {k : Int}
    (h : v.toRat = (m:ℚ) * (2:ℚ)^k) (hk : f.kmin ≤ k) (hlt : m < 2^(f.mbits+1))
    (hc : k = f.kmin ∨ 2^f.mbits ≤ m) :
    ulpExp f v = k ∧ mant f v = m ∧
      (scaleP2 v (ulpExp f v)).1 / (scaleP2 v (ulpExp f v)).2 = m := by
  have hu : ulpExp f v = k := by
    rw [ulpExp_of_dyadic f hv hm h]
    have h1 : Nat.log2 m < f.mbits + 1 := (Nat.log2_lt hm.ne').2 hlt
    rcases hc with hc | hc
    · omega
    · have h2 : f.mbits ≤ Nat.log2 m := by
        by_contra hcon
        have : m < 2^f.mbits := (Nat.log2_lt hm.ne').1 (by omega)
        omega
      omega
  have hq : ((scaleP2 v k).1 : ℚ) / ((scaleP2 v k).2 : ℚ) = m := by
    rw [scaleP2_rat hv, h, mul_div_assoc, div_self (two_zpow_pos k).ne', mul_one]
  refine ⟨hu, ?_, ?_⟩
  · unfold mant; rw [hu]; exact rhe_eq_of_rat (scaleP2_den_pos hv _) hq
  · rw [hu]; exact nat_div_eq_of_rat (scaleP2_den_pos hv _) hq

theorem decodeQ_den_pos (f : Fmt) (bits : Nat) : 0 < (decodeQ f bits).den :=
  ofDyadic_den_pos _ _

theorem decodeQ_toRat (f : Fmt) (bits : Nat) :
    (decodeQ f bits).toRat = ((decode f bits).1 : ℚ) * (2:ℚ)^(decode f bits).2 :=
  ofDyadic_toRat _ _

/-- Canonical-form facts about `decode`. -/
theorem decode_canonical (f : Fmt) (bits : Nat) :
    f.kmin ≤ (decode f bits).2 ∧ (decode f bits).1 < 2^(f.mbits+1) ∧
    ((decode f bits).2 = f.kmin ∨ 2^f.mbits ≤ (decode f bits).1) ∧
    (decode f bits).1 + ((decode f bits).2 - f.kmin).toNat * 2^f.mbits = bits ∧
    ((decode f bits).1 = 0 ↔ bits = 0) := by
  have hM : 0 < 2^f.mbits := Nat.pow_pos (by decide)
  have h1 := Nat.div_add_mod bits (2^f.mbits)
  have h2 := Nat.mod_lt bits hM
  unfold decode
  simp only
  split
  · rename_i he
    rw [he] at h1
    simp only [Nat.pow_succ]
    refine ⟨by omega, by omega, Or.inl rfl, ?_, by omega⟩
    simp only [Int.sub_self, Int.toNat_zero, Nat.zero_mul]; omega
  · rename_i he
    obtain ⟨e', he'⟩ : ∃ e', bits / 2^f.mbits = e' + 1 := ⟨bits / 2^f.mbits - 1, by omega⟩
    rw [he'] at h1 ⊢
    have : (f.kmin + ((e' + 1 : Nat) : Int) - 1 - f.kmin).toNat = e' := by omega
    simp only [this, Nat.pow_succ]
    rw [Nat.mul_add] at h1
    rw [Nat.mul_comm e'] 
    refine ⟨by omega, by omega, Or.inr (by omega), by omega, by omega⟩

/-- (5) `rne` and `rneTrunc` are the identity on finite floats. -/
theorem rne_decode (f : Fmt) {bits : Nat} (hb : bits < f.infBits) :
    rne f (decodeQ f bits) = bits ∧ rneTrunc f (decodeQ f bits) = bits := by
  obtain ⟨c1, c2, c3, c4, c5⟩ := decode_canonical f bits
  by_cases h0 : bits = 0
  · have : (decodeQ f bits).num = 0 := by
      unfold decodeQ; rw [ofDyadic_num_eq_zero]; exact c5.2 h0
    rw [rne_of_num_zero f this, rneTrunc_of_num_zero f this, h0]; exact ⟨rfl, rfl⟩
  · have hm : 0 < (decode f bits).1 := Nat.pos_of_ne_zero (fun h => h0 (c5.1 h))
    have hn : (decodeQ f bits).num ≠ 0 := by
      unfold decodeQ; rw [Ne, ofDyadic_num_eq_zero]; omega
    obtain ⟨d1, d2, d3⟩ := mant_of_dyadic f (decodeQ_den_pos f bits) hm (decodeQ_toRat f bits) c1 c2 c3
    constructor
    · rw [rne_eq_min f hn]; unfold bitsU; rw [d2, d1, c4]; omega
    · rw [rneTrunc_of_num_ne f hn, d3, d1, c4]; omega

end MinLex
