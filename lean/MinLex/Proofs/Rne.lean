import MinLex.Spec.Rne
import Mathlib.Tactic.Ring
import Mathlib.Tactic.Linarith
import Mathlib.Tactic.Positivity
import Mathlib.Tactic.FieldSimp
import Mathlib.Algebra.Order.Field.Power
import Mathlib.Data.Rat.Cast.Order
namespace MinLex

/-- The rational number denoted by a `Q`. -/
def Q.toRat (v : Q) : ℚ := (v.num : ℚ) / (v.den : ℚ)

theorem Q.le_iff {a b : Q} (ha : 0 < a.den) (hb : 0 < b.den) : Q.le a b ↔ a.toRat ≤ b.toRat := by
  unfold Q.le Q.toRat
  have ha' : (0:ℚ) < a.den := by exact_mod_cast ha
  have hb' : (0:ℚ) < b.den := by exact_mod_cast hb
  rw [div_le_div_iff₀ ha' hb']
  exact_mod_cast Iff.rfl

theorem Q.lt_iff {a b : Q} (ha : 0 < a.den) (hb : 0 < b.den) : Q.lt a b ↔ a.toRat < b.toRat := by
  unfold Q.lt Q.toRat
  have ha' : (0:ℚ) < a.den := by exact_mod_cast ha
  have hb' : (0:ℚ) < b.den := by exact_mod_cast hb
  rw [div_lt_div_iff₀ ha' hb']
  exact_mod_cast Iff.rfl

theorem Q.eqv_iff {a b : Q} (ha : 0 < a.den) (hb : 0 < b.den) : Q.eqv a b ↔ a.toRat = b.toRat := by
  unfold Q.eqv Q.toRat
  have ha' : (a.den:ℚ) ≠ 0 := by exact_mod_cast ha.ne'
  have hb' : (b.den:ℚ) ≠ 0 := by exact_mod_cast hb.ne'
  rw [div_eq_div_iff ha' hb']
  exact_mod_cast Iff.rfl

theorem geP2_iff {N D : Nat} (hD : 0 < D) (e : Int) :
    geP2 N D e = true ↔ (2:ℚ)^e ≤ (N:ℚ) / D := by
  have hD' : (0:ℚ) < D := by exact_mod_cast hD
  unfold geP2
  split
  · rename_i h
    obtain ⟨n, rfl⟩ := Int.eq_ofNat_of_zero_le h
    rw [le_div_iff₀ hD']
    simp only [Int.toNat_natCast, zpow_natCast, decide_eq_true_eq, ge_iff_le]
    rw [mul_comm]
    exact_mod_cast Iff.rfl
  · rename_i h
    obtain ⟨n, hn⟩ := Int.eq_ofNat_of_zero_le (show 0 ≤ -e by omega)
    have he : e = -(n:ℤ) := by omega
    subst he
    rw [le_div_iff₀ hD']
    simp only [neg_neg, Int.toNat_natCast, zpow_neg, zpow_natCast, decide_eq_true_eq, ge_iff_le]
    rw [inv_mul_le_iff₀ (by positivity), mul_comm]
    exact_mod_cast Iff.rfl

theorem two_zpow_pos (e : Int) : (0:ℚ) < (2:ℚ)^e := by positivity

theorem two_zpow_lt_imp {e e' : Int} {x : ℚ} (h1 : (2:ℚ)^e ≤ x) (h2 : x < (2:ℚ)^(e'+1)) : e ≤ e' := by
  have := lt_of_le_of_lt h1 h2
  rw [zpow_lt_zpow_iff_right₀ (by norm_num)] at this
  omega

theorem log2_bounds_rat {N : Nat} (hN : 0 < N) :
    (2:ℚ)^((Nat.log2 N : Nat) : Int) ≤ N ∧ (N:ℚ) < (2:ℚ)^(((Nat.log2 N : Nat) : Int) + 1) := by
  constructor
  · rw [zpow_natCast]; exact_mod_cast Nat.log2_self_le hN.ne'
  · have : (((Nat.log2 N : Nat) : Int) + 1) = ((Nat.log2 N + 1 : Nat) : Int) := by push_cast; ring
    rw [this, zpow_natCast]; exact_mod_cast Nat.lt_log2_self

/-- `flog2` is the floor of the binary logarithm (rational form). -/
theorem flog2_spec_rat {N D : Nat} (hN : 0 < N) (hD : 0 < D) :
    (2:ℚ)^(flog2 N D) ≤ (N:ℚ)/D ∧ (N:ℚ)/D < (2:ℚ)^(flog2 N D + 1) := by
  have hD' : (0:ℚ) < D := by exact_mod_cast hD
  obtain ⟨n1, n2⟩ := log2_bounds_rat hN
  obtain ⟨d1, d2⟩ := log2_bounds_rat hD
  generalize hlN : ((Nat.log2 N : Nat) : Int) = lN at *
  generalize hlD : ((Nat.log2 D : Nat) : Int) = lD at *
  have two_ne : (2:ℚ) ≠ 0 := by norm_num
  have up : (N:ℚ)/D < (2:ℚ)^(lN - lD + 1) := by
    rw [div_lt_iff₀ hD']
    have e1 : (2:ℚ)^(lN - lD + 1) * (2:ℚ)^lD = (2:ℚ)^(lN+1) := by
      rw [← zpow_add₀ two_ne]; congr 1; ring
    have : (2:ℚ)^(lN - lD + 1) * (2:ℚ)^lD ≤ (2:ℚ)^(lN - lD + 1) * D :=
      mul_le_mul_of_nonneg_left d1 (two_zpow_pos _).le
    linarith
  have lo : (2:ℚ)^(lN - lD - 1) ≤ (N:ℚ)/D := by
    rw [le_div_iff₀ hD']
    have e1 : (2:ℚ)^(lN - lD - 1) * (2:ℚ)^(lD+1) = (2:ℚ)^lN := by
      rw [← zpow_add₀ two_ne]; congr 1; ring
    have : (2:ℚ)^(lN - lD - 1) * D ≤ (2:ℚ)^(lN - lD - 1) * (2:ℚ)^(lD+1) :=
      mul_le_mul_of_nonneg_left d2.le (two_zpow_pos _).le
    linarith
  unfold flog2
  simp only [hlN, hlD]
  split
  · rename_i h
    rw [geP2_iff hD] at h
    exact absurd (lt_of_le_of_lt h up) (lt_irrefl _)
  · split
    · rename_i h
      rw [geP2_iff hD] at h
      exact ⟨h, up⟩
    · rename_i h
      rw [geP2_iff hD, not_le] at h
      refine ⟨lo, ?_⟩
      have : lN - lD - 1 + 1 = lN - lD := by ring
      rw [this]; exact h

/-- `flog2 N D = e` with `2^e ≤ N/D < 2^(e+1)`, in the cross-multiplied form of `geP2`. -/
theorem flog2_spec {N D : Nat} (hN : 0 < N) (hD : 0 < D) :
    geP2 N D (flog2 N D) = true ∧ geP2 N D (flog2 N D + 1) = false := by
  obtain ⟨h1, h2⟩ := flog2_spec_rat hN hD
  refine ⟨(geP2_iff hD _).2 h1, ?_⟩
  rw [← Bool.not_eq_true, geP2_iff hD, not_le]
  exact h2

theorem flog2_unique {N D : Nat} (hN : 0 < N) (hD : 0 < D) {e : Int}
    (h1 : (2:ℚ)^e ≤ (N:ℚ)/D) (h2 : (N:ℚ)/D < (2:ℚ)^(e+1)) : flog2 N D = e := by
  obtain ⟨g1, g2⟩ := flog2_spec_rat hN hD
  have := two_zpow_lt_imp h1 g2
  have := two_zpow_lt_imp g1 h2
  omega

theorem flog2_congr {N D N' D' : Nat} (hN : 0 < N) (hD : 0 < D) (hD' : 0 < D')
    (h : N * D' = N' * D) : flog2 N D = flog2 N' D' := by
  have hN' : 0 < N' := by
    rcases Nat.eq_zero_or_pos N' with h0 | h0
    · subst h0; simp at h; omega
    · exact h0
  have hx : (N:ℚ)/D = (N':ℚ)/D' := by
    rw [div_eq_div_iff (by exact_mod_cast hD.ne') (by exact_mod_cast hD'.ne')]
    exact_mod_cast h
  obtain ⟨g1, g2⟩ := flog2_spec_rat hN' hD'
  rw [← hx] at g1 g2
  exact flog2_unique hN hD g1 g2

theorem flog2_mono {N D N' D' : Nat} (hN : 0 < N) (hD : 0 < D) (hN' : 0 < N') (hD' : 0 < D')
    (h : (N:ℚ)/D ≤ (N':ℚ)/D') : flog2 N D ≤ flog2 N' D' := by
  obtain ⟨g1, _⟩ := flog2_spec_rat hN hD
  obtain ⟨_, g2'⟩ := flog2_spec_rat hN' hD'
  exact two_zpow_lt_imp (le_trans g1 h) g2'

/-! ### `rhe` : round-half-even of a quotient -/

theorem rhe_scale (A B : Nat) {C : Nat} (hC : 0 < C) : rhe (A * C) (B * C) = rhe A B := by
  unfold rhe
  simp only [Nat.mul_div_mul_right A B hC, Nat.mul_mod_mul_right]
  have e1 : 2 * (A % B * C) = (2 * (A % B)) * C := by rw [Nat.mul_assoc]
  have h1 : (2 * (A % B * C) > B * C) ↔ (2 * (A % B) > B) := by
    rw [e1]; exact Nat.mul_lt_mul_right hC
  have h2 : (2 * (A % B * C) = B * C) ↔ (2 * (A % B) = B) := by
    rw [e1]; exact Nat.mul_right_cancel_iff hC
  simp only [h1, h2]

theorem rhe_mono_same {A A' B : Nat} (hB : 0 < B) (h : A ≤ A') : rhe A B ≤ rhe A' B := by
  unfold rhe
  simp only
  have := Nat.div_add_mod A B
  have := Nat.div_add_mod A' B
  have := Nat.mod_lt A hB
  have := Nat.mod_lt A' hB
  have hd := Nat.div_le_div_right (c := B) h
  generalize A / B = q at *
  generalize A' / B = q' at *
  rcases Nat.lt_or_ge q q' with hlt | hge
  · have hm := Nat.mul_le_mul_left B (show q + 1 ≤ q' from hlt)
    rw [Nat.mul_add] at hm
    split <;> split <;> omega
  · have heq : q = q' := by omega
    subst heq
    split <;> split <;> omega

/-- `rhe` is monotone in the value of the quotient. -/
theorem rhe_mono {A B A' B' : Nat} (hB : 0 < B) (hB' : 0 < B') (h : A * B' ≤ A' * B) :
    rhe A B ≤ rhe A' B' := by
  rw [← rhe_scale A B hB', ← rhe_scale A' B' hB, Nat.mul_comm B' B]
  exact rhe_mono_same (Nat.mul_pos hB hB') h

theorem rhe_congr {A B A' B' : Nat} (hB : 0 < B) (hB' : 0 < B') (h : A * B' = A' * B) :
    rhe A B = rhe A' B' :=
  Nat.le_antisymm (rhe_mono hB hB' h.le) (rhe_mono hB' hB h.ge)

theorem rhe_mul_self (n : Nat) {B : Nat} (hB : 0 < B) : rhe (n * B) B = n := by
  unfold rhe
  simp only [Nat.mul_div_cancel _ hB, Nat.mul_mod_left]
  split <;> omega

theorem rhe_mono_rat {A B A' B' : Nat} (hB : 0 < B) (hB' : 0 < B')
    (h : (A:ℚ)/B ≤ (A':ℚ)/B') : rhe A B ≤ rhe A' B' := by
  apply rhe_mono hB hB'
  rw [div_le_div_iff₀ (by exact_mod_cast hB) (by exact_mod_cast hB')] at h
  exact_mod_cast h

theorem rhe_congr_rat {A B A' B' : Nat} (hB : 0 < B) (hB' : 0 < B')
    (h : (A:ℚ)/B = (A':ℚ)/B') : rhe A B = rhe A' B' :=
  Nat.le_antisymm (rhe_mono_rat hB hB' h.le) (rhe_mono_rat hB' hB h.ge)

theorem rhe_eq_of_rat {A B n : Nat} (hB : 0 < B) (h : (A:ℚ)/B = n) : rhe A B = n := by
  have : (A:ℚ)/B = ((n*1 : Nat) : ℚ)/((1:Nat):ℚ) := by simp [h]
  rw [rhe_congr_rat hB Nat.one_pos this, rhe_mul_self n Nat.one_pos]

theorem rhe_le_of_rat {A B n : Nat} (hB : 0 < B) (h : (A:ℚ)/B ≤ n) : rhe A B ≤ n := by
  have : (A:ℚ)/B ≤ ((n*1 : Nat) : ℚ)/((1:Nat):ℚ) := by simp [h]
  have := rhe_mono_rat hB Nat.one_pos this
  rwa [rhe_mul_self n Nat.one_pos] at this

theorem le_rhe_of_rat {A B n : Nat} (hB : 0 < B) (h : (n:ℚ) ≤ (A:ℚ)/B) : n ≤ rhe A B := by
  have : ((n*1 : Nat) : ℚ)/((1:Nat):ℚ) ≤ (A:ℚ)/B := by simp [h]
  have := rhe_mono_rat Nat.one_pos hB this
  rwa [rhe_mul_self n Nat.one_pos] at this

theorem div_le_rhe (A B : Nat) : A / B ≤ rhe A B := by
  unfold rhe; simp only; split <;> omega

theorem rhe_le_div_succ (A B : Nat) : rhe A B ≤ A / B + 1 := by
  unfold rhe; simp only; split <;> omega

/-! ### `scaleP2`, `ulpExp` and unfolding lemmas for `rne` -/

theorem scaleP2_den_pos {v : Q} (hv : 0 < v.den) (k : Int) : 0 < (scaleP2 v k).2 := by
  unfold scaleP2
  split
  · exact Nat.mul_pos hv (Nat.pow_pos (by decide))
  · exact hv

theorem scaleP2_rat {v : Q} (hv : 0 < v.den) (k : Int) :
    ((scaleP2 v k).1 : ℚ) / ((scaleP2 v k).2 : ℚ) = v.toRat / (2:ℚ)^k := by
  have hv' : (v.den:ℚ) ≠ 0 := by exact_mod_cast hv.ne'
  unfold scaleP2 Q.toRat
  split
  · rename_i h
    obtain ⟨n, rfl⟩ := Int.eq_ofNat_of_zero_le h
    simp only [Int.toNat_natCast, zpow_natCast, Nat.cast_mul, Nat.cast_pow, Nat.cast_ofNat]
    rw [div_div]
  · rename_i h
    obtain ⟨n, hn⟩ := Int.eq_ofNat_of_zero_le (show 0 ≤ -k by omega)
    have he : k = -(n:ℤ) := by omega
    subst he
    simp only [neg_neg, Int.toNat_natCast, zpow_neg, zpow_natCast, Nat.cast_mul, Nat.cast_pow,
      Nat.cast_ofNat, div_inv_eq_mul]
    ring

theorem rne_of_num_zero (f : Fmt) {v : Q} (h : v.num = 0) : rne f v = 0 := by
  unfold rne; simp [h]

theorem rneTrunc_of_num_zero (f : Fmt) {v : Q} (h : v.num = 0) : rneTrunc f v = 0 := by
  unfold rneTrunc; simp [h]

theorem rne_of_num_ne (f : Fmt) {v : Q} (h : v.num ≠ 0) :
    rne f v = min (rhe (scaleP2 v (ulpExp f v)).1 (scaleP2 v (ulpExp f v)).2
      + (ulpExp f v - f.kmin).toNat * 2^f.mbits) f.infBits := by
  unfold rne; simp [h]

theorem rneTrunc_of_num_ne (f : Fmt) {v : Q} (h : v.num ≠ 0) :
    rneTrunc f v = min ((scaleP2 v (ulpExp f v)).1 / (scaleP2 v (ulpExp f v)).2
      + (ulpExp f v - f.kmin).toNat * 2^f.mbits) f.infBits := by
  unfold rneTrunc; simp [h]

theorem Q.toRat_pos {v : Q} (hv : 0 < v.den) (hn : v.num ≠ 0) : 0 < v.toRat := by
  unfold Q.toRat
  have : (0:ℚ) < v.num := by exact_mod_cast Nat.pos_of_ne_zero hn
  have : (0:ℚ) < v.den := by exact_mod_cast hv
  positivity

theorem Q.num_eq_zero_iff {v : Q} (hv : 0 < v.den) : v.num = 0 ↔ v.toRat = 0 := by
  unfold Q.toRat
  have : (v.den:ℚ) ≠ 0 := by exact_mod_cast hv.ne'
  simp [this]

theorem ulpExp_congr (f : Fmt) {a b : Q} (ha : 0 < a.den) (hb : 0 < b.den) (hn : a.num ≠ 0)
    (h : Q.eqv a b) : ulpExp f a = ulpExp f b := by
  unfold ulpExp
  rw [flog2_congr (Nat.pos_of_ne_zero hn) ha hb h]

theorem nat_div_congr_rat {A B A' B' : Nat} (hB : 0 < B) (hB' : 0 < B')
    (h : (A:ℚ)/B = (A':ℚ)/B') : A / B = A' / B' := by
  rw [div_eq_div_iff (by exact_mod_cast hB.ne') (by exact_mod_cast hB'.ne')] at h
  have h' : A * B' = A' * B := by exact_mod_cast h
  have e1 : A / B = (A * B') / (B * B') := (Nat.mul_div_mul_right A B hB').symm
  have e2 : A' / B' = (A' * B) / (B' * B) := (Nat.mul_div_mul_right A' B' hB).symm
  rw [e1, e2, h', Nat.mul_comm B B']

/-- **C10 (spec side)**: `rne` depends only on the value, not on the representation. -/
theorem rne_congr (f : Fmt) {a b : Q} (ha : 0 < a.den) (hb : 0 < b.den) (h : Q.eqv a b) :
    rne f a = rne f b := by
  have hr := (Q.eqv_iff ha hb).1 h
  by_cases hn : a.num = 0
  · have hn' : b.num = 0 := by
      rw [Q.num_eq_zero_iff hb, ← hr, ← Q.num_eq_zero_iff ha]; exact hn
    rw [rne_of_num_zero f hn, rne_of_num_zero f hn']
  · have hn' : b.num ≠ 0 := by
      rw [Ne, Q.num_eq_zero_iff hb, ← hr, ← Q.num_eq_zero_iff ha]; exact hn
    rw [rne_of_num_ne f hn, rne_of_num_ne f hn', ← ulpExp_congr f ha hb hn h]
    congr 2
    apply rhe_congr_rat (scaleP2_den_pos ha _) (scaleP2_den_pos hb _)
    rw [scaleP2_rat ha, scaleP2_rat hb, hr]

theorem rneTrunc_congr (f : Fmt) {a b : Q} (ha : 0 < a.den) (hb : 0 < b.den) (h : Q.eqv a b) :
    rneTrunc f a = rneTrunc f b := by
  have hr := (Q.eqv_iff ha hb).1 h
  by_cases hn : a.num = 0
  · have hn' : b.num = 0 := by
      rw [Q.num_eq_zero_iff hb, ← hr, ← Q.num_eq_zero_iff ha]; exact hn
    rw [rneTrunc_of_num_zero f hn, rneTrunc_of_num_zero f hn']
  · have hn' : b.num ≠ 0 := by
      rw [Ne, Q.num_eq_zero_iff hb, ← hr, ← Q.num_eq_zero_iff ha]; exact hn
    rw [rneTrunc_of_num_ne f hn, rneTrunc_of_num_ne f hn', ← ulpExp_congr f ha hb hn h]
    congr 2
    apply nat_div_congr_rat (scaleP2_den_pos ha _) (scaleP2_den_pos hb _)
    rw [scaleP2_rat ha, scaleP2_rat hb, hr]

/-! ### Bounds on the scaled quotient and monotonicity of `rne` -/

theorem kmin_le_ulpExp (f : Fmt) (v : Q) : f.kmin ≤ ulpExp f v := by
  unfold ulpExp; omega

theorem ulpExp_mono (f : Fmt) {a b : Q} (ha : 0 < a.den) (hb : 0 < b.den) (hn : a.num ≠ 0)
    (hn' : b.num ≠ 0) (h : a.toRat ≤ b.toRat) : ulpExp f a ≤ ulpExp f b := by
  have := flog2_mono (Nat.pos_of_ne_zero hn) ha (Nat.pos_of_ne_zero hn') hb h
  unfold ulpExp; omega

/-- The scaled quotient is below `2^(mbits+1)`. -/
theorem scaled_lt (f : Fmt) {v : Q} (hv : 0 < v.den) (hn : v.num ≠ 0) :
    v.toRat / (2:ℚ)^(ulpExp f v) < ((2^(f.mbits+1) : Nat) : ℚ) := by
  obtain ⟨_, g2⟩ := flog2_spec_rat (Nat.pos_of_ne_zero hn) hv
  rw [div_lt_iff₀ (two_zpow_pos _)]
  have e1 : (((2^(f.mbits+1) : Nat) : ℚ)) * (2:ℚ)^(ulpExp f v)
      = (2:ℚ)^(((f.mbits+1 : Nat) : Int) + ulpExp f v) := by
    rw [zpow_add₀ (by norm_num), zpow_natCast]; push_cast; ring
  rw [e1]
  refine lt_of_lt_of_le g2 ?_
  rw [zpow_le_zpow_iff_right₀ (by norm_num)]
  unfold ulpExp; push_cast; omega

/-- Above the first binade the scaled quotient is at least `2^mbits`. -/
theorem scaled_ge (f : Fmt) {v : Q} (hv : 0 < v.den) (hn : v.num ≠ 0) (hk : f.kmin < ulpExp f v) :
    ((2^f.mbits : Nat) : ℚ) ≤ v.toRat / (2:ℚ)^(ulpExp f v) := by
  obtain ⟨g1, _⟩ := flog2_spec_rat (Nat.pos_of_ne_zero hn) hv
  rw [le_div_iff₀ (two_zpow_pos _)]
  have e1 : (((2^f.mbits : Nat) : ℚ)) * (2:ℚ)^(ulpExp f v)
      = (2:ℚ)^(((f.mbits : Nat) : Int) + ulpExp f v) := by
    rw [zpow_add₀ (by norm_num), zpow_natCast]; push_cast; ring
  rw [e1]
  refine le_trans ?_ g1
  rw [zpow_le_zpow_iff_right₀ (by norm_num)]
  unfold ulpExp at hk ⊢; omega

/-- The rounded significand of `v` at its ulp exponent. -/
def mant (f : Fmt) (v : Q) : Nat :=
  rhe (scaleP2 v (ulpExp f v)).1 (scaleP2 v (ulpExp f v)).2

theorem mant_le (f : Fmt) {v : Q} (hv : 0 < v.den) (hn : v.num ≠ 0) :
    mant f v ≤ 2^(f.mbits+1) := by
  apply rhe_le_of_rat (scaleP2_den_pos hv _)
  rw [scaleP2_rat hv]
  exact (scaled_lt f hv hn).le

theorem le_mant (f : Fmt) {v : Q} (hv : 0 < v.den) (hn : v.num ≠ 0) (hk : f.kmin < ulpExp f v) :
    2^f.mbits ≤ mant f v := by
  apply le_rhe_of_rat (scaleP2_den_pos hv _)
  rw [scaleP2_rat hv]
  exact scaled_ge f hv hn hk

/-- The bit pattern before saturation at infinity. -/
def bitsU (f : Fmt) (v : Q) : Nat := mant f v + (ulpExp f v - f.kmin).toNat * 2^f.mbits

theorem rne_eq_min (f : Fmt) {v : Q} (hn : v.num ≠ 0) : rne f v = min (bitsU f v) f.infBits :=
  rne_of_num_ne f hn

theorem bitsU_mono (f : Fmt) {a b : Q} (ha : 0 < a.den) (hb : 0 < b.den) (hn : a.num ≠ 0)
    (hn' : b.num ≠ 0) (h : a.toRat ≤ b.toRat) : bitsU f a ≤ bitsU f b := by
  have hk := ulpExp_mono f ha hb hn hn' h
  rcases Int.lt_or_eq_of_le hk with hlt | heq
  · have h1 := mant_le f ha hn
    have h2 := le_mant f hb hn' (lt_of_le_of_lt (kmin_le_ulpExp f a) hlt)
    have hka := kmin_le_ulpExp f a
    have h3 : (ulpExp f a - f.kmin).toNat + 1 ≤ (ulpExp f b - f.kmin).toNat := by omega
    have h4 := Nat.mul_le_mul_right (2^f.mbits) h3
    rw [Nat.add_mul, Nat.pow_succ] at *
    unfold bitsU
    omega
  · unfold bitsU mant
    rw [← heq]
    apply Nat.add_le_add_right
    apply rhe_mono_rat (scaleP2_den_pos ha _) (scaleP2_den_pos hb _)
    rw [scaleP2_rat ha, scaleP2_rat hb]
    exact div_le_div_of_nonneg_right h (two_zpow_pos _).le

/-- **C09 (spec side)**: `rne` is monotone. -/
theorem rne_mono (f : Fmt) {a b : Q} (ha : 0 < a.den) (hb : 0 < b.den) (h : Q.le a b) :
    rne f a ≤ rne f b := by
  have hr := (Q.le_iff ha hb).1 h
  by_cases hn : a.num = 0
  · rw [rne_of_num_zero f hn]; exact Nat.zero_le _
  · have hn' : b.num ≠ 0 := by
      intro h0
      have := Q.toRat_pos ha hn
      rw [(Q.num_eq_zero_iff hb).1 h0] at hr
      linarith
    rw [rne_eq_min f hn, rne_eq_min f hn']
    have := bitsU_mono f ha hb hn hn' hr
    omega

/-! ### Dyadic values: `ofDyadic`, `decode`, and idempotence of `rne` on finite floats -/

theorem ofDyadic_den_pos (m : Nat) (j : Int) : 0 < (ofDyadic m j).den := by
  unfold ofDyadic
  split
  · exact Nat.one_pos
  · exact Nat.pow_pos (by decide)

theorem ofDyadic_toRat (m : Nat) (j : Int) : (ofDyadic m j).toRat = (m:ℚ) * (2:ℚ)^j := by
  unfold ofDyadic Q.toRat
  split
  · rename_i h
    obtain ⟨n, rfl⟩ := Int.eq_ofNat_of_zero_le h
    simp
  · rename_i h
    obtain ⟨n, hn⟩ := Int.eq_ofNat_of_zero_le (show 0 ≤ -j by omega)
    have he : j = -(n:ℤ) := by omega
    subst he
    simp [div_eq_mul_inv]

theorem ofDyadic_num_eq_zero (m : Nat) (j : Int) : (ofDyadic m j).num = 0 ↔ m = 0 := by
  rw [Q.num_eq_zero_iff (ofDyadic_den_pos m j), ofDyadic_toRat]
  have := (two_zpow_pos j).ne'
  simp [this]

theorem nat_div_eq_of_rat {A B n : Nat} (hB : 0 < B) (h : (A:ℚ)/B = n) : A / B = n := by
  have : (A:ℚ)/B = ((n*1 : Nat) : ℚ)/((1:Nat):ℚ) := by simp [h]
  rw [nat_div_congr_rat hB Nat.one_pos this]; simp

theorem ulpExp_of_dyadic (f : Fmt) {v : Q} (hv : 0 < v.den) {m : Nat} (hm : 0 < m) {k : Int}
    (h : v.toRat = (m:ℚ) * (2:ℚ)^k) :
    ulpExp f v = max (((Nat.log2 m : Nat) : Int) + k - f.mbits) f.kmin := by
  have hn : v.num ≠ 0 := by
    rw [Ne, Q.num_eq_zero_iff hv, h]
    have := (two_zpow_pos k).ne'
    have : (m:ℚ) ≠ 0 := by exact_mod_cast hm.ne'
    simp [*]
  obtain ⟨m1, m2⟩ := log2_bounds_rat hm
  have hfl : flog2 v.num v.den = ((Nat.log2 m : Nat) : Int) + k := by
    apply flog2_unique (Nat.pos_of_ne_zero hn) hv
    · show _ ≤ v.toRat
      rw [h, zpow_add₀ (by norm_num)]
      exact mul_le_mul_of_nonneg_right m1 (two_zpow_pos _).le
    · show v.toRat < _
      have : ((Nat.log2 m : Nat) : Int) + k + 1 = (((Nat.log2 m : Nat) : Int) + 1) + k := by ring
      rw [h, this, zpow_add₀ (by norm_num)]
      exact mul_lt_mul_of_pos_right m2 (two_zpow_pos _)
  unfold ulpExp
  rw [hfl]

/-- A value that is exactly `m * 2^k` with `(m, k)` a canonical float is rounded to itself. -/
theorem mant_of_dyadic (f : Fmt) {v : Q} (hv : 0 < v.den) {m : Nat} (hm : 0 < m) {k : Int}
    (h : v.toRat = (m:ℚ) * (2:ℚ)^k) (hk : f.kmin ≤ k) (hlt : m < 2^(f.mbits+1))
    (hc : k = f.kmin ∨ 2^f.mbits ≤ m) :
    ulpExp f v = k ∧ mant f v = m ∧
      (scaleP2 v (ulpExp f v)).1 / (scaleP2 v (ulpExp f v)).2 = m := by
  have hu : ulpExp f v = k := by
    rw [ulpExp_of_dyadic f hv hm h]
    have h1 : Nat.log2 m < f.mbits + 1 := (Nat.log2_lt hm.ne').2 hlt
    rcases hc with hc | hc
    · omega
    · have h2 : f.mbits ≤ Nat.log2 m := by
        by_contra hcon
        have : m < 2^f.mbits := (Nat.log2_lt hm.ne').1 (by omega)
        omega
      omega
  have hq : ((scaleP2 v k).1 : ℚ) / ((scaleP2 v k).2 : ℚ) = m := by
    rw [scaleP2_rat hv, h, mul_div_assoc, div_self (two_zpow_pos k).ne', mul_one]
  refine ⟨hu, ?_, ?_⟩
  · unfold mant; rw [hu]; exact rhe_eq_of_rat (scaleP2_den_pos hv _) hq
  · rw [hu]; exact nat_div_eq_of_rat (scaleP2_den_pos hv _) hq

theorem decodeQ_den_pos (f : Fmt) (bits : Nat) : 0 < (decodeQ f bits).den :=
  ofDyadic_den_pos _ _

theorem decodeQ_toRat (f : Fmt) (bits : Nat) :
    (decodeQ f bits).toRat = ((decode f bits).1 : ℚ) * (2:ℚ)^(decode f bits).2 :=
  ofDyadic_toRat _ _

/-- Canonical-form facts about `decode`. -/
theorem decode_canonical (f : Fmt) (bits : Nat) :
    f.kmin ≤ (decode f bits).2 ∧ (decode f bits).1 < 2^(f.mbits+1) ∧
    ((decode f bits).2 = f.kmin ∨ 2^f.mbits ≤ (decode f bits).1) ∧
    (decode f bits).1 + ((decode f bits).2 - f.kmin).toNat * 2^f.mbits = bits ∧
    ((decode f bits).1 = 0 ↔ bits = 0) := by
  have hM : 0 < 2^f.mbits := Nat.pow_pos (by decide)
  have h1 := Nat.div_add_mod bits (2^f.mbits)
  have h2 := Nat.mod_lt bits hM
  unfold decode
  simp only [Nat.pow_succ]
  generalize bits / 2^f.mbits = e at *
  generalize bits % 2^f.mbits = fr at *
  generalize 2^f.mbits = M at *
  split
  · rename_i he
    subst he
    simp only [Int.sub_self, Int.toNat_zero, Nat.zero_mul]
    refine ⟨by omega, by omega, Or.inl trivial, by omega, by omega⟩
  · rename_i he
    obtain ⟨e', rfl⟩ : ∃ e', e = e' + 1 := ⟨e - 1, by omega⟩
    have : (f.kmin + ((e' + 1 : Nat) : Int) - 1 - f.kmin).toNat = e' := by omega
    simp only [this]
    rw [Nat.mul_add] at h1
    rw [Nat.mul_comm e']
    refine ⟨by omega, by omega, Or.inr (by omega), by omega, by omega⟩

/-- (5) `rne` and `rneTrunc` are the identity on finite floats. -/
theorem rne_decode (f : Fmt) {bits : Nat} (hb : bits < f.infBits) :
    rne f (decodeQ f bits) = bits ∧ rneTrunc f (decodeQ f bits) = bits := by
  obtain ⟨c1, c2, c3, c4, c5⟩ := decode_canonical f bits
  by_cases h0 : bits = 0
  · have : (decodeQ f bits).num = 0 := by
      unfold decodeQ; rw [ofDyadic_num_eq_zero]; exact c5.2 h0
    rw [rne_of_num_zero f this, rneTrunc_of_num_zero f this, h0]; exact ⟨rfl, rfl⟩
  · have hm : 0 < (decode f bits).1 := Nat.pos_of_ne_zero (fun h => h0 (c5.1 h))
    have hn : (decodeQ f bits).num ≠ 0 := by
      unfold decodeQ; rw [Ne, ofDyadic_num_eq_zero]; omega
    obtain ⟨d1, d2, d3⟩ := mant_of_dyadic f (decodeQ_den_pos f bits) hm (decodeQ_toRat f bits) c1 c2 c3
    constructor
    · rw [rne_eq_min f hn]; unfold bitsU; rw [d2, d1, c4]; omega
    · rw [rneTrunc_of_num_ne f hn, d3, d1, c4]; omega

/-! ### Decimal values: `ofDec`, `ofDigits`, `digitsValue` -/

theorem ofDec_den_pos (d : Nat) (e : Int) : 0 < (ofDec d e).den := by
  unfold ofDec
  split
  · exact Nat.one_pos
  · exact Nat.pow_pos (by decide)

theorem ofDec_toRat (d : Nat) (e : Int) : (ofDec d e).toRat = (d:ℚ) * (10:ℚ)^e := by
  unfold ofDec Q.toRat
  split
  · rename_i h
    obtain ⟨n, rfl⟩ := Int.eq_ofNat_of_zero_le h
    simp
  · rename_i h
    obtain ⟨n, hn⟩ := Int.eq_ofNat_of_zero_le (show 0 ≤ -e by omega)
    have he : e = -(n:ℤ) := by omega
    subst he
    simp [div_eq_mul_inv]

theorem digitsValue_den_pos (int frac : List UInt8) (e : Int) : 0 < (digitsValue int frac e).den :=
  ofDec_den_pos _ _

theorem digitsValue_toRat (int frac : List UInt8) (e : Int) :
    (digitsValue int frac e).toRat
      = (ofDigits (int ++ frac) : ℚ) * (10:ℚ)^(e - (frac.length : Int)) :=
  ofDec_toRat _ _

theorem ofDigits_foldl (acc : Nat) (b : List UInt8) :
    b.foldl (fun acc c => acc * 10 + digitVal c) acc = acc * 10^b.length + ofDigits b := by
  unfold ofDigits
  induction b generalizing acc with
  | nil => simp
  | cons c cs ih =>
    simp only [List.foldl_cons, List.length_cons]
    rw [ih, ih (0 * 10 + digitVal c), Nat.pow_succ]
    ring

theorem ofDigits_append (a b : List UInt8) :
    ofDigits (a ++ b) = ofDigits a * 10^b.length + ofDigits b := by
  show List.foldl _ 0 (a ++ b) = _
  rw [List.foldl_append, ofDigits_foldl]
  rfl

theorem ofDigits_nil : ofDigits [] = 0 := rfl

theorem ofDigits_singleton (c : UInt8) : ofDigits [c] = digitVal c := by
  simp [ofDigits]

/-- `d·10 × 10^(j-1)` and `d × 10^j` are the same value. -/
theorem ofDec_shift (d : Nat) (j : Int) : Q.eqv (ofDec (d * 10) (j - 1)) (ofDec d j) := by
  rw [Q.eqv_iff (ofDec_den_pos _ _) (ofDec_den_pos _ _), ofDec_toRat, ofDec_toRat,
    zpow_sub_one₀ (by norm_num)]
  push_cast
  field_simp

/-- (8a) A trailing fraction zero does not change the value. -/
theorem digitsValue_append_zero (int frac : List UInt8) (e : Int) :
    Q.eqv (digitsValue int (frac ++ [48]) e) (digitsValue int frac e) := by
  unfold digitsValue
  rw [← List.append_assoc, ofDigits_append (int ++ frac) [48]]
  have h1 : ofDigits [48] = 0 := by decide
  have h2 : (e - ((frac ++ [48]).length : Int)) = (e - (frac.length : Int)) - 1 := by
    simp only [List.length_append, List.length_cons, List.length_nil]; omega
  rw [h1, h2]
  simp only [List.length_cons, List.length_nil, Nat.zero_add, Nat.pow_one, Nat.add_zero]
  exact ofDec_shift _ _

/-- (8b) Moving the decimal point one place to the left while incrementing the exponent. -/
theorem digitsValue_shift_point (int frac : List UInt8) (c : UInt8) (e : Int) :
    digitsValue (int ++ [c]) frac e = digitsValue int (c :: frac) (e + 1) := by
  unfold digitsValue
  have h2 : (e + 1 - ((c :: frac).length : Int)) = (e - (frac.length : Int)) := by
    simp only [List.length_cons]; omega
  rw [h2, List.append_assoc, List.singleton_append]

theorem Q.eqv_refl (a : Q) : Q.eqv a a := by unfold Q.eqv; rfl

/-! ### Exact characterisation of `rhe` around the midpoint -/

theorem rhe_cases (A : Nat) {B : Nat} (hB : 0 < B) :
    (2*A < (2*(A/B)+1)*B → rhe A B = A/B) ∧
    ((2*(A/B)+1)*B < 2*A → rhe A B = A/B + 1) ∧
    (2*A = (2*(A/B)+1)*B → rhe A B = if (A/B) % 2 = 0 then A/B else A/B + 1) := by
  have h1 := Nat.div_add_mod A B
  have h2 := Nat.mod_lt A hB
  have e : (2*(A/B)+1)*B = 2*(B*(A/B)) + B := by ring
  rw [e]
  unfold rhe
  simp only
  generalize A / B = q at *
  generalize A % B = r at *
  generalize B * q = t at *
  refine ⟨fun h => ?_, fun h => ?_, fun h => ?_⟩
  · rw [if_neg (by omega)]
  · rw [if_pos (by omega)]
  · split <;> split <;> omega

theorem rhe_eq_zero_iff (A : Nat) {B : Nat} (hB : 0 < B) : rhe A B = 0 ↔ 2*A ≤ B := by
  have h1 := Nat.div_add_mod A B
  have h2 := Nat.mod_lt A hB
  constructor
  · intro h
    have hq : A / B = 0 := by have := div_le_rhe A B; rw [h] at this; exact Nat.le_zero.1 this
    rw [hq, Nat.mul_zero, Nat.zero_add] at h1
    unfold rhe at h
    simp only [hq] at h
    split at h <;> omega
  · intro h
    have hq : A / B = 0 := Nat.div_eq_of_lt (by omega)
    rw [hq, Nat.mul_zero, Nat.zero_add] at h1
    unfold rhe
    simp only
    rw [hq, if_neg (by omega)]

theorem rhe_le_of_lt_half {A B n : Nat} (hB : 0 < B) (h : 2*A < (2*n+1)*B) : rhe A B ≤ n := by
  have h1 := Nat.div_add_mod A B
  have h2 := Nat.mod_lt A hB
  have e : (2*n+1)*B = 2*(B*n) + B := by ring
  rw [e] at h
  rcases Nat.lt_trichotomy (A / B) n with hlt | heq | hgt
  · have := rhe_le_div_succ A B; omega
  · unfold rhe
    simp only
    rw [heq] at h1 ⊢
    rw [if_neg (by omega)]
  · have hm := Nat.mul_le_mul_left B (show n + 1 ≤ A / B from hgt)
    rw [Nat.mul_add] at hm
    omega

/-! ### Format facts and the thresholds to zero and to infinity -/

/-- Ulp exponent of the top binade: `emax - mbits` (971 for f64, 104 for f32). -/
def Fmt.kmax (f : Fmt) : Int := (2:Int)^(f.ebits-1) - 1 - f.mbits

/-- The smallest value that rounds to infinity: `(2^(mbits+2) - 1) · 2^(kmax-1)`. -/
def Fmt.infThreshold (f : Fmt) : Q := ofDyadic (2^(f.mbits+2) - 1) (f.kmax - 1)

/-- Half the smallest subnormal: the largest value that rounds to zero. -/
def Fmt.zeroThreshold (f : Fmt) : Q := ofDyadic 1 (f.kmin - 1)

theorem fmt_facts (f : Fmt) (hE : 2 ≤ f.ebits) :
    ∃ n : Nat, 1 ≤ n ∧ f.kmax - f.kmin = (n : Int) ∧ f.infBits = n * 2^f.mbits + 2 * 2^f.mbits := by
  obtain ⟨e', he'⟩ : ∃ e', f.ebits = e' + 2 := ⟨f.ebits - 2, by omega⟩
  have hP : 2 ≤ 2^(e'+1) := by
    have := Nat.pow_le_pow_right (show 0 < 2 by decide) (show 1 ≤ e'+1 by omega)
    omega
  refine ⟨2 * 2^(e'+1) - 3, by omega, ?_, ?_⟩
  · unfold Fmt.kmax Fmt.kmin
    rw [he']
    have : ((2:Int)^(e' + 2 - 1)) = ((2^(e'+1) : Nat) : Int) := by
      push_cast; rfl
    rw [this]
    omega
  · unfold Fmt.infBits
    rw [he', ← Nat.add_mul]
    congr 1
    rw [show e' + 2 = (e'+1) + 1 from rfl, Nat.pow_succ]
    omega

theorem infBits_pos (f : Fmt) (hE : 1 ≤ f.ebits) : 0 < f.infBits := by
  unfold Fmt.infBits
  apply Nat.mul_pos _ (Nat.pow_pos (by decide))
  have := Nat.pow_le_pow_right (show 0 < 2 by decide) hE
  omega

/-- (6a) `rne` never exceeds the bit pattern of infinity. -/
theorem rne_le_inf (f : Fmt) (v : Q) : rne f v ≤ f.infBits := by
  by_cases hn : v.num = 0
  · rw [rne_of_num_zero f hn]; exact Nat.zero_le _
  · rw [rne_eq_min f hn]; exact Nat.min_le_right _ _

theorem rneTrunc_le_inf (f : Fmt) (v : Q) : rneTrunc f v ≤ f.infBits := by
  by_cases hn : v.num = 0
  · rw [rneTrunc_of_num_zero f hn]; exact Nat.zero_le _
  · rw [rneTrunc_of_num_ne f hn]; exact Nat.min_le_right _ _

theorem scaled_cmp {A B : Nat} (hB : 0 < B) (c d : Nat) (hd : 0 < d) :
    ((A:ℚ)/B ≤ (c:ℚ)/d ↔ d * A ≤ c * B) ∧ ((A:ℚ)/B < (c:ℚ)/d ↔ d * A < c * B) ∧
    ((c:ℚ)/d ≤ (A:ℚ)/B ↔ c * B ≤ d * A) := by
  have hB' : (0:ℚ) < B := by exact_mod_cast hB
  have hd' : (0:ℚ) < d := by exact_mod_cast hd
  refine ⟨?_, ?_, ?_⟩
  · rw [div_le_div_iff₀ hB' hd', mul_comm]; exact_mod_cast Iff.rfl
  · rw [div_lt_div_iff₀ hB' hd', mul_comm]; exact_mod_cast Iff.rfl
  · rw [div_le_div_iff₀ hd' hB', mul_comm (A:ℚ)]; exact_mod_cast Iff.rfl

/-- (6b) `rne f v = 0` exactly when `v ≤ 2^(kmin-1)` (half the least subnormal; the tie goes to
    the even pattern 0). -/
theorem rne_eq_zero_iff (f : Fmt) (hE : 1 ≤ f.ebits) {v : Q} (hv : 0 < v.den) :
    rne f v = 0 ↔ Q.le v f.zeroThreshold := by
  unfold Fmt.zeroThreshold
  rw [Q.le_iff hv (ofDyadic_den_pos _ _), ofDyadic_toRat, Nat.cast_one, one_mul]
  by_cases hn : v.num = 0
  · rw [rne_of_num_zero f hn, (Q.num_eq_zero_iff hv).1 hn]
    exact iff_of_true rfl (two_zpow_pos _).le
  · have hinf := infBits_pos f hE
    have hM : 0 < 2^f.mbits := Nat.pow_pos (by decide)
    have hB := scaleP2_den_pos hv (ulpExp f v)
    have hsc := scaleP2_rat hv (ulpExp f v)
    obtain ⟨g1, g2⟩ := flog2_spec_rat (Nat.pos_of_ne_zero hn) hv
    have hhalf : (2:ℚ)^(f.kmin - 1) = (2:ℚ)^f.kmin / 2 := by
      rw [zpow_sub_one₀ (by norm_num)]; rfl
    rw [rne_eq_min f hn]
    constructor
    · intro h
      have hb : bitsU f v = 0 := by omega
      unfold bitsU at hb
      have hm : mant f v = 0 := by omega
      have hk : (ulpExp f v - f.kmin).toNat = 0 := by
        rcases Nat.eq_zero_or_pos (ulpExp f v - f.kmin).toNat with h0 | h0
        · exact h0
        · have := Nat.mul_le_mul_right (2^f.mbits) h0; omega
      have hk' : ulpExp f v = f.kmin := by have := kmin_le_ulpExp f v; omega
      unfold mant at hm
      rw [rhe_eq_zero_iff _ hB] at hm
      have := ((scaled_cmp (A := (scaleP2 v (ulpExp f v)).1) hB 1 2 (by decide)).1).2 (by omega)
      rw [hsc, hk', div_le_iff₀ (two_zpow_pos _)] at this
      rw [hhalf]; push_cast at this; linarith
    · intro h
      have hlt : v.toRat < (2:ℚ)^(f.kmin - 1 + 1) := by
        rw [zpow_add_one₀ (by norm_num)]
        have := two_zpow_pos (f.kmin - 1)
        linarith
      have he := two_zpow_lt_imp g1 hlt
      have hk' : ulpExp f v = f.kmin := by unfold ulpExp; omega
      have hq : ((scaleP2 v (ulpExp f v)).1 : ℚ) / (scaleP2 v (ulpExp f v)).2 ≤ ((1:Nat):ℚ)/((2:Nat):ℚ) := by
        rw [hsc, hk', div_le_iff₀ (two_zpow_pos _)]
        rw [hhalf] at h; push_cast; linarith
      have := ((scaled_cmp hB 1 2 (by decide)).1).1 hq
      have hm : mant f v = 0 := by
        unfold mant; exact (rhe_eq_zero_iff (scaleP2 v (ulpExp f v)).1 hB).2 (by omega)
      unfold bitsU
      rw [hm, hk']
      simp

theorem infThreshold_den_pos (f : Fmt) : 0 < f.infThreshold.den := ofDyadic_den_pos _ _

theorem infThreshold_facts (f : Fmt) :
    ∃ c : Nat, 2 * 2^f.mbits ≤ c ∧ c + 1 = 4 * 2^f.mbits ∧
      f.infThreshold.toRat = (c:ℚ) * (2:ℚ)^(f.kmax - 1) ∧
      f.infThreshold.toRat / (2:ℚ)^f.kmax = (c:ℚ) / ((2:Nat):ℚ) ∧
      (2:ℚ)^(f.kmax + f.mbits) ≤ f.infThreshold.toRat ∧
      f.infThreshold.toRat < (2:ℚ)^(f.kmax + f.mbits + 1) := by
  have hM : 0 < 2^f.mbits := Nat.pow_pos (by decide)
  have hc1 : 2 * 2^f.mbits ≤ 2^(f.mbits+2) - 1 := by rw [Nat.pow_succ, Nat.pow_succ]; omega
  have hc2 : 2^(f.mbits+2) - 1 + 1 = 4 * 2^f.mbits := by rw [Nat.pow_succ, Nat.pow_succ]; omega
  have hT : f.infThreshold.toRat = ((2^(f.mbits+2) - 1 : Nat):ℚ) * (2:ℚ)^(f.kmax - 1) :=
    ofDyadic_toRat _ _
  generalize 2^(f.mbits+2) - 1 = c at *
  have hc1' : (2:ℚ) * (2:ℚ)^(f.mbits:ℤ) ≤ (c:ℚ) := by
    rw [zpow_natCast]; exact_mod_cast hc1
  have hc2' : (c:ℚ) < 4 * (2:ℚ)^(f.mbits:ℤ) := by
    rw [zpow_natCast]
    have : c < 4 * 2^f.mbits := by omega
    exact_mod_cast this
  have hp := two_zpow_pos (f.kmax - 1)
  have e0 : (2:ℚ)^f.kmax = (2:ℚ)^(f.kmax - 1) * 2 := by
    rw [← zpow_add_one₀ (by norm_num)]; congr 1; ring
  have e1 : (2:ℚ)^(f.kmax + f.mbits) = (2 * (2:ℚ)^(f.mbits:ℤ)) * (2:ℚ)^(f.kmax - 1) := by
    rw [zpow_add₀ (by norm_num), e0]; ring
  have e2 : (2:ℚ)^(f.kmax + f.mbits + 1) = (4 * (2:ℚ)^(f.mbits:ℤ)) * (2:ℚ)^(f.kmax - 1) := by
    rw [zpow_add_one₀ (by norm_num), e1]; ring
  refine ⟨c, hc1, hc2, hT, ?_, ?_, ?_⟩
  · rw [hT, e0]; push_cast; field_simp
  · rw [hT, e1]; exact mul_le_mul_of_nonneg_right hc1' hp.le
  · rw [hT, e2]; exact mul_lt_mul_of_pos_right hc2' hp

theorem rhe_top (M : Nat) {c : Nat} (hc : c + 1 = 4 * M) : rhe c 2 = 2 * M := by
  unfold rhe
  simp only
  split <;> omega

theorem bitsU_ge_inf (f : Fmt) (hE : 2 ≤ f.ebits) {v : Q} (hv : 0 < v.den) (hn : v.num ≠ 0)
    (h : f.infThreshold.toRat ≤ v.toRat) : f.infBits ≤ bitsU f v := by
  obtain ⟨n, hn1, hn2, hinf⟩ := fmt_facts f hE
  obtain ⟨c, hc1, hc2, _, hT2, hT3, _⟩ := infThreshold_facts f
  obtain ⟨_, g2⟩ := flog2_spec_rat (Nat.pos_of_ne_zero hn) hv
  have hM : 0 < 2^f.mbits := Nat.pow_pos (by decide)
  have he := two_zpow_lt_imp (le_trans hT3 h) g2
  have hk : f.kmax ≤ ulpExp f v := by unfold ulpExp; omega
  have hB := scaleP2_den_pos hv (ulpExp f v)
  rw [hinf]
  unfold bitsU
  rcases Int.lt_or_eq_of_le hk with hlt | heq
  · have h2 := le_mant f hv hn (by omega)
    have h3 : n + 1 ≤ (ulpExp f v - f.kmin).toNat := by omega
    have h4 := Nat.mul_le_mul_right (2^f.mbits) h3
    rw [Nat.add_mul] at h4
    omega
  · have h3 : (ulpExp f v - f.kmin).toNat = n := by omega
    rw [h3]
    have h2 : 2 * 2^f.mbits ≤ mant f v := by
      rw [← rhe_top _ hc2]
      unfold mant
      apply rhe_mono_rat (by decide) hB
      rw [scaleP2_rat hv, ← heq, ← hT2]
      exact div_le_div_of_nonneg_right h (two_zpow_pos _).le
    omega

theorem bitsU_lt_inf (f : Fmt) (hE : 2 ≤ f.ebits) {v : Q} (hv : 0 < v.den) (hn : v.num ≠ 0)
    (h : v.toRat < f.infThreshold.toRat) : bitsU f v < f.infBits := by
  obtain ⟨n, hn1, hn2, hinf⟩ := fmt_facts f hE
  obtain ⟨c, hc1, hc2, _, hT2, _, hT4⟩ := infThreshold_facts f
  obtain ⟨g1, _⟩ := flog2_spec_rat (Nat.pos_of_ne_zero hn) hv
  have hM : 0 < 2^f.mbits := Nat.pow_pos (by decide)
  have he := two_zpow_lt_imp g1 (lt_trans h hT4)
  have hk : ulpExp f v ≤ f.kmax := by unfold ulpExp; omega
  have hk0 := kmin_le_ulpExp f v
  have hB := scaleP2_den_pos hv (ulpExp f v)
  rw [hinf]
  unfold bitsU
  rcases Int.lt_or_eq_of_le hk with hlt | heq
  · have h2 := mant_le f hv hn
    have h3 : (ulpExp f v - f.kmin).toNat + 1 ≤ n := by omega
    have h4 := Nat.mul_le_mul_right (2^f.mbits) h3
    rw [Nat.add_mul, Nat.pow_succ] at *
    omega
  · have h3 : (ulpExp f v - f.kmin).toNat = n := by omega
    rw [h3]
    have h2 : mant f v ≤ 2 * 2^f.mbits - 1 := by
      unfold mant
      apply rhe_le_of_lt_half hB
      have hq : ((scaleP2 v (ulpExp f v)).1 : ℚ) / (scaleP2 v (ulpExp f v)).2 < (c:ℚ)/((2:Nat):ℚ) := by
        rw [scaleP2_rat hv, heq, ← hT2]
        exact div_lt_div_of_pos_right h (two_zpow_pos _)
      have := ((scaled_cmp (A := (scaleP2 v (ulpExp f v)).1) hB c 2 (by decide)).2.1).1 hq
      have e : 2 * (2 * 2^f.mbits - 1) + 1 = c := by omega
      rw [e]; exact this
    omega

/-- (6c) `rne f v` is infinity exactly when `v ≥ (2^(mbits+2) - 1) · 2^(emax - mbits - 1)`
    (the midpoint between the largest finite float and `2^(emax+1)`; the tie goes to infinity). -/
theorem rne_eq_inf_iff (f : Fmt) (hE : 2 ≤ f.ebits) {v : Q} (hv : 0 < v.den) :
    rne f v = f.infBits ↔ Q.le f.infThreshold v := by
  rw [Q.le_iff (infThreshold_den_pos f) hv]
  have hinf := infBits_pos f (by omega)
  by_cases hn : v.num = 0
  · rw [rne_of_num_zero f hn, (Q.num_eq_zero_iff hv).1 hn]
    obtain ⟨c, hc1, hc2, _, _, hT3, _⟩ := infThreshold_facts f
    have := lt_of_lt_of_le (two_zpow_pos _) hT3
    constructor
    · intro h; omega
    · intro h; linarith
  · rw [rne_eq_min f hn]
    constructor
    · intro h
      by_contra hlt
      have := bitsU_lt_inf f hE hv hn (not_le.1 hlt)
      omega
    · intro h
      have := bitsU_ge_inf f hE hv hn h
      omega

/-! ### `rne` versus `rneTrunc`: the rounding decision at the midpoint -/

theorem decode_encode (f : Fmt) {q : Nat} {k : Int} (hk : f.kmin ≤ k) (hq : q < 2^(f.mbits+1))
    (hc : k = f.kmin ∨ 2^f.mbits ≤ q) :
    decode f (q + (k - f.kmin).toNat * 2^f.mbits) = (q, k) := by
  have hM : 0 < 2^f.mbits := Nat.pow_pos (by decide)
  rw [Nat.pow_succ] at hq
  unfold decode
  simp only
  generalize hj : (k - f.kmin).toNat = j
  generalize 2^f.mbits = M at *
  rcases Nat.lt_or_ge q M with hlt | hge
  · have hj0 : j = 0 := by omega
    subst hj0
    rw [Nat.zero_mul, Nat.add_zero, Nat.div_eq_of_lt hlt, Nat.mod_eq_of_lt hlt, if_pos rfl]
    congr 1; omega
  · have e : q + j * M = (q - M) + (j + 1) * M := by rw [Nat.add_mul]; omega
    rw [e, Nat.add_mul_div_right _ _ hM, Nat.add_mul_mod_self_right,
      Nat.div_eq_of_lt (by omega), Nat.mod_eq_of_lt (by omega), if_neg (by omega)]
    congr 1
    · omega
    · omega

theorem nat_div_lt_of_rat {A B n : Nat} (hB : 0 < B) (h : (A:ℚ)/B < n) : A / B < n := by
  rw [Nat.div_lt_iff_lt_mul hB]
  rw [div_lt_iff₀ (by exact_mod_cast hB)] at h
  exact_mod_cast h

theorem le_nat_div_of_rat {A B n : Nat} (hB : 0 < B) (h : (n:ℚ) ≤ (A:ℚ)/B) : n ≤ A / B := by
  rw [Nat.le_div_iff_mul_le hB]
  rw [le_div_iff₀ (by exact_mod_cast hB)] at h
  exact_mod_cast h

/-- The truncated significand of `v` at its ulp exponent. -/
def mantT (f : Fmt) (v : Q) : Nat := (scaleP2 v (ulpExp f v)).1 / (scaleP2 v (ulpExp f v)).2

theorem rneTrunc_eq_min (f : Fmt) {v : Q} (hn : v.num ≠ 0) :
    rneTrunc f v = min (mantT f v + (ulpExp f v - f.kmin).toNat * 2^f.mbits) f.infBits :=
  rneTrunc_of_num_ne f hn

/-- A finite truncated result decodes to the truncated significand and the ulp exponent. -/
theorem decode_rneTrunc (f : Fmt) {v : Q} (hv : 0 < v.den) (hn : v.num ≠ 0)
    (hfin : rneTrunc f v < f.infBits) :
    rneTrunc f v = mantT f v + (ulpExp f v - f.kmin).toNat * 2^f.mbits ∧
    decode f (rneTrunc f v) = (mantT f v, ulpExp f v) := by
  have hb : rneTrunc f v = mantT f v + (ulpExp f v - f.kmin).toNat * 2^f.mbits := by
    rw [rneTrunc_eq_min f hn] at hfin ⊢; omega
  refine ⟨hb, ?_⟩
  rw [hb]
  have hB := scaleP2_den_pos hv (ulpExp f v)
  apply decode_encode f (kmin_le_ulpExp f v)
  · apply nat_div_lt_of_rat hB
    rw [scaleP2_rat hv]; exact scaled_lt f hv hn
  · rcases Int.lt_or_eq_of_le (kmin_le_ulpExp f v) with hlt | heq
    · right
      apply le_nat_div_of_rat hB
      rw [scaleP2_rat hv]; exact scaled_ge f hv hn hlt
    · left; exact heq.symm

theorem decode_zero (f : Fmt) : decode f 0 = (0, f.kmin) := by
  unfold decode; simp

/-- The midpoint between the float `bits` and its successor: `(2m+1)·2^(k-1)`. -/
def midpoint (f : Fmt) (bits : Nat) : Q :=
  ofDyadic (2 * (decode f bits).1 + 1) ((decode f bits).2 - 1)

theorem midpoint_den_pos (f : Fmt) (bits : Nat) : 0 < (midpoint f bits).den := ofDyadic_den_pos _ _

/-- (7) With `b = rneTrunc f v` finite and `(m, k) = decode f b`: `rne f v` is `b` below the
    midpoint `(2m+1)·2^(k-1)`, `b+1` above it, and on the midpoint the one with even significand. -/
theorem rne_between (f : Fmt) {v : Q} (hv : 0 < v.den) (hfin : rneTrunc f v < f.infBits) :
    (Q.lt v (midpoint f (rneTrunc f v)) → rne f v = rneTrunc f v) ∧
    (Q.lt (midpoint f (rneTrunc f v)) v → rne f v = rneTrunc f v + 1) ∧
    (Q.eqv v (midpoint f (rneTrunc f v)) →
      rne f v = if (decode f (rneTrunc f v)).1 % 2 = 0 then rneTrunc f v else rneTrunc f v + 1) := by
  have hmd := midpoint_den_pos f (rneTrunc f v)
  rw [Q.lt_iff hv hmd, Q.lt_iff hmd hv, Q.eqv_iff hv hmd]
  unfold midpoint
  rw [ofDyadic_toRat]
  by_cases hn : v.num = 0
  · rw [rneTrunc_of_num_zero f hn, rne_of_num_zero f hn, (Q.num_eq_zero_iff hv).1 hn, decode_zero]
    have : (0:ℚ) < ((2 * 0 + 1 : Nat) : ℚ) * (2:ℚ)^(f.kmin - 1) := by
      have := two_zpow_pos (f.kmin - 1); push_cast; linarith
    refine ⟨fun _ => rfl, fun h => ?_, fun h => ?_⟩
    · simp only at h; linarith
    · simp only at h; linarith
  · obtain ⟨hb, hd⟩ := decode_rneTrunc f hv hn hfin
    rw [hd]
    simp only
    have hB := scaleP2_den_pos hv (ulpExp f v)
    have hsc := scaleP2_rat hv (ulpExp f v)
    have e0 : (2:ℚ)^(ulpExp f v - 1) = (2:ℚ)^(ulpExp f v) / 2 := by
      rw [zpow_sub_one₀ (by norm_num)]; rfl
    have hp := two_zpow_pos (ulpExp f v)
    -- the three comparisons, transported to the scaled quotient
    have key : ((2 * mantT f v + 1 : Nat) : ℚ) * (2:ℚ)^(ulpExp f v - 1)
        = (((2 * mantT f v + 1 : Nat) : ℚ) / ((2:Nat):ℚ)) * (2:ℚ)^(ulpExp f v) := by
      rw [e0]; push_cast; ring
    have hx : v.toRat = (((scaleP2 v (ulpExp f v)).1 : ℚ) / (scaleP2 v (ulpExp f v)).2)
        * (2:ℚ)^(ulpExp f v) := by
      rw [hsc]; field_simp
    rw [key, hx, mul_lt_mul_iff_left₀ hp, mul_lt_mul_iff_left₀ hp, mul_left_inj' hp.ne']
    obtain ⟨c1, c2, c3⟩ := rhe_cases (scaleP2 v (ulpExp f v)).1 hB
    obtain ⟨s1, s2, s3⟩ := scaled_cmp (A := (scaleP2 v (ulpExp f v)).1) hB (2 * mantT f v + 1) 2 (by decide)
    have hr : rne f v = min (mant f v + (ulpExp f v - f.kmin).toNat * 2^f.mbits) f.infBits :=
      rne_eq_min f hn
    refine ⟨fun h => ?_, fun h => ?_, fun h => ?_⟩
    · have h' := s2.1 h
      have hm : mant f v = mantT f v := c1 (by unfold mantT at h'; omega)
      rw [hr, hm]; omega
    · have h1 := not_le.2 h
      rw [s1] at h1
      have hm : mant f v = mantT f v + 1 := c2 (by unfold mantT at h1; omega)
      rw [hr, hm]; omega
    · have h1 := s1.1 h.le
      have h2 := s3.1 h.ge
      have hm := c3 (by unfold mantT at h1 h2; omega)
      rw [hr]
      show min (mant f v + _) _ = _
      unfold mant
      rw [hm]
      show _ = if mantT f v % 2 = 0 then _ else _
      unfold mantT at *
      split <;> omega

/-- (7') `rne` is the truncated float or its successor. -/
theorem rne_trunc_or_succ (f : Fmt) (v : Q) (hfin : rneTrunc f v < f.infBits) :
    rne f v = rneTrunc f v ∨ rne f v = rneTrunc f v + 1 := by
  by_cases hn : v.num = 0
  · left; rw [rneTrunc_of_num_zero f hn, rne_of_num_zero f hn]
  · have h1 := div_le_rhe (scaleP2 v (ulpExp f v)).1 (scaleP2 v (ulpExp f v)).2
    have h2 := rhe_le_div_succ (scaleP2 v (ulpExp f v)).1 (scaleP2 v (ulpExp f v)).2
    rw [rneTrunc_of_num_ne f hn] at hfin ⊢
    rw [rne_of_num_ne f hn]
    omega

/-- When `mbits ≥ 1` the parity of the decoded significand is the parity of the bit pattern. -/
theorem decode_parity (f : Fmt) (hM : 1 ≤ f.mbits) (bits : Nat) :
    (decode f bits).1 % 2 = bits % 2 := by
  obtain ⟨m', hm'⟩ : ∃ m', f.mbits = m' + 1 := ⟨f.mbits - 1, by omega⟩
  have hd : 2 ∣ 2^f.mbits := by rw [hm', Nat.pow_succ]; exact Nat.dvd_mul_left _ _
  have h := Nat.mod_mod_of_dvd bits hd
  unfold decode
  simp only
  split
  · exact h
  · rw [Nat.add_mod, h, Nat.mod_eq_zero_of_dvd hd, Nat.zero_add, Nat.mod_mod]


/-! ### `Q` order relations are the order of the denoted rationals -/

theorem Q.eqv_symm {a b : Q} (h : Q.eqv a b) : Q.eqv b a := by
  unfold Q.eqv at *; omega

theorem Q.eqv_trans {a b c : Q} (ha : 0 < a.den) (hb : 0 < b.den) (hc : 0 < c.den)
    (h1 : Q.eqv a b) (h2 : Q.eqv b c) : Q.eqv a c := by
  rw [Q.eqv_iff ha hc, (Q.eqv_iff ha hb).1 h1, (Q.eqv_iff hb hc).1 h2]

theorem Q.le_trans {a b c : Q} (ha : 0 < a.den) (hb : 0 < b.den) (hc : 0 < c.den)
    (h1 : Q.le a b) (h2 : Q.le b c) : Q.le a c := by
  rw [Q.le_iff ha hc]
  exact _root_.le_trans ((Q.le_iff ha hb).1 h1) ((Q.le_iff hb hc).1 h2)

theorem Q.le_of_eqv {a b : Q} (h : Q.eqv a b) : Q.le a b := by
  unfold Q.eqv at h; unfold Q.le; omega

theorem Q.le_total (a b : Q) : Q.le a b ∨ Q.le b a := by
  unfold Q.le; omega

theorem Q.lt_iff_not_le {a b : Q} : Q.lt a b ↔ ¬ Q.le b a := by
  unfold Q.le Q.lt; omega

/-! ### Order structure of the finite floats, floor property of `rneTrunc` -/

/-- The truncated bit pattern before saturation. -/
def truncU (f : Fmt) (v : Q) : Nat := mantT f v + (ulpExp f v - f.kmin).toNat * 2^f.mbits

theorem rneTrunc_eq_min_truncU (f : Fmt) {v : Q} (hn : v.num ≠ 0) :
    rneTrunc f v = min (truncU f v) f.infBits :=
  rneTrunc_of_num_ne f hn

theorem mantT_lt (f : Fmt) {v : Q} (hv : 0 < v.den) (hn : v.num ≠ 0) :
    mantT f v < 2^(f.mbits+1) := by
  apply nat_div_lt_of_rat (scaleP2_den_pos hv _)
  rw [scaleP2_rat hv]; exact scaled_lt f hv hn

theorem le_mantT (f : Fmt) {v : Q} (hv : 0 < v.den) (hn : v.num ≠ 0) (hk : f.kmin < ulpExp f v) :
    2^f.mbits ≤ mantT f v := by
  apply le_nat_div_of_rat (scaleP2_den_pos hv _)
  rw [scaleP2_rat hv]; exact scaled_ge f hv hn hk

theorem decode_truncU (f : Fmt) {v : Q} (hv : 0 < v.den) (hn : v.num ≠ 0) :
    decode f (truncU f v) = (mantT f v, ulpExp f v) := by
  apply decode_encode f (kmin_le_ulpExp f v) (mantT_lt f hv hn)
  rcases Int.lt_or_eq_of_le (kmin_le_ulpExp f v) with hlt | heq
  · right; exact le_mantT f hv hn hlt
  · left; exact heq.symm

/-- The value of the next bit pattern is one ulp above (also across binade boundaries and into
    the pattern of infinity, which decodes to `2^(emax+1)`). -/
theorem decodeQ_succ_toRat (f : Fmt) (b : Nat) :
    (decodeQ f (b+1)).toRat = (((decode f b).1 + 1 : Nat) : ℚ) * (2:ℚ)^(decode f b).2 := by
  obtain ⟨c1, c2, c3, c4, _⟩ := decode_canonical f b
  rcases hd : decode f b with ⟨m, k⟩
  simp only [hd] at c1 c2 c3 c4 ⊢
  have hM : 0 < 2^f.mbits := Nat.pow_pos (by decide)
  rw [Nat.pow_succ] at c2
  rcases Nat.lt_or_ge (m + 1) (2^f.mbits * 2) with hlt | hge
  · have hb : b + 1 = (m + 1) + (k - f.kmin).toNat * 2^f.mbits := by omega
    have := decode_encode f (q := m + 1) c1 (by rw [Nat.pow_succ]; exact hlt) (by omega)
    rw [decodeQ_toRat, hb, this]
  · have hj : (k + 1 - f.kmin).toNat = (k - f.kmin).toNat + 1 := by omega
    have hb : b + 1 = 2^f.mbits + (k + 1 - f.kmin).toNat * 2^f.mbits := by
      rw [hj, Nat.add_mul]; omega
    have := decode_encode f (q := 2^f.mbits) (k := k + 1) (by omega)
      (by rw [Nat.pow_succ]; omega) (Or.inr (Nat.le_refl _))
    rw [decodeQ_toRat, hb, this]
    simp only
    have hm : m + 1 = 2 * 2^f.mbits := by omega
    rw [hm, zpow_add_one₀ (by norm_num)]
    push_cast; ring

theorem decodeQ_lt_succ (f : Fmt) (b : Nat) :
    (decodeQ f b).toRat < (decodeQ f (b+1)).toRat := by
  rw [decodeQ_succ_toRat, decodeQ_toRat]
  apply mul_lt_mul_of_pos_right _ (two_zpow_pos _)
  exact_mod_cast Nat.lt_succ_self _

/-- Bit patterns order like the values they denote. -/
theorem decodeQ_strictMono (f : Fmt) {a b : Nat} (h : a < b) :
    (decodeQ f a).toRat < (decodeQ f b).toRat := by
  induction b, h using Nat.le_induction with
  | base => exact decodeQ_lt_succ f a
  | succ n _ ih => exact lt_trans ih (decodeQ_lt_succ f n)

theorem decodeQ_mono (f : Fmt) {a b : Nat} (h : a ≤ b) :
    (decodeQ f a).toRat ≤ (decodeQ f b).toRat := by
  rcases Nat.lt_or_eq_of_le h with h | h
  · exact (decodeQ_strictMono f h).le
  · rw [h]

theorem decodeQ_lt_iff (f : Fmt) {a b : Nat} :
    Q.lt (decodeQ f a) (decodeQ f b) ↔ a < b := by
  rw [Q.lt_iff (decodeQ_den_pos f a) (decodeQ_den_pos f b)]
  constructor
  · intro h
    by_contra hc
    exact absurd (decodeQ_mono f (Nat.le_of_not_lt hc)) (not_le.2 h)
  · exact decodeQ_strictMono f

/-- Floor property before saturation: `truncU` is the float at or just below `v`. -/
theorem truncU_floor (f : Fmt) {v : Q} (hv : 0 < v.den) (hn : v.num ≠ 0) :
    (decodeQ f (truncU f v)).toRat ≤ v.toRat ∧ v.toRat < (decodeQ f (truncU f v + 1)).toRat := by
  have hB := scaleP2_den_pos hv (ulpExp f v)
  have hsc := scaleP2_rat hv (ulpExp f v)
  have hp := two_zpow_pos (ulpExp f v)
  rw [decodeQ_succ_toRat, decodeQ_toRat, decode_truncU f hv hn]
  simp only
  have hx : v.toRat = (((scaleP2 v (ulpExp f v)).1 : ℚ) / (scaleP2 v (ulpExp f v)).2)
      * (2:ℚ)^(ulpExp f v) := by
    rw [hsc]; field_simp
  have h1 := Nat.div_add_mod (scaleP2 v (ulpExp f v)).1 (scaleP2 v (ulpExp f v)).2
  have h2 := Nat.mod_lt (scaleP2 v (ulpExp f v)).1 hB
  constructor
  · rw [hx]
    apply mul_le_mul_of_nonneg_right _ hp.le
    rw [le_div_iff₀ (by exact_mod_cast hB)]
    unfold mantT
    have : (scaleP2 v (ulpExp f v)).1 / (scaleP2 v (ulpExp f v)).2 * (scaleP2 v (ulpExp f v)).2
        ≤ (scaleP2 v (ulpExp f v)).1 := Nat.div_mul_le_self _ _
    exact_mod_cast this
  · conv_lhs => rw [hx]
    apply mul_lt_mul_of_pos_right _ hp
    rw [div_lt_iff₀ (by exact_mod_cast hB)]
    unfold mantT
    have : (scaleP2 v (ulpExp f v)).1
        < ((scaleP2 v (ulpExp f v)).1 / (scaleP2 v (ulpExp f v)).2 + 1) * (scaleP2 v (ulpExp f v)).2 := by
      rw [Nat.add_mul, Nat.mul_comm]; omega
    exact_mod_cast this

theorem decodeQ_zero_toRat (f : Fmt) : (decodeQ f 0).toRat = 0 := by
  rw [decodeQ_toRat, decode_zero]; simp

theorem truncU_lt_of_lt (f : Fmt) {v : Q} (hv : 0 < v.den) (hn : v.num ≠ 0) {b : Nat}
    (h : v.toRat < (decodeQ f b).toRat) : truncU f v < b := by
  by_contra hc
  have := decodeQ_mono f (Nat.le_of_not_lt hc)
  have := (truncU_floor f hv hn).1
  linarith

theorem le_truncU_of_le (f : Fmt) {v : Q} (hv : 0 < v.den) (hn : v.num ≠ 0) {b : Nat}
    (h : (decodeQ f b).toRat ≤ v.toRat) : b ≤ truncU f v := by
  by_contra hc
  have : truncU f v + 1 ≤ b := by omega
  have := decodeQ_mono f this
  have := (truncU_floor f hv hn).2
  linarith

/-- A finite `rneTrunc f v` is the largest float not above `v`. -/
theorem rneTrunc_floor (f : Fmt) {v : Q} (hv : 0 < v.den) (hfin : rneTrunc f v < f.infBits) :
    Q.le (decodeQ f (rneTrunc f v)) v ∧ Q.lt v (decodeQ f (rneTrunc f v + 1)) := by
  rw [Q.le_iff (decodeQ_den_pos _ _) hv, Q.lt_iff hv (decodeQ_den_pos _ _)]
  by_cases hn : v.num = 0
  · rw [rneTrunc_of_num_zero f hn, (Q.num_eq_zero_iff hv).1 hn]
    have := decodeQ_lt_succ f 0
    rw [decodeQ_zero_toRat] at this ⊢
    exact ⟨le_refl _, this⟩
  · have : rneTrunc f v = truncU f v := by
      rw [rneTrunc_eq_min_truncU f hn] at hfin ⊢; omega
    rw [this]; exact truncU_floor f hv hn

/-- Criterion: `decodeQ bits ≤ v < decodeQ (bits+1)` pins down `rneTrunc f v = bits`. -/
theorem rneTrunc_eq_of_between (f : Fmt) {v : Q} (hv : 0 < v.den) {bits : Nat}
    (hb : bits < f.infBits) (h1 : Q.le (decodeQ f bits) v) (h2 : Q.lt v (decodeQ f (bits + 1))) :
    rneTrunc f v = bits := by
  rw [Q.le_iff (decodeQ_den_pos _ _) hv] at h1
  rw [Q.lt_iff hv (decodeQ_den_pos _ _)] at h2
  by_cases hn : v.num = 0
  · rw [rneTrunc_of_num_zero f hn]
    rw [(Q.num_eq_zero_iff hv).1 hn] at h1
    by_contra hc
    have := decodeQ_strictMono f (Nat.pos_of_ne_zero (Ne.symm hc))
    rw [decodeQ_zero_toRat] at this
    linarith
  · have a1 := truncU_lt_of_lt f hv hn h2
    have a2 := le_truncU_of_le f hv hn h1
    rw [rneTrunc_eq_min_truncU f hn]; omega

theorem rneTrunc_eq_iff (f : Fmt) {v : Q} (hv : 0 < v.den) {bits : Nat} (hb : bits < f.infBits) :
    rneTrunc f v = bits ↔ Q.le (decodeQ f bits) v ∧ Q.lt v (decodeQ f (bits + 1)) := by
  constructor
  · intro h; subst h; exact rneTrunc_floor f hv hb
  · intro h; exact rneTrunc_eq_of_between f hv hb h.1 h.2

theorem rneTrunc_mono (f : Fmt) {a b : Q} (ha : 0 < a.den) (hb : 0 < b.den) (h : Q.le a b) :
    rneTrunc f a ≤ rneTrunc f b := by
  have hr := (Q.le_iff ha hb).1 h
  by_cases hn : a.num = 0
  · rw [rneTrunc_of_num_zero f hn]; exact Nat.zero_le _
  · have hn' : b.num ≠ 0 := by
      intro h0
      have := Q.toRat_pos ha hn
      rw [(Q.num_eq_zero_iff hb).1 h0] at hr
      linarith
    rw [rneTrunc_eq_min_truncU f hn, rneTrunc_eq_min_truncU f hn']
    have : truncU f a ≤ truncU f b :=
      le_truncU_of_le f hb hn' (le_trans (truncU_floor f ha hn).1 hr)
    omega

/-! ### Midpoints and the "nearest" characterisation -/

theorem midpoint_toRat (f : Fmt) (b : Nat) :
    (midpoint f b).toRat = ((decodeQ f b).toRat + (decodeQ f (b+1)).toRat) / 2 := by
  unfold midpoint
  rw [ofDyadic_toRat, decodeQ_succ_toRat, decodeQ_toRat, zpow_sub_one₀ (by norm_num)]
  push_cast; ring

theorem midpoint_between (f : Fmt) (b : Nat) :
    (decodeQ f b).toRat < (midpoint f b).toRat ∧ (midpoint f b).toRat < (decodeQ f (b+1)).toRat := by
  have := decodeQ_lt_succ f b
  rw [midpoint_toRat]
  constructor <;> linarith

/-- Criterion for `rne`: if `decodeQ bits ≤ v < decodeQ (bits+1)` (bits finite) the result is
    decided by the midpoint. -/
theorem rne_of_between (f : Fmt) {v : Q} (hv : 0 < v.den) {bits : Nat}
    (hb : bits < f.infBits) (h1 : Q.le (decodeQ f bits) v) (h2 : Q.lt v (decodeQ f (bits + 1))) :
    (Q.lt v (midpoint f bits) → rne f v = bits) ∧
    (Q.lt (midpoint f bits) v → rne f v = bits + 1) ∧
    (Q.eqv v (midpoint f bits) → rne f v = if (decode f bits).1 % 2 = 0 then bits else bits + 1) := by
  have ht := rneTrunc_eq_of_between f hv hb h1 h2
  have := rne_between f hv (by rw [ht]; exact hb)
  rw [ht] at this
  exact this

/-- Interval form of round-to-nearest: strictly between the two neighbouring midpoints of a
    finite float `bits ≥ 1`, `rne` returns `bits`. -/
theorem rne_eq_of_mid_lt_lt (f : Fmt) {v : Q} (hv : 0 < v.den) {bits : Nat} (h0 : 1 ≤ bits)
    (hb : bits < f.infBits) (h1 : Q.lt (midpoint f (bits - 1)) v) (h2 : Q.lt v (midpoint f bits)) :
    rne f v = bits := by
  have h1' := (Q.lt_iff (midpoint_den_pos _ _) hv).1 h1
  have h2' := (Q.lt_iff hv (midpoint_den_pos _ _)).1 h2
  obtain ⟨m1, m2⟩ := midpoint_between f (bits - 1)
  obtain ⟨m3, m4⟩ := midpoint_between f bits
  have e : bits - 1 + 1 = bits := by omega
  rw [e] at m2
  rcases le_or_gt (decodeQ f bits).toRat v.toRat with hge | hlt
  · exact (rne_of_between f hv hb ((Q.le_iff (decodeQ_den_pos _ _) hv).2 hge)
      ((Q.lt_iff hv (decodeQ_den_pos _ _)).2 (lt_trans h2' m4))).1 h2
  · have := (rne_of_between f hv (bits := bits - 1) (by omega)
      ((Q.le_iff (decodeQ_den_pos _ _) hv).2 (le_of_lt (lt_trans m1 h1')))
      ((Q.lt_iff hv (decodeQ_den_pos _ _)).2 (by rw [e]; exact hlt))).2.1 h1
    rw [this, e]

theorem rneTrunc_le_rne (f : Fmt) (v : Q) : rneTrunc f v ≤ rne f v := by
  by_cases hn : v.num = 0
  · rw [rneTrunc_of_num_zero f hn]; exact Nat.zero_le _
  · have h1 := div_le_rhe (scaleP2 v (ulpExp f v)).1 (scaleP2 v (ulpExp f v)).2
    rw [rneTrunc_of_num_ne f hn, rne_of_num_ne f hn]
    omega

/-- **The spec is round-to-nearest**: a finite `rne f v` is at least as close to `v` as the value
    of any other bit pattern `b'` (for `b' = infBits` the decoded value is `2^(emax+1)`). -/
theorem rne_nearest (f : Fmt) {v : Q} (hv : 0 < v.den) (hfin : rne f v < f.infBits) (b' : Nat) :
    abs (v.toRat - (decodeQ f (rne f v)).toRat) ≤ abs (v.toRat - (decodeQ f b').toRat) := by
  have htf : rneTrunc f v < f.infBits := lt_of_le_of_lt (rneTrunc_le_rne f v) hfin
  obtain ⟨fl1, fl2⟩ := rneTrunc_floor f hv htf
  rw [Q.le_iff (decodeQ_den_pos _ _) hv] at fl1
  rw [Q.lt_iff hv (decodeQ_den_pos _ _)] at fl2
  obtain ⟨b1, b2, b3⟩ := rne_between f hv htf
  have hmd := midpoint_den_pos f (rneTrunc f v)
  rw [Q.lt_iff hv hmd] at b1
  rw [Q.lt_iff hmd hv] at b2
  rw [Q.eqv_iff hv hmd] at b3
  have hmid := midpoint_toRat f (rneTrunc f v)
  have hb' : (decodeQ f b').toRat ≤ (decodeQ f (rneTrunc f v)).toRat ∨
      (decodeQ f (rneTrunc f v + 1)).toRat ≤ (decodeQ f b').toRat := by
    rcases Nat.lt_or_ge (rneTrunc f v) b' with h | h
    · right; exact decodeQ_mono f h
    · left; exact decodeQ_mono f h
  have n1 := le_abs_self (v.toRat - (decodeQ f b').toRat)
  have n2 := neg_le_abs (v.toRat - (decodeQ f b').toRat)
  generalize (decodeQ f b').toRat = y at *
  generalize (midpoint f (rneTrunc f v)).toRat = mid at *
  -- the two candidate answers
  have caseT : v.toRat ≤ mid → rne f v = rneTrunc f v →
      abs (v.toRat - (decodeQ f (rne f v)).toRat) ≤ abs (v.toRat - y) := by
    intro hle hr
    rw [hr, abs_of_nonneg (by linarith)]
    rcases hb' with h | h <;> linarith
  have caseS : mid ≤ v.toRat → rne f v = rneTrunc f v + 1 →
      abs (v.toRat - (decodeQ f (rne f v)).toRat) ≤ abs (v.toRat - y) := by
    intro hle hr
    rw [hr, abs_of_nonpos (by linarith)]
    rcases hb' with h | h <;> linarith
  rcases lt_trichotomy v.toRat mid with h | h | h
  · exact caseT h.le (b1 h)
  · have := b3 h
    split at this
    · exact caseT h.le this
    · exact caseS h.ge this
  · exact caseS h.le (b2 h)

end MinLex
