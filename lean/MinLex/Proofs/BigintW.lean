/-
  Helper lemmas for `Props/Limb32Ops.lean`: the limb-width-parametric big-integer model
  (`MinLex/Model/BigintW.lean`, namespace `MinLex.W`) refines arithmetic on `Nat`.

  This is a port of `MinLex/Proofs/Bigint.lean` (written for `B = 2^64`) to an arbitrary limb
  width `w` (`Bw w = 2^w`).  Lemmas that are independent of the limb width (`capOk_*`, `vecTry*`,
  `normalize_length`, `isNormalized_iff`, …) are reused from that file.
  Hypothesis `0 < w` appears only where `1 < Bw w` is really needed; the power functions need
  `w = 32 ∨ w = 64` (`5 ^ powStep w < Bw w`).
-/
import Mathlib.Tactic.Ring
import Mathlib.Tactic.Linarith
import MinLex.Proofs.Bigint
import MinLex.Model.BigintW
import MinLex.Model.ParseW
namespace MinLex
namespace W

variable {w : Nat}

-- ---------------------------------------------------------------- basics
theorem Bw_pos (w : Nat) : 0 < Bw w := Nat.two_pow_pos w
theorem Bw_gt_one (hw : 0 < w) : 1 < Bw w := Nat.one_lt_two_pow (by omega)
theorem Bw_32 : Bw 32 = 4294967296 := by unfold Bw; norm_num
theorem Bw_64 : Bw 64 = B := by unfold Bw B; norm_num
theorem Bwpow_pos (w n : Nat) : 0 < Bw w ^ n := Nat.pow_pos (Bw_pos w)
theorem Bwpow_le (w : Nat) {m n : Nat} (h : m ≤ n) : Bw w ^ m ≤ Bw w ^ n :=
  Nat.pow_le_pow_right (Bw_pos w) h
theorem Bwpow_eq (w k : Nat) : Bw w ^ k = 2 ^ (w * k) := by unfold Bw; rw [← Nat.pow_mul]

instance (w : Nat) (xs : Big) : Decidable (AllLtW w xs) := by unfold AllLtW; infer_instance

theorem AllLtW_nil : AllLtW w [] := by intro x hx; cases hx

theorem AllLtW_cons {x : Nat} {xs : Big} : AllLtW w (x :: xs) ↔ x < Bw w ∧ AllLtW w xs := by
  simp [AllLtW]

theorem AllLtW_append {xs ys : Big} : AllLtW w (xs ++ ys) ↔ AllLtW w xs ∧ AllLtW w ys := by
  simp only [AllLtW, List.mem_append]
  constructor
  · intro h; exact ⟨fun x hx => h x (Or.inl hx), fun x hx => h x (Or.inr hx)⟩
  · rintro ⟨h1, h2⟩ x (hx | hx)
    · exact h1 x hx
    · exact h2 x hx

theorem AllLtW_singleton {x : Nat} : AllLtW w [x] ↔ x < Bw w := by simp [AllLtW]

theorem AllLtW_take {xs : Big} (h : AllLtW w xs) (n : Nat) : AllLtW w (xs.take n) :=
  fun x hx => h x (List.mem_of_mem_take hx)

theorem AllLtW_drop {xs : Big} (h : AllLtW w xs) (n : Nat) : AllLtW w (xs.drop n) :=
  fun x hx => h x (List.mem_of_mem_drop hx)

theorem AllLtW_replicate_zero (w n : Nat) : AllLtW w (List.replicate n 0) := by
  intro x hx
  rw [List.mem_replicate] at hx
  rw [hx.2]; exact Bw_pos w

theorem AllLtW_reverse {xs : Big} : AllLtW w xs.reverse ↔ AllLtW w xs := by
  simp [AllLtW]

theorem toNatW_nil : toNatW w [] = 0 := rfl
theorem toNatW_cons (x : Nat) (xs : Big) : toNatW w (x :: xs) = x + Bw w * toNatW w xs := rfl

theorem toNatW_append (xs ys : Big) :
    toNatW w (xs ++ ys) = toNatW w xs + Bw w ^ xs.length * toNatW w ys := by
  induction xs with
  | nil => simp [toNatW]
  | cons x xs ih =>
    simp only [List.cons_append, toNatW, ih, List.length_cons]
    ring

theorem toNatW_singleton (x : Nat) : toNatW w [x] = x := by simp [toNatW]

theorem toNatW_replicate_zero (n : Nat) : toNatW w (List.replicate n 0) = 0 := by
  induction n with
  | zero => rfl
  | succ n ih => simp [List.replicate_succ, toNatW, ih]

theorem toNatW_lt {xs : Big} (h : AllLtW w xs) : toNatW w xs < Bw w ^ xs.length := by
  induction xs with
  | nil => simp [toNatW]
  | cons x xs ih =>
    rw [AllLtW_cons] at h
    have h1 := ih h.2
    simp only [toNatW, List.length_cons, Nat.pow_succ]
    have : Bw w * (toNatW w xs + 1) ≤ Bw w * Bw w ^ xs.length := Nat.mul_le_mul_left _ h1
    rw [Nat.mul_comm (Bw w ^ xs.length) (Bw w)]
    have := h.1
    rw [Nat.mul_add] at *
    omega

theorem toNatW_take_add_drop (xs : Big) (n : Nat) :
    toNatW w xs = toNatW w (xs.take n) + Bw w ^ (xs.take n).length * toNatW w (xs.drop n) := by
  rw [← toNatW_append, List.take_append_drop]

/-- A non-empty list whose last limb is `v` has value at least `Bw^(len-1) * v`. -/
theorem toNatW_ge_of_getLast {xs : Big} {v : Nat} (h : xs.getLast? = some v) :
    Bw w ^ (xs.length - 1) * v ≤ toNatW w xs := by
  obtain ⟨ys, rfl⟩ := List.getLast?_eq_some_iff.mp h
  rw [toNatW_append]
  simp only [List.length_append, List.length_cons, List.length_nil, toNatW_singleton]
  have e : ys.length + (0 + 1) - 1 = ys.length := by omega
  rw [e]; omega

theorem toNatW_ge_of_normalized {xs : Big} (hn : isNormalized xs = true) (hne : xs ≠ []) :
    Bw w ^ (xs.length - 1) ≤ toNatW w xs := by
  rw [isNormalized_iff] at hn
  cases h : xs.getLast? with
  | none => simp at h; exact absurd h hne
  | some v =>
    have hv : v ≠ 0 := by intro h0; rw [h0] at h; exact hn h
    have := toNatW_ge_of_getLast (w := w) h
    have h1 : Bw w ^ (xs.length - 1) * 1 ≤ Bw w ^ (xs.length - 1) * v :=
      Nat.mul_le_mul_left _ (Nat.pos_of_ne_zero hv)
    omega

theorem toNatW_pos_of_normalized {xs : Big} (hn : isNormalized xs = true) (hne : xs ≠ []) :
    0 < toNatW w xs :=
  Nat.lt_of_lt_of_le (Bwpow_pos _ _) (toNatW_ge_of_normalized hn hne)

/-- generic carry lemma: a sum below `2b` splits into `s % b` and the carry bit -/
theorem mod_add_carry {b s : Nat} (hs : s < 2 * b) :
    s % b + b * (if s ≥ b then 1 else 0) = s ∧ (decide (s ≥ b) = true ↔ s ≥ b) := by
  refine ⟨?_, by simp⟩
  split
  · next h =>
    rw [Nat.mod_eq_sub_mod h, Nat.mod_eq_of_lt (by omega)]; omega
  · next h =>
    rw [Nat.mod_eq_of_lt (by omega)]; omega

/-- `x*y + c < b*b` for limbs below `b` -/
theorem mul_add_lt_sq {b x y c : Nat} (hx : x < b) (hy : y < b) (hc : c < b) :
    x * y + c < b * b := by
  have := mul_limb_bound hx hy
  omega

-- ---------------------------------------------------------------- scalar
theorem scalarAdd_spec {x y : Nat} (hx : x < Bw w) (hy : y < Bw w) :
    (scalarAdd w x y).1 + Bw w * (if (scalarAdd w x y).2 then 1 else 0) = x + y ∧
    (scalarAdd w x y).1 < Bw w := by
  unfold scalarAdd
  simp only [decide_eq_true_eq]
  exact ⟨(mod_add_carry (by omega)).1, Nat.mod_lt _ (Bw_pos w)⟩

theorem scalarMul_spec {x y c : Nat} (hx : x < Bw w) (hy : y < Bw w) (hc : c < Bw w) :
    (scalarMul w x y c).1 + Bw w * (scalarMul w x y c).2 = x * y + c ∧
    (scalarMul w x y c).1 < Bw w ∧ (scalarMul w x y c).2 < Bw w := by
  unfold scalarMul
  simp only
  have h1 := Nat.div_add_mod (x * y + c) (Bw w)
  refine ⟨by omega, Nat.mod_lt _ (Bw_pos w), ?_⟩
  apply Nat.div_lt_of_lt_mul
  exact mul_add_lt_sq hx hy hc

-- ---------------------------------------------------------------- smallAdd
theorem smallAddAux_length (c : Nat) (xs : List Nat) :
    (smallAddAux w c xs).1.length = xs.length := by
  induction xs generalizing c with
  | nil => rfl
  | cons x xs ih =>
    simp only [smallAddAux]
    split
    · rfl
    · simp [ih]

theorem smallAddAux_spec (xs : List Nat) (c : Nat) :
    toNatW w (smallAddAux w c xs).1 + Bw w ^ xs.length * (smallAddAux w c xs).2
      = toNatW w xs + c := by
  induction xs generalizing c with
  | nil => simp [smallAddAux, toNatW]
  | cons x xs ih =>
    simp only [smallAddAux]
    split
    · next h => simp [h]
    · simp only [toNatW, List.length_cons, Nat.pow_succ]
      have h1 := ih ((x + c) / Bw w)
      have h2 := Nat.div_add_mod (x + c) (Bw w)
      have : Bw w ^ xs.length * Bw w * (smallAddAux w ((x + c) / Bw w) xs).2
          = Bw w * (Bw w ^ xs.length * (smallAddAux w ((x + c) / Bw w) xs).2) := by ring
      rw [this]
      have : Bw w * (toNatW w (smallAddAux w ((x + c) / Bw w) xs).1 +
          Bw w ^ xs.length * (smallAddAux w ((x + c) / Bw w) xs).2)
          = Bw w * (toNatW w xs + (x + c) / Bw w) := by
        rw [h1]
      rw [Nat.mul_add] at this
      rw [Nat.mul_add] at this
      omega

theorem smallAddAux_allLt {xs : List Nat} (h : AllLtW w xs) (c : Nat) :
    AllLtW w (smallAddAux w c xs).1 := by
  induction xs generalizing c with
  | nil => exact AllLtW_nil
  | cons x xs ih =>
    rw [AllLtW_cons] at h
    simp only [smallAddAux]
    split
    · exact AllLtW_cons.mpr h
    · exact AllLtW_cons.mpr ⟨Nat.mod_lt _ (Bw_pos w), ih h.2 _⟩

theorem smallAddAux_carry_lt {xs : List Nat} (h : AllLtW w xs) {c : Nat} (hc : c < Bw w) :
    (smallAddAux w c xs).2 < Bw w := by
  induction xs generalizing c with
  | nil => exact hc
  | cons x xs ih =>
    rw [AllLtW_cons] at h
    simp only [smallAddAux]
    split
    · exact Bw_pos w
    · apply ih h.2
      apply Nat.div_lt_of_lt_mul
      have := mul_add_lt_sq (Bw_pos w) (Bw_pos w) hc
      have := h.1
      rcases Nat.lt_or_ge (Bw w) 2 with h2 | h2
      · omega
      · have : 2 * Bw w ≤ Bw w * Bw w := Nat.mul_le_mul_right _ h2
        omega

/-- the facts about the two components computed by `smallAddFrom` -/
theorem smallAddFrom_core {x : Big} {y start : Nat} (hx : AllLtW w x) (hy : y < Bw w)
    (hs : start ≤ x.length) :
    (x.take start ++ (smallAddAux w y (x.drop start)).1).length = x.length ∧
    toNatW w (x.take start ++ (smallAddAux w y (x.drop start)).1)
      + Bw w ^ x.length * (smallAddAux w y (x.drop start)).2 = toNatW w x + y * Bw w ^ start ∧
    AllLtW w (x.take start ++ (smallAddAux w y (x.drop start)).1) ∧
    (smallAddAux w y (x.drop start)).2 < Bw w := by
  have hl : (x.take start).length = start := by simp [List.length_take]; omega
  refine ⟨?_, ?_, ?_, ?_⟩
  · simp [smallAddAux_length, List.length_take, List.length_drop]; omega
  · have h1 := smallAddAux_spec (w := w) (x.drop start) y
    have h2 := toNatW_take_add_drop (w := w) x start
    rw [toNatW_append, hl] at *
    have e : x.length = start + (x.drop start).length := by simp [List.length_drop]; omega
    have : Bw w ^ x.length * (smallAddAux w y (x.drop start)).2 =
        Bw w ^ start * (Bw w ^ (x.drop start).length * (smallAddAux w y (x.drop start)).2) := by
      rw [e, Nat.pow_add]; simp only [List.length_drop]; ring
    rw [this, h2, Nat.add_assoc, ← Nat.mul_add, h1]; ring
  · exact AllLtW_append.mpr ⟨AllLtW_take hx _, smallAddAux_allLt (AllLtW_drop hx _) _⟩
  · exact smallAddAux_carry_lt (AllLtW_drop hx _) hy

theorem smallAddFrom_spec {cap : Option Nat} {x r : Big} {y start : Nat} (hx : AllLtW w x)
    (hy : y < Bw w) (hs : start ≤ x.length) (hcap : capOk cap x.length = true)
    (h : smallAddFrom w cap x y start = some r) :
    toNatW w r = toNatW w x + y * Bw w ^ start ∧ AllLtW w r ∧ capOk cap r.length = true ∧
    x.length ≤ r.length ∧ r.length ≤ x.length + 1 := by
  obtain ⟨h1, h2, h3, h4⟩ := smallAddFrom_core hx hy hs
  unfold smallAddFrom at h
  simp only at h
  split at h
  · obtain ⟨rfl, hc⟩ := vecTryPush_some h
    rw [h1] at hc
    refine ⟨?_, ?_, ?_, ?_, ?_⟩
    · rw [toNatW_append, toNatW_singleton, h1]; exact h2
    · exact AllLtW_append.mpr ⟨h3, AllLtW_singleton.mpr h4⟩
    · rw [List.length_append, h1]; exact hc
    · rw [List.length_append, h1]; simp
    · rw [List.length_append, h1]; simp
  · next hz =>
    simp only [ne_eq, Decidable.not_not] at hz
    simp only [Option.some.injEq] at h
    subst h
    rw [hz] at h2
    refine ⟨by simpa using h2, h3, by rw [h1]; exact hcap, by omega, by omega⟩

theorem smallAddFrom_none_iff {cap : Option Nat} {x : Big} {y start : Nat} (hx : AllLtW w x)
    (hy : y < Bw w) (hs : start ≤ x.length) :
    smallAddFrom w cap x y start = none ↔
      capOk cap (x.length + 1) = false ∧ Bw w ^ x.length ≤ toNatW w x + y * Bw w ^ start := by
  obtain ⟨h1, h2, h3, h4⟩ := smallAddFrom_core hx hy hs
  have hlt := toNatW_lt h3
  rw [h1] at hlt
  unfold smallAddFrom
  simp only
  split
  · next hz =>
    rw [vecTryPush_none, h1]
    have : Bw w ^ x.length * 1 ≤ Bw w ^ x.length * (smallAddAux w y (x.drop start)).2 :=
      Nat.mul_le_mul_left _ (Nat.pos_of_ne_zero hz)
    constructor
    · intro h; exact ⟨h, by omega⟩
    · intro h; exact h.1
  · next hz =>
    simp only [ne_eq, Decidable.not_not] at hz
    rw [hz] at h2
    simp only [reduceCtorEq, false_iff, not_and, Nat.not_le]
    intro _; omega

-- ---------------------------------------------------------------- smallMul
theorem smallMulAux_length (y : Nat) (xs : List Nat) (c : Nat) :
    (smallMulAux w y c xs).1.length = xs.length := by
  induction xs generalizing c with
  | nil => rfl
  | cons x xs ih => simp [smallMulAux, ih]

theorem smallMulAux_spec (y : Nat) (xs : List Nat) (c : Nat) :
    toNatW w (smallMulAux w y c xs).1 + Bw w ^ xs.length * (smallMulAux w y c xs).2
      = toNatW w xs * y + c := by
  induction xs generalizing c with
  | nil => simp [smallMulAux, toNatW]
  | cons x xs ih =>
    simp only [smallMulAux, toNatW, List.length_cons, Nat.pow_succ]
    have h1 := ih ((x * y + c) / Bw w)
    have h2 := Nat.div_add_mod (x * y + c) (Bw w)
    have e : Bw w ^ xs.length * Bw w * (smallMulAux w y ((x * y + c) / Bw w) xs).2
        = Bw w * (Bw w ^ xs.length * (smallMulAux w y ((x * y + c) / Bw w) xs).2) := by ring
    rw [e, Nat.add_assoc, ← Nat.mul_add, h1, Nat.add_mul, Nat.mul_add, Nat.mul_assoc]
    omega

theorem smallMulAux_allLt (y : Nat) (xs : List Nat) (c : Nat) :
    AllLtW w (smallMulAux w y c xs).1 := by
  induction xs generalizing c with
  | nil => exact AllLtW_nil
  | cons x xs ih =>
    simp only [smallMulAux]
    exact AllLtW_cons.mpr ⟨Nat.mod_lt _ (Bw_pos w), ih _⟩

theorem smallMulAux_carry_lt {y : Nat} {xs : List Nat} (h : AllLtW w xs) (hy : y < Bw w) {c : Nat}
    (hc : c < Bw w) : (smallMulAux w y c xs).2 < Bw w := by
  induction xs generalizing c with
  | nil => exact hc
  | cons x xs ih =>
    rw [AllLtW_cons] at h
    simp only [smallMulAux]
    exact ih h.2 (scalarMul_spec h.1 hy hc).2.2

theorem smallMul_spec {cap : Option Nat} {x r : Big} {y : Nat} (hx : AllLtW w x) (hy : y < Bw w)
    (hcap : capOk cap x.length = true) (h : smallMul w cap x y = some r) :
    toNatW w r = toNatW w x * y ∧ AllLtW w r ∧ capOk cap r.length = true ∧
    x.length ≤ r.length ∧ r.length ≤ x.length + 1 := by
  have h1 := smallMulAux_length (w := w) y x 0
  have h2 := smallMulAux_spec (w := w) y x 0
  have h3 := smallMulAux_allLt (w := w) y x 0
  have h4 := smallMulAux_carry_lt hx hy (Bw_pos w)
  unfold smallMul at h
  simp only at h
  split at h
  · obtain ⟨rfl, hc⟩ := vecTryPush_some h
    rw [h1] at hc
    refine ⟨?_, ?_, ?_, ?_, ?_⟩
    · rw [toNatW_append, toNatW_singleton, h1]; exact h2
    · exact AllLtW_append.mpr ⟨h3, AllLtW_singleton.mpr h4⟩
    · rw [List.length_append, h1]; exact hc
    · rw [List.length_append, h1]; simp
    · rw [List.length_append, h1]; simp
  · next hz =>
    simp only [ne_eq, Decidable.not_not] at hz
    simp only [Option.some.injEq] at h
    subst h
    rw [hz] at h2
    refine ⟨by simpa using h2, h3, by rw [h1]; exact hcap, by omega, by omega⟩

theorem smallMul_none_iff {cap : Option Nat} {x : Big} {y : Nat} :
    smallMul w cap x y = none ↔
      capOk cap (x.length + 1) = false ∧ Bw w ^ x.length ≤ toNatW w x * y := by
  have h1 := smallMulAux_length (w := w) y x 0
  have h2 := smallMulAux_spec (w := w) y x 0
  have hlt := toNatW_lt (smallMulAux_allLt (w := w) y x 0)
  rw [h1] at hlt
  unfold smallMul
  simp only
  split
  · next hz =>
    rw [vecTryPush_none, h1]
    have : Bw w ^ x.length * 1 ≤ Bw w ^ x.length * (smallMulAux w y 0 x).2 :=
      Nat.mul_le_mul_left _ (Nat.pos_of_ne_zero hz)
    constructor
    · intro h; exact ⟨h, by omega⟩
    · intro h; exact h.1
  · next hz =>
    simp only [ne_eq, Decidable.not_not] at hz
    rw [hz] at h2
    simp only [reduceCtorEq, false_iff, not_and, Nat.not_le]
    intro _; omega

-- ---------------------------------------------------------------- largeAdd
theorem largeAddAux_length (xs ys : List Nat) (c : Bool) :
    (largeAddAux w xs ys c).1.length = xs.length := by
  induction xs generalizing ys c with
  | nil => simp [largeAddAux]
  | cons x xs ih =>
    cases ys with
    | nil => simp [largeAddAux]
    | cons y ys => simp [largeAddAux, ih]

theorem largeAddAux_allLt {xs : List Nat} (h : AllLtW w xs) (ys : List Nat) (c : Bool) :
    AllLtW w (largeAddAux w xs ys c).1 := by
  induction xs generalizing ys c with
  | nil => simp [largeAddAux]; exact AllLtW_nil
  | cons x xs ih =>
    cases ys with
    | nil => simpa [largeAddAux] using h
    | cons y ys =>
      simp only [largeAddAux]
      exact AllLtW_cons.mpr ⟨Nat.mod_lt _ (Bw_pos w), ih (AllLtW_cons.mp h).2 _ _⟩

theorem largeAddAux_spec {xs ys : List Nat} (hx : AllLtW w xs) (hy : AllLtW w ys)
    (hl : xs.length = ys.length) (c : Bool) :
    toNatW w (largeAddAux w xs ys c).1 + Bw w ^ xs.length * b2n (largeAddAux w xs ys c).2
      = toNatW w xs + toNatW w ys + b2n c := by
  induction xs generalizing ys c with
  | nil =>
    cases ys with
    | nil => simp [largeAddAux, toNatW]
    | cons y ys => simp at hl
  | cons x xs ih =>
    cases ys with
    | nil => simp at hl
    | cons y ys =>
      rw [AllLtW_cons] at hx hy
      simp only [List.length_cons, Nat.add_right_cancel_iff] at hl
      simp only [largeAddAux, toNatW, List.length_cons, Nat.pow_succ]
      have h1 := ih hx.2 hy.2 hl (decide (x + y + (if c = true then 1 else 0) ≥ Bw w))
      have e : Bw w ^ xs.length * Bw w * b2n (largeAddAux w xs ys
            (decide (x + y + (if c = true then 1 else 0) ≥ Bw w))).2
          = Bw w * (Bw w ^ xs.length * b2n (largeAddAux w xs ys
            (decide (x + y + (if c = true then 1 else 0) ≥ Bw w))).2) := by ring
      rw [e, Nat.add_assoc, ← Nat.mul_add, h1]
      have hx1 := hx.1
      have hy1 := hy.1
      have hs : x + y + (if c = true then 1 else 0) < 2 * Bw w := by split <;> omega
      have hm := (mod_add_carry hs).1
      have hb : b2n (decide (x + y + (if c = true then 1 else 0) ≥ Bw w)) =
          if x + y + (if c = true then 1 else 0) ≥ Bw w then 1 else 0 := by simp [b2n]
      have hc : b2n c = if c = true then 1 else 0 := rfl
      rw [hb, hc]
      generalize (if c = true then 1 else 0) = cc at *
      generalize (if x + y + cc ≥ Bw w then 1 else 0) = k at *
      rw [Nat.mul_add, Nat.mul_add]
      omega

theorem toNatW_resize_zero (x : Big) (k : Nat) :
    toNatW w (x ++ List.replicate k 0) = toNatW w x := by
  rw [toNatW_append, toNatW_replicate_zero]; simp

/-- the limb-wise addition step of `largeAddFrom` on a buffer that is long enough -/
theorem largeAddFrom_body {x1 y : Big} {start : Nat} (hx : AllLtW w x1) (hy : AllLtW w y)
    (hl : y.length + start ≤ x1.length) :
    let r := largeAddAux w ((x1.drop start).take y.length) y false
    let x2 := x1.take start ++ r.1 ++ x1.drop (start + y.length)
    x2.length = x1.length ∧
    toNatW w x2 + Bw w ^ (y.length + start) * b2n r.2 = toNatW w x1 + toNatW w y * Bw w ^ start ∧
    AllLtW w x2 := by
  intro r x2
  have hmidl : ((x1.drop start).take y.length).length = y.length := by
    simp [List.length_take, List.length_drop]; omega
  have hprel : (x1.take start).length = start := by simp [List.length_take]; omega
  have hr1 : r.1.length = y.length := by
    show (largeAddAux w _ _ _).1.length = _
    rw [largeAddAux_length, hmidl]
  have hmid : AllLtW w ((x1.drop start).take y.length) := AllLtW_take (AllLtW_drop hx _) _
  have hs := largeAddAux_spec hmid hy hmidl false
  rw [hmidl] at hs
  have hdecomp : x1 = x1.take start ++ (x1.drop start).take y.length ++ x1.drop (start + y.length) := by
    rw [List.append_assoc, ← List.drop_drop, List.take_append_drop, List.take_append_drop]
  refine ⟨?_, ?_, ?_⟩
  · show (x1.take start ++ r.1 ++ x1.drop (start + y.length)).length = _
    simp only [List.length_append, hr1, hprel, List.length_drop]; omega
  · have e1 : toNatW w x2 = toNatW w (x1.take start) + Bw w ^ start * (toNatW w r.1 +
        Bw w ^ y.length * toNatW w (x1.drop (start + y.length))) := by
      show toNatW w (x1.take start ++ r.1 ++ x1.drop (start + y.length)) = _
      rw [List.append_assoc, toNatW_append, toNatW_append, hprel, hr1]
    have e2 : toNatW w x1 = toNatW w (x1.take start) + Bw w ^ start *
        (toNatW w ((x1.drop start).take y.length) +
        Bw w ^ y.length * toNatW w (x1.drop (start + y.length))) := by
      conv => lhs; rw [hdecomp]
      rw [List.append_assoc, toNatW_append, toNatW_append, hprel, hmidl]
    rw [e1, e2]
    have hs' : toNatW w r.1 + Bw w ^ y.length * b2n r.2 =
        toNatW w ((x1.drop start).take y.length) + toNatW w y + b2n false := hs
    have : b2n false = 0 := rfl
    rw [this, Nat.add_zero] at hs'
    rw [Nat.pow_add]
    have e3 : Bw w ^ start * (toNatW w r.1 + Bw w ^ y.length * b2n r.2) =
        Bw w ^ start * (toNatW w ((x1.drop start).take y.length) + toNatW w y) := by rw [hs']
    linarith [e3]
  · exact AllLtW_append.mpr ⟨AllLtW_append.mpr ⟨AllLtW_take hx _, largeAddAux_allLt hmid _ _⟩,
      AllLtW_drop hx _⟩

theorem largeAddFrom_nil (cap : Option Nat) (x : Big) (start : Nat) :
    largeAddFrom w cap x [] start = some x := by
  simp [largeAddFrom, largeAddAux]

/-- the optional resize at the start of `largeAddFrom` -/
theorem largeAddFrom_resize (cap : Option Nat) (x y : Big) (start : Nat) (hy : y ≠ []) :
    ((if y.length > x.length - start then vecTryResize cap x (y.length + start) 0 else some x) = none
      ∧ capOk cap (y.length + start) = false ∧ x.length < y.length + start) ∨
    ∃ x1, (if y.length > x.length - start then vecTryResize cap x (y.length + start) 0 else some x)
        = some x1 ∧ toNatW w x1 = toNatW w x ∧ x1.length = max x.length (y.length + start) ∧
        (AllLtW w x → AllLtW w x1) ∧ (capOk cap x.length = true → capOk cap x1.length = true) := by
  have hyl : 0 < y.length := List.length_pos_iff.mpr hy
  by_cases h : y.length > x.length - start
  · have hlt : x.length < y.length + start := by omega
    simp only [h, if_true]
    unfold vecTryResize
    by_cases hc : capOk cap (y.length + start) = true
    · right
      simp only [hc, if_true, gt_iff_lt, hlt]
      refine ⟨_, rfl, toNatW_resize_zero _ _, ?_, ?_, ?_⟩
      · simp; omega
      · intro hx; exact AllLtW_append.mpr ⟨hx, AllLtW_replicate_zero _ _⟩
      · intro _; simp only [List.length_append, List.length_replicate]
        have : x.length + (y.length + start - x.length) = y.length + start := by omega
        rw [this]; exact hc
    · left
      simp only [Bool.not_eq_true] at hc
      simp [hc, hlt]
  · right
    simp only [h, if_false]
    refine ⟨x, rfl, rfl, ?_, id, id⟩
    omega

theorem largeAddFrom_spec (hw : 0 < w) {cap : Option Nat} {x y r : Big} {start : Nat}
    (hx : AllLtW w x) (hy : AllLtW w y) (hcap : capOk cap x.length = true)
    (h : largeAddFrom w cap x y start = some r) :
    toNatW w r = toNatW w x + toNatW w y * Bw w ^ start ∧ AllLtW w r ∧
    capOk cap r.length = true ∧ x.length ≤ r.length := by
  by_cases hy0 : y = []
  · subst hy0
    rw [largeAddFrom_nil] at h
    simp only [Option.some.injEq] at h
    subst h
    simp [toNatW, hx, hcap]
  · unfold largeAddFrom at h
    rcases largeAddFrom_resize (w := w) cap x y start hy0 with ⟨hn, _⟩ | ⟨x1, hs, hv, hlen, hA, hC⟩
    · rw [hn] at h; simp at h
    · rw [hs] at h
      simp only at h
      have hl : y.length + start ≤ x1.length := by omega
      obtain ⟨b1, b2, b3⟩ := largeAddFrom_body (hA hx) hy hl
      split at h
      · next hcarry =>
        rw [hcarry] at b2
        have := smallAddFrom_spec b3 (Bw_gt_one hw) (by omega)
          (by rw [b1]; exact hC hcap) h
        obtain ⟨s1, s2, s3, s4, _⟩ := this
        refine ⟨?_, s2, s3, by omega⟩
        rw [s1, ← hv, ← b2]; simp [b2n]
      · next hcarry =>
        simp only [Bool.not_eq_true] at hcarry
        rw [hcarry] at b2
        simp only [Option.some.injEq] at h
        subst h
        refine ⟨?_, b3, by rw [b1]; exact hC hcap, by omega⟩
        rw [← hv, ← b2]; simp [b2n]

theorem largeAddFrom_none_iff (hw : 0 < w) {cap : Option Nat} {x y : Big} {start : Nat}
    (hx : AllLtW w x) (hy : AllLtW w y) (hy0 : y ≠ []) :
    largeAddFrom w cap x y start = none ↔
      (capOk cap (y.length + start) = false ∧ x.length < y.length + start) ∨
      (capOk cap (max x.length (y.length + start) + 1) = false ∧
        Bw w ^ (max x.length (y.length + start)) ≤ toNatW w x + toNatW w y * Bw w ^ start) := by
  unfold largeAddFrom
  rcases largeAddFrom_resize (w := w) cap x y start hy0 with
    ⟨hn, hc1, hc2⟩ | ⟨x1, hs, hv, hlen, hA, hC⟩
  · rw [hn]; simp only [true_iff]; exact Or.inl ⟨hc1, hc2⟩
  · rw [hs]
    simp only
    have hl : y.length + start ≤ x1.length := by omega
    obtain ⟨b1, b2, b3⟩ := largeAddFrom_body (hA hx) hy hl
    have hlt := toNatW_lt b3
    rw [b1] at hlt
    rw [← hlen, ← hv]
    have hfirst : ¬ (capOk cap (y.length + start) = false ∧ x.length < y.length + start) := by
      rintro ⟨h1, h2⟩
      by_cases h : y.length > x.length - start
      · simp only [h, if_true] at hs
        unfold vecTryResize at hs
        simp [h1] at hs
      · have := List.length_pos_iff.mpr hy0
        omega
    split
    · next hcarry =>
      rw [hcarry] at b2
      rw [smallAddFrom_none_iff b3 (Bw_gt_one hw) (by omega), b1, ← b2]
      simp only [b2n, if_true, Nat.mul_one, Nat.one_mul]
      constructor
      · intro h; exact Or.inr h
      · rintro (h | h)
        · exact absurd h hfirst
        · exact h
    · next hcarry =>
      simp only [Bool.not_eq_true] at hcarry
      rw [hcarry] at b2
      simp only [b2n, Bool.false_eq_true, if_false, Nat.mul_zero, Nat.add_zero] at b2
      simp only [reduceCtorEq, false_iff]
      rintro (h | h)
      · exact hfirst h
      · omega

-- ---------------------------------------------------------------- normalize
theorem toNatW_concat_zero (xs : Big) : toNatW w (xs ++ [0]) = toNatW w xs := by
  rw [toNatW_append]; simp [toNatW]

theorem dropZerosRev_toNatW (l : List Nat) :
    toNatW w (dropZerosRev l).reverse = toNatW w l.reverse := by
  induction l with
  | nil => rfl
  | cons x xs ih =>
    simp only [dropZerosRev]
    split
    · next h => subst h; rw [ih, List.reverse_cons, toNatW_concat_zero]
    · rfl

theorem normalize_toNatW (x : Big) : toNatW w (normalize x) = toNatW w x := by
  unfold normalize
  rw [dropZerosRev_toNatW, List.reverse_reverse]

theorem normalize_allLtW {x : Big} (h : AllLtW w x) : AllLtW w (normalize x) := by
  intro a ha
  unfold normalize at ha
  rw [List.mem_reverse] at ha
  exact h a (List.mem_reverse.mp (dropZerosRev_mem ha))

/-- `from_u64` with 32-bit limbs: two limbs, then normalise -/
theorem fromU64_spec32 {v : Nat} (hv : v < 2 ^ 64) :
    toNatW 32 (fromU64 32 v) = v ∧ AllLtW 32 (fromU64 32 v) ∧
    isNormalized (fromU64 32 v) = true ∧ (fromU64 32 v).length ≤ 2 := by
  unfold fromU64
  simp only [if_true]
  refine ⟨?_, normalize_allLtW ?_, normalize_isNormalized _, normalize_length _⟩
  · rw [normalize_toNatW]
    simp only [toNatW, Bw_32]
    omega
  · rw [AllLtW_cons, AllLtW_singleton, Bw_32]
    omega

/-- `from_u64` when a limb holds a `u64` (every width except 32 takes the one-limb branch) -/
theorem fromU64_spec_ne (hw : w ≠ 32) {v : Nat} (hv : v < Bw w) :
    toNatW w (fromU64 w v) = v ∧ AllLtW w (fromU64 w v) ∧
    isNormalized (fromU64 w v) = true ∧ (fromU64 w v).length ≤ 1 := by
  unfold fromU64
  simp only [hw, if_false]
  refine ⟨?_, normalize_allLtW (AllLtW_singleton.mpr hv), normalize_isNormalized _,
    normalize_length _⟩
  rw [normalize_toNatW, toNatW_singleton]

/-- a normalised value is zero exactly when it has no limbs -/
theorem toNatW_eq_zero_of_normalized {x : Big} (hn : isNormalized x = true) :
    toNatW w x = 0 ↔ x = [] := by
  constructor
  · intro h
    by_contra hne
    have := toNatW_pos_of_normalized (w := w) hn hne
    omega
  · rintro rfl; rfl

-- ---------------------------------------------------------------- compare
theorem cmpRev_spec {l1 l2 : List Nat} (h1 : AllLtW w l1) (h2 : AllLtW w l2)
    (hl : l1.length = l2.length) :
    cmpRev l1 l2 = compare (toNatW w l1.reverse) (toNatW w l2.reverse) := by
  induction l1 generalizing l2 with
  | nil =>
    cases l2 with
    | nil => simp [cmpRev]
    | cons y ys => simp at hl
  | cons x xs ih =>
    cases l2 with
    | nil => simp at hl
    | cons y ys =>
      rw [AllLtW_cons] at h1 h2
      simp only [List.length_cons, Nat.add_right_cancel_iff] at hl
      have hx := toNatW_lt (AllLtW_reverse.mpr h1.2)
      have hy := toNatW_lt (AllLtW_reverse.mpr h2.2)
      simp only [List.length_reverse] at hx hy
      simp only [cmpRev, List.reverse_cons, toNatW_append, toNatW_singleton, List.length_reverse]
      rw [← hl] at hy ⊢
      split
      · next hlt =>
        symm; rw [Nat.compare_eq_lt]
        have : Bw w ^ xs.length * (x + 1) ≤ Bw w ^ xs.length * y := Nat.mul_le_mul_left _ hlt
        rw [Nat.mul_add] at this; omega
      · split
        · next hgt =>
          symm; rw [Nat.compare_eq_gt]
          have : Bw w ^ xs.length * (y + 1) ≤ Bw w ^ xs.length * x := Nat.mul_le_mul_left _ hgt
          rw [Nat.mul_add] at this; omega
        · next hnlt hngt =>
          have : x = y := by omega
          subst this
          rw [ih h1.2 h2.2 hl]
          rcases Nat.lt_trichotomy (toNatW w xs.reverse) (toNatW w ys.reverse) with h | h | h
          · rw [Nat.compare_eq_lt.mpr h, Nat.compare_eq_lt.mpr (by omega)]
          · rw [Nat.compare_eq_eq.mpr h, Nat.compare_eq_eq.mpr (by omega)]
          · rw [Nat.compare_eq_gt.mpr h, Nat.compare_eq_gt.mpr (by omega)]

theorem bigCompare_spec {x y : Big} (hx : AllLtW w x) (hy : AllLtW w y)
    (nx : isNormalized x = true) (ny : isNormalized y = true) :
    bigCompare x y = compare (toNatW w x) (toNatW w y) := by
  unfold bigCompare
  have bx := toNatW_lt hx
  have by' := toNatW_lt hy
  split
  · next h =>
    have hne : y ≠ [] := by intro h0; subst h0; simp at h
    have := toNatW_ge_of_normalized (w := w) ny hne
    have := Bwpow_le w (show x.length ≤ y.length - 1 by omega)
    symm; rw [Nat.compare_eq_lt]; omega
  · split
    · next h =>
      have hne : x ≠ [] := by intro h0; subst h0; simp at h
      have := toNatW_ge_of_normalized (w := w) nx hne
      have := Bwpow_le w (show y.length ≤ x.length - 1 by omega)
      symm; rw [Nat.compare_eq_gt]; omega
    · next h1 h2 =>
      have := cmpRev_spec (AllLtW_reverse.mpr hx) (AllLtW_reverse.mpr hy)
        (by simp only [List.length_reverse]; omega)
      simpa only [List.reverse_reverse] using this

-- ---------------------------------------------------------------- shifts
theorem shlL_eq (x : Nat) {n : Nat} (hn : n < w) : shlL w x n = (x * 2 ^ n) % Bw w := by
  unfold shlL; rw [Nat.mod_eq_of_lt hn]

theorem shrL_eq (x : Nat) {n : Nat} (hn : n < w) : shrL w x n = x / 2 ^ n := by
  unfold shrL; rw [Nat.mod_eq_of_lt hn]

theorem two_pow_split {n : Nat} (hn : n ≤ w) : 2 ^ (w - n) * 2 ^ n = Bw w := by
  unfold Bw; rw [← Nat.pow_add]; congr 1; omega

/-- one output limb of `shlBits` -/
theorem shl_limb {n : Nat} (h0 : 0 < n) (hn : n < w) (x : Nat) {prev : Nat} (hp : prev < Bw w) :
    shlL w x n ||| shrL w prev (w - n) = (x % 2 ^ (w - n)) * 2 ^ n + prev / 2 ^ (w - n) := by
  rw [shlL_eq x hn, shrL_eq prev (by omega : w - n < w)]
  have hB := two_pow_split (Nat.le_of_lt hn)
  have hlt : prev / 2 ^ (w - n) < 2 ^ n := by
    apply Nat.div_lt_of_lt_mul; rw [hB]; exact hp
  rw [← hB, Nat.mul_mod_mul_right, Nat.mul_comm (x % 2 ^ (w - n)) (2 ^ n)]
  exact (Nat.two_pow_add_eq_or_of_lt hlt _).symm

theorem shl_limb_lt {n : Nat} (hn : n ≤ w) (x : Nat) {prev : Nat} (hp : prev < Bw w) :
    (x % 2 ^ (w - n)) * 2 ^ n + prev / 2 ^ (w - n) < Bw w := by
  have hB := two_pow_split hn
  have hlt : prev / 2 ^ (w - n) < 2 ^ n := by
    apply Nat.div_lt_of_lt_mul; rw [hB]; exact hp
  have hm : x % 2 ^ (w - n) < 2 ^ (w - n) := Nat.mod_lt _ (Nat.two_pow_pos _)
  have : (x % 2 ^ (w - n) + 1) * 2 ^ n ≤ 2 ^ (w - n) * 2 ^ n := Nat.mul_le_mul_right _ hm
  rw [Nat.add_mul, hB] at this
  omega

theorem shlBitsAux_length (n : Nat) (xs : List Nat) (prev : Nat) :
    (shlBitsAux w n prev xs).1.length = xs.length := by
  induction xs generalizing prev with
  | nil => rfl
  | cons x xs ih => simp [shlBitsAux, ih]

theorem shlBitsAux_snd_lt {n : Nat} {xs : List Nat} (h : AllLtW w xs) {prev : Nat}
    (hp : prev < Bw w) : (shlBitsAux w n prev xs).2 < Bw w := by
  induction xs generalizing prev with
  | nil => exact hp
  | cons x xs ih =>
    rw [AllLtW_cons] at h
    simp only [shlBitsAux]
    exact ih h.2 h.1

theorem shlBitsAux_allLt {n : Nat} (h0 : 0 < n) (hn : n < w) {xs : List Nat} (h : AllLtW w xs)
    {prev : Nat} (hp : prev < Bw w) : AllLtW w (shlBitsAux w n prev xs).1 := by
  induction xs generalizing prev with
  | nil => exact AllLtW_nil
  | cons x xs ih =>
    rw [AllLtW_cons] at h
    simp only [shlBitsAux]
    refine AllLtW_cons.mpr ⟨?_, ih h.2 h.1⟩
    rw [shl_limb h0 hn x hp]
    exact shl_limb_lt (Nat.le_of_lt hn) x hp

theorem shlBitsAux_spec {n : Nat} (h0 : 0 < n) (hn : n < w) {xs : List Nat} (h : AllLtW w xs)
    {prev : Nat} (hp : prev < Bw w) :
    toNatW w (shlBitsAux w n prev xs).1 +
        Bw w ^ xs.length * ((shlBitsAux w n prev xs).2 / 2 ^ (w - n))
      = toNatW w xs * 2 ^ n + prev / 2 ^ (w - n) := by
  induction xs generalizing prev with
  | nil => simp [shlBitsAux, toNatW]
  | cons x xs ih =>
    rw [AllLtW_cons] at h
    simp only [shlBitsAux, toNatW, List.length_cons, Nat.pow_succ]
    rw [shl_limb h0 hn x hp]
    have hB := two_pow_split (Nat.le_of_lt hn)
    rw [← hB]
    have := shl_arith (2 ^ n) (2 ^ (w - n)) x (x / 2 ^ (w - n)) (x % 2 ^ (w - n))
      (toNatW w (shlBitsAux w n x xs).1) ((2 ^ (w - n) * 2 ^ n) ^ xs.length)
      ((shlBitsAux w n x xs).2 / 2 ^ (w - n)) (toNatW w xs) (prev / 2 ^ (w - n))
      (Nat.div_add_mod x _).symm (by rw [hB]; exact ih h.2 h.1)
    exact this

theorem shlBits_core {n : Nat} (h0 : 0 < n) (hn : n < w) {x : Big} (hx : AllLtW w x) :
    (shlBitsAux w n 0 x).1.length = x.length ∧
    toNatW w (shlBitsAux w n 0 x).1 + Bw w ^ x.length * shrL w (shlBitsAux w n 0 x).2 (w - n)
      = toNatW w x * 2 ^ n ∧
    AllLtW w (shlBitsAux w n 0 x).1 ∧ shrL w (shlBitsAux w n 0 x).2 (w - n) < Bw w := by
  refine ⟨shlBitsAux_length _ _ _, ?_, shlBitsAux_allLt h0 hn hx (Bw_pos w), ?_⟩
  · rw [shrL_eq _ (by omega : w - n < w)]
    have := shlBitsAux_spec h0 hn hx (Bw_pos w)
    simpa using this
  · rw [shrL_eq _ (by omega : w - n < w)]
    exact Nat.lt_of_le_of_lt (Nat.div_le_self _ _) (shlBitsAux_snd_lt hx (Bw_pos w))

theorem shlBits_spec {cap : Option Nat} {x r : Big} {n : Nat} (h0 : 0 < n) (hn : n < w)
    (hx : AllLtW w x) (hcap : capOk cap x.length = true) (h : shlBits w cap x n = some r) :
    toNatW w r = toNatW w x * 2 ^ n ∧ AllLtW w r ∧ capOk cap r.length = true ∧
    x.length ≤ r.length ∧ r.length ≤ x.length + 1 ∧
    (r.length = x.length + 1 → Bw w ^ x.length ≤ toNatW w r) := by
  obtain ⟨h1, h2, h3, h4⟩ := shlBits_core h0 hn hx
  unfold shlBits at h
  simp only at h
  split at h
  · next hz =>
    obtain ⟨rfl, hc⟩ := vecTryPush_some h
    rw [h1] at hc
    have hv : toNatW w ((shlBitsAux w n 0 x).1 ++ [shrL w (shlBitsAux w n 0 x).2 (w - n)])
        = toNatW w x * 2 ^ n := by
      rw [toNatW_append, toNatW_singleton, h1]; exact h2
    refine ⟨hv, ?_, ?_, ?_, ?_, ?_⟩
    · exact AllLtW_append.mpr ⟨h3, AllLtW_singleton.mpr h4⟩
    · rw [List.length_append, h1]; exact hc
    · rw [List.length_append, h1]; simp
    · rw [List.length_append, h1]; simp
    · intro _
      rw [hv, ← h2]
      have : Bw w ^ x.length * 1 ≤ Bw w ^ x.length * shrL w (shlBitsAux w n 0 x).2 (w - n) :=
        Nat.mul_le_mul_left _ (Nat.pos_of_ne_zero hz)
      omega
  · next hz =>
    simp only [ne_eq, Decidable.not_not] at hz
    simp only [Option.some.injEq] at h
    subst h
    rw [hz] at h2
    refine ⟨by simpa using h2, h3, by rw [h1]; exact hcap, by omega, by omega, by omega⟩

theorem shlBits_none_iff {cap : Option Nat} {x : Big} {n : Nat} (h0 : 0 < n) (hn : n < w)
    (hx : AllLtW w x) :
    shlBits w cap x n = none ↔
      capOk cap (x.length + 1) = false ∧ Bw w ^ x.length ≤ toNatW w x * 2 ^ n := by
  obtain ⟨h1, h2, h3, h4⟩ := shlBits_core h0 hn hx
  have hlt := toNatW_lt h3
  rw [h1] at hlt
  unfold shlBits
  simp only
  split
  · next hz =>
    rw [vecTryPush_none, h1]
    have : Bw w ^ x.length * 1 ≤ Bw w ^ x.length * shrL w (shlBitsAux w n 0 x).2 (w - n) :=
      Nat.mul_le_mul_left _ (Nat.pos_of_ne_zero hz)
    constructor
    · intro h; exact ⟨h, by omega⟩
    · intro h; exact h.1
  · next hz =>
    simp only [ne_eq, Decidable.not_not] at hz
    rw [hz] at h2
    simp only [reduceCtorEq, false_iff, not_and, Nat.not_le]
    intro _; omega

/-- `shlLimbs` is shared with the 64-bit model; on `w`-bit limbs it multiplies by `(Bw w)^n` -/
theorem shlLimbs_spec {cap : Option Nat} {x r : Big} {n : Nat} (hx : AllLtW w x)
    (h : shlLimbs cap x n = some r) :
    toNatW w r = toNatW w x * Bw w ^ n ∧ AllLtW w r ∧ capOk cap r.length = true ∧
    (x ≠ [] → r.length = n + x.length) ∧ (x = [] → r = []) := by
  unfold shlLimbs at h
  split at h
  · simp at h
  · next hc =>
    simp only [Bool.not_eq_eq_eq_not, Bool.not_true, Bool.not_eq_false] at hc
    split at h
    · next he =>
      simp only [Option.some.injEq] at h
      subst h
      simp only [List.isEmpty_iff] at he
      subst he
      refine ⟨by simp [toNatW], hx, capOk_mono (by simp) hc, by simp, by simp⟩
    · next he =>
      simp only [Option.some.injEq] at h
      subst h
      refine ⟨?_, ?_, ?_, ?_, ?_⟩
      · rw [toNatW_append, toNatW_replicate_zero, List.length_replicate]; ring
      · exact AllLtW_append.mpr ⟨AllLtW_replicate_zero _ _, hx⟩
      · simpa using hc
      · intro _; simp
      · intro h0; subst h0; simp at he

theorem two_pow_eq (w n : Nat) : 2 ^ n = 2 ^ (n % w) * Bw w ^ (n / w) := by
  unfold Bw
  rw [← Nat.pow_mul, ← Nat.pow_add]
  congr 1
  have := Nat.mod_add_div n w
  omega

/-- "has no superfluous high zero limb", expressed on the value -/
def TopNZW (w : Nat) (x : Big) : Prop := x ≠ [] ∧ Bw w ^ (x.length - 1) ≤ toNatW w x

theorem TopNZW_of_normalized {x : Big} (hn : isNormalized x = true) (hne : x ≠ []) : TopNZW w x :=
  ⟨hne, toNatW_ge_of_normalized hn hne⟩

theorem shl_spec (hw : 0 < w) {cap : Option Nat} {x r : Big} {n : Nat} (hx : AllLtW w x)
    (hcap : capOk cap x.length = true) (h : shl w cap x n = some r) :
    toNatW w r = toNatW w x * 2 ^ n ∧ AllLtW w r ∧ capOk cap r.length = true := by
  unfold shl at h
  simp only at h
  rw [two_pow_eq w n]
  have hr : n % w < w := Nat.mod_lt _ hw
  split at h
  · simp at h
  · next x1 hx1 =>
    have h1 : toNatW w x1 = toNatW w x * 2 ^ (n % w) ∧ AllLtW w x1 ∧
        capOk cap x1.length = true := by
      split at hx1
      · next hrem =>
        obtain ⟨a, b, c, _⟩ := shlBits_spec (Nat.pos_of_ne_zero hrem) hr hx hcap hx1
        exact ⟨a, b, c⟩
      · next hrem =>
        simp only [ne_eq, Decidable.not_not] at hrem
        simp only [Option.some.injEq] at hx1
        subst hx1
        rw [hrem]; simp [hx, hcap]
    obtain ⟨a, b, c⟩ := h1
    split at h
    · obtain ⟨a', b', c', _⟩ := shlLimbs_spec b h
      refine ⟨?_, b', c'⟩
      rw [a', a]; ring
    · next hdiv =>
      simp only [ne_eq, Decidable.not_not] at hdiv
      simp only [Option.some.injEq] at h
      subst h
      rw [hdiv]; simp [a, b, c]

theorem shl_none (hw : 0 < w) {cap : Option Nat} {x : Big} {n : Nat} (hx : AllLtW w x)
    (hcap : capOk cap x.length = true) (h : shl w cap x n = none) :
    capOk cap (x.length + 1 + n / w) = false := by
  unfold shl at h
  simp only at h
  have hr : n % w < w := Nat.mod_lt _ hw
  split at h
  · next hx1 =>
    split at hx1
    · next hrem =>
      rw [shlBits_none_iff (Nat.pos_of_ne_zero hrem) hr hx] at hx1
      exact capOk_false_mono (Nat.le_add_right _ _) hx1.1
    · simp at hx1
  · next x1 hx1 =>
    have h1 : x1.length ≤ x.length + 1 := by
      split at hx1
      · next hrem =>
        obtain ⟨_, _, _, _, e, _⟩ := shlBits_spec (Nat.pos_of_ne_zero hrem) hr hx hcap hx1
        exact e
      · simp only [Option.some.injEq] at hx1
        subst hx1; omega
    split at h
    · rw [shlLimbs_none_iff] at h
      exact capOk_false_mono (by omega) h
    · simp at h

theorem shl_none_topNZ (hw : 0 < w) {cap : Option Nat} {x : Big} {n : Nat} (hx : AllLtW w x)
    (hcap : capOk cap x.length = true) (hn : TopNZW w x) (h : shl w cap x n = none) :
    ∃ c, cap = some c ∧ Bw w ^ c ≤ toNatW w x * 2 ^ n := by
  unfold shl at h
  simp only at h
  have hr : n % w < w := Nat.mod_lt _ hw
  rw [two_pow_eq w n]
  have hpos : 0 < Bw w ^ (n / w) := Bwpow_pos _ _
  have hxl : 0 < x.length := List.length_pos_iff.mpr hn.1
  split at h
  · next hx1 =>
    split at hx1
    · next hrem =>
      rw [shlBits_none_iff (Nat.pos_of_ne_zero hrem) hr hx] at hx1
      obtain ⟨c, hc, hlt⟩ := capOk_false_iff.mp hx1.1
      refine ⟨c, hc, ?_⟩
      have h1 := Bwpow_le w (show c ≤ x.length by omega)
      have h2 : toNatW w x * 2 ^ (n % w) * 1 ≤ toNatW w x * 2 ^ (n % w) * Bw w ^ (n / w) :=
        Nat.mul_le_mul_left _ hpos
      rw [← Nat.mul_assoc]
      have := hx1.2
      omega
    · simp at hx1
  · next x1 hx1 =>
    have h1 : toNatW w x1 = toNatW w x * 2 ^ (n % w) ∧ 0 < x1.length ∧
        Bw w ^ (x1.length - 1) ≤ toNatW w x1 := by
      split at hx1
      · next hrem =>
        obtain ⟨a, _, _, d, e, f⟩ := shlBits_spec (Nat.pos_of_ne_zero hrem) hr hx hcap hx1
        refine ⟨a, by omega, ?_⟩
        by_cases hl : x1.length = x.length + 1
        · have := f hl
          rw [hl]; simpa using this
        · have e' : x1.length = x.length := by omega
          rw [e', a]
          have : toNatW w x * 1 ≤ toNatW w x * 2 ^ (n % w) :=
            Nat.mul_le_mul_left _ (Nat.two_pow_pos _)
          have := hn.2
          omega
      · simp only [Option.some.injEq] at hx1
        subst hx1
        next hrem =>
        simp only [ne_eq, Decidable.not_not] at hrem
        rw [hrem]; simp [hxl, hn.2]
    obtain ⟨a, b, c⟩ := h1
    split at h
    · rw [shlLimbs_none_iff] at h
      obtain ⟨c', hc, hlt⟩ := capOk_false_iff.mp h
      refine ⟨c', hc, ?_⟩
      rw [← Nat.mul_assoc, ← a]
      have h1 := Bwpow_le w (show c' ≤ (x1.length - 1) + n / w by omega)
      rw [Nat.pow_add] at h1
      have := Nat.mul_le_mul_right (Bw w ^ (n / w)) c
      omega
    · simp at h

/-- `shl` keeps the top limb non-zero -/
theorem shl_topNZ (hw : 0 < w) {cap : Option Nat} {x r : Big} {n : Nat} (hx : AllLtW w x)
    (hcap : capOk cap x.length = true) (hn : TopNZW w x) (h : shl w cap x n = some r) :
    TopNZW w r := by
  unfold shl at h
  simp only at h
  have hr : n % w < w := Nat.mod_lt _ hw
  have hxl : 0 < x.length := List.length_pos_iff.mpr hn.1
  split at h
  · simp at h
  · next x1 hx1 =>
    have h1 : AllLtW w x1 ∧ TopNZW w x1 := by
      split at hx1
      · next hrem =>
        obtain ⟨a, b, _, d, e, f⟩ := shlBits_spec (Nat.pos_of_ne_zero hrem) hr hx hcap hx1
        refine ⟨b, fun h0 => by rw [h0] at d; simp only [List.length_nil] at d; omega, ?_⟩
        by_cases hl : x1.length = x.length + 1
        · have := f hl
          rw [hl]; simpa using this
        · have e' : x1.length = x.length := by omega
          rw [e', a]
          have : toNatW w x * 1 ≤ toNatW w x * 2 ^ (n % w) :=
            Nat.mul_le_mul_left _ (Nat.two_pow_pos _)
          have := hn.2
          omega
      · simp only [Option.some.injEq] at hx1
        subst hx1
        exact ⟨hx, hn⟩
    obtain ⟨b, c⟩ := h1
    split at h
    · obtain ⟨a', _, _, d', _⟩ := shlLimbs_spec b h
      have hl := d' c.1
      have hx1l : 0 < x1.length := List.length_pos_iff.mpr c.1
      generalize n / w = q at *
      refine ⟨fun h0 => by rw [h0] at hl; simp only [List.length_nil] at hl; omega, ?_⟩
      rw [a', hl]
      rw [show q + x1.length - 1 = (x1.length - 1) + q by omega, Nat.pow_add]
      exact Nat.mul_le_mul_right _ c.2
    · simp only [Option.some.injEq] at h
      subst h; exact c

-- ---------------------------------------------------------------- longMul
theorem smallMul_topNZ {cap : Option Nat} {x r : Big} {y : Nat}
    (hn : TopNZW w x) (hy0 : y ≠ 0) (h : smallMul w cap x y = some r) : TopNZW w r := by
  have h1 := smallMulAux_length (w := w) y x 0
  have h2 := smallMulAux_spec (w := w) y x 0
  have hxl : 0 < x.length := List.length_pos_iff.mpr hn.1
  have hge : toNatW w x * 1 ≤ toNatW w x * y := Nat.mul_le_mul_left _ (Nat.pos_of_ne_zero hy0)
  have := hn.2
  unfold smallMul at h
  simp only at h
  split at h
  · next hz =>
    obtain ⟨rfl, hc⟩ := vecTryPush_some h
    refine ⟨by simp, ?_⟩
    rw [toNatW_append, toNatW_singleton, h1, List.length_append, h1]
    have : Bw w ^ x.length * 1 ≤ Bw w ^ x.length * (smallMulAux w y 0 x).2 :=
      Nat.mul_le_mul_left _ (Nat.pos_of_ne_zero hz)
    simp only [List.length_cons, List.length_nil, Nat.zero_add, Nat.add_sub_cancel]
    omega
  · next hz =>
    simp only [ne_eq, Decidable.not_not] at hz
    simp only [Option.some.injEq] at h
    subst h
    rw [hz] at h2
    refine ⟨?_, ?_⟩
    · intro h0; rw [h0] at h1; simp at h1; omega
    · rw [h1]; omega

theorem longMulLoop_spec (hw : 0 < w) {cap : Option Nat} {x : Big} (hx : AllLtW w x) :
    ∀ {ys : List Nat} {index : Nat} {z r : Big}, AllLtW w ys → AllLtW w z →
    capOk cap z.length = true → longMulLoop w cap x ys index z = some r →
    toNatW w r = toNatW w z + toNatW w x * toNatW w ys * Bw w ^ index ∧ AllLtW w r ∧
    capOk cap r.length = true := by
  intro ys
  induction ys with
  | nil =>
    intro index z r _ hz hc h
    simp only [longMulLoop, Option.some.injEq] at h
    subst h
    simp [toNatW, hz, hc]
  | cons yi ys ih =>
    intro index z r hys hz hc h
    rw [AllLtW_cons] at hys
    simp only [longMulLoop] at h
    split at h
    · next hyi =>
      split at h
      · simp at h
      · next zi0 h0 =>
        obtain ⟨rfl, hcx⟩ := vecTryFrom_some h0
        split at h
        · simp at h
        · next zi h1 =>
          obtain ⟨m1, m2, m3, _⟩ := smallMul_spec hx hys.1 hcx h1
          split at h
          · simp at h
          · next z' h2 =>
            obtain ⟨a1, a2, a3, _⟩ := largeAddFrom_spec hw hz m2 hc h2
            obtain ⟨r1, r2, r3⟩ := ih hys.2 a2 a3 h
            refine ⟨?_, r2, r3⟩
            rw [r1, a1, m1, toNatW_cons, Nat.pow_succ]; ring
    · next hyi =>
      simp only [ne_eq, Decidable.not_not] at hyi
      obtain ⟨r1, r2, r3⟩ := ih hys.2 hz hc h
      refine ⟨?_, r2, r3⟩
      rw [r1, toNatW_cons, hyi, Nat.pow_succ]; ring

theorem longMul_spec (hw : 0 < w) {cap : Option Nat} {x y r : Big} (hx : AllLtW w x)
    (hy : AllLtW w y) (hy0 : y ≠ []) (h : longMul w cap x y = some r) :
    toNatW w r = toNatW w x * toNatW w y ∧ AllLtW w r ∧ capOk cap r.length = true ∧
    isNormalized r = true := by
  unfold longMul at h
  split at h
  · simp at h
  · next z0 h0 =>
    obtain ⟨rfl, hcx⟩ := vecTryFrom_some h0
    cases y with
    | nil => exact absurd rfl hy0
    | cons y0 ys =>
      rw [AllLtW_cons] at hy
      simp only at h
      split at h
      · simp at h
      · next z1 h1 =>
        obtain ⟨m1, m2, m3, _⟩ := smallMul_spec hx hy.1 hcx h1
        split at h
        · simp at h
        · next z h2 =>
          obtain ⟨r1, r2, r3⟩ := longMulLoop_spec hw hx hy.2 m2 m3 h2
          simp only [Option.some.injEq] at h
          subst h
          refine ⟨?_, normalize_allLtW r2, normalize_capOk r3, normalize_isNormalized _⟩
          rw [normalize_toNatW, r1, m1, toNatW_cons]; ring

theorem longMul_nil (cap : Option Nat) (x : Big) (h : capOk cap x.length = true) :
    longMul w cap x [] = some (normalize x) := by
  simp [longMul, vecTryFrom, vecTryExtend, h]

/-- the loop of `longMul` succeeds when `x.length + y.length` limbs are available -/
theorem longMulLoop_some (hw : 0 < w) {cap : Option Nat} {x : Big} (hx : AllLtW w x) :
    ∀ {ys : List Nat} {index : Nat} {z : Big}, AllLtW w ys → AllLtW w z →
    capOk cap z.length = true → capOk cap (x.length + index + ys.length) = true →
    toNatW w z < Bw w ^ (x.length + index) →
    ∃ r, longMulLoop w cap x ys index z = some r := by
  intro ys
  induction ys with
  | nil => intro index z _ _ _ _ _; exact ⟨z, rfl⟩
  | cons yi ys ih =>
    intro index z hys hz hc hN hlt
    rw [AllLtW_cons] at hys
    simp only [longMulLoop]
    simp only [List.length_cons] at hN
    have hN' : capOk cap (x.length + (index + 1) + ys.length) = true := by
      have : x.length + (index + 1) + ys.length = x.length + index + (ys.length + 1) := by omega
      rw [this]; exact hN
    have hlt' : toNatW w z < Bw w ^ (x.length + (index + 1)) :=
      Nat.lt_of_lt_of_le hlt (Bwpow_le w (by omega))
    split
    · next hyi =>
      have hcx : capOk cap x.length = true := capOk_mono (by omega) hN
      have h0 : vecTryFrom cap x = some x := by
        simp [vecTryFrom, vecTryExtend, hcx]
      rw [h0]
      simp only
      cases h1 : smallMul w cap x yi with
      | none =>
        rw [smallMul_none_iff] at h1
        rw [capOk_mono (by omega) hN] at h1
        simp at h1
      | some zi =>
        simp only
        obtain ⟨m1, m2, m3, m4, m5⟩ := smallMul_spec hx hys.1 hcx h1
        have hbound : toNatW w z + toNatW w zi * Bw w ^ index < Bw w ^ (x.length + (index + 1)) := by
          have hb := mul_limb_bound (toNatW_lt hx) hys.1
          have := Nat.mul_le_mul_right (Bw w ^ index) hb
          rw [Nat.add_mul] at this
          have e : Bw w ^ x.length * Bw w * Bw w ^ index = Bw w ^ (x.length + (index + 1)) := by
            rw [Nat.pow_add, Nat.pow_succ]; ring
          have e2 : Bw w ^ x.length * Bw w ^ index = Bw w ^ (x.length + index) := by
            rw [Nat.pow_add]
          rw [e, e2] at this
          rw [m1]; omega
        cases h2 : largeAddFrom w cap z zi index with
        | none =>
          exfalso
          by_cases hzi : zi = []
          · subst hzi; rw [largeAddFrom_nil] at h2; simp at h2
          · rw [largeAddFrom_none_iff hw hz m2 hzi] at h2
            rcases h2 with ⟨h2, _⟩ | ⟨h2, h3⟩
            · rw [capOk_mono (by omega) hN] at h2; simp at h2
            · obtain ⟨c, hcc, hgt⟩ := capOk_false_iff.mp h2
              subst hcc
              rw [capOk_some] at hN
              have := Bwpow_le w (show x.length + (index + 1) ≤ max z.length (zi.length + index)
                by omega)
              omega
        | some z' =>
          simp only
          obtain ⟨a1, a2, a3, _⟩ := largeAddFrom_spec hw hz m2 hc h2
          exact ih hys.2 a2 a3 hN' (by rw [a1]; exact hbound)
    · exact ih hys.2 hz hc hN' hlt'

theorem longMul_some (hw : 0 < w) {cap : Option Nat} {x y : Big} (hx : AllLtW w x)
    (hy : AllLtW w y) (hN : capOk cap (x.length + y.length) = true) :
    ∃ r, longMul w cap x y = some r := by
  unfold longMul
  have hcx : capOk cap x.length = true := capOk_mono (by omega) hN
  have h0 : vecTryFrom cap x = some x := by simp [vecTryFrom, vecTryExtend, hcx]
  rw [h0]
  simp only
  cases y with
  | nil => exact ⟨_, rfl⟩
  | cons y0 ys =>
    rw [AllLtW_cons] at hy
    simp only [List.length_cons] at hN
    simp only
    cases h1 : smallMul w cap x y0 with
    | none =>
      rw [smallMul_none_iff] at h1
      rw [capOk_mono (by omega) hN] at h1
      simp at h1
    | some z1 =>
      simp only
      obtain ⟨m1, m2, m3, _⟩ := smallMul_spec hx hy.1 hcx h1
      have hb := mul_limb_bound (toNatW_lt hx) hy.1
      have := Bwpow_pos w x.length
      obtain ⟨z, hz⟩ := longMulLoop_some hw (cap := cap) hx hy.2 m2 m3
        (by rw [show x.length + 1 + ys.length = x.length + (ys.length + 1) by omega]; exact hN)
        (by rw [m1, Nat.pow_succ]; omega)
      rw [hz]
      exact ⟨_, rfl⟩

/-- if the loop of `longMul` fails, the exact product does not fit -/
theorem longMulLoop_none (hw : 0 < w) {cap : Option Nat} {x : Big} (hx : AllLtW w x)
    (hn : TopNZW w x) (hcx : capOk cap x.length = true) :
    ∀ {ys : List Nat} {index : Nat} {z : Big}, AllLtW w ys → AllLtW w z →
    capOk cap z.length = true → longMulLoop w cap x ys index z = none →
    ∃ c, cap = some c ∧ Bw w ^ c ≤ toNatW w z + toNatW w x * toNatW w ys * Bw w ^ index := by
  intro ys
  induction ys with
  | nil => intro index z _ _ _ h; simp [longMulLoop] at h
  | cons yi ys ih =>
    intro index z hys hz hc h
    rw [AllLtW_cons] at hys
    simp only [longMulLoop] at h
    have hxl : 0 < x.length := List.length_pos_iff.mpr hn.1
    have hBi : 0 < Bw w ^ index := Bwpow_pos _ _
    -- the contribution of limb `yi` is bounded by the whole remaining product
    have hmono : toNatW w x * yi * Bw w ^ index ≤
        toNatW w x * toNatW w (yi :: ys) * Bw w ^ index := by
      apply Nat.mul_le_mul_right
      apply Nat.mul_le_mul_left
      rw [toNatW_cons]; omega
    split at h
    · next hyi =>
      have h0 : vecTryFrom cap x = some x := by simp [vecTryFrom, vecTryExtend, hcx]
      rw [h0] at h
      simp only at h
      split at h
      · next h1 =>
        rw [smallMul_none_iff] at h1
        obtain ⟨c, hcc, hgt⟩ := capOk_false_iff.mp h1.1
        refine ⟨c, hcc, ?_⟩
        have := Bwpow_le w (show c ≤ x.length by omega)
        have : toNatW w x * yi * 1 ≤ toNatW w x * yi * Bw w ^ index := Nat.mul_le_mul_left _ hBi
        have := h1.2
        omega
      · next zi h1 =>
        obtain ⟨m1, m2, m3, _⟩ := smallMul_spec hx hys.1 hcx h1
        have mt := smallMul_topNZ hn hyi h1
        split at h
        · next h2 =>
          rw [largeAddFrom_none_iff hw hz m2 mt.1] at h2
          rcases h2 with ⟨h2, _⟩ | ⟨h2, h3⟩
          · obtain ⟨c, hcc, hgt⟩ := capOk_false_iff.mp h2
            refine ⟨c, hcc, ?_⟩
            have h4 := Bwpow_le w (show c ≤ (zi.length - 1) + index by omega)
            rw [Nat.pow_add] at h4
            have := Nat.mul_le_mul_right (Bw w ^ index) mt.2
            rw [m1] at this
            omega
          · obtain ⟨c, hcc, hgt⟩ := capOk_false_iff.mp h2
            refine ⟨c, hcc, ?_⟩
            have := Bwpow_le w (show c ≤ max z.length (zi.length + index) by omega)
            rw [m1] at h3
            omega
        · next z' h2 =>
          obtain ⟨a1, a2, a3, _⟩ := largeAddFrom_spec hw hz m2 hc h2
          obtain ⟨c, hcc, hge⟩ := ih hys.2 a2 a3 h
          refine ⟨c, hcc, ?_⟩
          have e : toNatW w z' + toNatW w x * toNatW w ys * Bw w ^ (index + 1) =
              toNatW w z + toNatW w x * toNatW w (yi :: ys) * Bw w ^ index := by
            rw [a1, m1, toNatW_cons, Nat.pow_succ]; ring
          omega
    · next hyi =>
      simp only [ne_eq, Decidable.not_not] at hyi
      obtain ⟨c, hcc, hge⟩ := ih hys.2 hz hc h
      refine ⟨c, hcc, ?_⟩
      have e : toNatW w z + toNatW w x * toNatW w ys * Bw w ^ (index + 1) =
          toNatW w z + toNatW w x * toNatW w (yi :: ys) * Bw w ^ index := by
        rw [toNatW_cons, hyi, Nat.pow_succ]; ring
      omega

theorem longMul_none_topNZ (hw : 0 < w) {cap : Option Nat} {x y : Big} (hx : AllLtW w x)
    (hy : AllLtW w y) (hn : TopNZW w x) (hy0 : 0 < toNatW w y) (h : longMul w cap x y = none) :
    ∃ c, cap = some c ∧ Bw w ^ c ≤ toNatW w x * toNatW w y := by
  unfold longMul at h
  have hxy : toNatW w x * 1 ≤ toNatW w x * toNatW w y := Nat.mul_le_mul_left _ hy0
  split at h
  · next h0 =>
    rw [vecTryFrom_none] at h0
    obtain ⟨c, hcc, hgt⟩ := capOk_false_iff.mp h0
    refine ⟨c, hcc, ?_⟩
    have := Bwpow_le w (show c ≤ x.length - 1 by omega)
    have := hn.2
    omega
  · next z0 h0 =>
    obtain ⟨rfl, hcx⟩ := vecTryFrom_some h0
    cases y with
    | nil => simp at h
    | cons y0 ys =>
      rw [AllLtW_cons] at hy
      simp only at h
      split at h
      · next h1 =>
        rw [smallMul_none_iff] at h1
        obtain ⟨c, hcc, hgt⟩ := capOk_false_iff.mp h1.1
        refine ⟨c, hcc, ?_⟩
        have := Bwpow_le w (show c ≤ z0.length by omega)
        have : toNatW w z0 * y0 ≤ toNatW w z0 * toNatW w (y0 :: ys) := by
          apply Nat.mul_le_mul_left; rw [toNatW_cons]; omega
        have := h1.2
        omega
      · next z1 h1 =>
        obtain ⟨m1, m2, m3, _⟩ := smallMul_spec hx hy.1 hcx h1
        split at h
        · next h2 =>
          obtain ⟨c, hcc, hge⟩ := longMulLoop_none hw hx hn hcx hy.2 m2 m3 h2
          refine ⟨c, hcc, ?_⟩
          have e : toNatW w z1 + toNatW w z0 * toNatW w ys * Bw w ^ 1 =
              toNatW w z0 * toNatW w (y0 :: ys) := by
            rw [m1, toNatW_cons]; ring
          omega
        · simp at h

-- ---------------------------------------------------------------- largeMul
theorem largeMul_spec (hw : 0 < w) {cap : Option Nat} {x y r : Big} (hx : AllLtW w x)
    (hy : AllLtW w y) (hx0 : x ≠ []) (hcap : capOk cap x.length = true)
    (h : largeMul w cap x y = some r) :
    toNatW w r = toNatW w x * toNatW w y ∧ AllLtW w r ∧ capOk cap r.length = true := by
  unfold largeMul at h
  split at h
  · next y0 =>
    obtain ⟨a, b, c, _⟩ := smallMul_spec hx (AllLtW_singleton.mp hy) hcap h
    exact ⟨by rw [a, toNatW_singleton], b, c⟩
  · obtain ⟨a, b, c, _⟩ := longMul_spec hw hy hx hx0 h
    exact ⟨by rw [a, Nat.mul_comm], b, c⟩

theorem largeMul_some (hw : 0 < w) {cap : Option Nat} {x y : Big} (hx : AllLtW w x)
    (hy : AllLtW w y) (hN : capOk cap (x.length + y.length) = true) :
    ∃ r, largeMul w cap x y = some r := by
  unfold largeMul
  split
  · next y0 =>
    cases h1 : smallMul w cap x y0 with
    | none =>
      rw [smallMul_none_iff] at h1
      simp only [List.length_cons, List.length_nil, Nat.zero_add] at hN
      rw [hN] at h1; simp at h1
    | some r => exact ⟨r, rfl⟩
  · exact longMul_some hw hy hx (by rw [Nat.add_comm]; exact hN)

theorem largeMul_none_topNZ (hw : 0 < w) {cap : Option Nat} {x y : Big} (hx : AllLtW w x)
    (hy : AllLtW w y) (hnx : TopNZW w x) (hny : TopNZW w y) (h : largeMul w cap x y = none) :
    ∃ c, cap = some c ∧ Bw w ^ c ≤ toNatW w x * toNatW w y := by
  unfold largeMul at h
  split at h
  · next y0 =>
    rw [smallMul_none_iff] at h
    obtain ⟨c, hcc, hgt⟩ := capOk_false_iff.mp h.1
    refine ⟨c, hcc, ?_⟩
    have := Bwpow_le w (show c ≤ x.length by omega)
    rw [toNatW_singleton]
    have := h.2
    omega
  · have hxpos : 0 < toNatW w x := Nat.lt_of_lt_of_le (Bwpow_pos _ _) hnx.2
    obtain ⟨c, hcc, hge⟩ := longMul_none_topNZ hw hy hx hny hxpos h
    exact ⟨c, hcc, by rw [Nat.mul_comm]; exact hge⟩

/-- the result of `largeMul` on non-zero operands again has a non-zero top limb -/
theorem largeMul_topNZ (hw : 0 < w) {cap : Option Nat} {x y r : Big} (hx : AllLtW w x)
    (hy : AllLtW w y) (hnx : TopNZW w x) (hny : TopNZW w y) (h : largeMul w cap x y = some r) :
    TopNZW w r := by
  have hxpos : 0 < toNatW w x := Nat.lt_of_lt_of_le (Bwpow_pos _ _) hnx.2
  have hypos : 0 < toNatW w y := Nat.lt_of_lt_of_le (Bwpow_pos _ _) hny.2
  unfold largeMul at h
  split at h
  · next y0 =>
    rw [toNatW_singleton] at hypos
    exact smallMul_topNZ hnx (by omega) h
  · obtain ⟨a, _, _, d⟩ := longMul_spec hw hy hx hnx.1 h
    have hpos : 0 < toNatW w r := by rw [a]; exact Nat.mul_pos hypos hxpos
    have hne : r ≠ [] := by intro h0; subst h0; simp [toNatW] at hpos
    exact TopNZW_of_normalized d hne

-- ---------------------------------------------------------------- pow
/-- what `pow` needs from the tables of a non-compact build with `w`-bit limbs -/
structure PowTablesOKW (w : Nat) (T : PowTables) : Prop where
  large_val : toNatW w T.largePow5 = 5 ^ T.largePow5Step
  large_lt : AllLtW w T.largePow5
  large_norm : isNormalized T.largePow5 = true
  small : ∀ i, i < powStep w → T.smallIntPow5.getD i 0 = 5 ^ i

theorem powStep_pos (w : Nat) : 0 < powStep w := by unfold powStep; split <;> omega
theorem powStep_le (w : Nat) : powStep w ≤ 27 := by unfold powStep; split <;> omega

theorem five_pow_lt (hw : w = 32 ∨ w = 64) {e : Nat} (h : e ≤ powStep w) : 5 ^ e < Bw w := by
  rcases hw with rfl | rfl
  · have : 5 ^ e ≤ 5 ^ 13 := Nat.pow_le_pow_right (by omega) h
    have : (5 : Nat) ^ 13 < Bw 32 := by unfold Bw; norm_num
    omega
  · have : 5 ^ e ≤ 5 ^ 27 := Nat.pow_le_pow_right (by omega) h
    have : (5 : Nat) ^ 27 < Bw 64 := by unfold Bw; norm_num
    omega

theorem pos_of_width (hw : w = 32 ∨ w = 64) : 0 < w := by omega

theorem PowTablesOKW.topNZ {T : PowTables} (h : PowTablesOKW w T) : TopNZW w T.largePow5 := by
  apply TopNZW_of_normalized h.large_norm
  intro h0
  have := h.large_val
  rw [h0] at this
  have := Nat.pow_pos (n := T.largePow5Step) (show 0 < 5 by omega)
  simp only [toNatW] at *
  omega

theorem powLargeLoop_spec (hw : 0 < w) {cap : Option Nat} {T : PowTables} (hT : PowTablesOKW w T) :
    ∀ (fuel : Nat) {x x' : Big} {e e' : Nat}, AllLtW w x → toNatW w x ≠ 0 →
    capOk cap x.length = true → powLargeLoop w cap T fuel x e = some (x', e') →
    toNatW w x' * 5 ^ e' = toNatW w x * 5 ^ e ∧ AllLtW w x' ∧ toNatW w x' ≠ 0 ∧
    capOk cap x'.length = true ∧ (TopNZW w x → TopNZW w x') := by
  intro fuel
  induction fuel with
  | zero =>
    intro x x' e e' hx h0 hc h
    simp only [powLargeLoop, Option.some.injEq, Prod.mk.injEq] at h
    obtain ⟨rfl, rfl⟩ := h
    exact ⟨rfl, hx, h0, hc, id⟩
  | succ fuel ih =>
    intro x x' e e' hx h0 hc h
    simp only [powLargeLoop] at h
    split at h
    · next hge =>
      split at h
      · simp at h
      · next x1 h1 =>
        have hne : x ≠ [] := by intro hh; subst hh; simp [toNatW] at h0
        obtain ⟨a, b, c⟩ := largeMul_spec hw hx hT.large_lt hne hc h1
        have h0' : toNatW w x1 ≠ 0 := by
          rw [a, hT.large_val]
          exact Nat.mul_ne_zero h0 (Nat.pow_pos (by omega)).ne'
        obtain ⟨r1, r2, r3, r4, r5⟩ := ih b h0' c h
        refine ⟨?_, r2, r3, r4, fun ht => r5 (largeMul_topNZ hw hx hT.large_lt ht hT.topNZ h1)⟩
        rw [r1, a, hT.large_val, Nat.mul_assoc, ← Nat.pow_add]
        congr 2; omega
    · simp only [Option.some.injEq, Prod.mk.injEq] at h
      obtain ⟨rfl, rfl⟩ := h
      exact ⟨rfl, hx, h0, hc, id⟩

theorem powLargeLoop_none (hw : 0 < w) {cap : Option Nat} {T : PowTables} (hT : PowTablesOKW w T) :
    ∀ (fuel : Nat) {x : Big} {e : Nat}, AllLtW w x → TopNZW w x →
    capOk cap x.length = true → powLargeLoop w cap T fuel x e = none →
    ∃ c, cap = some c ∧ Bw w ^ c ≤ toNatW w x * 5 ^ e := by
  intro fuel
  induction fuel with
  | zero => intro x e _ _ _ h; simp [powLargeLoop] at h
  | succ fuel ih =>
    intro x e hx hn hc h
    simp only [powLargeLoop] at h
    split at h
    · next hge =>
      have hsplit : (5 : Nat) ^ e = 5 ^ T.largePow5Step * 5 ^ (e - T.largePow5Step) := by
        rw [← Nat.pow_add]; congr 1; omega
      split at h
      · next h1 =>
        obtain ⟨c, hcc, hle⟩ := largeMul_none_topNZ hw hx hT.large_lt hn hT.topNZ h1
        refine ⟨c, hcc, ?_⟩
        rw [hT.large_val] at hle
        rw [hsplit, ← Nat.mul_assoc]
        have : toNatW w x * 5 ^ T.largePow5Step * 1 ≤
            toNatW w x * 5 ^ T.largePow5Step * 5 ^ (e - T.largePow5Step) :=
          Nat.mul_le_mul_left _ (Nat.pow_pos (by omega))
        omega
      · next x1 h1 =>
        obtain ⟨a, b, c⟩ := largeMul_spec hw hx hT.large_lt hn.1 hc h1
        obtain ⟨c', hcc, hle⟩ := ih b (largeMul_topNZ hw hx hT.large_lt hn hT.topNZ h1) c h
        refine ⟨c', hcc, ?_⟩
        rw [a, hT.large_val, Nat.mul_assoc, ← hsplit] at hle
        exact hle
    · simp at h

theorem powSmallLoop_spec (hw : w = 32 ∨ w = 64) {cap : Option Nat} :
    ∀ (fuel : Nat) {x x' : Big} {e e' : Nat}, AllLtW w x →
    capOk cap x.length = true → powSmallLoop w cap fuel x e = some (x', e') →
    toNatW w x' * 5 ^ e' = toNatW w x * 5 ^ e ∧ AllLtW w x' ∧
    capOk cap x'.length = true ∧ (TopNZW w x → TopNZW w x') ∧ (e < fuel → e' < powStep w) := by
  intro fuel
  have hsp := powStep_pos w
  induction fuel with
  | zero =>
    intro x x' e e' hx hc h
    simp only [powSmallLoop, Option.some.injEq, Prod.mk.injEq] at h
    obtain ⟨rfl, rfl⟩ := h
    exact ⟨rfl, hx, hc, id, by omega⟩
  | succ fuel ih =>
    intro x x' e e' hx hc h
    simp only [powSmallLoop] at h
    split at h
    · next hge =>
      split at h
      · simp at h
      · next x1 h1 =>
        obtain ⟨a, b, c, _⟩ := smallMul_spec hx (five_pow_lt hw (Nat.le_refl _)) hc h1
        obtain ⟨r1, r2, r3, r4, r5⟩ := ih b c h
        refine ⟨?_, r2, r3, fun ht => r4 (smallMul_topNZ ht (Nat.pow_pos (by omega)).ne' h1),
          fun _ => r5 (by omega)⟩
        rw [r1, a, Nat.mul_assoc, ← Nat.pow_add]
        congr 2; omega
    · next hlt =>
      simp only [Option.some.injEq, Prod.mk.injEq] at h
      obtain ⟨rfl, rfl⟩ := h
      exact ⟨rfl, hx, hc, id, fun _ => by omega⟩

theorem powSmallLoop_none (hw : w = 32 ∨ w = 64) {cap : Option Nat} :
    ∀ (fuel : Nat) {x : Big} {e : Nat}, AllLtW w x →
    capOk cap x.length = true → powSmallLoop w cap fuel x e = none →
    ∃ c, cap = some c ∧ Bw w ^ c ≤ toNatW w x * 5 ^ e := by
  intro fuel
  induction fuel with
  | zero => intro x e _ _ h; simp [powSmallLoop] at h
  | succ fuel ih =>
    intro x e hx hc h
    simp only [powSmallLoop] at h
    split at h
    · next hge =>
      have hsplit : (5 : Nat) ^ e = 5 ^ powStep w * 5 ^ (e - powStep w) := by
        rw [← Nat.pow_add]; congr 1; omega
      split at h
      · next h1 =>
        rw [smallMul_none_iff] at h1
        obtain ⟨c, hcc, hgt⟩ := capOk_false_iff.mp h1.1
        refine ⟨c, hcc, ?_⟩
        have := Bwpow_le w (show c ≤ x.length by omega)
        rw [hsplit, ← Nat.mul_assoc]
        have : toNatW w x * 5 ^ powStep w * 1 ≤ toNatW w x * 5 ^ powStep w * 5 ^ (e - powStep w) :=
          Nat.mul_le_mul_left _ (Nat.pow_pos (by omega))
        have := h1.2
        omega
      · next x1 h1 =>
        obtain ⟨a, b, c, _⟩ := smallMul_spec hx (five_pow_lt hw (Nat.le_refl _)) hc h1
        obtain ⟨c', hcc, hle⟩ := ih b c h
        refine ⟨c', hcc, ?_⟩
        rw [a, Nat.mul_assoc, ← hsplit] at hle
        exact hle
    · simp at h

/-- the last factor of `pow`: `int_pow_fast_path(e, Five) as Limb` -/
theorem intPow5_eq (hw : w = 32 ∨ w = 64) {T : PowTables}
    (hT : T.compact = false → PowTablesOKW w T) {e : Nat} (he : e < powStep w) :
    intPow5 T.compact T.smallIntPow5 e % Bw w = 5 ^ e := by
  have h1 : 5 ^ e < Bw w := five_pow_lt hw (by omega)
  have h2 : 5 ^ e < B := MinLex.five_pow_lt (by have := powStep_le w; omega)
  unfold intPow5
  cases hc : T.compact with
  | true => simp only [if_true]; rw [Nat.mod_eq_of_lt h2, Nat.mod_eq_of_lt h1]
  | false =>
    simp only [Bool.false_eq_true, if_false]
    rw [(hT hc).small e he, Nat.mod_eq_of_lt h1]

theorem pow_stage1 (hw : 0 < w) {cap : Option Nat} {T : PowTables}
    (hT : T.compact = false → PowTablesOKW w T)
    {x x1 : Big} {e e1 : Nat} (hx : AllLtW w x)
    (h0 : toNatW w x ≠ 0 ∨ T.compact = true ∨ e < T.largePow5Step)
    (hc : capOk cap x.length = true)
    (h : (if T.compact then some (x, e) else powLargeLoop w cap T (e + 1) x e) = some (x1, e1)) :
    toNatW w x1 * 5 ^ e1 = toNatW w x * 5 ^ e ∧ AllLtW w x1 ∧ capOk cap x1.length = true ∧
    (TopNZW w x → TopNZW w x1) := by
  cases hcm : T.compact with
  | true =>
    rw [hcm] at h
    simp only [if_true, Option.some.injEq, Prod.mk.injEq] at h
    obtain ⟨rfl, rfl⟩ := h
    exact ⟨rfl, hx, hc, id⟩
  | false =>
    rw [hcm] at h
    simp only [Bool.false_eq_true, if_false] at h
    rcases h0 with h0 | h0 | h0
    · obtain ⟨a, b, _, d, e⟩ := powLargeLoop_spec hw (hT hcm) _ hx h0 hc h
      exact ⟨a, b, d, e⟩
    · rw [hcm] at h0; exact absurd h0 (by simp)
    · have hn : ¬ (T.largePow5Step ≠ 0 ∧ e ≥ T.largePow5Step) := by omega
      simp only [powLargeLoop, hn, if_false, Option.some.injEq, Prod.mk.injEq] at h
      obtain ⟨rfl, rfl⟩ := h
      exact ⟨rfl, hx, hc, id⟩

theorem pow_spec (hw : w = 32 ∨ w = 64) {cap : Option Nat} {T : PowTables}
    (hT : T.compact = false → PowTablesOKW w T)
    {x r : Big} {e : Nat} (hx : AllLtW w x)
    (h0 : toNatW w x ≠ 0 ∨ T.compact = true ∨ e < T.largePow5Step)
    (hc : capOk cap x.length = true) (h : pow w cap T x e = some r) :
    toNatW w r = toNatW w x * 5 ^ e ∧ AllLtW w r ∧ capOk cap r.length = true ∧
    (TopNZW w x → TopNZW w r) := by
  unfold pow at h
  simp only at h
  split at h
  · simp at h
  · next x1 e1 h1 =>
    obtain ⟨a1, a2, a3, a4⟩ := pow_stage1 (pos_of_width hw) hT hx h0 hc h1
    split at h
    · simp at h
    · next x2 e2 h2 =>
      obtain ⟨b1, b2, b3, b4, b5⟩ := powSmallLoop_spec hw _ a2 a3 h2
      have he2 : e2 < powStep w := b5 (by omega)
      split at h
      · next hne =>
        rw [intPow5_eq hw hT he2] at h
        obtain ⟨c1, c2, c3, _⟩ := smallMul_spec b2 (five_pow_lt hw (by omega)) b3 h
        refine ⟨by rw [c1, b1, a1], c2, c3, fun ht => ?_⟩
        exact smallMul_topNZ (b4 (a4 ht)) (Nat.pow_pos (by omega)).ne' h
      · next hz =>
        simp only [ne_eq, Decidable.not_not] at hz
        simp only [Option.some.injEq] at h
        subst h
        subst hz
        refine ⟨by rw [← a1, ← b1]; simp, b2, b3, fun ht => b4 (a4 ht)⟩

theorem pow_none_topNZ (hw : w = 32 ∨ w = 64) {cap : Option Nat} {T : PowTables}
    (hT : T.compact = false → PowTablesOKW w T)
    {x : Big} {e : Nat} (hx : AllLtW w x) (hn : TopNZW w x) (hc : capOk cap x.length = true)
    (h : pow w cap T x e = none) : ∃ c, cap = some c ∧ Bw w ^ c ≤ toNatW w x * 5 ^ e := by
  have h0 : toNatW w x ≠ 0 := (Nat.lt_of_lt_of_le (Bwpow_pos _ _) hn.2).ne'
  unfold pow at h
  simp only at h
  split at h
  · next h1 =>
    cases hcm : T.compact with
    | true => rw [hcm] at h1; simp at h1
    | false =>
      rw [hcm] at h1
      simp only [Bool.false_eq_true, if_false] at h1
      exact powLargeLoop_none (pos_of_width hw) (hT hcm) _ hx hn hc h1
  · next x1 e1 h1 =>
    obtain ⟨a1, a2, a3, a4⟩ := pow_stage1 (pos_of_width hw) hT hx (Or.inl h0) hc h1
    split at h
    · next h2 =>
      obtain ⟨c, hcc, hle⟩ := powSmallLoop_none hw _ a2 a3 h2
      exact ⟨c, hcc, by rw [← a1]; exact hle⟩
    · next x2 e2 h2 =>
      obtain ⟨b1, b2, b3, b4, b5⟩ := powSmallLoop_spec hw _ a2 a3 h2
      have he2 : e2 < powStep w := b5 (by omega)
      split at h
      · rw [intPow5_eq hw hT he2, smallMul_none_iff] at h
        obtain ⟨c, hcc, hgt⟩ := capOk_false_iff.mp h.1
        refine ⟨c, hcc, ?_⟩
        have := Bwpow_le w (show c ≤ x2.length by omega)
        have := h.2
        rw [← a1, ← b1]; omega
      · simp at h

theorem bigintPow_spec (hw : w = 32 ∨ w = 64) {cap : Option Nat} {T : PowTables}
    (hT : T.compact = false → PowTablesOKW w T) {x r : Big} {base e : Nat}
    (hb : base = 2 ∨ base = 5 ∨ base = 10) (hx : AllLtW w x) (h0 : toNatW w x ≠ 0)
    (hc : capOk cap x.length = true) (h : bigintPow w cap T x base e = some r) :
    toNatW w r = toNatW w x * base ^ e ∧ AllLtW w r ∧ capOk cap r.length = true := by
  unfold bigintPow at h
  rcases hb with rfl | rfl | rfl
  · simp only [Nat.reduceMod, OfNat.ofNat_ne_zero, if_false, if_true] at h
    exact shl_spec (pos_of_width hw) hx hc h
  · simp only [Nat.reduceMod, if_true, Nat.reduceEqDiff, if_false] at h
    split at h
    · simp at h
    · next x1 h1 =>
      simp only [Option.some.injEq] at h
      subst h
      obtain ⟨a, b, c, _⟩ := pow_spec hw hT hx (Or.inl h0) hc h1
      exact ⟨a, b, c⟩
  · simp only [Nat.reduceMod, if_true] at h
    split at h
    · simp at h
    · next x1 h1 =>
      obtain ⟨a, b, c, _⟩ := pow_spec hw hT hx (Or.inl h0) hc h1
      obtain ⟨a', b', c'⟩ := shl_spec (pos_of_width hw) b c h
      refine ⟨?_, b', c'⟩
      rw [a', a, Nat.mul_assoc, ← Nat.mul_pow]

theorem bigintPow_none_topNZ (hw : w = 32 ∨ w = 64) {cap : Option Nat} {T : PowTables}
    (hT : T.compact = false → PowTablesOKW w T) {x : Big} {base e : Nat}
    (hb : base = 2 ∨ base = 5 ∨ base = 10) (hx : AllLtW w x) (hn : TopNZW w x)
    (hc : capOk cap x.length = true) (h : bigintPow w cap T x base e = none) :
    ∃ c, cap = some c ∧ Bw w ^ c ≤ toNatW w x * base ^ e := by
  have h0 : toNatW w x ≠ 0 := (Nat.lt_of_lt_of_le (Bwpow_pos _ _) hn.2).ne'
  unfold bigintPow at h
  rcases hb with rfl | rfl | rfl
  · simp only [Nat.reduceMod, OfNat.ofNat_ne_zero, if_false, if_true] at h
    exact shl_none_topNZ (pos_of_width hw) hx hc hn h
  · simp only [Nat.reduceMod, if_true, Nat.reduceEqDiff, if_false] at h
    split at h
    · next h1 => exact pow_none_topNZ hw hT hx hn hc h1
    · simp at h
  · simp only [Nat.reduceMod, if_true] at h
    split at h
    · next h1 =>
      obtain ⟨c, hcc, hle⟩ := pow_none_topNZ hw hT hx hn hc h1
      refine ⟨c, hcc, ?_⟩
      have : toNatW w x * 5 ^ e ≤ toNatW w x * 10 ^ e :=
        Nat.mul_le_mul_left _ (Nat.pow_le_pow_left (by omega) _)
      omega
    · next x1 h1 =>
      obtain ⟨a, b, c, d⟩ := pow_spec hw hT hx (Or.inl h0) hc h1
      obtain ⟨c', hcc, hle⟩ := shl_none_topNZ (pos_of_width hw) b c (d hn) h
      refine ⟨c', hcc, ?_⟩
      rw [a, Nat.mul_assoc, ← Nat.mul_pow] at hle
      exact hle

/-- `Bigint::pow` keeps a non-zero normalised vector normalised -/
theorem bigintPow_topNZ (hw : w = 32 ∨ w = 64) {cap : Option Nat} {T : PowTables}
    (hT : T.compact = false → PowTablesOKW w T) {x r : Big} {base e : Nat}
    (hb : base = 2 ∨ base = 5 ∨ base = 10) (hx : AllLtW w x) (hn : TopNZW w x)
    (hc : capOk cap x.length = true) (h : bigintPow w cap T x base e = some r) : TopNZW w r := by
  have h0 : toNatW w x ≠ 0 := (Nat.lt_of_lt_of_le (Bwpow_pos _ _) hn.2).ne'
  unfold bigintPow at h
  rcases hb with rfl | rfl | rfl
  · simp only [Nat.reduceMod, OfNat.ofNat_ne_zero, if_false, if_true] at h
    exact shl_topNZ (pos_of_width hw) hx hc hn h
  · simp only [Nat.reduceMod, if_true, Nat.reduceEqDiff, if_false] at h
    split at h
    · simp at h
    · next x1 h1 =>
      simp only [Option.some.injEq] at h
      subst h
      exact (pow_spec hw hT hx (Or.inl h0) hc h1).2.2.2 hn
  · simp only [Nat.reduceMod, if_true] at h
    split at h
    · simp at h
    · next x1 h1 =>
      obtain ⟨_, b, c, d⟩ := pow_spec hw hT hx (Or.inl h0) hc h1
      exact shl_topNZ (pos_of_width hw) b c (d hn) h

-- ---------------------------------------------------------------- the generated tables
theorem largePow5W32_val : toNatW 32 Gen.largePow5W32 = 5 ^ 135 := by decide +kernel

theorem genPowW_32 (compact : Bool) :
    genPowW 32 compact = { genPow compact with largePow5 := Gen.largePow5W32 } := by
  simp [genPowW]

theorem genPowW_64 (compact : Bool) : genPowW 64 compact = genPow compact := by
  simp [genPowW]

/-- The 32-bit tables satisfy what `pow` needs: `LARGE_POW5 = 5^135` (ten normalised limbs
    `< 2^32`) and `SMALL_INT_POW5[i] = 5^i` for `i < 13`. -/
theorem genPowW32_tablesOK (compact : Bool) : PowTablesOKW 32 (genPowW 32 compact) := by
  rw [genPowW_32]
  constructor
  · show toNatW 32 Gen.largePow5W32 = 5 ^ Gen.largePow5Step
    decide +kernel
  · show AllLtW 32 Gen.largePow5W32
    decide +kernel
  · show isNormalized Gen.largePow5W32 = true
    decide +kernel
  · show ∀ i, i < 13 → Gen.smallIntPow5.getD i 0 = 5 ^ i
    decide +kernel

theorem genPowW64_tablesOK (compact : Bool) : PowTablesOKW 64 (genPowW 64 compact) := by
  rw [genPowW_64]
  constructor
  · show toNatW 64 Gen.largePow5 = 5 ^ Gen.largePow5Step
    decide +kernel
  · show AllLtW 64 Gen.largePow5
    decide +kernel
  · show isNormalized Gen.largePow5 = true
    decide +kernel
  · show ∀ i, i < 27 → Gen.smallIntPow5.getD i 0 = 5 ^ i
    decide +kernel

-- ---------------------------------------------------------------- normalisation bookkeeping
/-- value-level "normalised": empty, or the top limb is non-zero -/
def NormOKW (w : Nat) (x : Big) : Prop := x = [] ∨ TopNZW w x

theorem normalized_of_topNZ {x : Big} (hx : AllLtW w x) (h : TopNZW w x) :
    isNormalized x = true := by
  rw [isNormalized_iff]
  intro hl
  obtain ⟨ys, rfl⟩ : ∃ ys, x = ys ++ [0] := by
    rcases List.eq_nil_or_concat x with h0 | ⟨ys, v, rfl⟩
    · exact absurd h0 h.1
    · rw [List.concat_eq_append, List.getLast?_concat] at hl
      simp only [Option.some.injEq] at hl
      subst hl; exact ⟨ys, by simp⟩
  have h2 := h.2
  rw [toNatW_append, toNatW_singleton] at h2
  have := toNatW_lt (AllLtW_append.mp hx).1
  simp only [List.length_append, List.length_cons, List.length_nil, Nat.zero_add,
    Nat.add_sub_cancel, Nat.mul_zero, Nat.add_zero] at h2
  omega

theorem normalized_of_normOK {x : Big} (hx : AllLtW w x) (h : NormOKW w x) :
    isNormalized x = true := by
  rcases h with rfl | h
  · rfl
  · exact normalized_of_topNZ hx h

theorem normOK_of_normalized {x : Big} (hn : isNormalized x = true) : NormOKW w x := by
  by_cases h : x = []
  · exact Or.inl h
  · exact Or.inr (TopNZW_of_normalized hn h)

theorem topNZ_of_normOK {x : Big} (h : NormOKW w x) (h0 : toNatW w x ≠ 0) : TopNZW w x := by
  rcases h with rfl | h
  · exact absurd rfl h0
  · exact h

theorem isNormalized_concat {ys : Big} {v : Nat} (hv : v ≠ 0) : isNormalized (ys ++ [v]) = true := by
  rw [isNormalized_iff, List.getLast?_concat]
  simpa using hv

/-- `small_mul` by a non-zero scalar keeps a normalised vector normalised (no limb bound needed) -/
theorem smallMul_normalized {cap : Option Nat} {x r : Big} {y : Nat}
    (hn : isNormalized x = true) (hy0 : y ≠ 0) (h : smallMul w cap x y = some r) :
    isNormalized r = true ∧ (x = [] → r = []) ∧ (x ≠ [] → r ≠ []) := by
  by_cases hx0 : x = []
  · subst hx0
    have : r = [] := by
      unfold smallMul at h
      simpa [smallMulAux] using h.symm
    subst this
    exact ⟨rfl, fun _ => rfl, fun h => absurd rfl h⟩
  · have ht := smallMul_topNZ (TopNZW_of_normalized (w := w) hn hx0) hy0 h
    refine ⟨?_, fun h => absurd h hx0, fun _ => ht.1⟩
    have h3 := smallMulAux_allLt (w := w) y x 0
    unfold smallMul at h
    simp only at h
    split at h
    · next hz =>
      obtain ⟨rfl, _⟩ := vecTryPush_some h
      exact isNormalized_concat hz
    · simp only [Option.some.injEq] at h
      subst h
      exact normalized_of_topNZ h3 ht

theorem smallMul_normOK {cap : Option Nat} {x r : Big} {y : Nat} (hn : NormOKW w x) (hy0 : y ≠ 0)
    (h : smallMul w cap x y = some r) : NormOKW w r := by
  rcases hn with rfl | hn
  · left
    unfold smallMul at h
    simpa [smallMulAux] using h.symm
  · exact Or.inr (smallMul_topNZ hn hy0 h)

theorem smallAdd_normOK {cap : Option Nat} {x r : Big} {y : Nat} (hx : AllLtW w x)
    (hy : y < Bw w) (hn : NormOKW w x) (h : smallAdd w cap x y = some r) : NormOKW w r := by
  obtain ⟨h1, h2, h3, h4⟩ := smallAddFrom_core hx hy (Nat.zero_le _)
  unfold smallAdd smallAddFrom at h
  simp only at h
  split at h
  · next hz =>
    obtain ⟨rfl, _⟩ := vecTryPush_some h
    right
    refine ⟨by simp, ?_⟩
    rw [toNatW_append, toNatW_singleton, List.length_append]
    have : Bw w ^ (List.take 0 x ++ (smallAddAux w y (List.drop 0 x)).1).length * 1 ≤
        Bw w ^ (List.take 0 x ++ (smallAddAux w y (List.drop 0 x)).1).length *
          (smallAddAux w y (List.drop 0 x)).2 :=
      Nat.mul_le_mul_left _ (Nat.pos_of_ne_zero hz)
    simp only [List.length_cons, List.length_nil, Nat.zero_add, Nat.add_sub_cancel]
    omega
  · next hz =>
    simp only [ne_eq, Decidable.not_not] at hz
    simp only [Option.some.injEq] at h
    subst h
    rw [hz] at h2
    rcases hn with rfl | hn
    · left
      exact List.eq_nil_of_length_eq_zero (by rw [h1]; rfl)
    · right
      refine ⟨fun h0 => hn.1 (List.eq_nil_of_length_eq_zero (by rw [← h1, h0]; rfl)), ?_⟩
      rw [h1]
      have := hn.2
      simp only [Nat.mul_zero, Nat.add_zero, Nat.pow_zero, Nat.mul_one] at h2
      omega

/-- `small_add` keeps a normalised vector normalised -/
theorem smallAdd_normalized {cap : Option Nat} {x r : Big} {y : Nat} (hx : AllLtW w x)
    (hy : y < Bw w) (hcap : capOk cap x.length = true) (hn : isNormalized x = true)
    (h : smallAdd w cap x y = some r) : isNormalized r = true := by
  have hr := (smallAddFrom_spec hx hy (Nat.zero_le _) hcap h).2.1
  exact normalized_of_normOK hr (smallAdd_normOK hx hy (normOK_of_normalized hn) h)

/-- `shl` keeps a non-empty normalised vector normalised and non-empty -/
theorem shl_normalized (hw : 0 < w) {cap : Option Nat} {x r : Big} {n : Nat} (hx : AllLtW w x)
    (hcap : capOk cap x.length = true) (hn : isNormalized x = true) (hx0 : x ≠ [])
    (h : shl w cap x n = some r) : isNormalized r = true ∧ r ≠ [] := by
  have ht := shl_topNZ hw hx hcap (TopNZW_of_normalized hn hx0) h
  exact ⟨normalized_of_topNZ (shl_spec hw hx hcap h).2.1 ht, ht.1⟩

/-- `pow` keeps a non-empty normalised vector normalised and non-empty -/
theorem pow_normalized (hw : w = 32 ∨ w = 64) {cap : Option Nat} {T : PowTables}
    (hT : T.compact = false → PowTablesOKW w T) {x r : Big} {e : Nat} (hx : AllLtW w x)
    (hn : isNormalized x = true) (hx0 : x ≠ []) (hc : capOk cap x.length = true)
    (h : pow w cap T x e = some r) : isNormalized r = true ∧ r ≠ [] := by
  have h0 : toNatW w x ≠ 0 := (toNatW_pos_of_normalized hn hx0).ne'
  obtain ⟨_, b, _, d⟩ := pow_spec hw hT hx (Or.inl h0) hc h
  have ht := d (TopNZW_of_normalized hn hx0)
  exact ⟨normalized_of_topNZ b ht, ht.1⟩

/-- `Bigint::pow` keeps a non-empty normalised vector normalised and non-empty -/
theorem bigintPow_normalized (hw : w = 32 ∨ w = 64) {cap : Option Nat} {T : PowTables}
    (hT : T.compact = false → PowTablesOKW w T) {x r : Big} {base e : Nat}
    (hb : base = 2 ∨ base = 5 ∨ base = 10) (hx : AllLtW w x) (hn : isNormalized x = true)
    (hx0 : x ≠ []) (hc : capOk cap x.length = true) (h : bigintPow w cap T x base e = some r) :
    isNormalized r = true ∧ r ≠ [] := by
  have h0 : toNatW w x ≠ 0 := (toNatW_pos_of_normalized hn hx0).ne'
  have ht := bigintPow_topNZ hw hT hb hx (TopNZW_of_normalized hn hx0) hc h
  exact ⟨normalized_of_topNZ (bigintPow_spec hw hT hb hx h0 hc h).2.1 ht, ht.1⟩

-- ---------------------------------------------------------------- bitLength
theorem log2_lt_w {v : Nat} (h0 : v ≠ 0) (hv : v < Bw w) : Nat.log2 v < w := by
  rw [Nat.log2_lt h0]; exact hv

theorem clzL_eq {v : Nat} (h0 : v ≠ 0) : clzL w v = w - 1 - Nat.log2 v := by
  simp [clzL, h0]

/-- value bounds of a limb list in terms of its top limb -/
theorem log2_toNatW_concat {ys : Big} {v : Nat} (hys : AllLtW w ys) (h0 : v ≠ 0) :
    Nat.log2 (toNatW w (ys ++ [v])) = w * ys.length + Nat.log2 v := by
  have hlt := toNatW_lt hys
  have h1 := Nat.log2_self_le h0
  have h2 := @Nat.lt_log2_self v
  have hpos := Bwpow_pos w ys.length
  rw [toNatW_append, toNatW_singleton]
  have hne : toNatW w ys + Bw w ^ ys.length * v ≠ 0 := by
    have : Bw w ^ ys.length * 1 ≤ Bw w ^ ys.length * v :=
      Nat.mul_le_mul_left _ (Nat.pos_of_ne_zero h0)
    omega
  rw [Nat.log2_eq_iff hne]
  have e1 : 2 ^ (w * ys.length + Nat.log2 v) = Bw w ^ ys.length * 2 ^ Nat.log2 v := by
    rw [Nat.pow_add, Bwpow_eq]
  have e2 : 2 ^ (w * ys.length + Nat.log2 v + 1) = Bw w ^ ys.length * 2 ^ (Nat.log2 v + 1) := by
    rw [Nat.add_assoc, Nat.pow_add, Bwpow_eq]
  rw [e1, e2]
  have a1 := Nat.mul_le_mul_left (Bw w ^ ys.length) h1
  have a2 : Bw w ^ ys.length * (v + 1) ≤ Bw w ^ ys.length * 2 ^ (Nat.log2 v + 1) :=
    Nat.mul_le_mul_left _ h2
  rw [Nat.mul_add] at a2
  omega

theorem bitLength_concat {ys : Big} {v : Nat} (h0 : v ≠ 0) (hv : v < Bw w) :
    bitLength w (ys ++ [v]) = w * ys.length + Nat.log2 v + 1 := by
  unfold bitLength leadingZeros
  have := log2_lt_w h0 hv
  simp only [List.getLast?_concat, List.length_append, List.length_cons, List.length_nil,
    clzL_eq h0, Nat.zero_add, Nat.mul_succ]
  generalize w * ys.length = k
  omega

theorem bitLength_spec {x : Big} (hx : AllLtW w x) (hn : isNormalized x = true) (hne : x ≠ []) :
    bitLength w x = Nat.log2 (toNatW w x) + 1 := by
  obtain ⟨ys, v, rfl, h0⟩ := exists_concat_of_normalized hn hne
  rw [AllLtW_append, AllLtW_singleton] at hx
  rw [bitLength_concat h0 hx.2, log2_toNatW_concat hx.1 h0]

-- ---------------------------------------------------------------- hi64 (32-bit limbs)
theorem any_ne_zero_eq (lo : Big) : lo.any (· != 0) = decide (toNatW w lo ≠ 0) := by
  induction lo with
  | nil => simp [toNatW]
  | cons a lo ih =>
    simp only [List.any_cons, ih, toNatW]
    have := Bw_pos w
    by_cases ha : a = 0
    · subst ha
      by_cases hl : toNatW w lo = 0
      · simp [hl]
      · have : Bw w * toNatW w lo ≠ 0 := Nat.mul_ne_zero (by omega) hl
        simp [hl, this]
    · simp [ha]

/-- dividing by `Bw^m * Q` strips the low part -/
theorem low_part_div {lo : Big} (hlo : AllLtW w lo) (T Q : Nat) :
    (toNatW w lo + Bw w ^ lo.length * T) / (Bw w ^ lo.length * Q) = T / Q := by
  rw [← Nat.div_div_eq_div_mul, Nat.add_mul_div_left _ _ (Bwpow_pos _ _),
    Nat.div_eq_of_lt (toNatW_lt hlo)]
  simp

theorem low_part_mod {lo : Big} (hlo : AllLtW w lo) (T Q : Nat) :
    (toNatW w lo + Bw w ^ lo.length * T) % (Bw w ^ lo.length * Q)
      = toNatW w lo + Bw w ^ lo.length * (T % Q) := by
  rw [Nat.mod_mul, Nat.add_mul_mod_self_left, Nat.mod_eq_of_lt (toNatW_lt hlo),
    Nat.add_mul_div_left _ _ (Bwpow_pos _ _), Nat.div_eq_of_lt (toNatW_lt hlo)]
  simp

/-- `(hi as u64) << 32 | lo` for two 32-bit values -/
theorem or32 {a b : Nat} (ha : a < 4294967296) (hb : b < 4294967296) :
    (a * 4294967296) % B ||| b = b + 4294967296 * a ∧ b + 4294967296 * a < B := by
  have hlt : b + 4294967296 * a < B := by unfold B; omega
  refine ⟨?_, hlt⟩
  rw [Nat.mod_eq_of_lt (by unfold B; omega)]
  have e : (4294967296 : Nat) = 2 ^ 32 := by norm_num
  rw [e] at hb ⊢
  rw [Nat.mul_comm a, ← Nat.two_pow_add_eq_or_of_lt hb, Nat.add_comm]

/-- `u64_to_hi64_1` on a non-zero value `v < 2^64` whose bit length is `L + 1` -/
theorem hi64_one_word {v : Nat} (h0 : v ≠ 0) (hv : v < B) :
    (64 ≤ Nat.log2 v + 1 →
      (u64ToHi64_1 v).1 = v / 2 ^ (Nat.log2 v + 1 - 64) ∧
      (u64ToHi64_1 v).2 = decide (v % 2 ^ (Nat.log2 v + 1 - 64) ≠ 0)) ∧
    (Nat.log2 v + 1 < 64 →
      (u64ToHi64_1 v).1 = v * 2 ^ (64 - (Nat.log2 v + 1)) ∧ (u64ToHi64_1 v).2 = false) := by
  have hlog := log2_lt_64 h0 hv
  rw [u64ToHi64_1_spec h0 hv]
  constructor
  · intro h
    have : Nat.log2 v = 63 := by omega
    rw [this]; simp [Nat.mod_one]
  · intro h
    rw [show 64 - (Nat.log2 v + 1) = 63 - Nat.log2 v by omega]; simp

/-- the arithmetic content of `hi64` (32-bit limbs) on a list with at least three limbs -/
theorem hi64_general32 {lo : Big} {r0 r1 r2 : Nat} (hlo : AllLtW 32 lo) (h0 : r0 ≠ 0)
    (hr0 : r0 < Bw 32) (hr1 : r1 < Bw 32) (hr2 : r2 < Bw 32) :
    bitLength 32 (lo ++ [r2, r1, r0]) = 32 * lo.length + 64 + Nat.log2 r0 + 1 ∧
    (u32ToHi64_3 r0 r1 r2).1
      = toNatW 32 (lo ++ [r2, r1, r0]) / 2 ^ (bitLength 32 (lo ++ [r2, r1, r0]) - 64) ∧
    ((u32ToHi64_3 r0 r1 r2).2 || lo.any (· != 0)) =
      decide (toNatW 32 (lo ++ [r2, r1, r0]) % 2 ^ (bitLength 32 (lo ++ [r2, r1, r0]) - 64) ≠ 0) := by
  have hbl : bitLength 32 (lo ++ [r2, r1, r0]) = 32 * lo.length + 64 + Nat.log2 r0 + 1 := by
    have : lo ++ [r2, r1, r0] = (lo ++ [r2, r1]) ++ [r0] := by simp
    rw [this, bitLength_concat h0 hr0]
    simp only [List.length_append, List.length_cons, List.length_nil]; omega
  rw [Bw_32] at hr0 hr1 hr2
  obtain ⟨o1, o2⟩ := or32 hr1 hr2
  have hr0B : r0 < B := by unfold B; omega
  obtain ⟨s1, s2⟩ := u64ToHi64_2_spec h0 hr0B o2
  have hu : u32ToHi64_3 r0 r1 r2 = u64ToHi64_2 r0 (r2 + 4294967296 * r1) := by
    unfold u32ToHi64_3; rw [o1]
  have hpow : 2 ^ (bitLength 32 (lo ++ [r2, r1, r0]) - 64)
      = Bw 32 ^ lo.length * 2 ^ (Nat.log2 r0 + 1) := by
    rw [hbl, Bwpow_eq, ← Nat.pow_add]; congr 1; omega
  have hval : toNatW 32 (lo ++ [r2, r1, r0])
      = toNatW 32 lo + Bw 32 ^ lo.length * (r2 + 4294967296 * r1 + B * r0) := by
    have hT : toNatW 32 [r2, r1, r0] = r2 + 4294967296 * r1 + B * r0 := by
      simp only [toNatW, Bw_32, B]; omega
    rw [toNatW_append, hT]
  refine ⟨hbl, ?_, ?_⟩
  · rw [hpow, hval, low_part_div hlo, hu, s1]
  · rw [hpow, hval, low_part_mod hlo, hu, s2, any_ne_zero_eq (w := 32)]
    have hpos := Bwpow_pos 32 lo.length
    rw [Bool.eq_iff_iff]
    simp only [Bool.or_eq_true, decide_eq_true_eq]
    constructor
    · rintro (h | h)
      · have := Nat.mul_ne_zero (Nat.ne_of_gt hpos) h; omega
      · omega
    · intro h
      by_cases ha : (r2 + 4294967296 * r1 + B * r0) % 2 ^ (Nat.log2 r0 + 1) = 0
      · right; rw [ha] at h; simpa using h
      · left; exact ha

theorem hi64_rev_spec32 : ∀ (l : List Nat), AllLtW 32 l → l.head? ≠ some 0 → l ≠ [] →
    (64 ≤ bitLength 32 l.reverse →
      (hi64 32 l.reverse).1 = toNatW 32 l.reverse / 2 ^ (bitLength 32 l.reverse - 64) ∧
      (hi64 32 l.reverse).2
        = decide (toNatW 32 l.reverse % 2 ^ (bitLength 32 l.reverse - 64) ≠ 0)) ∧
    (bitLength 32 l.reverse < 64 →
      (hi64 32 l.reverse).1 = toNatW 32 l.reverse * 2 ^ (64 - bitLength 32 l.reverse) ∧
      (hi64 32 l.reverse).2 = false) := by
  intro l hl hh hne
  match l, hl, hh, hne with
  | [], _, _, hne => exact absurd rfl hne
  | [r0], hl, hh, _ =>
    have h0 : r0 ≠ 0 := by simpa using hh
    have hr0 : r0 < Bw 32 := AllLtW_singleton.mp hl
    have hr0B : r0 < B := by rw [Bw_32] at hr0; unfold B; omega
    have hbl : bitLength 32 [r0] = Nat.log2 r0 + 1 := by
      have := bitLength_concat (w := 32) (ys := []) h0 hr0
      simpa using this
    have hhi : hi64 32 [r0] = u64ToHi64_1 r0 := by
      simp only [hi64, if_true, List.reverse_cons, List.reverse_nil, List.nil_append, u32ToHi64_1]
    simp only [List.reverse_cons, List.reverse_nil, List.nil_append, hbl, hhi, toNatW_singleton]
    exact hi64_one_word h0 hr0B
  | [r0, r1], hl, hh, _ =>
    have h0 : r0 ≠ 0 := by simpa using hh
    rw [AllLtW_cons, AllLtW_singleton] at hl
    obtain ⟨hr0, hr1⟩ := hl
    have hx : AllLtW 32 [r1, r0] := by
      rw [AllLtW_cons, AllLtW_singleton]; exact ⟨hr1, hr0⟩
    have hbl := bitLength_spec (w := 32) (x := [r1, r0]) hx
      (by rw [isNormalized_iff]; simpa using h0) (by simp)
    rw [Bw_32] at hr0 hr1
    obtain ⟨o1, o2⟩ := or32 hr0 hr1
    have hv0 : r1 + 4294967296 * r0 ≠ 0 := by omega
    have hval : toNatW 32 [r1, r0] = r1 + 4294967296 * r0 := by
      simp only [toNatW, Bw_32]; omega
    have hhi : hi64 32 [r1, r0] = u64ToHi64_1 (r1 + 4294967296 * r0) := by
      simp only [hi64, if_true, List.reverse_cons, List.reverse_nil, List.nil_append,
        List.cons_append, u32ToHi64_2, o1]
    simp only [List.reverse_cons, List.reverse_nil, List.nil_append, List.cons_append]
    rw [hbl, hhi, hval]
    exact hi64_one_word hv0 o2
  | r0 :: r1 :: r2 :: rest, hl, hh, _ =>
    have h0 : r0 ≠ 0 := by simpa using hh
    rw [AllLtW_cons, AllLtW_cons, AllLtW_cons] at hl
    have hlo : AllLtW 32 rest.reverse := AllLtW_reverse.mpr hl.2.2.2
    obtain ⟨g1, g2, g3⟩ := hi64_general32 hlo h0 hl.1 hl.2.1 hl.2.2.1
    have hx : (r0 :: r1 :: r2 :: rest).reverse = rest.reverse ++ [r2, r1, r0] := by
      simp
    have hhi : hi64 32 (rest.reverse ++ [r2, r1, r0]) =
        ((u32ToHi64_3 r0 r1 r2).1, (u32ToHi64_3 r0 r1 r2).2 || (rest.reverse).any (· != 0)) := by
      unfold hi64
      simp only [if_true]
      rw [← hx, List.reverse_reverse]
      simp only [nonzero, List.length_reverse, List.length_cons]
      congr 2
      rw [hx, List.take_left' (by simp)]
    rw [hx, hhi]
    exact ⟨fun _ => ⟨g2, g3⟩, fun h => by omega⟩

theorem hi64_spec32 {x : Big} (hx : AllLtW 32 x) (hn : isNormalized x = true) (hne : x ≠ []) :
    (64 ≤ bitLength 32 x →
      (hi64 32 x).1 = toNatW 32 x / 2 ^ (bitLength 32 x - 64) ∧
      (hi64 32 x).2 = decide (toNatW 32 x % 2 ^ (bitLength 32 x - 64) ≠ 0)) ∧
    (bitLength 32 x < 64 →
      (hi64 32 x).1 = toNatW 32 x * 2 ^ (64 - bitLength 32 x) ∧ (hi64 32 x).2 = false) := by
  have := hi64_rev_spec32 x.reverse (AllLtW_reverse.mpr hx)
    (by rw [List.head?_reverse]; exact isNormalized_iff.mp hn) (by simpa using hne)
  rwa [List.reverse_reverse] at this

/-- the 64-bit value returned by `hi64` has its top bit set (and fits 64 bits) -/
theorem hi64_top_bit32 {x : Big} (hx : AllLtW 32 x) (hn : isNormalized x = true) (hne : x ≠ []) :
    2 ^ 63 ≤ (hi64 32 x).1 ∧ (hi64 32 x).1 < 2 ^ 64 := by
  have hbl := bitLength_spec hx hn hne
  have hN : toNatW 32 x ≠ 0 := (toNatW_pos_of_normalized hn hne).ne'
  have h1 := Nat.log2_self_le hN
  have h2 := @Nat.lt_log2_self (toNatW 32 x)
  obtain ⟨s1, s2⟩ := hi64_spec32 hx hn hne
  by_cases hge : 64 ≤ bitLength 32 x
  · rw [(s1 hge).1]
    have e1 : (2 : Nat) ^ 63 * 2 ^ (bitLength 32 x - 64) = 2 ^ Nat.log2 (toNatW 32 x) := by
      rw [← Nat.pow_add]; congr 1; omega
    have e2 : (2 : Nat) ^ 64 * 2 ^ (bitLength 32 x - 64) = 2 ^ (Nat.log2 (toNatW 32 x) + 1) := by
      rw [← Nat.pow_add]; congr 1; omega
    constructor
    · rw [Nat.le_div_iff_mul_le (Nat.two_pow_pos _), e1]; exact h1
    · rw [Nat.div_lt_iff_lt_mul (Nat.two_pow_pos _), e2]; exact h2
  · have hlt : bitLength 32 x < 64 := by omega
    rw [(s2 hlt).1]
    have e1 : (2 : Nat) ^ 63 = 2 ^ Nat.log2 (toNatW 32 x) * 2 ^ (64 - bitLength 32 x) := by
      rw [← Nat.pow_add]; congr 1; omega
    have e2 : (2 : Nat) ^ 64 = 2 ^ (Nat.log2 (toNatW 32 x) + 1) * 2 ^ (64 - bitLength 32 x) := by
      rw [← Nat.pow_add]; congr 1; omega
    rw [e1, e2]
    exact ⟨Nat.mul_le_mul_right _ h1, Nat.mul_lt_mul_of_pos_right h2 (Nat.two_pow_pos _)⟩

-- ---------------------------------------------------------------- w = 64 is the old model (values)
theorem toNatW_64 (x : Big) : toNatW 64 x = toNat x := by
  induction x with
  | nil => rfl
  | cons a x ih => simp only [toNatW, toNat, ih, Bw_64]

theorem AllLtW_64 {x : Big} : AllLtW 64 x ↔ AllLt x := by
  unfold AllLtW AllLt; rw [Bw_64]

theorem bitLength_64 (x : Big) : bitLength 64 x = MinLex.bitLength x := by
  unfold bitLength MinLex.bitLength leadingZeros MinLex.leadingZeros
  cases x.getLast? with
  | none => rfl
  | some v => simp only [clzL, clz64]

theorem hi64_of_ne (hw : w ≠ 32) (x : Big) : hi64 w x = MinLex.hi64 x := by
  unfold hi64; simp [hw]

theorem hi64_spec64 {x : Big} (hx : AllLtW 64 x) (hn : isNormalized x = true) (hne : x ≠ []) :
    (64 ≤ bitLength 64 x →
      (hi64 64 x).1 = toNatW 64 x / 2 ^ (bitLength 64 x - 64) ∧
      (hi64 64 x).2 = decide (toNatW 64 x % 2 ^ (bitLength 64 x - 64) ≠ 0)) ∧
    (bitLength 64 x < 64 →
      (hi64 64 x).1 = toNatW 64 x * 2 ^ (64 - bitLength 64 x) ∧ (hi64 64 x).2 = false) := by
  rw [hi64_of_ne (by decide), toNatW_64, bitLength_64]
  exact hi64_spec (AllLtW_64.mp hx) hn hne

theorem hi64_top_bit64 {x : Big} (hx : AllLtW 64 x) (hn : isNormalized x = true) (hne : x ≠ []) :
    2 ^ 63 ≤ (hi64 64 x).1 ∧ (hi64 64 x).1 < 2 ^ 64 := by
  rw [hi64_of_ne (by decide)]
  exact hi64_top_bit (AllLtW_64.mp hx) hn hne

-- ---------------------------------------------------------------- pow on the empty vector
/-- `pow` with an arbitrary description `V` of the value after the large-power stage -/
theorem pow_spec_gen (hw : w = 32 ∨ w = 64) {cap : Option Nat} {T : PowTables}
    (hT : T.compact = false → PowTablesOKW w T) {x r : Big} {e V : Nat}
    (hstage : ∀ x1 e1, (if T.compact then some (x, e) else powLargeLoop w cap T (e + 1) x e)
        = some (x1, e1) → toNatW w x1 * 5 ^ e1 = V ∧ AllLtW w x1 ∧ capOk cap x1.length = true)
    (h : pow w cap T x e = some r) :
    toNatW w r = V ∧ AllLtW w r ∧ capOk cap r.length = true := by
  unfold pow at h
  simp only at h
  split at h
  · simp at h
  · next x1 e1 h1 =>
    obtain ⟨a1, a2, a3⟩ := hstage x1 e1 h1
    split at h
    · simp at h
    · next x2 e2 h2 =>
      obtain ⟨b1, b2, b3, b4, b5⟩ := powSmallLoop_spec hw _ a2 a3 h2
      have he2 : e2 < powStep w := b5 (by omega)
      split at h
      · next hne =>
        rw [intPow5_eq hw hT he2] at h
        obtain ⟨c1, c2, c3, _⟩ := smallMul_spec b2 (five_pow_lt hw (by omega)) b3 h
        exact ⟨by rw [c1, b1, a1], c2, c3⟩
      · next hz =>
        simp only [ne_eq, Decidable.not_not] at hz
        simp only [Option.some.injEq] at h
        subst h
        subst hz
        exact ⟨by rw [← a1, ← b1]; simp, b2, b3⟩

theorem largeMul_nil_left {cap : Option Nat} {P r : Big} (hlen : P.length ≠ 1)
    (h : largeMul w cap [] P = some r) : r = normalize P ∧ capOk cap P.length = true := by
  unfold largeMul at h
  split at h
  · simp at hlen
  · unfold longMul at h
    split at h
    · simp at h
    · next z0 h0 =>
      obtain ⟨rfl, hc⟩ := vecTryFrom_some h0
      simp only [Option.some.injEq] at h
      exact ⟨h.symm, hc⟩

/-- What `pow` computes on the EMPTY vector (value 0) in a non-compact build once `e` reaches the
    large-power step: the first `large_mul` replaces the empty vector by `LARGE_POW5`, so the
    result is `5^e` instead of `0`. -/
theorem pow_empty_large (hw : w = 32 ∨ w = 64) {cap : Option Nat} {T : PowTables}
    (hT : PowTablesOKW w T)
    (hcm : T.compact = false) (hlen : T.largePow5.length ≠ 1) (hs : T.largePow5Step ≠ 0)
    {e : Nat} {r : Big} (he : T.largePow5Step ≤ e) (h : pow w cap T [] e = some r) :
    toNatW w r = 5 ^ e ∧ AllLtW w r ∧ capOk cap r.length = true := by
  refine pow_spec_gen hw (fun _ => hT) ?_ h
  intro x1 e1 h1
  rw [hcm] at h1
  simp only [Bool.false_eq_true, if_false] at h1
  have hcond : T.largePow5Step ≠ 0 ∧ e ≥ T.largePow5Step := ⟨hs, he⟩
  rw [powLargeLoop, if_pos hcond] at h1
  split at h1
  · simp at h1
  · next x' hx' =>
    obtain ⟨rfl, hc⟩ := largeMul_nil_left hlen hx'
    have hv : toNatW w (normalize T.largePow5) = 5 ^ T.largePow5Step := by
      rw [normalize_toNatW, hT.large_val]
    have hnz : toNatW w (normalize T.largePow5) ≠ 0 := by
      rw [hv]; exact (Nat.pow_pos (by omega)).ne'
    obtain ⟨a, b, _, d, _⟩ := powLargeLoop_spec (pos_of_width hw) hT _
      (normalize_allLtW hT.large_lt) hnz (normalize_capOk hc) h1
    refine ⟨?_, b, d⟩
    rw [a, hv, ← Nat.pow_add]; congr 1; omega

-- ---------------------------------------------------------------- heap back-end never fails
theorem smallAddFrom_heap (x : Big) (y s : Nat) : ∃ r, smallAddFrom w none x y s = some r := by
  unfold smallAddFrom vecTryPush
  simp only [capOk_none, if_true]
  split <;> exact ⟨_, rfl⟩

theorem smallMul_heap (x : Big) (y : Nat) : ∃ r, smallMul w none x y = some r := by
  unfold smallMul vecTryPush
  simp only [capOk_none, if_true]
  split <;> exact ⟨_, rfl⟩

theorem largeAddFrom_heap (x y : Big) (s : Nat) : ∃ r, largeAddFrom w none x y s = some r := by
  unfold largeAddFrom vecTryResize
  simp only [capOk_none, if_true]
  split
  · next h => split at h <;> simp at h
  · split
    · exact smallAddFrom_heap _ _ _
    · exact ⟨_, rfl⟩

theorem longMulLoop_heap (x : Big) : ∀ (ys : List Nat) (i : Nat) (z : Big),
    ∃ r, longMulLoop w none x ys i z = some r := by
  intro ys
  induction ys with
  | nil => intro i z; exact ⟨z, rfl⟩
  | cons yi ys ih =>
    intro i z
    simp only [longMulLoop, vecTryFrom, vecTryExtend, capOk_none, if_true, List.nil_append]
    split
    · obtain ⟨zi, hzi⟩ := smallMul_heap (w := w) x yi
      rw [hzi]
      obtain ⟨z', hz'⟩ := largeAddFrom_heap (w := w) z zi i
      simp only [hz']
      exact ih _ _
    · exact ih _ _

theorem longMul_heap (x y : Big) : ∃ r, longMul w none x y = some r := by
  unfold longMul
  simp only [vecTryFrom, vecTryExtend, capOk_none, if_true, List.nil_append]
  cases y with
  | nil => exact ⟨_, rfl⟩
  | cons y0 ys =>
    obtain ⟨z1, hz1⟩ := smallMul_heap (w := w) x y0
    simp only [hz1]
    obtain ⟨z, hz⟩ := longMulLoop_heap (w := w) x ys 1 z1
    simp only [hz]
    exact ⟨_, rfl⟩

theorem largeMul_heap (x y : Big) : ∃ r, largeMul w none x y = some r := by
  unfold largeMul
  split
  · exact smallMul_heap _ _
  · exact longMul_heap _ _

theorem shlBits_heap (x : Big) (n : Nat) : ∃ r, shlBits w none x n = some r := by
  unfold shlBits vecTryPush
  simp only [capOk_none, if_true]
  split <;> exact ⟨_, rfl⟩

theorem shl_heap (x : Big) (n : Nat) : ∃ r, shl w none x n = some r := by
  unfold shl
  simp only
  split
  · next h =>
    split at h
    · obtain ⟨r, hr⟩ := shlBits_heap (w := w) x (n % w); rw [hr] at h; simp at h
    · simp at h
  · split
    · exact shlLimbs_heap _ _
    · exact ⟨_, rfl⟩

theorem powLargeLoop_heap (T : PowTables) : ∀ (fuel : Nat) (x : Big) (e : Nat),
    ∃ r, powLargeLoop w none T fuel x e = some r := by
  intro fuel
  induction fuel with
  | zero => intro x e; exact ⟨_, rfl⟩
  | succ fuel ih =>
    intro x e
    simp only [powLargeLoop]
    split
    · obtain ⟨x', hx'⟩ := largeMul_heap (w := w) x T.largePow5
      simp only [hx']
      exact ih _ _
    · exact ⟨_, rfl⟩

theorem powSmallLoop_heap : ∀ (fuel : Nat) (x : Big) (e : Nat),
    ∃ r, powSmallLoop w none fuel x e = some r := by
  intro fuel
  induction fuel with
  | zero => intro x e; exact ⟨_, rfl⟩
  | succ fuel ih =>
    intro x e
    simp only [powSmallLoop]
    split
    · obtain ⟨x', hx'⟩ := smallMul_heap (w := w) x (5 ^ powStep w)
      simp only [hx']
      exact ih _ _
    · exact ⟨_, rfl⟩

theorem pow_heap_total (T : PowTables) (x : Big) (e : Nat) : ∃ r, pow w none T x e = some r := by
  unfold pow
  simp only
  have h1 : ∃ p, (if T.compact then some (x, e) else powLargeLoop w none T (e + 1) x e) = some p := by
    split
    · exact ⟨_, rfl⟩
    · exact powLargeLoop_heap T _ _ _
  obtain ⟨⟨x1, e1⟩, h1⟩ := h1
  rw [h1]
  simp only
  obtain ⟨⟨x2, e2⟩, h2⟩ := powSmallLoop_heap (w := w) (e1 + 1) x1 e1
  rw [h2]
  simp only
  split
  · exact smallMul_heap _ _
  · exact ⟨_, rfl⟩

theorem bigintPow_heap_total (T : PowTables) (x : Big) (base e : Nat) :
    ∃ r, bigintPow w none T x base e = some r := by
  unfold bigintPow
  have h1 : ∃ x1, (if base % 5 = 0 then pow w none T x e else some x) = some x1 := by
    split
    · exact pow_heap_total T x e
    · exact ⟨_, rfl⟩
  obtain ⟨x1, h1⟩ := h1
  rw [h1]
  simp only
  split
  · exact shl_heap _ _
  · exact ⟨_, rfl⟩

end W
end MinLex
