/-
  Helper lemmas for C08 (every unchecked memory access is in bounds for ARBITRARY bytes) and
  for the local parts of C04.

  Sites (Rust file → model):
   S1/S2  number.rs  `pow_fast_path(∓exponent)`           → `tryFastPath`, argument of `pw`
   S3     number.rs  `int_pow_fast_path(shift, Ten)`      → `tryFastPath`, argument of `ip`
   S4     number.rs  `pow_fast_path(max_exponent)`        → `tryFastPath`, constant argument of `pw`
   S5/S6  slow.rs    `int_pow_fast_path(counter, Ten)`    → `PM.flushEnd`
   S7     bigint.rs  `int_pow_fast_path(exp, Five)`       → `pow`, `intPow5 … e2`
  Nothing in this file uses `Valid`: digits are arbitrary bytes.
-/
import MinLex.Model.Env
import MinLex.Proofs.Bigint
import MinLex.Proofs.Vec
import MinLex.Model.ShlLimbsLow
import MinLex.Proofs.ParseNumber
import MinLex.Proofs.Lemire
import Mathlib.Tactic.Linarith
import Mathlib.Tactic.Ring
namespace MinLex
namespace Sites

-- ================================================================ S1 – S4: number.rs

/-- the facts `is_fast_path` establishes about the exponent -/
theorem isFastPath_exp {F : FloatC} {n : Number} (h : isFastPath F n = true) :
    F.minExponentFastPath ≤ n.exponent ∧ n.exponent ≤ F.maxExponentDisguisedFastPath ∧
    n.mantissa ≤ F.maxMantissaFastPath ∧ n.manyDigits = false := by
  unfold isFastPath at h
  simp only [Bool.and_eq_true, decide_eq_true_eq, Bool.not_eq_true'] at h
  exact ⟨h.1.1.1, h.1.1.2, h.1.2, h.2⟩

/-- S1: the index of `pow_fast_path((-exponent) as usize)` (division branch) -/
theorem S1_index {F : FloatC} {n : Number} (h : isFastPath F n = true) (_hle : n.exponent ≤ F.maxExponentFastPath)
    (_hneg : n.exponent < 0) : (-n.exponent).toNat ≤ (-F.minExponentFastPath).toNat := by
  have := (isFastPath_exp h).1
  omega

/-- S2: the index of `pow_fast_path(exponent as usize)` (multiplication branch) -/
theorem S2_index {F : FloatC} {n : Number} (_h : isFastPath F n = true) (hle : n.exponent ≤ F.maxExponentFastPath)
    (_hnn : ¬ n.exponent < 0) : n.exponent.toNat ≤ F.maxExponentFastPath.toNat := by
  omega

/-- S3: the index of `int_pow_fast_path(shift as usize, Ten)` (disguised fast path) -/
theorem S3_index {F : FloatC} {n : Number} (h : isFastPath F n = true) (hgt : ¬ n.exponent ≤ F.maxExponentFastPath) :
    (n.exponent - F.maxExponentFastPath).toNat ≤
      (F.maxExponentDisguisedFastPath - F.maxExponentFastPath).toNat ∧
    0 < n.exponent - F.maxExponentFastPath := by
  have := (isFastPath_exp h).2.1
  omega

/-- An instrumented copy of `tryFastPath`: the list of indices handed to `pw` (`pow_fast_path`) and to
    `ip` (`int_pow_fast_path(·, Ten)`), in the order of the calls. -/
def tryFastPathSites (F : FloatC) (n : Number) : List Nat × List Nat :=
  if isFastPath F n then
    if n.exponent ≤ F.maxExponentFastPath then
      if n.exponent < 0 then ([(-n.exponent).toNat], []) else ([n.exponent.toNat], [])
    else ([F.maxExponentFastPath.toNat], [(n.exponent - F.maxExponentFastPath).toNat])
  else ([], [])

/-- the result of `tryFastPath` only depends on `pw` / `ip` at the recorded indices: no other table
    slot (in particular nothing past the end of a table) influences the result -/
theorem tryFastPath_congr (F : FloatC) (pw pw' ip ip' : Nat → Nat) (n : Number)
    (hpw : ∀ k ∈ (tryFastPathSites F n).1, pw k = pw' k)
    (hip : ∀ k ∈ (tryFastPathSites F n).2, ip k = ip' k) :
    tryFastPath F pw ip n = tryFastPath F pw' ip' n := by
  unfold tryFastPath
  unfold tryFastPathSites at hpw hip
  by_cases h1 : isFastPath F n = true
  · simp only [h1, if_true] at hpw hip ⊢
    by_cases h2 : n.exponent ≤ F.maxExponentFastPath
    · simp only [h2, if_true] at hpw hip ⊢
      by_cases h3 : n.exponent < 0
      · simp only [h3, if_true] at hpw ⊢
        rw [hpw _ (List.mem_singleton.mpr rfl)]
      · simp only [h3, if_false] at hpw ⊢
        rw [hpw _ (List.mem_singleton.mpr rfl)]
    · simp only [h2, if_false] at hpw hip ⊢
      rw [hpw _ (List.mem_singleton.mpr rfl), hip _ (List.mem_singleton.mpr rfl)]
  · simp only [h1]; rfl

/-- S1, S2, S4 together: every index handed to `pow_fast_path` is at most
    `max(-MIN_EXPONENT_FAST_PATH, MAX_EXPONENT_FAST_PATH)`; S3: every index handed to
    `int_pow_fast_path(·, Ten)` is at most `MAX_EXPONENT_DISGUISED_FAST_PATH − MAX_EXPONENT_FAST_PATH` -/
theorem tryFastPathSites_bound (F : FloatC) (n : Number) :
    (∀ k ∈ (tryFastPathSites F n).1,
        k ≤ max (-F.minExponentFastPath).toNat F.maxExponentFastPath.toNat) ∧
    (∀ k ∈ (tryFastPathSites F n).2,
        k ≤ (F.maxExponentDisguisedFastPath - F.maxExponentFastPath).toNat) := by
  unfold tryFastPathSites
  by_cases h1 : isFastPath F n = true
  · simp only [h1, if_true]
    by_cases h2 : n.exponent ≤ F.maxExponentFastPath
    · simp only [h2, if_true]
      by_cases h3 : n.exponent < 0
      · simp only [h3, if_true, List.mem_singleton, forall_eq, List.not_mem_nil, false_imp_iff,
          implies_true, and_true]
        have := S1_index h1 h2 h3; omega
      · simp only [h3, if_false, List.mem_singleton, forall_eq, List.not_mem_nil, false_imp_iff,
          implies_true, and_true]
        have := S2_index h1 h2 h3; omega
    · simp only [h2, if_false, List.mem_singleton, forall_eq]
      exact ⟨by omega, (S3_index h1 h2).1⟩
  · simp [h1]

-- ---------------------------------------------------------------- the generated tables

theorem table_lengths :
    Gen.smallF64Pow10.length = 32 ∧ Gen.smallF32Pow10.length = 16 ∧
    Gen.smallIntPow10.length = 20 ∧ Gen.smallIntPow5.length = 28 ∧
    Gen.compactStdPowFastPath64.length = 23 ∧ Gen.compactLibmPowFastPath64.length = 23 ∧
    Gen.compactStdPowFastPath32.length = 11 ∧ Gen.compactLibmPowFastPath32.length = 11 := by
  decide

theorem consts_F64 :
    (-Gen.F64.minExponentFastPath).toNat = 22 ∧ Gen.F64.maxExponentFastPath.toNat = 22 ∧
    (Gen.F64.maxExponentDisguisedFastPath - Gen.F64.maxExponentFastPath).toNat = 15 := by decide

theorem consts_F32 :
    (-Gen.F32.minExponentFastPath).toNat = 10 ∧ Gen.F32.maxExponentFastPath.toNat = 10 ∧
    (Gen.F32.maxExponentDisguisedFastPath - Gen.F32.maxExponentFastPath).toNat = 7 := by decide

/-- the non-padding part of the float tables: every entry that can be fetched is a non-zero finite
    float (so the `fdiv` of the model never sees a zero divisor), in every configuration -/
theorem powFastPath_nonzero_f64 (cfg : Cfg) (k : Nat) (hk : k ≤ 22) :
    (decode Gen.F64.fmt (genPowFastPath cfg Gen.F64 k)).1 ≠ 0 ∧
    genPowFastPath cfg Gen.F64 k < Gen.F64.fmt.infBits := by
  have h : ∀ c1 c2 c3 : Bool, ∀ k : Fin 23,
      (decode Gen.F64.fmt (genPowFastPath ⟨c1, c2, c3⟩ Gen.F64 k.val)).1 ≠ 0 ∧
      genPowFastPath ⟨c1, c2, c3⟩ Gen.F64 k.val < Gen.F64.fmt.infBits := by decide +kernel
  exact h cfg.compact cfg.alloc cfg.std ⟨k, by omega⟩

theorem powFastPath_nonzero_f32 (cfg : Cfg) (k : Nat) (hk : k ≤ 10) :
    (decode Gen.F32.fmt (genPowFastPath cfg Gen.F32 k)).1 ≠ 0 ∧
    genPowFastPath cfg Gen.F32 k < Gen.F32.fmt.infBits := by
  have h : ∀ c1 c2 c3 : Bool, ∀ k : Fin 11,
      (decode Gen.F32.fmt (genPowFastPath ⟨c1, c2, c3⟩ Gen.F32 k.val)).1 ≠ 0 ∧
      genPowFastPath ⟨c1, c2, c3⟩ Gen.F32 k.val < Gen.F32.fmt.infBits := by decide +kernel
  exact h cfg.compact cfg.alloc cfg.std ⟨k, by omega⟩

end Sites
end MinLex

namespace MinLex
namespace Sites

-- ================================================================ S5 / S6: slow.rs, `parse_mantissa`

/-- the index `add_temporary!(@end …)` hands to `int_pow_fast_path(·, Ten)` (no call if `counter = 0`) -/
def flushEndSite (s : PM) : List Nat := if s.counter ≠ 0 then [s.counter] else []

/-- instrumented `pmLoop`: additionally returns the indices handed to `int_pow_fast_path(·, Ten)` -/
def pmLoopI (cap : Option Nat) (T : PowTables) (maxDigits : Nat) : List UInt8 → PM → PMOut × List Nat
  | ds, s =>
    if s.count ≥ maxDigits then (.full (s.flushEnd cap T) ds, flushEndSite s)
    else match ds with
      | [] => (.exhausted s, [])
      | c :: rest =>
        let s1 := s.addDigit c
        if s1.count ≥ maxDigits then (.full (s1.flushEnd cap T) rest, flushEndSite s1)
        else if s1.counter ≥ pmStep then pmLoopI cap T maxDigits rest (s1.flushMax cap)
        else pmLoopI cap T maxDigits rest s1

/-- the instrumentation does not change the result -/
theorem pmLoopI_fst (cap : Option Nat) (T : PowTables) (maxDigits : Nat) (ds : List UInt8) (s : PM) :
    (pmLoopI cap T maxDigits ds s).1 = pmLoop cap T maxDigits ds s := by
  induction ds generalizing s with
  | nil => unfold pmLoopI pmLoop; split <;> rfl
  | cons c rest ih =>
    unfold pmLoopI pmLoop
    split
    · rfl
    · simp only []
      split
      · rfl
      · split
        · exact ih _
        · exact ih _

/-- loop-head invariant of the two labelled loops: the temporary holds fewer than `step` digits, and
    never more than have been counted -/
def PMInv (s : PM) : Prop := s.counter ≤ 18 ∧ s.counter ≤ s.count

/-- the requested predicate: a state on which `add_temporary!` may be run -/
def PMCounterOK (s : PM) : Prop := s.counter ≤ 19

theorem PMInv.ok {s : PM} (h : PMInv s) : PMCounterOK s := by unfold PMInv at h; unfold PMCounterOK; omega

theorem addDigit_counter (s : PM) (c : UInt8) :
    (s.addDigit c).counter = s.counter + 1 ∧ (s.addDigit c).count = s.count + 1 ∧
    (s.addDigit c).result = s.result := by
  unfold PM.addDigit; exact ⟨rfl, rfl, rfl⟩

/-- `add_digit!` preserves `counter ≤ 19` when `counter < 19` (the `while counter < step` guard) -/
theorem addDigit_ok {s : PM} (c : UInt8) (h : s.counter < 19) : PMCounterOK (s.addDigit c) := by
  unfold PMCounterOK; rw [(addDigit_counter s c).1]; omega

theorem flushMax_counter (cap : Option Nat) (s : PM) :
    (s.flushMax cap).counter = 0 ∧ (s.flushMax cap).count = s.count ∧ (s.flushMax cap).value = 0 := by
  unfold PM.flushMax; exact ⟨rfl, rfl, rfl⟩

/-- `add_temporary!(@max …)` re-establishes the loop-head invariant -/
theorem flushMax_inv (cap : Option Nat) (s : PM) : PMInv (s.flushMax cap) := by
  unfold PMInv; rw [(flushMax_counter cap s).1]; omega

/-- `add_temporary!(@end …)` does not touch the counters -/
theorem flushEnd_counter (cap : Option Nat) (T : PowTables) (s : PM) :
    (s.flushEnd cap T).counter = s.counter ∧ (s.flushEnd cap T).count = s.count ∧
    (s.flushEnd cap T).value = s.value ∧ (s.flushEnd cap T).trap = s.trap := by
  unfold PM.flushEnd; split <;> exact ⟨rfl, rfl, rfl, rfl⟩

theorem flushEndSite_bound {s : PM} (h : PMCounterOK s) : ∀ k ∈ flushEndSite s, 1 ≤ k ∧ k ≤ 19 := by
  unfold flushEndSite PMCounterOK at *
  intro k hk
  split at hk
  · simp only [List.mem_singleton] at hk; omega
  · simp at hk

/-- S5/S6 for one loop: from a state satisfying the loop-head invariant every index handed to
    `int_pow_fast_path(·, Ten)` is in `1 … 19`, and an exhausted iterator leaves the invariant -/
theorem pmLoopI_inv (cap : Option Nat) (T : PowTables) (maxDigits : Nat) (ds : List UInt8) (s : PM)
    (h : PMInv s) :
    (∀ k ∈ (pmLoopI cap T maxDigits ds s).2, 1 ≤ k ∧ k ≤ 19) ∧
    (∀ s', (pmLoopI cap T maxDigits ds s).1 = .exhausted s' → PMInv s') ∧
    (∀ s' rest, (pmLoopI cap T maxDigits ds s).1 = .full s' rest → PMCounterOK s') := by
  induction ds generalizing s with
  | nil =>
    unfold pmLoopI
    split
    · refine ⟨flushEndSite_bound h.ok, fun s' e => by simp at e, fun s' rest e => ?_⟩
      simp only [PMOut.full.injEq] at e
      rw [← e.1]; unfold PMCounterOK; rw [(flushEnd_counter cap T s).1]; exact h.ok
    · refine ⟨by simp, fun s' e => ?_, fun s' rest e => by simp at e⟩
      simp only [PMOut.exhausted.injEq] at e
      rw [← e]; exact h
  | cons c rest ih =>
    unfold pmLoopI
    split
    · refine ⟨flushEndSite_bound h.ok, fun s' e => by simp at e, fun s' rest e => ?_⟩
      simp only [PMOut.full.injEq] at e
      rw [← e.1]; unfold PMCounterOK; rw [(flushEnd_counter cap T s).1]; exact h.ok
    · simp only []
      have hok : PMCounterOK (s.addDigit c) := addDigit_ok c (by unfold PMInv at h; omega)
      split
      · refine ⟨flushEndSite_bound hok, fun s' e => by simp at e, fun s' rest e => ?_⟩
        simp only [PMOut.full.injEq] at e
        rw [← e.1]; unfold PMCounterOK; rw [(flushEnd_counter cap T _).1]; exact hok
      · split
        · exact ih _ (flushMax_inv cap _)
        · rename_i h1 h2
          refine ih _ ?_
          unfold PMInv at *
          have := addDigit_counter s c
          unfold pmStep at h2
          omega

/-- the "skip leading fraction zeros" loop, entered only with `count = 0` (hence `counter = 0`) -/
theorem pmSkipZeros_inv (frac : List UInt8) (s : PM) (h : PMInv s) (h0 : s.count = 0) :
    PMInv (pmSkipZeros frac s).1 := by
  induction frac with
  | nil => unfold pmSkipZeros; exact h
  | cons c rest ih =>
    unfold pmSkipZeros
    split
    · unfold PMInv at *
      have := addDigit_counter s c
      simp only; omega
    · exact ih

/-- instrumented `parseMantissaPM`: additionally returns every index handed to
    `int_pow_fast_path(·, Ten)` during `parse_mantissa` -/
def parseMantissaPMI (cap : Option Nat) (T : PowTables) (int frac : List UInt8) (maxDigits : Nat) :
    PM × List Nat :=
  let s0 : PM := ⟨0, 0, 0, some [], false⟩
  match pmLoopI cap T maxDigits int s0 with
  | (.full s rest, l1) =>
    match s.roundUpNonzero cap rest with
    | some s' => (s', l1)
    | none =>
      match s.roundUpNonzero cap frac with
      | some s' => (s', l1)
      | none => (s, l1)
  | (.exhausted s, l1) =>
    let (s1, frac1) := if s.count = 0 then pmSkipZeros frac s else (s, frac)
    match pmLoopI cap T maxDigits frac1 s1 with
    | (.full s2 rest, l2) =>
      match s2.roundUpNonzero cap rest with
      | some s' => (s', l1 ++ l2)
      | none => (s2, l1 ++ l2)
    | (.exhausted s2, l2) => (s2.flushEnd cap T, l1 ++ l2 ++ flushEndSite s2)

theorem parseMantissaPMI_fst (cap : Option Nat) (T : PowTables) (int frac : List UInt8) (maxDigits : Nat) :
    (parseMantissaPMI cap T int frac maxDigits).1 = parseMantissaPM cap T int frac maxDigits := by
  unfold parseMantissaPMI parseMantissaPM
  simp only []
  rw [← pmLoopI_fst]
  rcases h1 : pmLoopI cap T maxDigits int ⟨0, 0, 0, some [], false⟩ with ⟨o1, l1⟩
  cases o1 with
  | full s rest =>
    simp only []
    cases s.roundUpNonzero cap rest with
    | some s' => rfl
    | none =>
      simp only []
      cases s.roundUpNonzero cap frac <;> rfl
  | exhausted s =>
    simp only []
    rw [← pmLoopI_fst]
    rcases h2 : pmLoopI cap T maxDigits (if s.count = 0 then pmSkipZeros frac s else (s, frac)).2
      (if s.count = 0 then pmSkipZeros frac s else (s, frac)).1 with ⟨o2, l2⟩
    cases o2 with
    | full s2 rest =>
      simp only []
      cases s2.roundUpNonzero cap rest <;> rfl
    | exhausted s2 => rfl

/-- S5/S6: for ARBITRARY bytes and any `max_digits`, every index handed to `int_pow_fast_path(·, Ten)`
    by `parse_mantissa` lies in `1 … 19` (`< 20`, the table length) -/
theorem parseMantissaPMI_sites (cap : Option Nat) (T : PowTables) (int frac : List UInt8) (maxDigits : Nat) :
    ∀ k ∈ (parseMantissaPMI cap T int frac maxDigits).2, 1 ≤ k ∧ k ≤ 19 := by
  have h0 : PMInv ⟨0, 0, 0, some [], false⟩ := by unfold PMInv; simp
  have H1 := pmLoopI_inv cap T maxDigits int _ h0
  unfold parseMantissaPMI
  simp only []
  rcases h1 : pmLoopI cap T maxDigits int ⟨0, 0, 0, some [], false⟩ with ⟨o1, l1⟩
  rw [h1] at H1
  cases o1 with
  | full s rest =>
    simp only []
    cases s.roundUpNonzero cap rest with
    | some s' => exact H1.1
    | none =>
      simp only []
      cases s.roundUpNonzero cap frac <;> exact H1.1
  | exhausted s =>
    simp only []
    have hs : PMInv s := H1.2.1 s rfl
    have hs1 : PMInv (if s.count = 0 then pmSkipZeros frac s else (s, frac)).1 := by
      split
      · exact pmSkipZeros_inv frac s hs (by assumption)
      · exact hs
    have H2 := pmLoopI_inv cap T maxDigits (if s.count = 0 then pmSkipZeros frac s else (s, frac)).2 _ hs1
    rcases h2 : pmLoopI cap T maxDigits (if s.count = 0 then pmSkipZeros frac s else (s, frac)).2
      (if s.count = 0 then pmSkipZeros frac s else (s, frac)).1 with ⟨o2, l2⟩
    rw [h2] at H2
    cases o2 with
    | full s2 rest =>
      simp only []
      have : ∀ k ∈ l1 ++ l2, 1 ≤ k ∧ k ≤ 19 := by
        intro k hk
        rcases List.mem_append.mp hk with hk | hk
        · exact H1.1 k hk
        · exact H2.1 k hk
      cases s2.roundUpNonzero cap rest <;> exact this
    | exhausted s2 =>
      simp only []
      intro k hk
      rcases List.mem_append.mp hk with hk | hk
      · rcases List.mem_append.mp hk with hk | hk
        · exact H1.1 k hk
        · exact H2.1 k hk
      · exact flushEndSite_bound (H2.2.1 s2 rfl).ok k hk

end Sites
end MinLex

namespace MinLex
namespace Sites

-- ---------------------------------------------------------------- S5/S6 as non-interference

/-- two table records that agree on `compact` and on slots `1 … 19` of `SMALL_INT_POW10` -/
def Agree10 (T T' : PowTables) : Prop :=
  T.compact = T'.compact ∧ ∀ k, 1 ≤ k → k ≤ 19 → T.smallIntPow10.getD k 0 = T'.smallIntPow10.getD k 0

theorem flushEnd_congr (cap : Option Nat) {T T' : PowTables} (hT : Agree10 T T') {s : PM}
    (h : PMCounterOK s) : s.flushEnd cap T = s.flushEnd cap T' := by
  unfold PM.flushEnd
  split
  · have : intPow10 T.compact T.smallIntPow10 s.counter = intPow10 T'.compact T'.smallIntPow10 s.counter := by
      unfold intPow10
      rw [← hT.1]
      split
      · rfl
      · exact hT.2 _ (by omega) h
    rw [this]
  · rfl

theorem pmLoop_congr (cap : Option Nat) {T T' : PowTables} (hT : Agree10 T T') (maxDigits : Nat)
    (ds : List UInt8) (s : PM) (h : PMInv s) :
    pmLoop cap T maxDigits ds s = pmLoop cap T' maxDigits ds s := by
  induction ds generalizing s with
  | nil =>
    unfold pmLoop
    split
    · rw [flushEnd_congr cap hT h.ok]
    · rfl
  | cons c rest ih =>
    unfold pmLoop
    split
    · rw [flushEnd_congr cap hT h.ok]
    · simp only []
      have hok : PMCounterOK (s.addDigit c) := addDigit_ok c (by unfold PMInv at h; omega)
      split
      · rw [flushEnd_congr cap hT hok]
      · split
        · exact ih _ (flushMax_inv cap _)
        · rename_i h1 h2
          refine ih _ ?_
          unfold PMInv at *
          have := addDigit_counter s c
          unfold pmStep at h2
          omega

theorem pmLoop_exhausted_inv (cap : Option Nat) (T : PowTables) (maxDigits : Nat) (ds : List UInt8) (s s' : PM)
    (h : PMInv s) (he : pmLoop cap T maxDigits ds s = .exhausted s') : PMInv s' := by
  rw [← pmLoopI_fst] at he
  exact (pmLoopI_inv cap T maxDigits ds s h).2.1 s' he

/-- S5/S6, non-interference form: the result of `parse_mantissa` on ARBITRARY bytes is a function of
    slots `1 … 19` of `SMALL_INT_POW10` only — whatever lies outside the table (the `getD` default of
    the model) cannot influence it. -/
theorem parseMantissaPM_congr (cap : Option Nat) {T T' : PowTables} (hT : Agree10 T T')
    (int frac : List UInt8) (maxDigits : Nat) :
    parseMantissaPM cap T int frac maxDigits = parseMantissaPM cap T' int frac maxDigits := by
  have h0 : PMInv ⟨0, 0, 0, some [], false⟩ := by unfold PMInv; simp
  unfold parseMantissaPM
  simp only []
  rw [← pmLoop_congr cap hT maxDigits int _ h0]
  cases h1 : pmLoop cap T maxDigits int ⟨0, 0, 0, some [], false⟩ with
  | full s rest => rfl
  | exhausted s =>
    simp only []
    have hs : PMInv s := pmLoop_exhausted_inv cap T maxDigits int _ s h0 h1
    have hs1 : PMInv (if s.count = 0 then pmSkipZeros frac s else (s, frac)).1 := by
      split
      · exact pmSkipZeros_inv frac s hs (by assumption)
      · exact hs
    rw [← pmLoop_congr cap hT maxDigits _ _ hs1]
    cases h2 : pmLoop cap T maxDigits (if s.count = 0 then pmSkipZeros frac s else (s, frac)).2
      (if s.count = 0 then pmSkipZeros frac s else (s, frac)).1 with
    | full s2 rest => rfl
    | exhausted s2 =>
      simp only []
      exact flushEnd_congr cap hT (pmLoop_exhausted_inv cap T maxDigits _ _ s2 hs1 h2).ok

end Sites
end MinLex

namespace MinLex
namespace Sites

-- ================================================================ S7: bigint.rs, `pow`

/-- `while exp >= small_step { …; exp -= small_step }` leaves `exp < 27` (enough fuel) -/
theorem powSmallLoop_exp (cap : Option Nat) : ∀ (fuel : Nat) (x : Big) (e : Nat) (x' : Big) (e' : Nat),
    e < 27 * fuel → powSmallLoop cap fuel x e = some (x', e') → e' < 27 ∧ e' ≤ e ∧ e' % 27 = e % 27 := by
  intro fuel
  induction fuel with
  | zero => intro x e x' e' h; omega
  | succ n ih =>
    intro x e x' e' hf h
    unfold powSmallLoop at h
    split at h
    · rename_i hge
      cases hm : smallMul cap x (5 ^ 27) with
      | none => rw [hm] at h; simp at h
      | some y =>
        rw [hm] at h
        have := ih y (e - 27) x' e' (by omega) h
        omega
    · simp only [Option.some.injEq, Prod.mk.injEq] at h
      omega

/-- with the fuel `pow` supplies -/
theorem powSmallLoop_exp' (cap : Option Nat) (x : Big) (e : Nat) (x' : Big) (e' : Nat)
    (h : powSmallLoop cap (e + 1) x e = some (x', e')) : e' < 27 ∧ e' = e % 27 := by
  have := powSmallLoop_exp cap (e + 1) x e x' e' (by omega) h
  omega

/-- `while exp >= LARGE_POW5_STEP { …; exp -= LARGE_POW5_STEP }` leaves `exp < LARGE_POW5_STEP` -/
theorem powLargeLoop_exp (cap : Option Nat) (T : PowTables) (hs : T.largePow5Step ≠ 0) :
    ∀ (fuel : Nat) (x : Big) (e : Nat) (x' : Big) (e' : Nat),
    e < T.largePow5Step * fuel → powLargeLoop cap T fuel x e = some (x', e') →
      e' < T.largePow5Step ∧ e' ≤ e := by
  intro fuel
  induction fuel with
  | zero => intro x e x' e' h; omega
  | succ n ih =>
    intro x e x' e' hf h
    unfold powLargeLoop at h
    split at h
    · rename_i hge
      cases hm : largeMul cap x T.largePow5 with
      | none => rw [hm] at h; simp at h
      | some y =>
        rw [hm] at h
        have : e - T.largePow5Step < T.largePow5Step * n := by
          have : T.largePow5Step * (n + 1) = T.largePow5Step * n + T.largePow5Step := by ring
          omega
        have := ih y (e - T.largePow5Step) x' e' this h
        omega
    · rename_i hlt
      simp only [Option.some.injEq, Prod.mk.injEq] at h
      omega

theorem powLargeLoop_exp' (cap : Option Nat) (T : PowTables) (hs : T.largePow5Step ≠ 0)
    (x : Big) (e : Nat) (x' : Big) (e' : Nat)
    (h : powLargeLoop cap T (e + 1) x e = some (x', e')) : e' < T.largePow5Step ∧ e' ≤ e := by
  refine powLargeLoop_exp cap T hs (e + 1) x e x' e' ?_ h
  have : 1 ≤ T.largePow5Step := by omega
  nlinarith

/-- instrumented `pow`: the index handed to `int_pow_fast_path(·, Five)` (none if `exp = 0` or a
    multiplication failed before) -/
def powSite (cap : Option Nat) (T : PowTables) (x : Big) (exp : Nat) : List Nat :=
  let r1 := if T.compact then some (x, exp) else powLargeLoop cap T (exp + 1) x exp
  match r1 with
  | none => []
  | some (x1, e1) =>
    match powSmallLoop cap (e1 + 1) x1 e1 with
    | none => []
    | some (_, e2) => if e2 ≠ 0 then [e2] else []

/-- S7: the index handed to `int_pow_fast_path(·, Five)` is in `1 … 26` (`< 28`, the table length),
    for every table record, capacity, operand and exponent -/
theorem powSite_bound (cap : Option Nat) (T : PowTables) (x : Big) (exp : Nat) :
    ∀ k ∈ powSite cap T x exp, 1 ≤ k ∧ k ≤ 26 := by
  intro k hk
  unfold powSite at hk
  simp only [] at hk
  split at hk
  · simp at hk
  · rename_i x1 e1 _
    split at hk
    · simp at hk
    · rename_i x2 e2 h2
      have := powSmallLoop_exp' cap x1 e1 x2 e2 h2
      split at hk
      · simp only [List.mem_singleton] at hk; omega
      · simp at hk

/-- … and `pow` depends on `SMALL_INT_POW5` only through that slot -/
theorem pow_congr (cap : Option Nat) (T T' : PowTables) (hc : T.compact = T'.compact)
    (hl : T.largePow5 = T'.largePow5) (hst : T.largePow5Step = T'.largePow5Step)
    (h5 : ∀ k, 1 ≤ k → k ≤ 26 → T.smallIntPow5.getD k 0 = T'.smallIntPow5.getD k 0)
    (x : Big) (exp : Nat) : pow cap T x exp = pow cap T' x exp := by
  have hL : ∀ fuel x e, powLargeLoop cap T fuel x e = powLargeLoop cap T' fuel x e := by
    intro fuel
    induction fuel with
    | zero => intro x e; rfl
    | succ n ih =>
      intro x e
      unfold powLargeLoop
      rw [← hl, ← hst]
      split
      · cases largeMul cap x T.largePow5 with
        | none => rfl
        | some y => exact ih y _
      · rfl
  unfold pow
  simp only []
  rw [← hc, hL]
  split
  · rfl
  · rename_i x1 e1 _
    cases h2 : powSmallLoop cap (e1 + 1) x1 e1 with
    | none => rfl
    | some p =>
      obtain ⟨x2, e2⟩ := p
      simp only []
      have hb := powSmallLoop_exp' cap x1 e1 x2 e2 h2
      split
      · have : intPow5 T.compact T.smallIntPow5 e2 = intPow5 T.compact T'.smallIntPow5 e2 := by
          unfold intPow5
          split
          · rfl
          · exact h5 _ (by omega) (by omega)
        rw [this]
      · rfl

end Sites
end MinLex

namespace MinLex
namespace Sites

-- ================================================================ capacity: every successful step fits
/-! Pure length facts (no hypothesis on the limbs, so they hold for the big integers built from
    ARBITRARY bytes): an operation that returns `some r` returns a vector that fits the back-end. -/

/-- `x` fits the storage back-end -/
def Fits (cap : Option Nat) (x : Big) : Prop := capOk cap x.length = true

theorem fits_nil (cap : Option Nat) : Fits cap [] := by
  unfold Fits; cases cap <;> simp [capOk]

theorem fits_stack {c : Nat} {x : Big} : Fits (some c) x ↔ x.length ≤ c := capOk_some

theorem fits_heap (x : Big) : Fits none x := rfl

theorem fits_of_length_le {cap : Option Nat} {x y : Big} (h : x.length ≤ y.length) (hy : Fits cap y) :
    Fits cap x := capOk_mono h hy

theorem vecTryPush_fits {cap : Option Nat} {x r : Big} {v : Nat} (h : vecTryPush cap x v = some r) :
    Fits cap r := by
  obtain ⟨rfl, hc⟩ := vecTryPush_some h
  unfold Fits; simpa using hc

theorem vecTryFrom_fits {cap : Option Nat} {x r : Big} (h : vecTryFrom cap x = some r) : Fits cap r := by
  obtain ⟨rfl, hc⟩ := vecTryFrom_some h
  exact hc

theorem vecTryResize_fits {cap : Option Nat} {x r : Big} {len v : Nat}
    (h : vecTryResize cap x len v = some r) : Fits cap r ∧ r.length = len := by
  unfold vecTryResize at h
  split at h
  · rename_i hc
    simp only [Option.some.injEq] at h
    have hl : r.length = len := by
      rw [← h]
      split
      · simp only [List.length_append, List.length_replicate]; omega
      · simp only [List.length_take]; omega
    exact ⟨by unfold Fits; rw [hl]; exact hc, hl⟩
  · simp at h

theorem smallAddFrom_fits {cap : Option Nat} {x r : Big} {y start : Nat} (hx : Fits cap x)
    (h : smallAddFrom cap x y start = some r) : Fits cap r := by
  unfold smallAddFrom at h
  simp only [] at h
  split at h
  · exact vecTryPush_fits h
  · simp only [Option.some.injEq] at h
    refine fits_of_length_le (Nat.le_of_eq ?_) hx
    rw [← h]
    simp only [List.length_append, List.length_take, smallAddAux_length, List.length_drop]
    omega

theorem smallAdd_fits {cap : Option Nat} {x r : Big} {y : Nat} (hx : Fits cap x)
    (h : smallAdd cap x y = some r) : Fits cap r := smallAddFrom_fits hx h

theorem smallMul_fits {cap : Option Nat} {x r : Big} {y : Nat} (hx : Fits cap x)
    (h : smallMul cap x y = some r) : Fits cap r := by
  unfold smallMul at h
  simp only [] at h
  split at h
  · exact vecTryPush_fits h
  · simp only [Option.some.injEq] at h
    refine fits_of_length_le (Nat.le_of_eq ?_) hx
    rw [← h, smallMulAux_length]

theorem largeAddFrom_fits {cap : Option Nat} {x y r : Big} {start : Nat} (hx : Fits cap x)
    (h : largeAddFrom cap x y start = some r) : Fits cap r := by
  unfold largeAddFrom at h
  simp only [] at h
  split at h
  · simp at h
  · rename_i x1 hx1
    have hf1 : Fits cap x1 := by
      split at hx1
      · exact (vecTryResize_fits hx1).1
      · simp only [Option.some.injEq] at hx1; rw [← hx1]; exact hx
    have hl : (List.take start x1 ++ (largeAddAux (List.take y.length (List.drop start x1)) y false).1 ++
        List.drop (start + y.length) x1).length = x1.length := by
      simp only [List.length_append, List.length_take, largeAddAux_length, List.length_drop]
      omega
    split at h
    · exact smallAddFrom_fits (fits_of_length_le (Nat.le_of_eq hl) hf1) h
    · simp only [Option.some.injEq] at h
      rw [← h]; exact fits_of_length_le (Nat.le_of_eq hl) hf1

theorem longMulLoop_fits {cap : Option Nat} {x : Big} : ∀ (ys : List Nat) (i : Nat) (z r : Big),
    Fits cap z → longMulLoop cap x ys i z = some r → Fits cap r := by
  intro ys
  induction ys with
  | nil => intro i z r hz h; unfold longMulLoop at h; simp only [Option.some.injEq] at h; rw [← h]; exact hz
  | cons yi ys ih =>
    intro i z r hz h
    unfold longMulLoop at h
    split at h
    · cases h1 : vecTryFrom cap x with
      | none => rw [h1] at h; simp at h
      | some zi0 =>
        rw [h1] at h; simp only [] at h
        cases h2 : smallMul cap zi0 yi with
        | none => rw [h2] at h; simp at h
        | some zi =>
          rw [h2] at h; simp only [] at h
          cases h3 : largeAddFrom cap z zi i with
          | none => rw [h3] at h; simp at h
          | some z' =>
            rw [h3] at h; simp only [] at h
            exact ih _ _ _ (largeAddFrom_fits hz h3) h
    · exact ih _ _ _ hz h

theorem longMul_fits {cap : Option Nat} {x y r : Big} (h : longMul cap x y = some r) : Fits cap r := by
  unfold longMul at h
  cases h1 : vecTryFrom cap x with
  | none => rw [h1] at h; simp at h
  | some z0 =>
    rw [h1] at h; simp only [] at h
    have hz0 := vecTryFrom_fits h1
    cases y with
    | nil =>
      simp only [Option.some.injEq] at h
      rw [← h]; exact normalize_capOk hz0
    | cons y0 ys =>
      simp only [] at h
      cases h2 : smallMul cap z0 y0 with
      | none => rw [h2] at h; simp at h
      | some z1 =>
        rw [h2] at h; simp only [] at h
        cases h3 : longMulLoop cap x ys 1 z1 with
        | none => rw [h3] at h; simp at h
        | some z =>
          rw [h3] at h; simp only [Option.some.injEq] at h
          rw [← h]
          exact normalize_capOk (longMulLoop_fits _ _ _ _ (smallMul_fits hz0 h2) h3)

theorem largeMul_fits {cap : Option Nat} {x y r : Big} (hx : Fits cap x)
    (h : largeMul cap x y = some r) : Fits cap r := by
  unfold largeMul at h
  split at h
  · exact smallMul_fits hx h
  · exact longMul_fits h

theorem shlBits_fits {cap : Option Nat} {x r : Big} {n : Nat} (hx : Fits cap x)
    (h : shlBits cap x n = some r) : Fits cap r := by
  unfold shlBits at h
  simp only [] at h
  split at h
  · exact vecTryPush_fits h
  · simp only [Option.some.injEq] at h
    refine fits_of_length_le (Nat.le_of_eq ?_) hx
    rw [← h, shlBitsAux_length]

theorem shlLimbs_fits {cap : Option Nat} {x r : Big} {n : Nat} (hx : Fits cap x)
    (h : shlLimbs cap x n = some r) : Fits cap r := by
  unfold shlLimbs at h
  split at h
  · simp at h
  · rename_i hc
    split at h
    · simp only [Option.some.injEq] at h; rw [← h]; exact hx
    · simp only [Option.some.injEq] at h
      rw [← h]; unfold Fits
      simp only [List.length_append, List.length_replicate]
      simpa using hc

theorem shl_fits {cap : Option Nat} {x r : Big} {n : Nat} (hx : Fits cap x)
    (h : shl cap x n = some r) : Fits cap r := by
  unfold shl at h
  simp only [] at h
  split at h
  · simp at h
  · rename_i x1 h1
    have hf1 : Fits cap x1 := by
      split at h1
      · exact shlBits_fits hx h1
      · simp only [Option.some.injEq] at h1; rw [← h1]; exact hx
    split at h
    · exact shlLimbs_fits hf1 h
    · simp only [Option.some.injEq] at h; rw [← h]; exact hf1

theorem powLargeLoop_fits {cap : Option Nat} {T : PowTables} : ∀ (fuel : Nat) (x : Big) (e : Nat) (x' : Big)
    (e' : Nat), Fits cap x → powLargeLoop cap T fuel x e = some (x', e') → Fits cap x' := by
  intro fuel
  induction fuel with
  | zero =>
    intro x e x' e' hx h
    unfold powLargeLoop at h
    simp only [Option.some.injEq, Prod.mk.injEq] at h
    rw [← h.1]; exact hx
  | succ n ih =>
    intro x e x' e' hx h
    unfold powLargeLoop at h
    split at h
    · cases hm : largeMul cap x T.largePow5 with
      | none => rw [hm] at h; simp at h
      | some y => rw [hm] at h; exact ih _ _ _ _ (largeMul_fits hx hm) h
    · simp only [Option.some.injEq, Prod.mk.injEq] at h
      rw [← h.1]; exact hx

theorem powSmallLoop_fits {cap : Option Nat} : ∀ (fuel : Nat) (x : Big) (e : Nat) (x' : Big)
    (e' : Nat), Fits cap x → powSmallLoop cap fuel x e = some (x', e') → Fits cap x' := by
  intro fuel
  induction fuel with
  | zero =>
    intro x e x' e' hx h
    unfold powSmallLoop at h
    simp only [Option.some.injEq, Prod.mk.injEq] at h
    rw [← h.1]; exact hx
  | succ n ih =>
    intro x e x' e' hx h
    unfold powSmallLoop at h
    split at h
    · cases hm : smallMul cap x (5 ^ 27) with
      | none => rw [hm] at h; simp at h
      | some y => rw [hm] at h; exact ih _ _ _ _ (smallMul_fits hx hm) h
    · simp only [Option.some.injEq, Prod.mk.injEq] at h
      rw [← h.1]; exact hx

theorem pow_fits {cap : Option Nat} {T : PowTables} {x r : Big} {exp : Nat} (hx : Fits cap x)
    (h : pow cap T x exp = some r) : Fits cap r := by
  unfold pow at h
  simp only [] at h
  split at h
  · simp at h
  · rename_i x1 e1 h1
    have hf1 : Fits cap x1 := by
      split at h1
      · simp only [Option.some.injEq, Prod.mk.injEq] at h1; rw [← h1.1]; exact hx
      · exact powLargeLoop_fits _ _ _ _ _ hx h1
    split at h
    · simp at h
    · rename_i x2 e2 h2
      have hf2 := powSmallLoop_fits _ _ _ _ _ hf1 h2
      split at h
      · exact smallMul_fits hf2 h
      · simp only [Option.some.injEq] at h; rw [← h]; exact hf2

theorem bigintPow_fits {cap : Option Nat} {T : PowTables} {x r : Big} {base exp : Nat} (hx : Fits cap x)
    (h : bigintPow cap T x base exp = some r) : Fits cap r := by
  unfold bigintPow at h
  split at h
  · simp at h
  · rename_i x1 h1
    have hf1 : Fits cap x1 := by
      split at h1
      · exact pow_fits hx h1
      · simp only [Option.some.injEq] at h1; rw [← h1]; exact hx
    split at h
    · exact shl_fits hf1 h
    · simp only [Option.some.injEq] at h; rw [← h]; exact hf1

theorem fromU64_fits {cap : Option Nat} (hc : capOk cap 1 = true) (v : Nat) : Fits cap (fromU64 v) := by
  unfold Fits fromU64
  exact capOk_mono (normalize_length [v]) (by simpa using hc)

-- ---------------------------------------------------------------- parse_mantissa

/-- the big integer held by a `parse_mantissa` state (if no `unwrap` failed) fits -/
def PMFits (cap : Option Nat) (s : PM) : Prop := ∀ r, s.result = some r → Fits cap r

theorem pmMulAdd_fits {cap : Option Nat} {r : Option Big} {power value : Nat} {z : Big}
    (hr : ∀ x, r = some x → Fits cap x) (h : pmMulAdd cap r power value = some z) : Fits cap z := by
  unfold pmMulAdd at h
  cases r with
  | none => simp at h
  | some x =>
    simp only [] at h
    cases h1 : smallMul cap x power with
    | none => rw [h1] at h; simp at h
    | some y => rw [h1] at h; exact smallAdd_fits (smallMul_fits (hr x rfl) h1) h

theorem addDigit_fits {cap : Option Nat} {s : PM} (c : UInt8) (h : PMFits cap s) : PMFits cap (s.addDigit c) := by
  unfold PMFits; rw [(addDigit_counter s c).2.2]; exact h

theorem flushMax_fits {cap : Option Nat} {s : PM} (h : PMFits cap s) : PMFits cap (s.flushMax cap) := by
  intro r hr
  unfold PM.flushMax at hr
  exact pmMulAdd_fits h hr

theorem flushEnd_fits {cap : Option Nat} (T : PowTables) {s : PM} (h : PMFits cap s) :
    PMFits cap (s.flushEnd cap T) := by
  intro r hr
  unfold PM.flushEnd at hr
  split at hr
  · exact pmMulAdd_fits h hr
  · exact h r hr

theorem roundUpNonzero_fits {cap : Option Nat} {s s' : PM} {rest : List UInt8} (h : PMFits cap s)
    (he : s.roundUpNonzero cap rest = some s') : PMFits cap s' := by
  unfold PM.roundUpNonzero at he
  split at he
  · simp only [Option.some.injEq] at he
    intro r hr
    rw [← he] at hr
    exact pmMulAdd_fits h hr
  · simp at he

theorem pmLoop_fits (cap : Option Nat) (T : PowTables) (maxDigits : Nat) (ds : List UInt8) (s : PM)
    (h : PMFits cap s) :
    (∀ s', pmLoop cap T maxDigits ds s = .exhausted s' → PMFits cap s') ∧
    (∀ s' rest, pmLoop cap T maxDigits ds s = .full s' rest → PMFits cap s') := by
  induction ds generalizing s with
  | nil =>
    unfold pmLoop
    split
    · refine ⟨fun s' e => by simp at e, fun s' rest e => ?_⟩
      simp only [PMOut.full.injEq] at e
      rw [← e.1]; exact flushEnd_fits T h
    · refine ⟨fun s' e => ?_, fun s' rest e => by simp at e⟩
      simp only [PMOut.exhausted.injEq] at e
      rw [← e]; exact h
  | cons c rest ih =>
    unfold pmLoop
    split
    · refine ⟨fun s' e => by simp at e, fun s' rest e => ?_⟩
      simp only [PMOut.full.injEq] at e
      rw [← e.1]; exact flushEnd_fits T h
    · simp only []
      split
      · refine ⟨fun s' e => by simp at e, fun s' rest e => ?_⟩
        simp only [PMOut.full.injEq] at e
        rw [← e.1]; exact flushEnd_fits T (addDigit_fits c h)
      · split
        · exact ih _ (flushMax_fits (addDigit_fits c h))
        · exact ih _ (addDigit_fits c h)

theorem pmSkipZeros_fits {cap : Option Nat} (frac : List UInt8) (s : PM) (h : PMFits cap s) :
    PMFits cap (pmSkipZeros frac s).1 := by
  induction frac with
  | nil => unfold pmSkipZeros; exact h
  | cons c rest ih =>
    unfold pmSkipZeros
    split
    · exact addDigit_fits c h
    · exact ih

theorem parseMantissaPM_fits (cap : Option Nat) (T : PowTables) (int frac : List UInt8) (maxDigits : Nat) :
    PMFits cap (parseMantissaPM cap T int frac maxDigits) := by
  have h0 : PMFits cap ⟨0, 0, 0, some [], false⟩ := by
    intro r hr; simp only [Option.some.injEq] at hr; rw [← hr]; exact fits_nil cap
  have H1 := pmLoop_fits cap T maxDigits int _ h0
  unfold parseMantissaPM
  simp only []
  cases h1 : pmLoop cap T maxDigits int ⟨0, 0, 0, some [], false⟩ with
  | full s rest =>
    have hs := H1.2 s rest h1
    simp only []
    cases h2 : s.roundUpNonzero cap rest with
    | some s' => exact roundUpNonzero_fits hs h2
    | none =>
      simp only []
      cases h3 : s.roundUpNonzero cap frac with
      | some s' => exact roundUpNonzero_fits hs h3
      | none => exact hs
  | exhausted s =>
    simp only []
    have hs := H1.1 s h1
    have hs1 : PMFits cap (if s.count = 0 then pmSkipZeros frac s else (s, frac)).1 := by
      split
      · exact pmSkipZeros_fits frac s hs
      · exact hs
    have H2 := pmLoop_fits cap T maxDigits (if s.count = 0 then pmSkipZeros frac s else (s, frac)).2 _ hs1
    cases h2 : pmLoop cap T maxDigits (if s.count = 0 then pmSkipZeros frac s else (s, frac)).2
      (if s.count = 0 then pmSkipZeros frac s else (s, frac)).1 with
    | full s2 rest =>
      simp only []
      have hs2 := H2.2 s2 rest h2
      cases h3 : s2.roundUpNonzero cap rest with
      | some s' => exact roundUpNonzero_fits hs2 h3
      | none => exact hs2
    | exhausted s2 =>
      simp only []
      exact flushEnd_fits T (H2.1 s2 h2)

/-- `parse_mantissa` on ARBITRARY bytes: a returned big integer fits the back-end -/
theorem parseMantissa_fits {cap : Option Nat} {T : PowTables} {int frac : List UInt8} {maxDigits : Nat}
    {r : Big} {n : Nat} (h : parseMantissa cap T int frac maxDigits = some (r, n)) : Fits cap r := by
  unfold parseMantissa at h
  simp only [] at h
  split at h
  · simp at h
  · rename_i r' hr
    simp only [Option.some.injEq, Prod.mk.injEq] at h
    rw [← h.1]
    exact parseMantissaPM_fits cap T int frac maxDigits r' hr

end Sites
end MinLex

namespace MinLex
namespace Sites

-- ---------------------------------------------------------------- the slow path as a whole

/-- instrumented `positive_digit_comp`: result and the big integers it produced -/
def positiveDigitCompI (cap : Option Nat) (T : PowTables) (F : FloatC) (bigmant : Big) (exponent : Int) :
    Option (ExtFloat × List Big) :=
  match bigintPow cap T bigmant 10 (exponent % 4294967296).toNat with
  | none => none
  | some bm =>
    let h := hi64 bm
    let exp : Int := (bitLength bm : Int) - 64 + F.exponentBias
    some (round F (roundNearestTieEven (cbTruncatedAbove h.2)) ⟨h.1, exp⟩, [bm])

/-- instrumented `negative_digit_comp`: result and the big integers it produced
    (`theor_digits` from `from_u64`, after `pow(5, …)`, and the two operands of `compare`) -/
def negativeDigitCompI (cap : Option Nat) (T : PowTables) (F : FloatC) (bigmant : Big) (fp : ExtFloat)
    (exponent : Int) : Option (ExtFloat × List Big) :=
  let realExp := exponent
  let b := round F roundDown fp
  let bBits := extendedToFloat F b
  let theor := fbh F bBits
  let theorDigits0 := fromU64 theor.mant
  let binaryExp := theor.exp - realExp
  let halfradixExp := -realExp
  let theor1? := if halfradixExp ≠ 0 then bigintPow cap T theorDigits0 5 (halfradixExp % 4294967296).toNat
                 else some theorDigits0
  match theor1? with
  | none => none
  | some theor1 =>
    let both? : Option (Big × Big) :=
      if binaryExp > 0 then
        match bigintPow cap T theor1 2 (binaryExp % 4294967296).toNat with
        | none => none
        | some t => some (bigmant, t)
      else if binaryExp < 0 then
        match bigintPow cap T bigmant 2 ((-binaryExp) % 4294967296).toNat with
        | none => none
        | some r => some (r, theor1)
      else some (bigmant, theor1)
    match both? with
    | none => none
    | some (realDigits, theorDigits) =>
      let ord := bigCompare realDigits theorDigits
      some (round F (roundNearestTieEven (cbOrdering ord)) fp, [theorDigits0, theor1, realDigits, theorDigits])

/-- instrumented `slow`: result and every big integer produced on the way -/
def slowI (cap : Option Nat) (T : PowTables) (F : FloatC) (num : Number) (fp : ExtFloat)
    (int frac : List UInt8) : Option (ExtFloat × List Big) :=
  let sciExp := scientificExponent num
  match parseMantissa cap T int frac F.maxDigits with
  | none => none
  | some (bigmant, digits) =>
    let exponent := wrapI32 (sciExp + 1 - asI32 digits)
    if exponent ≥ 0 then (positiveDigitCompI cap T F bigmant exponent).map (fun p => (p.1, bigmant :: p.2))
    else (negativeDigitCompI cap T F bigmant fp exponent).map (fun p => (p.1, bigmant :: p.2))

theorem positiveDigitCompI_fst (cap : Option Nat) (T : PowTables) (F : FloatC) (bigmant : Big) (exponent : Int) :
    (positiveDigitCompI cap T F bigmant exponent).map (·.1) = positiveDigitComp cap T F bigmant exponent := by
  unfold positiveDigitCompI positiveDigitComp
  cases bigintPow cap T bigmant 10 (exponent % 4294967296).toNat <;> rfl

theorem negativeDigitCompI_fst (cap : Option Nat) (T : PowTables) (F : FloatC) (bigmant : Big) (fp : ExtFloat)
    (exponent : Int) :
    (negativeDigitCompI cap T F bigmant fp exponent).map (·.1) = negativeDigitComp cap T F bigmant fp exponent := by
  unfold negativeDigitCompI negativeDigitComp
  simp only []
  generalize fromU64 (fbh F (extendedToFloat F (round F roundDown fp))).mant = t0
  generalize (fbh F (extendedToFloat F (round F roundDown fp))).exp - exponent = be
  have key : ∀ o1 : Option Big,
      Option.map (fun x : ExtFloat × List Big => x.1)
        (match o1 with
        | none => none
        | some theor1 =>
          match
            (if be > 0 then
              match bigintPow cap T theor1 2 (be % 4294967296).toNat with
              | none => none
              | some t => some (bigmant, t)
            else if be < 0 then
              match bigintPow cap T bigmant 2 ((-be) % 4294967296).toNat with
              | none => none
              | some r => some (r, theor1)
            else some (bigmant, theor1) : Option (Big × Big)) with
          | none => none
          | some (realDigits, theorDigits) =>
            some (round F (roundNearestTieEven (cbOrdering (bigCompare realDigits theorDigits))) fp,
              [t0, theor1, realDigits, theorDigits])) =
      (match o1 with
        | none => none
        | some theor1 =>
          match
            (if be > 0 then
              match bigintPow cap T theor1 2 (be % 4294967296).toNat with
              | none => none
              | some t => some (bigmant, t)
            else if be < 0 then
              match bigintPow cap T bigmant 2 ((-be) % 4294967296).toNat with
              | none => none
              | some r => some (r, theor1)
            else some (bigmant, theor1) : Option (Big × Big)) with
          | none => none
          | some (realDigits, theorDigits) =>
            some (round F (roundNearestTieEven (cbOrdering (bigCompare realDigits theorDigits))) fp)) := by
    intro o1
    cases o1 with
    | none => rfl
    | some theor1 =>
      simp only []
      generalize (if be > 0 then
              match bigintPow cap T theor1 2 (be % 4294967296).toNat with
              | none => none
              | some t => some (bigmant, t)
            else if be < 0 then
              match bigintPow cap T bigmant 2 ((-be) % 4294967296).toNat with
              | none => none
              | some r => some (r, theor1)
            else some (bigmant, theor1) : Option (Big × Big)) = o2
      cases o2 with
      | none => rfl
      | some p => rfl
  exact key _

/-- the instrumentation does not change the result -/
theorem slowI_fst (cap : Option Nat) (T : PowTables) (F : FloatC) (num : Number) (fp : ExtFloat)
    (int frac : List UInt8) :
    (slowI cap T F num fp int frac).map (·.1) = slow cap T F num fp int frac := by
  unfold slowI slow
  simp only []
  cases parseMantissa cap T int frac F.maxDigits with
  | none => rfl
  | some p =>
    obtain ⟨bigmant, digits⟩ := p
    simp only []
    split
    · rw [← positiveDigitCompI_fst, Option.map_map]; rfl
    · rw [← negativeDigitCompI_fst, Option.map_map]; rfl

theorem positiveDigitCompI_fits {cap : Option Nat} {T : PowTables} {F : FloatC} {bigmant : Big} {exponent : Int}
    {r : ExtFloat} {l : List Big} (hb : Fits cap bigmant)
    (h : positiveDigitCompI cap T F bigmant exponent = some (r, l)) : ∀ x ∈ l, Fits cap x := by
  unfold positiveDigitCompI at h
  cases h1 : bigintPow cap T bigmant 10 (exponent % 4294967296).toNat with
  | none => rw [h1] at h; simp at h
  | some bm =>
    rw [h1] at h
    simp only [Option.some.injEq, Prod.mk.injEq] at h
    rw [← h.2]
    intro x hx
    simp only [List.mem_singleton] at hx
    rw [hx]; exact bigintPow_fits hb h1

theorem negativeDigitCompI_fits {cap : Option Nat} {T : PowTables} {F : FloatC} {bigmant : Big} {fp : ExtFloat}
    {exponent : Int} {r : ExtFloat} {l : List Big} (hc : capOk cap 1 = true) (hb : Fits cap bigmant)
    (h : negativeDigitCompI cap T F bigmant fp exponent = some (r, l)) : ∀ x ∈ l, Fits cap x := by
  unfold negativeDigitCompI at h
  simp only [] at h
  split at h
  · simp at h
  · rename_i theor1 h1
    have hf0 := fromU64_fits hc (fbh F (extendedToFloat F (round F roundDown fp))).mant
    have hf1 : Fits cap theor1 := by
      split at h1
      · exact bigintPow_fits hf0 h1
      · simp only [Option.some.injEq] at h1; rw [← h1]; exact hf0
    split at h
    · simp at h
    · rename_i realDigits theorDigits h2
      simp only [Option.some.injEq, Prod.mk.injEq] at h
      have hboth : Fits cap realDigits ∧ Fits cap theorDigits := by
        split at h2
        · split at h2
          · simp at h2
          · rename_i t ht
            simp only [Option.some.injEq, Prod.mk.injEq] at h2
            rw [← h2.1, ← h2.2]
            exact ⟨hb, bigintPow_fits hf1 ht⟩
        · split at h2
          · split at h2
            · simp at h2
            · rename_i t ht
              simp only [Option.some.injEq, Prod.mk.injEq] at h2
              rw [← h2.1, ← h2.2]
              exact ⟨bigintPow_fits hb ht, hf1⟩
          · simp only [Option.some.injEq, Prod.mk.injEq] at h2
            rw [← h2.1, ← h2.2]
            exact ⟨hb, hf1⟩
      rw [← h.2]
      intro x hx
      simp only [List.mem_cons, List.not_mem_nil, or_false] at hx
      rcases hx with rfl | rfl | rfl | rfl
      · exact hf0
      · exact hf1
      · exact hboth.1
      · exact hboth.2

/-- on ARBITRARY bytes: if the slow path returns a result, every big integer it built on the way
    fits the storage back-end (on the stack back-end: has at most 62 limbs) -/
theorem slowI_fits {cap : Option Nat} {T : PowTables} {F : FloatC} {num : Number} {fp : ExtFloat}
    {int frac : List UInt8} {r : ExtFloat} {l : List Big} (hc : capOk cap 1 = true)
    (h : slowI cap T F num fp int frac = some (r, l)) : l ≠ [] ∧ ∀ x ∈ l, Fits cap x := by
  unfold slowI at h
  simp only [] at h
  cases h1 : parseMantissa cap T int frac F.maxDigits with
  | none => rw [h1] at h; simp at h
  | some p =>
    obtain ⟨bigmant, digits⟩ := p
    rw [h1] at h
    simp only [] at h
    have hb := parseMantissa_fits h1
    have key : ∀ o : Option (ExtFloat × List Big),
        (∀ r' l', o = some (r', l') → ∀ x ∈ l', Fits cap x) →
        o.map (fun p => (p.1, bigmant :: p.2)) = some (r, l) → l ≠ [] ∧ ∀ x ∈ l, Fits cap x := by
      intro o ho he
      cases o with
      | none => simp at he
      | some p =>
        obtain ⟨r', l'⟩ := p
        simp only [Option.map_some, Option.some.injEq, Prod.mk.injEq] at he
        rw [← he.2]
        refine ⟨by simp, ?_⟩
        intro x hx
        rcases List.mem_cons.mp hx with rfl | hx
        · exact hb
        · exact ho r' l' rfl x hx
    split at h
    · exact key _ (fun r' l' e => positiveDigitCompI_fits hb e) h
    · exact key _ (fun r' l' e => negativeDigitCompI_fits hc hb e) h

/-- a successful `slow` is a successful `slowI` -/
theorem slowI_of_slow {cap : Option Nat} {T : PowTables} {F : FloatC} {num : Number} {fp : ExtFloat}
    {int frac : List UInt8} {r : ExtFloat} (h : slow cap T F num fp int frac = some r) :
    ∃ l, slowI cap T F num fp int frac = some (r, l) := by
  rw [← slowI_fst] at h
  cases h1 : slowI cap T F num fp int frac with
  | none => rw [h1] at h; simp at h
  | some p =>
    obtain ⟨r', l⟩ := p
    rw [h1] at h
    simp only [Option.map_some, Option.some.injEq] at h
    exact ⟨l, by rw [← h]⟩

end Sites
end MinLex

namespace MinLex
namespace Sites
open LowVec C13

-- ================================================================ S8: `shl_limbs` on the raw buffer

theorem readLog_eq (buf : Nat → Nat) (i k : Nat) :
    readLog buf i k = (slice buf i k, (List.range' i k).map Access.read) := by
  induction k generalizing i with
  | zero => simp [readLog]
  | succ k ih => simp only [readLog, ih, slice_succ_left, List.range'_succ, List.map_cons]

theorem writeLog_eq (buf : Nat → Nat) (i : Nat) (xs : List Nat) :
    writeLog buf i xs = (copyTo buf i xs, (List.range' i xs.length).map Access.write) := by
  induction xs generalizing buf i with
  | nil => simp [writeLog, copyTo]
  | cons x xs ih => simp only [writeLog, ih, copyTo, List.length_cons, List.range'_succ, List.map_cons]

theorem zeroLog_eq (buf : Nat → Nat) (i k : Nat) :
    zeroLog buf i k = (fill 0 buf i k, (List.range' i k).map Access.write) := by
  induction k generalizing buf i with
  | zero => simp [zeroLog, fill]
  | succ k ih => simp only [zeroLog, ih, fill, List.range'_succ, List.map_cons]

theorem fill_ge (x : Nat) (buf : Nat → Nat) (i n j : Nat) (hj : i + n ≤ j) : fill x buf i n j = buf j := by
  induction n generalizing buf i with
  | zero => rfl
  | succ n ih =>
    rw [fill, ih _ _ (by omega)]
    have : j ≠ i := by omega
    simp [write, this]

theorem copyTo_ge (buf : Nat → Nat) (i : Nat) (s : List Nat) (j : Nat) (hj : i + s.length ≤ j) :
    copyTo buf i s j = buf j := by
  induction s generalizing buf i with
  | nil => rfl
  | cons x xs ih =>
    rw [copyTo, ih _ _ (by simp only [List.length_cons] at hj; omega)]
    have : j ≠ i := by simp only [List.length_cons] at hj; omega
    simp [write, this]

theorem copyTo_mid (buf : Nat → Nat) (i : Nat) (s : List Nat) (j : Nat) (h1 : i ≤ j) (h2 : j < i + s.length) :
    copyTo buf i s j = s.getD (j - i) 0 := by
  induction s generalizing buf i with
  | nil => simp at h2; omega
  | cons x xs ih =>
    rw [copyTo]
    by_cases hji : j = i
    · subst hji
      rw [copyTo_lt _ _ _ _ (by omega)]
      simp [write]
    · simp only [List.length_cons] at h2
      rw [ih _ _ (by omega) (by omega)]
      have : j - i = (j - (i + 1)) + 1 := by omega
      rw [this, List.getD_cons_succ]

theorem slice_getD (buf : Nat → Nat) (i n k : Nat) (hk : k < n) : (slice buf i n).getD k 0 = buf (i + k) := by
  unfold slice
  rw [List.getD_eq_getElem?_getD, List.getElem?_map, List.getElem?_range' (by omega)]
  simp

/-- the logged buffer after `ptr::copy(src, src.add(n), len)`, pointwise -/
theorem ptrCopy_get (buf : Nat → Nat) (n len j : Nat) :
    (ptrCopyLog buf 0 n len).1 j = if n ≤ j ∧ j < n + len then buf (j - n) else buf j := by
  unfold ptrCopyLog
  simp only [readLog_eq, writeLog_eq]
  split
  · rename_i h
    rw [copyTo_mid _ _ _ _ h.1 (by simpa using h.2), slice_getD _ _ _ _ (by omega), Nat.zero_add]
  · rename_i h
    by_cases hlt : j < n
    · exact copyTo_lt _ _ _ _ hlt
    · exact copyTo_ge _ _ _ _ (by simp; omega)

/-- `memmove` as an implementation performs it for `dst > src` (highest index first) is the
    documented "as if through a temporary" semantics -/
theorem moveBack_eq_ptrCopy (buf : Nat → Nat) (n len : Nat) : moveBack buf n len = (ptrCopyLog buf 0 n len).1 := by
  funext j
  rw [ptrCopy_get]
  induction len generalizing buf with
  | zero => simp [moveBack]
  | succ k ih =>
    rw [moveBack, ih]
    by_cases h1 : n ≤ j ∧ j < n + k
    · rw [if_pos h1, if_pos ⟨h1.1, by omega⟩]
      have : j - n ≠ n + k := by omega
      simp [write, this]
    · rw [if_neg h1]
      by_cases h2 : j = n + k
      · rw [if_pos ⟨by omega, by omega⟩]
        subst h2
        simp [write]
      · rw [if_neg (by omega)]
        simp [write, h2]

/-- the access log of `shl_limbs`, explicitly: reads `0 … len-1`, writes `n … n+len-1`, writes `0 … n-1` -/
theorem shlLimbsLogCap_log (c : Nat) (v : LowVec) (n : Nat) :
    (shlLimbsLogCap c v n).2 =
      if n + v.len > c ∨ v.len = 0 then []
      else (List.range' 0 v.len).map Access.read ++ (List.range' n v.len).map Access.write ++
           (List.range' 0 n).map Access.write := by
  unfold shlLimbsLogCap
  by_cases h1 : n + v.len > c
  · rw [if_pos h1, if_pos (Or.inl h1)]
  · rw [if_neg h1]
    by_cases h2 : v.len = 0
    · rw [if_neg (not_not.mpr h2), if_pos (Or.inr h2)]
    · rw [if_pos h2, if_neg (by intro h; rcases h with h | h; exact h1 h; exact h2 h)]
      unfold ptrCopyLog
      simp only [readLog_eq, writeLog_eq, zeroLog_eq, slice_length]

theorem shlLimbsLog_log (v : LowVec) (n : Nat) :
    (shlLimbsLog v n).2 =
      if n + v.len > CAP ∨ v.len = 0 then []
      else (List.range' 0 v.len).map Access.read ++ (List.range' n v.len).map Access.write ++
           (List.range' 0 n).map Access.write := shlLimbsLogCap_log CAP v n

/-- `shl_limbs` on a raw buffer of `c` slots refines the abstract `shlLimbs (some c)` of the
    big-integer model, whatever the slots `≥ len` contained -/
theorem shlLimbsCap_refines (c : Nat) (v : LowVec) (n : Nat) :
    (shlLimbsLogCap c v n).1.map LowVec.deref = MinLex.shlLimbs (some c) v.deref n := by
  unfold shlLimbsLogCap MinLex.shlLimbs
  rw [deref_length]
  by_cases h1 : n + v.len > c
  · rw [if_pos h1]
    have : capOk (some c) (n + v.len) = false := by simp [capOk]; omega
    rw [this]; rfl
  · rw [if_neg h1]
    have hc : capOk (some c) (n + v.len) = true := by simp [capOk]; omega
    rw [hc]
    simp only [Bool.not_true, Bool.false_eq_true, if_false]
    by_cases h2 : v.len = 0
    · have : v.deref.isEmpty = true := by
        rw [List.isEmpty_iff, ← List.length_eq_zero_iff, deref_length]; exact h2
      rw [this, if_neg (not_not.mpr h2)]; rfl
    · have : v.deref.isEmpty = false := by
        rw [Bool.eq_false_iff, ne_eq, List.isEmpty_iff, ← List.length_eq_zero_iff, deref_length]; exact h2
      rw [this, if_pos h2]
      simp only [Bool.false_eq_true, if_false, Option.map_some, Option.some.injEq]
      rw [deref_eq_slice]
      simp only [LowVec.setLen, zeroLog_eq]
      rw [slice_add, slice_fill, Nat.zero_add]
      congr 1
      rw [deref_eq_slice]
      have e1 : slice (fill 0 (ptrCopyLog v.buf 0 n v.len).1 0 n) n v.len =
          slice (ptrCopyLog v.buf 0 n v.len).1 n v.len :=
        slice_congr (fun j hj1 _ => fill_ge _ _ _ _ _ (by omega))
      rw [e1]
      unfold ptrCopyLog
      simp only [readLog_eq, writeLog_eq]
      have := slice_copyTo v.buf n (slice v.buf 0 v.len)
      rw [slice_length] at this
      exact this

/-- the stack vector: refinement of `shlLimbs (some 62)` -/
theorem shlLimbsLow_refines (v : LowVec) (n : Nat) :
    (LowVec.shlLimbs v n).map LowVec.deref = MinLex.shlLimbs (some 62) v.deref n :=
  shlLimbsCap_refines 62 v n

/-- every slot `shl_limbs` touches is inside the buffer, in fact below the NEW length -/
theorem shlLimbsLogCap_slots (c : Nat) (v : LowVec) (n : Nat) :
    ∀ a ∈ (shlLimbsLogCap c v n).2, a.slot < n + v.len ∧ a.slot < c := by
  intro a ha
  rw [shlLimbsLogCap_log] at ha
  split at ha
  · simp at ha
  · rename_i h
    have h1 : n + v.len ≤ c := by omega
    simp only [List.mem_append, List.mem_map, List.mem_range'_1] at ha
    rcases ha with (⟨i, hi, rfl⟩ | ⟨i, hi, rfl⟩) | ⟨i, hi, rfl⟩ <;> simp only [Access.slot] <;> omega

theorem shlLimbsLog_slots (v : LowVec) (n : Nat) :
    ∀ a ∈ (shlLimbsLog v n).2, a.slot < n + v.len ∧ a.slot < CAP := shlLimbsLogCap_slots CAP v n

/-- only initialised slots (`< len`) are read -/
theorem shlLimbsLogCap_reads (c : Nat) (v : LowVec) (n i : Nat) (h : Access.read i ∈ (shlLimbsLogCap c v n).2) :
    i < v.len := by
  rw [shlLimbsLogCap_log] at h
  split at h
  · simp at h
  · simp only [List.mem_append, List.mem_map, List.mem_range'_1, Access.read.injEq, reduceCtorEq,
      and_false, exists_false, or_false, exists_eq_right] at h
    omega

theorem shlLimbsLog_reads (v : LowVec) (n i : Nat) (h : Access.read i ∈ (shlLimbsLog v n).2) : i < v.len :=
  shlLimbsLogCap_reads CAP v n i h

/-- every slot below the new length has been written (by the move or by the zero fill) when
    `set_len` makes it visible -/
theorem shlLimbsLogCap_written (c : Nat) (v w : LowVec) (n : Nat) (h : (shlLimbsLogCap c v n).1 = some w) :
    (v.len ≠ 0 → w.len ≤ c) ∧ (v.len ≠ 0 → w.len = n + v.len) ∧ (v.len = 0 → w = v) ∧
    (v.len ≠ 0 → ∀ i, i < w.len → Access.write i ∈ (shlLimbsLogCap c v n).2) := by
  have hlog := shlLimbsLogCap_log c v n
  unfold shlLimbsLogCap at h
  by_cases h1 : n + v.len > c
  · rw [if_pos h1] at h; simp at h
  · rw [if_neg h1] at h
    by_cases h2 : v.len = 0
    · rw [if_neg (not_not.mpr h2)] at h
      simp only [Option.some.injEq] at h
      subst h
      exact ⟨fun h => absurd h2 h, fun h => absurd h2 h, fun _ => rfl, fun h => absurd h2 h⟩
    · rw [if_pos h2] at h
      simp only [Option.some.injEq] at h
      have hw : w.len = n + v.len := by rw [← h]; rfl
      refine ⟨fun _ => by omega, fun _ => hw, fun h => absurd h h2, fun _ i hi => ?_⟩
      rw [hlog, if_neg (by intro h; rcases h with h | h; exact h1 h; exact h2 h)]
      simp only [List.mem_append, List.mem_map, List.mem_range'_1, Access.write.injEq, reduceCtorEq,
        and_false, exists_false, false_or, exists_eq_right]
      omega

theorem shlLimbsLog_written (v w : LowVec) (n : Nat) (h : LowVec.shlLimbs v n = some w) :
    w.len ≤ CAP ∧ (v.len ≠ 0 → w.len = n + v.len) ∧ (v.len = 0 → w = v) ∧
    (v.len ≠ 0 → ∀ i, i < w.len → Access.write i ∈ (shlLimbsLog v n).2) := by
  obtain ⟨a, b, c, d⟩ := shlLimbsLogCap_written CAP v w n h
  refine ⟨?_, b, c, d⟩
  by_cases h0 : v.len = 0
  · rw [c h0, h0]; exact Nat.zero_le _
  · exact a h0

/-- consequently nothing `shl_limbs` shows depends on the dead part of the buffer -/
theorem shlLimbsLow_independent (v1 v2 : LowVec) (n : Nat) (h : v1.deref = v2.deref) :
    (LowVec.shlLimbs v1 n).map LowVec.deref = (LowVec.shlLimbs v2 n).map LowVec.deref := by
  rw [shlLimbsLow_refines, shlLimbsLow_refines, h]

end Sites
end MinLex

namespace MinLex
namespace Sites

-- ================================================================ C04-local (e): `parse_mantissa` digit arithmetic

/-- all bytes are ASCII digits -/
def Digits (ds : List UInt8) : Prop := ∀ c ∈ ds, isDigit c = true

/-- loop-head invariant for digit input: in addition to `PMInv`, the temporary is below
    `10^counter` and nothing has trapped -/
def PMInvT (s : PM) : Prop := PMInv s ∧ s.value < 10 ^ s.counter ∧ s.trap = false

theorem pow10_le_19 {k : Nat} (h : k ≤ 19) : 10 ^ k ≤ 10 ^ 19 := Nat.pow_le_pow_right (by decide) h

/-- `add_digit!`: with fewer than 19 digits in the temporary, `value * 10 + digit` fits in `u64` -/
theorem addDigit_noTrap {s : PM} {c : UInt8} (hc : isDigit c = true) (hcnt : s.counter ≤ 18)
    (hv : s.value < 10 ^ s.counter) (ht : s.trap = false) :
    (s.addDigit c).trap = false ∧ (s.addDigit c).value = s.value * 10 + digitVal c ∧
    (s.addDigit c).value < 10 ^ (s.counter + 1) ∧ s.value * 10 + digitVal c < u64Mod := by
  have hd := ParseNum.digitOf_eq hc
  have h9 := ParseNum.digitVal_le hc
  have htr := ParseNum.digitTraps_eq hc
  have hp : 10 ^ (s.counter + 1) ≤ 10 ^ 19 := pow10_le_19 (by omega)
  have hps : 10 ^ (s.counter + 1) = 10 ^ s.counter * 10 := Nat.pow_succ _ _
  have h19 : (10 : Nat) ^ 19 < u64Mod := by unfold u64Mod; norm_num
  have hlt : s.value * 10 + digitVal c < 10 ^ (s.counter + 1) := by omega
  have hm1 : s.value * 10 % u64Mod = s.value * 10 := Nat.mod_eq_of_lt (by omega)
  have hm2 : (s.value * 10 + digitVal c) % u64Mod = s.value * 10 + digitVal c := Nat.mod_eq_of_lt (by omega)
  unfold PM.addDigit
  simp only [hd, hm1, hm2, ht, htr, Bool.false_or, Bool.or_eq_false_iff, decide_eq_false_iff_not,
    ge_iff_le, Nat.not_le]
  exact ⟨⟨by omega, by omega⟩, trivial, hlt, by omega⟩

theorem flushMax_invT (cap : Option Nat) {s : PM} (ht : s.trap = false) : PMInvT (s.flushMax cap) := by
  refine ⟨flushMax_inv cap s, ?_, ?_⟩
  · rw [(flushMax_counter cap s).2.2, (flushMax_counter cap s).1]; decide
  · unfold PM.flushMax; exact ht

theorem roundUpNonzero_trap {cap : Option Nat} {s s' : PM} {rest : List UInt8}
    (he : s.roundUpNonzero cap rest = some s') : s'.trap = s.trap ∧ s'.count = s.count + 1 := by
  unfold PM.roundUpNonzero at he
  split at he
  · simp only [Option.some.injEq] at he; rw [← he]; exact ⟨rfl, rfl⟩
  · simp at he

theorem pmLoop_noTrap (cap : Option Nat) (T : PowTables) (maxDigits : Nat) (ds : List UInt8) (s : PM)
    (hd : Digits ds) (h : PMInvT s) :
    (∀ s', pmLoop cap T maxDigits ds s = .exhausted s' → PMInvT s') ∧
    (∀ s' rest, pmLoop cap T maxDigits ds s = .full s' rest → s'.trap = false) := by
  induction ds generalizing s with
  | nil =>
    unfold pmLoop
    split
    · refine ⟨fun s' e => by simp at e, fun s' rest e => ?_⟩
      simp only [PMOut.full.injEq] at e
      rw [← e.1, (flushEnd_counter cap T s).2.2.2]; exact h.2.2
    · refine ⟨fun s' e => ?_, fun s' rest e => by simp at e⟩
      simp only [PMOut.exhausted.injEq] at e
      rw [← e]; exact h
  | cons c rest ih =>
    have hc : isDigit c = true := hd c (List.mem_cons_self)
    have hr : Digits rest := fun x hx => hd x (List.mem_cons_of_mem _ hx)
    unfold pmLoop
    split
    · refine ⟨fun s' e => by simp at e, fun s' rest e => ?_⟩
      simp only [PMOut.full.injEq] at e
      rw [← e.1, (flushEnd_counter cap T s).2.2.2]; exact h.2.2
    · simp only []
      obtain ⟨⟨h18, hcc⟩, hv, ht⟩ := h
      have ha := addDigit_noTrap hc h18 hv ht
      have hcn := addDigit_counter s c
      split
      · refine ⟨fun s' e => by simp at e, fun s' rest e => ?_⟩
        simp only [PMOut.full.injEq] at e
        rw [← e.1, (flushEnd_counter cap T _).2.2.2]; exact ha.1
      · split
        · exact ih _ hr (flushMax_invT cap ha.1)
        · rename_i h1 h2
          refine ih _ hr ⟨?_, ?_, ha.1⟩
          · unfold PMInv; unfold pmStep at h2; omega
          · rw [hcn.1]; exact ha.2.2.1

theorem pmSkipZeros_invT (frac : List UInt8) (s : PM) (hd : Digits frac) (h : PMInvT s) (h0 : s.count = 0) :
    PMInvT (pmSkipZeros frac s).1 ∧ Digits (pmSkipZeros frac s).2 := by
  induction frac with
  | nil => unfold pmSkipZeros; exact ⟨h, hd⟩
  | cons c rest ih =>
    have hc : isDigit c = true := hd c (List.mem_cons_self)
    have hr : Digits rest := fun x hx => hd x (List.mem_cons_of_mem _ hx)
    unfold pmSkipZeros
    split
    · obtain ⟨⟨h18, hcc⟩, hv, ht⟩ := h
      have ha := addDigit_noTrap hc h18 hv ht
      have hcn := addDigit_counter s c
      refine ⟨⟨?_, ?_, ha.1⟩, hr⟩
      · unfold PMInv; simp only; omega
      · simp only; rw [hcn.1]; exact ha.2.2.1
    · exact ih hr

/-- C04-local (e): on digit input (leading zeros or not, any `max_digits`, any table) a checked
    build never traps in the digit arithmetic of `parse_mantissa` -/
theorem parseMantissaPM_noTrap (cap : Option Nat) (T : PowTables) {int frac : List UInt8} (maxDigits : Nat)
    (hi : Digits int) (hf : Digits frac) : (parseMantissaPM cap T int frac maxDigits).trap = false := by
  have h0 : PMInvT ⟨0, 0, 0, some [], false⟩ := ⟨by unfold PMInv; simp, by simp, rfl⟩
  have H1 := pmLoop_noTrap cap T maxDigits int _ hi h0
  unfold parseMantissaPM
  simp only []
  cases h1 : pmLoop cap T maxDigits int ⟨0, 0, 0, some [], false⟩ with
  | full s rest =>
    have hs := H1.2 s rest h1
    simp only []
    cases h2 : s.roundUpNonzero cap rest with
    | some s' => simp only []; rw [(roundUpNonzero_trap h2).1]; exact hs
    | none =>
      simp only []
      cases h3 : s.roundUpNonzero cap frac with
      | some s' => simp only []; rw [(roundUpNonzero_trap h3).1]; exact hs
      | none => exact hs
  | exhausted s =>
    simp only []
    have hs := H1.1 s h1
    have hs1 : PMInvT (if s.count = 0 then pmSkipZeros frac s else (s, frac)).1 ∧
        Digits (if s.count = 0 then pmSkipZeros frac s else (s, frac)).2 := by
      split
      · exact pmSkipZeros_invT frac s hf hs (by assumption)
      · exact ⟨hs, hf⟩
    have H2 := pmLoop_noTrap cap T maxDigits _ _ hs1.2 hs1.1
    cases h2 : pmLoop cap T maxDigits (if s.count = 0 then pmSkipZeros frac s else (s, frac)).2
      (if s.count = 0 then pmSkipZeros frac s else (s, frac)).1 with
    | full s2 rest =>
      simp only []
      have hs2 := H2.2 s2 rest h2
      cases h3 : s2.roundUpNonzero cap rest with
      | some s' => simp only []; rw [(roundUpNonzero_trap h3).1]; exact hs2
      | none => exact hs2
    | exhausted s2 =>
      simp only []
      rw [(flushEnd_counter cap T s2).2.2.2]
      exact (H2.1 s2 h2).2.2

-- ---------------------------------------------------------------- digit count (arbitrary bytes)

theorem pmLoop_count (cap : Option Nat) (T : PowTables) (maxDigits : Nat) (ds : List UInt8) (s : PM)
    (h : s.count ≤ maxDigits) :
    (∀ s', pmLoop cap T maxDigits ds s = .exhausted s' → s'.count ≤ maxDigits) ∧
    (∀ s' rest, pmLoop cap T maxDigits ds s = .full s' rest → s'.count ≤ maxDigits) := by
  induction ds generalizing s with
  | nil =>
    unfold pmLoop
    split
    · refine ⟨fun s' e => by simp at e, fun s' rest e => ?_⟩
      simp only [PMOut.full.injEq] at e
      rw [← e.1, (flushEnd_counter cap T s).2.1]; exact h
    · refine ⟨fun s' e => ?_, fun s' rest e => by simp at e⟩
      simp only [PMOut.exhausted.injEq] at e
      rw [← e]; exact h
  | cons c rest ih =>
    unfold pmLoop
    split
    · refine ⟨fun s' e => by simp at e, fun s' rest e => ?_⟩
      simp only [PMOut.full.injEq] at e
      rw [← e.1, (flushEnd_counter cap T s).2.1]; exact h
    · simp only []
      have hcn := addDigit_counter s c
      have hle : (s.addDigit c).count ≤ maxDigits := by omega
      split
      · refine ⟨fun s' e => by simp at e, fun s' rest e => ?_⟩
        simp only [PMOut.full.injEq] at e
        rw [← e.1, (flushEnd_counter cap T _).2.1]; exact hle
      · split
        · exact ih _ (by rw [(flushMax_counter cap _).2.1]; exact hle)
        · exact ih _ hle

theorem pmSkipZeros_count (frac : List UInt8) (s : PM) (h0 : s.count = 0) :
    (pmSkipZeros frac s).1.count ≤ 1 := by
  induction frac with
  | nil => unfold pmSkipZeros; simp only; omega
  | cons c rest ih =>
    unfold pmSkipZeros
    split
    · simp only; rw [(addDigit_counter s c).2.1]; omega
    · exact ih

/-- for ARBITRARY bytes: `parse_mantissa` counts at most `max_digits + 1` digits -/
theorem parseMantissaPM_count (cap : Option Nat) (T : PowTables) (int frac : List UInt8) {maxDigits : Nat}
    (hmd : 1 ≤ maxDigits) : (parseMantissaPM cap T int frac maxDigits).count ≤ maxDigits + 1 := by
  have H1 := pmLoop_count cap T maxDigits int ⟨0, 0, 0, some [], false⟩ (Nat.zero_le _)
  unfold parseMantissaPM
  simp only []
  cases h1 : pmLoop cap T maxDigits int ⟨0, 0, 0, some [], false⟩ with
  | full s rest =>
    have hs := H1.2 s rest h1
    simp only []
    cases h2 : s.roundUpNonzero cap rest with
    | some s' => simp only []; rw [(roundUpNonzero_trap h2).2]; omega
    | none =>
      simp only []
      cases h3 : s.roundUpNonzero cap frac with
      | some s' => simp only []; rw [(roundUpNonzero_trap h3).2]; omega
      | none => simp only []; omega
  | exhausted s =>
    simp only []
    have hs := H1.1 s h1
    have hs1 : (if s.count = 0 then pmSkipZeros frac s else (s, frac)).1.count ≤ maxDigits := by
      split
      · have := pmSkipZeros_count frac s (by assumption); omega
      · exact hs
    have H2 := pmLoop_count cap T maxDigits (if s.count = 0 then pmSkipZeros frac s else (s, frac)).2 _ hs1
    cases h2 : pmLoop cap T maxDigits (if s.count = 0 then pmSkipZeros frac s else (s, frac)).2
      (if s.count = 0 then pmSkipZeros frac s else (s, frac)).1 with
    | full s2 rest =>
      simp only []
      have hs2 := H2.2 s2 rest h2
      cases h3 : s2.roundUpNonzero cap rest with
      | some s' => simp only []; rw [(roundUpNonzero_trap h3).2]; omega
      | none => simp only []; omega
    | exhausted s2 =>
      simp only []
      rw [(flushEnd_counter cap T s2).2.1]
      have := H2.1 s2 h2; omega

end Sites
end MinLex

namespace MinLex
namespace Sites
open LemireP

-- ================================================================ C04-local (b): `scientific_exponent`

theorem wrapI32_id {x : Int} (h1 : i32Min ≤ x) (h2 : x ≤ i32Max) : wrapI32 x = x := by
  unfold wrapI32 i32Min i32Max at *
  simp only
  split <;> omega

theorem asI32_id {n : Nat} (h : (n : Int) ≤ i32Max) : asI32 n = n := by
  unfold asI32; exact wrapI32_id (by unfold i32Min; omega) h

/-- one power-reduction loop: at most `fuel` additions of `step`, none of which wraps -/
theorem sciLoop_bounds (step lim : Nat) : ∀ (fuel m : Nat) (e : Int),
    i32Min ≤ e → e + (step * fuel : Nat) ≤ i32Max →
    e ≤ (sciLoop step lim fuel m e).2 ∧ (sciLoop step lim fuel m e).2 ≤ e + (step * fuel : Nat) := by
  intro fuel
  induction fuel with
  | zero => intro m e _ _; simp [sciLoop]
  | succ k ih =>
    intro m e h1 h2
    have hc : ((step * (k + 1) : Nat) : Int) = (step : Int) + ((step * k : Nat) : Int) := by
      push_cast; ring
    unfold sciLoop
    split
    · have hw : wrapI32 (e + step) = e + step := wrapI32_id (by omega) (by omega)
      rw [hw]
      have := ih (m / lim) (e + step) (by omega) (by omega)
      omega
    · simp only; omega

/-- `scientific_exponent` without wrap-around: between `exponent` and `exponent + 44` (44 = the total
    the three fuel-bounded loops of the model can add; the real value is `exponent + digits − 1`) -/
theorem scientificExponent_bounds {n : Number} (h1 : i32Min ≤ n.exponent) (h2 : n.exponent + 44 ≤ i32Max) :
    n.exponent ≤ scientificExponent n ∧ scientificExponent n ≤ n.exponent + 44 := by
  unfold scientificExponent
  simp only []
  have a := sciLoop_bounds 4 10000 8 n.mantissa n.exponent h1 (by norm_num; omega)
  have b := sciLoop_bounds 2 100 4 (sciLoop 4 10000 8 n.mantissa n.exponent).1
    (sciLoop 4 10000 8 n.mantissa n.exponent).2 (by omega) (by norm_num at a ⊢; omega)
  have c := sciLoop_bounds 1 10 4 (sciLoop 2 100 4 (sciLoop 4 10000 8 n.mantissa n.exponent).1
      (sciLoop 4 10000 8 n.mantissa n.exponent).2).1
    (sciLoop 2 100 4 (sciLoop 4 10000 8 n.mantissa n.exponent).1
      (sciLoop 4 10000 8 n.mantissa n.exponent).2).2 (by omega) (by norm_num at a b ⊢; omega)
  norm_num at a b c
  omega

/-- the non-wrapping `scientific_exponent` of a `u64` mantissa stays in `i32` -/
theorem sciTraps_false {n : Number} (hm : n.mantissa < 2 ^ 64) (h1 : i32Min ≤ n.exponent)
    (h2 : n.exponent + 19 ≤ i32Max) : sciTraps n = false := by
  have hlen : (Nat.toDigits 10 n.mantissa).length ≤ 20 :=
    (Nat.length_toDigits_le_iff (b := 10) (by decide) (by decide)).mpr (by
      have : (2 : Nat) ^ 64 < 10 ^ 20 := by norm_num
      omega)
  have hpos := Nat.length_toDigits_pos (b := 10) (n := n.mantissa)
  unfold sciTraps inI32
  simp only [Bool.not_eq_eq_eq_not, Bool.not_false, Bool.and_eq_true, decide_eq_true_eq]
  unfold i32Min i32Max at *
  omega

/-- the `exponent` of `slow` (`sci_exp + 1 - digits as i32`) stays in `i32` -/
theorem slowExponent_inI32 {n : Number} {count : Nat} (h1 : i32Min + count ≤ n.exponent)
    (h2 : n.exponent + 45 ≤ i32Max) (hc : (count : Int) ≤ i32Max) :
    inI32 (scientificExponent n + 1 - asI32 count) = true ∧
    wrapI32 (scientificExponent n + 1 - asI32 count) = scientificExponent n + 1 - count := by
  have hs := scientificExponent_bounds (n := n) (by omega) (by omega)
  rw [asI32_id hc]
  refine ⟨?_, wrapI32_id (by omega) (by omega)⟩
  unfold inI32
  simp only [Bool.and_eq_true, decide_eq_true_eq]
  omega

-- ================================================================ C04-local (c), (d): `round`

/-- what `round` needs from its callback: the exponent is advanced by the shift, and the significand is
    the truncated quotient or its successor -/
def CbOK (cb : ExtFloat → Nat → ExtFloat) : Prop :=
  ∀ (fp : ExtFloat) (s : Nat), s ≤ 64 →
    (cb fp s).exp = fp.exp + s ∧ (cb fp s).mant ≤ fp.mant / 2 ^ s + 1

theorem shr_le_div (m s : Nat) (hs : s ≤ 64) (hm : m < 2 ^ 64) :
    (if s = 64 then 0 else m >>> s) = m / 2 ^ s := by
  split
  · rename_i h; subst h; rw [Nat.div_eq_of_lt hm]
  · exact Nat.shiftRight_eq_div_pow m s

theorem cbOK_nearest (cb : RoundCb) : ∀ (fp : ExtFloat) (s : Nat), s ≤ 64 → fp.mant < 2 ^ 64 →
    (roundNearestTieEven cb fp s).exp = fp.exp + s ∧
    (roundNearestTieEven cb fp s).mant ≤ fp.mant / 2 ^ s + 1 := by
  intro fp s hs hm
  unfold roundNearestTieEven
  simp only []
  rw [shr_le_div fp.mant s hs hm]
  refine ⟨trivial, ?_⟩
  split <;> omega

theorem cbOK_down : ∀ (fp : ExtFloat) (s : Nat), s ≤ 64 → fp.mant < 2 ^ 64 →
    (roundDown fp s).exp = fp.exp + s ∧ (roundDown fp s).mant ≤ fp.mant / 2 ^ s + 1 := by
  intro fp s hs hm
  unfold roundDown
  simp only []
  refine ⟨trivial, ?_⟩
  split
  · exact Nat.zero_le _
  · rw [Nat.mod_eq_of_lt (by omega), Nat.shiftRight_eq_div_pow]; omega

/-- C04-local (c): whatever the input exponent, `round` with a callback that returns the truncated
    quotient or its successor produces a *definite* float: `0 ≤ exp ≤ INFINITE_POWER`, `mant < 2^ms`
    (or the subnormal carry `mant = 2^ms ∧ exp = 1`), `mant = 0` at `INFINITE_POWER` -/
theorem round_definite {F : FloatC} (h : F.WF) (cb : ExtFloat → Nat → ExtFloat) (fp : ExtFloat)
    (hm : fp.mant < 2 ^ 64)
    (hcb : ∀ s : Nat, s ≤ 64 → (cb fp s).exp = fp.exp + s ∧ (cb fp s).mant ≤ fp.mant / 2 ^ s + 1) :
    Definite F (round F cb fp) := by
  have hinf := infPower_ge h
  have hms := h.ms_le
  unfold round
  simp only []
  split
  · rename_i hd
    -- subnormal branch
    have hsh : (min (-fp.exp + 1) 64).toNat ≤ 64 := by omega
    have hsh2 : 64 - F.mantissaSize ≤ (min (-fp.exp + 1) 64).toNat := by omega
    obtain ⟨_, hmant⟩ := hcb _ hsh
    have hq : fp.mant / 2 ^ (min (-fp.exp + 1) 64).toNat < 2 ^ F.mantissaSize := by
      have h1 : fp.mant / 2 ^ (min (-fp.exp + 1) 64).toNat ≤ fp.mant / 2 ^ (64 - F.mantissaSize) :=
        Nat.div_le_div_left (Nat.pow_le_pow_right (by decide) hsh2) (Nat.two_pow_pos _)
      have h2 : fp.mant / 2 ^ (64 - F.mantissaSize) < 2 ^ F.mantissaSize := by
        rw [Nat.div_lt_iff_lt_mul (Nat.two_pow_pos _), ← Nat.pow_add,
          show F.mantissaSize + (64 - F.mantissaSize) = 64 by omega]
        exact hm
      omega
    rw [h.hidden]
    refine ⟨?_, ?_, ?_, ?_⟩
    · simp only; split <;> omega
    · simp only; split <;> omega
    · simp only; split <;> omega
    · simp only
      split
      · right; exact ⟨by omega, rfl⟩
      · left; omega
  · rename_i hd
    have hts : (64 - (F.mantissaSize : Int) - 1).toNat ≤ 64 := by omega
    obtain ⟨hexp, _⟩ := hcb _ hts
    have hE0 : 0 ≤ (cb fp (64 - (F.mantissaSize : Int) - 1).toNat).exp := by rw [hexp]; omega
    have hand : ∀ x : Nat, x &&& F.mantissaMask < 2 ^ F.mantissaSize := by
      intro x
      have := Nat.and_le_right (n := x) (m := F.mantissaMask)
      rw [h.mantMask] at this ⊢
      have := Nat.two_pow_pos F.mantissaSize
      omega
    split
    · -- carry
      split
      · exact ⟨by simp only; omega, by simp only; omega, fun _ => rfl, Or.inl (Nat.two_pow_pos _)⟩
      · rename_i hlt
        simp only at hlt
        refine ⟨by simp only; omega, by simp only; omega, fun he => ?_, Or.inl (hand _)⟩
        simp only at he; omega
    · split
      · exact ⟨by simp only; omega, by simp only; omega, fun _ => rfl, Or.inl (Nat.two_pow_pos _)⟩
      · rename_i hlt
        refine ⟨hE0, ?_, fun he => ?_, Or.inl (hand _)⟩
        · show (cb fp (64 - (F.mantissaSize : Int) - 1).toNat).exp ≤ F.infinitePower
          omega
        · simp only at he; omega

theorem round_nearest_definite {F : FloatC} (h : F.WF) (cb : RoundCb) (fp : ExtFloat) (hm : fp.mant < 2 ^ 64) :
    Definite F (round F (roundNearestTieEven cb) fp) :=
  round_definite h _ fp hm (fun s hs => cbOK_nearest cb fp s hs hm)

theorem round_down_definite {F : FloatC} (h : F.WF) (fp : ExtFloat) (hm : fp.mant < 2 ^ 64) :
    Definite F (round F roundDown fp) :=
  round_definite h _ fp hm (fun s hs => cbOK_down fp s hs hm)

/-- C04-local (d): `debug_assert!(shift <= 65)` in `round` holds when `exp ≥ −64` -/
theorem roundTraps_false (F : FloatC) {fp : ExtFloat} (h : -64 ≤ fp.exp) : roundTraps F fp = false := by
  unfold roundTraps
  simp only [Bool.and_eq_false_iff, decide_eq_false_iff_not]
  right; omega

theorem roundTraps_iff (F : FloatC) (fp : ExtFloat) :
    roundTraps F fp = true ↔ fp.exp < -64 ∧ -fp.exp ≥ 64 - (F.mantissaSize : Int) - 1 := by
  unfold roundTraps
  simp only [Bool.and_eq_true, decide_eq_true_eq]
  omega

-- ================================================================ where the moderate path can decline

/-- Lemire declines (`exp < 0`) only for `SMALLEST_POWER_OF_TEN ≤ q ≤ LARGEST_POWER_OF_TEN`, and then
    hands over a normalised significand (`debug_assert!(fp.mant & (1 << 63) != 0)` in `slow`) -/
theorem lemire_declined_range {F : FloatC} (h : LemF F) (num : Number) (hm0 : 0 < num.mantissa)
    (hm : num.mantissa + 1 < 2 ^ 64) {fp : ExtFloat} (he : lemire genLemire F num = some fp)
    (hneg : fp.exp < 0) :
    F.smallestPowerOfTen ≤ num.exponent ∧ num.exponent ≤ F.largestPowerOfTen ∧
    2 ^ 63 ≤ fp.mant ∧ fp.mant < 2 ^ 64 := by
  obtain ⟨fp0, he0, hsh⟩ := computeFloat_gen h num.exponent (w := num.mantissa) (by omega)
  have hmod : (num.mantissa + 1) % u64Mod = num.mantissa + 1 := by
    unfold u64Mod; exact Nat.mod_eq_of_lt hm
  obtain ⟨fp', he', _⟩ := computeFloat_gen h num.exponent (w := num.mantissa + 1) hm
  have fromShape : ∀ {x : ExtFloat}, x.exp < 0 →
      (Definite F x ∨ (0 < num.mantissa ∧ F.smallestPowerOfTen ≤ num.exponent ∧
        num.exponent ≤ F.largestPowerOfTen ∧ Declined F num.exponent (clz64 num.mantissa) x)) →
      F.smallestPowerOfTen ≤ num.exponent ∧ num.exponent ≤ F.largestPowerOfTen ∧
      2 ^ 63 ≤ x.mant ∧ x.mant < 2 ^ 64 := by
    intro x hx hs
    rcases hs with hd | ⟨_, a, b, hd⟩
    · have := hd.1; omega
    · exact ⟨a, b, hd.2.1, hd.2.2.1⟩
  unfold lemire at he
  rw [he0] at he; simp only [] at he
  split at he
  · rw [hmod, he'] at he; simp only [] at he
    split at he
    · rename_i hne
      have hin : F.smallestPowerOfTen ≤ num.exponent ∧ num.exponent ≤ F.largestPowerOfTen := by
        by_contra hcon
        have := computeFloat_out_of_range F (q := num.exponent) (w := num.mantissa)
          (w' := num.mantissa + 1) (by omega) (by omega) (by omega)
        rw [he0, he'] at this
        have e : fp0 = fp' := Option.some.inj this
        rw [e, extFloat_bne_self] at hne
        exact Bool.false_ne_true hne
      have hs := h.sm; have hl := h.lg
      obtain ⟨r, hr, hd⟩ := computeError_gen h hm0 (by omega : num.mantissa < 2 ^ 64)
        (by omega : -342 ≤ num.exponent) (by omega)
      rw [hr] at he
      simp only [Option.some.injEq] at he
      rw [← he]
      exact ⟨hin.1, hin.2, hd.2.1, hd.2.2.1⟩
    · simp only [Option.some.injEq] at he
      rw [← he] at hneg ⊢
      exact fromShape hneg hsh
  · simp only [Option.some.injEq] at he
    rw [← he] at hneg ⊢
    exact fromShape hneg hsh

end Sites
end MinLex

namespace MinLex
namespace Sites

-- ================================================================ whole parser: non-interference

/-- two table records that agree on everything except, possibly, the slots of `SMALL_INT_POW10`
    outside `1 … 19` and the slots of `SMALL_INT_POW5` outside `1 … 26` -/
structure AgreeTables (T T' : PowTables) : Prop where
  compact : T.compact = T'.compact
  large : T.largePow5 = T'.largePow5
  step : T.largePow5Step = T'.largePow5Step
  pow10 : ∀ k, 1 ≤ k → k ≤ 19 → T.smallIntPow10.getD k 0 = T'.smallIntPow10.getD k 0
  pow5 : ∀ k, 1 ≤ k → k ≤ 26 → T.smallIntPow5.getD k 0 = T'.smallIntPow5.getD k 0

theorem AgreeTables.agree10 {T T' : PowTables} (h : AgreeTables T T') : Agree10 T T' := ⟨h.compact, h.pow10⟩

theorem bigintPow_congr (cap : Option Nat) {T T' : PowTables} (h : AgreeTables T T') (x : Big) (base exp : Nat) :
    bigintPow cap T x base exp = bigintPow cap T' x base exp := by
  unfold bigintPow
  rw [pow_congr cap T T' h.compact h.large h.step h.pow5]

theorem parseMantissa_congr (cap : Option Nat) {T T' : PowTables} (h : AgreeTables T T')
    (int frac : List UInt8) (md : Nat) : parseMantissa cap T int frac md = parseMantissa cap T' int frac md := by
  unfold parseMantissa
  rw [parseMantissaPM_congr cap h.agree10]

theorem slow_congr (cap : Option Nat) {T T' : PowTables} (h : AgreeTables T T') (F : FloatC) (num : Number)
    (fp : ExtFloat) (int frac : List UInt8) :
    slow cap T F num fp int frac = slow cap T' F num fp int frac := by
  unfold slow positiveDigitComp negativeDigitComp
  simp only [parseMantissa_congr cap h, bigintPow_congr cap h]

/-- C08, non-interference form for the whole parser: on ARBITRARY bytes the result of `parse_float`
    is unchanged when everything outside the guarded index ranges of the three unchecked tables
    (`SMALL_F*_POW10` beyond `MAX_EXPONENT_FAST_PATH`, `SMALL_INT_POW10` beyond 19, `SMALL_INT_POW5`
    beyond 26 — in particular whatever lies past the end of the tables) is replaced by anything. -/
theorem parseFloat_congr (E E' : Env) (F : FloatC) (hcfg : E.cfg = E'.cfg) (hlem : E.lem = E'.lem)
    (hbel : E.bel = E'.bel) (hpow : AgreeTables E.pow E'.pow)
    (hpw : ∀ k, k ≤ max (-F.minExponentFastPath).toNat F.maxExponentFastPath.toNat →
      E.powFastPath F k = E'.powFastPath F k)
    (hF : (F.maxExponentDisguisedFastPath - F.maxExponentFastPath).toNat ≤ 19)
    (int frac : List UInt8) (e : Int) : parseFloat E F int frac e = parseFloat E' F int frac e := by
  have hfast : ∀ n, tryFastPath F (E.powFastPath F) (intPow10 E.cfg.compact E.pow.smallIntPow10) n =
      tryFastPath F (E'.powFastPath F) (intPow10 E'.cfg.compact E'.pow.smallIntPow10) n := by
    intro n
    have hb := tryFastPathSites_bound F n
    apply tryFastPath_congr
    · intro k hk; exact hpw k (hb.1 k hk)
    · intro k hk
      have hk19 : k ≤ 19 := Nat.le_trans (hb.2 k hk) hF
      have hk1 : 1 ≤ k := by
        unfold tryFastPathSites at hk
        by_cases h1 : isFastPath F n = true
        · simp only [h1, if_true] at hk
          by_cases h2 : n.exponent ≤ F.maxExponentFastPath
          · simp only [h2, if_true] at hk
            split at hk <;> simp at hk
          · simp only [h2, if_false, List.mem_singleton] at hk
            have := (S3_index h1 h2).2
            omega
        · simp [h1] at hk
      unfold intPow10
      rw [← hcfg]
      split
      · rfl
      · exact hpow.pow10 k hk1 hk19
  have hmod : ∀ n, moderatePath E F n = moderatePath E' F n := by
    intro n; unfold moderatePath; rw [hcfg, hlem, hbel]
  have hcap : E.cap = E'.cap := by unfold Env.cap; rw [hcfg]
  unfold parseFloat
  simp only [hfast, hmod, hcap, slow_congr _ hpow]

end Sites
end MinLex

namespace MinLex
namespace Sites
open LemireP

-- ================================================================ limbs stay limbs (ARBITRARY bytes)
/-! `AllLt` (every limb `< 2^64`) of every big integer the slow path builds, with no hypothesis on the
    value (zero included) and no hypothesis on the digits. -/

/-- every table entry is a `u64` -/
structure TablesLt (T : PowTables) : Prop where
  pow5 : AllLt T.smallIntPow5
  pow10 : AllLt T.smallIntPow10
  large : AllLt T.largePow5

theorem genPow_tablesLt (c : Bool) : TablesLt (genPow c) :=
  ⟨by show AllLt Gen.smallIntPow5; decide +kernel, by show AllLt Gen.smallIntPow10; decide +kernel,
   by show AllLt Gen.largePow5; decide +kernel⟩

theorem getD_lt {l : List Nat} (h : AllLt l) (k : Nat) : l.getD k 0 < B := by
  rw [List.getD_eq_getElem?_getD]
  cases hk : l[k]? with
  | none => exact B_pos
  | some v => exact h v (List.mem_of_getElem? hk)

theorem intPow10_lt {T : PowTables} (h : TablesLt T) (k : Nat) : intPow10 T.compact T.smallIntPow10 k < B := by
  unfold intPow10; split
  · exact Nat.mod_lt _ B_pos
  · exact getD_lt h.pow10 k

theorem intPow5_lt {T : PowTables} (h : TablesLt T) (k : Nat) : intPow5 T.compact T.smallIntPow5 k < B := by
  unfold intPow5; split
  · exact Nat.mod_lt _ B_pos
  · exact getD_lt h.pow5 k

theorem smallMul_allLt {cap : Option Nat} {x r : Big} {y : Nat} (hx : AllLt x) (hy : y < B) (hf : Fits cap x)
    (h : smallMul cap x y = some r) : AllLt r := (smallMul_spec hx hy hf h).2.1

theorem smallAdd_allLt {cap : Option Nat} {x r : Big} {y : Nat} (hx : AllLt x) (hy : y < B) (hf : Fits cap x)
    (h : smallAdd cap x y = some r) : AllLt r := (smallAddFrom_spec hx hy (Nat.zero_le _) hf h).2.1

theorem largeMul_allLt {cap : Option Nat} {x y r : Big} (hx : AllLt x) (hy : AllLt y) (hf : Fits cap x)
    (h : largeMul cap x y = some r) : AllLt r := by
  by_cases hx0 : x = []
  · subst hx0
    unfold largeMul at h
    split at h
    · exact (smallMul_spec hx (AllLt_singleton.mp hy) hf h).2.1
    · unfold longMul at h
      cases h1 : vecTryFrom cap y with
      | none => rw [h1] at h; simp at h
      | some z0 =>
        rw [h1] at h
        simp only [Option.some.injEq] at h
        obtain ⟨rfl, _⟩ := vecTryFrom_some h1
        rw [← h]; exact normalize_allLt hy
  · exact (largeMul_spec hx hy hx0 hf h).2.1

theorem powLargeLoop_allLt {cap : Option Nat} {T : PowTables} (hT : TablesLt T) :
    ∀ (fuel : Nat) (x : Big) (e : Nat) (x' : Big) (e' : Nat), AllLt x → Fits cap x →
    powLargeLoop cap T fuel x e = some (x', e') → AllLt x' := by
  intro fuel
  induction fuel with
  | zero =>
    intro x e x' e' hx _ h
    unfold powLargeLoop at h
    simp only [Option.some.injEq, Prod.mk.injEq] at h
    rw [← h.1]; exact hx
  | succ n ih =>
    intro x e x' e' hx hf h
    unfold powLargeLoop at h
    split at h
    · cases hm : largeMul cap x T.largePow5 with
      | none => rw [hm] at h; simp at h
      | some y =>
        rw [hm] at h
        exact ih _ _ _ _ (largeMul_allLt hx hT.large hf hm) (largeMul_fits hf hm) h
    · simp only [Option.some.injEq, Prod.mk.injEq] at h
      rw [← h.1]; exact hx

theorem pow_allLt {cap : Option Nat} {T : PowTables} (hT : TablesLt T) {x r : Big} {exp : Nat}
    (hx : AllLt x) (hf : Fits cap x) (h : pow cap T x exp = some r) : AllLt r := by
  unfold pow at h
  simp only [] at h
  split at h
  · simp at h
  · rename_i x1 e1 h1
    have h1' : AllLt x1 ∧ Fits cap x1 := by
      split at h1
      · simp only [Option.some.injEq, Prod.mk.injEq] at h1; rw [← h1.1]; exact ⟨hx, hf⟩
      · exact ⟨powLargeLoop_allLt hT _ _ _ _ _ hx hf h1, powLargeLoop_fits _ _ _ _ _ hf h1⟩
    split at h
    · simp at h
    · rename_i x2 e2 h2
      obtain ⟨_, hx2, hf2, _⟩ := powSmallLoop_spec (e1 + 1) h1'.1 h1'.2 h2
      split at h
      · exact smallMul_allLt hx2 (intPow5_lt hT e2) hf2 h
      · simp only [Option.some.injEq] at h; rw [← h]; exact hx2

theorem bigintPow_allLt {cap : Option Nat} {T : PowTables} (hT : TablesLt T) {x r : Big} {base exp : Nat}
    (hx : AllLt x) (hf : Fits cap x) (h : bigintPow cap T x base exp = some r) : AllLt r := by
  unfold bigintPow at h
  split at h
  · simp at h
  · rename_i x1 h1
    have h1' : AllLt x1 ∧ Fits cap x1 := by
      split at h1
      · exact ⟨pow_allLt hT hx hf h1, pow_fits hf h1⟩
      · simp only [Option.some.injEq] at h1; rw [← h1]; exact ⟨hx, hf⟩
    split at h
    · exact (shl_spec h1'.1 h1'.2 h).2.1
    · simp only [Option.some.injEq] at h; rw [← h]; exact h1'.1

/-- the state of `parse_mantissa`: temporary is a `u64`, big integer has `u64` limbs and fits -/
def PMGood (cap : Option Nat) (s : PM) : Prop :=
  s.value < B ∧ ∀ r, s.result = some r → AllLt r ∧ Fits cap r

theorem pmMulAdd_good {cap : Option Nat} {r : Option Big} {power value : Nat} {z : Big}
    (hr : ∀ x, r = some x → AllLt x ∧ Fits cap x) (hp : power < B) (hv : value < B)
    (h : pmMulAdd cap r power value = some z) : AllLt z ∧ Fits cap z := by
  unfold pmMulAdd at h
  cases r with
  | none => simp at h
  | some x =>
    simp only [] at h
    cases h1 : smallMul cap x power with
    | none => rw [h1] at h; simp at h
    | some y =>
      rw [h1] at h
      obtain ⟨hx, hf⟩ := hr x rfl
      have hy := smallMul_allLt hx hp hf h1
      have hfy := smallMul_fits hf h1
      exact ⟨smallAdd_allLt hy hv hfy h, smallAdd_fits hfy h⟩

theorem addDigit_good {cap : Option Nat} {s : PM} (c : UInt8) (h : PMGood cap s) : PMGood cap (s.addDigit c) := by
  refine ⟨?_, ?_⟩
  · unfold PM.addDigit; simp only
    have : u64Mod = B := rfl
    rw [this]; exact Nat.mod_lt _ B_pos
  · rw [(addDigit_counter s c).2.2]; exact h.2

theorem flushMax_good {cap : Option Nat} {s : PM} (h : PMGood cap s) : PMGood cap (s.flushMax cap) := by
  refine ⟨by rw [(flushMax_counter cap s).2.2]; exact B_pos, ?_⟩
  intro r hr
  unfold PM.flushMax at hr
  exact pmMulAdd_good h.2 (by unfold pmMaxNative B; omega) h.1 hr

theorem flushEnd_good {cap : Option Nat} {T : PowTables} (hT : TablesLt T) {s : PM} (h : PMGood cap s) :
    PMGood cap (s.flushEnd cap T) := by
  refine ⟨by rw [(flushEnd_counter cap T s).2.2.1]; exact h.1, ?_⟩
  intro r hr
  unfold PM.flushEnd at hr
  split at hr
  · exact pmMulAdd_good h.2 (intPow10_lt hT _) h.1 hr
  · exact h.2 r hr

theorem roundUpNonzero_good {cap : Option Nat} {s s' : PM} {rest : List UInt8} (h : PMGood cap s)
    (he : s.roundUpNonzero cap rest = some s') : PMGood cap s' := by
  unfold PM.roundUpNonzero at he
  split at he
  · simp only [Option.some.injEq] at he
    rw [← he]
    refine ⟨h.1, ?_⟩
    intro r hr
    exact pmMulAdd_good h.2 (by unfold B; omega) (by unfold B; omega) hr
  · simp at he

theorem pmLoop_good (cap : Option Nat) {T : PowTables} (hT : TablesLt T) (maxDigits : Nat) (ds : List UInt8)
    (s : PM) (h : PMGood cap s) :
    (∀ s', pmLoop cap T maxDigits ds s = .exhausted s' → PMGood cap s') ∧
    (∀ s' rest, pmLoop cap T maxDigits ds s = .full s' rest → PMGood cap s') := by
  induction ds generalizing s with
  | nil =>
    unfold pmLoop
    split
    · refine ⟨fun s' e => by simp at e, fun s' rest e => ?_⟩
      simp only [PMOut.full.injEq] at e
      rw [← e.1]; exact flushEnd_good hT h
    · refine ⟨fun s' e => ?_, fun s' rest e => by simp at e⟩
      simp only [PMOut.exhausted.injEq] at e
      rw [← e]; exact h
  | cons c rest ih =>
    unfold pmLoop
    split
    · refine ⟨fun s' e => by simp at e, fun s' rest e => ?_⟩
      simp only [PMOut.full.injEq] at e
      rw [← e.1]; exact flushEnd_good hT h
    · simp only []
      split
      · refine ⟨fun s' e => by simp at e, fun s' rest e => ?_⟩
        simp only [PMOut.full.injEq] at e
        rw [← e.1]; exact flushEnd_good hT (addDigit_good c h)
      · split
        · exact ih _ (flushMax_good (addDigit_good c h))
        · exact ih _ (addDigit_good c h)

theorem pmSkipZeros_good {cap : Option Nat} (frac : List UInt8) (s : PM) (h : PMGood cap s) :
    PMGood cap (pmSkipZeros frac s).1 := by
  induction frac with
  | nil => unfold pmSkipZeros; exact h
  | cons c rest ih =>
    unfold pmSkipZeros
    split
    · exact addDigit_good c h
    · exact ih

theorem parseMantissaPM_good (cap : Option Nat) {T : PowTables} (hT : TablesLt T) (int frac : List UInt8)
    (maxDigits : Nat) : PMGood cap (parseMantissaPM cap T int frac maxDigits) := by
  have h0 : PMGood cap ⟨0, 0, 0, some [], false⟩ := by
    refine ⟨B_pos, ?_⟩
    intro r hr; simp only [Option.some.injEq] at hr; rw [← hr]; exact ⟨AllLt_nil, fits_nil cap⟩
  have H1 := pmLoop_good cap hT maxDigits int _ h0
  unfold parseMantissaPM
  simp only []
  cases h1 : pmLoop cap T maxDigits int ⟨0, 0, 0, some [], false⟩ with
  | full s rest =>
    have hs := H1.2 s rest h1
    simp only []
    cases h2 : s.roundUpNonzero cap rest with
    | some s' => exact roundUpNonzero_good hs h2
    | none =>
      simp only []
      cases h3 : s.roundUpNonzero cap frac with
      | some s' => exact roundUpNonzero_good hs h3
      | none => exact hs
  | exhausted s =>
    simp only []
    have hs := H1.1 s h1
    have hs1 : PMGood cap (if s.count = 0 then pmSkipZeros frac s else (s, frac)).1 := by
      split
      · exact pmSkipZeros_good frac s hs
      · exact hs
    have H2 := pmLoop_good cap hT maxDigits (if s.count = 0 then pmSkipZeros frac s else (s, frac)).2 _ hs1
    cases h2 : pmLoop cap T maxDigits (if s.count = 0 then pmSkipZeros frac s else (s, frac)).2
      (if s.count = 0 then pmSkipZeros frac s else (s, frac)).1 with
    | full s2 rest =>
      simp only []
      have hs2 := H2.2 s2 rest h2
      cases h3 : s2.roundUpNonzero cap rest with
      | some s' => exact roundUpNonzero_good hs2 h3
      | none => exact hs2
    | exhausted s2 =>
      simp only []
      exact flushEnd_good hT (H2.1 s2 h2)

theorem parseMantissa_allLt {cap : Option Nat} {T : PowTables} (hT : TablesLt T) {int frac : List UInt8}
    {maxDigits : Nat} {r : Big} {n : Nat} (h : parseMantissa cap T int frac maxDigits = some (r, n)) :
    AllLt r := by
  unfold parseMantissa at h
  simp only [] at h
  split at h
  · simp at h
  · rename_i r' hr
    simp only [Option.some.injEq, Prod.mk.injEq] at h
    rw [← h.1]
    exact ((parseMantissaPM_good cap hT int frac maxDigits).2 r' hr).1

/-- `hi64` of `u64` limbs is a `u64` -/
theorem hi64_lt {x : Big} (hx : AllLt x) : (hi64 x).1 < 2 ^ 64 := by
  have hB : B = 2 ^ 64 := B_eq
  have h1 : ∀ r0, (u64ToHi64_1 r0).1 < 2 ^ 64 := by
    intro r0; unfold u64ToHi64_1 shl64; simp only; rw [← hB]; exact Nat.mod_lt _ B_pos
  have h2 : ∀ r0 r1, r0 < B → r1 < B → (u64ToHi64_2 r0 r1).1 < 2 ^ 64 := by
    intro r0 r1 hr0 hr1
    unfold u64ToHi64_2; simp only
    split
    · omega
    · apply Nat.or_lt_two_pow
      · unfold shl64; rw [← hB]; exact Nat.mod_lt _ B_pos
      · unfold shr64
        have : r1 / 2 ^ ((64 - clz64 r0) % 64) ≤ r1 := Nat.div_le_self _ _
        omega
  have hrev : AllLt x.reverse := AllLt_reverse.mpr hx
  unfold hi64
  split
  · simp
  · exact h1 _
  · rename_i r0 r1 he
    rw [he] at hrev
    exact h2 r0 r1 (hrev r0 (by simp)) (hrev r1 (by simp))
  · rename_i r0 r1 t _ he
    rw [he] at hrev
    exact h2 r0 r1 (hrev r0 (by simp)) (hrev r1 (by simp))

/-- for ARBITRARY bytes: whatever the slow path returns is a *definite* float (so `f32::from_bits`'s
    debug assertion holds and the bit pattern is at most that of `+∞`) -/
theorem slow_definite {cap : Option Nat} {T : PowTables} {F : FloatC} (hF : F.WF) (hT : TablesLt T)
    {num : Number} {fp : ExtFloat} (hm : fp.mant < 2 ^ 64) {int frac : List UInt8} {r : ExtFloat}
    (h : slow cap T F num fp int frac = some r) : Definite F r := by
  unfold slow at h
  simp only [] at h
  cases h1 : parseMantissa cap T int frac F.maxDigits with
  | none => rw [h1] at h; simp at h
  | some p =>
    obtain ⟨bigmant, digits⟩ := p
    rw [h1] at h
    simp only [] at h
    have hb := parseMantissa_allLt hT h1
    have hfb := parseMantissa_fits h1
    split at h
    · unfold positiveDigitComp at h
      cases h2 : bigintPow cap T bigmant 10 (wrapI32 (scientificExponent num + 1 - asI32 digits) % 4294967296).toNat with
      | none => rw [h2] at h; simp at h
      | some bm =>
        rw [h2] at h
        simp only [Option.some.injEq] at h
        rw [← h]
        exact round_nearest_definite hF _ _ (hi64_lt (bigintPow_allLt hT hb hfb h2))
    · unfold negativeDigitComp at h
      simp only [] at h
      split at h
      · simp at h
      · split at h
        · simp at h
        · simp only [Option.some.injEq] at h
          rw [← h]
          exact round_nearest_definite hF _ _ hm

end Sites
end MinLex

namespace MinLex
namespace Sites

theorem fbh_mant_lt (F : FloatC) (bits : Nat) : (fbh F bits).mant < B := by
  unfold fbh; simp only
  have : u64Mod = B := rfl
  rw [this]; exact Nat.mod_lt _ B_pos

/-- for ARBITRARY bytes: every big integer the slow path builds has `u64` limbs -/
theorem slowI_allLt {cap : Option Nat} {T : PowTables} (hT : TablesLt T) {F : FloatC} {num : Number}
    {fp : ExtFloat} {int frac : List UInt8} {r : ExtFloat} {l : List Big} (hc : capOk cap 1 = true)
    (h : slowI cap T F num fp int frac = some (r, l)) : ∀ x ∈ l, AllLt x := by
  unfold slowI at h
  simp only [] at h
  cases h1 : parseMantissa cap T int frac F.maxDigits with
  | none => rw [h1] at h; simp at h
  | some p =>
    obtain ⟨bigmant, digits⟩ := p
    rw [h1] at h
    simp only [] at h
    have hb := parseMantissa_allLt hT h1
    have hfb := parseMantissa_fits h1
    have key : ∀ o : Option (ExtFloat × List Big),
        (∀ r' l', o = some (r', l') → ∀ x ∈ l', AllLt x) →
        o.map (fun p => (p.1, bigmant :: p.2)) = some (r, l) → ∀ x ∈ l, AllLt x := by
      intro o ho he
      cases o with
      | none => simp at he
      | some p =>
        obtain ⟨r', l'⟩ := p
        simp only [Option.map_some, Option.some.injEq, Prod.mk.injEq] at he
        rw [← he.2]
        intro x hx
        rcases List.mem_cons.mp hx with rfl | hx
        · exact hb
        · exact ho r' l' rfl x hx
    split at h
    · refine key _ (fun r' l' e => ?_) h
      unfold positiveDigitCompI at e
      cases h2 : bigintPow cap T bigmant 10
          (wrapI32 (scientificExponent num + 1 - asI32 digits) % 4294967296).toNat with
      | none => rw [h2] at e; simp at e
      | some bm =>
        rw [h2] at e
        simp only [Option.some.injEq, Prod.mk.injEq] at e
        rw [← e.2]
        intro x hx
        simp only [List.mem_singleton] at hx
        rw [hx]; exact bigintPow_allLt hT hb hfb h2
    · refine key _ (fun r' l' e => ?_) h
      unfold negativeDigitCompI at e
      simp only [] at e
      have hl0 := (fromU64_spec (fbh_mant_lt F (extendedToFloat F (round F roundDown fp)))).2.1
      have hf0 := fromU64_fits hc (fbh F (extendedToFloat F (round F roundDown fp))).mant
      split at e
      · simp at e
      · rename_i theor1 h1'
        have ht1 : AllLt theor1 ∧ Fits cap theor1 := by
          split at h1'
          · exact ⟨bigintPow_allLt hT hl0 hf0 h1', bigintPow_fits hf0 h1'⟩
          · simp only [Option.some.injEq] at h1'; rw [← h1']; exact ⟨hl0, hf0⟩
        split at e
        · simp at e
        · rename_i realDigits theorDigits h2
          simp only [Option.some.injEq, Prod.mk.injEq] at e
          have hboth : AllLt realDigits ∧ AllLt theorDigits := by
            split at h2
            · split at h2
              · simp at h2
              · rename_i t ht
                simp only [Option.some.injEq, Prod.mk.injEq] at h2
                rw [← h2.1, ← h2.2]
                exact ⟨hb, bigintPow_allLt hT ht1.1 ht1.2 ht⟩
            · split at h2
              · split at h2
                · simp at h2
                · rename_i t ht
                  simp only [Option.some.injEq, Prod.mk.injEq] at h2
                  rw [← h2.1, ← h2.2]
                  exact ⟨bigintPow_allLt hT hb hfb ht, ht1.1⟩
              · simp only [Option.some.injEq, Prod.mk.injEq] at h2
                rw [← h2.1, ← h2.2]
                exact ⟨hb, ht1.1⟩
          rw [← e.2]
          intro x hx
          simp only [List.mem_cons, List.not_mem_nil, or_false] at hx
          rcases hx with rfl | rfl | rfl | rfl
          · exact hl0
          · exact ht1.1
          · exact hboth.1
          · exact hboth.2

end Sites
end MinLex
