/-
  Helper lemmas for C08 (every unchecked memory access is in bounds for ARBITRARY bytes) and
  for the local parts of C04.

  Sites (Rust file → model):
   S1/S2  number.rs  `pow_fast_path(∓exponent)`           → `tryFastPath`, argument of `pw`
   S3     number.rs  `int_pow_fast_path(shift, Ten)`      → `tryFastPath`, argument of `ip`
   S4     number.rs  `pow_fast_path(max_exponent)`        → `tryFastPath`, constant argument of `pw`
   S5/S6  slow.rs    `int_pow_fast_path(counter, Ten)`    → `PM.flushEnd`
   S7     bigint.rs  `int_pow_fast_path(exp, Five)`       → `pow`, `intPow5 … e2`
  Nothing in this file uses `Valid`: digits are arbitrary bytes.
-/
import MinLex.Model.Env
import MinLex.Proofs.Bigint
import Mathlib.Tactic.Linarith
import Mathlib.Tactic.Ring
namespace MinLex
namespace Sites

-- ================================================================ S1 – S4: number.rs

/-- the facts `is_fast_path` establishes about the exponent -/
theorem isFastPath_exp {F : FloatC} {n : Number} (h : isFastPath F n = true) :
    F.minExponentFastPath ≤ n.exponent ∧ n.exponent ≤ F.maxExponentDisguisedFastPath ∧
    n.mantissa ≤ F.maxMantissaFastPath ∧ n.manyDigits = false := by
  unfold isFastPath at h
  simp only [Bool.and_eq_true, decide_eq_true_eq, Bool.not_eq_true'] at h
  exact ⟨h.1.1.1, h.1.1.2, h.1.2, h.2⟩

/-- S1: the index of `pow_fast_path((-exponent) as usize)` (division branch) -/
theorem S1_index {F : FloatC} {n : Number} (h : isFastPath F n = true) (_hle : n.exponent ≤ F.maxExponentFastPath)
    (_hneg : n.exponent < 0) : (-n.exponent).toNat ≤ (-F.minExponentFastPath).toNat := by
  have := (isFastPath_exp h).1
  omega

/-- S2: the index of `pow_fast_path(exponent as usize)` (multiplication branch) -/
theorem S2_index {F : FloatC} {n : Number} (_h : isFastPath F n = true) (hle : n.exponent ≤ F.maxExponentFastPath)
    (_hnn : ¬ n.exponent < 0) : n.exponent.toNat ≤ F.maxExponentFastPath.toNat := by
  omega

/-- S3: the index of `int_pow_fast_path(shift as usize, Ten)` (disguised fast path) -/
theorem S3_index {F : FloatC} {n : Number} (h : isFastPath F n = true) (hgt : ¬ n.exponent ≤ F.maxExponentFastPath) :
    (n.exponent - F.maxExponentFastPath).toNat ≤
      (F.maxExponentDisguisedFastPath - F.maxExponentFastPath).toNat ∧
    0 < n.exponent - F.maxExponentFastPath := by
  have := (isFastPath_exp h).2.1
  omega

/-- An instrumented copy of `tryFastPath`: the list of indices handed to `pw` (`pow_fast_path`) and to
    `ip` (`int_pow_fast_path(·, Ten)`), in the order of the calls. -/
def tryFastPathSites (F : FloatC) (n : Number) : List Nat × List Nat :=
  if isFastPath F n then
    if n.exponent ≤ F.maxExponentFastPath then
      if n.exponent < 0 then ([(-n.exponent).toNat], []) else ([n.exponent.toNat], [])
    else ([F.maxExponentFastPath.toNat], [(n.exponent - F.maxExponentFastPath).toNat])
  else ([], [])

/-- the result of `tryFastPath` only depends on `pw` / `ip` at the recorded indices: no other table
    slot (in particular nothing past the end of a table) influences the result -/
theorem tryFastPath_congr (F : FloatC) (pw pw' ip ip' : Nat → Nat) (n : Number)
    (hpw : ∀ k ∈ (tryFastPathSites F n).1, pw k = pw' k)
    (hip : ∀ k ∈ (tryFastPathSites F n).2, ip k = ip' k) :
    tryFastPath F pw ip n = tryFastPath F pw' ip' n := by
  unfold tryFastPath
  unfold tryFastPathSites at hpw hip
  by_cases h1 : isFastPath F n = true
  · simp only [h1, if_true] at hpw hip ⊢
    by_cases h2 : n.exponent ≤ F.maxExponentFastPath
    · simp only [h2, if_true] at hpw hip ⊢
      by_cases h3 : n.exponent < 0
      · simp only [h3, if_true] at hpw ⊢
        rw [hpw _ (List.mem_singleton.mpr rfl)]
      · simp only [h3, if_false] at hpw ⊢
        rw [hpw _ (List.mem_singleton.mpr rfl)]
    · simp only [h2, if_false] at hpw hip ⊢
      rw [hpw _ (List.mem_singleton.mpr rfl), hip _ (List.mem_singleton.mpr rfl)]
  · simp only [h1]; rfl

/-- S1, S2, S4 together: every index handed to `pow_fast_path` is at most
    `max(-MIN_EXPONENT_FAST_PATH, MAX_EXPONENT_FAST_PATH)`; S3: every index handed to
    `int_pow_fast_path(·, Ten)` is at most `MAX_EXPONENT_DISGUISED_FAST_PATH − MAX_EXPONENT_FAST_PATH` -/
theorem tryFastPathSites_bound (F : FloatC) (n : Number) :
    (∀ k ∈ (tryFastPathSites F n).1,
        k ≤ max (-F.minExponentFastPath).toNat F.maxExponentFastPath.toNat) ∧
    (∀ k ∈ (tryFastPathSites F n).2,
        k ≤ (F.maxExponentDisguisedFastPath - F.maxExponentFastPath).toNat) := by
  unfold tryFastPathSites
  by_cases h1 : isFastPath F n = true
  · simp only [h1, if_true]
    by_cases h2 : n.exponent ≤ F.maxExponentFastPath
    · simp only [h2, if_true]
      by_cases h3 : n.exponent < 0
      · simp only [h3, if_true, List.mem_singleton, forall_eq, List.not_mem_nil, false_imp_iff,
          implies_true, and_true]
        have := S1_index h1 h2 h3; omega
      · simp only [h3, if_false, List.mem_singleton, forall_eq, List.not_mem_nil, false_imp_iff,
          implies_true, and_true]
        have := S2_index h1 h2 h3; omega
    · simp only [h2, if_false, List.mem_singleton, forall_eq]
      exact ⟨by omega, (S3_index h1 h2).1⟩
  · simp [h1]

-- ---------------------------------------------------------------- the generated tables

theorem table_lengths :
    Gen.smallF64Pow10.length = 32 ∧ Gen.smallF32Pow10.length = 16 ∧
    Gen.smallIntPow10.length = 20 ∧ Gen.smallIntPow5.length = 28 ∧
    Gen.compactStdPowFastPath64.length = 23 ∧ Gen.compactLibmPowFastPath64.length = 23 ∧
    Gen.compactStdPowFastPath32.length = 11 ∧ Gen.compactLibmPowFastPath32.length = 11 := by
  decide

theorem consts_F64 :
    (-Gen.F64.minExponentFastPath).toNat = 22 ∧ Gen.F64.maxExponentFastPath.toNat = 22 ∧
    (Gen.F64.maxExponentDisguisedFastPath - Gen.F64.maxExponentFastPath).toNat = 15 := by decide

theorem consts_F32 :
    (-Gen.F32.minExponentFastPath).toNat = 10 ∧ Gen.F32.maxExponentFastPath.toNat = 10 ∧
    (Gen.F32.maxExponentDisguisedFastPath - Gen.F32.maxExponentFastPath).toNat = 7 := by decide

/-- the non-padding part of the float tables: every entry that can be fetched is a non-zero finite
    float (so the `fdiv` of the model never sees a zero divisor), in every configuration -/
theorem powFastPath_nonzero_f64 (cfg : Cfg) (k : Nat) (hk : k ≤ 22) :
    (decode Gen.F64.fmt (genPowFastPath cfg Gen.F64 k)).1 ≠ 0 ∧
    genPowFastPath cfg Gen.F64 k < Gen.F64.fmt.infBits := by
  have h : ∀ c1 c2 c3 : Bool, ∀ k : Fin 23,
      (decode Gen.F64.fmt (genPowFastPath ⟨c1, c2, c3⟩ Gen.F64 k.val)).1 ≠ 0 ∧
      genPowFastPath ⟨c1, c2, c3⟩ Gen.F64 k.val < Gen.F64.fmt.infBits := by decide +kernel
  exact h cfg.compact cfg.alloc cfg.std ⟨k, by omega⟩

theorem powFastPath_nonzero_f32 (cfg : Cfg) (k : Nat) (hk : k ≤ 10) :
    (decode Gen.F32.fmt (genPowFastPath cfg Gen.F32 k)).1 ≠ 0 ∧
    genPowFastPath cfg Gen.F32 k < Gen.F32.fmt.infBits := by
  have h : ∀ c1 c2 c3 : Bool, ∀ k : Fin 11,
      (decode Gen.F32.fmt (genPowFastPath ⟨c1, c2, c3⟩ Gen.F32 k.val)).1 ≠ 0 ∧
      genPowFastPath ⟨c1, c2, c3⟩ Gen.F32 k.val < Gen.F32.fmt.infBits := by decide +kernel
  exact h cfg.compact cfg.alloc cfg.std ⟨k, by omega⟩

end Sites
end MinLex

namespace MinLex
namespace Sites

-- ================================================================ S5 / S6: slow.rs, `parse_mantissa`

/-- the index `add_temporary!(@end …)` hands to `int_pow_fast_path(·, Ten)` (no call if `counter = 0`) -/
def flushEndSite (s : PM) : List Nat := if s.counter ≠ 0 then [s.counter] else []

/-- instrumented `pmLoop`: additionally returns the indices handed to `int_pow_fast_path(·, Ten)` -/
def pmLoopI (cap : Option Nat) (T : PowTables) (maxDigits : Nat) : List UInt8 → PM → PMOut × List Nat
  | ds, s =>
    if s.count ≥ maxDigits then (.full (s.flushEnd cap T) ds, flushEndSite s)
    else match ds with
      | [] => (.exhausted s, [])
      | c :: rest =>
        let s1 := s.addDigit c
        if s1.count ≥ maxDigits then (.full (s1.flushEnd cap T) rest, flushEndSite s1)
        else if s1.counter ≥ pmStep then pmLoopI cap T maxDigits rest (s1.flushMax cap)
        else pmLoopI cap T maxDigits rest s1

/-- the instrumentation does not change the result -/
theorem pmLoopI_fst (cap : Option Nat) (T : PowTables) (maxDigits : Nat) (ds : List UInt8) (s : PM) :
    (pmLoopI cap T maxDigits ds s).1 = pmLoop cap T maxDigits ds s := by
  induction ds generalizing s with
  | nil => unfold pmLoopI pmLoop; split <;> rfl
  | cons c rest ih =>
    unfold pmLoopI pmLoop
    split
    · rfl
    · simp only []
      split
      · rfl
      · split
        · exact ih _
        · exact ih _

/-- loop-head invariant of the two labelled loops: the temporary holds fewer than `step` digits, and
    never more than have been counted -/
def PMInv (s : PM) : Prop := s.counter ≤ 18 ∧ s.counter ≤ s.count

/-- the requested predicate: a state on which `add_temporary!` may be run -/
def PMCounterOK (s : PM) : Prop := s.counter ≤ 19

theorem PMInv.ok {s : PM} (h : PMInv s) : PMCounterOK s := by unfold PMInv at h; unfold PMCounterOK; omega

theorem addDigit_counter (s : PM) (c : UInt8) :
    (s.addDigit c).counter = s.counter + 1 ∧ (s.addDigit c).count = s.count + 1 ∧
    (s.addDigit c).result = s.result := by
  unfold PM.addDigit; exact ⟨rfl, rfl, rfl⟩

/-- `add_digit!` preserves `counter ≤ 19` when `counter < 19` (the `while counter < step` guard) -/
theorem addDigit_ok {s : PM} (c : UInt8) (h : s.counter < 19) : PMCounterOK (s.addDigit c) := by
  unfold PMCounterOK; rw [(addDigit_counter s c).1]; omega

theorem flushMax_counter (cap : Option Nat) (s : PM) :
    (s.flushMax cap).counter = 0 ∧ (s.flushMax cap).count = s.count ∧ (s.flushMax cap).value = 0 := by
  unfold PM.flushMax; exact ⟨rfl, rfl, rfl⟩

/-- `add_temporary!(@max …)` re-establishes the loop-head invariant -/
theorem flushMax_inv (cap : Option Nat) (s : PM) : PMInv (s.flushMax cap) := by
  unfold PMInv; rw [(flushMax_counter cap s).1]; omega

/-- `add_temporary!(@end …)` does not touch the counters -/
theorem flushEnd_counter (cap : Option Nat) (T : PowTables) (s : PM) :
    (s.flushEnd cap T).counter = s.counter ∧ (s.flushEnd cap T).count = s.count ∧
    (s.flushEnd cap T).value = s.value ∧ (s.flushEnd cap T).trap = s.trap := by
  unfold PM.flushEnd; split <;> exact ⟨rfl, rfl, rfl, rfl⟩

theorem flushEndSite_bound {s : PM} (h : PMCounterOK s) : ∀ k ∈ flushEndSite s, 1 ≤ k ∧ k ≤ 19 := by
  unfold flushEndSite PMCounterOK at *
  intro k hk
  split at hk
  · simp only [List.mem_singleton] at hk; omega
  · simp at hk

/-- S5/S6 for one loop: from a state satisfying the loop-head invariant every index handed to
    `int_pow_fast_path(·, Ten)` is in `1 … 19`, and an exhausted iterator leaves the invariant -/
theorem pmLoopI_inv (cap : Option Nat) (T : PowTables) (maxDigits : Nat) (ds : List UInt8) (s : PM)
    (h : PMInv s) :
    (∀ k ∈ (pmLoopI cap T maxDigits ds s).2, 1 ≤ k ∧ k ≤ 19) ∧
    (∀ s', (pmLoopI cap T maxDigits ds s).1 = .exhausted s' → PMInv s') ∧
    (∀ s' rest, (pmLoopI cap T maxDigits ds s).1 = .full s' rest → PMCounterOK s') := by
  induction ds generalizing s with
  | nil =>
    unfold pmLoopI
    split
    · refine ⟨flushEndSite_bound h.ok, fun s' e => by simp at e, fun s' rest e => ?_⟩
      simp only [PMOut.full.injEq] at e
      rw [← e.1]; unfold PMCounterOK; rw [(flushEnd_counter cap T s).1]; exact h.ok
    · refine ⟨by simp, fun s' e => ?_, fun s' rest e => by simp at e⟩
      simp only [PMOut.exhausted.injEq] at e
      rw [← e]; exact h
  | cons c rest ih =>
    unfold pmLoopI
    split
    · refine ⟨flushEndSite_bound h.ok, fun s' e => by simp at e, fun s' rest e => ?_⟩
      simp only [PMOut.full.injEq] at e
      rw [← e.1]; unfold PMCounterOK; rw [(flushEnd_counter cap T s).1]; exact h.ok
    · simp only []
      have hok : PMCounterOK (s.addDigit c) := addDigit_ok c (by unfold PMInv at h; omega)
      split
      · refine ⟨flushEndSite_bound hok, fun s' e => by simp at e, fun s' rest e => ?_⟩
        simp only [PMOut.full.injEq] at e
        rw [← e.1]; unfold PMCounterOK; rw [(flushEnd_counter cap T _).1]; exact hok
      · split
        · exact ih _ (flushMax_inv cap _)
        · rename_i h1 h2
          refine ih _ ?_
          unfold PMInv at *
          have := addDigit_counter s c
          unfold pmStep at h2
          omega

/-- the "skip leading fraction zeros" loop, entered only with `count = 0` (hence `counter = 0`) -/
theorem pmSkipZeros_inv (frac : List UInt8) (s : PM) (h : PMInv s) (h0 : s.count = 0) :
    PMInv (pmSkipZeros frac s).1 := by
  induction frac with
  | nil => unfold pmSkipZeros; exact h
  | cons c rest ih =>
    unfold pmSkipZeros
    split
    · unfold PMInv at *
      have := addDigit_counter s c
      simp only; omega
    · exact ih

/-- instrumented `parseMantissaPM`: additionally returns every index handed to
    `int_pow_fast_path(·, Ten)` during `parse_mantissa` -/
def parseMantissaPMI (cap : Option Nat) (T : PowTables) (int frac : List UInt8) (maxDigits : Nat) :
    PM × List Nat :=
  let s0 : PM := ⟨0, 0, 0, some [], false⟩
  match pmLoopI cap T maxDigits int s0 with
  | (.full s rest, l1) =>
    match s.roundUpNonzero cap rest with
    | some s' => (s', l1)
    | none =>
      match s.roundUpNonzero cap frac with
      | some s' => (s', l1)
      | none => (s, l1)
  | (.exhausted s, l1) =>
    let (s1, frac1) := if s.count = 0 then pmSkipZeros frac s else (s, frac)
    match pmLoopI cap T maxDigits frac1 s1 with
    | (.full s2 rest, l2) =>
      match s2.roundUpNonzero cap rest with
      | some s' => (s', l1 ++ l2)
      | none => (s2, l1 ++ l2)
    | (.exhausted s2, l2) => (s2.flushEnd cap T, l1 ++ l2 ++ flushEndSite s2)

theorem parseMantissaPMI_fst (cap : Option Nat) (T : PowTables) (int frac : List UInt8) (maxDigits : Nat) :
    (parseMantissaPMI cap T int frac maxDigits).1 = parseMantissaPM cap T int frac maxDigits := by
  unfold parseMantissaPMI parseMantissaPM
  simp only []
  rw [← pmLoopI_fst]
  rcases h1 : pmLoopI cap T maxDigits int ⟨0, 0, 0, some [], false⟩ with ⟨o1, l1⟩
  cases o1 with
  | full s rest =>
    simp only []
    cases s.roundUpNonzero cap rest with
    | some s' => rfl
    | none =>
      simp only []
      cases s.roundUpNonzero cap frac <;> rfl
  | exhausted s =>
    simp only []
    rw [← pmLoopI_fst]
    rcases h2 : pmLoopI cap T maxDigits (if s.count = 0 then pmSkipZeros frac s else (s, frac)).2
      (if s.count = 0 then pmSkipZeros frac s else (s, frac)).1 with ⟨o2, l2⟩
    cases o2 with
    | full s2 rest =>
      simp only []
      cases s2.roundUpNonzero cap rest <;> rfl
    | exhausted s2 => rfl

/-- S5/S6: for ARBITRARY bytes and any `max_digits`, every index handed to `int_pow_fast_path(·, Ten)`
    by `parse_mantissa` lies in `1 … 19` (`< 20`, the table length) -/
theorem parseMantissaPMI_sites (cap : Option Nat) (T : PowTables) (int frac : List UInt8) (maxDigits : Nat) :
    ∀ k ∈ (parseMantissaPMI cap T int frac maxDigits).2, 1 ≤ k ∧ k ≤ 19 := by
  have h0 : PMInv ⟨0, 0, 0, some [], false⟩ := by unfold PMInv; simp
  have H1 := pmLoopI_inv cap T maxDigits int _ h0
  unfold parseMantissaPMI
  simp only []
  rcases h1 : pmLoopI cap T maxDigits int ⟨0, 0, 0, some [], false⟩ with ⟨o1, l1⟩
  rw [h1] at H1
  cases o1 with
  | full s rest =>
    simp only []
    cases s.roundUpNonzero cap rest with
    | some s' => exact H1.1
    | none =>
      simp only []
      cases s.roundUpNonzero cap frac <;> exact H1.1
  | exhausted s =>
    simp only []
    have hs : PMInv s := H1.2.1 s rfl
    have hs1 : PMInv (if s.count = 0 then pmSkipZeros frac s else (s, frac)).1 := by
      split
      · exact pmSkipZeros_inv frac s hs (by assumption)
      · exact hs
    have H2 := pmLoopI_inv cap T maxDigits (if s.count = 0 then pmSkipZeros frac s else (s, frac)).2 _ hs1
    rcases h2 : pmLoopI cap T maxDigits (if s.count = 0 then pmSkipZeros frac s else (s, frac)).2
      (if s.count = 0 then pmSkipZeros frac s else (s, frac)).1 with ⟨o2, l2⟩
    rw [h2] at H2
    cases o2 with
    | full s2 rest =>
      simp only []
      have : ∀ k ∈ l1 ++ l2, 1 ≤ k ∧ k ≤ 19 := by
        intro k hk
        rcases List.mem_append.mp hk with hk | hk
        · exact H1.1 k hk
        · exact H2.1 k hk
      cases s2.roundUpNonzero cap rest <;> exact this
    | exhausted s2 =>
      simp only []
      intro k hk
      rcases List.mem_append.mp hk with hk | hk
      · rcases List.mem_append.mp hk with hk | hk
        · exact H1.1 k hk
        · exact H2.1 k hk
      · exact flushEndSite_bound (H2.2.1 s2 rfl).ok k hk

end Sites
end MinLex

namespace MinLex
namespace Sites

-- ---------------------------------------------------------------- S5/S6 as non-interference

/-- two table records that agree on `compact` and on slots `1 … 19` of `SMALL_INT_POW10` -/
def Agree10 (T T' : PowTables) : Prop :=
  T.compact = T'.compact ∧ ∀ k, 1 ≤ k → k ≤ 19 → T.smallIntPow10.getD k 0 = T'.smallIntPow10.getD k 0

theorem flushEnd_congr (cap : Option Nat) {T T' : PowTables} (hT : Agree10 T T') {s : PM}
    (h : PMCounterOK s) : s.flushEnd cap T = s.flushEnd cap T' := by
  unfold PM.flushEnd
  split
  · have : intPow10 T.compact T.smallIntPow10 s.counter = intPow10 T'.compact T'.smallIntPow10 s.counter := by
      unfold intPow10
      rw [← hT.1]
      split
      · rfl
      · exact hT.2 _ (by omega) h
    rw [this]
  · rfl

theorem pmLoop_congr (cap : Option Nat) {T T' : PowTables} (hT : Agree10 T T') (maxDigits : Nat)
    (ds : List UInt8) (s : PM) (h : PMInv s) :
    pmLoop cap T maxDigits ds s = pmLoop cap T' maxDigits ds s := by
  induction ds generalizing s with
  | nil =>
    unfold pmLoop
    split
    · rw [flushEnd_congr cap hT h.ok]
    · rfl
  | cons c rest ih =>
    unfold pmLoop
    split
    · rw [flushEnd_congr cap hT h.ok]
    · simp only []
      have hok : PMCounterOK (s.addDigit c) := addDigit_ok c (by unfold PMInv at h; omega)
      split
      · rw [flushEnd_congr cap hT hok]
      · split
        · exact ih _ (flushMax_inv cap _)
        · rename_i h1 h2
          refine ih _ ?_
          unfold PMInv at *
          have := addDigit_counter s c
          unfold pmStep at h2
          omega

theorem pmLoop_exhausted_inv (cap : Option Nat) (T : PowTables) (maxDigits : Nat) (ds : List UInt8) (s s' : PM)
    (h : PMInv s) (he : pmLoop cap T maxDigits ds s = .exhausted s') : PMInv s' := by
  rw [← pmLoopI_fst] at he
  exact (pmLoopI_inv cap T maxDigits ds s h).2.1 s' he

/-- S5/S6, non-interference form: the result of `parse_mantissa` on ARBITRARY bytes is a function of
    slots `1 … 19` of `SMALL_INT_POW10` only — whatever lies outside the table (the `getD` default of
    the model) cannot influence it. -/
theorem parseMantissaPM_congr (cap : Option Nat) {T T' : PowTables} (hT : Agree10 T T')
    (int frac : List UInt8) (maxDigits : Nat) :
    parseMantissaPM cap T int frac maxDigits = parseMantissaPM cap T' int frac maxDigits := by
  have h0 : PMInv ⟨0, 0, 0, some [], false⟩ := by unfold PMInv; simp
  unfold parseMantissaPM
  simp only []
  rw [← pmLoop_congr cap hT maxDigits int _ h0]
  cases h1 : pmLoop cap T maxDigits int ⟨0, 0, 0, some [], false⟩ with
  | full s rest => rfl
  | exhausted s =>
    simp only []
    have hs : PMInv s := pmLoop_exhausted_inv cap T maxDigits int _ s h0 h1
    have hs1 : PMInv (if s.count = 0 then pmSkipZeros frac s else (s, frac)).1 := by
      split
      · exact pmSkipZeros_inv frac s hs (by assumption)
      · exact hs
    rw [← pmLoop_congr cap hT maxDigits _ _ hs1]
    cases h2 : pmLoop cap T maxDigits (if s.count = 0 then pmSkipZeros frac s else (s, frac)).2
      (if s.count = 0 then pmSkipZeros frac s else (s, frac)).1 with
    | full s2 rest => rfl
    | exhausted s2 =>
      simp only []
      exact flushEnd_congr cap hT (pmLoop_exhausted_inv cap T maxDigits _ _ s2 hs1 h2).ok

end Sites
end MinLex

namespace MinLex
namespace Sites

-- ================================================================ S7: bigint.rs, `pow`

/-- `while exp >= small_step { …; exp -= small_step }` leaves `exp < 27` (enough fuel) -/
theorem powSmallLoop_exp (cap : Option Nat) : ∀ (fuel : Nat) (x : Big) (e : Nat) (x' : Big) (e' : Nat),
    e < 27 * fuel → powSmallLoop cap fuel x e = some (x', e') → e' < 27 ∧ e' ≤ e ∧ e' % 27 = e % 27 := by
  intro fuel
  induction fuel with
  | zero => intro x e x' e' h; omega
  | succ n ih =>
    intro x e x' e' hf h
    unfold powSmallLoop at h
    split at h
    · rename_i hge
      cases hm : smallMul cap x (5 ^ 27) with
      | none => rw [hm] at h; simp at h
      | some y =>
        rw [hm] at h
        have := ih y (e - 27) x' e' (by omega) h
        omega
    · simp only [Option.some.injEq, Prod.mk.injEq] at h
      omega

/-- with the fuel `pow` supplies -/
theorem powSmallLoop_exp' (cap : Option Nat) (x : Big) (e : Nat) (x' : Big) (e' : Nat)
    (h : powSmallLoop cap (e + 1) x e = some (x', e')) : e' < 27 ∧ e' = e % 27 := by
  have := powSmallLoop_exp cap (e + 1) x e x' e' (by omega) h
  omega

/-- `while exp >= LARGE_POW5_STEP { …; exp -= LARGE_POW5_STEP }` leaves `exp < LARGE_POW5_STEP` -/
theorem powLargeLoop_exp (cap : Option Nat) (T : PowTables) (hs : T.largePow5Step ≠ 0) :
    ∀ (fuel : Nat) (x : Big) (e : Nat) (x' : Big) (e' : Nat),
    e < T.largePow5Step * fuel → powLargeLoop cap T fuel x e = some (x', e') →
      e' < T.largePow5Step ∧ e' ≤ e := by
  intro fuel
  induction fuel with
  | zero => intro x e x' e' h; omega
  | succ n ih =>
    intro x e x' e' hf h
    unfold powLargeLoop at h
    split at h
    · rename_i hge
      cases hm : largeMul cap x T.largePow5 with
      | none => rw [hm] at h; simp at h
      | some y =>
        rw [hm] at h
        have : e - T.largePow5Step < T.largePow5Step * n := by
          have : T.largePow5Step * (n + 1) = T.largePow5Step * n + T.largePow5Step := by ring
          omega
        have := ih y (e - T.largePow5Step) x' e' this h
        omega
    · rename_i hlt
      simp only [Option.some.injEq, Prod.mk.injEq] at h
      omega

theorem powLargeLoop_exp' (cap : Option Nat) (T : PowTables) (hs : T.largePow5Step ≠ 0)
    (x : Big) (e : Nat) (x' : Big) (e' : Nat)
    (h : powLargeLoop cap T (e + 1) x e = some (x', e')) : e' < T.largePow5Step ∧ e' ≤ e := by
  refine powLargeLoop_exp cap T hs (e + 1) x e x' e' ?_ h
  have : 1 ≤ T.largePow5Step := by omega
  nlinarith

/-- instrumented `pow`: the index handed to `int_pow_fast_path(·, Five)` (none if `exp = 0` or a
    multiplication failed before) -/
def powSite (cap : Option Nat) (T : PowTables) (x : Big) (exp : Nat) : List Nat :=
  let r1 := if T.compact then some (x, exp) else powLargeLoop cap T (exp + 1) x exp
  match r1 with
  | none => []
  | some (x1, e1) =>
    match powSmallLoop cap (e1 + 1) x1 e1 with
    | none => []
    | some (_, e2) => if e2 ≠ 0 then [e2] else []

/-- S7: the index handed to `int_pow_fast_path(·, Five)` is in `1 … 26` (`< 28`, the table length),
    for every table record, capacity, operand and exponent -/
theorem powSite_bound (cap : Option Nat) (T : PowTables) (x : Big) (exp : Nat) :
    ∀ k ∈ powSite cap T x exp, 1 ≤ k ∧ k ≤ 26 := by
  intro k hk
  unfold powSite at hk
  simp only [] at hk
  split at hk
  · simp at hk
  · rename_i x1 e1 _
    split at hk
    · simp at hk
    · rename_i x2 e2 h2
      have := powSmallLoop_exp' cap x1 e1 x2 e2 h2
      split at hk
      · simp only [List.mem_singleton] at hk; omega
      · simp at hk

/-- … and `pow` depends on `SMALL_INT_POW5` only through that slot -/
theorem pow_congr (cap : Option Nat) (T T' : PowTables) (hc : T.compact = T'.compact)
    (hl : T.largePow5 = T'.largePow5) (hst : T.largePow5Step = T'.largePow5Step)
    (h5 : ∀ k, 1 ≤ k → k ≤ 26 → T.smallIntPow5.getD k 0 = T'.smallIntPow5.getD k 0)
    (x : Big) (exp : Nat) : pow cap T x exp = pow cap T' x exp := by
  have hL : ∀ fuel x e, powLargeLoop cap T fuel x e = powLargeLoop cap T' fuel x e := by
    intro fuel
    induction fuel with
    | zero => intro x e; rfl
    | succ n ih =>
      intro x e
      unfold powLargeLoop
      rw [← hl, ← hst]
      split
      · cases largeMul cap x T.largePow5 with
        | none => rfl
        | some y => exact ih y _
      · rfl
  unfold pow
  simp only []
  rw [← hc, hL]
  split
  · rfl
  · rename_i x1 e1 _
    cases h2 : powSmallLoop cap (e1 + 1) x1 e1 with
    | none => rfl
    | some p =>
      obtain ⟨x2, e2⟩ := p
      simp only []
      have hb := powSmallLoop_exp' cap x1 e1 x2 e2 h2
      split
      · have : intPow5 T.compact T.smallIntPow5 e2 = intPow5 T.compact T'.smallIntPow5 e2 := by
          unfold intPow5
          split
          · rfl
          · exact h5 _ (by omega) (by omega)
        rw [this]
      · rfl

end Sites
end MinLex

namespace MinLex
namespace Sites

-- ================================================================ capacity: every successful step fits
/-! Pure length facts (no hypothesis on the limbs, so they hold for the big integers built from
    ARBITRARY bytes): an operation that returns `some r` returns a vector that fits the back-end. -/

/-- `x` fits the storage back-end -/
def Fits (cap : Option Nat) (x : Big) : Prop := capOk cap x.length = true

theorem fits_nil (cap : Option Nat) : Fits cap [] := by
  unfold Fits; cases cap <;> simp [capOk]

theorem fits_stack {c : Nat} {x : Big} : Fits (some c) x ↔ x.length ≤ c := capOk_some

theorem fits_heap (x : Big) : Fits none x := rfl

theorem fits_of_length_le {cap : Option Nat} {x y : Big} (h : x.length ≤ y.length) (hy : Fits cap y) :
    Fits cap x := capOk_mono h hy

theorem vecTryPush_fits {cap : Option Nat} {x r : Big} {v : Nat} (h : vecTryPush cap x v = some r) :
    Fits cap r := by
  obtain ⟨rfl, hc⟩ := vecTryPush_some h
  unfold Fits; simpa using hc

theorem vecTryFrom_fits {cap : Option Nat} {x r : Big} (h : vecTryFrom cap x = some r) : Fits cap r := by
  obtain ⟨rfl, hc⟩ := vecTryFrom_some h
  exact hc

theorem vecTryResize_fits {cap : Option Nat} {x r : Big} {len v : Nat}
    (h : vecTryResize cap x len v = some r) : Fits cap r ∧ r.length = len := by
  unfold vecTryResize at h
  split at h
  · rename_i hc
    simp only [Option.some.injEq] at h
    have hl : r.length = len := by
      rw [← h]
      split
      · simp only [List.length_append, List.length_replicate]; omega
      · simp only [List.length_take]; omega
    exact ⟨by unfold Fits; rw [hl]; exact hc, hl⟩
  · simp at h

theorem smallAddFrom_fits {cap : Option Nat} {x r : Big} {y start : Nat} (hx : Fits cap x)
    (h : smallAddFrom cap x y start = some r) : Fits cap r := by
  unfold smallAddFrom at h
  simp only [] at h
  split at h
  · exact vecTryPush_fits h
  · simp only [Option.some.injEq] at h
    refine fits_of_length_le (Nat.le_of_eq ?_) hx
    rw [← h]
    simp only [List.length_append, List.length_take, smallAddAux_length, List.length_drop]
    omega

theorem smallAdd_fits {cap : Option Nat} {x r : Big} {y : Nat} (hx : Fits cap x)
    (h : smallAdd cap x y = some r) : Fits cap r := smallAddFrom_fits hx h

theorem smallMul_fits {cap : Option Nat} {x r : Big} {y : Nat} (hx : Fits cap x)
    (h : smallMul cap x y = some r) : Fits cap r := by
  unfold smallMul at h
  simp only [] at h
  split at h
  · exact vecTryPush_fits h
  · simp only [Option.some.injEq] at h
    refine fits_of_length_le (Nat.le_of_eq ?_) hx
    rw [← h, smallMulAux_length]

theorem largeAddFrom_fits {cap : Option Nat} {x y r : Big} {start : Nat} (hx : Fits cap x)
    (h : largeAddFrom cap x y start = some r) : Fits cap r := by
  unfold largeAddFrom at h
  simp only [] at h
  split at h
  · simp at h
  · rename_i x1 hx1
    have hf1 : Fits cap x1 := by
      split at hx1
      · exact (vecTryResize_fits hx1).1
      · simp only [Option.some.injEq] at hx1; rw [← hx1]; exact hx
    have hl : (List.take start x1 ++ (largeAddAux (List.take y.length (List.drop start x1)) y false).1 ++
        List.drop (start + y.length) x1).length = x1.length := by
      simp only [List.length_append, List.length_take, largeAddAux_length, List.length_drop]
      omega
    split at h
    · exact smallAddFrom_fits (fits_of_length_le (Nat.le_of_eq hl) hf1) h
    · simp only [Option.some.injEq] at h
      rw [← h]; exact fits_of_length_le (Nat.le_of_eq hl) hf1

theorem longMulLoop_fits {cap : Option Nat} {x : Big} : ∀ (ys : List Nat) (i : Nat) (z r : Big),
    Fits cap z → longMulLoop cap x ys i z = some r → Fits cap r := by
  intro ys
  induction ys with
  | nil => intro i z r hz h; unfold longMulLoop at h; simp only [Option.some.injEq] at h; rw [← h]; exact hz
  | cons yi ys ih =>
    intro i z r hz h
    unfold longMulLoop at h
    split at h
    · cases h1 : vecTryFrom cap x with
      | none => rw [h1] at h; simp at h
      | some zi0 =>
        rw [h1] at h; simp only [] at h
        cases h2 : smallMul cap zi0 yi with
        | none => rw [h2] at h; simp at h
        | some zi =>
          rw [h2] at h; simp only [] at h
          cases h3 : largeAddFrom cap z zi i with
          | none => rw [h3] at h; simp at h
          | some z' =>
            rw [h3] at h; simp only [] at h
            exact ih _ _ _ (largeAddFrom_fits hz h3) h
    · exact ih _ _ _ hz h

theorem longMul_fits {cap : Option Nat} {x y r : Big} (h : longMul cap x y = some r) : Fits cap r := by
  unfold longMul at h
  cases h1 : vecTryFrom cap x with
  | none => rw [h1] at h; simp at h
  | some z0 =>
    rw [h1] at h; simp only [] at h
    have hz0 := vecTryFrom_fits h1
    cases y with
    | nil =>
      simp only [Option.some.injEq] at h
      rw [← h]; exact normalize_capOk hz0
    | cons y0 ys =>
      simp only [] at h
      cases h2 : smallMul cap z0 y0 with
      | none => rw [h2] at h; simp at h
      | some z1 =>
        rw [h2] at h; simp only [] at h
        cases h3 : longMulLoop cap x ys 1 z1 with
        | none => rw [h3] at h; simp at h
        | some z =>
          rw [h3] at h; simp only [Option.some.injEq] at h
          rw [← h]
          exact normalize_capOk (longMulLoop_fits _ _ _ _ (smallMul_fits hz0 h2) h3)

theorem largeMul_fits {cap : Option Nat} {x y r : Big} (hx : Fits cap x)
    (h : largeMul cap x y = some r) : Fits cap r := by
  unfold largeMul at h
  split at h
  · exact smallMul_fits hx h
  · exact longMul_fits h

theorem shlBits_fits {cap : Option Nat} {x r : Big} {n : Nat} (hx : Fits cap x)
    (h : shlBits cap x n = some r) : Fits cap r := by
  unfold shlBits at h
  simp only [] at h
  split at h
  · exact vecTryPush_fits h
  · simp only [Option.some.injEq] at h
    refine fits_of_length_le (Nat.le_of_eq ?_) hx
    rw [← h, shlBitsAux_length]

theorem shlLimbs_fits {cap : Option Nat} {x r : Big} {n : Nat} (hx : Fits cap x)
    (h : shlLimbs cap x n = some r) : Fits cap r := by
  unfold shlLimbs at h
  split at h
  · simp at h
  · rename_i hc
    split at h
    · simp only [Option.some.injEq] at h; rw [← h]; exact hx
    · simp only [Option.some.injEq] at h
      rw [← h]; unfold Fits
      simp only [List.length_append, List.length_replicate]
      simpa using hc

theorem shl_fits {cap : Option Nat} {x r : Big} {n : Nat} (hx : Fits cap x)
    (h : shl cap x n = some r) : Fits cap r := by
  unfold shl at h
  simp only [] at h
  split at h
  · simp at h
  · rename_i x1 h1
    have hf1 : Fits cap x1 := by
      split at h1
      · exact shlBits_fits hx h1
      · simp only [Option.some.injEq] at h1; rw [← h1]; exact hx
    split at h
    · exact shlLimbs_fits hf1 h
    · simp only [Option.some.injEq] at h; rw [← h]; exact hf1

theorem powLargeLoop_fits {cap : Option Nat} {T : PowTables} : ∀ (fuel : Nat) (x : Big) (e : Nat) (x' : Big)
    (e' : Nat), Fits cap x → powLargeLoop cap T fuel x e = some (x', e') → Fits cap x' := by
  intro fuel
  induction fuel with
  | zero =>
    intro x e x' e' hx h
    unfold powLargeLoop at h
    simp only [Option.some.injEq, Prod.mk.injEq] at h
    rw [← h.1]; exact hx
  | succ n ih =>
    intro x e x' e' hx h
    unfold powLargeLoop at h
    split at h
    · cases hm : largeMul cap x T.largePow5 with
      | none => rw [hm] at h; simp at h
      | some y => rw [hm] at h; exact ih _ _ _ _ (largeMul_fits hx hm) h
    · simp only [Option.some.injEq, Prod.mk.injEq] at h
      rw [← h.1]; exact hx

theorem powSmallLoop_fits {cap : Option Nat} : ∀ (fuel : Nat) (x : Big) (e : Nat) (x' : Big)
    (e' : Nat), Fits cap x → powSmallLoop cap fuel x e = some (x', e') → Fits cap x' := by
  intro fuel
  induction fuel with
  | zero =>
    intro x e x' e' hx h
    unfold powSmallLoop at h
    simp only [Option.some.injEq, Prod.mk.injEq] at h
    rw [← h.1]; exact hx
  | succ n ih =>
    intro x e x' e' hx h
    unfold powSmallLoop at h
    split at h
    · cases hm : smallMul cap x (5 ^ 27) with
      | none => rw [hm] at h; simp at h
      | some y => rw [hm] at h; exact ih _ _ _ _ (smallMul_fits hx hm) h
    · simp only [Option.some.injEq, Prod.mk.injEq] at h
      rw [← h.1]; exact hx

theorem pow_fits {cap : Option Nat} {T : PowTables} {x r : Big} {exp : Nat} (hx : Fits cap x)
    (h : pow cap T x exp = some r) : Fits cap r := by
  unfold pow at h
  simp only [] at h
  split at h
  · simp at h
  · rename_i x1 e1 h1
    have hf1 : Fits cap x1 := by
      split at h1
      · simp only [Option.some.injEq, Prod.mk.injEq] at h1; rw [← h1.1]; exact hx
      · exact powLargeLoop_fits _ _ _ _ _ hx h1
    split at h
    · simp at h
    · rename_i x2 e2 h2
      have hf2 := powSmallLoop_fits _ _ _ _ _ hf1 h2
      split at h
      · exact smallMul_fits hf2 h
      · simp only [Option.some.injEq] at h; rw [← h]; exact hf2

theorem bigintPow_fits {cap : Option Nat} {T : PowTables} {x r : Big} {base exp : Nat} (hx : Fits cap x)
    (h : bigintPow cap T x base exp = some r) : Fits cap r := by
  unfold bigintPow at h
  split at h
  · simp at h
  · rename_i x1 h1
    have hf1 : Fits cap x1 := by
      split at h1
      · exact pow_fits hx h1
      · simp only [Option.some.injEq] at h1; rw [← h1]; exact hx
    split at h
    · exact shl_fits hf1 h
    · simp only [Option.some.injEq] at h; rw [← h]; exact hf1

theorem fromU64_fits {cap : Option Nat} (hc : capOk cap 1 = true) (v : Nat) : Fits cap (fromU64 v) := by
  unfold Fits fromU64
  exact capOk_mono (normalize_length [v]) (by simpa using hc)

-- ---------------------------------------------------------------- parse_mantissa

/-- the big integer held by a `parse_mantissa` state (if no `unwrap` failed) fits -/
def PMFits (cap : Option Nat) (s : PM) : Prop := ∀ r, s.result = some r → Fits cap r

theorem pmMulAdd_fits {cap : Option Nat} {r : Option Big} {power value : Nat} {z : Big}
    (hr : ∀ x, r = some x → Fits cap x) (h : pmMulAdd cap r power value = some z) : Fits cap z := by
  unfold pmMulAdd at h
  cases r with
  | none => simp at h
  | some x =>
    simp only [] at h
    cases h1 : smallMul cap x power with
    | none => rw [h1] at h; simp at h
    | some y => rw [h1] at h; exact smallAdd_fits (smallMul_fits (hr x rfl) h1) h

theorem addDigit_fits {cap : Option Nat} {s : PM} (c : UInt8) (h : PMFits cap s) : PMFits cap (s.addDigit c) := by
  unfold PMFits; rw [(addDigit_counter s c).2.2]; exact h

theorem flushMax_fits {cap : Option Nat} {s : PM} (h : PMFits cap s) : PMFits cap (s.flushMax cap) := by
  intro r hr
  unfold PM.flushMax at hr
  exact pmMulAdd_fits h hr

theorem flushEnd_fits {cap : Option Nat} (T : PowTables) {s : PM} (h : PMFits cap s) :
    PMFits cap (s.flushEnd cap T) := by
  intro r hr
  unfold PM.flushEnd at hr
  split at hr
  · exact pmMulAdd_fits h hr
  · exact h r hr

theorem roundUpNonzero_fits {cap : Option Nat} {s s' : PM} {rest : List UInt8} (h : PMFits cap s)
    (he : s.roundUpNonzero cap rest = some s') : PMFits cap s' := by
  unfold PM.roundUpNonzero at he
  split at he
  · simp only [Option.some.injEq] at he
    intro r hr
    rw [← he] at hr
    exact pmMulAdd_fits h hr
  · simp at he

theorem pmLoop_fits (cap : Option Nat) (T : PowTables) (maxDigits : Nat) (ds : List UInt8) (s : PM)
    (h : PMFits cap s) :
    (∀ s', pmLoop cap T maxDigits ds s = .exhausted s' → PMFits cap s') ∧
    (∀ s' rest, pmLoop cap T maxDigits ds s = .full s' rest → PMFits cap s') := by
  induction ds generalizing s with
  | nil =>
    unfold pmLoop
    split
    · refine ⟨fun s' e => by simp at e, fun s' rest e => ?_⟩
      simp only [PMOut.full.injEq] at e
      rw [← e.1]; exact flushEnd_fits T h
    · refine ⟨fun s' e => ?_, fun s' rest e => by simp at e⟩
      simp only [PMOut.exhausted.injEq] at e
      rw [← e]; exact h
  | cons c rest ih =>
    unfold pmLoop
    split
    · refine ⟨fun s' e => by simp at e, fun s' rest e => ?_⟩
      simp only [PMOut.full.injEq] at e
      rw [← e.1]; exact flushEnd_fits T h
    · simp only []
      split
      · refine ⟨fun s' e => by simp at e, fun s' rest e => ?_⟩
        simp only [PMOut.full.injEq] at e
        rw [← e.1]; exact flushEnd_fits T (addDigit_fits c h)
      · split
        · exact ih _ (flushMax_fits (addDigit_fits c h))
        · exact ih _ (addDigit_fits c h)

theorem pmSkipZeros_fits {cap : Option Nat} (frac : List UInt8) (s : PM) (h : PMFits cap s) :
    PMFits cap (pmSkipZeros frac s).1 := by
  induction frac with
  | nil => unfold pmSkipZeros; exact h
  | cons c rest ih =>
    unfold pmSkipZeros
    split
    · exact addDigit_fits c h
    · exact ih

theorem parseMantissaPM_fits (cap : Option Nat) (T : PowTables) (int frac : List UInt8) (maxDigits : Nat) :
    PMFits cap (parseMantissaPM cap T int frac maxDigits) := by
  have h0 : PMFits cap ⟨0, 0, 0, some [], false⟩ := by
    intro r hr; simp only [Option.some.injEq] at hr; rw [← hr]; exact fits_nil cap
  have H1 := pmLoop_fits cap T maxDigits int _ h0
  unfold parseMantissaPM
  simp only []
  cases h1 : pmLoop cap T maxDigits int ⟨0, 0, 0, some [], false⟩ with
  | full s rest =>
    have hs := H1.2 s rest h1
    simp only []
    cases h2 : s.roundUpNonzero cap rest with
    | some s' => exact roundUpNonzero_fits hs h2
    | none =>
      simp only []
      cases h3 : s.roundUpNonzero cap frac with
      | some s' => exact roundUpNonzero_fits hs h3
      | none => exact hs
  | exhausted s =>
    simp only []
    have hs := H1.1 s h1
    have hs1 : PMFits cap (if s.count = 0 then pmSkipZeros frac s else (s, frac)).1 := by
      split
      · exact pmSkipZeros_fits frac s hs
      · exact hs
    have H2 := pmLoop_fits cap T maxDigits (if s.count = 0 then pmSkipZeros frac s else (s, frac)).2 _ hs1
    cases h2 : pmLoop cap T maxDigits (if s.count = 0 then pmSkipZeros frac s else (s, frac)).2
      (if s.count = 0 then pmSkipZeros frac s else (s, frac)).1 with
    | full s2 rest =>
      simp only []
      have hs2 := H2.2 s2 rest h2
      cases h3 : s2.roundUpNonzero cap rest with
      | some s' => exact roundUpNonzero_fits hs2 h3
      | none => exact hs2
    | exhausted s2 =>
      simp only []
      exact flushEnd_fits T (H2.1 s2 h2)

/-- `parse_mantissa` on ARBITRARY bytes: a returned big integer fits the back-end -/
theorem parseMantissa_fits {cap : Option Nat} {T : PowTables} {int frac : List UInt8} {maxDigits : Nat}
    {r : Big} {n : Nat} (h : parseMantissa cap T int frac maxDigits = some (r, n)) : Fits cap r := by
  unfold parseMantissa at h
  simp only [] at h
  split at h
  · simp at h
  · rename_i r' hr
    simp only [Option.some.injEq, Prod.mk.injEq] at h
    rw [← h.1]
    exact parseMantissaPM_fits cap T int frac maxDigits r' hr

end Sites
end MinLex

namespace MinLex
namespace Sites

-- ---------------------------------------------------------------- the slow path as a whole

/-- instrumented `positive_digit_comp`: result and the big integers it produced -/
def positiveDigitCompI (cap : Option Nat) (T : PowTables) (F : FloatC) (bigmant : Big) (exponent : Int) :
    Option (ExtFloat × List Big) :=
  match bigintPow cap T bigmant 10 (exponent % 4294967296).toNat with
  | none => none
  | some bm =>
    let h := hi64 bm
    let exp : Int := (bitLength bm : Int) - 64 + F.exponentBias
    some (round F (roundNearestTieEven (cbTruncatedAbove h.2)) ⟨h.1, exp⟩, [bm])

/-- instrumented `negative_digit_comp`: result and the big integers it produced
    (`theor_digits` from `from_u64`, after `pow(5, …)`, and the two operands of `compare`) -/
def negativeDigitCompI (cap : Option Nat) (T : PowTables) (F : FloatC) (bigmant : Big) (fp : ExtFloat)
    (exponent : Int) : Option (ExtFloat × List Big) :=
  let realExp := exponent
  let b := round F roundDown fp
  let bBits := extendedToFloat F b
  let theor := fbh F bBits
  let theorDigits0 := fromU64 theor.mant
  let binaryExp := theor.exp - realExp
  let halfradixExp := -realExp
  let theor1? := if halfradixExp ≠ 0 then bigintPow cap T theorDigits0 5 (halfradixExp % 4294967296).toNat
                 else some theorDigits0
  match theor1? with
  | none => none
  | some theor1 =>
    let both? : Option (Big × Big) :=
      if binaryExp > 0 then
        match bigintPow cap T theor1 2 (binaryExp % 4294967296).toNat with
        | none => none
        | some t => some (bigmant, t)
      else if binaryExp < 0 then
        match bigintPow cap T bigmant 2 ((-binaryExp) % 4294967296).toNat with
        | none => none
        | some r => some (r, theor1)
      else some (bigmant, theor1)
    match both? with
    | none => none
    | some (realDigits, theorDigits) =>
      let ord := bigCompare realDigits theorDigits
      some (round F (roundNearestTieEven (cbOrdering ord)) fp, [theorDigits0, theor1, realDigits, theorDigits])

/-- instrumented `slow`: result and every big integer produced on the way -/
def slowI (cap : Option Nat) (T : PowTables) (F : FloatC) (num : Number) (fp : ExtFloat)
    (int frac : List UInt8) : Option (ExtFloat × List Big) :=
  let sciExp := scientificExponent num
  match parseMantissa cap T int frac F.maxDigits with
  | none => none
  | some (bigmant, digits) =>
    let exponent := wrapI32 (sciExp + 1 - asI32 digits)
    if exponent ≥ 0 then (positiveDigitCompI cap T F bigmant exponent).map (fun p => (p.1, bigmant :: p.2))
    else (negativeDigitCompI cap T F bigmant fp exponent).map (fun p => (p.1, bigmant :: p.2))

theorem positiveDigitCompI_fst (cap : Option Nat) (T : PowTables) (F : FloatC) (bigmant : Big) (exponent : Int) :
    (positiveDigitCompI cap T F bigmant exponent).map (·.1) = positiveDigitComp cap T F bigmant exponent := by
  unfold positiveDigitCompI positiveDigitComp
  cases bigintPow cap T bigmant 10 (exponent % 4294967296).toNat <;> rfl

theorem negativeDigitCompI_fst (cap : Option Nat) (T : PowTables) (F : FloatC) (bigmant : Big) (fp : ExtFloat)
    (exponent : Int) :
    (negativeDigitCompI cap T F bigmant fp exponent).map (·.1) = negativeDigitComp cap T F bigmant fp exponent := by
  unfold negativeDigitCompI negativeDigitComp
  simp only []
  generalize fromU64 (fbh F (extendedToFloat F (round F roundDown fp))).mant = t0
  generalize (fbh F (extendedToFloat F (round F roundDown fp))).exp - exponent = be
  have key : ∀ o1 : Option Big,
      Option.map (fun x : ExtFloat × List Big => x.1)
        (match o1 with
        | none => none
        | some theor1 =>
          match
            (if be > 0 then
              match bigintPow cap T theor1 2 (be % 4294967296).toNat with
              | none => none
              | some t => some (bigmant, t)
            else if be < 0 then
              match bigintPow cap T bigmant 2 ((-be) % 4294967296).toNat with
              | none => none
              | some r => some (r, theor1)
            else some (bigmant, theor1) : Option (Big × Big)) with
          | none => none
          | some (realDigits, theorDigits) =>
            some (round F (roundNearestTieEven (cbOrdering (bigCompare realDigits theorDigits))) fp,
              [t0, theor1, realDigits, theorDigits])) =
      (match o1 with
        | none => none
        | some theor1 =>
          match
            (if be > 0 then
              match bigintPow cap T theor1 2 (be % 4294967296).toNat with
              | none => none
              | some t => some (bigmant, t)
            else if be < 0 then
              match bigintPow cap T bigmant 2 ((-be) % 4294967296).toNat with
              | none => none
              | some r => some (r, theor1)
            else some (bigmant, theor1) : Option (Big × Big)) with
          | none => none
          | some (realDigits, theorDigits) =>
            some (round F (roundNearestTieEven (cbOrdering (bigCompare realDigits theorDigits))) fp)) := by
    intro o1
    cases o1 with
    | none => rfl
    | some theor1 =>
      simp only []
      generalize (if be > 0 then
              match bigintPow cap T theor1 2 (be % 4294967296).toNat with
              | none => none
              | some t => some (bigmant, t)
            else if be < 0 then
              match bigintPow cap T bigmant 2 ((-be) % 4294967296).toNat with
              | none => none
              | some r => some (r, theor1)
            else some (bigmant, theor1) : Option (Big × Big)) = o2
      cases o2 with
      | none => rfl
      | some p => rfl
  exact key _

/-- the instrumentation does not change the result -/
theorem slowI_fst (cap : Option Nat) (T : PowTables) (F : FloatC) (num : Number) (fp : ExtFloat)
    (int frac : List UInt8) :
    (slowI cap T F num fp int frac).map (·.1) = slow cap T F num fp int frac := by
  unfold slowI slow
  simp only []
  cases parseMantissa cap T int frac F.maxDigits with
  | none => rfl
  | some p =>
    obtain ⟨bigmant, digits⟩ := p
    simp only []
    split
    · rw [← positiveDigitCompI_fst, Option.map_map]; rfl
    · rw [← negativeDigitCompI_fst, Option.map_map]; rfl

theorem positiveDigitCompI_fits {cap : Option Nat} {T : PowTables} {F : FloatC} {bigmant : Big} {exponent : Int}
    {r : ExtFloat} {l : List Big} (hb : Fits cap bigmant)
    (h : positiveDigitCompI cap T F bigmant exponent = some (r, l)) : ∀ x ∈ l, Fits cap x := by
  unfold positiveDigitCompI at h
  cases h1 : bigintPow cap T bigmant 10 (exponent % 4294967296).toNat with
  | none => rw [h1] at h; simp at h
  | some bm =>
    rw [h1] at h
    simp only [Option.some.injEq, Prod.mk.injEq] at h
    rw [← h.2]
    intro x hx
    simp only [List.mem_singleton] at hx
    rw [hx]; exact bigintPow_fits hb h1

theorem negativeDigitCompI_fits {cap : Option Nat} {T : PowTables} {F : FloatC} {bigmant : Big} {fp : ExtFloat}
    {exponent : Int} {r : ExtFloat} {l : List Big} (hc : capOk cap 1 = true) (hb : Fits cap bigmant)
    (h : negativeDigitCompI cap T F bigmant fp exponent = some (r, l)) : ∀ x ∈ l, Fits cap x := by
  unfold negativeDigitCompI at h
  simp only [] at h
  split at h
  · simp at h
  · rename_i theor1 h1
    have hf0 := fromU64_fits hc (fbh F (extendedToFloat F (round F roundDown fp))).mant
    have hf1 : Fits cap theor1 := by
      split at h1
      · exact bigintPow_fits hf0 h1
      · simp only [Option.some.injEq] at h1; rw [← h1]; exact hf0
    split at h
    · simp at h
    · rename_i realDigits theorDigits h2
      simp only [Option.some.injEq, Prod.mk.injEq] at h
      have hboth : Fits cap realDigits ∧ Fits cap theorDigits := by
        split at h2
        · split at h2
          · simp at h2
          · rename_i t ht
            simp only [Option.some.injEq, Prod.mk.injEq] at h2
            rw [← h2.1, ← h2.2]
            exact ⟨hb, bigintPow_fits hf1 ht⟩
        · split at h2
          · split at h2
            · simp at h2
            · rename_i t ht
              simp only [Option.some.injEq, Prod.mk.injEq] at h2
              rw [← h2.1, ← h2.2]
              exact ⟨bigintPow_fits hb ht, hf1⟩
          · simp only [Option.some.injEq, Prod.mk.injEq] at h2
            rw [← h2.1, ← h2.2]
            exact ⟨hb, hf1⟩
      rw [← h.2]
      intro x hx
      simp only [List.mem_cons, List.not_mem_nil, or_false] at hx
      rcases hx with rfl | rfl | rfl | rfl
      · exact hf0
      · exact hf1
      · exact hboth.1
      · exact hboth.2

/-- on ARBITRARY bytes: if the slow path returns a result, every big integer it built on the way
    fits the storage back-end (on the stack back-end: has at most 62 limbs) -/
theorem slowI_fits {cap : Option Nat} {T : PowTables} {F : FloatC} {num : Number} {fp : ExtFloat}
    {int frac : List UInt8} {r : ExtFloat} {l : List Big} (hc : capOk cap 1 = true)
    (h : slowI cap T F num fp int frac = some (r, l)) : l ≠ [] ∧ ∀ x ∈ l, Fits cap x := by
  unfold slowI at h
  simp only [] at h
  cases h1 : parseMantissa cap T int frac F.maxDigits with
  | none => rw [h1] at h; simp at h
  | some p =>
    obtain ⟨bigmant, digits⟩ := p
    rw [h1] at h
    simp only [] at h
    have hb := parseMantissa_fits h1
    have key : ∀ o : Option (ExtFloat × List Big),
        (∀ r' l', o = some (r', l') → ∀ x ∈ l', Fits cap x) →
        o.map (fun p => (p.1, bigmant :: p.2)) = some (r, l) → l ≠ [] ∧ ∀ x ∈ l, Fits cap x := by
      intro o ho he
      cases o with
      | none => simp at he
      | some p =>
        obtain ⟨r', l'⟩ := p
        simp only [Option.map_some, Option.some.injEq, Prod.mk.injEq] at he
        rw [← he.2]
        refine ⟨by simp, ?_⟩
        intro x hx
        rcases List.mem_cons.mp hx with rfl | hx
        · exact hb
        · exact ho r' l' rfl x hx
    split at h
    · exact key _ (fun r' l' e => positiveDigitCompI_fits hb e) h
    · exact key _ (fun r' l' e => negativeDigitCompI_fits hc hb e) h

/-- a successful `slow` is a successful `slowI` -/
theorem slowI_of_slow {cap : Option Nat} {T : PowTables} {F : FloatC} {num : Number} {fp : ExtFloat}
    {int frac : List UInt8} {r : ExtFloat} (h : slow cap T F num fp int frac = some r) :
    ∃ l, slowI cap T F num fp int frac = some (r, l) := by
  rw [← slowI_fst] at h
  cases h1 : slowI cap T F num fp int frac with
  | none => rw [h1] at h; simp at h
  | some p =>
    obtain ⟨r', l⟩ := p
    rw [h1] at h
    simp only [Option.map_some, Option.some.injEq] at h
    exact ⟨l, by rw [← h]⟩

end Sites
end MinLex
