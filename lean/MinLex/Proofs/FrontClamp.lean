/-
  Helpers for C19 (final): the UNCLAMPED exponent of the string front-end, the relation
  `expOf = clampI32 ∘ trueExpOf`, and the theorem that clamping the exponent to `i32` does not change
  the correctly rounded value — as long as the digit strings stay a few hundred bytes below 2^31
  (`clamp_harmless`).  Without that margin the clamp DOES change the result (`clamp_harmful`).
-/
import MinLex.Proofs.Front
import MinLex.Proofs.ParseNumber
import MinLex.Props.RneSpec
namespace MinLex.Front
open MinLex

/-- saturation to the `i32` range -/
def clampI32 (x : Int) : Int := max (min x i32Max) i32Min

theorem clampI32_of_range {x : Int} (h1 : i32Min ≤ x) (h2 : x ≤ i32Max) : clampI32 x = x := by
  unfold clampI32; omega

/-- the exponent digits after the marker and the optional sign -/
def expDigitsTail (rest : List UInt8) : List UInt8 := (consumeDigits (parseSign rest).2).1

/-- the true (unclamped) exponent after a marker: `± ofDigits expDigits` -/
def trueExpTail (rest : List UInt8) : Int :=
  if (parseSign rest).1 then (ofDigits (expDigitsTail rest) : Int)
  else -(ofDigits (expDigitsTail rest) : Int)

/-- the true (unclamped) exponent of the exponent stage: 0 without a marker -/
def trueExpSplit (b2 : List UInt8) : Int :=
  match b2 with
  | 101 :: rest => trueExpTail rest
  | 69 :: rest => trueExpTail rest
  | _ => 0

/-- the true (unclamped) exponent written in the input `b0` (input after the sign) -/
def trueExpOf (b0 : List UInt8) : Int := trueExpSplit (fracSplit (consumeDigits b0).2).2

theorem expTail_clamp (rest : List UInt8) : (expTail rest).1 = clampI32 (trueExpTail rest) := by
  unfold expTail trueExpTail expDigitsTail clampI32
  simp only
  have h0 : (0:Int) ≤ ofDigits (consumeDigits (parseSign rest).2).1 := Int.natCast_nonneg _
  cases (parseSign rest).1
  · rw [parseExponent_neg]
    simp only [Bool.false_eq_true, if_false]
    unfold i32Min i32Max; omega
  · rw [parseExponent_pos]
    simp only [if_true]
    unfold i32Min i32Max; omega

theorem trueExpSplit_none (b2 : List UInt8) (h1 : b2.head? ≠ some 101) (h2 : b2.head? ≠ some 69) :
    trueExpSplit b2 = 0 := by
  unfold trueExpSplit
  split
  · simp at h1
  · simp at h2
  · rfl

theorem eq_cons_of_head {b2 : List UInt8} {m : UInt8} (h : b2.head? = some m) : ∃ rest, b2 = m :: rest := by
  cases b2 with
  | nil => simp at h
  | cons c t =>
    simp only [List.head?_cons, Option.some.injEq] at h
    exact ⟨t, by rw [h]⟩

theorem expSplit_clamp (b2 : List UInt8) : (expSplit b2).1 = clampI32 (trueExpSplit b2) := by
  by_cases h1 : b2.head? = some 101
  · obtain ⟨rest, rfl⟩ := eq_cons_of_head h1
    exact expTail_clamp _
  by_cases h2 : b2.head? = some 69
  · obtain ⟨rest, rfl⟩ := eq_cons_of_head h2
    exact expTail_clamp _
  rw [expSplit_none b2 h1 h2, trueExpSplit_none b2 h1 h2]
  rfl

/-- the exponent handed to the library is the true exponent saturated to `i32` -/
theorem expOf_clamp (b0 : List UInt8) : expOf b0 = clampI32 (trueExpOf b0) := expSplit_clamp _

/-- the true exponent in terms of the input: after a marker `e`/`E`, the digits following the optional
    sign, negated iff the sign is `-` -/
theorem trueExpSplit_marker (m : UInt8) (hm : m = 101 ∨ m = 69) (t : List UInt8) :
    trueExpSplit (m :: t) =
      if (t.head? != some 45) then (ofDigits (consumeDigits (parseSign t).2).1 : Int)
      else -(ofDigits (consumeDigits (parseSign t).2).1 : Int) := by
  have : trueExpSplit (m :: t) = trueExpTail t := by
    rcases hm with rfl | rfl <;> rfl
  rw [this]
  unfold trueExpTail expDigitsTail
  rw [parseSign_fst]

-- ------------------------------------------------------------------ zero value
theorem ofDec_zero_num (e : Int) : (ofDec 0 e).num = 0 := by
  unfold ofDec; split <;> simp

theorem rne_of_num_zero (f : Fmt) {v : Q} (h : v.num = 0) : rne f v = 0 := by
  unfold rne; rw [if_pos h]

/-- a zero digit string has the rounded value `+0` whatever the exponent -/
theorem rne_digitsValue_zero (f : Fmt) {int frac : List UInt8} (h : ofDigits (int ++ frac) = 0) (e : Int) :
    rne f (digitsValue int frac e) = 0 := by
  apply rne_of_num_zero
  unfold digitsValue; rw [h]; exact ofDec_zero_num _

-- ------------------------------------------------------------------ far out of range
theorem infThr_f64 : ofDyadic (2 ^ (Fmt.f64.mbits + 2) - 1) ((2:Int) ^ (Fmt.f64.ebits - 1) - 1 - Fmt.f64.mbits - 1)
    = ⟨(2 ^ 54 - 1) * 2 ^ 970, 1⟩ := by decide +kernel
theorem infThr_f32 : ofDyadic (2 ^ (Fmt.f32.mbits + 2) - 1) ((2:Int) ^ (Fmt.f32.ebits - 1) - 1 - Fmt.f32.mbits - 1)
    = ⟨(2 ^ 25 - 1) * 2 ^ 103, 1⟩ := by decide +kernel
theorem zeroThr_f64 : ofDyadic 1 (Fmt.f64.kmin - 1) = ⟨1, 2 ^ 1075⟩ := by decide +kernel
theorem zeroThr_f32 : ofDyadic 1 (Fmt.f32.kmin - 1) = ⟨1, 2 ^ 150⟩ := by decide +kernel

theorem n309_f64 : (2 ^ 54 - 1) * 2 ^ 970 ≤ 10 ^ 309 := by decide +kernel
theorem n309_f32 : (2 ^ 25 - 1) * 2 ^ 103 ≤ 10 ^ 309 := by decide +kernel
theorem n324_f64 : 2 ^ 1075 ≤ 10 ^ 324 := by decide +kernel
theorem n324_f32 : 2 ^ 150 ≤ 10 ^ 324 := by decide +kernel

set_option exponentiation.threshold 512 in
/-- `N · 10^x` with `N ≥ 1`, `x ≥ 309` rounds to `+∞` (f32 and f64) -/
theorem rne_dec_inf {f : Fmt} (hf : f = Fmt.f32 ∨ f = Fmt.f64) {N : Nat} (hN : 1 ≤ N) {x : Int}
    (hx : 309 ≤ x) : rne f (ofDec N x) = f.infBits := by
  have key : ∀ A : Nat, A ≤ 10 ^ 309 → Q.le ⟨A, 1⟩ (ofDec N x) := by
    intro A hA
    unfold ofDec
    rw [if_pos (by omega)]
    unfold Q.le
    simp only [Nat.mul_one]
    have h1 : 10 ^ 309 ≤ 10 ^ x.toNat := Nat.pow_le_pow_right (by decide) (by omega)
    have h2 : 10 ^ x.toNat ≤ N * 10 ^ x.toNat := Nat.le_mul_of_pos_left _ hN
    omega
  rcases hf with rfl | rfl
  · rw [RneSpec.rne_inf_iff _ (by decide) (ofDec_den_pos _ _), infThr_f32]
    exact key _ n309_f32
  · rw [RneSpec.rne_inf_iff _ (by decide) (ofDec_den_pos _ _), infThr_f64]
    exact key _ n309_f64

/-- `N · 10^x` with `x < 0` and `N · 10^324 ≤ 10^(−x)` rounds to `+0` (f32 and f64) -/
theorem rne_dec_zero {f : Fmt} (hf : f = Fmt.f32 ∨ f = Fmt.f64) {N : Nat} {x : Int} (hx : x < 0)
    (hN : N * 10 ^ 324 ≤ 10 ^ (-x).toNat) : rne f (ofDec N x) = 0 := by
  have key : ∀ T : Nat, T ≤ 10 ^ 324 → Q.le (ofDec N x) ⟨1, T⟩ := by
    intro T hT
    unfold ofDec
    rw [if_neg (by omega)]
    unfold Q.le
    simp only [Nat.one_mul]
    exact Nat.le_trans (Nat.mul_le_mul_left N hT) hN
  rcases hf with rfl | rfl
  · rw [RneSpec.rne_zero_iff _ (by decide) (ofDec_den_pos _ _), zeroThr_f32]
    exact key _ n324_f32
  · rw [RneSpec.rne_zero_iff _ (by decide) (ofDec_den_pos _ _), zeroThr_f64]
    exact key _ n324_f64

set_option exponentiation.threshold 512 in
/-- **Clamping the exponent to `i32` is harmless** for digit strings with
    `int.length ≤ 2^31 − 324` and `frac.length ≤ 2^31 − 1 − 309`: with the true exponent `te` outside
    `i32`, both the true value and the value with the clamped exponent round to `+0` (zero digits, or
    `te < i32::MIN`) or both to `+∞` (`te > i32::MAX`, non-zero digits). -/
theorem clamp_harmless {f : Fmt} (hf : f = Fmt.f32 ∨ f = Fmt.f64) (int frac : List UInt8)
    (hi : ∀ c ∈ int, isDigit c = true) (hfr : ∀ c ∈ frac, isDigit c = true)
    (h1 : int.length + 324 ≤ 2147483648) (h2 : frac.length + 309 ≤ 2147483647) (te : Int) :
    rne f (digitsValue int frac (clampI32 te)) = rne f (digitsValue int frac te) := by
  by_cases hr : i32Min ≤ te ∧ te ≤ i32Max
  · rw [clampI32_of_range hr.1 hr.2]
  by_cases h0 : ofDigits (int ++ frac) = 0
  · rw [rne_digitsValue_zero f h0, rne_digitsValue_zero f h0]
  have hN : 1 ≤ ofDigits (int ++ frac) := Nat.pos_of_ne_zero h0
  unfold digitsValue
  by_cases hbig : i32Max < te
  · have hc : clampI32 te = i32Max := by unfold clampI32; unfold i32Max i32Min at *; omega
    rw [hc, rne_dec_inf hf hN (by unfold i32Max; omega), rne_dec_inf hf hN (by unfold i32Max at hbig; omega)]
  · have hsmall : te < i32Min := by omega
    have hc : clampI32 te = i32Min := by unfold clampI32; unfold i32Max i32Min at *; omega
    have hlt : ofDigits (int ++ frac) < 10 ^ (int.length + frac.length) := by
      have := ParseNum.ofDigits_lt (ds := int ++ frac) (by
        intro c hc
        rcases List.mem_append.1 hc with h | h
        · exact hi c h
        · exact hfr c h)
      rwa [List.length_append] at this
    have key : ∀ e : Int, e ≤ i32Min →
        rne f (ofDec (ofDigits (int ++ frac)) (e - frac.length)) = 0 := by
      intro e he
      unfold i32Min at he
      refine rne_dec_zero hf (by omega) ?_
      have hk : int.length + frac.length + 324 ≤ (-(e - (frac.length : Int))).toNat := by omega
      have h3 : ofDigits (int ++ frac) * 10 ^ 324 ≤ 10 ^ (int.length + frac.length) * 10 ^ 324 :=
        Nat.mul_le_mul_right _ (Nat.le_of_lt hlt)
      rw [← Nat.pow_add] at h3
      exact Nat.le_trans h3 (Nat.pow_le_pow_right (by decide) hk)
    rw [hc, key _ (Int.le_refl _), key _ (Int.le_of_lt hsmall)]

-- ------------------------------------------------------------------ … and harmful without the margin
theorem digitsValue_zeros_one (k : Nat) (e : Int) :
    digitsValue [] (List.replicate k (48 : UInt8) ++ [49]) e = ofDec 1 (e - ((k + 1 : Nat) : Int)) := by
  unfold digitsValue
  have h1 : ofDigits ([] ++ (List.replicate k (48 : UInt8) ++ [49])) = 1 := by
    rw [List.nil_append, ofDigits_append, ofDigits_replicate_zero]
    rfl
  have h2 : (List.replicate k (48 : UInt8) ++ [49]).length = k + 1 := by
    simp only [List.length_append, List.length_replicate, List.length_cons, List.length_nil]
  rw [h1, h2]

theorem zeros_one_digits (k : Nat) : ∀ c ∈ (List.replicate k (48 : UInt8) ++ [49]), isDigit c = true := by
  intro c hc
  rcases List.mem_append.1 hc with h | h
  · rw [(List.mem_replicate.1 h).2]; decide
  · rw [List.mem_singleton.1 h]; decide

theorem rne_1e16 : rne Fmt.f64 (ofDec 1 16) = 0x4341C37937E08000 := by decide +kernel
theorem rne_1e369 : rne Fmt.f64 (ofDec 1 369) = Fmt.f64.infBits := by decide +kernel

/-- the counter-example with the number of zeros kept symbolic (`k + 17 = 2^31 − 1`) -/
theorem clamp_harmful_gen (k : Nat) (hk : k + 17 = 2147483647) :
    (List.replicate k (48 : UInt8) ++ [49]).length < 2147483647 ∧
    (∀ c ∈ (List.replicate k (48 : UInt8) ++ [49]), isDigit c = true) ∧
    rne Fmt.f64 (digitsValue [] (List.replicate k (48 : UInt8) ++ [49]) (clampI32 2147484000)) =
      0x4341C37937E08000 ∧
    rne Fmt.f64 (digitsValue [] (List.replicate k (48 : UInt8) ++ [49]) 2147484000) = Fmt.f64.infBits := by
  refine ⟨?_, zeros_one_digits k, ?_, ?_⟩
  · simp only [List.length_append, List.length_replicate, List.length_cons, List.length_nil]
    omega
  · rw [digitsValue_zeros_one]
    have h1 : clampI32 2147484000 = 2147483647 := by decide
    have h2 : (2147483647 : Int) - ((k + 1 : Nat) : Int) = 16 := by omega
    rw [h1, h2]
    exact rne_1e16
  · rw [digitsValue_zeros_one]
    have h2 : (2147484000 : Int) - ((k + 1 : Nat) : Int) = 369 := by omega
    rw [h2]
    exact rne_1e369

/-- **Without the margin the clamp is NOT harmless.**  Fraction digits `0…01` with 2147483630 zeros
    (a digit string of 2147483631 < 2^31 − 1 bytes, so the pieces are `Valid`) and the true exponent
    `2147484000`: the true value is `10^369` (rounds to `+∞`), the value with the clamped exponent
    `i32::MAX` is `10^16` (finite, bits `0x4341C37937E08000`). -/
theorem clamp_harmful : ∃ k : Nat, k = 2147483630 ∧
    (List.replicate k (48 : UInt8) ++ [49]).length < 2147483647 ∧
    (∀ c ∈ (List.replicate k (48 : UInt8) ++ [49]), isDigit c = true) ∧
    rne Fmt.f64 (digitsValue [] (List.replicate k (48 : UInt8) ++ [49]) (clampI32 2147484000)) =
      0x4341C37937E08000 ∧
    rne Fmt.f64 (digitsValue [] (List.replicate k (48 : UInt8) ++ [49]) 2147484000) = Fmt.f64.infBits :=
  ⟨2147483630, rfl, clamp_harmful_gen 2147483630 (by decide)⟩

end MinLex.Front
