/-
  Helper definitions and lemmas for property C13 (vectors behave like a bounded sequence).
  Everything lives in namespace `MinLex.C13` so that nothing clashes with other proof files.
-/
import MinLex.Model.StackVecLow
import Mathlib.Tactic.Ring
import Mathlib.Tactic.Linarith

namespace MinLex
namespace C13

-- ================================================================ the state machines

/-- operations of the vector state machine (safe API of `StackVec` / `HeapVec`) -/
inductive VOp
  | new
  | tryFrom (s : Big)
  | push (v : Nat)
  | pop
  | extend (s : Big)
  | resize (n v : Nat)
  | normalize
  | addSmall (y : Nat)
  | mulSmall (y : Nat)
  | fromU64 (v : Nat)

/-- One step of the abstract model: new contents and success flag.  A failing
    `tryFrom/push/pop/extend/resize` leaves the contents unchanged; a failing `addSmall/mulSmall`
    has already updated the limbs in place (only the final carry push fails). -/
def vstep (cap : Option Nat) (x : Big) : VOp → Big × Bool
  | .new => ([], true)
  | .tryFrom s =>
    match vecTryFrom cap s with
    | some z => (z, true)
    | none => (x, false)
  | .push v =>
    match vecTryPush cap x v with
    | some z => (z, true)
    | none => (x, false)
  | .pop =>
    match vecPop x with
    | some (_, z) => (z, true)
    | none => (x, false)
  | .extend s =>
    match vecTryExtend cap x s with
    | some z => (z, true)
    | none => (x, false)
  | .resize n v =>
    match vecTryResize cap x n v with
    | some z => (z, true)
    | none => (x, false)
  | .normalize => (normalize x, true)
  | .addSmall y =>
    match smallAdd cap x y with
    | some z => (z, true)
    | none => ((smallAddAux y x).1, false)
  | .mulSmall y =>
    match smallMul cap x y with
    | some z => (z, true)
    | none => ((smallMulAux y 0 x).1, false)
  | .fromU64 v => (fromU64 v, true)

/-- the value returned by `pop` -/
def vpopVal (x : Big) : Option Nat := (vecPop x).map (·.1)

-- ---------------------------------------------------------------- reference machine
/-- `n` elements fit: always for the heap vector, `n ≤ c` for the stack vector -/
def fits : Option Nat → Nat → Prop
  | none, _ => True
  | some c, n => n ≤ c

instance : ∀ c n, Decidable (fits c n)
  | none, _ => isTrue trivial
  | some c, n => inferInstanceAs (Decidable (n ≤ c))

/-- remove the zeros at the END of a list (front recursion; independent of `dropZerosRev`) -/
def stripZ : List Nat → List Nat
  | [] => []
  | x :: xs =>
    match stripZ xs with
    | [] => if x = 0 then [] else [x]
    | r => x :: r

/-- Reference machine on plain lists, written in the most obvious way.  For `addSmall`/`mulSmall`
    the limb arithmetic (`smallAddAux`/`smallMulAux`, whose numeric meaning is `smallAddAux_toNat`
    / `smallMulAux_toNat`) is shared; what is specified here is the SEQUENCE behaviour: the limbs are
    replaced in place and a non-zero carry is appended iff it fits. -/
def rstep (c : Option Nat) (x : List Nat) : VOp → List Nat × Bool
  | .new => ([], true)
  | .tryFrom s => if fits c s.length then (s, true) else (x, false)
  | .push v => if fits c (x.length + 1) then (x ++ [v], true) else (x, false)
  | .pop => if x = [] then (x, false) else (x.take (x.length - 1), true)
  | .extend s => if fits c (x.length + s.length) then (x ++ s, true) else (x, false)
  | .resize n v =>
    if fits c n then (x.take n ++ List.replicate (n - x.length) v, true) else (x, false)
  | .normalize => (stripZ x, true)
  | .addSmall y =>
    let r := smallAddAux y x
    if r.2 = 0 then (r.1, true)
    else if fits c (x.length + 1) then (r.1 ++ [r.2], true) else (r.1, false)
  | .mulSmall y =>
    let r := smallMulAux y 0 x
    if r.2 = 0 then (r.1, true)
    else if fits c (x.length + 1) then (r.1 ++ [r.2], true) else (r.1, false)
  | .fromU64 v => (if v = 0 then [] else [v], true)

/-- contents after a history -/
def vrun (cap : Option Nat) (x : Big) (ops : List VOp) : Big :=
  ops.foldl (fun s op => (vstep cap s op).1) x

def rrun (cap : Option Nat) (x : List Nat) (ops : List VOp) : List Nat :=
  ops.foldl (fun s op => (rstep cap s op).1) x

/-- observable trace: contents and success flag after every step -/
def vtrace (cap : Option Nat) (x : Big) : List VOp → List (Big × Bool)
  | [] => []
  | op :: ops => vstep cap x op :: vtrace cap (vstep cap x op).1 ops

def rtrace (cap : Option Nat) (x : List Nat) : List VOp → List (List Nat × Bool)
  | [] => []
  | op :: ops => rstep cap x op :: rtrace cap (rstep cap x op).1 ops

/-- all scalar / limb arguments of an operation are limbs (`< 2^64`) -/
def VOp.ArgsLt : VOp → Prop
  | .new => True
  | .tryFrom s => AllLt s
  | .push v => v < B
  | .pop => True
  | .extend s => AllLt s
  | .resize _ v => v < B
  | .normalize => True
  | .addSmall y => y < B
  | .mulSmall y => y < B
  | .fromU64 v => v < B

-- ================================================================ basic list facts

theorem capOk_iff (cap : Option Nat) (n : Nat) : capOk cap n = true ↔ fits cap n := by
  cases cap <;> simp [capOk, fits]

theorem smallAddAux_length (c : Nat) (xs : List Nat) : (smallAddAux c xs).1.length = xs.length := by
  induction xs generalizing c with
  | nil => simp [smallAddAux]
  | cons x xs ih =>
    unfold smallAddAux
    split
    · rfl
    · simp [ih]

theorem smallMulAux_length (y c : Nat) (xs : List Nat) :
    (smallMulAux y c xs).1.length = xs.length := by
  induction xs generalizing c with
  | nil => simp [smallMulAux]
  | cons x xs ih => simp [smallMulAux, ih]

theorem toNat_append_single (xs : List Nat) (a : Nat) :
    toNat (xs ++ [a]) = toNat xs + a * B ^ xs.length := by
  induction xs with
  | nil => simp [toNat]
  | cons x xs ih =>
    simp only [List.cons_append, toNat, ih, List.length_cons]
    ring

/-- numeric meaning of the in-place part of `small_add` (no hypothesis on the limbs) -/
theorem smallAddAux_toNat (c : Nat) (xs : List Nat) :
    toNat (smallAddAux c xs).1 + B ^ xs.length * (smallAddAux c xs).2 = toNat xs + c := by
  induction xs generalizing c with
  | nil => simp [smallAddAux, toNat]
  | cons x xs ih =>
    unfold smallAddAux
    split
    · subst_vars; simp
    · have h := ih ((x + c) / B)
      have hd := Nat.div_add_mod (x + c) B
      simp only [toNat, List.length_cons, pow_succ]
      nlinarith

/-- numeric meaning of the in-place part of `small_mul` (no hypothesis on the limbs) -/
theorem smallMulAux_toNat (y c : Nat) (xs : List Nat) :
    toNat (smallMulAux y c xs).1 + B ^ xs.length * (smallMulAux y c xs).2 = toNat xs * y + c := by
  induction xs generalizing c with
  | nil => simp [smallMulAux, toNat]
  | cons x xs ih =>
    have h := ih ((x * y + c) / B)
    have hd := Nat.div_add_mod (x * y + c) B
    simp only [smallMulAux, toNat, List.length_cons, pow_succ]
    nlinarith

-- ---------------------------------------------------------------- normalize = stripZ
theorem dropZerosRev_append_single (l : List Nat) (a : Nat) :
    dropZerosRev (l ++ [a]) =
      if dropZerosRev l = [] then (if a = 0 then [] else [a]) else dropZerosRev l ++ [a] := by
  induction l with
  | nil => simp [dropZerosRev]
  | cons x xs ih =>
    simp only [List.cons_append, dropZerosRev]
    split
    · exact ih
    · simp

theorem normalize_cons (a : Nat) (xs : List Nat) :
    normalize (a :: xs) =
      if normalize xs = [] then (if a = 0 then [] else [a]) else a :: normalize xs := by
  simp only [normalize, List.reverse_cons, dropZerosRev_append_single, List.reverse_eq_nil_iff]
  split
  · split <;> simp
  · simp

theorem normalize_eq_stripZ (x : List Nat) : normalize x = stripZ x := by
  induction x with
  | nil => simp [normalize, dropZerosRev, stripZ]
  | cons a xs ih =>
    rw [normalize_cons, ih]
    simp only [stripZ]
    cases hs : stripZ xs with
    | nil => simp
    | cons b r => simp

theorem dropZerosRev_length_le (l : List Nat) : (dropZerosRev l).length ≤ l.length := by
  induction l with
  | nil => simp [dropZerosRev]
  | cons x xs ih =>
    simp only [dropZerosRev]
    split
    · simp only [List.length_cons]; omega
    · exact Nat.le_refl _

theorem normalize_length_le (x : List Nat) : (normalize x).length ≤ x.length := by
  simpa [normalize] using dropZerosRev_length_le x.reverse

theorem dropZerosRev_sublist (l : List Nat) : ∀ a ∈ dropZerosRev l, a ∈ l := by
  induction l with
  | nil => simp [dropZerosRev]
  | cons x xs ih =>
    simp only [dropZerosRev]
    split
    · intro a ha; exact List.mem_cons_of_mem _ (ih a ha)
    · intro a ha; exact ha

theorem normalize_mem (x : List Nat) : ∀ a ∈ normalize x, a ∈ x := by
  intro a ha
  simp only [normalize, List.mem_reverse] at ha
  simpa using dropZerosRev_sublist _ a ha

theorem fromU64_eq (v : Nat) : fromU64 v = if v = 0 then [] else [v] := by
  simp only [fromU64, normalize, List.reverse_cons, List.reverse_nil, List.nil_append, dropZerosRev]
  split <;> simp

-- ================================================================ (a) vstep = rstep

theorem vecPop_eq (x : Big) :
    vecPop x = if x = [] then none else some (x.getLast?.getD 0, x.take (x.length - 1)) := by
  unfold vecPop
  rcases List.eq_nil_or_concat x with h | ⟨l, a, h⟩
  · subst h; simp
  · subst h; simp [List.dropLast_eq_take]

theorem vstep_eq_rstep (cap : Option Nat) (x : Big) (op : VOp) : vstep cap x op = rstep cap x op := by
  cases op with
  | new => rfl
  | tryFrom s =>
    simp only [vstep, rstep, vecTryFrom, vecTryExtend, List.length_nil, Nat.zero_add, List.nil_append]
    by_cases h : fits cap s.length
    · simp [h, (capOk_iff cap _).2 h]
    · have : capOk cap s.length = false := by
        rw [Bool.eq_false_iff]; exact fun h' => h ((capOk_iff _ _).1 h')
      simp [h, this]
  | push v =>
    simp only [vstep, rstep, vecTryPush]
    by_cases h : fits cap (x.length + 1)
    · simp [h, (capOk_iff cap _).2 h]
    · have : capOk cap (x.length + 1) = false := by
        rw [Bool.eq_false_iff]; exact fun h' => h ((capOk_iff _ _).1 h')
      simp [h, this]
  | pop =>
    simp only [vstep, rstep, vecPop_eq]
    by_cases h : x = [] <;> simp [h]
  | extend s =>
    simp only [vstep, rstep, vecTryExtend]
    by_cases h : fits cap (x.length + s.length)
    · simp [h, (capOk_iff cap _).2 h]
    · have : capOk cap (x.length + s.length) = false := by
        rw [Bool.eq_false_iff]; exact fun h' => h ((capOk_iff _ _).1 h')
      simp [h, this]
  | resize n v =>
    simp only [vstep, rstep, vecTryResize]
    by_cases h : fits cap n
    · simp only [h, (capOk_iff cap _).2 h, if_true]
      by_cases hn : n > x.length
      · simp [hn, List.take_of_length_le (Nat.le_of_lt hn)]
      · have : n - x.length = 0 := by omega
        simp [hn, this]
    · have : capOk cap n = false := by
        rw [Bool.eq_false_iff]; exact fun h' => h ((capOk_iff _ _).1 h')
      simp [h, this]
  | normalize => simp [vstep, rstep, normalize_eq_stripZ]
  | addSmall y =>
    simp only [vstep, rstep, smallAdd, smallAddFrom, List.drop_zero, List.take_zero,
      List.nil_append, vecTryPush, smallAddAux_length]
    by_cases h0 : (smallAddAux y x).2 = 0
    · simp [h0]
    · by_cases h : fits cap (x.length + 1)
      · simp [h0, h, (capOk_iff cap _).2 h]
      · have : capOk cap (x.length + 1) = false := by
          rw [Bool.eq_false_iff]; exact fun h' => h ((capOk_iff _ _).1 h')
        simp [h0, h, this]
  | mulSmall y =>
    simp only [vstep, rstep, smallMul, vecTryPush, smallMulAux_length]
    by_cases h0 : (smallMulAux y 0 x).2 = 0
    · simp [h0]
    · by_cases h : fits cap (x.length + 1)
      · simp [h0, h, (capOk_iff cap _).2 h]
      · have : capOk cap (x.length + 1) = false := by
          rw [Bool.eq_false_iff]; exact fun h' => h ((capOk_iff _ _).1 h')
        simp [h0, h, this]
  | fromU64 v => simp [vstep, rstep, fromU64_eq]

theorem vrun_eq_rrun (cap : Option Nat) (x : Big) (ops : List VOp) :
    vrun cap x ops = rrun cap x ops := by
  induction ops generalizing x with
  | nil => rfl
  | cons op ops ih =>
    simp only [vrun, rrun, List.foldl_cons] at ih ⊢
    rw [vstep_eq_rstep]; exact ih _

theorem vtrace_eq_rtrace (cap : Option Nat) (x : Big) (ops : List VOp) :
    vtrace cap x ops = rtrace cap x ops := by
  induction ops generalizing x with
  | nil => rfl
  | cons op ops ih => simp only [vtrace, rtrace, vstep_eq_rstep, ih]

-- ================================================================ (b) length invariant

theorem rstep_length_le (c : Nat) (hc : 1 ≤ c) (x : List Nat) (op : VOp) (hx : x.length ≤ c) :
    (rstep (some c) x op).1.length ≤ c := by
  cases op with
  | new => simp [rstep]
  | tryFrom s => simp only [rstep, fits]; by_cases h : s.length ≤ c <;> simp [h, hx]
  | push v => simp only [rstep, fits]; by_cases h : x.length + 1 ≤ c <;> simp [h, hx]
  | pop => simp only [rstep]; split <;> simp <;> omega
  | extend s => simp only [rstep, fits]; by_cases h : x.length + s.length ≤ c <;> simp [h, hx]
  | resize n v =>
    simp only [rstep, fits]
    by_cases h : n ≤ c
    · simp only [h, if_true, List.length_append, List.length_take, List.length_replicate]; omega
    · simpa [h] using hx
  | normalize =>
    simp only [rstep, ← normalize_eq_stripZ]
    exact Nat.le_trans (normalize_length_le x) hx
  | addSmall y =>
    simp only [rstep, fits]
    split
    · simpa [smallAddAux_length] using hx
    · by_cases h : x.length + 1 ≤ c
      · simp [h, smallAddAux_length]
      · simp [h, smallAddAux_length, hx]
  | mulSmall y =>
    simp only [rstep, fits]
    split
    · simpa [smallMulAux_length] using hx
    · by_cases h : x.length + 1 ≤ c
      · simp [h, smallMulAux_length]
      · simp [h, smallMulAux_length, hx]
  | fromU64 v => simp only [rstep]; split <;> simp; omega

theorem vstep_length_le (c : Nat) (hc : 1 ≤ c) (x : Big) (op : VOp) (hx : x.length ≤ c) :
    (vstep (some c) x op).1.length ≤ c := by
  rw [vstep_eq_rstep]; exact rstep_length_le c hc x op hx

theorem vrun_length_le (c : Nat) (hc : 1 ≤ c) (x : Big) (ops : List VOp) (hx : x.length ≤ c) :
    (vrun (some c) x ops).length ≤ c := by
  induction ops generalizing x with
  | nil => exact hx
  | cons op ops ih =>
    simp only [vrun, List.foldl_cons] at ih ⊢
    exact ih _ (vstep_length_le c hc x op hx)

-- ================================================================ (d) AllLt preserved

instance (xs : Big) : Decidable (AllLt xs) := by unfold AllLt; infer_instance

theorem allLt_nil : AllLt [] := by simp [AllLt]

theorem allLt_cons {a : Nat} {xs : List Nat} : AllLt (a :: xs) ↔ a < B ∧ AllLt xs := by
  simp [AllLt]

theorem allLt_append {xs ys : List Nat} : AllLt (xs ++ ys) ↔ AllLt xs ∧ AllLt ys := by
  simp only [AllLt, List.mem_append]
  constructor
  · intro h; exact ⟨fun x hx => h x (Or.inl hx), fun x hx => h x (Or.inr hx)⟩
  · rintro ⟨h1, h2⟩ x (hx | hx)
    · exact h1 x hx
    · exact h2 x hx

theorem allLt_take {xs : List Nat} (n : Nat) (h : AllLt xs) : AllLt (xs.take n) :=
  fun x hx => h x (List.mem_of_mem_take hx)

theorem allLt_replicate (n : Nat) {v : Nat} (h : v < B) : AllLt (List.replicate n v) := by
  intro x hx; rw [(List.mem_replicate.1 hx).2]; exact h

theorem B_pos : 0 < B := by unfold B; omega

theorem smallAddAux_allLt (c : Nat) (xs : List Nat) (hc : c < B) (hx : AllLt xs) :
    AllLt (smallAddAux c xs).1 ∧ (smallAddAux c xs).2 < B := by
  induction xs generalizing c with
  | nil => simpa [smallAddAux, allLt_nil] using hc
  | cons x xs ih =>
    obtain ⟨hx0, hxs⟩ := allLt_cons.1 hx
    unfold smallAddAux
    split
    · exact ⟨hx, B_pos⟩
    · have hlt : (x + c) / B < B := by
        have : (x + c) / B ≤ 1 := by
          have : x + c < 2 * B := by omega
          have := (Nat.div_lt_iff_lt_mul B_pos).2 (by omega : x + c < 2 * B)
          omega
        unfold B at *; omega
      have h := ih ((x + c) / B) hlt hxs
      exact ⟨allLt_cons.2 ⟨Nat.mod_lt _ B_pos, h.1⟩, h.2⟩

theorem smallMulAux_allLt (y c : Nat) (xs : List Nat) (hy : y < B) (hc : c < B) (hx : AllLt xs) :
    AllLt (smallMulAux y c xs).1 ∧ (smallMulAux y c xs).2 < B := by
  induction xs generalizing c with
  | nil => simpa [smallMulAux, allLt_nil] using hc
  | cons x xs ih =>
    obtain ⟨hx0, hxs⟩ := allLt_cons.1 hx
    have hlt : (x * y + c) / B < B := by
      rw [Nat.div_lt_iff_lt_mul B_pos]
      have h1 : x * y ≤ (B - 1) * (B - 1) := Nat.mul_le_mul (by omega) (by omega)
      have h2 : (B - 1) * (B - 1) + (B - 1) < B * B := by unfold B; decide
      omega
    have h := ih ((x * y + c) / B) hlt hxs
    simp only [smallMulAux]
    exact ⟨allLt_cons.2 ⟨Nat.mod_lt _ B_pos, h.1⟩, h.2⟩

theorem rstep_allLt (cap : Option Nat) (x : List Nat) (op : VOp) (hx : AllLt x) (ho : op.ArgsLt) :
    AllLt (rstep cap x op).1 := by
  cases op with
  | new => exact allLt_nil
  | tryFrom s => simp only [rstep]; split <;> [exact ho; exact hx]
  | push v =>
    simp only [rstep]; split
    · exact allLt_append.2 ⟨hx, allLt_cons.2 ⟨ho, allLt_nil⟩⟩
    · exact hx
  | pop => simp only [rstep]; split <;> [exact hx; exact allLt_take _ hx]
  | extend s => simp only [rstep]; split <;> [exact allLt_append.2 ⟨hx, ho⟩; exact hx]
  | resize n v =>
    simp only [rstep]; split
    · exact allLt_append.2 ⟨allLt_take _ hx, allLt_replicate _ ho⟩
    · exact hx
  | normalize =>
    simp only [rstep, ← normalize_eq_stripZ]
    exact fun a ha => hx a (normalize_mem x a ha)
  | addSmall y =>
    have h := smallAddAux_allLt y x ho hx
    simp only [rstep]
    split
    · exact h.1
    · split
      · exact allLt_append.2 ⟨h.1, allLt_cons.2 ⟨h.2, allLt_nil⟩⟩
      · exact h.1
  | mulSmall y =>
    have h := smallMulAux_allLt y 0 x ho B_pos hx
    simp only [rstep]
    split
    · exact h.1
    · split
      · exact allLt_append.2 ⟨h.1, allLt_cons.2 ⟨h.2, allLt_nil⟩⟩
      · exact h.1
  | fromU64 v =>
    simp only [rstep]; split
    · exact allLt_nil
    · exact allLt_cons.2 ⟨ho, allLt_nil⟩

theorem vstep_allLt (cap : Option Nat) (x : Big) (op : VOp) (hx : AllLt x) (ho : op.ArgsLt) :
    AllLt (vstep cap x op).1 := by
  rw [vstep_eq_rstep]; exact rstep_allLt cap x op hx ho

theorem vrun_allLt (cap : Option Nat) (x : Big) (ops : List VOp) (hx : AllLt x)
    (ho : ∀ op ∈ ops, op.ArgsLt) : AllLt (vrun cap x ops) := by
  induction ops generalizing x with
  | nil => exact hx
  | cons op ops ih =>
    simp only [vrun, List.foldl_cons] at ih ⊢
    exact ih _ (vstep_allLt cap x op hx (ho op (by simp))) (fun o h => ho o (by simp [h]))

-- ================================================================ low-level model: slices

/-- slots `i .. i+n` of a buffer -/
def slice (buf : Nat → Nat) (i n : Nat) : List Nat := (List.range' i n).map buf

theorem deref_eq_slice (v : LowVec) : v.deref = slice v.buf 0 v.len := by
  simp [LowVec.deref, slice, List.range_eq_range']

@[simp] theorem slice_length (buf : Nat → Nat) (i n : Nat) : (slice buf i n).length = n := by
  simp [slice]

@[simp] theorem slice_zero (buf : Nat → Nat) (i : Nat) : slice buf i 0 = [] := by simp [slice]

theorem slice_succ_left (buf : Nat → Nat) (i n : Nat) :
    slice buf i (n + 1) = buf i :: slice buf (i + 1) n := by
  simp [slice, List.range'_succ]

theorem slice_add (buf : Nat → Nat) (i n m : Nat) :
    slice buf i (n + m) = slice buf i n ++ slice buf (i + n) m := by
  induction n generalizing i with
  | zero => simp
  | succ n ih =>
    rw [show n + 1 + m = (n + m) + 1 by omega, slice_succ_left, slice_succ_left, ih,
      show i + 1 + n = i + (n + 1) by omega]
    rfl

theorem slice_succ_right (buf : Nat → Nat) (i n : Nat) :
    slice buf i (n + 1) = slice buf i n ++ [buf (i + n)] := by
  rw [slice_add, slice_succ_left, slice_zero]

theorem slice_congr {b1 b2 : Nat → Nat} {i n : Nat}
    (h : ∀ j, i ≤ j → j < i + n → b1 j = b2 j) : slice b1 i n = slice b2 i n := by
  unfold slice
  apply List.map_congr_left
  intro j hj
  rw [List.mem_range'_1] at hj
  exact h j hj.1 hj.2

theorem slice_write_out (buf : Nat → Nat) (k x i n : Nat) (h : k < i ∨ i + n ≤ k) :
    slice (LowVec.write buf k x) i n = slice buf i n := by
  apply slice_congr
  intro j h1 h2
  have : j ≠ k := by omega
  simp [LowVec.write, this]

theorem slice_take (buf : Nat → Nat) (i : Nat) {n m : Nat} (h : n ≤ m) :
    (slice buf i m).take n = slice buf i n := by
  obtain ⟨d, rfl⟩ := Nat.exists_eq_add_of_le h
  rw [slice_add, List.take_left' (by simp)]

-- ---------------------------------------------------------------- loops
theorem copyTo_lt (buf : Nat → Nat) (i : Nat) (s : List Nat) (j : Nat) (hj : j < i) :
    LowVec.copyTo buf i s j = buf j := by
  induction s generalizing buf i with
  | nil => rfl
  | cons x xs ih =>
    rw [LowVec.copyTo, ih _ _ (by omega)]
    have : j ≠ i := by omega
    simp [LowVec.write, this]

theorem slice_copyTo (buf : Nat → Nat) (i : Nat) (s : List Nat) :
    slice (LowVec.copyTo buf i s) i s.length = s := by
  induction s generalizing buf i with
  | nil => simp
  | cons x xs ih =>
    rw [List.length_cons, slice_succ_left, LowVec.copyTo, ih, copyTo_lt _ _ _ _ (by omega)]
    simp [LowVec.write]

theorem fill_lt (x : Nat) (buf : Nat → Nat) (i n j : Nat) (hj : j < i) :
    LowVec.fill x buf i n j = buf j := by
  induction n generalizing buf i with
  | zero => rfl
  | succ n ih =>
    rw [LowVec.fill, ih _ _ (by omega)]
    have : j ≠ i := by omega
    simp [LowVec.write, this]

theorem slice_fill (x : Nat) (buf : Nat → Nat) (i n : Nat) :
    slice (LowVec.fill x buf i n) i n = List.replicate n x := by
  induction n generalizing buf i with
  | zero => simp
  | succ n ih =>
    rw [slice_succ_left, LowVec.fill, ih, fill_lt _ _ _ _ _ (by omega), List.replicate_succ]
    simp [LowVec.write]

theorem normalize_append_single (l : List Nat) (a : Nat) :
    normalize (l ++ [a]) = if a = 0 then normalize l else l ++ [a] := by
  simp only [normalize, List.reverse_append, List.reverse_cons, List.reverse_nil, List.nil_append,
    List.singleton_append, dropZerosRev]
  split <;> simp

theorem normLen_le (buf : Nat → Nat) (n : Nat) : LowVec.normLen buf n ≤ n := by
  induction n with
  | zero => simp [LowVec.normLen]
  | succ n ih => simp only [LowVec.normLen]; split <;> omega

theorem slice_normLen (buf : Nat → Nat) (n : Nat) :
    slice buf 0 (LowVec.normLen buf n) = normalize (slice buf 0 n) := by
  induction n with
  | zero => simp [LowVec.normLen, normalize, dropZerosRev]
  | succ n ih =>
    rw [slice_succ_right, normalize_append_single, Nat.zero_add, LowVec.normLen]
    split
    · exact ih
    · rw [slice_succ_right, Nat.zero_add]

theorem addLoop_lt (n : Nat) (buf : Nat → Nat) (i c j : Nat) (hj : j < i) :
    (LowVec.addLoop n buf i c).1 j = buf j := by
  induction n generalizing buf i c with
  | zero => rfl
  | succ n ih =>
    rw [LowVec.addLoop]
    split
    · rfl
    · simp only []
      rw [ih _ _ _ (by omega)]
      have : j ≠ i := by omega
      simp [LowVec.write, this]

theorem addLoop_spec (n : Nat) (buf : Nat → Nat) (i c : Nat) :
    slice (LowVec.addLoop n buf i c).1 i n = (smallAddAux c (slice buf i n)).1 ∧
    (LowVec.addLoop n buf i c).2 = (smallAddAux c (slice buf i n)).2 := by
  induction n generalizing buf i c with
  | zero => simp [LowVec.addLoop, smallAddAux]
  | succ n ih =>
    rw [LowVec.addLoop, slice_succ_left buf, smallAddAux]
    split
    · exact ⟨slice_succ_left buf i n, rfl⟩
    · simp only []
      obtain ⟨h1, h2⟩ := ih (LowVec.write buf i ((buf i + c) % B)) (i + 1) ((buf i + c) / B)
      rw [slice_write_out _ _ _ _ _ (Or.inl (by omega))] at h1 h2
      rw [slice_succ_left, h1, h2, addLoop_lt _ _ _ _ _ (by omega)]
      simp [LowVec.write]

theorem mulLoop_lt (y n : Nat) (buf : Nat → Nat) (i c j : Nat) (hj : j < i) :
    (LowVec.mulLoop y n buf i c).1 j = buf j := by
  induction n generalizing buf i c with
  | zero => rfl
  | succ n ih =>
    rw [LowVec.mulLoop]
    rw [ih _ _ _ (by omega)]
    have : j ≠ i := by omega
    simp [LowVec.write, this]

theorem mulLoop_spec (y n : Nat) (buf : Nat → Nat) (i c : Nat) :
    slice (LowVec.mulLoop y n buf i c).1 i n = (smallMulAux y c (slice buf i n)).1 ∧
    (LowVec.mulLoop y n buf i c).2 = (smallMulAux y c (slice buf i n)).2 := by
  induction n generalizing buf i c with
  | zero => simp [LowVec.mulLoop, smallMulAux]
  | succ n ih =>
    rw [LowVec.mulLoop, slice_succ_left buf, smallMulAux]
    simp only []
    obtain ⟨h1, h2⟩ := ih (LowVec.write buf i ((buf i * y + c) % B)) (i + 1) ((buf i * y + c) / B)
    rw [slice_write_out _ _ _ _ _ (Or.inl (by omega))] at h1 h2
    rw [slice_succ_left, h1, h2, mulLoop_lt _ _ _ _ _ _ (by omega)]
    simp [LowVec.write]

-- ---------------------------------------------------------------- refinement of each operation
@[simp] theorem deref_length (v : LowVec) : v.deref.length = v.len := by simp [LowVec.deref]

theorem deref_new (b : Nat → Nat) : (LowVec.new b).deref = [] := by simp [LowVec.new, LowVec.deref]

theorem deref_pushUnchecked (v : LowVec) (x : Nat) : (v.pushUnchecked x).deref = v.deref ++ [x] := by
  simp only [deref_eq_slice, LowVec.pushUnchecked]
  rw [slice_succ_right, slice_write_out _ _ _ _ _ (Or.inr (by omega))]
  simp [LowVec.write]

theorem tryPush_refines (v : LowVec) (x : Nat) :
    (v.tryPush x).map LowVec.deref = vecTryPush (some 62) v.deref x := by
  simp only [LowVec.tryPush, vecTryPush, capOk, LowVec.CAP, deref_length]
  by_cases h : v.len < 62
  · simp [h, deref_pushUnchecked, Nat.succ_le_of_lt h]
  · simp [h]; omega

theorem pop_refines (v : LowVec) :
    (v.pop).map (fun p => (p.1, p.2.deref)) = vecPop v.deref := by
  simp only [LowVec.pop, LowVec.popUnchecked]
  rcases hlen : v.len with _ | n
  · simp [deref_eq_slice, hlen, vecPop]
  · simp only [deref_eq_slice, hlen, slice_succ_right, vecPop]
    simp

theorem deref_extendUnchecked (v : LowVec) (s : List Nat) :
    (v.extendUnchecked s).deref = v.deref ++ s := by
  simp only [deref_eq_slice, LowVec.extendUnchecked, LowVec.setLen]
  rw [slice_add, Nat.zero_add, slice_copyTo]
  congr 1
  exact slice_congr (fun j _ h => copyTo_lt _ _ _ _ (by omega))

theorem tryExtend_refines (v : LowVec) (s : List Nat) :
    (v.tryExtend s).map LowVec.deref = vecTryExtend (some 62) v.deref s := by
  simp only [LowVec.tryExtend, vecTryExtend, capOk, LowVec.CAP, deref_length]
  by_cases h : v.len + s.length ≤ 62 <;> simp [h, deref_extendUnchecked]

theorem tryFrom_refines (b : Nat → Nat) (s : List Nat) :
    (LowVec.tryFrom b s).map LowVec.deref = vecTryFrom (some 62) s := by
  rw [LowVec.tryFrom, tryExtend_refines, deref_new, vecTryFrom]

theorem deref_resizeUnchecked (v : LowVec) (n x : Nat) :
    (v.resizeUnchecked n x).deref =
      if n > v.deref.length then v.deref ++ List.replicate (n - v.deref.length) x
      else v.deref.take n := by
  simp only [LowVec.resizeUnchecked, deref_length]
  by_cases h : n > v.len
  · obtain ⟨d, rfl⟩ := Nat.exists_eq_add_of_le (Nat.le_of_lt h)
    simp only [h, if_true, deref_eq_slice, Nat.add_sub_cancel_left]
    rw [slice_add, Nat.zero_add, slice_fill]
    congr 1
    exact slice_congr (fun j _ h => fill_lt _ _ _ _ _ (by omega))
  · simp only [h, if_false, deref_eq_slice, LowVec.truncateUnchecked]
    rw [slice_take _ _ (by omega)]

theorem tryResize_refines (v : LowVec) (n x : Nat) :
    (v.tryResize n x).map LowVec.deref = vecTryResize (some 62) v.deref n x := by
  simp only [LowVec.tryResize, vecTryResize, capOk, LowVec.CAP]
  by_cases h : n > 62
  · simp [h]
  · simp only [h, if_false, Option.map_some, deref_resizeUnchecked]
    simp [Nat.le_of_not_gt h]

theorem deref_normalize (v : LowVec) : v.normalize.deref = normalize v.deref := by
  simp only [deref_eq_slice, LowVec.normalize, LowVec.setLen, slice_normLen]

theorem normalize_len_le (v : LowVec) : v.normalize.len ≤ v.len := normLen_le _ _

theorem addSmall_refines (v : LowVec) (y : Nat) :
    ((v.addSmall y).1.deref, (v.addSmall y).2) = vstep (some 62) v.deref (.addSmall y) := by
  obtain ⟨h1, h2⟩ := addLoop_spec v.len v.buf 0 y
  rw [← deref_eq_slice] at h1 h2
  have hd : (⟨(LowVec.addLoop v.len v.buf 0 y).1, v.len⟩ : LowVec).deref = (smallAddAux y v.deref).1 := by
    rw [deref_eq_slice]; exact h1
  have hp := tryPush_refines ⟨(LowVec.addLoop v.len v.buf 0 y).1, v.len⟩ (LowVec.addLoop v.len v.buf 0 y).2
  rw [hd, h2] at hp
  simp only [LowVec.addSmall, vstep, smallAdd, smallAddFrom, List.drop_zero, List.take_zero,
    List.nil_append, h2]
  by_cases hc : (smallAddAux y v.deref).2 = 0
  · simp [hc, hd]
  · simp only [hc, ne_eq, not_false_eq_true, if_true, ← hp]
    cases (LowVec.tryPush ⟨(LowVec.addLoop v.len v.buf 0 y).1, v.len⟩ (smallAddAux y v.deref).2) with
    | none => simp [hd]
    | some w => simp

theorem mulSmall_refines (v : LowVec) (y : Nat) :
    ((v.mulSmall y).1.deref, (v.mulSmall y).2) = vstep (some 62) v.deref (.mulSmall y) := by
  obtain ⟨h1, h2⟩ := mulLoop_spec y v.len v.buf 0 0
  rw [← deref_eq_slice] at h1 h2
  have hd : (⟨(LowVec.mulLoop y v.len v.buf 0 0).1, v.len⟩ : LowVec).deref = (smallMulAux y 0 v.deref).1 := by
    rw [deref_eq_slice]; exact h1
  have hp := tryPush_refines ⟨(LowVec.mulLoop y v.len v.buf 0 0).1, v.len⟩ (LowVec.mulLoop y v.len v.buf 0 0).2
  rw [hd, h2] at hp
  simp only [LowVec.mulSmall, vstep, smallMul, h2]
  by_cases hc : (smallMulAux y 0 v.deref).2 = 0
  · simp [hc, hd]
  · simp only [hc, ne_eq, not_false_eq_true, if_true, ← hp]
    cases (LowVec.tryPush ⟨(LowVec.mulLoop y v.len v.buf 0 0).1, v.len⟩ (smallMulAux y 0 v.deref).2) with
    | none => simp [hd]
    | some w => simp

theorem fromU64_refines (b : Nat → Nat) (x : Nat) :
    (LowVec.fromU64 b x).map LowVec.deref = some (fromU64 x) := by
  have h0 : (⟨b, 0⟩ : LowVec).deref = [] := deref_new b
  simp only [LowVec.fromU64, LowVec.tryPush, LowVec.new, LowVec.CAP, Nat.zero_lt_succ, if_true,
    Option.map_some, deref_normalize, deref_pushUnchecked, h0, List.nil_append, fromU64]

-- ---------------------------------------------------------------- the low-level machine
/-- One step of the low-level machine.  `g` is the garbage found in the fresh stack slot used by
    the constructors `new` / `try_from` / `from_u64`. -/
def lowStep (g : Nat → Nat) (v : LowVec) : VOp → LowVec × Bool
  | .new => (LowVec.new g, true)
  | .tryFrom s =>
    match LowVec.tryFrom g s with
    | some w => (w, true)
    | none => (v, false)
  | .push x =>
    match v.tryPush x with
    | some w => (w, true)
    | none => (v, false)
  | .pop =>
    match v.pop with
    | some (_, w) => (w, true)
    | none => (v, false)
  | .extend s =>
    match v.tryExtend s with
    | some w => (w, true)
    | none => (v, false)
  | .resize n x =>
    match v.tryResize n x with
    | some w => (w, true)
    | none => (v, false)
  | .normalize => (v.normalize, true)
  | .addSmall y => v.addSmall y
  | .mulSmall y => v.mulSmall y
  | .fromU64 x =>
    match LowVec.fromU64 g x with
    | some w => (w, true)
    | none => (v, false)

/-- the value returned by the low-level `pop` -/
def lowPopVal (v : LowVec) : Option Nat := v.pop.map (·.1)

/-- adversarial scrambling: every slot at or beyond `len` is overwritten with garbage `g` -/
def havoc (g : Nat → Nat) (v : LowVec) : LowVec :=
  ⟨fun j => if j < v.len then v.buf j else g j, v.len⟩

theorem deref_havoc (g : Nat → Nat) (v : LowVec) : (havoc g v).deref = v.deref := by
  simp only [deref_eq_slice, havoc]
  exact slice_congr (fun j _ h => by simp at h; simp [h])

theorem lowStep_refines (g : Nat → Nat) (v : LowVec) (op : VOp) :
    ((lowStep g v op).1.deref, (lowStep g v op).2) = vstep (some 62) v.deref op := by
  cases op with
  | new => simp [lowStep, vstep, deref_new]
  | tryFrom s =>
    have h := tryFrom_refines g s
    simp only [lowStep, vstep, ← h]
    cases LowVec.tryFrom g s <;> simp
  | push x =>
    have h := tryPush_refines v x
    simp only [lowStep, vstep, ← h]
    cases v.tryPush x <;> simp
  | pop =>
    have h := pop_refines v
    simp only [lowStep, vstep, ← h]
    cases v.pop <;> simp
  | extend s =>
    have h := tryExtend_refines v s
    simp only [lowStep, vstep, ← h]
    cases v.tryExtend s <;> simp
  | resize n x =>
    have h := tryResize_refines v n x
    simp only [lowStep, vstep, ← h]
    cases v.tryResize n x <;> simp
  | normalize => simp [lowStep, vstep, deref_normalize]
  | addSmall y => exact addSmall_refines v y
  | mulSmall y => exact mulSmall_refines v y
  | fromU64 x =>
    have h := fromU64_refines g x
    simp only [lowStep, vstep]
    cases hf : LowVec.fromU64 g x with
    | none => simp [hf] at h
    | some w => simp [hf] at h; simp [h]

theorem lowPopVal_refines (v : LowVec) : lowPopVal v = vpopVal v.deref := by
  simp only [lowPopVal, vpopVal, ← pop_refines, Option.map_map]
  rfl

/-- run: the garbage stream `g k` supplies the fresh-buffer contents at step `k`; with
    `scramble = true` all slots `≥ len` are additionally overwritten with garbage after every step -/
def lowRun (scramble : Bool) (v : LowVec) : List VOp → (Nat → Nat → Nat) → LowVec
  | [], _ => v
  | op :: ops, g =>
    let w := (lowStep (g 0) v op).1
    lowRun scramble (if scramble then havoc (g 0) w else w) ops (fun k => g (k + 1))

/-- observable trace of a low-level run: visible contents and success flag after every step -/
def lowTrace (scramble : Bool) (v : LowVec) : List VOp → (Nat → Nat → Nat) → List (Big × Bool)
  | [], _ => []
  | op :: ops, g =>
    let r := lowStep (g 0) v op
    let w := if scramble then havoc (g 0) r.1 else r.1
    (w.deref, r.2) :: lowTrace scramble w ops (fun k => g (k + 1))

theorem lowRun_refines (scramble : Bool) (v : LowVec) (ops : List VOp) (g : Nat → Nat → Nat) :
    (lowRun scramble v ops g).deref = vrun (some 62) v.deref ops := by
  induction ops generalizing v g with
  | nil => rfl
  | cons op ops ih =>
    simp only [lowRun, vrun, List.foldl_cons]
    rw [ih]
    have h := lowStep_refines (g 0) v op
    have h1 : (lowStep (g 0) v op).1.deref = (vstep (some 62) v.deref op).1 := by rw [← h]
    cases scramble
    · simp [h1, vrun]
    · simp [deref_havoc, h1, vrun]

theorem lowTrace_refines (scramble : Bool) (v : LowVec) (ops : List VOp) (g : Nat → Nat → Nat) :
    lowTrace scramble v ops g = vtrace (some 62) v.deref ops := by
  induction ops generalizing v g with
  | nil => rfl
  | cons op ops ih =>
    simp only [lowTrace, vtrace]
    have h := lowStep_refines (g 0) v op
    have h1 : (lowStep (g 0) v op).1.deref = (vstep (some 62) v.deref op).1 := by rw [← h]
    have h2 : (lowStep (g 0) v op).2 = (vstep (some 62) v.deref op).2 := by rw [← h]
    rw [ih]
    cases scramble
    · simp only [Bool.false_eq_true, if_false, h1, h2]
    · simp only [if_true, deref_havoc, h1, h2]

-- ================================================================ (e) comparison

theorem allLt_reverse {xs : List Nat} (h : AllLt xs) : AllLt xs.reverse :=
  fun a ha => h a (List.mem_reverse.1 ha)

theorem toNat_lt_pow (x : Big) (h : AllLt x) : toNat x < B ^ x.length := by
  induction x with
  | nil => simp [toNat]
  | cons a xs ih =>
    obtain ⟨ha, hxs⟩ := allLt_cons.1 h
    have h1 : B * (toNat xs + 1) ≤ B * B ^ xs.length := Nat.mul_le_mul_left _ (ih hxs)
    simp only [toNat, List.length_cons, pow_succ]
    nlinarith

theorem compare_add_right (X Y k : Nat) : compare (X + k) (Y + k) = compare X Y := by
  rcases Nat.lt_trichotomy X Y with h | h | h
  · rw [Nat.compare_eq_lt.2 h, Nat.compare_eq_lt.2 (by omega)]
  · subst h; simp
  · rw [Nat.compare_eq_gt.2 h, Nat.compare_eq_gt.2 (by omega)]

/-- most-significant-first comparison of equally long limb lists is numeric comparison -/
theorem cmpRev_eq_compare (xs ys : List Nat) (hl : xs.length = ys.length)
    (hx : AllLt xs) (hy : AllLt ys) :
    cmpRev xs ys = compare (toNat xs.reverse) (toNat ys.reverse) := by
  induction xs generalizing ys with
  | nil =>
    cases ys with
    | nil => simp [cmpRev, toNat]
    | cons b ys => simp at hl
  | cons a xs ih =>
    cases ys with
    | nil => simp at hl
    | cons b ys =>
      obtain ⟨ha, hxs⟩ := allLt_cons.1 hx
      obtain ⟨hb, hys⟩ := allLt_cons.1 hy
      have hl' : xs.length = ys.length := by simpa using hl
      have hX := toNat_lt_pow xs.reverse (allLt_reverse hxs)
      have hY := toNat_lt_pow ys.reverse (allLt_reverse hys)
      rw [List.length_reverse] at hX hY
      rw [← hl'] at hY
      simp only [cmpRev, List.reverse_cons, toNat_append_single, List.length_reverse, ← hl']
      have ihh := ih ys hl' hxs hys
      clear ih
      generalize toNat xs.reverse = X at *
      generalize toNat ys.reverse = Y at *
      generalize B ^ xs.length = P at *
      by_cases h1 : a < b
      · have : (a + 1) * P ≤ b * P := Nat.mul_le_mul_right _ h1
        rw [if_pos h1, Nat.compare_eq_lt.2 (by nlinarith)]
      · by_cases h2 : a > b
        · have : (b + 1) * P ≤ a * P := Nat.mul_le_mul_right _ h2
          rw [if_neg h1, if_pos h2, Nat.compare_eq_gt.2 (by nlinarith)]
        · have : a = b := by omega
          subst this
          rw [if_neg h1, if_neg h2, compare_add_right]
          exact ihh

theorem last_ne_zero_of_normalized (l : List Nat) (a : Nat) (h : isNormalized (l ++ [a]) = true) :
    a ≠ 0 := by
  rintro rfl
  simp [isNormalized] at h

theorem pow_le_toNat_of_normalized (x : Big) (hne : x ≠ []) (h : isNormalized x = true) :
    B ^ (x.length - 1) ≤ toNat x := by
  rcases List.eq_nil_or_concat x with h0 | ⟨l, a, h0⟩
  · exact absurd h0 hne
  · rw [List.concat_eq_append] at h0
    subst h0
    have ha := last_ne_zero_of_normalized l a h
    rw [toNat_append_single]
    simp only [List.length_append, List.length_cons, List.length_nil, Nat.add_sub_cancel]
    have : 1 * B ^ l.length ≤ a * B ^ l.length := Nat.mul_le_mul_right _ (by omega)
    omega

theorem toNat_lt_of_length_lt (x y : Big) (hx : AllLt x) (ny : isNormalized y = true)
    (hl : x.length < y.length) : toNat x < toNat y := by
  have h1 := toNat_lt_pow x hx
  have h2 : B ^ x.length ≤ B ^ (y.length - 1) := Nat.pow_le_pow_right B_pos (by omega)
  have h3 := pow_le_toNat_of_normalized y (by rintro rfl; simp at hl) ny
  omega

theorem bigCompare_eq_compare (x y : Big) (hx : AllLt x) (hy : AllLt y)
    (nx : isNormalized x = true) (ny : isNormalized y = true) :
    bigCompare x y = compare (toNat x) (toNat y) := by
  unfold bigCompare
  by_cases h1 : x.length < y.length
  · rw [if_pos h1, Nat.compare_eq_lt.2 (toNat_lt_of_length_lt x y hx ny h1)]
  · by_cases h2 : x.length > y.length
    · rw [if_neg h1, if_pos h2, Nat.compare_eq_gt.2 (toNat_lt_of_length_lt y x hy nx h2)]
    · rw [if_neg h1, if_neg h2,
        cmpRev_eq_compare _ _ (by simp; omega) (allLt_reverse hx) (allLt_reverse hy)]
      simp

theorem toNat_inj_of_length (x y : Big) (hl : x.length = y.length) (hx : AllLt x) (hy : AllLt y)
    (h : toNat x = toNat y) : x = y := by
  induction x generalizing y with
  | nil =>
    cases y with
    | nil => rfl
    | cons b ys => simp at hl
  | cons a xs ih =>
    cases y with
    | nil => simp at hl
    | cons b ys =>
      obtain ⟨ha, hxs⟩ := allLt_cons.1 hx
      obtain ⟨hb, hys⟩ := allLt_cons.1 hy
      simp only [toNat] at h
      have h' : a = b ∧ toNat xs = toNat ys := by
        generalize toNat xs = X at *
        generalize toNat ys = Y at *
        unfold B at *
        omega
      rw [h'.1, ih ys (by simpa using hl) hxs hys h'.2]

/-- for normalised limb lists the numeric value determines the list -/
theorem toNat_inj (x y : Big) (hx : AllLt x) (hy : AllLt y)
    (nx : isNormalized x = true) (ny : isNormalized y = true)
    (h : toNat x = toNat y) : x = y := by
  have hl : x.length = y.length := by
    rcases Nat.lt_trichotomy x.length y.length with h1 | h1 | h1
    · have := toNat_lt_of_length_lt x y hx ny h1; omega
    · exact h1
    · have := toNat_lt_of_length_lt y x hy nx h1; omega
  exact toNat_inj_of_length x y hl hx hy h

end C13
end MinLex
