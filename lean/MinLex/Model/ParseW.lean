/-
  `parse_float` of a build with `w`-bit limbs: everything before the big-integer stage is 64-bit
  integer / float code that does not depend on the limb type, so only the `slow` call differs.
-/
import MinLex.Model.Env
import MinLex.Model.BigintW
import MinLex.Gen.Tables32
namespace MinLex
namespace W

/-- the power tables of a `w`-bit-limb build: the 32-bit variant of `LARGE_POW5` replaces the
    64-bit one (same step, 135); the `u64` tables of small powers are shared -/
def genPowW (w : Nat) (compact : Bool) : PowTables :=
  if w = 32 then { genPow compact with largePow5 := Gen.largePow5W32 } else genPow compact

/-- `parse_float::<F>(integer, fraction, exponent)`, release semantics, `w`-bit limbs -/
def parseFloat (w : Nat) (E : Env) (F : FloatC) (int frac : List UInt8) (e : Int) : Outcome :=
  let num := parseNumber int frac e
  match tryFastPath F (E.powFastPath F) (intPow10 E.cfg.compact E.pow.smallIntPow10) num with
  | some v => .ok v
  | none =>
    match moderatePath E F num with
    | none => .panic
    | some fp =>
      if fp.exp < 0 then
        match slow w (capW w E.cfg.alloc) (genPowW w E.cfg.compact) F num
                ⟨fp.mant, wrapI32 (fp.exp - F.invalidFp)⟩ int frac with
        | none => .panic
        | some fp' => .ok (extendedToFloat F fp')
      else .ok (extendedToFloat F fp)

end W
end MinLex
