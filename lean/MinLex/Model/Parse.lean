/-
  Model of src/parse.rs and src/number.rs.
-/
import MinLex.Model.Lemire
import MinLex.Model.Bellerophon
import MinLex.Model.Slow
namespace MinLex

-- ---------------------------------------------------------------- IEEE operations of the fast path
/-- `u64 as f32/f64`: exact value, then round to nearest even (hardware + rustc, trusted). -/
def floatFromU64 (F : FloatC) (u : Nat) : Nat := rne F.fmt ⟨u, 1⟩

/-- product of two dyadics as a rational -/
def mulQ (a b : Nat × Int) : Q := ofDyadic (a.1 * b.1) (a.2 + b.2)

/-- quotient of two dyadics as a rational (`b.1 ≠ 0`) -/
def divQ (a b : Nat × Int) : Q :=
  let j := a.2 - b.2
  if j ≥ 0 then ⟨a.1 * 2^j.toNat, b.1⟩ else ⟨a.1, b.1 * 2^(-j).toNat⟩

/-- IEEE `*` on finite non-negative floats (bit patterns) -/
def fmul (F : FloatC) (a b : Nat) : Nat := rne F.fmt (mulQ (decode F.fmt a) (decode F.fmt b))

/-- IEEE `/` on finite non-negative floats, non-zero divisor.  A zero divisor (never produced by
    the guarded table look-ups, see C08 sites S1/S2) is mapped to +infinity. -/
def fdiv (F : FloatC) (a b : Nat) : Nat :=
  if (decode F.fmt b).1 = 0 then F.fmt.infBits else rne F.fmt (divQ (decode F.fmt a) (decode F.fmt b))

-- ---------------------------------------------------------------- number.rs
def isFastPath (F : FloatC) (n : Number) : Bool :=
  decide (F.minExponentFastPath ≤ n.exponent) && decide (n.exponent ≤ F.maxExponentDisguisedFastPath)
    && decide (n.mantissa ≤ F.maxMantissaFastPath) && !n.manyDigits

/-- `Number::try_fast_path::<F>()`; `pw k` = bit pattern of `F::pow_fast_path(k)`,
    `ip k` = `int_pow_fast_path(k, Ten)`. -/
def tryFastPath (F : FloatC) (pw : Nat → Nat) (ip : Nat → Nat) (n : Number) : Option Nat :=
  if isFastPath F n then
    let maxExponent := F.maxExponentFastPath
    if n.exponent ≤ maxExponent then
      let value := floatFromU64 F n.mantissa
      if n.exponent < 0 then some (fdiv F value (pw (-n.exponent).toNat))
      else some (fmul F value (pw n.exponent.toNat))
    else
      let shift := n.exponent - maxExponent
      let intPower := ip shift.toNat
      let mantissa := n.mantissa * intPower
      if mantissa ≥ u64Mod then none
      else if mantissa > F.maxMantissaFastPath then none
      else some (fmul F (floatFromU64 F mantissa) (pw maxExponent.toNat))
  else none

-- ---------------------------------------------------------------- parse.rs
/-- accumulate digits with wrapping arithmetic (`parse_number_fast`) -/
def accWrap (m : Nat) (ds : List UInt8) : Nat :=
  ds.foldl (fun acc c => ((acc * 10) % u64Mod + digitOf c) % u64Mod) m

/-- `parse_number_fast` -/
def parseNumberFast (int frac : List UInt8) (e : Int) : Option Number :=
  let m := accWrap (accWrap 0 int) frac
  if int.length + frac.length ≤ 19 then
    some ⟨satI32 (e - asI32 frac.length), m, false⟩
  else none

/-- a checked build traps in `parse_number_fast` (`c - b'0'` underflow) -/
def parseNumberFastTraps (int frac : List UInt8) : Bool := (int ++ frac).any digitTraps

/-- non-wrapping accumulation step `mantissa * 10 + digit` (wraps in release, traps if checked) -/
def accStep (m : Nat) (c : UInt8) : Nat × Bool :=
  let v1 := m * 10
  let v2 := v1 % u64Mod + digitOf c
  (v2 % u64Mod, digitTraps c || decide (v1 ≥ u64Mod) || decide (v2 ≥ u64Mod))

/-- `into_i32` -/
def intoI32 (n : Nat) : Int := if (n : Int) > i32Max then i32Max else n

/-- result of the slow `parse_number` body: number and trap flag -/
structure PN where
  num : Number
  trap : Bool

/-- the `while let Some(&c) = integer.next()` loop -/
def pnIntLoop (e : Int) : List UInt8 → Nat → Nat → Bool → Sum PN (Nat × Nat × Bool)
  | [], count, m, tr => .inr (count, m, tr)
  | c :: rest, count, m, tr =>
    if count + 1 = 20 then
      .inl ⟨⟨satI32 (e + intoI32 (1 + rest.length)), m, true⟩, tr⟩
    else
      let s := accStep m c
      pnIntLoop e rest (count + 1) s.1 (tr || s.2)

/-- "skip leading fraction zeros": returns (fraction_count, count, mantissa, trap, rest) -/
def pnSkipZeros : List UInt8 → Nat → Nat → Bool → Nat × Nat × Nat × Bool × List UInt8
  | [], fc, m, tr => (fc, 0, m, tr, [])
  | c :: rest, fc, m, tr =>
    if c != 48 then
      let s := accStep m c
      (fc + 1, 1, s.1, tr || s.2, rest)
    else pnSkipZeros rest (fc + 1) m tr

/-- the `for c in fraction` loop -/
def pnFracLoop (e : Int) : List UInt8 → Nat → Nat → Nat → Bool → PN
  | [], fc, _count, m, tr => ⟨⟨satI32 (e - asI32 fc), m, false⟩, tr⟩
  | c :: rest, fc, count, m, tr =>
    if count + 1 = 20 then
      ⟨⟨satI32 (e - (asI32 (fc + 1) - 1)), m, true⟩, tr⟩
    else
      let s := accStep m c
      pnFracLoop e rest (fc + 1) (count + 1) s.1 (tr || s.2)

def parseNumberSlow (int frac : List UInt8) (e : Int) : PN :=
  match pnIntLoop e int 0 0 false with
  | .inl r => r
  | .inr (count, m, tr) =>
    if count = 0 then
      let (fc, count1, m1, tr1, rest) := pnSkipZeros frac 0 m tr
      pnFracLoop e rest fc count1 m1 tr1
    else pnFracLoop e frac 0 count m tr

/-- `parse_number` -/
def parseNumber (int frac : List UInt8) (e : Int) : Number :=
  match parseNumberFast int frac e with
  | some n => n
  | none => (parseNumberSlow int frac e).num

def parseNumberTraps (int frac : List UInt8) (e : Int) : Bool :=
  parseNumberFastTraps int frac ||
  (match parseNumberFast int frac e with
   | some _ => false
   | none => (parseNumberSlow int frac e).trap)

/-- everything `parse_float` needs besides the input -/
structure Env where
  cfg : Cfg
  lem : LemireTables
  bel : BelTables
  pow : PowTables
  /-- bit pattern of `F::pow_fast_path(k)` in this configuration -/
  powFastPath : FloatC → Nat → Nat

def Env.cap (E : Env) : Option Nat := if E.cfg.alloc then none else some 62

/-- `parse::moderate_path::<F>(num)` -/
def moderatePath (E : Env) (F : FloatC) (num : Number) : Option ExtFloat :=
  if E.cfg.compact then bellerophon E.bel F num else lemire E.lem F num

inductive Outcome where
  | ok (bits : Nat)
  | panic
deriving Repr, DecidableEq, BEq

/-- `parse_float::<F>(integer, fraction, exponent)`, release semantics -/
def parseFloat (E : Env) (F : FloatC) (int frac : List UInt8) (e : Int) : Outcome :=
  let num := parseNumber int frac e
  match tryFastPath F (E.powFastPath F) (intPow10 E.cfg.compact E.pow.smallIntPow10) num with
  | some v => .ok v
  | none =>
    match moderatePath E F num with
    | none => .panic
    | some fp =>
      if fp.exp < 0 then
        match slow E.cap E.pow F num ⟨fp.mant, wrapI32 (fp.exp - F.invalidFp)⟩ int frac with
        | none => .panic
        | some fp' => .ok (extendedToFloat F fp')
      else .ok (extendedToFloat F fp)

end MinLex

namespace MinLex

/-- non-wrapping `scientific_exponent` leaves the i32 range (a checked build traps) -/
def sciTraps (num : Number) : Bool :=
  let digits := (Nat.toDigits 10 num.mantissa).length
  !inI32 (num.exponent + (digits - 1 : Nat))

/-- A build with debug assertions and overflow checks would panic somewhere in
    `parse_float::<F>(int, frac, e)` (over-approximated only at the places listed here:
    digit arithmetic, `mantissa + 1`, `w <<= 64`, the slow path's debug assertions,
    `f32::from_bits`). -/
def parseFloatTraps (E : Env) (F : FloatC) (int frac : List UInt8) (e : Int) : Bool :=
  parseNumberTraps int frac e ||
  (let num := parseNumber int frac e
   match tryFastPath F (E.powFastPath F) (intPow10 E.cfg.compact E.pow.smallIntPow10) num with
   | some _ => false
   | none =>
     (if E.cfg.compact then false else lemireTraps E.lem F num) ||
     (match moderatePath E F num with
      | none => false
      | some fp =>
        if fp.exp < 0 then
          let fp1 : ExtFloat := ⟨fp.mant, wrapI32 (fp.exp - F.invalidFp)⟩
          let pm := parseMantissaPM E.cap E.pow int frac F.maxDigits
          let exponent := scientificExponent num + 1 - asI32 pm.count
          decide (fp1.mant < 9223372036854775808) || sciTraps num || pm.trap || !inI32 exponent ||
          (exponent < 0 && roundTraps F fp1) ||
          (match slow E.cap E.pow F num fp1 int frac with
           | none => false
           | some fp' => extendedToFloatTraps F fp')
        else extendedToFloatTraps F fp))

end MinLex
