/-
  Low-level model of `bigint::shl_limbs` on the stack vector (src/bigint.rs):

      if n + x.len() > x.capacity() { None }
      else if !x.is_empty() {
          let len = n + x.len();
          /* raw-pointer block: */ {
              let src = x.as_ptr();
              let dst = x.as_mut_ptr().add(n);
              ptr::copy(src, dst, x.len());          // overlapping move (memmove)
              ptr::write_bytes(x.as_mut_ptr(), 0, n);
              x.set_len(len);
          }
          Some(())
      } else { Some(()) }

  on the `LowVec` of `MinLex.Model.StackVecLow` (62 slots whose initial contents are arbitrary).
  Every raw access is logged (`Access.read i` / `Access.write i`, in program order), so that "all
  touched slots are `< 62`", "only slots `< len` are read" and "every slot `< n + len` is written
  before `set_len`" are statements about the log (Props/C08), not modelling decisions.

  `ptr::copy` has the documented semantics of `memmove`: the result is as if the source range were
  first copied to a temporary.  `moveBack` is the element loop an implementation uses when
  `dst > src` (highest index first); `moveFwd` is the loop that would be WRONG here.
-/
import MinLex.Model.StackVecLow
namespace MinLex
namespace LowVec

inductive Access where
  | read (i : Nat)
  | write (i : Nat)
deriving Repr, DecidableEq

/-- index of the slot an access touches -/
def Access.slot : Access → Nat
  | .read i => i
  | .write i => i

/-- read `count` consecutive slots starting at `i` -/
def readLog (buf : Nat → Nat) : Nat → Nat → List Nat × List Access
  | _, 0 => ([], [])
  | i, k + 1 =>
    let r := readLog buf (i + 1) k
    (buf i :: r.1, .read i :: r.2)

/-- write the given limbs to consecutive slots starting at `i` -/
def writeLog : (Nat → Nat) → Nat → List Nat → (Nat → Nat) × List Access
  | buf, _, [] => (buf, [])
  | buf, i, x :: xs =>
    let r := writeLog (write buf i x) (i + 1) xs
    (r.1, .write i :: r.2)

/-- `ptr::copy(base.add(src), base.add(dst), count)`: as if through a temporary -/
def ptrCopyLog (buf : Nat → Nat) (src dst count : Nat) : (Nat → Nat) × List Access :=
  let r := readLog buf src count
  let w := writeLog buf dst r.1
  (w.1, r.2 ++ w.2)

/-- `ptr::write_bytes(base.add(i), 0, count)` on limbs: `count` zero limbs -/
def zeroLog : (Nat → Nat) → Nat → Nat → (Nat → Nat) × List Access
  | buf, _, 0 => (buf, [])
  | buf, i, k + 1 =>
    let r := zeroLog (write buf i 0) (i + 1) k
    (r.1, .write i :: r.2)

/-- `bigint::shl_limbs(x, n)` with its access log, for a buffer of `capacity` slots (62 for the stack
    vector; `Vec::capacity()` for the heap vector); `none` = `None` (nothing was touched) -/
def shlLimbsLogCap (capacity : Nat) (v : LowVec) (n : Nat) : Option LowVec × List Access :=
  if n + v.len > capacity then (none, [])
  else if v.len ≠ 0 then
    let len := n + v.len
    let c := ptrCopyLog v.buf 0 n v.len
    let z := zeroLog c.1 0 n
    (some ((⟨z.1, v.len⟩ : LowVec).setLen len), c.2 ++ z.2)
  else (some v, [])

/-- on the stack vector -/
def shlLimbsLog (v : LowVec) (n : Nat) : Option LowVec × List Access := shlLimbsLogCap CAP v n

/-- `bigint::shl_limbs` on the stack vector -/
def shlLimbs (v : LowVec) (n : Nat) : Option LowVec := (shlLimbsLog v n).1

/-- the element loop of `memmove` for `dst = src + n > src`: highest index first -/
def moveBack (buf : Nat → Nat) (n : Nat) : Nat → (Nat → Nat)
  | 0 => buf
  | k + 1 => moveBack (write buf (n + k) (buf k)) n k

/-- the element loop that is only correct for `dst < src` (lowest index first); `moveFwd buf n i k`
    copies slots `i … i+k-1` to `n+i … n+i+k-1` -/
def moveFwd (buf : Nat → Nat) (n : Nat) : Nat → Nat → (Nat → Nat)
  | _, 0 => buf
  | i, k + 1 => moveFwd (write buf (n + i) (buf i)) n (i + 1) k

end LowVec
end MinLex
