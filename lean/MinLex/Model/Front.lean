/-
  Model of the shipped string front-end: examples/simple.rs (variant `simple`, also
  etc/correctness/test-parse-golang/main.rs) and fuzz/fuzz_targets/parse.rs (variant `special`,
  also tests/integration_tests.rs), which additionally accepts nan / inf / infinity.
-/
import MinLex.Model.Parse
namespace MinLex.Front
open MinLex

/-- `parse_sign` → (is_positive, rest) -/
def parseSign : List UInt8 → Bool × List UInt8
  | 43 :: rest => (true, rest)
  | 45 :: rest => (false, rest)
  | bs => (true, bs)

/-- `consume_digits` → (digits, rest) -/
def consumeDigits : List UInt8 → List UInt8 × List UInt8
  | [] => ([], [])
  | c :: rest =>
    if isDigit c then
      let r := consumeDigits rest
      (c :: r.1, r.2)
    else ([], c :: rest)

def ltrimZero : List UInt8 → List UInt8
  | [] => []
  | c :: rest => if c = 48 then ltrimZero rest else c :: rest

def rtrimZero (bs : List UInt8) : List UInt8 := (ltrimZero bs.reverse).reverse

/-- `parse_exponent(digits, is_positive)`: checked i32 arithmetic, saturating on overflow -/
def parseExponent (isPositive : Bool) : List UInt8 → Int → Int
  | [], v => v
  | c :: rest, v =>
    let d : Int := digitVal c
    let v1 := v * 10
    if isPositive then
      if v1 > i32Max ∨ v1 + d > i32Max then i32Max else parseExponent isPositive rest (v1 + d)
    else
      if v1 < i32Min ∨ v1 - d < i32Min then i32Min else parseExponent isPositive rest (v1 - d)

/-- `case_insensitive_starts_with(x, y)` -/
def ciStartsWith : List UInt8 → List UInt8 → Bool
  | _, [] => true
  | [], _ :: _ => false
  | x :: xs, y :: ys =>
    let xor := x ^^^ y
    if xor != 0 && xor != 32 then false else ciStartsWith xs ys

def sNaN : List UInt8 := [78, 97, 78]
def sInfinity : List UInt8 := [73, 110, 102, 105, 110, 105, 116, 121]
def sInf : List UInt8 := [105, 110, 102]

inductive Res where
  | ok (bits : Nat) (restLen : Nat)
  | panic
deriving Repr, DecidableEq, BEq

def withSign (F : FloatC) (isPositive : Bool) (bits : Nat) : Nat :=
  if isPositive then bits else bits + F.signMask

/-- the common tail: integer / fraction / exponent, trimming, library call -/
def parseBody (E : Env) (F : FloatC) (special : Bool) (startLen : Nat) (isPositive : Bool)
    (bytes : List UInt8) : Res :=
  let (intS, b1) := consumeDigits bytes
  let (fracS, b2) := match b1 with
    | 46 :: rest => consumeDigits rest
    | _ => ([], b1)
  let (exponent, b3) := match b2 with
    | 101 :: rest =>
      let (pos, r1) := parseSign rest
      let (ds, r2) := consumeDigits r1
      (parseExponent pos ds 0, r2)
    | 69 :: rest =>
      let (pos, r1) := parseSign rest
      let (ds, r2) := consumeDigits r1
      (parseExponent pos ds 0, r2)
    | _ => ((0 : Int), b2)
  if special && b3.length == startLen then .ok 0 b3.length
  else
    match parseFloat E F (ltrimZero intS) (rtrimZero fracS) exponent with
    | .panic => .panic
    | .ok bits => .ok (withSign F isPositive bits) b3.length

/-- `parse_float::<F>(bytes) -> (F, &[u8])` of the front-end; `special` selects the fuzz/test copy -/
def parse (E : Env) (F : FloatC) (special : Bool) (bytes : List UInt8) : Res :=
  let (isPositive, b0) := parseSign bytes
  if special && ciStartsWith b0 sNaN then
    .ok (withSign F isPositive (F.exponentMask ||| (F.hiddenBitMask >>> 1))) (b0.length - 3)
  else if special && ciStartsWith b0 sInfinity then
    .ok (withSign F isPositive F.exponentMask) (b0.length - 8)
  else if special && ciStartsWith b0 sInf then
    .ok (withSign F isPositive F.exponentMask) (b0.length - 3)
  else parseBody E F special bytes.length isPositive b0

end MinLex.Front
