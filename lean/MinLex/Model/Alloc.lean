/-
  Cost model for property C15 (heap allocations): the exact number of heap allocations one
  `parse_float` call performs in an `alloc` build (HeapVec): one per `Bigint::new()` / `from_u64`
  (`Vec::with_capacity(62)`), one per `VecType::try_from` inside `long_mul` (the temporaries of a
  multiplication by LARGE_POW5), and NO re-allocation as long as no vector grows beyond the 62 limbs
  reserved at construction.  Builds without `alloc` use StackVec and allocate nothing.
  The harness measures the real count with a counting global allocator; the check requires equality.
-/
import MinLex.Model.Env
namespace MinLex

/-- heap allocations performed by `bigint::pow` on the heap back-end: each `large_mul` by LARGE_POW5 is a
    `long_mul(LARGE_POW5, x)`: one `try_from` for `z` plus one per non-zero limb of `x` after the first -/
def powAllocs (T : PowTables) : Nat → Big → Nat → Nat
  | 0, _, _ => 0
  | fuel + 1, x, e =>
    if !T.compact && T.largePow5Step ≠ 0 && e ≥ T.largePow5Step then
      match largeMul none x T.largePow5 with
      | none => 0
      | some x' =>
        (if T.largePow5.length == 1 then 0 else 1 + (x.drop 1).countP (· != 0)) + powAllocs T fuel x' (e - T.largePow5Step)
    else 0

/-- exact number of heap allocations of one `parse_float` call in an `alloc` build (cost model for C15) -/
def parseAllocs (E : Env) (F : FloatC) (int frac : List UInt8) (e : Int) : Nat :=
  let num := parseNumber int frac e
  match tryFastPath F (E.powFastPath F) (intPow10 E.cfg.compact E.pow.smallIntPow10) num with
  | some _ => 0
  | none =>
    match moderatePath E F num with
    | none => 0
    | some fp =>
      if fp.exp ≥ 0 then 0 else
      -- slow path: Bigint::new() in parse_mantissa
      match parseMantissa none E.pow int frac F.maxDigits with
      | none => 1
      | some (bigmant, digits) =>
        let exponent := wrapI32 (scientificExponent num + 1 - asI32 digits)
        if exponent ≥ 0 then 1 + powAllocs E.pow (exponent.toNat + 1) bigmant exponent.toNat
        else
          let fp1 : ExtFloat := ⟨fp.mant, wrapI32 (fp.exp - F.invalidFp)⟩
          let b := round F roundDown fp1
          let theor := fbh F (extendedToFloat F b)
          -- Bigint::from_u64 allocates; pow(5, -exponent) may take large steps
          1 + 1 + powAllocs E.pow ((-exponent).toNat + 1) (fromU64 theor.mant) (-exponent).toNat


end MinLex
